(* Proofs/CodecV5Round2.v -- decode after encode, body level: SUBSCRIBE, UNSUBSCRIBE, PUBLISH, CONNECT. *)
From Coq Require Import ZArith ZifyN ZifyBool Lia.
From MV Require Import Base.Prelude Base.Res Base.VarInt Base.Utf8 Model.CodecV5
  Proofs.VarIntProofs Proofs.CodecV5Fields Proofs.CodecV5Size Proofs.CodecV5Limit Proofs.CodecV5Props
  Proofs.CodecV5Round.
Ltac Zify.zify_post_hook ::= Z.div_mod_to_equations.

Definition subid_ok (v : N) : bool := (0 <? v) && (v <=? VI_MAX).

Lemma wits_opt_sub_id tbl o once : tbl P_SUB_ID = Some (KVarNZ, once) ->
  wits tbl (match o with Some id => w_sub_id id | None => wnop end) (oitemN P_SUB_ID o).
Proof. intros Et. destruct o; [eapply wits_sub_id; eassumption|apply wits_nop]. Qed.

(* ------------------------------------------------------------------ SUBSCRIBE *)
Definition sub_opts_ok (o : subscription_options) : bool :=
  qos_ok (so_qos o) && retain_handling_ok (so_retain_handling o).
Definition sub_filter_ok (fo : bytes * subscription_options) : bool := str_ok (fst fo) && sub_opts_ok (snd fo).
Definition subscribe_ok (s : subscribe) : bool :=
  id_ok (s_packet_id s) && opt_ok subid_ok (s_id s) && uprops_ok (s_user_properties s) &&
  forallb sub_filter_ok (s_topic_filters s).

Definition enc_sub_filter (fo : bytes * subscription_options) : bytes :=
  b_str (fst fo) ++ [subscription_options_byte (snd fo)].
Definition enc_sub_filters (l : list (bytes * subscription_options)) : bytes := flat_map enc_sub_filter l.

Lemma w_sub_filters_bytes l bs : w_sub_filters l = (bs, Ok tt) -> bs = enc_sub_filters l.
Proof.
  revert bs. induction l as [|[f o] r IH]; intros bs H; cbn [w_sub_filters] in H.
  - now apply wnop_inv in H.
  - apply wseq_inv in H as (x & y & E1 & E2 & ->). apply w_bytes_inv in E1 as [_ ->].
    apply wseq_inv in E2 as (x & y' & E1 & E2 & ->). apply wput_inv in E1. subst x.
    rewrite (IH _ E2). cbn [enc_sub_filters flat_map]. unfold enc_sub_filter. cbn [fst snd].
    now rewrite <- app_assoc.
Qed.

Lemma mem3 n : mem [0; 1; 2] n = true -> n <= 2.
Proof. unfold mem. cbn [existsb]. lia. Qed.

Lemma sub_opts_decode o r : sub_opts_ok o = true ->
  subscription_options_decode (subscription_options_byte o :: r) = Ok (o, r).
Proof.
  destruct o as [q nl rap rh]. unfold sub_opts_ok, subscription_options_byte. cbn [so_qos so_no_local
    so_retain_as_published so_retain_handling]. intros H. apply andb_true_iff in H as [Hq Hr].
  pose proof (mem3 _ Hq). pose proof (mem3 _ Hr).
  cbn [subscription_options_decode].
  assert (Hb1 : b2n nl <= 1) by (destruct nl; cbn; lia).
  assert (Hb2 : b2n rap <= 1) by (destruct rap; cbn; lia).
  set (v := q + b2n nl * 4 + b2n rap * 8 + rh * 16).
  assert (E1 : v mod 4 = q) by (unfold v; lia).
  assert (E2 : (v / 16) mod 4 = rh) by (unfold v; lia).
  assert (E3 : ((v / 4) mod 2 =? 1) = nl) by (unfold v; destruct nl; cbn [b2n]; lia).
  assert (E4 : ((v / 8) mod 2 =? 1) = rap) by (unfold v; destruct rap; cbn [b2n]; lia).
  rewrite E1, E2, E3, E4, Hq, Hr. reflexivity.
Qed.

Lemma subscribe_filters_enc l : forall fuel, (length l <= fuel)%nat -> forallb sub_filter_ok l = true ->
  subscribe_filters fuel (enc_sub_filters l) = Ok l.
Proof.
  induction l as [|[f o] r IH]; intros fuel Hf Hok.
  - destruct fuel; reflexivity.
  - cbn [forallb] in Hok. apply andb_true_iff in Hok as [H1 H2]. unfold sub_filter_ok in H1. cbn [fst snd] in H1.
    apply andb_true_iff in H1 as [Hs Ho]. unfold str_ok in Hs. apply andb_true_iff in Hs as [Hs1 Hs2].
    destruct fuel as [|k]; [cbn [length] in Hf; lia|].
    cbn [enc_sub_filters flat_map]. unfold enc_sub_filter at 1. cbn [fst snd].
    rewrite <- app_assoc. unfold b_str at 1. cbn [app subscribe_filters].
    change (len f / 256 :: len f mod 256 :: f ++ subscription_options_byte o :: flat_map enc_sub_filter r)
      with (b_str f ++ subscription_options_byte o :: enc_sub_filters r).
    rewrite dec_string_b by (assumption || lia). cbn [bind].
    rewrite sub_opts_decode by assumption. cbn [bind].
    rewrite IH; [reflexivity|cbn [length] in Hf; lia|assumption].
Qed.

Lemma len_ge_length_filters l : (length l <= length (enc_sub_filters l))%nat.
Proof.
  induction l as [|fo r IH]; [cbn; lia|]. cbn [enc_sub_filters flat_map length]. rewrite app_length.
  unfold enc_sub_filter at 1. rewrite app_length. cbn [length]. fold (enc_sub_filters r). lia.
Qed.

Lemma tbl_subscribe_user : tbl_subscribe P_USER = Some (KPair, false). Proof. reflexivity. Qed.

Lemma subscribe_roundtrip s lim sz bs :
  subscribe_encoded_size s lim <= VI_MAX -> subscribe_ok s = true ->
  subscribe_encode s sz = (bs, Ok tt) -> subscribe_decode bs = Ok s.
Proof.
  intros Hs Hok H. unfold subscribe_ok in Hok.
  apply andb_true_iff in Hok as [Hok Hfl]. apply andb_true_iff in Hok as [Hok Hup].
  apply andb_true_iff in Hok as [Hid Hsi]. unfold id_ok in Hid.
  unfold subscribe_encode, subscribe_encoded_size in *. set (PL := subscribe_prop_len s) in *.
  rewrite mod32_small in H by lia.
  apply wseq_inv in H as (x & y & E1 & E2 & ->). apply wput_inv in E1. subst x.
  apply wseq_inv in E2 as (vi & y' & Ev & E2 & ->). apply w_vi_inv in Ev.
  apply wseq_inv in E2 as (b1 & y'' & Eb1 & E2 & ->).
  apply wseq_inv in E2 as (b2 & fl & Eb2 & Efl & ->).
  assert (Hl1 : len (b1 ++ b2) = PL).
  { rewrite len_app, (wlen_opt_sub_id _ _ Eb1), (wlen_uprops _ _ Eb2). reflexivity. }
  assert (Hi : b1 ++ b2 = enc_items tbl_subscribe (oitemN P_SUB_ID (s_id s) ++ uitems (s_user_properties s) ++ [])).
  { rewrite app_nil_r, enc_items_app.
    rewrite (wits_opt_sub_id tbl_subscribe _ true eq_refl _ Eb1).
    now rewrite (wits_uprops tbl_subscribe _ false eq_refl _ Eb2). }
  apply w_sub_filters_bytes in Efl. subst fl.
  unfold subscribe_decode. change [s_packet_id s / 256; s_packet_id s mod 256] with (b_u16 (s_packet_id s)).
  rewrite dec_nz16_b by lia. cbn [bind].
  replace (vi ++ b1 ++ b2 ++ enc_sub_filters (s_topic_filters s))
    with (vi ++ (b1 ++ b2) ++ enc_sub_filters (s_topic_filters s)) by now rewrite <- !app_assoc.
  rewrite (take_properties_enc _ _ _ _ Ev Hl1). cbn [bind]. rewrite Hi.
  rewrite props_of_enc.
  2:{ eapply wf_oitemN; [reflexivity|reflexivity| |].
      { intros n E. rewrite E in Hsi. exact Hsi. }
      apply wf_uitems; [reflexivity|assumption|reflexivity]. }
  cbn [bind]. rewrite subscribe_filters_enc; [|apply len_ge_length_filters|assumption]. cbn [bind].
  autorewrite with bag. rewrite opt_eta, app_nil_r. destruct s; reflexivity.
Qed.

(* ------------------------------------------------------------------ UNSUBSCRIBE *)
Definition unsubscribe_ok (u : unsubscribe) : bool :=
  id_ok (u_packet_id u) && uprops_ok (u_user_properties u) && forallb str_ok (u_topic_filters u).

Definition enc_unsub_filters (l : list bytes) : bytes := flat_map b_str l.

Lemma w_unsub_filters_bytes l bs : w_unsub_filters l = (bs, Ok tt) -> bs = enc_unsub_filters l.
Proof.
  revert bs. induction l as [|f r IH]; intros bs H; cbn [w_unsub_filters] in H.
  - now apply wnop_inv in H.
  - apply wseq_inv in H as (x & y & E1 & E2 & ->). apply w_bytes_inv in E1 as [_ ->].
    now rewrite (IH _ E2).
Qed.

Lemma unsubscribe_filters_enc l : forall fuel, (length l <= fuel)%nat -> forallb str_ok l = true ->
  unsubscribe_filters fuel (enc_unsub_filters l) = Ok l.
Proof.
  induction l as [|f r IH]; intros fuel Hf Hok.
  - destruct fuel; reflexivity.
  - cbn [forallb] in Hok. apply andb_true_iff in Hok as [Hs H2].
    unfold str_ok in Hs. apply andb_true_iff in Hs as [Hs1 Hs2].
    destruct fuel as [|k]; [cbn [length] in Hf; lia|].
    cbn [enc_unsub_filters flat_map]. unfold b_str at 1. cbn [app unsubscribe_filters].
    change (len f / 256 :: len f mod 256 :: f ++ flat_map b_str r) with (b_str f ++ enc_unsub_filters r).
    rewrite dec_string_b by (assumption || lia). cbn [bind].
    rewrite IH; [reflexivity|cbn [length] in Hf; lia|assumption].
Qed.

Lemma len_ge_length_unsub l : (length l <= length (enc_unsub_filters l))%nat.
Proof.
  induction l as [|fo r IH]; [cbn; lia|]. cbn [enc_unsub_filters flat_map length]. rewrite app_length.
  unfold b_str at 1. cbn [length]. fold (enc_unsub_filters r). lia.
Qed.

Lemma unsubscribe_roundtrip u lim sz bs :
  unsubscribe_encoded_size u lim <= VI_MAX -> unsubscribe_ok u = true ->
  unsubscribe_encode u sz = (bs, Ok tt) -> unsubscribe_decode bs = Ok u.
Proof.
  intros Hs Hok H. unfold unsubscribe_ok in Hok.
  apply andb_true_iff in Hok as [Hok Hfl]. apply andb_true_iff in Hok as [Hid Hup]. unfold id_ok in Hid.
  unfold unsubscribe_encode, unsubscribe_encoded_size in *.
  rewrite mod32_small in H by lia.
  apply wseq_inv in H as (x & y & E1 & E2 & ->). apply wput_inv in E1. subst x.
  apply wseq_inv in E2 as (vi & y' & Ev & E2 & ->). apply w_vi_inv in Ev.
  apply wseq_inv in E2 as (b2 & fl & Eb2 & Efl & ->).
  pose proof (wlen_uprops _ _ Eb2) as Hl1.
  assert (Hi : b2 = enc_items tbl_unsubscribe (uitems (u_user_properties u) ++ [])).
  { rewrite app_nil_r. now rewrite (wits_uprops tbl_unsubscribe _ false eq_refl _ Eb2). }
  apply w_unsub_filters_bytes in Efl. subst fl.
  unfold unsubscribe_decode. change [u_packet_id u / 256; u_packet_id u mod 256] with (b_u16 (u_packet_id u)).
  rewrite dec_nz16_b by lia. cbn [bind].
  rewrite (take_properties_enc _ _ _ _ Ev Hl1). cbn [bind]. rewrite Hi.
  rewrite props_of_enc by (apply wf_uitems; [reflexivity|assumption|reflexivity]).
  cbn [bind]. rewrite unsubscribe_filters_enc; [|apply len_ge_length_unsub|assumption]. cbn [bind].
  autorewrite with bag. rewrite app_nil_r. destruct u; reflexivity.
Qed.

(* ------------------------------------------------------------------ PUBLISH *)
Definition nz32_ok (n : N) : bool := (0 <? n) && (n <? 4294967296).

Definition publish_props_ok (pp : publish_properties) : bool :=
  opt_ok id_ok (pp_topic_alias pp) && opt_ok bin_ok (pp_correlation_data pp) &&
  opt_ok nz32_ok (pp_message_expiry_interval pp) && opt_ok str_ok (pp_content_type pp) &&
  uprops_ok (pp_user_properties pp) && opt_ok str_ok (pp_response_topic pp) &&
  forallb subid_ok (pp_subscription_ids pp).

Definition publish_ok (p : publish) : bool :=
  str_ok (p_topic p) && qos_ok (p_qos p) && opt_ok id_ok (p_packet_id p) && publish_props_ok (p_properties p).

Definition publish_items (pp : publish_properties) : pbag :=
  oitemN P_TOPIC_ALIAS (pp_topic_alias pp) ++
  oitemB P_CORR_DATA (pp_correlation_data pp) ++
  oitemN P_MSG_EXPIRY_INT (pp_message_expiry_interval pp) ++
  oitemB P_CONTENT_TYPE (pp_content_type pp) ++
  oitemN P_UTF8_PAYLOAD (if Bool.eqb (pp_is_utf8_payload pp) false then None else Some (b2n (pp_is_utf8_payload pp))) ++
  oitemB P_RESP_TOPIC (pp_response_topic pp) ++
  sitems (pp_subscription_ids pp) ++
  uitems (pp_user_properties pp) ++ [].

Lemma publish_items_wf pp : publish_props_ok pp = true -> items_wf tbl_publish [] (publish_items pp) = true.
Proof.
  unfold publish_props_ok. intros H.
  repeat match type of H with (_ && _ = true) =>
    let H' := fresh "Hk" in apply andb_true_iff in H as [H H'] end.
  unfold publish_items.
  eapply wf_oitemN; [reflexivity|reflexivity|intros n E; rewrite E in H; exact H|].
  eapply wf_oitemB; [reflexivity|reflexivity|intros n E; rewrite E in Hk4; exact Hk4|].
  eapply wf_oitemN; [reflexivity|reflexivity|intros n E; rewrite E in Hk3; exact Hk3|].
  eapply wf_oitemB; [reflexivity|reflexivity|intros n E; rewrite E in Hk2; exact Hk2|].
  eapply wf_oitemN; [reflexivity|reflexivity| |].
  { intros n E. destruct (Bool.eqb _ _); [discriminate|]. injection E as <-.
    cbn [pval_ok]. destruct (pp_is_utf8_payload pp); reflexivity. }
  eapply wf_oitemB; [reflexivity|reflexivity|intros n E; rewrite E in Hk0; exact Hk0|].
  apply wf_sitems; [reflexivity|exact Hk|].
  apply wf_uitems; [reflexivity|assumption|reflexivity].
Qed.

Lemma publish_props_bytes pp blk :
  (w_prop w_u16 (pp_topic_alias pp) P_TOPIC_ALIAS >>>
   w_prop w_bytes (pp_correlation_data pp) P_CORR_DATA >>>
   w_prop w_u32 (pp_message_expiry_interval pp) P_MSG_EXPIRY_INT >>>
   w_prop w_bytes (pp_content_type pp) P_CONTENT_TYPE >>>
   w_prop_default w_bool (Bool.eqb (pp_is_utf8_payload pp) false) (pp_is_utf8_payload pp) P_UTF8_PAYLOAD >>>
   w_prop w_bytes (pp_response_topic pp) P_RESP_TOPIC >>>
   w_sub_ids (pp_subscription_ids pp) >>>
   w_uprops (pp_user_properties pp)) = (blk, Ok tt) ->
  blk = enc_items tbl_publish (publish_items pp) /\ len blk = publish_props_len pp.
Proof.
  intros H. split.
  - revert blk H. change (wits tbl_publish
      (w_prop w_u16 (pp_topic_alias pp) P_TOPIC_ALIAS >>>
       w_prop w_bytes (pp_correlation_data pp) P_CORR_DATA >>>
       w_prop w_u32 (pp_message_expiry_interval pp) P_MSG_EXPIRY_INT >>>
       w_prop w_bytes (pp_content_type pp) P_CONTENT_TYPE >>>
       w_prop_default w_bool (Bool.eqb (pp_is_utf8_payload pp) false) (pp_is_utf8_payload pp) P_UTF8_PAYLOAD >>>
       w_prop w_bytes (pp_response_topic pp) P_RESP_TOPIC >>>
       w_sub_ids (pp_subscription_ids pp) >>>
       w_uprops (pp_user_properties pp)) (publish_items pp)).
    unfold publish_items. eapply wits_eq; [wits_struct|]. now rewrite app_nil_r.
  - revert blk H. change (wlen
      (w_prop w_u16 (pp_topic_alias pp) P_TOPIC_ALIAS >>>
       w_prop w_bytes (pp_correlation_data pp) P_CORR_DATA >>>
       w_prop w_u32 (pp_message_expiry_interval pp) P_MSG_EXPIRY_INT >>>
       w_prop w_bytes (pp_content_type pp) P_CONTENT_TYPE >>>
       w_prop_default w_bool (Bool.eqb (pp_is_utf8_payload pp) false) (pp_is_utf8_payload pp) P_UTF8_PAYLOAD >>>
       w_prop w_bytes (pp_response_topic pp) P_RESP_TOPIC >>>
       w_sub_ids (pp_subscription_ids pp) >>>
       w_uprops (pp_user_properties pp)) (publish_props_len pp)).
    eapply wlen_eq; [wlen_struct|]. unfold publish_props_len. lia.
Qed.

(* the shape of what precedes the payload *)
Lemma publish_body_shape p lim body :
  publish_encoded_size p lim <= VI_MAX ->
  publish_body p (publish_encoded_size p lim) = (body, Ok tt) ->
  exists pidb vi blk,
    body = b_str (p_topic p) ++ pidb ++ vi ++ blk /\
    len (p_topic p) <= 65535 /\
    enc_vi (publish_props_len (p_properties p)) = Some vi /\
    len blk = publish_props_len (p_properties p) /\
    blk = enc_items tbl_publish (publish_items (p_properties p)) /\
    (if p_qos p =? 0 then pidb = [] /\ p_packet_id p = None
     else exists id, p_packet_id p = Some id /\ pidb = b_u16 id).
Proof.
  intros Hs H. pose proof (publish_size_props_le p lim) as Hp. unfold publish_body in H.
  apply wseq_inv in H as (hdr & props & Eh & Ep & ->).
  pose proof (publish_hdr_len p _ Eh) as Hlh. rewrite Hlh in Ep.
  unfold publish_encoded_size in *.
  set (pid := if p_qos p =? 0 then 0 else 2) in *.
  set (PP := publish_properties_encoded_size (p_properties p) lim) in *.
  rewrite mod32_small in Ep by lia. rewrite sub_chk_ok in Ep by lia. cbn [wlet] in Ep.
  replace (es_bytes (p_topic p) + pid + PP + p_payload_size p - (es_bytes (p_topic p) + pid + p_payload_size p))
    with PP in Ep by lia.
  unfold PP in Ep. rewrite ppes_eq in Ep. unfold publish_properties_encode in Ep.
  rewrite varlen_inverse in Ep by (unfold PP in *; rewrite ppes_eq in *; lia). cbn [wlet] in Ep.
  apply wseq_inv in Ep as (vi & blk & Ev & Eb & ->). apply w_vi_inv in Ev.
  apply publish_props_bytes in Eb as [Hblk Hlen].
  unfold publish_hdr in Eh. apply wseq_inv in Eh as (t & pidb & Et & Epid & ->).
  apply w_bytes_inv in Et as [Htl ->].
  exists pidb, vi, blk. split; [now rewrite <- !app_assoc|]. split; [assumption|].
  split; [assumption|]. split; [assumption|]. split; [assumption|].
  destruct (p_qos p =? 0); destruct (p_packet_id p) as [id|]; try discriminate.
  - apply wnop_inv in Epid. auto.
  - apply wput_inv in Epid. eauto.
Qed.

Lemma flags_qos_first_byte p : p_qos p <= 2 -> flags_qos (publish_first_byte p) = p_qos p.
Proof.
  intros H. unfold flags_qos, publish_first_byte, PT_PUBLISH_START.
  destruct (p_dup p), (p_retain p); cbn [b2n]; lia.
Qed.
Lemma dup_first_byte p : p_qos p <= 2 -> ((publish_first_byte p / 8) mod 2 =? 1) = p_dup p.
Proof.
  intros H. unfold publish_first_byte, PT_PUBLISH_START.
  destruct (p_dup p), (p_retain p); cbn [b2n]; lia.
Qed.
Lemma retain_first_byte p : p_qos p <= 2 -> (publish_first_byte p mod 2 =? 1) = p_retain p.
Proof.
  intros H. unfold publish_first_byte, PT_PUBLISH_START.
  destruct (p_dup p), (p_retain p); cbn [b2n]; lia.
Qed.
Lemma is_publish_first_byte p : p_qos p <= 2 -> is_publish (publish_first_byte p) = true.
Proof.
  intros H. unfold is_publish, publish_first_byte, PT_PUBLISH_START, PT_PUBLISH_END.
  destruct (p_dup p), (p_retain p); cbn [b2n]; lia.
Qed.

Lemma publish_roundtrip p lim body :
  publish_encoded_size p lim <= VI_MAX -> publish_ok p = true ->
  publish_body p (publish_encoded_size p lim) = (body, Ok tt) ->
  publish_decode body (publish_first_byte p) (p_payload_size p) = Ok p.
Proof.
  intros Hs Hok H. apply publish_body_shape in H as (pidb & vi & blk & -> & Htl & Ev & Hlen & Hblk & Hpid); [|assumption].
  unfold publish_ok in Hok.
  apply andb_true_iff in Hok as [Hok Hpp]. apply andb_true_iff in Hok as [Hok Hid].
  apply andb_true_iff in Hok as [Ht Hq]. unfold str_ok in Ht. apply andb_true_iff in Ht as [Ht1 Ht2].
  pose proof (mem3 _ Hq) as Hq2.
  unfold publish_decode. rewrite dec_string_b by assumption. cbn [bind].
  rewrite flags_qos_first_byte, dup_first_byte, retain_first_byte by assumption. rewrite Hq. cbn [ensure bind].
  assert (Hprops : parse_publish_properties (vi ++ blk) = Ok (p_properties p, [])).
  { unfold parse_publish_properties. rewrite <- (app_nil_r blk).
    rewrite (take_properties_enc _ _ _ _ Ev Hlen). cbn [bind]. rewrite Hblk.
    rewrite props_of_enc by now apply publish_items_wf. cbn [bind]. unfold publish_items.
    autorewrite with bag. rewrite ?opt_eta, !app_nil_r. rewrite dflt_bool_false.
    destruct (p_properties p); reflexivity. }
  destruct (p_qos p =? 0) eqn:Eq.
  - destruct Hpid as [-> Hnone]. cbn [app bind]. rewrite Hprops. cbn [bind].
    destruct p; cbn in *; subst; reflexivity.
  - destruct Hpid as (id & Hsome & ->). rewrite Hsome in Hid. cbn [opt_ok] in Hid. unfold id_ok in Hid.
    rewrite dec_nz16_b by lia. cbn [bind]. rewrite Hprops. cbn [bind].
    destruct p; cbn in *; subst; reflexivity.
Qed.

Lemma firstn_app_ge {A} n (a b : list A) : (length a <= n)%nat -> firstn n (a ++ b) = a ++ firstn (n - length a) b.
Proof. intros H. rewrite firstn_app. now rewrite firstn_all2 by assumption. Qed.

Lemma dec_vi_opt_enc' rl vi rest : enc_vi rl = Some vi -> dec_vi_opt (vi ++ rest) = Ok (Some (rl, len vi)).
Proof.
  intros H. unfold dec_vi_opt. rewrite (varint_roundtrip _ _ rest H). rewrite len_app. do 3 f_equal. lia.
Qed.

(* Publish::packet_header_size finds the end of the properties *)
Lemma publish_header_size p lim body rest rl :
  publish_encoded_size p lim <= VI_MAX -> publish_ok p = true ->
  publish_body p (publish_encoded_size p lim) = (body, Ok tt) ->
  len body <= rl ->
  packet_header_size (body ++ rest) (publish_first_byte p) rl = Ok (Some (len body)).
Proof.
  intros Hs Hok H Hrl.
  apply publish_body_shape in H as (pidb & vi & blk & -> & Htl & Ev & Hlen & Hblk & Hpid); [|assumption].
  unfold publish_ok in Hok.
  apply andb_true_iff in Hok as [Hok Hpp]. apply andb_true_iff in Hok as [Hok Hid].
  apply andb_true_iff in Hok as [Ht Hq]. pose proof (mem3 _ Hq) as Hq2.
  pose proof (enc_vi_len _ _ Ev) as Hlv. pose proof (var_int_len_pos (publish_props_len (p_properties p))) as Hvp.
  assert (Hpl : len pidb = if p_qos p =? 0 then 0 else 2).
  { destruct (p_qos p =? 0); [destruct Hpid as [-> _]; reflexivity|destruct Hpid as (id & _ & ->); reflexivity]. }
  rewrite !len_app, len_b_str in Hrl.
  unfold packet_header_size. replace (2 <=? rl) with true by lia. cbn [ensure bind].
  unfold b_str at 1. cbn [app].
  replace (len (p_topic p) / 256 * 256 + len (p_topic p) mod 256) with (len (p_topic p)) by lia.
  rewrite flags_qos_first_byte by assumption. rewrite Hq. cbn [ensure bind].
  set (len1 := if p_qos p =? 0 then len (p_topic p) + 2 else len (p_topic p) + 2 + 2).
  assert (Hlen1 : len1 = len (b_str (p_topic p) ++ pidb)).
  { rewrite len_app, len_b_str, Hpl. unfold len1. destruct (p_qos p =? 0); lia. }
  assert (Hl1 : len1 = len (p_topic p) + 2 + len pidb) by (unfold len1; rewrite Hpl; destruct (p_qos p =? 0); lia).
  replace (len1 <? rl) with true by lia. cbn [ensure bind].
  set (src := (b_str (p_topic p) ++ pidb ++ vi ++ blk) ++ rest).
  assert (Esrc : src = (b_str (p_topic p) ++ pidb) ++ vi ++ blk ++ rest).
  { unfold src. now rewrite <- !app_assoc. }
  assert (Hls : len src = len1 + len vi + len blk + len rest).
  { rewrite Esrc, !len_app, len_b_str. lia. }
  replace (len src <? len1) with false by lia.
  unfold slice. replace ((len1 <=? N.min (len src) rl) && (N.min (len src) rl <=? len src)) with true by lia.
  assert (Hsk : skipn (N.to_nat len1) src = vi ++ blk ++ rest) by (rewrite Esrc, Hlen1; apply skipn_len_app).
  cbn [bind]. rewrite Hsk.
  rewrite firstn_app_ge by (rewrite <- len_length; lia).
  rewrite (dec_vi_opt_enc' _ _ _ Ev). cbn [bind].
  replace (len1 + publish_props_len (p_properties p) + len vi <=? rl) with true by lia. cbn [ensure bind].
  do 2 f_equal. rewrite !len_app, len_b_str. lia.
Qed.

(* ------------------------------------------------------------------ CONNECT *)
Lemma wthen_assoc (a b c : wr) : (a >>> b) >>> c = a >>> b >>> c.
Proof.
  destruct a as [x [[]|e|p]]; cbn [wseq]; try reflexivity.
  destruct b as [y [[]|e|p]]; cbn [wseq]; try reflexivity.
  destruct c as [z r]. now rewrite app_assoc.
Qed.

Definition connect_props (c : connect) : wr :=
  w_prop_default w_u32 (c_session_expiry_interval_secs c =? 0) (c_session_expiry_interval_secs c)
                 P_SESS_EXPIRY_INT >>>
  w_prop w_bytes (c_auth_method c) P_AUTH_METHOD >>>
  w_prop w_bytes (c_auth_data c) P_AUTH_DATA >>>
  w_prop_default w_bool (Bool.eqb (c_request_problem_info c) true) (c_request_problem_info c) P_REQ_PROB_INFO >>>
  w_prop_default w_bool (Bool.eqb (c_request_response_info c) false) (c_request_response_info c)
                 P_REQ_RESP_INFO >>>
  w_prop w_u16 (c_receive_max c) P_RECEIVE_MAX >>>
  w_prop w_u32 (c_max_packet_size c) P_MAX_PACKET_SIZE >>>
  w_prop_default w_u16 (c_topic_alias_max c =? 0) (c_topic_alias_max c) P_TOPIC_ALIAS_MAX >>>
  w_uprops (c_user_properties c).

Definition will_props (w : last_will) : wr :=
  w_prop w_u32 (lw_will_delay_interval_sec w) P_WILL_DELAY_INT >>>
  w_prop w_bool (lw_is_utf8_payload w) P_UTF8_PAYLOAD >>>
  w_prop w_u32 (lw_message_expiry_interval w) P_MSG_EXPIRY_INT >>>
  w_prop w_bytes (lw_content_type w) P_CONTENT_TYPE >>>
  w_prop w_bytes (lw_response_topic w) P_RESP_TOPIC >>>
  w_prop w_bytes (lw_correlation_data w) P_CORR_DATA >>>
  w_uprops (lw_user_properties w).

Definition will_encode (w : last_will) : wr :=
  w_vi (will_properties_len w mod TWO32) >>> will_props w >>> w_bytes (lw_topic w) >>> w_bytes (lw_message w).

Lemma connect_encode_eq c sz :
  connect_encode c sz =
  w_bytes MQTT >>> wput [5; connect_flags c] >>> w_u16 (c_keep_alive c) >>>
  w_vi (connect_properties_len c mod TWO32) >>> connect_props c >>> w_bytes (c_client_id c) >>>
  match c_last_will c with Some w => will_encode w | None => wnop end >>>
  match c_username c with Some s => w_bytes s | None => wnop end >>>
  match c_password c with Some p => w_bytes p | None => wnop end.
Proof.
  unfold connect_encode, connect_props, will_encode, will_props.
  destruct (c_last_will c); rewrite !wthen_assoc; reflexivity.
Qed.

Definition connect_items (c : connect) : pbag :=
  oitemN P_SESS_EXPIRY_INT (if c_session_expiry_interval_secs c =? 0 then None
                            else Some (c_session_expiry_interval_secs c)) ++
  oitemB P_AUTH_METHOD (c_auth_method c) ++
  oitemB P_AUTH_DATA (c_auth_data c) ++
  oitemN P_REQ_PROB_INFO (if Bool.eqb (c_request_problem_info c) true then None
                          else Some (b2n (c_request_problem_info c))) ++
  oitemN P_REQ_RESP_INFO (if Bool.eqb (c_request_response_info c) false then None
                          else Some (b2n (c_request_response_info c))) ++
  oitemN P_RECEIVE_MAX (c_receive_max c) ++
  oitemN P_MAX_PACKET_SIZE (c_max_packet_size c) ++
  oitemN P_TOPIC_ALIAS_MAX (if c_topic_alias_max c =? 0 then None else Some (c_topic_alias_max c)) ++
  uitems (c_user_properties c) ++ [].

Definition will_items (w : last_will) : pbag :=
  oitemN P_WILL_DELAY_INT (lw_will_delay_interval_sec w) ++
  oitemN P_UTF8_PAYLOAD (option_map b2n (lw_is_utf8_payload w)) ++
  oitemN P_MSG_EXPIRY_INT (lw_message_expiry_interval w) ++
  oitemB P_CONTENT_TYPE (lw_content_type w) ++
  oitemB P_RESP_TOPIC (lw_response_topic w) ++
  oitemB P_CORR_DATA (lw_correlation_data w) ++
  uitems (lw_user_properties w) ++ [].

Lemma connect_props_wits c : wits tbl_connect (connect_props c) (connect_items c).
Proof. unfold connect_props, connect_items. eapply wits_eq; [wits_struct|]. now rewrite app_nil_r. Qed.
Lemma connect_props_wlen c : wlen (connect_props c) (connect_properties_len c).
Proof. unfold connect_props. eapply wlen_eq; [wlen_struct|]. unfold connect_properties_len. lia. Qed.
Lemma will_props_wits w : wits tbl_will (will_props w) (will_items w).
Proof. unfold will_props, will_items. eapply wits_eq; [wits_struct|]. now rewrite app_nil_r. Qed.
Lemma will_props_wlen w : wlen (will_props w) (will_properties_len w).
Proof. unfold will_props. eapply wlen_eq; [wlen_struct|]. unfold will_properties_len. lia. Qed.

Definition will_ok (w : last_will) : bool :=
  qos_ok (lw_qos w) && str_ok (lw_topic w) && bin_ok (lw_message w) &&
  opt_ok u32_ok (lw_will_delay_interval_sec w) && opt_ok bin_ok (lw_correlation_data w) &&
  opt_ok nz32_ok (lw_message_expiry_interval w) && opt_ok str_ok (lw_content_type w) &&
  uprops_ok (lw_user_properties w) && opt_ok str_ok (lw_response_topic w).

Definition connect_ok (c : connect) : bool :=
  u16_ok (c_keep_alive c) && u32_ok (c_session_expiry_interval_secs c) &&
  opt_ok str_ok (c_auth_method c) && opt_ok bin_ok (c_auth_data c) &&
  opt_ok id_ok (c_receive_max c) && u16_ok (c_topic_alias_max c) &&
  uprops_ok (c_user_properties c) && opt_ok nz32_ok (c_max_packet_size c) &&
  opt_ok will_ok (c_last_will c) && str_ok (c_client_id c) &&
  opt_ok str_ok (c_username c) && opt_ok bin_ok (c_password c).

Lemma connect_items_wf c : connect_ok c = true -> items_wf tbl_connect [] (connect_items c) = true.
Proof.
  unfold connect_ok. intros H.
  repeat match type of H with (_ && _ = true) =>
    let H' := fresh "Hk" in apply andb_true_iff in H as [H H'] end.
  unfold connect_items, u16_ok, u32_ok in *.
  repeat lazymatch goal with
    | |- items_wf _ _ (oitemN _ _ ++ _) = true => eapply wf_oitemN; [reflexivity|reflexivity| |]
    | |- items_wf _ _ (oitemB _ _ ++ _ ++ _) = true => eapply wf_oitemB; [reflexivity|reflexivity| |]
    | |- items_wf _ _ (uitems _ ++ []) = true => apply wf_uitems; [reflexivity|assumption|reflexivity]
    end.
  all: try (intros n E;
            match goal with
            | Hx : opt_ok _ ?o = true |- _ =>
              match type of E with o = Some _ => rewrite E in Hx; exact Hx end
            end).
  all: cbn [pval_ok]; intros n E.
  all: match type of E with (if ?c then _ else _) = _ => destruct c eqn:E' end; try discriminate;
       injection E as <-; try assumption.
  all: match goal with |- (b2n ?b <=? 1) = true => destruct b; reflexivity end.
Qed.

Lemma will_items_wf w : will_ok w = true -> items_wf tbl_will [] (will_items w) = true.
Proof.
  unfold will_ok. intros H.
  repeat match type of H with (_ && _ = true) =>
    let H' := fresh "Hk" in apply andb_true_iff in H as [H H'] end.
  unfold will_items, u32_ok in *.
  repeat lazymatch goal with
    | |- items_wf _ _ (oitemN _ _ ++ _) = true => eapply wf_oitemN; [reflexivity|reflexivity| |]
    | |- items_wf _ _ (oitemB _ _ ++ _ ++ _) = true => eapply wf_oitemB; [reflexivity|reflexivity| |]
    | |- items_wf _ _ (uitems _ ++ []) = true => apply wf_uitems; [reflexivity|assumption|reflexivity]
    end.
  all: try (intros n E;
            match goal with
            | Hx : opt_ok _ ?o = true |- _ =>
              match type of E with o = Some _ => rewrite E in Hx; exact Hx end
            end).
  intros n E. destruct (lw_is_utf8_payload w) as [[]|]; try discriminate; injection E as <-; reflexivity.
Qed.

Lemma will_roundtrip w bs flags r :
  will_properties_len w <= VI_MAX -> will_ok w = true ->
  will_encode w = (bs, Ok tt) ->
  (flags / 8) mod 4 = lw_qos w -> bit flags 32 = lw_retain w ->
  decode_last_will (bs ++ r) flags = Ok (w, r).
Proof.
  intros Hs Hok H Hq Hr. unfold will_encode in H. rewrite mod32_small in H by assumption.
  apply wseq_inv in H as (vi & y & Ev & E2 & ->). apply w_vi_inv in Ev.
  apply wseq_inv in E2 as (blk & y' & Eb & E2 & ->).
  apply wseq_inv in E2 as (t & m & Et & Em & ->).
  apply w_bytes_inv in Et as [Htl ->]. apply w_bytes_inv in Em as [Hml ->].
  pose proof (will_props_wlen w _ Eb) as Hlen. apply will_props_wits in Eb. subst blk.
  pose proof Hok as Hok'. unfold will_ok in Hok.
  repeat match type of Hok with (_ && _ = true) =>
    let H' := fresh "Hk" in apply andb_true_iff in Hok as [Hok H'] end.
  unfold str_ok in Hk6. apply andb_true_iff in Hk6 as [Ht1 Ht2].
  unfold decode_last_will. rewrite <- !app_assoc.
  rewrite (take_properties_enc _ _ _ _ Ev Hlen). cbn [bind].
  rewrite props_of_enc by now apply will_items_wf. cbn [bind].
  change (len (lw_topic w) / 256 :: len (lw_topic w) mod 256 :: lw_topic w) with (b_str (lw_topic w)).
  change (len (lw_message w) / 256 :: len (lw_message w) mod 256 :: lw_message w) with (b_str (lw_message w)).
  rewrite <- ?app_assoc. rewrite dec_string_b by assumption. cbn [bind].
  rewrite dec_bytes_b by (unfold bin_ok in *; lia). cbn [bind].
  rewrite Hq, Hok. cbn [ensure bind]. rewrite Hr. unfold will_items.
  autorewrite with bag. rewrite ?opt_eta, !app_nil_r.
  assert (E : option_map (fun n => n =? 1) (option_map b2n (lw_is_utf8_payload w)) = lw_is_utf8_payload w).
  { destruct (lw_is_utf8_payload w) as [[]|]; reflexivity. }
  rewrite E. destruct w; reflexivity.
Qed.

Lemma connect_flags_bits c :
  opt_ok (fun w => lw_qos w <=? 2) (c_last_will c) = true ->
  let f := connect_flags c in
  f < 256 /\ f mod 2 = 0 /\ bit f 2 = c_clean_start c /\ bit f 4 = is_some (c_last_will c) /\
  bit f 128 = is_some (c_username c) /\ bit f 64 = is_some (c_password c) /\
  (forall w, c_last_will c = Some w -> (f / 8) mod 4 = lw_qos w /\ bit f 32 = lw_retain w).
Proof.
  unfold connect_flags, bit.
  destruct (c_username c), (c_password c), (c_clean_start c), (c_last_will c) as [w|]; cbn [is_some opt_ok];
    intros Hq; try (destruct (lw_retain w) eqn:Er);
    repeat split; try lia; try discriminate;
    try (match goal with H : Some _ = Some _ |- _ => injection H as <- end; rewrite ?Er; lia).
Qed.

Lemma connect_roundtrip c lim sz bs :
  connect_encoded_size c lim <= VI_MAX -> connect_ok c = true ->
  connect_encode c sz = (bs, Ok tt) -> connect_decode bs = Ok c.
Proof.
  intros Hs Hok H. rewrite connect_encode_eq in H.
  assert (Hcpl : connect_properties_len c <= VI_MAX).
  { unfold connect_encoded_size in Hs. lia. }
  assert (Hwpl : forall w, c_last_will c = Some w -> will_properties_len w <= VI_MAX).
  { intros w E. unfold connect_encoded_size in Hs. rewrite E in Hs. lia. }
  rewrite mod32_small in H by assumption.
  apply wseq_inv in H as (x1 & y & E1 & H & ->). apply w_bytes_inv in E1 as [_ ->].
  apply wseq_inv in H as (x2 & y' & E2 & H & ->). apply wput_inv in E2. subst x2.
  apply wseq_inv in H as (x3 & y'' & E3 & H & ->). apply wput_inv in E3. subst x3.
  apply wseq_inv in H as (vi & y3 & Ev & H & ->). apply w_vi_inv in Ev.
  apply wseq_inv in H as (blk & y4 & Eb & H & ->).
  apply wseq_inv in H as (cid & y5 & Ec & H & ->). apply w_bytes_inv in Ec as [Hcl ->].
  apply wseq_inv in H as (wb & y6 & Ew & H & ->).
  apply wseq_inv in H as (ub & pb & Eu & Ep & ->).
  pose proof (connect_props_wlen c _ Eb) as Hlen. apply connect_props_wits in Eb. subst blk.
  pose proof Hok as Hok'. unfold connect_ok in Hok.
  repeat match type of Hok with (_ && _ = true) =>
    let H' := fresh "Hk" in apply andb_true_iff in Hok as [Hok H'] end.
  assert (Hwq : opt_ok (fun w => lw_qos w <=? 2) (c_last_will c) = true).
  { destruct (c_last_will c) as [w|]; [|reflexivity]. cbn [opt_ok] in *. unfold will_ok in Hk2.
    repeat (apply andb_true_iff in Hk2 as [Hk2 _]). apply mem3 in Hk2. lia. }
  destruct (connect_flags_bits c Hwq) as (Hf256 & Hf0 & Hf2 & Hf4 & Hf128 & Hf64 & Hfw).
  set (flags := connect_flags c) in *.
  unfold u16_ok, u32_ok in *.
  unfold connect_decode.
  assert (Hl10 : 10 <=? len ((len MQTT / 256 :: len MQTT mod 256 :: MQTT) ++ [5; flags] ++
      [c_keep_alive c / 256; c_keep_alive c mod 256] ++ vi ++ enc_items tbl_connect (connect_items c) ++
      (len (c_client_id c) / 256 :: len (c_client_id c) mod 256 :: c_client_id c) ++ wb ++ ub ++ pb) = true).
  { rewrite !len_app, !len_cons. pose proof (eq_refl : len MQTT = 4). lia. }
  rewrite Hl10. cbn [ensure bind].
  unfold MQTT. cbn [app].
  match goal with |- context [ensure ?c DE_InvalidProtocol] => replace c with true by reflexivity end.
  cbn [ensure bind]. change (5 =? 5) with true. cbn [ensure bind].
  replace (flags mod 2 =? 0) with true by lia. cbn [ensure bind].
  rewrite (take_properties_enc _ _ _ _ Ev Hlen). cbn [bind].
  rewrite props_of_enc by now apply connect_items_wf. cbn [bind].
  change (len (c_client_id c) / 256 :: len (c_client_id c) mod 256 :: c_client_id c ++ wb ++ ub ++ pb)
    with (b_str (c_client_id c) ++ wb ++ ub ++ pb).
  unfold str_ok in Hk1. apply andb_true_iff in Hk1 as [Hc1 Hc2].
  rewrite dec_string_b by assumption. cbn [bind].
  rewrite Hf2, Hf4, Hf128, Hf64.
  replace (c_keep_alive c / 256 * 256 + c_keep_alive c mod 256) with (c_keep_alive c) by lia.
  assert (Eprops :
    mkConnect (c_clean_start c) (c_keep_alive c)
      (dflt (bag_n P_SESS_EXPIRY_INT (connect_items c)) 0)
      (bag_b P_AUTH_METHOD (connect_items c)) (bag_b P_AUTH_DATA (connect_items c))
      (dflt (bag_bool P_REQ_PROB_INFO (connect_items c)) true)
      (dflt (bag_bool P_REQ_RESP_INFO (connect_items c)) false)
      (bag_n P_RECEIVE_MAX (connect_items c))
      (dflt (bag_n P_TOPIC_ALIAS_MAX (connect_items c)) 0)
      (bag_pairs P_USER (connect_items c))
      (bag_n P_MAX_PACKET_SIZE (connect_items c))
      (c_last_will c) (c_client_id c) (c_username c) (c_password c) = c).
  { unfold connect_items. autorewrite with bag. rewrite ?opt_eta, !app_nil_r.
    rewrite dflt_bool_true, dflt_bool_false.
    replace (dflt (if c_session_expiry_interval_secs c =? 0 then None else Some (c_session_expiry_interval_secs c)) 0)
      with (c_session_expiry_interval_secs c)
      by (destruct (c_session_expiry_interval_secs c =? 0) eqn:E; cbn [dflt]; lia).
    replace (dflt (if c_topic_alias_max c =? 0 then None else Some (c_topic_alias_max c)) 0)
      with (c_topic_alias_max c)
      by (destruct (c_topic_alias_max c =? 0) eqn:E; cbn [dflt]; lia).
    destruct c; reflexivity. }
  (* will *)
  match goal with |- bind ?X _ = _ => assert (Ewill : X = Ok (c_last_will c, ub ++ pb)) end.
  { destruct (c_last_will c) as [w|] eqn:Ewl; cbn [is_some].
    - destruct (Hfw w eq_refl) as [Hq Hr]. cbn [opt_ok] in Hk2.
      rewrite (will_roundtrip w wb flags (ub ++ pb)); auto.
    - apply wnop_inv in Ew. subst wb. reflexivity. }
  rewrite Ewill. cbn [bind].
  match goal with |- bind ?X _ = _ => assert (Euser : X = Ok (c_username c, pb)) end.
  { destruct (c_username c) as [u|]; cbn [is_some opt_ok] in *.
    - apply w_bytes_inv in Eu as [Hul ->]. unfold str_ok in Hk0. apply andb_true_iff in Hk0 as [Hu1 Hu2].
      change (len u / 256 :: len u mod 256 :: u) with (b_str u). rewrite dec_string_b by assumption. reflexivity.
    - apply wnop_inv in Eu. subst ub. reflexivity. }
  rewrite Euser. cbn [bind].
  match goal with |- bind ?X _ = _ => assert (Epass : exists r5, X = Ok (c_password c, r5)) end.
  { destruct (c_password c) as [p|]; cbn [is_some opt_ok] in *.
    - apply w_bytes_inv in Ep as [Hpl ->]. exists [].
      change (len p / 256 :: len p mod 256 :: p) with (b_str p).
      rewrite <- (app_nil_r (b_str p)). rewrite dec_bytes_b by (unfold bin_ok in *; lia). reflexivity.
    - exists pb. reflexivity. }
  destruct Epass as [r5 Epass]. rewrite Epass. cbn [bind]. f_equal. exact Eprops.
Qed.
