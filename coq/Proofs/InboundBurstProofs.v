(* Proofs/InboundBurstProofs.v -- the burst engines (Model/InboundBurst.v) are the server model of Model/Inbound.v:
   on operation lists without a held write they compute the same observations *)
From MV Require Import Base.Prelude Model.RespQueue Model.Inbound Model.InboundBurst.

Lemma settle_not_held f s : not_held f = true -> settle_op f s = run_all 400 (step_op f s).
Proof. unfold not_held, settle_op. destruct (is_hold f); [discriminate|reflexivity]. Qed.

Lemma run_ops_b_no_hold : forall ops s, forallb not_held ops = true -> run_ops_b ops s = run_ops ops s.
Proof.
  induction ops as [|f r IH]; intros s H; cbn [run_ops_b run_ops]; [reflexivity|].
  cbn [forallb] in H. apply andb_true_iff in H as [Hf Hr].
  rewrite (settle_not_held f s Hf). cbv zeta. f_equal. apply IH; exact Hr.
Qed.

Lemma any_panic_b_no_hold : forall ops s, forallb not_held ops = true -> any_panic_b ops s = any_panic ops s.
Proof.
  induction ops as [|f r IH]; intros s H; cbn [any_panic_b any_panic]; [reflexivity|].
  cbn [forallb] in H. apply andb_true_iff in H as [Hf Hr].
  rewrite (settle_not_held f s Hf). cbv zeta. f_equal. apply IH; exact Hr.
Qed.

Lemma run_inb_b_no_hold : forall is5 cf ops, forallb not_held ops = true ->
  run_inb_b is5 (cf :: ops) = run_inb is5 (cf :: ops).
Proof.
  intros is5 cf ops H. unfold run_inb_b, run_inb.
  rewrite (any_panic_b_no_hold ops _ H), (run_ops_b_no_hold ops _ H). reflexivity.
Qed.

(* a held write only appends to the peer's channel and marks the io task runnable: nothing is decoded, no handler
   starts, nothing is written *)
Lemma held_write_runs_nothing : forall f s, is_hold f = true ->
  settle_op f s = step_op (tl f) s.
Proof. intros f s H. unfold settle_op. rewrite H. reflexivity. Qed.
