(* Proofs/CodecV5Layout.v -- the bytes written by the MQTT 5 encoder model are accepted by the independent
   decoder of Spec/SpecV5.v and mean the packet that was encoded (v5_layout_<kind>). *)
From Coq Require Import ZArith ZifyN ZifyBool Lia.
From MV Require Import Base.Prelude Base.Res Base.VarInt Base.Utf8 Model.CodecV5 Spec.SpecV5
  Proofs.VarIntProofs Proofs.CodecV5Fields Proofs.CodecV5Size Proofs.CodecV5Limit Proofs.CodecV5Props
  Proofs.CodecV5Round Proofs.CodecV5Round2.
Ltac Zify.zify_post_hook ::= Z.div_mod_to_equations.

(* ------------------------------------------------------------------ 1.5 data representation *)
Lemma s_varint_enc n vi r : enc_vi n = Some vi -> s_varint (vi ++ r) = Some (n, r).
Proof.
  unfold enc_vi, VI_MAX.
  destruct (n <=? 127) eqn:E1.
  { intros [= <-]. unfold s_varint. cbn [app s_varint_go].
    replace (n <? 128) with true by lia. cbn [orb]. f_equal. f_equal. lia. }
  destruct (n <=? 16383) eqn:E2.
  { intros [= <-]. unfold s_varint. cbn [app s_varint_go].
    replace (n mod 128 + 128 <? 128) with false by lia.
    replace (n / 128 <? 128) with true by lia. replace (n / 128 =? 0) with false by lia.
    cbn [orb negb]. f_equal. f_equal. lia. }
  destruct (n <=? 2097151) eqn:E3.
  { intros [= <-]. unfold s_varint. cbn [app s_varint_go].
    replace (n mod 128 + 128 <? 128) with false by lia.
    replace ((n / 128) mod 128 + 128 <? 128) with false by lia.
    replace (n / 16384 <? 128) with true by lia. replace (n / 16384 =? 0) with false by lia.
    cbn [orb negb]. f_equal. f_equal. lia. }
  destruct (n <=? 268435455) eqn:E4; [|discriminate].
  intros [= <-]. unfold s_varint. cbn [app s_varint_go].
  replace (n mod 128 + 128 <? 128) with false by lia.
  replace ((n / 128) mod 128 + 128 <? 128) with false by lia.
  replace ((n / 16384) mod 128 + 128 <? 128) with false by lia.
  replace (n / 2097152 <? 128) with true by lia. replace (n / 2097152 =? 0) with false by lia.
  cbn [orb negb]. f_equal. f_equal. lia.
Qed.

Lemma s_u16_b n r : n < 65536 -> s_u16 (b_u16 n ++ r) = Some (n, r).
Proof. intros. cbn. f_equal. f_equal. lia. Qed.
Lemma s_u32_b n r : n < 4294967296 -> s_u32 (b_u32 n ++ r) = Some (n, r).
Proof. intros. cbn. f_equal. f_equal. lia. Qed.
Lemma s_bin_b b r : len b <= 65535 -> s_bin (b_str b ++ r) = Some (b, r).
Proof.
  intros. unfold s_bin, b_str. cbn [app s_u16].
  replace (len b / 256 * 256 + len b mod 256) with (len b) by lia.
  rewrite len_app. replace (len b <=? len b + len r) with true by lia.
  now rewrite firstn_len_app, skipn_len_app.
Qed.
Lemma s_str_b b r : len b <= 65535 -> s_text_ok b = true -> s_str (b_str b ++ r) = Some (b, r).
Proof. intros H T. unfold s_str. rewrite s_bin_b by assumption. now rewrite T. Qed.

Lemma elem_mem n l : elem n l = mem l n.
Proof. reflexivity. Qed.

(* ------------------------------------------------------------------ property values *)
Definition kwire (k : pkind) : wire :=
  match k with
  | KBool | KQoS => WByte
  | KU16 | KNZ16 => WTwo
  | KU32 | KNZ32 => WFour
  | KBytes => WBin
  | KStr => WStr
  | KVarNZ => WVar
  | KPair => WPair
  end.

Definition sval_text_ok (w : wire) (v : sval) : bool :=
  match w, v with
  | WStr, SB b => s_text_ok b
  | WPair, SP k x => s_text_ok k && s_text_ok x
  | _, _ => true
  end.

Lemma s_value_enc k v r :
  pval_ok k v = true -> sval_text_ok (kwire k) (sv v) = true ->
  s_value (kwire k) (enc_pval k v ++ r) = Some (sv v, r).
Proof.
  destruct k, v; cbn [pval_ok enc_pval kwire sv sval_text_ok s_value]; try discriminate; intros H T.
  - reflexivity.
  - rewrite s_u16_b by lia. reflexivity.
  - rewrite s_u32_b by lia. reflexivity.
  - rewrite s_u16_b by lia. reflexivity.
  - rewrite s_u32_b by lia. reflexivity.
  - unfold bin_ok in H. rewrite s_bin_b by lia. reflexivity.
  - unfold str_ok in H. apply andb_true_iff in H as [H1 H2]. rewrite s_str_b by (assumption || lia). reflexivity.
  - reflexivity.
  - assert (Hn : n <= VI_MAX) by lia. destruct (enc_vi_some n Hn) as [b E]. unfold b_vi. rewrite E.
    rewrite (s_varint_enc _ _ _ E). reflexivity.
  - apply andb_true_iff in H as [H1 H2]. unfold str_ok in *.
    apply andb_true_iff in H1 as [? ?]. apply andb_true_iff in H2 as [? ?]. apply andb_true_iff in T as [? ?].
    rewrite <- app_assoc. rewrite s_str_b by (assumption || lia). rewrite s_str_b by (assumption || lia). reflexivity.
Qed.

(* the model's table for a packet agrees with table 2-4 of the standard *)
Definition table_compat (tbl : ptable) (ptype : N) : Prop :=
  forall id k once, tbl id = Some (k, once) ->
    exists pkts, prop_lookup id = Some (kwire k, pkts) /\ elem ptype pkts = true /\
                 once = negb (prop_multi ptype id).

Definition wire_eqb (a b : wire) : bool :=
  match a, b with
  | WByte, WByte | WTwo, WTwo | WFour, WFour | WVar, WVar | WStr, WStr | WBin, WBin | WPair, WPair => true
  | _, _ => false
  end.
Lemma wire_eqb_eq a b : wire_eqb a b = true -> a = b.
Proof. destruct a, b; (reflexivity || discriminate). Qed.

Definition compat_b (l : list (N * (pkind * bool))) (ptype : N) : bool :=
  forallb (fun e =>
    match prop_lookup (fst e) with
    | Some (w, pkts) =>
      wire_eqb w (kwire (fst (snd e))) && elem ptype pkts &&
      Bool.eqb (snd (snd e)) (negb (prop_multi ptype (fst e)))
    | None => false
    end) l.

Lemma tbl_of_compat l ptype : compat_b l ptype = true -> table_compat (tbl_of l) ptype.
Proof.
  intros H id k once Et. unfold tbl_of in Et.
  destruct (find (fun e => fst e =? id) l) as [e|] eqn:Ef; [|discriminate].
  apply find_some in Ef as [Hin Hid]. apply N.eqb_eq in Hid. injection Et as Et.
  unfold compat_b in H. rewrite forallb_forall in H. specialize (H e Hin). rewrite Hid in H.
  destruct (prop_lookup id) as [[w pkts]|]; [|discriminate]. rewrite Et in H. cbn [fst snd] in H.
  apply andb_true_iff in H as [H H3]. apply andb_true_iff in H as [H1 H2].
  apply wire_eqb_eq in H1. subst w. exists pkts. split; [reflexivity|]. split; [assumption|].
  now apply Bool.eqb_prop in H3.
Qed.

Lemma compat_ack_puback : table_compat tbl_ack T_PUBACK. Proof. apply tbl_of_compat. reflexivity. Qed.
Lemma compat_ack_pubrec : table_compat tbl_ack T_PUBREC. Proof. apply tbl_of_compat. reflexivity. Qed.
Lemma compat_ack_pubrel : table_compat tbl_ack T_PUBREL. Proof. apply tbl_of_compat. reflexivity. Qed.
Lemma compat_ack_pubcomp : table_compat tbl_ack T_PUBCOMP. Proof. apply tbl_of_compat. reflexivity. Qed.
Lemma compat_ack_suback : table_compat tbl_ack T_SUBACK. Proof. apply tbl_of_compat. reflexivity. Qed.
Lemma compat_ack_unsuback : table_compat tbl_ack T_UNSUBACK. Proof. apply tbl_of_compat. reflexivity. Qed.
Lemma compat_publish : table_compat tbl_publish T_PUBLISH. Proof. apply tbl_of_compat. reflexivity. Qed.
Lemma compat_connect : table_compat tbl_connect T_CONNECT. Proof. apply tbl_of_compat. reflexivity. Qed.
Lemma compat_will : table_compat tbl_will T_WILL. Proof. apply tbl_of_compat. reflexivity. Qed.
Lemma compat_connack : table_compat tbl_connack T_CONNACK. Proof. apply tbl_of_compat. reflexivity. Qed.
Lemma compat_subscribe : table_compat tbl_subscribe T_SUBSCRIBE. Proof. apply tbl_of_compat. reflexivity. Qed.
Lemma compat_unsubscribe : table_compat tbl_unsubscribe T_UNSUBSCRIBE. Proof. apply tbl_of_compat. reflexivity. Qed.
Lemma compat_disconnect : table_compat tbl_disconnect T_DISCONNECT. Proof. apply tbl_of_compat. reflexivity. Qed.
Lemma compat_auth : table_compat tbl_auth T_AUTH. Proof. apply tbl_of_compat. reflexivity. Qed.

Lemma sitems_app a b : to_sprops (a ++ b) = to_sprops a ++ to_sprops b.
Proof. apply map_app. Qed.

Lemma sval_legal_text id v w pkts :
  sval_legal id (sv v) = true -> prop_lookup id = Some (w, pkts) ->
  prop_value_ok id (sv v) = true /\ sval_text_ok w (sv v) = true.
Proof.
  unfold sval_legal. intros H E. apply andb_true_iff in H as [H1 H2]. split; [assumption|].
  destruct v; cbn [sv sval_text_ok] in *.
  - now destruct w.
  - rewrite E in H2. now destruct w.
  - now destruct w.
Qed.

Lemma s_props_enc tbl ptype its : table_compat tbl ptype ->
  forall fuel seen, items_wf tbl seen its = true -> sprops_legal (to_sprops its) = true ->
  (length its <= fuel)%nat ->
  s_props fuel ptype seen (enc_items tbl its) = Some (to_sprops its).
Proof.
  intros Hc. induction its as [|[id v] r IH]; intros fuel seen Hwf Hl Hf.
  - destruct fuel; reflexivity.
  - rewrite enc_items_cons. unfold enc_item. cbn [fst snd]. cbn [items_wf] in Hwf. unfold tkind.
    destruct (tbl id) as [[k once]|] eqn:Et; [|discriminate].
    apply andb_true_iff in Hwf as [H H3]. apply andb_true_iff in H as [H1 H2].
    destruct (Hc id k once Et) as (pkts & Elk & Epk & Eonce).
    cbn [to_sprops map fst snd sprops_legal forallb] in Hl. apply andb_true_iff in Hl as [Hl1 Hl2].
    destruct (sval_legal_text _ _ _ _ Hl1 Elk) as [Hv Ht].
    destruct fuel as [|f]; [cbn [length] in Hf; lia|].
    cbn [app s_props]. rewrite Elk, Epk. cbn [andb].
    assert (Hseen : prop_multi ptype id || negb (elem id seen) = true).
    { rewrite Eonce in H1. destruct (prop_multi ptype id); [reflexivity|]. cbn [negb andb orb] in *.
      rewrite elem_mem. exact H1. }
    rewrite Hseen. rewrite s_value_enc by assumption. rewrite Hv.
    rewrite (IH f (id :: seen)); [reflexivity|exact H3|exact Hl2|cbn [length] in Hf; lia].
Qed.

Lemma length_items_le tbl its : (length its <= length (enc_items tbl its))%nat.
Proof.
  induction its as [|e r IH]; [cbn; lia|]. rewrite enc_items_cons, app_length. unfold enc_item. cbn [length]. lia.
Qed.

Lemma s_prop_block_enc tbl ptype its vi blk r :
  table_compat tbl ptype -> items_wf tbl [] its = true -> sprops_legal (to_sprops its) = true ->
  blk = enc_items tbl its -> enc_vi (len blk) = Some vi ->
  s_prop_block ptype (vi ++ blk ++ r) = Some (to_sprops its, r).
Proof.
  intros Hc Hwf Hl -> Ev. unfold s_prop_block. rewrite (s_varint_enc _ _ _ Ev).
  rewrite len_app. replace (len (enc_items tbl its) <=? len (enc_items tbl its) + len r) with true by lia.
  rewrite firstn_len_app, skipn_len_app.
  rewrite (s_props_enc tbl ptype its Hc); [reflexivity|assumption|assumption|].
  rewrite app_length. pose proof (length_items_le tbl its). lia.
Qed.

(* ------------------------------------------------------------------ the frame *)
Lemma spec_frame fb sz w body r q :
  is_frame fb sz w body -> len body = sz -> fb < 256 ->
  fixed_flags_ok (fb / 16) (fb mod 16) = true ->
  s_body (fb / 16) (fb mod 16) body = Some q ->
  spec_decode5 (w ++ r) = Some (q, r).
Proof.
  intros (vi & Ev & ->) Hl Hfb Hfl Hb. cbn [app spec_decode5].
  replace (fb <? 256) with true by lia. rewrite Hfl. rewrite <- app_assoc. rewrite (s_varint_enc _ _ _ Ev).
  rewrite len_app. replace (sz <=? len body + len r) with true by lia.
  rewrite <- Hl. rewrite firstn_len_app, skipn_len_app. now rewrite Hb.
Qed.

(* ------------------------------------------------------------------ acknowledgement properties, full *)
Lemma diag_items_eq ups reason : uitems ups ++ oitemB P_REASON_STRING reason ++ [] = diag_items ups reason.
Proof. rewrite app_nil_r. reflexivity. Qed.

Lemma ack_props_shape ups reason lim bs :
  lim <= VI_MAX -> 4 + diag_size ups reason <= lim ->
  ack_props_encode ups reason (ack_props_encoded_size ups reason lim) = (bs, Ok tt) ->
  exists vi blk, bs = vi ++ blk /\ enc_vi (len blk) = Some vi /\
    blk = enc_items tbl_ack (diag_items ups reason).
Proof.
  intros Hl Hf H. unfold ack_props_encoded_size, ack_props_encode in H.
  replace (lim <? 4) with false in H by lia.
  rewrite esop_full in H by lia. set (l := diag_size ups reason) in *.
  pose proof (var_int_len_pos l) as Hv.
  replace (var_int_len l + l =? 0) with false in H by lia.
  destruct (var_int_len l + l =? 1) eqn:E1.
  - assert (Hl0 : l = 0) by lia. destruct (diag_size_0 ups reason Hl0) as [-> ->].
    cbn in H. injection H as <-. exists [0], []. repeat split; reflexivity.
  - rewrite varlen_inverse' in H by lia. cbn [wlet] in H.
    apply wseq_inv in H as (vi & blk & Ev & Eb & ->). apply w_vi_inv in Ev.
    assert (Hlen : len blk = l).
    { pose proof (eop_len ups reason l) as HH. rewrite esop_full in HH by (unfold l; lia). exact (HH _ Eb). }
    apply (eop_items tbl_ack _ _ _ _ _ _ tbl_ack_user tbl_ack_reason) in Eb as (ups' & reason' & _ & _ & -> & Hfull).
    destruct (Hfull ltac:(unfold l; lia)) as [-> ->].
    exists vi, (enc_items tbl_ack (uitems ups ++ oitemB P_REASON_STRING reason ++ [])).
    rewrite Hlen. rewrite diag_items_eq. repeat split; assumption.
Qed.

Lemma diag_items_wf_full tbl seen ups reason :
  tbl P_USER = Some (KPair, false) -> tbl P_REASON_STRING = Some (KStr, true) ->
  mem (P_USER :: seen) P_REASON_STRING = false ->
  uprops_ok ups = true -> opt_ok str_ok reason = true ->
  items_wf tbl seen (diag_items ups reason) = true.
Proof. intros. rewrite <- diag_items_eq. now apply diag_items_wf. Qed.

Lemma s_ack_enc ptype codes pid rc ups reason vi blk :
  0 < pid < 65536 -> elem rc codes = true -> table_compat tbl_ack ptype ->
  uprops_ok ups = true -> opt_ok str_ok reason = true ->
  sprops_legal (to_sprops (diag_items ups reason)) = true ->
  enc_vi (len blk) = Some vi -> blk = enc_items tbl_ack (diag_items ups reason) ->
  s_ack ptype codes (b_u16 pid ++ [rc] ++ vi ++ blk) = Some (SAck ptype pid rc (to_sprops (diag_items ups reason))).
Proof.
  intros Hp Hrc Hc Hu Hr Hl Ev Hb. unfold s_ack. rewrite s_u16_b by lia.
  replace (0 <? pid) with true by lia. pose proof (enc_vi_nonempty _ _ Ev) as Hne.
  destruct vi as [|v0 vt]; [congruence|]. cbn [app]. rewrite Hrc.
  change (v0 :: vt ++ blk) with ((v0 :: vt) ++ blk). rewrite <- (app_nil_r blk).
  rewrite (s_prop_block_enc tbl_ack ptype (diag_items ups reason) _ blk []); try assumption.
  - reflexivity.
  - apply diag_items_wf_full; try reflexivity; assumption.
Qed.

Lemma mem_elem_codes l n : mem l n = true -> elem n l = true.
Proof. exact (fun H => H). Qed.

Lemma publish_ack_layout ptype a lim bs :
  table_compat tbl_ack ptype ->
  lim <= VI_MAX -> 11 + diag_size (pa_properties a) (pa_reason_string a) <= lim ->
  publish_ack_ok a = true ->
  sprops_legal (to_sprops (diag_items (pa_properties a) (pa_reason_string a))) = true ->
  publish_ack_encode a (publish_ack_encoded_size a lim) = (bs, Ok tt) ->
  s_ack ptype rc_puback bs =
    Some (SAck ptype (pa_packet_id a) (pa_reason_code a)
               (to_sprops (diag_items (pa_properties a) (pa_reason_string a)))).
Proof.
  intros Hc Hl Hf Hok Hlg H. unfold publish_ack_ok, id_ok in Hok.
  apply andb_true_iff in Hok as [Hok Hrs]. apply andb_true_iff in Hok as [Hok Hup].
  apply andb_true_iff in Hok as [Hid Hrc]. apply andb_true_iff in Hid as [Hid1 Hid2].
  unfold publish_ack_encode, publish_ack_encoded_size in H.
  set (S := ack_props_encoded_size _ _ _) in H. rewrite sub_chk_ok in H by lia. cbn [wlet] in H.
  replace (3 + S - 3) with S in H by lia.
  apply wseq_inv in H as (x & y & E1 & E2 & ->). apply wput_inv in E1. subst x.
  apply wseq_inv in E2 as (x & ap & E1 & E2 & ->). apply wput_inv in E1. subst x.
  apply ack_props_shape in E2 as (vi & blk & -> & Ev & Hb).
  2:{ pose proof (reduce_limit_le lim (3 + 4)). lia. }
  2:{ unfold reduce_limit. replace (lim <? 3 + 4) with false by lia. lia. }
  apply (s_ack_enc ptype rc_puback (pa_packet_id a) (pa_reason_code a) _ _ vi blk); try assumption; lia.
Qed.

Lemma publish_ack2_layout ptype a lim bs :
  table_compat tbl_ack ptype ->
  lim <= VI_MAX -> 11 + diag_size (pa2_properties a) (pa2_reason_string a) <= lim ->
  publish_ack2_ok a = true ->
  sprops_legal (to_sprops (diag_items (pa2_properties a) (pa2_reason_string a))) = true ->
  publish_ack2_encode a (publish_ack2_encoded_size a lim) = (bs, Ok tt) ->
  s_ack ptype rc_pubrel bs =
    Some (SAck ptype (pa2_packet_id a) (pa2_reason_code a)
               (to_sprops (diag_items (pa2_properties a) (pa2_reason_string a)))).
Proof.
  intros Hc Hl Hf Hok Hlg H. unfold publish_ack2_ok, id_ok in Hok.
  apply andb_true_iff in Hok as [Hok Hrs]. apply andb_true_iff in Hok as [Hok Hup].
  apply andb_true_iff in Hok as [Hid Hrc]. apply andb_true_iff in Hid as [Hid1 Hid2].
  unfold publish_ack2_encode, publish_ack2_encoded_size in H.
  set (S := ack_props_encoded_size _ _ _) in H. rewrite sub_chk_ok in H by lia. cbn [wlet] in H.
  replace (3 + S - 3) with S in H by lia.
  apply wseq_inv in H as (x & y & E1 & E2 & ->). apply wput_inv in E1. subst x.
  apply wseq_inv in E2 as (x & ap & E1 & E2 & ->). apply wput_inv in E1. subst x.
  apply ack_props_shape in E2 as (vi & blk & -> & Ev & Hb).
  2:{ pose proof (reduce_limit_le lim (3 + 4)). lia. }
  2:{ unfold reduce_limit. replace (lim <? 3 + 4) with false by lia. lia. }
  apply (s_ack_enc ptype rc_pubrel (pa2_packet_id a) (pa2_reason_code a) _ _ vi blk); try assumption; lia.
Qed.

(* SUBACK / UNSUBACK *)
Lemma s_codes_ack_enc mk ptype codes pid ups reason vi blk status :
  0 < pid < 65536 -> forallb (fun c => elem c codes) status = true -> table_compat tbl_ack ptype ->
  uprops_ok ups = true -> opt_ok str_ok reason = true ->
  sprops_legal (to_sprops (diag_items ups reason)) = true ->
  enc_vi (len blk) = Some vi -> blk = enc_items tbl_ack (diag_items ups reason) ->
  s_codes_ack mk ptype codes (b_u16 pid ++ (vi ++ blk) ++ status) =
    Some (mk pid (to_sprops (diag_items ups reason)) status).
Proof.
  intros Hp Hst Hc Hu Hr Hl Ev Hb. unfold s_codes_ack. rewrite s_u16_b by lia.
  replace (0 <? pid) with true by lia. rewrite <- app_assoc.
  rewrite (s_prop_block_enc tbl_ack ptype (diag_items ups reason) _ blk status); try assumption.
  - now rewrite Hst.
  - apply diag_items_wf_full; try reflexivity; assumption.
Qed.

Lemma subscribe_ack_layout a lim bs :
  lim <= VI_MAX -> subscribe_ack_encoded_size a lim <= lim ->
  6 + len (sa_status a) + diag_size (sa_properties a) (sa_reason_string a) <= lim ->
  subscribe_ack_ok a = true ->
  sprops_legal (to_sprops (diag_items (sa_properties a) (sa_reason_string a))) = true ->
  subscribe_ack_encode a (subscribe_ack_encoded_size a lim) = (bs, Ok tt) ->
  s_codes_ack SSubAck T_SUBACK rc_suback bs = Some (to_spec (SubscribeAck a)).
Proof.
  intros Hl Hs Hf Hok Hlg H. unfold subscribe_ack_ok, id_ok in Hok.
  apply andb_true_iff in Hok as [Hok Hrs]. apply andb_true_iff in Hok as [Hok Hup].
  apply andb_true_iff in Hok as [Hid Hrc]. apply andb_true_iff in Hid as [Hid1 Hid2].
  unfold subscribe_ack_encode, subscribe_ack_encoded_size in *.
  destruct (U32MAX - 2 <? len (sa_status a)) eqn:E. { unfold USIZE_MAX, U64MAX, VI_MAX in *. lia. }
  set (S := ack_props_encoded_size _ _ _) in *.
  rewrite sub_chk_ok in H by lia. cbn [wlet] in H.
  rewrite mod32_small in H by lia. rewrite sub_chk_ok in H by lia. cbn [wlet] in H.
  replace (2 + S + len (sa_status a) - 2 - len (sa_status a)) with S in H by lia.
  apply wseq_inv in H as (x & y & E1 & E2 & ->). apply wput_inv in E1. subst x.
  apply wseq_inv in E2 as (ap & x & E1 & E2 & ->). apply wput_inv in E2. subst x.
  apply ack_props_shape in E1 as (vi & blk & -> & Ev & Hb).
  2:{ pose proof (reduce_limit_le lim (2 + len (sa_status a))). lia. }
  2:{ unfold reduce_limit. replace (lim <? 2 + len (sa_status a)) with false by lia. lia. }
  cbn [to_spec].
  apply (s_codes_ack_enc SSubAck T_SUBACK rc_suback (sa_packet_id a) _ _ vi blk (sa_status a));
    try assumption; [lia|apply compat_ack_suback].
Qed.

Lemma unsubscribe_ack_layout a lim bs :
  lim <= VI_MAX -> unsubscribe_ack_encoded_size a lim <= lim ->
  6 + len (ua_status a) + diag_size (ua_properties a) (ua_reason_string a) <= lim ->
  unsubscribe_ack_ok a = true ->
  sprops_legal (to_sprops (diag_items (ua_properties a) (ua_reason_string a))) = true ->
  unsubscribe_ack_encode a (unsubscribe_ack_encoded_size a lim) = (bs, Ok tt) ->
  s_codes_ack SUnsubAck T_UNSUBACK rc_unsuback bs = Some (to_spec (UnsubscribeAck a)).
Proof.
  intros Hl Hs Hf Hok Hlg H. unfold unsubscribe_ack_ok, id_ok in Hok.
  apply andb_true_iff in Hok as [Hok Hrs]. apply andb_true_iff in Hok as [Hok Hup].
  apply andb_true_iff in Hok as [Hid Hrc]. apply andb_true_iff in Hid as [Hid1 Hid2].
  unfold unsubscribe_ack_encode, unsubscribe_ack_encoded_size in *.
  set (S := ack_props_encoded_size _ _ _) in *.
  rewrite sub_chk_ok in H by lia. cbn [wlet] in H.
  rewrite mod32_small in H by lia. rewrite sub_chk_ok in H by lia. cbn [wlet] in H.
  replace (2 + len (ua_status a) + S - 2 - len (ua_status a)) with S in H by lia.
  apply wseq_inv in H as (x & y & E1 & E2 & ->). apply wput_inv in E1. subst x.
  apply wseq_inv in E2 as (ap & x & E1 & E2 & ->). apply wput_inv in E2. subst x.
  apply ack_props_shape in E1 as (vi & blk & -> & Ev & Hb).
  2:{ pose proof (reduce_limit_le lim (2 + len (ua_status a))). lia. }
  2:{ unfold reduce_limit. replace (lim <? 2 + len (ua_status a)) with false by lia. lia. }
  cbn [to_spec].
  apply (s_codes_ack_enc SUnsubAck T_UNSUBACK rc_unsuback (ua_packet_id a) _ _ vi blk (ua_status a));
    try assumption; [lia|apply compat_ack_unsuback].
Qed.

(* ------------------------------------------------------------------ DISCONNECT / AUTH / CONNACK *)
Lemma s_rc_props_enc mk ptype codes tbl rc its vi blk :
  elem rc codes = true -> table_compat tbl ptype -> items_wf tbl [] its = true ->
  sprops_legal (to_sprops its) = true -> enc_vi (len blk) = Some vi -> blk = enc_items tbl its ->
  s_rc_props mk ptype codes ([rc] ++ vi ++ blk) = Some (mk rc (to_sprops its)).
Proof.
  intros Hrc Hc Hwf Hl Ev Hb. unfold s_rc_props. pose proof (enc_vi_nonempty _ _ Ev) as Hne.
  destruct vi as [|v0 vt]; [congruence|]. cbn [app]. rewrite Hrc.
  change (v0 :: vt ++ blk) with ((v0 :: vt) ++ blk). rewrite <- (app_nil_r blk).
  rewrite (s_prop_block_enc tbl ptype its _ blk []); try assumption. reflexivity.
Qed.

Lemma disconnect_layout d lim bs :
  disconnect_encoded_size d lim <= VI_MAX -> diag_fits (Disconnect d) lim -> disconnect_ok d = true ->
  spec_legal (to_spec (Disconnect d)) = true ->
  disconnect_encode d (disconnect_encoded_size d lim) = (bs, Ok tt) ->
  s_rc_props SDisconnect T_DISCONNECT rc_disconnect bs = Some (to_spec (Disconnect d)).
Proof.
  intros Hs Hfit Hok Hlg H. unfold disconnect_ok in Hok.
  apply andb_true_iff in Hok as [Hok Hrs]. apply andb_true_iff in Hok as [Hok Hup].
  apply andb_true_iff in Hok as [Hok Hsr]. apply andb_true_iff in Hok as [Hrc Hse].
  rewrite disconnect_is_diag in H. unfold disconnect_encoded_size in *. cbn [diag_fits] in Hfit.
  eapply (diag_bytes tbl_disconnect) in H as (vi & ups' & reason' & blk & Ev & Hp & Hr & -> & Hlen & Hblk & Hfull);
    [ | reflexivity | reflexivity | reflexivity | reflexivity | wlen_tac | wits_struct | exact Hs ].
  destruct (Hfull Hfit) as [-> ->]. rewrite <- Hlen in Ev.
  rewrite <- app_assoc, diag_items_eq in Hblk. cbn [to_spec spec_legal] in *.
  apply (s_rc_props_enc SDisconnect T_DISCONNECT rc_disconnect tbl_disconnect); try assumption.
  - apply compat_disconnect.
  - eapply wf_oitemN; [reflexivity|reflexivity| |].
    { intros n E. rewrite E in Hse. exact Hse. }
    eapply wf_oitemB; [reflexivity|reflexivity| |].
    { intros n E. rewrite E in Hsr. exact Hsr. }
    apply diag_items_wf_full; try reflexivity; assumption.
Qed.

Lemma auth_layout a lim bs :
  auth_encoded_size a lim <= VI_MAX -> diag_fits (Auth a) lim -> auth_ok a = true ->
  spec_legal (to_spec (Auth a)) = true ->
  auth_encode a (auth_encoded_size a lim) = (bs, Ok tt) ->
  s_rc_props SAuth T_AUTH rc_auth bs = Some (to_spec (Auth a)).
Proof.
  intros Hs Hfit Hok Hlg H. unfold auth_ok in Hok.
  apply andb_true_iff in Hok as [Hok Hrs]. apply andb_true_iff in Hok as [Hok Hup].
  apply andb_true_iff in Hok as [Hok Had]. apply andb_true_iff in Hok as [Hrc Ham].
  rewrite auth_is_diag in H. unfold auth_encoded_size in *. cbn [diag_fits] in Hfit.
  eapply (diag_bytes tbl_auth) in H as (vi & ups' & reason' & blk & Ev & Hp & Hr & -> & Hlen & Hblk & Hfull);
    [ | reflexivity | reflexivity | reflexivity | reflexivity | wlen_tac | wits_struct | exact Hs ].
  destruct (Hfull Hfit) as [-> ->]. rewrite <- Hlen in Ev.
  rewrite <- app_assoc, diag_items_eq in Hblk. cbn [to_spec spec_legal] in *.
  apply (s_rc_props_enc SAuth T_AUTH rc_auth tbl_auth); try assumption.
  - apply compat_auth.
  - eapply wf_oitemB; [reflexivity|reflexivity| |].
    { intros n E. rewrite E in Ham. exact Ham. }
    eapply wf_oitemB; [reflexivity|reflexivity| |].
    { intros n E. rewrite E in Had. exact Had. }
    apply diag_items_wf_full; try reflexivity; assumption.
Qed.

(* CONNACK: the items written before the diagnostics, as the model writes them *)
Definition connack_fixed_items (a : connect_ack) : pbag :=
  oitemN P_SESS_EXPIRY_INT (ca_session_expiry_interval_secs a) ++
  oitemN P_RECEIVE_MAX (if ca_receive_max a =? RECEIVE_MAX_DEFAULT then None else Some (ca_receive_max a)) ++
  oitemN P_MAX_QOS (if ca_max_qos a <? 2 then Some (ca_max_qos a) else None) ++
  oitemN P_RETAIN_AVAIL (if Bool.eqb (ca_retain_available a) true then None
                         else Some (b2n (ca_retain_available a))) ++
  oitemN P_MAX_PACKET_SIZE (ca_max_packet_size a) ++
  oitemB P_ASSND_CLIENT_ID (ca_assigned_client_id a) ++
  oitemN P_TOPIC_ALIAS_MAX (if ca_topic_alias_max a =? 0 then None else Some (ca_topic_alias_max a)) ++
  oitemN P_WILDCARD_SUB_AVAIL (if Bool.eqb (ca_wildcard_subscription_available a) true then None
                               else Some (b2n (ca_wildcard_subscription_available a))) ++
  oitemN P_SUB_IDS_AVAIL (if Bool.eqb (ca_subscription_identifiers_available a) true then None
                          else Some (b2n (ca_subscription_identifiers_available a))) ++
  oitemN P_SHARED_SUB_AVAIL (if Bool.eqb (ca_shared_subscription_available a) true then None
                             else Some (b2n (ca_shared_subscription_available a))) ++
  oitemN P_SERVER_KA (ca_server_keepalive_sec a) ++
  oitemB P_RESP_INFO (ca_response_info a) ++
  oitemB P_SERVER_REF (ca_server_reference a) ++
  oitemB P_AUTH_METHOD (ca_auth_method a) ++
  oitemB P_AUTH_DATA (ca_auth_data a).

Lemma connack_fixed_wits a : wits tbl_connack (connect_ack_fixed a) (connack_fixed_items a).
Proof. unfold connect_ack_fixed, connack_fixed_items. wits_struct. Qed.

Lemma connack_items_eq a :
  connack_fixed_items a ++ diag_items (ca_user_properties a) (ca_reason_string a) = connack_prop_items a.
Proof.
  unfold connack_fixed_items, connack_prop_items. rewrite <- !app_assoc.
  destruct (ca_retain_available a), (ca_wildcard_subscription_available a),
    (ca_subscription_identifiers_available a), (ca_shared_subscription_available a); reflexivity.
Qed.

Lemma connack_items_wf a :
  connect_ack_ok a = true ->
  items_wf tbl_connack [] (connack_fixed_items a ++ diag_items (ca_user_properties a) (ca_reason_string a)) = true.
Proof.
  intros Hok. unfold connect_ack_ok in Hok.
  repeat match type of Hok with (_ && _ = true) =>
    let H' := fresh "Hk" in apply andb_true_iff in Hok as [Hok H'] end.
  unfold connack_fixed_items. rewrite <- !app_assoc. unfold id_ok, u16_ok, u32_ok in *.
  repeat lazymatch goal with
    | |- items_wf _ _ (oitemN _ _ ++ _) = true => eapply wf_oitemN; [reflexivity|reflexivity| |]
    | |- items_wf _ _ (oitemB _ _ ++ _) = true => eapply wf_oitemB; [reflexivity|reflexivity| |]
    | |- items_wf _ _ (diag_items _ _) = true => apply diag_items_wf_full; try reflexivity; assumption
    end.
  all: try (intros n E;
            match goal with
            | Hx : opt_ok _ ?o = true |- _ =>
              match type of E with o = Some _ => rewrite E in Hx; exact Hx end
            end).
  all: cbn [pval_ok]; intros n E.
  all: match type of E with (if ?c then _ else _) = _ => destruct c eqn:E' end; try discriminate;
       injection E as <-; try assumption.
  all: match goal with |- (b2n ?b <=? 1) = true => destruct b; reflexivity end.
Qed.

Lemma connect_ack_layout a lim bs :
  connect_ack_encoded_size a lim <= VI_MAX -> diag_fits (ConnectAck a) lim -> connect_ack_ok a = true ->
  spec_legal (to_spec (ConnectAck a)) = true ->
  connect_ack_encode a (connect_ack_encoded_size a lim) = (bs, Ok tt) ->
  s_connack bs = Some (to_spec (ConnectAck a)).
Proof.
  intros Hs Hfit Hok Hlg H. pose proof (connack_items_wf a Hok) as Hwf.
  unfold connect_ack_ok in Hok. repeat (apply andb_true_iff in Hok as [Hok _]).
  rewrite connect_ack_is_diag in H. rewrite connect_ack_size_eq in *. cbv zeta in *. cbn [diag_fits] in Hfit.
  eapply (diag_bytes tbl_connack) in H as (vi & ups' & reason' & blk & Ev & Hp & Hr & -> & Hlen & Hblk & Hfull);
    [ | reflexivity | reflexivity | reflexivity | reflexivity | apply connect_ack_fixed_wlen
      | apply connack_fixed_wits | exact Hs ].
  destruct (Hfull Hfit) as [-> ->]. rewrite <- Hlen in Ev.
  rewrite diag_items_eq in Hblk. cbn [to_spec spec_legal] in *. rewrite <- connack_items_eq in *.
  unfold s_connack. cbn [app].
  replace (b2n (ca_session_present a) <=? 1) with true by (destruct (ca_session_present a); reflexivity).
  change (elem (ca_reason_code a) rc_connack) with (connect_ack_reason_ok (ca_reason_code a)). rewrite Hok. cbn [andb].
  rewrite <- (app_nil_r blk).
  rewrite (s_prop_block_enc tbl_connack T_CONNACK _ vi blk [] compat_connack Hwf Hlg Hblk Ev).
  cbn [all_consumed]. destruct (ca_session_present a); reflexivity.
Qed.

(* ------------------------------------------------------------------ SUBSCRIBE / UNSUBSCRIBE *)
Definition spec_filter (fo : bytes * subscription_options) : bytes * (N * bool * bool * N) :=
  (fst fo, (so_qos (snd fo), so_no_local (snd fo), so_retain_as_published (snd fo), so_retain_handling (snd fo))).

Lemma sub_opts_spec o : sub_opts_ok o = true ->
  let b := subscription_options_byte o in
  b mod 4 = so_qos o /\ (b / 16) mod 4 = so_retain_handling o /\ b < 64 /\
  bitn b 4 = so_no_local o /\ bitn b 8 = so_retain_as_published o /\ so_qos o < 3 /\ so_retain_handling o < 3.
Proof.
  destruct o as [q nl rap rh]. unfold sub_opts_ok, subscription_options_byte, bitn.
  cbn [so_qos so_no_local so_retain_as_published so_retain_handling]. intros H.
  apply andb_true_iff in H as [Hq Hr]. pose proof (mem3 _ Hq). pose proof (mem3 _ Hr).
  destruct nl, rap; cbn [b2n]; repeat split; lia.
Qed.

Lemma s_sub_filters_enc l : forall fuel, (length l <= fuel)%nat -> forallb sub_filter_ok l = true ->
  forallb (fun f => s_text_ok (fst f)) (map spec_filter l) = true ->
  s_sub_filters fuel (enc_sub_filters l) = Some (map spec_filter l).
Proof.
  induction l as [|[f o] r IH]; intros fuel Hf Hok Ht.
  - destruct fuel; reflexivity.
  - cbn [forallb] in Hok. apply andb_true_iff in Hok as [H1 H2]. unfold sub_filter_ok in H1. cbn [fst snd] in H1.
    apply andb_true_iff in H1 as [Hs Ho]. unfold str_ok in Hs. apply andb_true_iff in Hs as [Hs1 Hs2].
    cbn [map forallb spec_filter fst snd] in Ht. apply andb_true_iff in Ht as [Ht1 Ht2].
    destruct fuel as [|k]; [cbn [length] in Hf; lia|].
    cbn [enc_sub_filters flat_map]. unfold enc_sub_filter at 1. cbn [fst snd].
    rewrite <- app_assoc. unfold b_str at 1. cbn [app s_sub_filters].
    change (len f / 256 :: len f mod 256 :: f ++ subscription_options_byte o :: flat_map enc_sub_filter r)
      with (b_str f ++ subscription_options_byte o :: enc_sub_filters r).
    rewrite s_str_b by (assumption || lia).
    destruct (sub_opts_spec o Ho) as (E1 & E2 & E3 & E4 & E5 & E6 & E7). cbv zeta in *.
    rewrite E1, E2, E4, E5.
    replace ((so_qos o <? 3) && (so_retain_handling o <? 3) && (subscription_options_byte o <? 64)) with true by lia.
    rewrite IH; [reflexivity|cbn [length] in Hf; lia|assumption|assumption].
Qed.

Lemma subscribe_layout s lim sz bs :
  subscribe_encoded_size s lim <= VI_MAX -> subscribe_ok s = true ->
  spec_legal (to_spec (Subscribe s)) = true ->
  subscribe_encode s sz = (bs, Ok tt) -> s_subscribe bs = Some (to_spec (Subscribe s)).
Proof.
  intros Hs Hok Hlg H. unfold subscribe_ok in Hok.
  apply andb_true_iff in Hok as [Hok Hfl]. apply andb_true_iff in Hok as [Hok Hup].
  apply andb_true_iff in Hok as [Hid Hsi]. unfold id_ok in Hid.
  unfold subscribe_encode, subscribe_encoded_size in *. set (PL := subscribe_prop_len s) in *.
  rewrite mod32_small in H by lia.
  apply wseq_inv in H as (x & y & E1 & E2 & ->). apply wput_inv in E1. subst x.
  apply wseq_inv in E2 as (vi & y' & Ev & E2 & ->). apply w_vi_inv in Ev.
  apply wseq_inv in E2 as (b1 & y'' & Eb1 & E2 & ->).
  apply wseq_inv in E2 as (b2 & fl & Eb2 & Efl & ->).
  assert (Hl1 : len (b1 ++ b2) = PL).
  { rewrite len_app, (wlen_opt_sub_id _ _ Eb1), (wlen_uprops _ _ Eb2). reflexivity. }
  assert (Hi : b1 ++ b2 = enc_items tbl_subscribe (oitemN P_SUB_ID (s_id s) ++ uitems (s_user_properties s))).
  { rewrite enc_items_app.
    rewrite (wits_opt_sub_id tbl_subscribe _ true eq_refl _ Eb1).
    now rewrite (wits_uprops tbl_subscribe _ false eq_refl _ Eb2). }
  apply w_sub_filters_bytes in Efl. subst fl. rewrite <- Hl1 in Ev.
  cbn [to_spec spec_legal] in *.
  apply andb_true_iff in Hlg as [Hlg Hft]. apply andb_true_iff in Hlg as [Hlg Hne].
  unfold s_subscribe. change [s_packet_id s / 256; s_packet_id s mod 256] with (b_u16 (s_packet_id s)).
  rewrite s_u16_b by lia. replace (0 <? s_packet_id s) with true by lia.
  replace (vi ++ b1 ++ b2 ++ enc_sub_filters (s_topic_filters s))
    with (vi ++ (b1 ++ b2) ++ enc_sub_filters (s_topic_filters s)) by now rewrite <- !app_assoc.
  rewrite (s_prop_block_enc tbl_subscribe T_SUBSCRIBE (oitemN P_SUB_ID (s_id s) ++ uitems (s_user_properties s))
             vi (b1 ++ b2) _ compat_subscribe); try assumption.
  2:{ rewrite <- (app_nil_r (uitems _)). eapply wf_oitemN; [reflexivity|reflexivity| |].
      { intros n E. rewrite E in Hsi. exact Hsi. }
      apply wf_uitems; [reflexivity|assumption|reflexivity]. }
  change (map (fun fo => (fst fo, (so_qos (snd fo), so_no_local (snd fo), so_retain_as_published (snd fo),
                                   so_retain_handling (snd fo)))) (s_topic_filters s))
    with (map spec_filter (s_topic_filters s)) in *.
  rewrite s_sub_filters_enc; [|apply len_ge_length_filters|assumption|assumption].
  destruct (s_topic_filters s) as [|f0 fr]; [discriminate|]. reflexivity.
Qed.

Lemma s_unsub_filters_enc l : forall fuel, (length l <= fuel)%nat -> forallb str_ok l = true ->
  forallb s_text_ok l = true -> s_unsub_filters fuel (enc_unsub_filters l) = Some l.
Proof.
  induction l as [|f r IH]; intros fuel Hf Hok Ht.
  - destruct fuel; reflexivity.
  - cbn [forallb] in Hok, Ht. apply andb_true_iff in Hok as [Hs H2]. apply andb_true_iff in Ht as [Ht1 Ht2].
    unfold str_ok in Hs. apply andb_true_iff in Hs as [Hs1 Hs2].
    destruct fuel as [|k]; [cbn [length] in Hf; lia|].
    cbn [enc_unsub_filters flat_map]. unfold b_str at 1. cbn [app s_unsub_filters].
    change (len f / 256 :: len f mod 256 :: f ++ flat_map b_str r) with (b_str f ++ enc_unsub_filters r).
    rewrite s_str_b by (assumption || lia).
    rewrite IH; [reflexivity|cbn [length] in Hf; lia|assumption|assumption].
Qed.

Lemma unsubscribe_layout u lim sz bs :
  unsubscribe_encoded_size u lim <= VI_MAX -> unsubscribe_ok u = true ->
  spec_legal (to_spec (Unsubscribe u)) = true ->
  unsubscribe_encode u sz = (bs, Ok tt) -> s_unsubscribe bs = Some (to_spec (Unsubscribe u)).
Proof.
  intros Hs Hok Hlg H. unfold unsubscribe_ok in Hok.
  apply andb_true_iff in Hok as [Hok Hfl]. apply andb_true_iff in Hok as [Hid Hup]. unfold id_ok in Hid.
  unfold unsubscribe_encode, unsubscribe_encoded_size in *.
  rewrite mod32_small in H by lia.
  apply wseq_inv in H as (x & y & E1 & E2 & ->). apply wput_inv in E1. subst x.
  apply wseq_inv in E2 as (vi & y' & Ev & E2 & ->). apply w_vi_inv in Ev.
  apply wseq_inv in E2 as (b2 & fl & Eb2 & Efl & ->).
  pose proof (wlen_uprops _ _ Eb2) as Hl1.
  assert (Hi : b2 = enc_items tbl_unsubscribe (uitems (u_user_properties u))).
  { now rewrite (wits_uprops tbl_unsubscribe _ false eq_refl _ Eb2). }
  apply w_unsub_filters_bytes in Efl. subst fl. rewrite <- Hl1 in Ev.
  cbn [to_spec spec_legal] in *.
  apply andb_true_iff in Hlg as [Hlg Hft]. apply andb_true_iff in Hlg as [Hlg Hne].
  unfold s_unsubscribe. change [u_packet_id u / 256; u_packet_id u mod 256] with (b_u16 (u_packet_id u)).
  rewrite s_u16_b by lia. replace (0 <? u_packet_id u) with true by lia.
  rewrite (s_prop_block_enc tbl_unsubscribe T_UNSUBSCRIBE (uitems (u_user_properties u))
             vi b2 _ compat_unsubscribe); try assumption.
  2:{ rewrite <- (app_nil_r (uitems _)). apply wf_uitems; [reflexivity|assumption|reflexivity]. }
  rewrite s_unsub_filters_enc; [|apply len_ge_length_unsub|assumption|assumption].
  destruct (u_topic_filters u) as [|f0 fr]; [discriminate|]. reflexivity.
Qed.

(* ------------------------------------------------------------------ PUBLISH *)
Lemma publish_items_eq pp : publish_items pp = publish_prop_items pp.
Proof.
  unfold publish_items, publish_prop_items. rewrite app_nil_r.
  destruct (pp_is_utf8_payload pp); reflexivity.
Qed.

Lemma publish_flags p : p_qos p <= 2 ->
  let fb := publish_first_byte p in
  fb < 256 /\ fb / 16 = T_PUBLISH /\ ((fb mod 16) / 2) mod 4 = p_qos p /\
  bitn (fb mod 16) 8 = p_dup p /\ bitn (fb mod 16) 1 = p_retain p.
Proof.
  intros H. unfold publish_first_byte, PT_PUBLISH_START, bitn, T_PUBLISH.
  destruct (p_dup p), (p_retain p); cbn [b2n]; repeat split; lia.
Qed.

Lemma publish_layout p lim body payload :
  publish_encoded_size p lim <= VI_MAX -> publish_ok p = true ->
  spec_legal (to_spec_publish p payload) = true ->
  publish_body p (publish_encoded_size p lim) = (body, Ok tt) ->
  s_publish (publish_first_byte p mod 16) (body ++ payload) = Some (to_spec_publish p payload).
Proof.
  intros Hs Hok Hlg H.
  apply publish_body_shape in H as (pidb & vi & blk & -> & Htl & Ev & Hlen & Hblk & Hpid); [|assumption].
  pose proof Hok as Hok'. unfold publish_ok in Hok.
  apply andb_true_iff in Hok as [Hok Hpp]. apply andb_true_iff in Hok as [Hok Hid].
  apply andb_true_iff in Hok as [Ht Hq]. pose proof (mem3 _ Hq) as Hq2.
  destruct (publish_flags p Hq2) as (_ & _ & Eq & Ed & Er).
  unfold to_spec_publish in *. cbn [spec_legal] in Hlg. apply andb_true_iff in Hlg as [Hlg Htt].
  unfold s_publish. rewrite Eq, Ed, Er. replace (p_qos p <? 3) with true by lia.
  rewrite <- !app_assoc. rewrite s_str_b by assumption.
  rewrite <- Hlen in Ev. rewrite publish_items_eq in Hblk.
  assert (Hwf : items_wf tbl_publish [] (publish_prop_items (p_properties p)) = true).
  { rewrite <- publish_items_eq. now apply publish_items_wf. }
  destruct (p_qos p =? 0) eqn:Eq0.
  - destruct Hpid as [-> Hnone]. cbn [app]. rewrite Hnone.
    rewrite (s_prop_block_enc tbl_publish T_PUBLISH _ vi blk payload compat_publish Hwf Hlg Hblk Ev). reflexivity.
  - destruct Hpid as (id & Hsome & ->). rewrite Hsome in *. cbn [opt_ok] in Hid. unfold id_ok in Hid.
    rewrite <- ?app_assoc. rewrite s_u16_b by lia. replace (0 <? id) with true by lia.
    rewrite (s_prop_block_enc tbl_publish T_PUBLISH _ vi blk payload compat_publish Hwf Hlg Hblk Ev). reflexivity.
Qed.

(* ------------------------------------------------------------------ CONNECT *)
Lemma connect_items_eq c : connect_items c = connect_prop_items c.
Proof.
  unfold connect_items, connect_prop_items. rewrite app_nil_r.
  destruct (c_request_problem_info c), (c_request_response_info c); reflexivity.
Qed.
Lemma will_items_eq w : will_items w = will_prop_items w.
Proof. unfold will_items, will_prop_items. now rewrite app_nil_r. Qed.

Lemma connect_flags_spec c :
  opt_ok (fun w => lw_qos w <=? 2) (c_last_will c) = true ->
  let f := connect_flags c in
  bitn f 1 = false /\ (f / 8) mod 4 < 3 /\
  (c_last_will c = None -> (f / 8) mod 4 = 0 /\ bitn f 32 = false).
Proof.
  unfold connect_flags, bitn.
  destruct (c_username c), (c_password c), (c_clean_start c), (c_last_will c) as [w|]; cbn [is_some opt_ok];
    intros Hq; try (destruct (lw_retain w) eqn:Er);
    repeat split; try lia; try discriminate.
Qed.

Lemma will_layout w wb r :
  will_properties_len w <= VI_MAX -> will_ok w = true ->
  sprops_legal (to_sprops (will_prop_items w)) = true -> s_text_ok (lw_topic w) = true ->
  will_encode w = (wb, Ok tt) ->
  exists vi blk, wb = vi ++ blk ++ b_str (lw_topic w) ++ b_str (lw_message w) /\
    s_prop_block T_WILL (vi ++ blk ++ b_str (lw_topic w) ++ b_str (lw_message w) ++ r) =
      Some (to_sprops (will_prop_items w), b_str (lw_topic w) ++ b_str (lw_message w) ++ r) /\
    len (lw_topic w) <= 65535 /\ len (lw_message w) <= 65535.
Proof.
  intros Hs Hok Hlg Htt H. unfold will_encode in H. rewrite mod32_small in H by assumption.
  apply wseq_inv in H as (vi & y & Ev & E2 & ->). apply w_vi_inv in Ev.
  apply wseq_inv in E2 as (blk & y' & Eb & E2 & ->).
  apply wseq_inv in E2 as (t & m & Et & Em & ->).
  apply w_bytes_inv in Et as [Htl ->]. apply w_bytes_inv in Em as [Hml ->].
  pose proof (will_props_wlen w _ Eb) as Hlen. apply will_props_wits in Eb.
  rewrite will_items_eq in Eb. rewrite <- Hlen in Ev.
  exists vi, blk. split; [reflexivity|]. split; [|split; assumption].
  change (len (lw_topic w) / 256 :: len (lw_topic w) mod 256 :: lw_topic w) with (b_str (lw_topic w)).
  apply (s_prop_block_enc tbl_will T_WILL _ vi blk _ compat_will); try assumption.
  rewrite <- will_items_eq. now apply will_items_wf.
Qed.

Lemma connect_layout c lim sz bs :
  connect_encoded_size c lim <= VI_MAX -> connect_ok c = true ->
  spec_legal (to_spec (Connect c)) = true ->
  connect_encode c sz = (bs, Ok tt) -> s_connect bs = Some (to_spec (Connect c)).
Proof.
  intros Hs Hok Hlg H. rewrite connect_encode_eq in H.
  assert (Hcpl : connect_properties_len c <= VI_MAX).
  { unfold connect_encoded_size in Hs. lia. }
  assert (Hwpl : forall w, c_last_will c = Some w -> will_properties_len w <= VI_MAX).
  { intros w E. unfold connect_encoded_size in Hs. rewrite E in Hs. lia. }
  rewrite mod32_small in H by assumption.
  apply wseq_inv in H as (x1 & y & E1 & H & ->). apply w_bytes_inv in E1 as [_ ->].
  apply wseq_inv in H as (x2 & y' & E2 & H & ->). apply wput_inv in E2. subst x2.
  apply wseq_inv in H as (x3 & y'' & E3 & H & ->). apply wput_inv in E3. subst x3.
  apply wseq_inv in H as (vi & y3 & Ev & H & ->). apply w_vi_inv in Ev.
  apply wseq_inv in H as (blk & y4 & Eb & H & ->).
  apply wseq_inv in H as (cid & y5 & Ec & H & ->). apply w_bytes_inv in Ec as [Hcl ->].
  apply wseq_inv in H as (wb & y6 & Ew & H & ->).
  apply wseq_inv in H as (ub & pb & Eu & Ep & ->).
  pose proof (connect_props_wlen c _ Eb) as Hlen. apply connect_props_wits in Eb.
  rewrite connect_items_eq in Eb. rewrite <- Hlen in Ev.
  pose proof (connect_items_wf c Hok) as Hwf. rewrite connect_items_eq in Hwf.
  pose proof Hok as Hok'. unfold connect_ok in Hok.
  repeat match type of Hok with (_ && _ = true) =>
    let H' := fresh "Hk" in apply andb_true_iff in Hok as [Hok H'] end.
  assert (Hwq : opt_ok (fun w => lw_qos w <=? 2) (c_last_will c) = true).
  { destruct (c_last_will c) as [w|]; [|reflexivity]. cbn [opt_ok] in *. unfold will_ok in Hk2.
    repeat (apply andb_true_iff in Hk2 as [Hk2 _]). apply mem3 in Hk2. lia. }
  destruct (connect_flags_bits c Hwq) as (Hf256 & Hf0 & Hf2 & Hf4 & Hf128 & Hf64 & Hfw).
  destruct (connect_flags_spec c Hwq) as (Hb1 & Hq3 & Hnw).
  set (flags := connect_flags c) in *. unfold u16_ok in *.
  cbn [to_spec spec_legal] in Hlg.
  apply andb_true_iff in Hlg as [Hlg Hlu]. apply andb_true_iff in Hlg as [Hlg Hlw].
  apply andb_true_iff in Hlg as [Hlp Hlc].
  unfold s_connect. unfold MQTT. cbn [app]. change (len [77; 81; 84; 84]) with 4.
  change (4 / 256) with 0. change (4 mod 256) with 4. cbv iota.
  change (bit flags) with (bitn flags) in *.
  rewrite Hb1. cbn [negb]. rewrite Hf4.
  replace ((flags / 8) mod 4 <? 3) with true by lia. cbn [andb].
  assert (Hwc : is_some (c_last_will c) || (((flags / 8) mod 4 =? 0) && negb (bitn flags 32)) = true).
  { destruct (c_last_will c) as [w|]; [reflexivity|]. destruct (Hnw eq_refl) as [-> ->]. reflexivity. }
  rewrite Hwc.
  cbn [s_u16].
  change (len (c_client_id c) / 256 :: len (c_client_id c) mod 256 :: c_client_id c ++ wb ++ ub ++ pb)
    with (b_str (c_client_id c) ++ wb ++ ub ++ pb).
  rewrite (s_prop_block_enc tbl_connect T_CONNECT _ vi blk _ compat_connect Hwf Hlp Eb Ev).
  rewrite <- ?app_assoc. rewrite s_str_b by assumption.
  rewrite Hf128, Hf64, Hf2.
  (* will *)
  assert (Ewill : exists wspec,
    (if is_some (c_last_will c)
     then match s_prop_block T_WILL (wb ++ ub ++ pb) with
          | Some (wp, r4) =>
            match s_str r4 with
            | Some (wt, r5) =>
              match s_bin r5 with
              | Some (wm, r6) => Some (Some (mkSWill ((flags / 8) mod 4) (bitn flags 32) wp wt wm), r6)
              | None => None
              end
            | None => None
            end
          | None => None
          end
     else Some (None, wb ++ ub ++ pb)) = Some (wspec, ub ++ pb) /\
    wspec = option_map to_spec_will (c_last_will c)).
  { destruct (c_last_will c) as [w|] eqn:Ewl; cbn [is_some option_map].
    - destruct (Hfw w eq_refl) as [Hq Hr]. cbn [opt_ok] in Hk2.
      cbn [to_spec_will sw_props sw_topic] in Hlw. apply andb_true_iff in Hlw as [Hlw1 Hlw2].
      destruct (will_layout w wb (ub ++ pb) (Hwpl w eq_refl) Hk2 Hlw1 Hlw2 Ew) as (vi' & blk' & -> & Hpb & Htl & Hml).
      eexists. split; [|reflexivity]. rewrite <- !app_assoc. rewrite Hpb.
      rewrite s_str_b by assumption. rewrite s_bin_b by assumption. rewrite Hq, Hr. reflexivity.
    - apply wnop_inv in Ew. subst wb. eexists. split; reflexivity. }
  destruct Ewill as (wspec & Ewill & ->).
  match goal with |- match ?X with _ => _ end = _ => replace X with (Some (option_map to_spec_will (c_last_will c), ub ++ pb)) end.
  assert (Euser :
    (if is_some (c_username c)
     then match s_str (ub ++ pb) with Some (u, r7) => Some (Some u, r7) | None => None end
     else Some (None, ub ++ pb)) = Some (c_username c, pb)).
  { destruct (c_username c) as [u|]; cbn [is_some opt_ok] in *.
    - apply w_bytes_inv in Eu as [Hul ->]. change (len u / 256 :: len u mod 256 :: u) with (b_str u).
      rewrite s_str_b by assumption. reflexivity.
    - apply wnop_inv in Eu. subst ub. reflexivity. }
  match goal with |- match ?X with _ => _ end = _ => replace X with (Some (c_username c, pb)) end.
  assert (Epass :
    (if is_some (c_password c)
     then match s_bin pb with Some (p, r8) => Some (Some p, r8) | None => None end
     else Some (None, pb)) = Some (c_password c, [])).
  { destruct (c_password c) as [p|]; cbn [is_some opt_ok] in *.
    - apply w_bytes_inv in Ep as [Hpl ->]. change (len p / 256 :: len p mod 256 :: p) with (b_str p).
      rewrite <- (app_nil_r (b_str p)). rewrite s_bin_b by assumption. reflexivity.
    - apply wnop_inv in Ep. subst pb. reflexivity. }
  match goal with |- match ?X with _ => _ end = _ => replace X with (Some (c_password c, @nil N)) end.
  replace (c_keep_alive c / 256 * 256 + c_keep_alive c mod 256) with (c_keep_alive c) by lia.
  reflexivity.
Qed.

(* ================================================================== the layout theorems *)
(* encoding domain of a packet under the content limit L *)
Definition packet_dom (p : packet) (L : N) : Prop :=
  match p with
  | Connect k => connect_ok k = true
  | Subscribe s => subscribe_ok s = true
  | Unsubscribe u => unsubscribe_ok u = true
  | PingRequest | PingResponse => True
  | _ => diag_packet_ok p = true /\ diag_fits p L
  end.

Lemma first_byte_lt p : first_byte p < 256.
Proof. destruct p; reflexivity. Qed.
Lemma first_byte_flags_ok p : fixed_flags_ok (first_byte p / 16) (first_byte p mod 16) = true.
Proof. destruct p; reflexivity. Qed.

Lemma body_layout p L body :
  L <= VI_MAX -> packet_encoded_size p L <= L -> packet_dom p L -> spec_legal (to_spec p) = true ->
  body_encode p (packet_encoded_size p L) = (body, Ok tt) ->
  s_body (first_byte p / 16) (first_byte p mod 16) body = Some (to_spec p).
Proof.
  intros HL Hs Hd Hlg H.
  destruct p; cbn [packet_dom body_encode packet_encoded_size first_byte] in *.
  - change (s_connect body = Some (to_spec (Connect c))). apply (connect_layout c L (connect_encoded_size c L) body); [lia|assumption|assumption|exact H].
  - destruct Hd as [Hok Hfit]. change (s_connack body = Some (to_spec (ConnectAck c))).
    apply (connect_ack_layout c L body); [lia|assumption|assumption|assumption|exact H].
  - destruct Hd as [Hok Hfit]. change (s_ack T_PUBACK rc_puback body = Some (to_spec (PublishAck a))).
    cbn [to_spec spec_legal diag_fits diag_packet_ok] in *.
    apply (publish_ack_layout T_PUBACK a L body); [apply compat_ack_puback|lia|assumption|assumption|assumption|exact H].
  - destruct Hd as [Hok Hfit]. change (s_ack T_PUBREC rc_puback body = Some (to_spec (PublishReceived a))).
    cbn [to_spec spec_legal diag_fits diag_packet_ok] in *.
    apply (publish_ack_layout T_PUBREC a L body); [apply compat_ack_pubrec|lia|assumption|assumption|assumption|exact H].
  - destruct Hd as [Hok Hfit]. change (s_ack T_PUBREL rc_pubrel body = Some (to_spec (PublishRelease a))).
    cbn [to_spec spec_legal diag_fits diag_packet_ok] in *.
    apply (publish_ack2_layout T_PUBREL a L body); [apply compat_ack_pubrel|lia|assumption|assumption|assumption|exact H].
  - destruct Hd as [Hok Hfit]. change (s_ack T_PUBCOMP rc_pubrel body = Some (to_spec (PublishComplete a))).
    cbn [to_spec spec_legal diag_fits diag_packet_ok] in *.
    apply (publish_ack2_layout T_PUBCOMP a L body); [apply compat_ack_pubcomp|lia|assumption|assumption|assumption|exact H].
  - change (s_subscribe body = Some (to_spec (Subscribe s))). apply (subscribe_layout s L (subscribe_encoded_size s L) body); [lia|assumption|assumption|exact H].
  - destruct Hd as [Hok Hfit].
    change (s_codes_ack SSubAck T_SUBACK rc_suback body = Some (to_spec (SubscribeAck s))).
    cbn [spec_legal to_spec diag_fits diag_packet_ok] in *.
    apply (subscribe_ack_layout s L body); [lia|lia|assumption|assumption|assumption|exact H].
  - change (s_unsubscribe body = Some (to_spec (Unsubscribe u))). apply (unsubscribe_layout u L (unsubscribe_encoded_size u L) body); [lia|assumption|assumption|exact H].
  - destruct Hd as [Hok Hfit].
    change (s_codes_ack SUnsubAck T_UNSUBACK rc_unsuback body = Some (to_spec (UnsubscribeAck u))).
    cbn [spec_legal to_spec diag_fits diag_packet_ok] in *.
    apply (unsubscribe_ack_layout u L body); [lia|lia|assumption|assumption|assumption|exact H].
  - apply wnop_inv in H. subst. reflexivity.
  - apply wnop_inv in H. subst. reflexivity.
  - destruct Hd as [Hok Hfit].
    change (s_rc_props SDisconnect T_DISCONNECT rc_disconnect body = Some (to_spec (Disconnect d))).
    apply (disconnect_layout d L body); [lia|assumption|assumption|assumption|exact H].
  - destruct Hd as [Hok Hfit].
    change (s_rc_props SAuth T_AUTH rc_auth body = Some (to_spec (Auth a))).
    apply (auth_layout a L body); [lia|assumption|assumption|assumption|exact H].
Qed.

(* every packet kind: what the encoder appended is, for the independent decoder, exactly one packet,
   the one that was encoded (whatever follows in the stream) *)
Theorem v5_layout c p w c' r :
  ec_no_problem_info c = false -> packet_dom p (max_size_of c) -> spec_legal (to_spec p) = true ->
  encodev c (EPacket p) = ((w, Ok tt), c') ->
  spec_decode5 (w ++ r) = Some (to_spec p, r).
Proof.
  intros Hn Hd Hlg H. apply encodev_packet_inv in H. cbv zeta in H.
  unfold effective in H. rewrite Hn in H. destruct H as (_ & Hs & _ & body & Hf & Hb & Hlen).
  pose proof (max_size_le c) as HL.
  eapply spec_frame; [exact Hf|exact Hlen|apply first_byte_lt|apply first_byte_flags_ok|].
  eapply body_layout; eauto.
Qed.

Section Layouts.
  Variables (c : ecodec).
  Hypothesis Hn : ec_no_problem_info c = false.
  Let L := max_size_of c.

  Definition layout_statement (p : packet) : Prop :=
    spec_legal (to_spec p) = true ->
    forall w c', encodev c (EPacket p) = ((w, Ok tt), c') -> spec_decode5 w = Some (to_spec p, []).

  Lemma layout_of p : packet_dom p L -> layout_statement p.
  Proof.
    intros Hd Hlg w c' H. rewrite <- (app_nil_r w). now apply (v5_layout c p w c' []).
  Qed.

  Theorem v5_layout_publish_ack a : publish_ack_ok a = true -> diag_fits (PublishAck a) L ->
    layout_statement (PublishAck a) /\ layout_statement (PublishReceived a).
  Proof. intros; split; apply layout_of; split; assumption. Qed.
  Theorem v5_layout_publish_ack2 a : publish_ack2_ok a = true -> diag_fits (PublishRelease a) L ->
    layout_statement (PublishRelease a) /\ layout_statement (PublishComplete a).
  Proof. intros; split; apply layout_of; split; assumption. Qed.
  Theorem v5_layout_disconnect d : disconnect_ok d = true -> diag_fits (Disconnect d) L ->
    layout_statement (Disconnect d).
  Proof. intros; apply layout_of; split; assumption. Qed.
  Theorem v5_layout_auth a : auth_ok a = true -> diag_fits (Auth a) L -> layout_statement (Auth a).
  Proof. intros; apply layout_of; split; assumption. Qed.
  Theorem v5_layout_subscribe_ack a : subscribe_ack_ok a = true -> diag_fits (SubscribeAck a) L ->
    layout_statement (SubscribeAck a).
  Proof. intros; apply layout_of; split; assumption. Qed.
  Theorem v5_layout_unsubscribe_ack a : unsubscribe_ack_ok a = true -> diag_fits (UnsubscribeAck a) L ->
    layout_statement (UnsubscribeAck a).
  Proof. intros; apply layout_of; split; assumption. Qed.
  Theorem v5_layout_connect_ack a : connect_ack_ok a = true -> diag_fits (ConnectAck a) L ->
    layout_statement (ConnectAck a).
  Proof. intros; apply layout_of; split; assumption. Qed.
  Theorem v5_layout_subscribe s : subscribe_ok s = true -> layout_statement (Subscribe s).
  Proof. intros; apply layout_of; assumption. Qed.
  Theorem v5_layout_unsubscribe u : unsubscribe_ok u = true -> layout_statement (Unsubscribe u).
  Proof. intros; apply layout_of; assumption. Qed.
  Theorem v5_layout_connect k : connect_ok k = true -> layout_statement (Connect k).
  Proof. intros; apply layout_of; assumption. Qed.
  Theorem v5_layout_ping : layout_statement PingRequest /\ layout_statement PingResponse.
  Proof. split; apply layout_of; exact I. Qed.
End Layouts.

(* PUBLISH: frame head (with or without an inline part of the payload) followed by the rest of the payload *)
Theorem v5_layout_publish c p buf w c' more r :
  publish_ok p = true ->
  encodev c (EPublish p buf) = ((w, Ok tt), c') ->
  len (inline_payload buf ++ more) = p_payload_size p ->
  spec_legal (to_spec_publish p (inline_payload buf ++ more)) = true ->
  spec_decode5 (w ++ more ++ r) = Some (to_spec_publish p (inline_payload buf ++ more), r).
Proof.
  intros Hok H Hpl Hlg. apply encodev_publish_inv in H. cbv zeta in H.
  destruct H as (Hs & _ & _ & _ & _ & _ & body & (vi & Ev & ->) & Hlen & Hb).
  pose proof (max_size_le c) as HL.
  assert (Hq : p_qos p <= 2).
  { unfold publish_ok in Hok. apply andb_true_iff in Hok as [Hok _]. apply andb_true_iff in Hok as [Hok _].
    apply andb_true_iff in Hok as [_ Hq]. now apply mem3. }
  destruct (publish_flags p Hq) as (Hfb & Hty & _).
  set (payload := inline_payload buf ++ more) in *.
  replace ((publish_first_byte p :: vi ++ body ++ inline_payload buf) ++ more ++ r)
    with ((publish_first_byte p :: vi ++ (body ++ payload)) ++ r)
    by (unfold payload; cbn [app]; now rewrite <- !app_assoc).
  eapply spec_frame.
  - exists vi. split; [exact Ev|reflexivity].
  - rewrite len_app. lia.
  - exact Hfb.
  - rewrite Hty. reflexivity.
  - rewrite Hty. change (s_publish (publish_first_byte p mod 16) (body ++ payload) = Some (to_spec_publish p payload)).
    eapply publish_layout; eauto. lia.
Qed.
