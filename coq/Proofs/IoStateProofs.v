(* Proofs/IoStateProofs.v -- lemmas about Model/IoState.v for property C07. *)
From MV Require Import Base.Prelude Model.IoState.

Definition stop_reason (pending : option herr) (e : event) : option ctl :=
  match e with
  | EvFlush false => Some StopPeerGone
  | _ => match pending with Some h => Some (reason_of_err h) | None => cause e end
  end.

Definition is_stop_ctl (c : ctl) : bool := is_stop_call (CallControl c).

(* ---------------------------------------------------------------- runs *)
Lemma io_run_app s a b :
  io_run s (a ++ b) =
  (fst (io_run (fst (io_run s a)) b), snd (io_run s a) ++ snd (io_run (fst (io_run s a)) b)).
Proof.
  revert s; induction a as [|e a IH]; intros s; cbn [io_run app].
  - cbn. now destruct (io_run s b).
  - destruct (io_step s e) as [s1 o1]. rewrite IH.
    destruct (io_run s1 a) as [s2 o2]. cbn [fst snd].
    destruct (io_run s2 b) as [s3 o3]. cbn [fst snd]. now rewrite app_assoc.
Qed.

Lemma io_final_app s a b : io_final s (a ++ b) = io_final (io_final s a) b.
Proof. unfold io_final. now rewrite io_run_app. Qed.

Lemma io_outputs_app s a b : io_outputs s (a ++ b) = io_outputs s a ++ io_outputs (io_final s a) b.
Proof. unfold io_outputs, io_final. now rewrite io_run_app. Qed.

Lemma io_final_cons s e r : io_final s (e :: r) = io_final (fst (io_step s e)) r.
Proof. unfold io_final. cbn [io_run]. destruct (io_step s e) as [s1 o1]. cbn [fst]. now destruct (io_run s1 r). Qed.

Lemma io_outputs_cons s e r : io_outputs s (e :: r) = snd (io_step s e) ++ io_outputs (fst (io_step s e)) r.
Proof. unfold io_outputs. cbn [io_run]. destruct (io_step s e) as [s1 o1]. cbn [fst snd]. now destruct (io_run s1 r). Qed.

Lemma io_final_nil s : io_final s [] = s. Proof. reflexivity. Qed.
Lemma io_outputs_nil s : io_outputs s [] = []. Proof. reflexivity. Qed.

Lemma count_stops_app a b : count_stops (a ++ b) = (count_stops a + count_stops b)%nat.
Proof. unfold count_stops. now rewrite filter_app, app_length. Qed.

(* ---------------------------------------------------------------- one step, by phase *)
Ltac destr_event e :=
  destruct e as [[| |[| |]| | |]|[[| | |]| |]|[|]|[| |]| |[|]| |].

Lemma finished_step s e : phase s = Finished -> io_step s e = (s, []).
Proof. intros H. unfold io_step. now rewrite H. Qed.

Lemma finished_run s evs : phase s = Finished -> io_run s evs = (s, []).
Proof.
  intros H. induction evs as [|e r IH]; [reflexivity|].
  cbn [io_run]. rewrite (finished_step _ _ H), IH. reflexivity.
Qed.

(* a step from Processing / Backpressure *)
Lemma live_step s e :
  live (phase s) = true ->
  let s1 := fst (io_step s e) in
  let o1 := snd (io_step s e) in
  io_err s1 = io_err s /\
  ( (live (phase s1) = true /\ count_stops o1 = 0%nat /\
     existsb is_done o1 = false /\ existsb is_notify o1 = false /\
     err s1 = match e with EvHandler h => Some h | _ => err s end)
    \/ (phase s1 = Stop /\ exists c, o1 = [CallControl c] /\ is_stop_ctl c = true /\
        stop_reason (err s) e = Some c)
    \/ (e = EvControlReadyErr /\ phase s1 = Finished /\ o1 = [Done false]) ).
Proof.
  destruct s as [ph re ie er rs]. cbn [phase]. intros L.
  destruct ph; try discriminate L; destruct er as [[| |]|]; destr_event e;
    cbn; (split; [reflexivity|]);
    first [ left; repeat split; reflexivity
          | right; left; split; [reflexivity|]; eexists; repeat split; reflexivity
          | right; right; repeat split; reflexivity ].
Qed.

Lemma stop_step s e :
  phase s = Stop ->
  let s1 := fst (io_step s e) in
  let o1 := snd (io_step s e) in
  io_err s1 = io_err s /\
  ( (phase s1 = Stop /\ o1 = [] /\ result s1 = result s)
    \/ (exists ok, e = EvControl ok /\ phase s1 = Shutdown /\ o1 = [] /\ result s1 = ok)
    \/ (e = EvControlReadyErr /\ phase s1 = Finished /\ o1 = [Done false]) ).
Proof.
  destruct s as [ph re ie er rs]. cbn [phase]. intros ->.
  destr_event e; cbn; (split; [reflexivity|]);
    first [ left; repeat split; reflexivity
          | right; left; eexists; repeat split; reflexivity
          | right; right; repeat split; reflexivity ].
Qed.

Lemma shutdown_step s e :
  phase s = Shutdown ->
  let s1 := fst (io_step s e) in
  let o1 := snd (io_step s e) in
  io_err s1 = io_err s /\
  ( (phase s1 = Shutdown /\ o1 = [] /\ result s1 = result s)
    \/ (e = EvSvcShutdown /\ io_err s = false /\ phase s1 = ShutdownIo /\ o1 = [NotifyStopping] /\
        result s1 = result s)
    \/ (e = EvSvcShutdown /\ io_err s = true /\ phase s1 = Finished /\
        o1 = [NotifyStopping; Done (result s)])
    \/ (e = EvControlReadyErr /\ phase s1 = Finished /\ o1 = [Done false]) ).
Proof.
  destruct s as [ph re ie er rs]. cbn [phase]. intros ->.
  destr_event e; cbn; try destruct ie; cbn; (split; [reflexivity|]);
    first [ left; repeat split; reflexivity
          | right; left; repeat split; reflexivity
          | right; right; left; repeat split; reflexivity
          | right; right; right; repeat split; reflexivity ].
Qed.

Lemma shutdownio_step s e :
  phase s = ShutdownIo ->
  let s1 := fst (io_step s e) in
  let o1 := snd (io_step s e) in
  ( (phase s1 = ShutdownIo /\ o1 = [] /\ result s1 = result s)
    \/ (e = EvIoShutdown /\ phase s1 = Finished /\ o1 = [Done (result s)])
    \/ (e = EvControlReadyErr /\ phase s1 = Finished /\ o1 = [Done false]) ).
Proof.
  destruct s as [ph re ie er rs]. cbn [phase]. intros ->.
  destr_event e; cbn;
    first [ left; repeat split; reflexivity
          | right; left; repeat split; reflexivity
          | right; right; repeat split; reflexivity ].
Qed.

(* a step from any phase that is not Processing / Backpressure *)
Lemma dead_step s e :
  live (phase s) = false ->
  let s1 := fst (io_step s e) in
  let o1 := snd (io_step s e) in
  live (phase s1) = false /\ count_stops o1 = 0%nat /\ existsb is_dispatch o1 = false /\
  existsb is_wr o1 = false.
Proof.
  destruct s as [ph re ie er rs]. cbn [phase]. intros L.
  destruct ph; try discriminate L; destr_event e; cbn; try destruct ie; cbn; repeat split; reflexivity.
Qed.

(* ---------------------------------------------------------------- C07_no_return *)
Lemma no_return s evs :
  live (phase s) = false ->
  live (phase (io_final s evs)) = false /\
  count_stops (io_outputs s evs) = 0%nat /\
  existsb is_dispatch (io_outputs s evs) = false /\
  existsb is_wr (io_outputs s evs) = false.
Proof.
  revert s; induction evs as [|e r IH]; intros s L.
  - rewrite io_final_nil, io_outputs_nil. cbn. auto.
  - rewrite io_final_cons, io_outputs_cons.
    destruct (dead_step s e L) as (L1 & C1 & D1 & W1).
    destruct (IH _ L1) as (L2 & C2 & D2 & W2).
    rewrite count_stops_app, !existsb_app, C1, C2, D1, D2, W1, W2. auto.
Qed.

(* ---------------------------------------------------------------- C07_stop_once *)
Lemma stop_once_le s evs :
  live (phase s) = true -> (count_stops (io_outputs s evs) <= 1)%nat.
Proof.
  revert s; induction evs as [|e r IH]; intros s L.
  - cbn. lia.
  - rewrite io_outputs_cons, count_stops_app.
    destruct (live_step s e L) as (_ & [(L1 & C1 & _) | [(P1 & c & O1 & S1 & _) | (_ & P1 & O1)]]).
    + rewrite C1. specialize (IH _ L1). lia.
    + rewrite O1. assert (L1 : live (phase (fst (io_step s e))) = false) by now rewrite P1.
      destruct (no_return _ r L1) as (_ & C2 & _). rewrite C2.
      unfold count_stops. cbn [filter]. unfold is_stop_ctl in S1. rewrite S1. cbn. lia.
    + rewrite O1. assert (L1 : live (phase (fst (io_step s e))) = false) by now rewrite P1.
      destruct (no_return _ r L1) as (_ & C2 & _). rewrite C2. cbn. lia.
Qed.

Lemma stop_once_done s evs :
  live (phase s) = true ->
  existsb is_done (io_outputs s evs) = true ->
  existsb is_ctl_ready_err evs = false ->
  count_stops (io_outputs s evs) = 1%nat.
Proof.
  revert s; induction evs as [|e r IH]; intros s L D NC.
  - cbn in D. discriminate.
  - cbn [existsb] in NC. apply orb_false_iff in NC as [NC1 NC2].
    rewrite io_outputs_cons, count_stops_app.
    rewrite io_outputs_cons, existsb_app in D.
    destruct (live_step s e L) as (_ & [(L1 & C1 & D1 & _) | [(P1 & c & O1 & S1 & _) | (E & _)]]).
    + rewrite D1 in D. cbn [orb] in D. rewrite C1. now rewrite (IH _ L1 D NC2).
    + rewrite O1. assert (L1 : live (phase (fst (io_step s e))) = false) by now rewrite P1.
      destruct (no_return _ r L1) as (_ & C2 & _). rewrite C2.
      unfold count_stops. cbn [filter]. unfold is_stop_ctl in S1. rewrite S1. reflexivity.
    + subst e. discriminate NC1.
Qed.

(* ---------------------------------------------------------------- C07_stop_reason *)
Lemma last_err_app acc a b : last_err acc (a ++ b) = last_err (last_err acc a) b.
Proof.
  revert acc; induction a as [|e a IH]; intros acc; [reflexivity|].
  cbn [app last_err]. destruct e; apply IH.
Qed.

Lemma stop_reason_gen s evs c :
  live (phase s) = true ->
  In (CallControl c) (io_outputs s evs) -> is_stop_ctl c = true ->
  exists pre e post,
    evs = pre ++ e :: post /\
    count_stops (io_outputs s pre) = 0%nat /\
    live (phase (io_final s pre)) = true /\
    stop_reason (last_err (err s) pre) e = Some c.
Proof.
  revert s; induction evs as [|e r IH]; intros s L I S.
  - cbn in I. contradiction.
  - rewrite io_outputs_cons in I. apply in_app_or in I.
    destruct (live_step s e L) as (_ & [(L1 & C1 & _ & _ & E1) | [(P1 & c1 & O1 & S1 & R1) | (_ & P1 & O1)]]).
    + destruct I as [I | I].
      * exfalso. unfold count_stops in C1.
        assert (In (CallControl c) (filter is_stop_call (snd (io_step s e)))) by (apply filter_In; auto).
        destruct (filter is_stop_call (snd (io_step s e))); [contradiction|discriminate].
      * destruct (IH _ L1 I S) as (pre & e' & post & -> & C & Lp & R).
        exists (e :: pre), e', post. repeat split.
        -- rewrite io_outputs_cons, count_stops_app, C1, C. reflexivity.
        -- now rewrite io_final_cons.
        -- cbn [last_err]. rewrite E1 in R. destruct e; exact R.
    + exists [], e, r. rewrite io_final_nil, io_outputs_nil. repeat split; auto.
      cbn [last_err]. rewrite O1 in I. destruct I as [I | I].
      * destruct I as [I|[]]. injection I as <-. exact R1.
      * exfalso. assert (L1 : live (phase (fst (io_step s e))) = false) by now rewrite P1.
        destruct (no_return _ r L1) as (_ & C2 & _). unfold count_stops in C2.
        assert (In (CallControl c) (filter is_stop_call (io_outputs (fst (io_step s e)) r)))
          by (apply filter_In; auto).
        destruct (filter is_stop_call (io_outputs (fst (io_step s e)) r)); [contradiction|discriminate].
    + exfalso. rewrite O1 in I. destruct I as [I | I].
      * destruct I as [I|[]]. discriminate.
      * assert (L1 : live (phase (fst (io_step s e))) = false) by now rewrite P1.
        destruct (no_return _ r L1) as (_ & C2 & _). unfold count_stops in C2.
        assert (In (CallControl c) (filter is_stop_call (io_outputs (fst (io_step s e)) r)))
          by (apply filter_In; auto).
        destruct (filter is_stop_call (io_outputs (fst (io_step s e)) r)); [contradiction|discriminate].
Qed.

(* ---------------------------------------------------------------- C07_notify_after_stop_handled *)
Lemma in_existsb_notify l : In NotifyStopping l <-> existsb is_notify l = true.
Proof.
  rewrite existsb_exists. split.
  - intros H. exists NotifyStopping. auto.
  - intros (x & I & E). destruct x; try discriminate. exact I.
Qed.

Lemma finished_outputs s evs : phase s = Finished -> io_outputs s evs = [].
Proof. intros H. unfold io_outputs. now rewrite finished_run. Qed.

Lemma finished_final s evs : phase s = Finished -> io_final s evs = s.
Proof. intros H. unfold io_final. now rewrite finished_run. Qed.

Lemma notify_from_stop s evs :
  phase s = Stop -> In NotifyStopping (io_outputs s evs) ->
  exists pre ok post,
    evs = pre ++ EvControl ok :: post /\
    phase (io_final s pre) = Stop /\
    io_outputs s (pre ++ [EvControl ok]) = [].
Proof.
  revert s; induction evs as [|e r IH]; intros s P I.
  - cbn in I. contradiction.
  - rewrite io_outputs_cons in I.
    destruct (stop_step s e P) as (_ & [(P1 & O1 & _) | [(ok & -> & P1 & O1 & _) | (_ & P1 & O1)]]).
    + rewrite O1 in I. cbn [app] in I.
      destruct (IH _ P1 I) as (pre & ok & post & -> & Pp & Oo).
      exists (e :: pre), ok, post. repeat split.
      * now rewrite io_final_cons.
      * cbn [app]. rewrite io_outputs_cons, O1. exact Oo.
    + exists [], ok, r. repeat split; auto.
      cbn [app]. rewrite io_outputs_cons, O1, io_outputs_nil. reflexivity.
    + exfalso. rewrite O1, (finished_outputs _ _ P1) in I. cbn in I. destruct I as [I|[]]. discriminate.
Qed.

Lemma notify_after_stop s evs :
  live (phase s) = true -> In NotifyStopping (io_outputs s evs) ->
  exists pre ok post,
    evs = pre ++ EvControl ok :: post /\
    phase (io_final s pre) = Stop /\
    count_stops (io_outputs s pre) = 1%nat /\
    ~ In NotifyStopping (io_outputs s (pre ++ [EvControl ok])).
Proof.
  revert s; induction evs as [|e r IH]; intros s L I.
  - cbn in I. contradiction.
  - rewrite io_outputs_cons in I. apply in_app_or in I.
    destruct (live_step s e L) as (_ & [(L1 & C1 & _ & N1 & _) | [(P1 & c & O1 & S1 & _) | (_ & P1 & O1)]]).
    + destruct I as [I | I].
      * apply in_existsb_notify in I. congruence.
      * destruct (IH _ L1 I) as (pre & ok & post & -> & Pp & Cc & Nn).
        exists (e :: pre), ok, post. repeat split.
        -- now rewrite io_final_cons.
        -- rewrite io_outputs_cons, count_stops_app, C1, Cc. reflexivity.
        -- cbn [app]. rewrite io_outputs_cons. intros H. apply in_app_or in H as [H | H].
           ++ apply in_existsb_notify in H. congruence.
           ++ contradiction.
    + destruct I as [I | I].
      * rewrite O1 in I. destruct I as [I|[]]. discriminate.
      * destruct (notify_from_stop _ _ P1 I) as (pre & ok & post & -> & Pp & Oo).
        exists (e :: pre), ok, post. repeat split.
        -- now rewrite io_final_cons.
        -- rewrite io_outputs_cons, count_stops_app, O1.
           assert (E : io_outputs (fst (io_step s e)) pre = []).
           { rewrite io_outputs_app in Oo. apply app_eq_nil in Oo. tauto. }
           rewrite E. unfold count_stops. cbn [filter]. unfold is_stop_ctl in S1. now rewrite S1.
        -- cbn [app]. rewrite io_outputs_cons, O1, Oo. cbn. intros [H|[]]. discriminate.
    + exfalso. rewrite O1, (finished_outputs _ _ P1) in I. cbn in I.
      destruct I as [[I|[]]|[]]. discriminate.
Qed.

(* ---------------------------------------------------------------- C07_done_needs_all *)
Lemma in_done_existsb ok l : In (Done ok) l -> existsb is_done l = true.
Proof. intros H. apply existsb_exists. exists (Done ok). auto. Qed.

Lemma done_from_shutdownio s evs ok :
  phase s = ShutdownIo -> existsb is_ctl_ready_err evs = false -> In (Done ok) (io_outputs s evs) ->
  exists mid post, evs = mid ++ EvIoShutdown :: post /\ phase (io_final s mid) = ShutdownIo /\
                   ok = result s.
Proof.
  revert s; induction evs as [|e r IH]; intros s P NC I.
  - cbn in I. contradiction.
  - cbn [existsb] in NC. apply orb_false_iff in NC as [NC1 NC2].
    rewrite io_outputs_cons in I.
    destruct (shutdownio_step s e P) as [(P1 & O1 & R1) | [(-> & P1 & O1) | (-> & _)]].
    + rewrite O1 in I. cbn [app] in I.
      destruct (IH _ P1 NC2 I) as (mid & post & -> & Pm & Rr).
      exists (e :: mid), post. repeat split; [now rewrite io_final_cons | congruence].
    + exists [], r. repeat split; auto.
      rewrite O1, (finished_outputs _ _ P1) in I. cbn in I. destruct I as [I|[]]. now injection I.
    + discriminate NC1.
Qed.

Lemma done_from_shutdown s evs ok :
  phase s = Shutdown -> existsb is_ctl_ready_err evs = false -> In (Done ok) (io_outputs s evs) ->
  exists mid rest,
    evs = mid ++ EvSvcShutdown :: rest /\ phase (io_final s mid) = Shutdown /\ ok = result s /\
    (io_err s = true \/
     exists mid2 post, rest = mid2 ++ EvIoShutdown :: post /\
                       phase (io_final s (mid ++ EvSvcShutdown :: mid2)) = ShutdownIo).
Proof.
  revert s; induction evs as [|e r IH]; intros s P NC I.
  - cbn in I. contradiction.
  - cbn [existsb] in NC. apply orb_false_iff in NC as [NC1 NC2].
    rewrite io_outputs_cons in I.
    destruct (shutdown_step s e P) as (IE & [(P1 & O1 & R1) | [(-> & IE0 & P1 & O1 & R1) | [(-> & IE1 & P1 & O1) | (-> & _)]]]).
    + rewrite O1 in I. cbn [app] in I.
      destruct (IH _ P1 NC2 I) as (mid & rest & -> & Pm & Rr & X).
      exists (e :: mid), rest. repeat split; [now rewrite io_final_cons | congruence |].
      destruct X as [X | (mid2 & post & -> & Y)]; [left; congruence|].
      right. exists mid2, post. split; [reflexivity|]. cbn [app]. now rewrite io_final_cons.
    + rewrite O1 in I. apply in_app_or in I as [I | I]; [destruct I as [I|[]]; discriminate|].
      destruct (done_from_shutdownio _ _ _ P1 NC2 I) as (mid2 & post & -> & Pm & Rr).
      exists [], (mid2 ++ EvIoShutdown :: post). repeat split; auto; [congruence|].
      right. exists mid2, post. split; [reflexivity|]. cbn [app]. now rewrite io_final_cons.
    + exists [], r. repeat split; auto.
      rewrite O1, (finished_outputs _ _ P1) in I. cbn in I.
      destruct I as [I|[I|[]]]; [discriminate | now injection I].
    + discriminate NC1.
Qed.

Lemma done_from_stop s evs ok :
  phase s = Stop -> existsb is_ctl_ready_err evs = false -> In (Done ok) (io_outputs s evs) ->
  exists pre mid rest,
    evs = pre ++ EvControl ok :: mid ++ EvSvcShutdown :: rest /\
    phase (io_final s pre) = Stop /\
    phase (io_final s (pre ++ EvControl ok :: mid)) = Shutdown /\
    (io_err s = true \/
     exists mid2 post, rest = mid2 ++ EvIoShutdown :: post /\
                       phase (io_final s (pre ++ EvControl ok :: mid ++ EvSvcShutdown :: mid2)) = ShutdownIo).
Proof.
  revert s; induction evs as [|e r IH]; intros s P NC I.
  - cbn in I. contradiction.
  - cbn [existsb] in NC. apply orb_false_iff in NC as [NC1 NC2].
    rewrite io_outputs_cons in I.
    destruct (stop_step s e P) as (IE & [(P1 & O1 & _) | [(k & -> & P1 & O1 & R1) | (-> & _)]]).
    + rewrite O1 in I. cbn [app] in I.
      destruct (IH _ P1 NC2 I) as (pre & mid & rest & -> & Pp & Pm & X).
      exists (e :: pre), mid, rest. repeat split.
      * now rewrite io_final_cons.
      * cbn [app]. now rewrite io_final_cons.
      * destruct X as [X | (mid2 & post & -> & Y)]; [left; congruence|].
        right. exists mid2, post. split; [reflexivity|]. cbn [app]. now rewrite io_final_cons.
    + rewrite O1 in I. cbn [app] in I.
      destruct (done_from_shutdown _ _ _ P1 NC2 I) as (mid & rest & -> & Pm & Rr & X).
      assert (ok = k) by congruence. subst k.
      exists [], mid, rest. repeat split; auto.
      * cbn [app]. now rewrite io_final_cons.
      * destruct X as [X | (mid2 & post & -> & Y)]; [left; congruence|].
        right. exists mid2, post. split; [reflexivity|]. cbn [app]. now rewrite io_final_cons.
    + discriminate NC1.
Qed.

Lemma done_needs_all s evs ok :
  live (phase s) = true -> existsb is_ctl_ready_err evs = false -> In (Done ok) (io_outputs s evs) ->
  exists pre mid rest,
    evs = pre ++ EvControl ok :: mid ++ EvSvcShutdown :: rest /\
    phase (io_final s pre) = Stop /\ count_stops (io_outputs s pre) = 1%nat /\
    phase (io_final s (pre ++ EvControl ok :: mid)) = Shutdown /\
    (io_err s = true \/
     exists mid2 post, rest = mid2 ++ EvIoShutdown :: post /\
                       phase (io_final s (pre ++ EvControl ok :: mid ++ EvSvcShutdown :: mid2)) = ShutdownIo).
Proof.
  revert s; induction evs as [|e r IH]; intros s L NC I.
  - cbn in I. contradiction.
  - cbn [existsb] in NC. apply orb_false_iff in NC as [NC1 NC2].
    rewrite io_outputs_cons in I. apply in_app_or in I.
    destruct (live_step s e L) as (IE & [(L1 & C1 & D1 & _ & _) | [(P1 & c & O1 & S1 & _) | (-> & _)]]).
    + destruct I as [I | I]; [apply in_done_existsb in I; congruence|].
      destruct (IH _ L1 NC2 I) as (pre & mid & rest & -> & Pp & Cc & Pm & X).
      exists (e :: pre), mid, rest. repeat split.
      * now rewrite io_final_cons.
      * rewrite io_outputs_cons, count_stops_app, C1, Cc. reflexivity.
      * cbn [app]. now rewrite io_final_cons.
      * destruct X as [X | (mid2 & post & -> & Y)]; [left; congruence|].
        right. exists mid2, post. split; [reflexivity|]. cbn [app]. now rewrite io_final_cons.
    + destruct I as [I | I]; [rewrite O1 in I; destruct I as [I|[]]; discriminate|].
      destruct (done_from_stop _ _ _ P1 NC2 I) as (pre & mid & rest & -> & Pp & Pm & X).
      exists (e :: pre), mid, rest. repeat split.
      * now rewrite io_final_cons.
      * rewrite io_outputs_cons, count_stops_app, O1.
        assert (Ld : live (phase (fst (io_step s e))) = false) by now rewrite P1.
        destruct (no_return _ pre Ld) as (_ & C2 & _). rewrite C2.
        unfold count_stops. cbn [filter]. unfold is_stop_ctl in S1. now rewrite S1.
      * cbn [app]. now rewrite io_final_cons.
      * destruct X as [X | (mid2 & post & -> & Y)]; [left; congruence|].
        right. exists mid2, post. split; [reflexivity|]. cbn [app]. now rewrite io_final_cons.
    + discriminate NC1.
Qed.

(* ---------------------------------------------------------------- packaged statements *)
Lemma stop_once s evs :
  live (phase s) = true ->
  (count_stops (io_outputs s evs) <= 1)%nat /\
  (existsb is_done (io_outputs s evs) = true -> existsb is_ctl_ready_err evs = false ->
   count_stops (io_outputs s evs) = 1%nat).
Proof. intros L. split; [now apply stop_once_le | now apply stop_once_done]. Qed.

Lemma stop_once_refuted :
  exists evs, existsb is_done (io_outputs io_init evs) = true /\ count_stops (io_outputs io_init evs) = 0%nat /\
              phase (io_final io_init evs) = Finished.
Proof. exists [EvRecv RvItem; EvControlReadyErr]. vm_compute. repeat split; reflexivity. Qed.

Lemma stop_reason_first_refuted :
  io_outputs io_init [EvHandler HSvcErr; EvHandler HProtoErr; EvRecv RvNone] = [CallControl StopProtocol] /\
  io_outputs io_init [EvRecv RvWrBack; EvHandler HSvcErr; EvFlush false] =
    [CallControl (Wr true); CallControl StopPeerGone].
Proof. vm_compute. split; reflexivity. Qed.
