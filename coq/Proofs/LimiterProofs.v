(* Proofs/LimiterProofs.v -- in progress *)
From MV Require Import Base.Prelude Base.Res Model.Limiter.
