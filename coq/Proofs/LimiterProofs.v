(* Proofs/LimiterProofs.v -- invariants of Model/Limiter.v and the lemmas behind Props/C12.v *)
From MV Require Import Base.Prelude Base.Res Model.Limiter.

(* ------------------------------------------------------------------ tactics *)
Ltac b2p :=
  repeat match goal with
  | H : context [N.eqb ?a ?b] |- _ => destruct (N.eqb_spec a b)
  | |- context [N.eqb ?a ?b] => destruct (N.eqb_spec a b)
  | H : context [N.ltb ?a ?b] |- _ => destruct (N.ltb_spec a b)
  | |- context [N.ltb ?a ?b] => destruct (N.ltb_spec a b)
  | H : context [N.leb ?a ?b] |- _ => destruct (N.leb_spec a b)
  | |- context [N.leb ?a ?b] => destruct (N.leb_spec a b)
  end.

Ltac proj := cbn [max_cap max_size cur_cap cur_size publish_flag waker_registered pl_waker paused woken
                  may_call running submitted set_counts set_flag set_waker set_plw set_paused set_woken
                  set_may set_running set_submitted c_size c_kind] in *.

(* ------------------------------------------------------------------ lists *)
Definition sum_sizes (l : list call) : N := fold_right (fun c a => c_size c + a) 0 l.

Lemma lenN_app {A} (l : list A) x : lenN (l ++ [x]) = lenN l + 1.
Proof. unfold lenN. rewrite app_length. cbn [length]. lia. Qed.

Lemma sum_sizes_app l c : sum_sizes (l ++ [c]) = sum_sizes l + c_size c.
Proof. induction l as [|h t IH]; cbn [sum_sizes fold_right app] in *; [lia|]. fold (sum_sizes (t ++ [c])). fold (sum_sizes t). lia. Qed.

Lemma lenN_cons {A} (x : A) l : lenN (x :: l) = lenN l + 1.
Proof. unfold lenN. cbn [length]. lia. Qed.

Lemma remove_nth_len {A} (l : list A) k c :
  nth_error l k = Some c -> lenN l = lenN (remove_nth k l) + 1.
Proof.
  revert k; induction l as [|h t IH]; intros [|k] H; cbn [nth_error remove_nth] in *; try discriminate.
  - apply lenN_cons.
  - rewrite !lenN_cons. rewrite (IH k H). reflexivity.
Qed.

Lemma remove_nth_sum l k c :
  nth_error l k = Some c -> sum_sizes l = sum_sizes (remove_nth k l) + c_size c.
Proof.
  revert k; induction l as [|h t IH]; intros [|k] H; cbn [nth_error remove_nth] in *; try discriminate.
  - injection H as ->. cbn [sum_sizes fold_right]. fold (sum_sizes t). lia.
  - cbn [sum_sizes fold_right]. fold (sum_sizes t). fold (sum_sizes (remove_nth k t)). rewrite (IH k H). lia.
Qed.

Lemma count_kind_app p l c :
  count_kind p (l ++ [c]) = count_kind p l + (if p (c_kind c) then 1 else 0).
Proof.
  unfold count_kind. rewrite filter_app. cbn [filter]. destruct (p (c_kind c)).
  - apply lenN_app.
  - rewrite app_nil_r. lia.
Qed.

Lemma count_kind_le_len p l : count_kind p l <= lenN l.
Proof.
  unfold count_kind, lenN. induction l as [|h t IH]; cbn [filter length]; [lia|].
  destruct (p (c_kind h)); cbn [length]; lia.
Qed.

Lemma count_kind_remove p l k : count_kind p (remove_nth k l) <= count_kind p l.
Proof.
  unfold count_kind, lenN. revert k; induction l as [|h t IH]; intros [|k]; cbn [remove_nth filter length]; try lia.
  - destruct (p (c_kind h)); cbn [length]; lia.
  - specialize (IH k). destruct (p (c_kind h)); cbn [length]; lia.
Qed.

Lemma count_kind_mono (p q : kind -> bool) l :
  (forall k, p k = true -> q k = true) -> count_kind p l <= count_kind q l.
Proof.
  intros Hpq. unfold count_kind, lenN. induction l as [|h t IH]; cbn [filter length]; [lia|].
  destruct (p (c_kind h)) eqn:E.
  - rewrite (Hpq _ E). cbn [length]. lia.
  - destruct (q (c_kind h)); cbn [length]; lia.
Qed.

(* ------------------------------------------------------------------ frame facts *)
Lemma task_wake_frame s :
  max_cap (task_wake s) = max_cap s /\ max_size (task_wake s) = max_size s /\
  cur_cap (task_wake s) = cur_cap s /\ cur_size (task_wake s) = cur_size s /\
  publish_flag (task_wake s) = publish_flag s /\ pl_waker (task_wake s) = pl_waker s /\
  paused (task_wake s) = paused s /\ may_call (task_wake s) = may_call s /\
  running (task_wake s) = running s /\ submitted (task_wake s) = submitted s /\
  (woken s = true -> woken (task_wake s) = true) /\
  (waker_registered s = true -> woken (task_wake s) = true).
Proof. unfold task_wake. destruct (waker_registered s); proj; repeat split; auto; discriminate. Qed.

Lemma notify_frame s :
  max_cap (notify s) = max_cap s /\ max_size (notify s) = max_size s /\
  cur_cap (notify s) = cur_cap s /\ cur_size (notify s) = cur_size s /\
  publish_flag (notify s) = publish_flag s /\ waker_registered (notify s) = waker_registered s /\
  paused (notify s) = paused s /\ may_call (notify s) = may_call s /\
  running (notify s) = running s /\ submitted (notify s) = submitted s /\
  (woken s = true -> woken (notify s) = true).
Proof. unfold notify. destruct (pl_waker s); proj; repeat split; auto. Qed.

Lemma is_available_eq s t :
  max_cap t = max_cap s -> max_size t = max_size s -> cur_cap t = cur_cap s -> cur_size t = cur_size s ->
  is_available t = is_available s.
Proof. unfold is_available. intros -> -> -> ->. reflexivity. Qed.

(* ------------------------------------------------------------------ shape of the steps *)
(* inc either panics or adds one call of the given size; flags other than woken / waker are kept *)
Lemma inc_ok s g s' :
  inc s g = Ok s' ->
  max_cap s' = max_cap s /\ max_size s' = max_size s /\
  cur_cap s' = cur_cap s + 1 /\ cur_size s' = cur_size s + g /\
  publish_flag s' = publish_flag s /\ pl_waker s' = pl_waker s /\ paused s' = paused s /\
  may_call s' = may_call s /\ running s' = running s /\ submitted s' = submitted s /\
  (woken s = true -> woken s' = true).
Proof.
  unfold inc, add_chk. intros H.
  destruct (cur_cap s + 1 <=? U16MAX); cbn [bind] in H; [|discriminate].
  destruct (cur_size s + g <=? U64MAX); cbn [bind] in H; [|discriminate].
  injection H as <-.
  destruct ((cur_cap s + 1 =? max_cap s) || (max_size s <=? cur_size s + g)).
  - pose proof (task_wake_frame (set_counts s (cur_cap s + 1) (cur_size s + g))) as F. proj.
    destruct F as (-> & -> & -> & -> & -> & -> & -> & -> & -> & -> & Hw & _). repeat split; auto.
  - proj. repeat split; auto.
Qed.

Lemma inc_no_panic s g site :
  cur_cap s + 1 <= U16MAX -> cur_size s + g <= U64MAX -> inc s g <> Panic site.
Proof.
  unfold inc, add_chk. intros H1 H2.
  destruct (N.leb_spec (cur_cap s + 1) U16MAX); [|lia]. cbn [bind].
  destruct (N.leb_spec (cur_size s + g) U64MAX); [|lia]. cbn [bind]. discriminate.
Qed.

Lemma dec_ok s g s' :
  dec s g = Ok s' ->
  1 <= cur_cap s /\ g <= cur_size s /\
  max_cap s' = max_cap s /\ max_size s' = max_size s /\
  cur_cap s' = cur_cap s - 1 /\ cur_size s' = cur_size s - g /\
  publish_flag s' = publish_flag s /\ pl_waker s' = pl_waker s /\ paused s' = paused s /\
  may_call s' = may_call s /\ running s' = running s /\ submitted s' = submitted s /\
  (woken s = true -> woken s' = true) /\
  (waker_registered s = true ->
   ((cur_cap s =? max_cap s) || ((max_size s <? cur_size s) && (cur_size s - g <=? max_size s))) = true ->
   woken s' = true) /\
  (((cur_cap s =? max_cap s) || ((max_size s <? cur_size s) && (cur_size s - g <=? max_size s))) = false ->
   waker_registered s' = waker_registered s).
Proof.
  unfold dec, sub_chk. intros H.
  destruct (N.leb_spec 1 (cur_cap s)); cbn [bind] in H; [|discriminate].
  destruct (N.leb_spec g (cur_size s)); cbn [bind] in H; [|discriminate].
  injection H as <-.
  destruct ((cur_cap s =? max_cap s) || ((max_size s <? cur_size s) && (cur_size s - g <=? max_size s))).
  - pose proof (task_wake_frame (set_counts s (cur_cap s - 1) (cur_size s - g))) as F. proj.
    destruct F as (-> & -> & -> & -> & -> & -> & -> & -> & -> & -> & Hw & Hr).
    repeat split; auto. discriminate.
  - proj. repeat split; auto. discriminate.
Qed.

Lemma dec_no_panic s g site : 1 <= cur_cap s -> g <= cur_size s -> dec s g <> Panic site.
Proof.
  unfold dec, sub_chk. intros H1 H2.
  destruct (N.leb_spec 1 (cur_cap s)); [|lia]. cbn [bind].
  destruct (N.leb_spec g (cur_size s)); [|lia]. cbn [bind]. discriminate.
Qed.

Definition gsize_of (s : lim) (size : N) : N := if 0 <? max_size s then size else 0.
Definition flag_after (s : lim) (k : kind) : bool := is_publish k || (publish_flag s && is_chunk k).

Lemma first_poll_ok s k size s' :
  first_poll s k size = Ok s' ->
  paused s = false /\
  max_cap s' = max_cap s /\ max_size s' = max_size s /\
  cur_cap s' = cur_cap s + 1 /\ cur_size s' = cur_size s + gsize_of s size /\
  publish_flag s' = flag_after s k /\ paused s' = false /\ may_call s' = may_call s /\
  running s' = running s ++ [mkCall k (gsize_of s size)] /\ submitted s' = submitted s /\
  (woken s = true -> woken s' = true).
Proof.
  unfold first_poll. intros H. destruct (paused s) eqn:Ep; [discriminate|].
  fold (gsize_of s size) in H.
  set (f := if is_publish k then true else if publish_flag s && negb (is_chunk k) then false else publish_flag s) in *.
  assert (Ef : f = flag_after s k).
  { unfold f, flag_after. destruct (is_publish k), (publish_flag s), (is_chunk k); reflexivity. }
  destruct (inc (set_flag s f) (gsize_of s size)) as [s2| |] eqn:Ei; cbn [bind] in H; try discriminate.
  injection H as <-.
  apply inc_ok in Ei. proj. destruct Ei as (A1 & A2 & A3 & A4 & A5 & A6 & A7 & A8 & A9 & A10 & A11).
  pose proof (notify_frame s2) as (B1 & B2 & B3 & B4 & B5 & B6 & B7 & B8 & B9 & B10 & B11).
  proj. rewrite B1, B2, B3, B4, B5, B7, B8, B9, B10, A1, A2, A3, A4, A5, A7, A8, A9, A10, Ef, Ep.
  repeat split; auto.
Qed.

Lemma first_poll_no_panic s k size site :
  cur_cap s + 1 <= U16MAX -> cur_size s + gsize_of s size <= U64MAX -> first_poll s k size <> Panic site.
Proof.
  unfold first_poll. intros H1 H2. destruct (paused s); [discriminate|].
  fold (gsize_of s size).
  match goal with |- context [inc ?x ?g] => destruct (inc x g) eqn:Ei end; cbn [bind]; try discriminate.
  exfalso. revert Ei. apply inc_no_panic; proj; assumption.
Qed.

Lemma step_ready_frame s :
  max_cap (step_ready s) = max_cap s /\ max_size (step_ready s) = max_size s /\
  cur_cap (step_ready s) = cur_cap s /\ cur_size (step_ready s) = cur_size s /\
  publish_flag (step_ready s) = publish_flag s /\ running (step_ready s) = running s /\
  submitted (step_ready s) = submitted s.
Proof.
  unfold step_ready. proj.
  destruct (paused s).
  - destruct (is_available _).
    + match goal with |- context [notify ?x] => pose proof (notify_frame x) as F end. proj.
      destruct F as (-> & -> & -> & -> & -> & _ & _ & _ & -> & -> & _). repeat split; reflexivity.
    + proj. repeat split; reflexivity.
  - destruct (publish_flag s || is_available _).
    + match goal with |- context [notify ?x] => pose proof (notify_frame x) as F end. proj.
      destruct F as (-> & -> & -> & -> & -> & _ & _ & _ & -> & -> & _). repeat split; reflexivity.
    + proj. repeat split; reflexivity.
Qed.

(* what the answer of a poll depends on *)
Lemma step_ready_answer s :
  may_call (step_ready s) = if paused s then is_available s else publish_flag s || is_available s.
Proof.
  unfold step_ready. proj.
  assert (E1 : is_available (set_waker (set_woken s false) true) = is_available s) by reflexivity.
  assert (E2 : is_available (set_woken s false) = is_available s) by reflexivity.
  rewrite E1, E2.
  destruct (paused s).
  - destruct (is_available s).
    + match goal with |- context [notify ?x] => pose proof (notify_frame x) as F end. proj.
      destruct F as (_ & _ & _ & _ & _ & _ & _ & -> & _). reflexivity.
    + proj. reflexivity.
  - destruct (publish_flag s || is_available s).
    + match goal with |- context [notify ?x] => pose proof (notify_frame x) as F end. proj.
      destruct F as (_ & _ & _ & _ & _ & _ & _ & -> & _). reflexivity.
    + proj. reflexivity.
Qed.

Lemma step_ready_paused s : paused (step_ready s) = negb (may_call (step_ready s)).
Proof.
  unfold step_ready. proj.
  destruct (paused s) eqn:Ep.
  - destruct (is_available _).
    + match goal with |- context [notify ?x] => pose proof (notify_frame x) as F end. proj.
      destruct F as (_ & _ & _ & _ & _ & _ & -> & -> & _). proj. rewrite ?Ep. reflexivity.
    + proj. rewrite ?Ep. reflexivity.
  - destruct (publish_flag s || is_available _).
    + match goal with |- context [notify ?x] => pose proof (notify_frame x) as F end. proj.
      destruct F as (_ & _ & _ & _ & _ & _ & -> & -> & _). proj. rewrite ?Ep. reflexivity.
    + proj. rewrite ?Ep. reflexivity.
Qed.

(* a pending answer leaves the waker registered in the counter and in the waiters slot *)
Lemma step_ready_pending s :
  may_call (step_ready s) = false ->
  waker_registered (step_ready s) = true /\ pl_waker (step_ready s) = true /\ woken (step_ready s) = false.
Proof.
  unfold step_ready. proj.
  destruct (paused s).
  - destruct (is_available _).
    + match goal with |- context [notify ?x] => pose proof (notify_frame x) as F end. proj.
      destruct F as (_ & _ & _ & _ & _ & _ & _ & -> & _). discriminate.
    + proj. auto.
  - destruct (publish_flag s || is_available _).
    + match goal with |- context [notify ?x] => pose proof (notify_frame x) as F end. proj.
      destruct F as (_ & _ & _ & _ & _ & _ & _ & -> & _). discriminate.
    + proj. auto.
Qed.

(* ------------------------------------------------------------------ Inv0: the counters count *)
Definition Inv0 (mc ms : N) (s : lim) : Prop :=
  max_cap s = mc /\ max_size s = ms /\ cur_cap s = lenN (running s) /\ cur_size s = sum_sizes (running s).

Lemma inv0_init mc ms : Inv0 mc ms (lim_init mc ms).
Proof. repeat split. Qed.

Lemma step_complete_ok s k s' :
  step_complete s k = Ok s' ->
  (nth_error (running s) k = None /\ s' = s) \/
  exists c, nth_error (running s) k = Some c /\
            dec (set_running s (remove_nth k (running s))) (c_size c) = Ok s'.
Proof.
  unfold step_complete. destruct (nth_error (running s) k) as [c|].
  - intros H. right. exists c. auto.
  - intros H. injection H as <-. left. auto.
Qed.

Lemma step_start_ok s j s' :
  step_start s j = Ok s' ->
  (nth_error (submitted s) j = None /\ s' = s) \/
  exists k size, nth_error (submitted s) j = Some (k, size) /\
                 first_poll (set_submitted s (remove_nth j (submitted s))) k size = Ok s'.
Proof.
  unfold step_start. destruct (nth_error (submitted s) j) as [[k size]|].
  - intros H. right. exists k, size. auto.
  - intros H. injection H as <-. left. auto.
Qed.

Lemma inv0_first_poll mc ms s k size s' :
  Inv0 mc ms s -> first_poll s k size = Ok s' -> Inv0 mc ms s'.
Proof.
  intros (I1 & I2 & I3 & I4) H. apply first_poll_ok in H.
  destruct H as (_ & A1 & A2 & A3 & A4 & _ & _ & _ & A9 & _).
  unfold Inv0. rewrite A1, A2, A3, A4, A9, lenN_app, sum_sizes_app. cbn [c_size]. repeat split; auto; lia.
Qed.

Lemma inv0_step mc ms s o s' : Inv0 mc ms s -> step s o = Ok s' -> Inv0 mc ms s'.
Proof.
  intros I H. destruct o as [|k size|k|k size|j]; cbn [step] in H.
  - injection H as <-. destruct I as (I1 & I2 & I3 & I4).
    pose proof (step_ready_frame s) as (A1 & A2 & A3 & A4 & _ & A6 & _).
    unfold Inv0. rewrite A1, A2, A3, A4, A6. auto.
  - unfold step_call in H. destruct (first_poll s k size) as [s1| |] eqn:E; cbn [bind] in H; try discriminate.
    injection H as <-. pose proof (inv0_first_poll _ _ _ _ _ _ I E) as (J1 & J2 & J3 & J4).
    unfold Inv0. proj. auto.
  - apply step_complete_ok in H. destruct H as [(_ & ->)|(c & Hn & Hd)]; [assumption|].
    destruct I as (I1 & I2 & I3 & I4).
    apply dec_ok in Hd. proj. destruct Hd as (D1 & D2 & D3 & D4 & D5 & D6 & _ & _ & _ & _ & D11 & _).
    unfold Inv0. rewrite D3, D4, D5, D6, D11.
    pose proof (remove_nth_len _ _ _ Hn). pose proof (remove_nth_sum _ _ _ Hn).
    repeat split; auto; lia.
  - injection H as <-. destruct I as (I1 & I2 & I3 & I4). unfold Inv0, step_submit. proj. auto.
  - apply step_start_ok in H. destruct H as [(_ & ->)|(k & size & Hn & Hf)]; [assumption|].
    eapply inv0_first_poll; [|exact Hf]. destruct I as (I1 & I2 & I3 & I4). unfold Inv0. proj. auto.
Qed.

Lemma inv0_run mc ms ops : forall s s', Inv0 mc ms s -> run_from s ops = Ok s' -> Inv0 mc ms s'.
Proof.
  induction ops as [|o r IH]; intros s s' I H; cbn [run_from] in H.
  - injection H as <-. assumption.
  - destruct (step s o) as [s1| |] eqn:E; cbn [bind] in H; try discriminate.
    eapply IH; [|exact H]. eapply inv0_step; eassumption.
Qed.

(* ------------------------------------------------------------------ no panic: every op sequence *)
Definition NP (s : lim) (n : N) : Prop :=
  cur_cap s = lenN (running s) /\ cur_size s = sum_sizes (running s) /\
  lenN (running s) <= n /\ cur_size s <= n * U32MAX /\
  Forall (fun p : kind * N => snd p <= U32MAX) (submitted s).

Lemma gsize_le s size : gsize_of s size <= size.
Proof. unfold gsize_of. destruct (0 <? max_size s); lia. Qed.

Lemma Forall_remove_nth {A} (P : A -> Prop) l k : Forall P l -> Forall P (remove_nth k l).
Proof.
  intros H. revert k. induction H as [|h t Hh Ht IH]; intros [|k]; cbn [remove_nth]; auto.
Qed.

Lemma np_first_poll s n k size :
  NP s n -> n < U16MAX -> size <= U32MAX ->
  (forall site, first_poll s k size <> Panic site) /\
  (forall s', first_poll s k size = Ok s' -> NP s' (n + 1)).
Proof.
  intros (N1 & N2 & N3 & N4 & N5) Hn Hs. pose proof (gsize_le s size) as Hg. split.
  - intros site. apply first_poll_no_panic; unfold U16MAX, U64MAX, U32MAX in *; lia.
  - intros s' H. apply first_poll_ok in H.
    destruct H as (_ & _ & _ & A3 & A4 & _ & _ & _ & A9 & A10 & _).
    unfold NP. rewrite A3, A4, A9, A10, lenN_app, sum_sizes_app. cbn [c_size].
    repeat split; auto; unfold U32MAX in *; lia.
Qed.

Lemma np_step s n o :
  NP s n -> n < U16MAX -> op_size_ok o = true ->
  (forall site, step s o <> Panic site) /\ (forall s', step s o = Ok s' -> NP s' (n + 1)).
Proof.
  intros NPs Hn Hs. destruct o as [|k size|k|k size|j]; cbn [step].
  - split; [discriminate|]. intros s' H. injection H as <-.
    destruct NPs as (N1 & N2 & N3 & N4 & N5).
    pose proof (step_ready_frame s) as (_ & _ & A3 & A4 & _ & A6 & A7).
    unfold NP. rewrite A3, A4, A6, A7. repeat split; auto; unfold U32MAX in *; lia.
  - cbn [op_size_ok frame_of] in Hs. apply N.leb_le in Hs.
    destruct (np_first_poll s n k size NPs Hn Hs) as (P1 & P2). unfold step_call. split.
    + intros site. destruct (first_poll s k size) eqn:E; cbn [bind]; try discriminate.
      exfalso. exact (P1 _ eq_refl).
    + intros s' H. destruct (first_poll s k size) as [s1| |] eqn:E; cbn [bind] in H; try discriminate.
      injection H as <-. specialize (P2 _ eq_refl). destruct P2 as (Q1 & Q2 & Q3 & Q4 & Q5).
      unfold NP. proj. auto.
  - destruct NPs as (N1 & N2 & N3 & N4 & N5). unfold step_complete.
    destruct (nth_error (running s) k) as [c|] eqn:En.
    + pose proof (remove_nth_len _ _ _ En) as L1. pose proof (remove_nth_sum _ _ _ En) as L2. split.
      * intros site. apply dec_no_panic; proj; lia.
      * intros s' H. apply dec_ok in H. proj.
        destruct H as (D1 & D2 & _ & _ & D5 & D6 & _ & _ & _ & _ & D11 & D12 & _).
        unfold NP. rewrite D5, D6, D11, D12. repeat split; auto; unfold U32MAX in *; lia.
    + split; [discriminate|]. intros s' H. injection H as <-.
      unfold NP. repeat split; auto; unfold U32MAX in *; lia.
  - split; [discriminate|]. intros s' H. injection H as <-.
    cbn [op_size_ok frame_of] in Hs. apply N.leb_le in Hs.
    destruct NPs as (N1 & N2 & N3 & N4 & N5). unfold NP, step_submit. proj.
    repeat split; auto; try (unfold U32MAX in *; lia).
    apply Forall_app. split; auto.
  - destruct NPs as (N1 & N2 & N3 & N4 & N5). unfold step_start.
    destruct (nth_error (submitted s) j) as [[k size]|] eqn:En.
    + assert (Hsz : size <= U32MAX).
      { apply nth_error_In in En. rewrite Forall_forall in N5. exact (N5 _ En). }
      apply np_first_poll; auto. unfold NP. proj. repeat split; auto. apply Forall_remove_nth. assumption.
    + split; [discriminate|]. intros s' H. injection H as <-.
      unfold NP. repeat split; auto; unfold U32MAX in *; lia.
Qed.

Lemma np_run ops : forall s n site,
  NP s n -> n + N.of_nat (length ops) <= U16MAX -> forallb op_size_ok ops = true ->
  run_from s ops <> Panic site.
Proof.
  induction ops as [|o r IH]; intros s n site NPs Hn Hs; cbn [run_from]; [discriminate|].
  cbn [forallb] in Hs. apply andb_true_iff in Hs as (Hs1 & Hs2).
  cbn [length] in Hn. rewrite Nat2N.inj_succ in Hn.
  assert (Hn1 : n < U16MAX) by lia.
  destruct (np_step s n o NPs Hn1 Hs1) as (P1 & P2).
  destruct (step s o) as [s1| |] eqn:E; cbn [bind]; try discriminate.
  - apply (IH s1 (n + 1)); auto. lia.
  - exfalso. exact (P1 _ eq_refl).
Qed.

Lemma no_panic mc ms ops site :
  N.of_nat (length ops) <= U16MAX -> forallb op_size_ok ops = true -> run mc ms ops <> Panic site.
Proof.
  intros Hn Hs. unfold run. apply (np_run ops (lim_init mc ms) 0); auto.
  unfold NP, lim_init. proj. repeat split; auto; cbn; lia.
Qed.

(* ------------------------------------------------------------------ InvA: what the legal discipline maintains *)
Definition sub_ok (s : lim) : Prop :=
  match submitted s with
  | [] => True
  | [_] => paused s = false /\ may_call s = false
  | _ => False
  end.

Definition InvA (s : lim) : Prop :=
  (paused s = true -> publish_flag s = false /\ may_call s = false /\ pl_waker s = true) /\
  (may_call s = true -> publish_flag s = true \/ is_available s = true) /\
  (paused s = true -> woken s = true \/ (waker_registered s = true /\ is_available s = false)) /\
  sub_ok s.

Lemma invA_init mc ms : InvA (lim_init mc ms).
Proof. unfold InvA, sub_ok, lim_init. proj. repeat split; discriminate. Qed.

Lemma invA_not_paused s : paused s = false -> may_call s = false -> sub_ok s -> InvA s.
Proof. intros H1 H2 H3. unfold InvA. rewrite H1, H2. repeat split; try discriminate. assumption. Qed.

Lemma sub_ok_may s : sub_ok s -> may_call s = true -> submitted s = [].
Proof.
  unfold sub_ok. destruct (submitted s) as [|x [|y t]]; auto.
  - intros (_ & H) H'. congruence.
  - intros [].
Qed.

Lemma invA_ready s : InvA s -> submitted s = [] -> InvA (step_ready s).
Proof.
  intros (A1 & A2 & A3 & A4) Hs.
  pose proof (step_ready_answer s) as Ans. pose proof (step_ready_paused s) as Pa.
  pose proof (step_ready_frame s) as (F1 & F2 & F3 & F4 & F5 & _ & F7).
  pose proof (is_available_eq s (step_ready s) F1 F2 F3 F4) as Av.
  assert (S' : sub_ok (step_ready s)) by (unfold sub_ok; rewrite F7, Hs; exact I).
  destruct (may_call (step_ready s)) eqn:Em; cbn [negb] in Pa; symmetry in Ans.
  - unfold InvA. rewrite Pa, Em, F5, Av. split; [discriminate|]. split; [|split; [discriminate|exact S']].
    intros _. destruct (paused s); [right; exact Ans|]. apply orb_true_iff in Ans. exact Ans.
  - destruct (step_ready_pending s Em) as (W1 & W2 & W3).
    assert (Hna : is_available s = false).
    { destruct (paused s); [exact Ans|]. apply orb_false_iff in Ans. apply Ans. }
    assert (Hnf : publish_flag s = false).
    { destruct (paused s) eqn:Ep; [apply A1; reflexivity|]. apply orb_false_iff in Ans. apply Ans. }
    unfold InvA. rewrite Pa, Em, F5, Av, W1, W2. split; [auto|]. split; [discriminate|].
    split; [|exact S']. intros _. right. auto.
Qed.

Lemma avail_dec_mono s s' g :
  max_cap s' = max_cap s -> max_size s' = max_size s ->
  cur_cap s' = cur_cap s - 1 -> cur_size s' = cur_size s - g ->
  is_available s = true -> is_available s' = true.
Proof.
  unfold is_available. intros -> -> -> -> H.
  apply andb_true_iff in H as (H1 & H2). apply orb_true_iff in H1, H2.
  apply andb_true_iff. split; apply orb_true_iff.
  - destruct H1 as [H1|H1]; [left; assumption|right]. b2p; try discriminate; try reflexivity; lia.
  - destruct H2 as [H2|H2]; [left; assumption|right]. b2p; try discriminate; try reflexivity; lia.
Qed.

Lemma ready_allowed s : op_allowed s Ready = true -> submitted s = [].
Proof. cbn [op_allowed]. destruct (submitted s); [reflexivity|discriminate]. Qed.

Lemma invA_step s o s' : InvA s -> op_allowed s o = true -> step s o = Ok s' -> InvA s'.
Proof.
  intros IA Hal H. destruct o as [|k size|k|k size|j]; cbn [step] in *.
  - injection H as <-. apply invA_ready; [assumption|]. apply ready_allowed. assumption.
  - cbn [op_allowed rr_allowed] in Hal. destruct IA as (A1 & A2 & A3 & A4).
    pose proof (sub_ok_may _ A4 Hal) as Hs.
    unfold step_call in H. destruct (first_poll s k size) as [s1| |] eqn:E; cbn [bind] in H; try discriminate.
    injection H as <-. apply first_poll_ok in E. destruct E as (_ & _ & _ & _ & _ & _ & P & _ & _ & S & _).
    apply invA_not_paused; proj; auto. unfold sub_ok. proj. rewrite S, Hs. exact I.
  - apply step_complete_ok in H. destruct H as [(_ & ->)|(c & Hn & Hd)]; [assumption|].
    destruct IA as (A1 & A2 & A3 & A4).
    apply dec_ok in Hd. proj.
    destruct Hd as (D1 & D2 & D3 & D4 & D5 & D6 & D7 & D8 & D9 & D10 & _ & D12 & Dw & Dk & Dn).
    unfold InvA, sub_ok. rewrite D7, D8, D9, D10, D12. split; [exact A1|]. split; [|split; [|exact A4]].
    + intros Hm. destruct (A2 Hm) as [Hf|Hav]; [left; assumption|right].
      eapply avail_dec_mono; [exact D3|exact D4|exact D5|exact D6|]. exact Hav.
    + intros Hp. destruct (A3 Hp) as [Hw|(Hr & Hna)]; [left; auto|].
      match type of Dn with (?c = false -> _) => destruct c eqn:Ec end.
      * left. apply Dk; auto.
      * right. split; [rewrite Dn; auto|].
        clear Dk Dn Dw. revert Hna Ec. unfold is_available. rewrite D3, D4, D5, D6. proj.
        intros Hna Ec. apply orb_false_iff in Ec as (E1 & E2).
        apply andb_false_iff in Hna. apply andb_false_iff.
        destruct Hna as [Hna|Hna]; apply orb_false_iff in Hna as (H1 & H2).
        -- left. apply orb_false_iff. split; [assumption|]. b2p; try discriminate; try reflexivity; lia.
        -- right. apply orb_false_iff. split; [assumption|].
           apply andb_false_iff in E2. b2p; try discriminate; try reflexivity; try lia;
             destruct E2; discriminate.
  - cbn [op_allowed rr_allowed] in Hal. injection H as <-. destruct IA as (A1 & A2 & A3 & A4).
    pose proof (sub_ok_may _ A4 Hal) as Hs.
    assert (Hp : paused s = false).
    { destruct (paused s) eqn:Ep; [|reflexivity]. destruct (A1 eq_refl) as (_ & Hm & _). congruence. }
    apply invA_not_paused; unfold step_submit; proj; auto.
    unfold sub_ok. proj. rewrite Hs. cbn [app]. auto.
  - cbn [op_allowed rr_allowed] in Hal. apply negb_true_iff in Hal.
    apply step_start_ok in H. destruct H as [(_ & ->)|(k & size & Hn & Hf)]; [assumption|].
    destruct IA as (A1 & A2 & A3 & A4).
    apply first_poll_ok in Hf. proj. destruct Hf as (_ & _ & _ & _ & _ & _ & P & M & _ & S & _).
    apply invA_not_paused; auto; [congruence|].
    unfold sub_ok in *. rewrite S. destruct (submitted s) as [|x [|y t]]; try contradiction.
    + destruct j; discriminate.
    + destruct j as [|[|j]]; cbn [remove_nth nth_error] in *; try discriminate. exact I.
Qed.

(* under the legal discipline a first poll never meets a pending readiness check: the runs stay
   inside the modelled domain *)
Lemma step_in_domain s o e : InvA s -> op_allowed s o = true -> step s o <> Err e.
Proof.
  intros (A1 & A2 & A3 & A4) Hal. destruct o as [|k size|k|k size|j]; cbn [step]; try discriminate.
  - cbn [op_allowed rr_allowed] in Hal.
    assert (Hp : paused s = false).
    { destruct (paused s) eqn:Ep; [|reflexivity]. destruct (A1 eq_refl) as (_ & Hm & _). congruence. }
    unfold step_call, first_poll. rewrite Hp.
    match goal with |- context [inc ?x ?g] => destruct (inc x g) as [s2| |] eqn:Ei end; cbn [bind]; try discriminate.
    exfalso. unfold inc, add_chk in Ei.
    repeat match type of Ei with context [if ?c then _ else _] => destruct c; cbn [bind] in Ei; try discriminate end.
  - unfold step_complete. destruct (nth_error (running s) k); [|discriminate].
    unfold dec, sub_chk.
    repeat match goal with |- context [if ?c then _ else _] => destruct c; cbn [bind]; try discriminate end.
  - unfold step_start. destruct (nth_error (submitted s) j) as [[k size]|] eqn:En; [|discriminate].
    assert (Hp : paused s = false).
    { unfold sub_ok in A4. destruct (submitted s) as [|x [|y t]]; try contradiction.
      - destruct j; discriminate.
      - apply A4. }
    unfold first_poll. proj. rewrite Hp.
    match goal with |- context [inc ?x ?g] => destruct (inc x g) as [s2| |] eqn:Ei end; cbn [bind]; try discriminate.
    exfalso. unfold inc, add_chk in Ei.
    repeat match type of Ei with context [if ?c then _ else _] => destruct c; cbn [bind] in Ei; try discriminate end.
Qed.

Lemma legal_go_cons s o r :
  legal_go s (o :: r) = true ->
  op_allowed s o = true /\ (forall s', step s o = Ok s' -> legal_go s' r = true).
Proof.
  cbn [legal_go]. intros H. apply andb_true_iff in H as (H1 & H2). split; [assumption|].
  intros s' E. rewrite E in H2. assumption.
Qed.

Lemma invA_run mc ms ops : forall s s',
  Inv0 mc ms s -> InvA s -> legal_go s ops = true -> run_from s ops = Ok s' -> InvA s'.
Proof.
  induction ops as [|o r IH]; intros s s' I0 IA L H; cbn [run_from] in H.
  - injection H as <-. assumption.
  - destruct (step s o) as [s1| |] eqn:E; cbn [bind] in H; try discriminate.
    apply legal_go_cons in L as (L1 & L2).
    eapply IH; [| |apply L2; exact E|exact H].
    + eapply inv0_step; eassumption.
    + eapply invA_step; eassumption.
Qed.

Lemma in_domain_run ops : forall s e, InvA s -> legal_go s ops = true -> run_from s ops <> Err e.
Proof.
  induction ops as [|o r IH]; intros s e IA L; cbn [run_from]; [discriminate|].
  apply legal_go_cons in L as (L1 & L2).
  destruct (step s o) as [s1| |] eqn:E; cbn [bind]; try discriminate.
  - apply IH; [eapply invA_step; eassumption|apply L2; reflexivity].
  - exfalso. exact (step_in_domain s o _ IA L1 E).
Qed.

Lemma in_domain mc ms ops e : legal mc ms ops = true -> run mc ms ops <> Err e.
Proof. intros L. apply in_domain_run; [apply invA_init|exact L]. Qed.

Lemma legal_go_app a : forall s b s1,
  legal_go s (a ++ b) = true -> run_from s a = Ok s1 -> legal_go s a = true /\ legal_go s1 b = true.
Proof.
  induction a as [|o r IH]; intros s b s1 L H; cbn [app run_from] in *.
  - injection H as <-. auto.
  - destruct (step s o) as [s2| |] eqn:E; cbn [bind] in H; try discriminate.
    apply legal_go_cons in L as (L1 & L2). specialize (L2 _ E).
    destruct (IH _ _ _ L2 H) as (Q1 & Q2). split; [|assumption].
    cbn [legal_go]. rewrite L1, E. assumption.
Qed.

Lemma run_from_app a : forall s b s1, run_from s a = Ok s1 -> run_from s (a ++ b) = run_from s1 b.
Proof.
  induction a as [|o r IH]; intros s b s1 H; cbn [app run_from] in *.
  - injection H as <-. reflexivity.
  - destruct (step s o) as [s2| |] eqn:E; cbn [bind] in *; try discriminate. apply IH. assumption.
Qed.

(* legality is prefix closed: every reachable state is the state after a legal sequence *)
Lemma legal_prefix mc ms a b s1 :
  legal mc ms (a ++ b) = true -> run mc ms a = Ok s1 -> legal mc ms a = true.
Proof. unfold legal, run. intros L H. exact (proj1 (legal_go_app _ _ _ _ L H)). Qed.

(* the legal discipline implies the bare reading rule *)
Lemma legal_reading_rule ops : forall s, legal_go s ops = true -> reading_rule_go s ops = true.
Proof.
  induction ops as [|o r IH]; intros s L; [reflexivity|].
  cbn [legal_go reading_rule_go] in *. apply andb_true_iff in L as (L1 & L2).
  apply andb_true_iff. split.
  - destruct o; cbn [op_allowed] in L1; auto.
  - destruct (step s o); auto.
Qed.

(* ------------------------------------------------------------------ theorems about every legal run *)
Section Reach.
  Variables (mc ms : N) (ops : list op) (s : lim).
  Hypothesis L : legal mc ms ops = true.
  Hypothesis R : run mc ms ops = Ok s.

  Lemma reach_inv0 : Inv0 mc ms s.
  Proof. eapply inv0_run; [apply inv0_init|exact R]. Qed.

  Lemma reach_invA : InvA s.
  Proof. eapply invA_run; [apply inv0_init|apply invA_init|exact L|exact R]. Qed.

  Lemma no_lost_wake : paused s = true -> is_available s = true -> woken s = true.
  Proof.
    intros Hp Ha. destruct reach_invA as (_ & _ & A3 & _). destruct (A3 Hp) as [Hw|(_ & Hn)]; [assumption|].
    congruence.
  Qed.

  Lemma resume : is_available s = true -> may_call (step_ready s) = true.
  Proof. intros Ha. rewrite step_ready_answer, Ha. destruct (paused s); [reflexivity|apply orb_true_r]. Qed.

  Lemma chunks_bypass_ready : publish_flag s = true -> may_call (step_ready s) = true.
  Proof.
    intros Hf. rewrite step_ready_answer. destruct reach_invA as (A1 & _).
    destruct (paused s); [|rewrite Hf; reflexivity].
    destruct (A1 eq_refl) as (Hf' & _). congruence.
  Qed.

  Lemma progress : running s = [] -> may_call (step_ready s) = true.
  Proof.
    intros Hr. apply resume. destruct reach_inv0 as (_ & _ & I3 & I4). rewrite Hr in I3, I4.
    unfold is_available. rewrite I3, I4. cbn [lenN length sum_sizes fold_right N.of_nat].
    apply andb_true_iff. split; apply orb_true_iff; b2p; auto; try lia.
  Qed.
End Reach.

Lemma flag_after_call s k size s' :
  step s (Call k size) = Ok s' -> publish_flag s' = is_publish k || (publish_flag s && is_chunk k).
Proof.
  cbn [step]. unfold step_call. intros H.
  destruct (first_poll s k size) as [s1| |] eqn:E; cbn [bind] in H; try discriminate.
  injection H as <-. apply first_poll_ok in E. proj. apply E.
Qed.

Lemma chunks_bypass mc ms ops s :
  legal mc ms ops = true -> run mc ms ops = Ok s -> publish_flag s = true ->
  may_call (step_ready s) = true /\
  (forall size s', step s (Call KChunk size) = Ok s' -> publish_flag s' = true) /\
  (forall size s', step s (Call KChunkFinal size) = Ok s' -> publish_flag s' = false).
Proof.
  intros L R Hf. split; [eapply chunks_bypass_ready; eassumption|]. split; intros size s' H;
    apply flag_after_call in H; rewrite H, Hf; reflexivity.
Qed.

(* completions do not touch the readiness future *)
Lemma paused_completes cs : forall s s', run_from s (map Complete cs) = Ok s' -> paused s' = paused s.
Proof.
  induction cs as [|k r IH]; intros s s' H; cbn [map run_from step] in H.
  - injection H as <-. reflexivity.
  - destruct (step_complete s k) as [s1| |] eqn:E; cbn [bind] in H; try discriminate.
    rewrite (IH _ _ H). apply step_complete_ok in E. destruct E as [(_ & ->)|(c & _ & Hd)]; [reflexivity|].
    apply dec_ok in Hd. proj. apply Hd.
Qed.

Lemma no_lost_wake_seq mc ms pre cs s0 s :
  legal mc ms (pre ++ Ready :: map Complete cs) = true ->
  run mc ms pre = Ok s0 -> may_call (step_ready s0) = false ->
  run mc ms (pre ++ Ready :: map Complete cs) = Ok s ->
  is_available s = true -> woken s = true.
Proof.
  intros L R0 Hp R Ha. eapply no_lost_wake; try eassumption.
  unfold run in *. rewrite (run_from_app _ _ _ _ R0) in R. cbn [run_from step bind] in R.
  rewrite (paused_completes _ _ _ R), step_ready_paused, Hp. reflexivity.
Qed.

(* ------------------------------------------------------------------ InvB: the limits, for frames in codec order *)

(* [st] / [last]: stream state and last packet size after the frames handed over so far; a frame
   that is handed over and not started yet has been admitted but not counted *)
Definition InvB (s : lim) (st : bool) (last : N) : Prop :=
  match submitted s with
  | [] => publish_flag s = st
  | [(k, size)] =>
    (publish_flag s = true \/ is_available s = true) /\
    (if publish_flag s then chunk_kind k = true /\ size = 0 else chunk_kind k = false /\ last = size) /\
    st = (if publish_flag s then is_chunk k else is_publish k)
  | _ => False
  end /\
  (max_cap s <> 0 -> count_kind nonchunk (running s) <= max_cap s) /\
  (max_size s <> 0 -> cur_size s <= max_size s + last).

Definition stream_step (st : bool) (o : op) : bool :=
  match frame_of o with
  | Some (k, _) => if st then is_chunk k else is_publish k
  | None => st
  end.
Definition last_step (last : N) (o : op) : N :=
  match frame_of o with
  | Some (k, size) => if chunk_kind k then last else size
  | None => last
  end.
Definition wf_op (st : bool) (o : op) : bool :=
  match frame_of o with
  | Some (k, size) => if st then chunk_kind k && (size =? 0) else negb (chunk_kind k)
  | None => true
  end.
Definition stream_after (st : bool) (ops : list op) : bool := fold_left stream_step ops st.

Lemma wf_stream_go_cons st o r :
  wf_stream_go st (o :: r) = wf_op st o && wf_stream_go (stream_step st o) r.
Proof.
  cbn [wf_stream_go]. unfold wf_op, stream_step. destruct (frame_of o) as [[k size]|]; [|reflexivity].
  destruct st; [|reflexivity]. rewrite <- andb_assoc. reflexivity.
Qed.

Lemma last_size_go_cons last o r : last_size_go last (o :: r) = last_size_go (last_step last o) r.
Proof. cbn [last_size_go]. unfold last_step. destruct (frame_of o) as [[k size]|]; reflexivity. Qed.

Lemma wf_stream_go_app a : forall st b,
  wf_stream_go st (a ++ b) = wf_stream_go st a && wf_stream_go (stream_after st a) b.
Proof.
  induction a as [|o r IH]; intros st b; [reflexivity|].
  cbn [app]. rewrite !wf_stream_go_cons, IH. unfold stream_after. cbn [fold_left].
  rewrite andb_assoc. reflexivity.
Qed.

Lemma chunk_not_publish k : chunk_kind k = true -> is_publish k = false.
Proof. destruct k; try reflexivity; discriminate. Qed.

(* the first poll of a frame that was admitted in state (flag, counters) and is the next frame in
   codec order keeps the limits *)
Lemma invB_first_poll mc ms s k size last s' (st' : bool) (last' : N) :
  Inv0 mc ms s ->
  (publish_flag s = true \/ is_available s = true) ->
  (if publish_flag s then chunk_kind k = true /\ size = 0 else chunk_kind k = false /\ last' = size) ->
  (publish_flag s = true -> last' = last) ->
  st' = (if publish_flag s then is_chunk k else is_publish k) ->
  (max_cap s <> 0 -> count_kind nonchunk (running s) <= max_cap s) ->
  (max_size s <> 0 -> cur_size s <= max_size s + last) ->
  first_poll s k size = Ok s' ->
  publish_flag s' = st' /\
  (max_cap s' <> 0 -> count_kind nonchunk (running s') <= max_cap s') /\
  (max_size s' <> 0 -> cur_size s' <= max_size s' + last').
Proof.
  intros (I1 & I2 & I3 & I4) Hadm Hwf Hl Hst B2 B3 H.
  apply first_poll_ok in H. destruct H as (_ & F1 & F2 & F3 & F4 & F5 & _ & _ & F9 & _).
  rewrite F1, F2, F4, F5, F9, count_kind_app. cbn [c_kind]. unfold flag_after.
  pose proof (gsize_le s size) as Hg.
  destruct (publish_flag s) eqn:Ef.
  - destruct Hwf as (Hc & ->). rewrite (chunk_not_publish _ Hc). cbn [orb andb].
    assert (Hnc : nonchunk k = false) by (unfold nonchunk; rewrite Hc; reflexivity).
    rewrite Hnc. rewrite (Hl eq_refl).
    split; [auto|]. split; intros Hm; [specialize (B2 Hm)|specialize (B3 Hm)]; lia.
  - destruct Hwf as (Hc & ->). cbn [andb]. rewrite orb_false_r.
    assert (Hnc : nonchunk k = true) by (unfold nonchunk; rewrite Hc; reflexivity).
    rewrite Hnc.
    destruct Hadm as [Hf|Hav]; [discriminate|].
    unfold is_available in Hav. apply andb_true_iff in Hav as (Hcap & Hsz). apply orb_true_iff in Hcap, Hsz.
    pose proof (count_kind_le_len nonchunk (running s)) as Hle.
    split; [auto|]. split; intros Hm.
    + destruct Hcap as [Hcap|Hcap]; b2p; try discriminate; try lia.
    + destruct Hsz as [Hsz|Hsz]; b2p; try discriminate; try lia.
Qed.

Lemma invB_step mc ms s st last o s' :
  Inv0 mc ms s -> InvA s -> InvB s st last ->
  op_allowed s o = true -> wf_op st o = true -> step s o = Ok s' ->
  InvB s' (stream_step st o) (last_step last o).
Proof.
  intros I0 (A1 & A2 & A3 & A4) (B1 & B2 & B3) Hal Hwf H.
  destruct o as [|k size|k|k size|j]; cbn [step] in *.
  - (* Ready *)
    apply ready_allowed in Hal. injection H as <-.
    pose proof (step_ready_frame s) as (F1 & F2 & F3 & F4 & F5 & F6 & F7).
    unfold InvB, stream_step, last_step. cbn [frame_of]. rewrite F1, F2, F4, F5, F6, F7.
    rewrite Hal in *. auto.
  - (* Call: admitted and counted at once *)
    cbn [op_allowed rr_allowed] in Hal. pose proof (sub_ok_may _ A4 Hal) as Hs. rewrite Hs in B1.
    unfold step_call in H. destruct (first_poll s k size) as [s1| |] eqn:E; cbn [bind] in H; try discriminate.
    injection H as <-.
    unfold wf_op in Hwf. cbn [frame_of] in Hwf.
    assert (S1 : submitted s1 = []).
    { pose proof (first_poll_ok _ _ _ _ E) as F. rewrite <- Hs. apply F. }
    unfold InvB, stream_step, last_step. cbn [frame_of]. proj. rewrite S1.
    eapply (invB_first_poll mc ms s k size last s1); try eassumption.
    + apply A2. assumption.
    + rewrite B1. destruct st.
      * apply andb_true_iff in Hwf as (Hc & Hz). apply N.eqb_eq in Hz. auto.
      * apply negb_true_iff in Hwf. rewrite Hwf. auto.
    + rewrite B1. intros ->. apply andb_true_iff in Hwf as (Hc & _). rewrite Hc. reflexivity.
    + rewrite B1. reflexivity.
  - (* Complete *)
    apply step_complete_ok in H. destruct H as [(_ & ->)|(c & Hn & Hd)].
    + unfold InvB, stream_step, last_step. cbn [frame_of]. auto.
    + apply dec_ok in Hd. proj.
      destruct Hd as (D1 & D2 & D3 & D4 & D5 & D6 & D7 & _ & _ & _ & D11 & D12 & _).
      unfold InvB, stream_step, last_step. cbn [frame_of]. rewrite D3, D4, D6, D7, D11, D12.
      pose proof (count_kind_remove nonchunk (running s) k) as Hle.
      split; [|split].
      * destruct (submitted s) as [|[k0 size0] [|y t]]; auto.
        destruct B1 as (Q1 & Q2 & Q3). split; [|auto].
        destruct Q1 as [Q1|Q1]; [left; assumption|right].
        eapply avail_dec_mono; [exact D3|exact D4|exact D5|exact D6|exact Q1].
      * intros Hm. specialize (B2 Hm). lia.
      * intros Hm. specialize (B3 Hm). lia.
  - (* Submit: admitted now, counted at its first poll *)
    cbn [op_allowed rr_allowed] in Hal. pose proof (sub_ok_may _ A4 Hal) as Hs. rewrite Hs in B1.
    injection H as <-. unfold wf_op in Hwf. cbn [frame_of] in Hwf.
    unfold InvB, step_submit, stream_step, last_step. cbn [frame_of]. proj. rewrite Hs. cbn [app].
    rewrite B1. split; [|split].
    + split; [rewrite <- B1; apply A2; assumption|]. split; [|reflexivity].
      destruct st.
      * apply andb_true_iff in Hwf as (Hc & Hz). apply N.eqb_eq in Hz. auto.
      * apply negb_true_iff in Hwf. rewrite Hwf. auto.
    + assumption.
    + intros Hm. specialize (B3 Hm). destruct st.
      * apply andb_true_iff in Hwf as (Hc & _). rewrite Hc. assumption.
      * apply negb_true_iff in Hwf. rewrite Hwf.
        destruct (A2 Hal) as [Hf|Hav]; [congruence|].
        unfold is_available in Hav. apply andb_true_iff in Hav as (_ & Hsz). apply orb_true_iff in Hsz.
        destruct Hsz as [Hsz|Hsz]; b2p; try discriminate; try lia.
  - (* Start: the first poll of the admitted frame *)
    apply step_start_ok in H. destruct H as [(_ & ->)|(k & size & Hn & Hf)].
    + unfold InvB, stream_step, last_step. cbn [frame_of]. auto.
    + unfold sub_ok in A4. destruct (submitted s) as [|[k0 size0] [|y t]] eqn:Es; try contradiction.
      * destruct j; discriminate.
      * destruct j as [|[|j]]; cbn [nth_error remove_nth] in *; try discriminate.
        injection Hn as -> ->. destruct B1 as (Q1 & Q2 & Q3).
        assert (S1 : submitted s' = []).
        { pose proof (first_poll_ok _ _ _ _ Hf) as F. proj. apply F. }
        unfold InvB, stream_step, last_step. cbn [frame_of]. rewrite S1.
        eapply (invB_first_poll mc ms (set_submitted s []) k size last s'); proj; try eassumption.
        all: try (destruct I0 as (J1 & J2 & J3 & J4); unfold Inv0; proj; now auto).
        all: try reflexivity.
        all: try (destruct (publish_flag s); [now auto|]; destruct Q2 as (Hc & ->); now auto).
Qed.

Lemma invB_run mc ms ops : forall s st last s',
  Inv0 mc ms s -> InvA s -> InvB s st last ->
  legal_go s ops = true -> wf_stream_go st ops = true -> run_from s ops = Ok s' ->
  InvB s' (stream_after st ops) (last_size_go last ops).
Proof.
  induction ops as [|o r IH]; intros s st last s' I0 IA IB L Hwf H; cbn [run_from] in H.
  - injection H as <-. assumption.
  - destruct (step s o) as [s1| |] eqn:E; cbn [bind] in H; try discriminate.
    apply legal_go_cons in L as (L1 & L2).
    rewrite wf_stream_go_cons in Hwf. apply andb_true_iff in Hwf as (Hw1 & Hw2).
    rewrite last_size_go_cons. unfold stream_after. cbn [fold_left].
    eapply IH; [| | |apply L2; exact E|exact Hw2|exact H].
    + eapply inv0_step; eassumption.
    + eapply invA_step; eassumption.
    + eapply invB_step; eassumption.
Qed.

Lemma invB_init mc ms : InvB (lim_init mc ms) false 0.
Proof. unfold InvB, lim_init. proj. repeat split; intros; cbn; lia. Qed.

Lemma reach_invB mc ms ops s :
  legal mc ms ops = true -> wf_stream ops = true -> run mc ms ops = Ok s ->
  InvB s (stream_after false ops) (last_size ops).
Proof.
  intros L Hwf R. unfold last_size.
  eapply invB_run; try eassumption; [apply inv0_init|apply invA_init|apply invB_init].
Qed.

Lemma publish_nonchunk k : publish_kind k = true -> nonchunk k = true.
Proof. destruct k; cbn; auto. Qed.

Lemma overlap_bounded mc ms ops s :
  mc <> 0 -> legal mc ms ops = true -> wf_stream ops = true -> run mc ms ops = Ok s ->
  count_kind nonchunk (running s) <= mc /\ count_kind publish_kind (running s) <= mc /\
  cur_cap s = count_kind nonchunk (running s) + count_kind chunk_kind (running s).
Proof.
  intros Hm L Hwf R. destruct (reach_invB _ _ _ _ L Hwf R) as (_ & B2 & _).
  destruct (reach_inv0 _ _ _ _ R) as (I1 & _ & I3 & _). rewrite I1 in B2. specialize (B2 Hm).
  split; [assumption|]. split.
  - pose proof (count_kind_mono publish_kind nonchunk (running s) publish_nonchunk). lia.
  - rewrite I3. unfold count_kind, nonchunk, lenN. clear.
    induction (running s) as [|h t IH]; cbn [filter length]; [reflexivity|].
    destruct (chunk_kind (c_kind h)); cbn [negb length]; lia.
Qed.

Lemma bytes_bounded mc ms ops s :
  ms <> 0 -> legal mc ms ops = true -> wf_stream ops = true -> run mc ms ops = Ok s ->
  cur_size s <= ms + last_size ops.
Proof.
  intros Hm L Hwf R. destruct (reach_invB _ _ _ _ L Hwf R) as (_ & _ & B3).
  destruct (reach_inv0 _ _ _ _ R) as (_ & I2 & _). rewrite I2 in B3. auto.
Qed.

(* admission: a packet that is not a payload chunk is handed over (inline or spawned) only when
   the counter is available *)
Lemma admission mc ms pre o k size s0 :
  frame_of o = Some (k, size) ->
  legal mc ms (pre ++ [o]) = true -> wf_stream (pre ++ [o]) = true ->
  chunk_kind k = false -> run mc ms pre = Ok s0 ->
  (mc <> 0 -> cur_cap s0 < mc) /\ (ms <> 0 -> cur_size s0 <= ms).
Proof.
  intros Hfr L Hwf Hk R.
  unfold legal in L. destruct (legal_go_app _ _ _ _ L R) as (L1 & L2).
  unfold wf_stream in Hwf. rewrite wf_stream_go_app in Hwf. apply andb_true_iff in Hwf as (W1 & W2).
  destruct (reach_invB _ _ _ _ L1 W1 R) as (B1 & _ & _).
  destruct (reach_invA _ _ _ _ L1 R) as (_ & A2 & _ & A4).
  destruct (reach_inv0 _ _ _ _ R) as (I1 & I2 & _).
  apply legal_go_cons in L2 as (Hal & _).
  assert (Hm : may_call s0 = true) by (destruct o; cbn [frame_of] in Hfr; try discriminate; exact Hal).
  rewrite (sub_ok_may _ A4 Hm) in B1.
  rewrite wf_stream_go_cons in W2. apply andb_true_iff in W2 as (W2 & _).
  unfold wf_op in W2. rewrite Hfr in W2.
  destruct (stream_after false pre) eqn:Es.
  - rewrite Hk in W2. discriminate.
  - destruct (A2 Hm) as [Hf|Hav]; [congruence|].
    unfold is_available in Hav. rewrite I1, I2 in Hav.
    apply andb_true_iff in Hav as (Hc & Hz). apply orb_true_iff in Hc, Hz.
    split; intros Hm'; [destruct Hc as [Hc|Hc]|destruct Hz as [Hz|Hz]]; b2p; try discriminate; try lia.
Qed.

(* ------------------------------------------------------------------ what the bare reading rule allowed (before d435312) *)

Lemma overlap_refuted_deferred :
  reading_rule 2 0 (deferred_ops 5) = true /\ wf_stream (deferred_ops 5) = true /\
  legal 2 0 (deferred_ops 5) = false /\
  exists s, run 2 0 (deferred_ops 5) = Ok s /\ count_kind publish_kind (running s) = 3 /\ cur_cap s = 3.
Proof. repeat (split; [vm_compute; reflexivity|]). eexists. vm_compute. repeat split. Qed.

Lemma bytes_refuted_deferred :
  reading_rule 0 10 (deferred_ops 8) = true /\ wf_stream (deferred_ops 8) = true /\
  legal 0 10 (deferred_ops 8) = false /\
  exists s, run 0 10 (deferred_ops 8) = Ok s /\ cur_size s = 24 /\ last_size (deferred_ops 8) = 8.
Proof. repeat (split; [vm_compute; reflexivity|]). eexists. vm_compute. repeat split. Qed.
