(* Proofs/HandshakeProofs.v -- lemmas about Model/Handshake.v (limit plumbing, first-packet outcomes) and
   about the engine model Model/EnginesHs.v (gate and version routing under fragmentation): property C19. *)
From MV Require Import Base.Prelude Base.Res Base.VarInt Model.Sniff Model.Handshake Model.EnginesHs Proofs.SniffProofs.
From MV Require Model.CodecV3 Model.CodecV5.

(* ================================================================== first packet *)
Lemma gate : forall v it a,
  dispatcher_runs (first_packet v it a) = true <-> it = FConnect /\ a = AppAccept.
Proof.
  intros v it a; split.
  - destruct it; destruct a; cbn; intros H; try discriminate; auto.
  - intros [-> ->]. reflexivity.
Qed.

Lemma handler_needs_connack_accepted : forall v it a,
  dispatcher_runs (first_packet v it a) = true -> connack_written (first_packet v it a) = Some 0.
Proof. intros v it a H. apply gate in H as [-> ->]. reflexivity. Qed.

Lemma non_connect_first_ends : forall v it a,
  it <> FConnect ->
  app_called it = false /\
  dispatcher_runs (first_packet v it a) = false /\
  connack_written (first_packet v it a) = None /\
  exists t, first_packet v it a = OError RK_VIOLATION t /\
            end_result (first_packet v it a) = Some (RK_VIOLATION, t) /\
            t = match it with FPacket p => p | _ => PUBLISH_START end.
Proof.
  intros v it a H. destruct it as [|p|]; [contradiction| |]; cbn; repeat split; eexists; repeat split.
Qed.

Lemma refused_gets_connack_then_close : forall v code,
  let o := first_packet v FConnect (AppRefuse code) in
  o = ORefuse code /\ connack_written o = Some code /\ dispatcher_runs o = false /\
  end_result o = Some (RK_DISCONNECTED, 0).
Proof. intros v code. cbn. repeat split. Qed.

Lemma service_error_no_connack : forall v,
  let o := first_packet v FConnect AppError in
  connack_written o = None /\ dispatcher_runs o = false /\
  end_result o = Some (if v =? 3 then RK_SERVICE else RK_HS_SERVICE, 0).
Proof. intros v. cbn. repeat split. Qed.

(* ================================================================== keep-alive *)
Lemma half_plus ka : ka / 2 + ka = 3 * ka / 2.
Proof.
  pose proof (N.div_mod ka 2 ltac:(lia)) as H1.
  pose proof (N.mod_upper_bound ka 2 ltac:(lia)) as H2.
  apply N.div_unique with (r := ka mod 2); lia.
Qed.

(* "1.5 times" is computed in whole seconds: floor(3 * ka / 2), saturating at u16::MAX; a client
   value of 0 (keep-alive switched off) gets the 30 s default, not 0 *)
Lemma keepalive_factor : forall ka,
  keepalive_of ka = if ka =? 0 then 30 else N.min 65535 (3 * ka / 2).
Proof.
  intros ka. unfold keepalive_of, sat_add16, DEFAULT_KEEPALIVE, U16MAX. rewrite half_plus. reflexivity.
Qed.

Lemma keepalive_factor_exact : forall ka, 0 < ka -> ka <= 43690 -> keepalive_of ka = ka + ka / 2.
Proof.
  intros ka H0 H1. unfold keepalive_of, sat_add16, U16MAX.
  destruct (ka =? 0) eqn:E; [apply N.eqb_eq in E; lia|].
  assert (ka / 2 <= 21845) by (apply N.div_le_upper_bound; lia).
  rewrite N.min_r by lia. lia.
Qed.

Lemma keepalive_saturates : forall ka, 43691 <= ka -> keepalive_of ka = 65535.
Proof.
  intros ka H. unfold keepalive_of, sat_add16, U16MAX.
  destruct (ka =? 0) eqn:E; [apply N.eqb_eq in E; lia|].
  assert (21845 <= ka / 2) by (apply N.div_le_lower_bound; lia).
  rewrite N.min_l by lia. reflexivity.
Qed.

Lemma keepalive_ge : forall ka, ka <= 65535 -> ka <> 0 -> ka <= keepalive_of ka.
Proof.
  intros ka H H0. unfold keepalive_of, sat_add16, U16MAX.
  destruct (ka =? 0) eqn:E; [apply N.eqb_eq in E; contradiction|].
  apply N.min_glb; lia.
Qed.

Lemma keepalive_v3 : forall c sp, a3_keepalive (hs3_ack c sp) = keepalive_of (CodecV3.c_keep_alive c).
Proof. reflexivity. Qed.
Lemma keepalive_v5 : forall sh c, a5_keepalive (hs5_ack sh c) = keepalive_of (CodecV5.c_keep_alive c).
Proof. reflexivity. Qed.
Lemma keepalive_override_v3 : forall a t, a3_keepalive (ack3_idle_timeout a t) = t.
Proof. reflexivity. Qed.
Lemma keepalive_override_v5 : forall a t a', ack5_keep_alive a t = Ok a' -> a5_keepalive a' = t /\ t <> 0.
Proof.
  intros a t a'. unfold ack5_keep_alive. destruct (t =? 0) eqn:E; [discriminate|].
  intros H; injection H as <-. split; [reflexivity|]. now apply N.eqb_neq.
Qed.
Lemma keepalive_in_force_v3 : forall cfg c a, l_keepalive (negotiate_v3 cfg c a) = a3_keepalive a.
Proof. reflexivity. Qed.
Lemma keepalive_in_force_v5 : forall cfg c a, l_keepalive (fst (negotiate_v5 cfg c a)) = a5_keepalive a.
Proof. reflexivity. Qed.

(* ================================================================== send window *)
Lemma norm_max_send_spec : forall v,
  norm_max_send v = match v with Some 0 => None | _ => v end.
Proof.
  intros [v|]; [|reflexivity]. unfold norm_max_send.
  destruct (v =? 0) eqn:E; [apply N.eqb_eq in E; subst; reflexivity|].
  destruct v; [discriminate|reflexivity].
Qed.

Lemma cap_is_min_v5 : forall cfg c a,
  l_cap (fst (negotiate_v5 cfg c a)) =
    let configured := dflt (a5_max_send a) (cfg_max_send cfg) in
    match CodecV5.c_receive_max c with
    | Some peer => N.min configured peer
    | None => configured
    end.
Proof. reflexivity. Qed.

Lemma cap_v3 : forall cfg c a,
  l_cap (negotiate_v3 cfg c a) = dflt (a3_max_send a) (cfg_max_send cfg).
Proof. reflexivity. Qed.

Lemma cap_le_peer : forall cfg c a peer,
  CodecV5.c_receive_max c = Some peer -> l_cap (fst (negotiate_v5 cfg c a)) <= peer.
Proof. intros cfg c a peer H. rewrite cap_is_min_v5, H. cbn. apply N.le_min_r. Qed.

Lemma cap_le_configured : forall cfg c a,
  l_cap (fst (negotiate_v5 cfg c a)) <= dflt (a5_max_send a) (cfg_max_send cfg).
Proof.
  intros cfg c a. rewrite cap_is_min_v5. cbn. destruct (CodecV5.c_receive_max c); [apply N.le_min_l|lia].
Qed.

Lemma max_send_override_v5 : forall a v,
  a5_max_send (ack5_max_send a v) = match v with Some 0 => None | _ => v end.
Proof. intros a v. cbn. apply norm_max_send_spec. Qed.
Lemma max_send_override_v3 : forall a v,
  a3_max_send (ack3_max_send a v) = match v with Some 0 => None | _ => v end.
Proof. intros a v. cbn. apply norm_max_send_spec. Qed.

(* ================================================================== limits = negotiated values *)
(* v3: every limit as a function of configuration / CONNECT / ack *)
Lemma limits_v3 : forall cfg c a,
  negotiate_v3 cfg c a =
    mkLimits (a3_keepalive a) (dflt (a3_max_send a) (cfg_max_send cfg))
             (dflt (a3_max_packet_size a) (cfg_max_size cfg)) 0 0 (cfg_max_qos cfg) 0 (cfg_max_receive cfg).
Proof. reflexivity. Qed.

(* v3, the ack as Handshake::ack builds it: configuration only *)
Lemma limits_v3_default : forall cfg c sp,
  negotiate_v3 cfg c (hs3_ack c sp) =
    mkLimits (keepalive_of (CodecV3.c_keep_alive c)) (cfg_max_send cfg) (cfg_max_size cfg) 0 0
             (cfg_max_qos cfg) 0 (cfg_max_receive cfg).
Proof. reflexivity. Qed.

(* v5, any ack: what is enforced is what the CONNACK announces *)
Lemma limits_v5_announced : forall cfg c a,
  let '(lim, pkt) := negotiate_v5 cfg c a in
  l_max_qos lim = CodecV5.ca_max_qos pkt /\
  l_topic_alias_max lim = CodecV5.ca_topic_alias_max pkt /\
  l_receive_max lim = CodecV5.ca_receive_max pkt /\
  l_max_in lim = dflt (CodecV5.ca_max_packet_size pkt) 0 /\
  CodecV5.ca_reason_code pkt = CodecV5.ca_reason_code (a5_packet a).
Proof.
  intros cfg c a. unfold negotiate_v5, announce_keepalive. cbn [l_max_qos l_topic_alias_max l_receive_max l_max_in].
  destruct (CodecV5.ca_server_keepalive_sec (a5_packet a)); [repeat split|].
  destruct (a5_keepalive a <? CodecV5.c_keep_alive c); repeat split.
Qed.

(* v5, the ack as Handshake::ack builds it: configuration and CONNECT only *)
Lemma limits_v5_default : forall cfg c,
  fst (negotiate_v5 cfg c (hs5_ack (shared5_init cfg) c)) =
    mkLimits (keepalive_of (CodecV5.c_keep_alive c))
             (match CodecV5.c_receive_max c with
              | Some peer => N.min (cfg_max_send cfg) peer
              | None => cfg_max_send cfg
              end)
             (cfg_max_size cfg)
             (CodecV5.ec_max_out_size (outbound5 c)) (CodecV5.ec_max_out_frame (outbound5 c))
             (cfg_max_qos cfg) (cfg_max_topic_alias cfg)
             (if cfg_max_receive cfg =? 0 then 65535 else cfg_max_receive cfg).
Proof.
  intros cfg c. unfold negotiate_v5, hs5_ack, shared5_init. cbn.
  destruct (cfg_max_size cfg =? 0) eqn:E; cbn; [apply N.eqb_eq in E; rewrite E|]; reflexivity.
Qed.

(* the peer's Maximum Packet Size as set_max_outbound_size stores it *)
Lemma outbound_v5 : forall c,
  (CodecV5.ec_max_out_frame (outbound5 c), CodecV5.ec_max_out_size (outbound5 c)) =
    match CodecV5.c_max_packet_size c with
    | Some size => (size, if 5 <? size then size - 5 else size)
    | None => (0, 0)
    end.
Proof. intros c. unfold outbound5. destruct (CodecV5.c_max_packet_size c); reflexivity. Qed.

(* overrides through HandshakeAck::with reach both the CONNACK and the limits *)
Lemma with_overrides_v5 : forall cfg c a f,
  a5_packet (ack5_with a f) = f (a5_packet a) /\
  l_max_qos (fst (negotiate_v5 cfg c (ack5_with a f))) = CodecV5.ca_max_qos (f (a5_packet a)) /\
  l_topic_alias_max (fst (negotiate_v5 cfg c (ack5_with a f))) = CodecV5.ca_topic_alias_max (f (a5_packet a)) /\
  l_receive_max (fst (negotiate_v5 cfg c (ack5_with a f))) = CodecV5.ca_receive_max (f (a5_packet a)) /\
  l_max_in (fst (negotiate_v5 cfg c (ack5_with a f))) = dflt (CodecV5.ca_max_packet_size (f (a5_packet a))) 0.
Proof. intros. repeat split. Qed.

(* ================================================================== announced keep-alive (v5) *)
Lemma imposed_keepalive_announced : forall cfg c a,
  CodecV5.ca_server_keepalive_sec (a5_packet a) = None ->
  CodecV5.ca_server_keepalive_sec (snd (negotiate_v5 cfg c a)) =
    if a5_keepalive a <? CodecV5.c_keep_alive c then Some (a5_keepalive a) else None.
Proof.
  intros cfg c a H. unfold negotiate_v5, announce_keepalive. cbn [snd]. rewrite H.
  destruct (a5_keepalive a <? CodecV5.c_keep_alive c); [reflexivity|exact H].
Qed.

Lemma app_keepalive_kept : forall cfg c a v,
  CodecV5.ca_server_keepalive_sec (a5_packet a) = Some v ->
  CodecV5.ca_server_keepalive_sec (snd (negotiate_v5 cfg c a)) = Some v.
Proof. intros cfg c a v H. unfold negotiate_v5, announce_keepalive. cbn [snd]. rewrite H. exact H. Qed.

(* with the default ack the server's 1.5x timeout is never below the client's interval: nothing announced *)
Lemma default_keepalive_not_announced : forall cfg c,
  CodecV5.c_keep_alive c <= 65535 -> CodecV5.c_keep_alive c <> 0 ->
  CodecV5.ca_server_keepalive_sec (snd (negotiate_v5 cfg c (hs5_ack (shared5_init cfg) c))) = None.
Proof.
  intros cfg c H H0. rewrite imposed_keepalive_announced by reflexivity.
  rewrite keepalive_v5. pose proof (keepalive_ge _ H H0).
  destruct (keepalive_of (CodecV5.c_keep_alive c) <? CodecV5.c_keep_alive c) eqn:E; [|reflexivity].
  apply N.ltb_lt in E. lia.
Qed.

Definition connect5_ka (ka : N) : CodecV5.connect :=
  CodecV5.mkConnect true ka 0 None None true false None 0 [] None None [99] None None.

(* an override equal to (or above) the client's value is in force but is not announced, and it is not
   1.5 times the client's value; a client that switched keep-alive off (0) gets 30 s unannounced *)
Lemma imposed_keepalive_announced_refuted :
  (exists a', ack5_keep_alive (hs5_ack (shared5_init cfg_default) (connect5_ka 4)) 4 = Ok a' /\
     let '(lim, pkt) := negotiate_v5 cfg_default (connect5_ka 4) a' in
     l_keepalive lim = 4 /\ keepalive_of 4 = 6 /\ CodecV5.ca_server_keepalive_sec pkt = None) /\
  (let '(lim, pkt) := negotiate_v5 cfg_default (connect5_ka 0) (hs5_ack (shared5_init cfg_default) (connect5_ka 0)) in
   l_keepalive lim = 30 /\ CodecV5.ca_server_keepalive_sec pkt = None).
Proof. split; [eexists; split; [reflexivity|]|]; vm_compute; repeat split. Qed.

(* ================================================================== client side *)
Lemma client_apply_v5_spec : forall cfg c a lim,
  client_apply_v5 cfg c a = Some lim ->
  CodecV5.ca_reason_code a = 0 /\
  l_cap lim = CodecV5.ca_receive_max a /\
  l_keepalive lim = dflt (CodecV5.ca_server_keepalive_sec a) (CodecV5.c_keep_alive c) /\
  l_max_in lim = dflt (CodecV5.c_max_packet_size c) 0 /\
  l_max_out_frame lim = dflt (CodecV5.ca_max_packet_size a) 0 /\
  l_receive_max lim = dflt (CodecV5.c_receive_max c) 65535 /\
  l_topic_alias_max lim = 16.
Proof.
  intros cfg c a lim. unfold client_apply_v5.
  destruct (CodecV5.ca_reason_code a =? 0) eqn:E; [|discriminate].
  intros H; injection H as <-. apply N.eqb_eq in E. cbn.
  repeat split; try assumption. destruct (CodecV5.ca_max_packet_size a); reflexivity.
Qed.

Lemma client_refused_v5 : forall cfg c a, CodecV5.ca_reason_code a <> 0 -> client_apply_v5 cfg c a = None.
Proof.
  intros cfg c a H. unfold client_apply_v5. destruct (CodecV5.ca_reason_code a =? 0) eqn:E; [|reflexivity].
  apply N.eqb_eq in E. contradiction.
Qed.

(* the v5 client's send window ignores its configured max_send, and the topic-alias maximum it
   enforces on inbound publishes is the constant 16, not the value it sent in CONNECT *)
Lemma client_limits_refuted :
  let c := CodecV5.mkConnect true 60 0 None None true false None 0 [] None None [99] None None in
  let a := set_limits5 connack_default 2 0 100 None in
  exists lim, client_apply_v5 cfg_default c a = Some lim /\
    l_cap lim = 100 /\ cfg_max_send cfg_default = 16 /\
    l_topic_alias_max lim = 16 /\ CodecV5.c_topic_alias_max c = 0.
Proof. eexists; split; [reflexivity|]. vm_compute. repeat split. Qed.

(* ================================================================== engine model: the gate *)
Definition not_run (p : phase) : bool := match p with PRun _ _ _ _ _ => false | _ => true end.

(* nothing has happened on the application side and nothing has been written *)
Definition quiet (s : hst) : Prop :=
  h_handlers s = 0 /\ h_protos s = 0 /\ h_out s = [] /\ not_run (h_phase s) = true.

Definition quiet_closed (s : hst) : Prop := h_gate s = false /\ quiet s.

Ltac qsolve := unfold quiet_closed, quiet in *; cbn in *; intuition.

Lemma after_held_closed f cfg s : h_gate s = false -> after_held f cfg s = s.
Proof. intros H. unfold after_held. rewrite H. reflexivity. Qed.

Lemma quiet_after_wait f cfg s : quiet_closed s -> quiet_closed (after_wait f cfg s).
Proof.
  intros Q. unfold after_wait. destruct (h_phase s) eqn:P; try exact Q.
  destruct (v =? 3).
  - destruct (CodecV3.decode_step _ _ _ _) as [[r st'] buf']. destruct r as [[it|]|e|p].
    + destruct it as [pk size|pb pl size|ch eof].
      * destruct pk; try (destruct (first_packet _ _ _); qsolve).
        rewrite after_held_closed; qsolve.
      * destruct (first_packet _ _ _); qsolve.
      * qsolve.
    + qsolve.
    + qsolve.
    + qsolve.
  - destruct (CodecV5.decode_step _ _ _ _ _) as [[[r st'] npi'] buf']. destruct r as [[it|]|e|p].
    + destruct it as [pk size|pb pl size|ch eof].
      * destruct pk; try (destruct (first_packet _ _ _); qsolve).
        rewrite after_held_closed; qsolve.
      * destruct (first_packet _ _ _); qsolve.
      * qsolve.
    + qsolve.
    + qsolve.
    + qsolve.
Qed.

Lemma quiet_after_sniff f cfg s : quiet_closed s -> quiet_closed (after_sniff f cfg s).
Proof.
  intros Q. unfold after_sniff. destruct (h_phase s) eqn:P; try exact Q.
  destruct (sniff (h_buf s)) as [[ver|]|e|p]; try (qsolve; fail).
  apply quiet_after_wait. qsolve.
Qed.

Lemma quiet_feed f cfg s b : quiet_closed s -> quiet_closed (feed f cfg s b).
Proof.
  intros Q. unfold feed. destruct b as [|x b]; [exact Q|].
  destruct (h_closed s || negb (h_bad s =? 0)); [exact Q|].
  assert (Q1 : quiet_closed (set_buf s (h_buf s ++ x :: b))) by qsolve.
  remember (set_buf s (h_buf s ++ x :: b)) as s1.
  destruct (h_phase s1) eqn:P; try exact Q1.
  - now apply quiet_after_sniff.
  - now apply quiet_after_wait.
  - exfalso. unfold quiet_closed, quiet in Q1. rewrite P in Q1. cbn in Q1. intuition discriminate.
Qed.

Lemma quiet_feed_cuts f cfg : forall cuts s pos rest,
  quiet_closed s -> quiet_closed (feed_cuts f cfg s pos cuts rest).
Proof.
  induction cuts as [|c cs IH]; intros s pos rest Q; cbn [feed_cuts].
  - now apply quiet_feed.
  - destruct (pos <? N.min c (pos + len rest)); apply IH; [now apply quiet_feed|exact Q].
Qed.

Lemma quiet_init k : quiet_closed (init k).
Proof. unfold init. destruct (k =? 3); [|destruct (k =? 5)]; qsolve. Qed.

(* before the application's handshake service has answered: no handler ran, nothing was written *)
Lemma gate_before_answer : forall f cuts first,
  let s := feed_cuts f (cfg_of f) (init (nthN f 0)) 0 cuts first in
  h_handlers s = 0 /\ h_protos s = 0 /\ h_out s = [].
Proof.
  intros f cuts first. pose proof (quiet_feed_cuts f (cfg_of f) cuts _ 0 first (quiet_init (nthN f 0))) as Q.
  unfold quiet_closed, quiet in Q. intuition.
Qed.

(* when the application does not accept (answer <> 0): never a handler, whatever arrives later *)
Definition no_handler (s : hst) : Prop :=
  h_handlers s = 0 /\ h_protos s = 0 /\ not_run (h_phase s) = true.

Ltac nsolve := unfold no_handler in *; cbn in *; intuition.

Lemma no_handler_finish s rk t : no_handler s -> no_handler (finish s rk t).
Proof. nsolve. Qed.
Lemma no_handler_emit s w : no_handler s -> no_handler (emit s w).
Proof. nsolve. Qed.
Lemma no_handler_bad s b : no_handler s -> no_handler (set_bad s b).
Proof. nsolve. Qed.

Lemma answer3_refusing f cfg s c st3 : nthN f 1 <> 0 -> no_handler s -> no_handler (answer3 f cfg s c st3).
Proof.
  intros A Q. unfold answer3, app3.
  destruct (nthN f 1) as [|[p|p|]]; [contradiction| | |].
  - cbn. now apply no_handler_finish.
  - cbn. now apply no_handler_finish.
  - cbn -[CodecV3.encodev_appended].
    destruct (CodecV3.encodev_appended _ _ _) as [[w ep] r]. destruct r.
    + apply no_handler_finish. now apply no_handler_emit.
    + now apply no_handler_finish.
    + now apply no_handler_bad.
Qed.

Lemma answer5_refusing f cfg s c st5 npi : nthN f 1 <> 0 -> no_handler s -> no_handler (answer5 f cfg s c st5 npi).
Proof.
  intros A Q. unfold answer5, app5.
  destruct (nthN f 1) as [|[p|p|]]; [contradiction| | |].
  - cbn. now apply no_handler_finish.
  - cbn. now apply no_handler_finish.
  - cbn -[CodecV5.encodev].
    destruct (CodecV5.encodev _ _) as [[w r] ec']. destruct r.
    + apply no_handler_finish. now apply no_handler_emit.
    + now apply no_handler_finish.
    + now apply no_handler_bad.
Qed.

Lemma after_held_refusing f cfg s : nthN f 1 <> 0 -> no_handler s -> no_handler (after_held f cfg s).
Proof.
  intros A Q. unfold after_held. destruct (h_gate s); [|exact Q].
  destruct (h_phase s); try exact Q; [now apply answer3_refusing|now apply answer5_refusing].
Qed.

Lemma after_wait_refusing f cfg s : nthN f 1 <> 0 -> no_handler s -> no_handler (after_wait f cfg s).
Proof.
  intros A Q. unfold after_wait. destruct (h_phase s) eqn:P; try exact Q.
  destruct (v =? 3).
  - destruct (CodecV3.decode_step _ _ _ _) as [[r st'] buf']. destruct r as [[it|]|e|p].
    + destruct it as [pk size|pb pl size|ch eof].
      * destruct pk; try (destruct (first_packet _ _ _); nsolve).
        apply after_held_refusing; [exact A|nsolve].
      * destruct (first_packet _ _ _); nsolve.
      * nsolve.
    + nsolve.
    + nsolve.
    + nsolve.
  - destruct (CodecV5.decode_step _ _ _ _ _) as [[[r st'] npi'] buf']. destruct r as [[it|]|e|p].
    + destruct it as [pk size|pb pl size|ch eof].
      * destruct pk; try (destruct (first_packet _ _ _); nsolve).
        apply after_held_refusing; [exact A|nsolve].
      * destruct (first_packet _ _ _); nsolve.
      * nsolve.
    + nsolve.
    + nsolve.
    + nsolve.
Qed.

Lemma feed_refusing f cfg s b : nthN f 1 <> 0 -> no_handler s -> no_handler (feed f cfg s b).
Proof.
  intros A Q. unfold feed. destruct b as [|x b]; [exact Q|].
  destruct (h_closed s || negb (h_bad s =? 0)); [exact Q|].
  assert (Q1 : no_handler (set_buf s (h_buf s ++ x :: b))) by nsolve.
  remember (set_buf s (h_buf s ++ x :: b)) as s1.
  destruct (h_phase s1) eqn:P; try exact Q1.
  - unfold after_sniff. rewrite P. destruct (sniff (h_buf s1)) as [[ver|]|e|p]; try (nsolve; fail).
    apply after_wait_refusing; [exact A|nsolve].
  - now apply after_wait_refusing.
  - exfalso. unfold no_handler in Q1. rewrite P in Q1. cbn in Q1. intuition discriminate.
Qed.

Lemma sleep_refusing s ms : no_handler s -> no_handler (sleep_op s ms).
Proof.
  intros Q. unfold sleep_op. destruct (h_phase s) eqn:P; try exact Q; try (now apply no_handler_bad).
  exfalso. unfold no_handler in Q. rewrite P in Q. cbn in Q. intuition discriminate.
Qed.

Lemma do_op_refusing f cfg s op : nthN f 1 <> 0 -> no_handler s -> no_handler (fst (do_op f cfg s op)).
Proof.
  intros A Q. unfold do_op. destruct op as [|k b]; [exact Q|].
  destruct (k =? 1); [exact Q|]. destruct (k =? 2).
  - cbn [fst]. apply feed_refusing; [exact A|nsolve].
  - destruct (k =? 6); [|exact Q]. destruct b as [|ms b']; [exact Q|].
    cbn [fst]. apply sleep_refusing. nsolve.
Qed.

Lemma run_ops_refusing f cfg : nthN f 1 <> 0 -> forall ops s, no_handler s -> no_handler (fst (run_ops f cfg s ops)).
Proof.
  intros A. induction ops as [|op rest IH]; intros s Q; [exact Q|].
  cbn [run_ops]. pose proof (do_op_refusing f cfg s op A Q) as Q1.
  destruct (do_op f cfg s op) as [s1 o]. cbn [fst] in Q1.
  specialize (IH s1 Q1). destruct (run_ops f cfg s1 rest) as [s2 os]. exact IH.
Qed.

Lemma gate_never_when_not_accepting : forall f cuts first ops,
  nthN f 1 <> 0 ->
  let cfg := cfg_of f in
  let s1 := feed_cuts f cfg (init (nthN f 0)) 0 cuts first in
  let s3 := fst (run_ops f cfg (open_gate f cfg (set_out s1 [])) ops) in
  h_handlers s3 = 0 /\ h_protos s3 = 0.
Proof.
  intros f cuts first ops A cfg s1 s3.
  assert (Q : no_handler s1).
  { pose proof (quiet_feed_cuts f cfg cuts _ 0 first (quiet_init (nthN f 0))) as Q.
    unfold quiet_closed, quiet in Q. unfold no_handler. fold s1 in Q. intuition. }
  assert (Q2 : no_handler (open_gate f cfg (set_out s1 []))).
  { unfold open_gate. apply after_held_refusing; [exact A|]. nsolve. }
  pose proof (run_ops_refusing f cfg A ops _ Q2) as Q3. fold s3 in Q3. unfold no_handler in Q3. intuition.
Qed.

(* ================================================================== engine model: version routing *)
Lemma feed_cuts_as_list f cfg : forall cuts s pos rest,
  feed_cuts f cfg s pos cuts rest = feed_list f cfg s (cut_pieces pos cuts rest).
Proof.
  induction cuts as [|c cs IH]; intros s pos rest; cbn [feed_cuts cut_pieces]; [reflexivity|].
  destruct (pos <? N.min c (pos + len rest)); [cbn [feed_list fold_left]|]; apply IH.
Qed.

Lemma cut_pieces_concat : forall cuts pos rest, concat (cut_pieces pos cuts rest) = rest.
Proof.
  induction cuts as [|c cs IH]; intros pos rest; cbn [cut_pieces]; [cbn; apply app_nil_r|].
  destruct (pos <? N.min c (pos + len rest)); [|apply IH].
  cbn [concat]. rewrite IH. apply firstn_skipn.
Qed.

Lemma init_combined : init 0 = sniffing [].
Proof. reflexivity. Qed.
Lemma init_plain ver : init (kind_of ver) = plain (kind_of ver) [].
Proof. unfold kind_of. destruct (ver =? 4); reflexivity. Qed.

Lemma feed_closed f cfg s b : h_closed s = true -> feed f cfg s b = s.
Proof. intros H. unfold feed. destruct b; [reflexivity|]. rewrite H. reflexivity. Qed.

Lemma feed_list_closed f cfg : forall pieces s, h_closed s = true -> feed_list f cfg s pieces = s.
Proof.
  induction pieces as [|p ps IH]; intros s H; [reflexivity|].
  cbn [feed_list fold_left]. rewrite feed_closed by exact H. apply IH, H.
Qed.

Lemma feed_sniffing f cfg buf p : p <> [] ->
  feed f cfg (sniffing buf) p =
    match sniff (buf ++ p) with
    | Ok None => sniffing (buf ++ p)
    | Ok (Some ver) => after_wait f cfg (plain (kind_of ver) (buf ++ p))
    | Err e => finish (sniffing (buf ++ p)) (100 + e) 0
    | Panic _ => set_bad (sniffing (buf ++ p)) 1
    end.
Proof.
  intros H. destruct p as [|x p']; [contradiction|].
  unfold feed, sniffing. cbn [h_closed h_bad h_buf h_phase set_buf orb]. rewrite N.eqb_refl. cbn [negb].
  unfold after_sniff, set_buf, set_phase.
  cbn [h_phase h_buf h_gate h_hs h_connect h_out h_handlers h_protos h_closed h_rk h_ptype h_cap h_bad].
  destruct (sniff (buf ++ x :: p')) as [[ver|]|e|pn]; try reflexivity.
Qed.

Lemma feed_plain f cfg k b : b <> [] -> feed f cfg (plain k []) b = after_wait f cfg (plain k b).
Proof.
  intros H. destruct b as [|x b]; [contradiction|].
  unfold feed, plain. cbn [h_closed h_bad h_buf h_phase set_buf orb app]. rewrite N.eqb_refl. reflexivity.
Qed.

Lemma routing_gen f cfg : forall pieces buf,
  sniff buf = Ok None ->
  match sniff (buf ++ concat pieces) with
  | Ok None => feed_list f cfg (sniffing buf) pieces = sniffing (buf ++ concat pieces)
  | Ok (Some ver) =>
    exists k, let pre := buf ++ concat (firstn k pieces) in
      pre <> [] /\ sniff pre = Ok (Some ver) /\
      feed_list f cfg (sniffing buf) pieces =
        feed_list f cfg (after_wait f cfg (plain (kind_of ver) pre)) (skipn k pieces)
  | Err e =>
    exists k, let pre := buf ++ concat (firstn k pieces) in
      sniff pre = Err e /\
      feed_list f cfg (sniffing buf) pieces = finish (sniffing pre) (100 + e) 0
  | Panic _ => False
  end.
Proof.
  induction pieces as [|p ps IH]; intros buf Hb.
  - cbn [concat]. rewrite app_nil_r, Hb. reflexivity.
  - cbn [concat feed_list fold_left]. rewrite app_assoc.
    destruct p as [|x p'].
    + (* an empty piece: no event *)
      cbn [feed]. rewrite app_nil_r. specialize (IH buf Hb).
      destruct (sniff (buf ++ concat ps)) as [[ver|]|e|pn]; try exact IH.
      * destruct IH as [k [H0 [H1 H2]]]. exists (S k). cbn [firstn skipn concat]. cbn [app]. repeat split; assumption.
      * destruct IH as [k [H1 H2]]. exists (S k). cbn [firstn concat]. cbn [app]. split; assumption.
    + set (p := x :: p') in *.
      rewrite feed_sniffing by (unfold p; discriminate).
      destruct (sniff (buf ++ p)) as [[ver|]|e|pn] eqn:Hs.
      * (* decided here: stays decided *)
        rewrite (sniff_prefix_stable_some _ (concat ps) _ Hs).
        exists 1%nat. cbn [firstn concat skipn]. rewrite app_nil_r. repeat split; [|exact Hs].
        unfold p. destruct buf; discriminate.
      * (* still unknown *)
        specialize (IH (buf ++ p) Hs).
        destruct (sniff ((buf ++ p) ++ concat ps)) as [[ver|]|e|pn]; try exact IH.
        -- destruct IH as [k [H0 [H1 H2]]]. exists (S k). cbn [firstn skipn concat]. rewrite app_assoc.
           repeat split; assumption.
        -- destruct IH as [k [H1 H2]]. exists (S k). cbn [firstn concat]. rewrite app_assoc. split; assumption.
      * rewrite (sniff_prefix_stable_err _ (concat ps) _ Hs).
        exists 1%nat. cbn [firstn concat]. rewrite app_nil_r. split; [exact Hs|].
        apply feed_list_closed. reflexivity.
      * pose proof (sniff_total (buf ++ p)) as T. rewrite Hs in T. contradiction.
Qed.

Lemma sniff_nil : sniff [] = Ok None.
Proof. reflexivity. Qed.

(* however the bytes are cut into pieces, the combined server either keeps every byte and waits
   (version unknown), or ends the connection (sniffer error), or behaves exactly like the plain
   server of the sniffed level whose first read returned the first k pieces at once *)
Lemma routing : forall f cfg pieces,
  match sniff (concat pieces) with
  | Ok None => feed_list f cfg (init 0) pieces = sniffing (concat pieces)
  | Ok (Some ver) =>
    (ver = 4 \/ ver = 5) /\
    exists k, feed_list f cfg (init 0) pieces =
              feed_list f cfg (init (kind_of ver)) (concat (firstn k pieces) :: skipn k pieces)
  | Err e =>
    let s := feed_list f cfg (init 0) pieces in
    h_closed s = true /\ h_rk s = 100 + e /\ h_hs s = 0 /\ h_handlers s = 0 /\ h_protos s = 0 /\ h_out s = []
  | Panic _ => False
  end.
Proof.
  intros f cfg pieces. pose proof (routing_gen f cfg pieces [] sniff_nil) as H. cbn [app] in H.
  rewrite init_combined.
  destruct (sniff (concat pieces)) as [[ver|]|e|pn] eqn:Hs; try exact H.
  - split.
    + unfold sniff in Hs.
      destruct (len (concat pieces) <? 2); [discriminate|].
      destruct (idx 0 (concat pieces)) as [fb| |]; cbn in Hs; try discriminate.
      destruct (sl 1 _ _) as [tl_| |]; cbn in Hs; try discriminate.
      destruct (dec_vi_opt tl_) as [[[rl k]|]| |]; cbn in Hs; try discriminate.
      destruct (fb =? S_CONNECT); [|discriminate].
      destruct (len (concat pieces) <=? k + 1 + 6); [discriminate|].
      destruct (sl _ _ _) as [lb| |]; cbn in Hs; try discriminate.
      destruct lb as [|a [|b [|? ?]]]; cbn in Hs; try discriminate.
      destruct (a * 256 + b =? 4); cbn in Hs.
      * destruct (sl _ _ _) as [nm| |]; cbn in Hs; try discriminate.
        destruct (bytes_eqb nm S_MQTT); cbn in Hs; try discriminate.
        destruct (idx _ _) as [lv| |]; cbn in Hs; try discriminate.
        destruct (lv =? 4); [injection Hs as <-; now left|].
        destruct (lv =? 5); [injection Hs as <-; now right|discriminate].
      * discriminate.
    + destruct H as [k [H0 [_ H2]]]. exists k. rewrite H2. cbn [feed_list fold_left].
      rewrite init_plain, feed_plain by exact H0. reflexivity.
  - destruct H as [k [_ H2]]. rewrite H2. cbn. repeat split.
Qed.

(* ================================================================== engine model: the refusing CONNACK (v3) *)
Lemma connack3_bytes ms code sp :
  CodecV3.encodev_appended ms None (CodecV3.EPacket (CodecV3.PConnectAck (CodecV3.mkConnectAck code sp))) =
  ([32; 2; b2n sp; CodecV3.reason_to_n code], None, Ok tt).
Proof. destruct code; destruct sp; reflexivity. Qed.

Lemma refused_v3_engine : forall f cfg s c st3,
  nthN f 1 = 1 ->
  let s' := answer3 f cfg s c st3 in
  h_out s' = h_out s ++ [32; 2; 0; CodecV3.reason_to_n (code3 (nthN f 2))] /\
  h_closed s' = true /\ h_rk s' = RK_DISCONNECTED /\ h_handlers s' = h_handlers s /\ h_protos s' = h_protos s.
Proof.
  intros f cfg s c st3 A. unfold answer3, app3. rewrite A.
  cbn -[CodecV3.encodev_appended]. unfold connack_v3. cbn -[CodecV3.encodev_appended].
  rewrite connack3_bytes. cbn. repeat split.
Qed.

Lemma accepted_v3_engine : forall f cfg s c st3 a,
  app3 f c = Some a -> a3_session a = true ->
  exists s1, answer3 f cfg s c st3 = pump_all cfg s1 /\
    h_out s1 = h_out s ++ [32; 2; b2n (a3_session_present a); 0] /\
    h_cap s1 = Some (l_cap (negotiate_v3 cfg c a)) /\
    exists r, h_phase s1 = PRun 3 st3 CodecV5.FrameHeader false r /\ r_lim r = negotiate_v3 cfg c a.
Proof.
  intros f cfg s c st3 a A S. unfold answer3. rewrite A. cbn -[CodecV3.encodev_appended pump_all negotiate_v3].
  rewrite S. cbn -[CodecV3.encodev_appended pump_all negotiate_v3].
  unfold connack_v3. rewrite S. rewrite connack3_bytes.
  eexists. split; [reflexivity|]. cbn -[negotiate_v3]. repeat split. eexists; split; reflexivity.
Qed.

(* ================================================================== statements of Props/C19.v that combine the lemmas above *)
Lemma cuts_are_pieces_stmt : forall (f : list N) (cfg : svc_cfg) (cuts : list N) (s : hst) (pos : N)
                                     (rest : bytes),
  feed_cuts f cfg s pos cuts rest = feed_list f cfg s (cut_pieces pos cuts rest) /\
  concat (cut_pieces pos cuts rest) = rest.
Proof. intros. split; [apply feed_cuts_as_list|apply cut_pieces_concat]. Qed.

Lemma keepalive_factor_stmt : forall ka : N,
  keepalive_of ka = (if ka =? 0 then 30 else N.min 65535 (3 * ka / 2)) /\
  (0 < ka -> ka <= 43690 -> keepalive_of ka = ka + ka / 2) /\
  (43691 <= ka -> keepalive_of ka = 65535).
Proof.
  intros ka. split; [apply keepalive_factor|]. split; [apply keepalive_factor_exact|apply keepalive_saturates].
Qed.

Lemma keepalive_in_force_stmt :
  (forall c sp, a3_keepalive (hs3_ack c sp) = keepalive_of (CodecV3.c_keep_alive c)) /\
  (forall sh c, a5_keepalive (hs5_ack sh c) = keepalive_of (CodecV5.c_keep_alive c)) /\
  (forall a t, a3_keepalive (ack3_idle_timeout a t) = t) /\
  (forall a t a', ack5_keep_alive a t = Ok a' -> a5_keepalive a' = t /\ t <> 0) /\
  (forall cfg c a, l_keepalive (negotiate_v3 cfg c a) = a3_keepalive a) /\
  (forall cfg c a, l_keepalive (fst (negotiate_v5 cfg c a)) = a5_keepalive a).
Proof.
  repeat split; try reflexivity.
  - eapply keepalive_override_v5; eassumption.
  - eapply keepalive_override_v5; eassumption.
Qed.

Lemma cap_is_min_stmt : forall (cfg : svc_cfg),
  (forall (c : CodecV5.connect) (a : ack5),
     l_cap (fst (negotiate_v5 cfg c a)) =
       let configured := dflt (a5_max_send a) (cfg_max_send cfg) in
       match CodecV5.c_receive_max c with
       | Some peer => N.min configured peer
       | None => configured
       end) /\
  (forall (c : CodecV3.connect) (a : ack3),
     l_cap (negotiate_v3 cfg c a) = dflt (a3_max_send a) (cfg_max_send cfg)) /\
  (* HandshakeAck::max_send: None and Some(0) both mean "the configured value" *)
  (forall (a : ack5) v, a5_max_send (ack5_max_send a v) = match v with Some 0 => None | _ => v end) /\
  (forall (a : ack3) v, a3_max_send (ack3_max_send a v) = match v with Some 0 => None | _ => v end).
Proof.
  intros cfg. split; [intros; apply cap_is_min_v5|]. split; [intros; apply cap_v3|].
  split; [apply max_send_override_v5|apply max_send_override_v3].
Qed.

Lemma limits_are_negotiated_v3_stmt : forall (cfg : svc_cfg) (c : CodecV3.connect),
  (forall a, negotiate_v3 cfg c a =
     mkLimits (a3_keepalive a) (dflt (a3_max_send a) (cfg_max_send cfg))
              (dflt (a3_max_packet_size a) (cfg_max_size cfg)) 0 0 (cfg_max_qos cfg) 0 (cfg_max_receive cfg)) /\
  (forall sp, negotiate_v3 cfg c (hs3_ack c sp) =
     mkLimits (keepalive_of (CodecV3.c_keep_alive c)) (cfg_max_send cfg) (cfg_max_size cfg) 0 0
              (cfg_max_qos cfg) 0 (cfg_max_receive cfg)).
Proof. intros cfg c. split; [intros; apply limits_v3|intros; apply limits_v3_default]. Qed.

Lemma limits_are_negotiated_v5_stmt : forall (cfg : svc_cfg) (c : CodecV5.connect),
  (forall a, let '(lim, pkt) := negotiate_v5 cfg c a in
     l_max_qos lim = CodecV5.ca_max_qos pkt /\
     l_topic_alias_max lim = CodecV5.ca_topic_alias_max pkt /\
     l_receive_max lim = CodecV5.ca_receive_max pkt /\
     l_max_in lim = dflt (CodecV5.ca_max_packet_size pkt) 0 /\
     CodecV5.ca_reason_code pkt = CodecV5.ca_reason_code (a5_packet a)) /\
  fst (negotiate_v5 cfg c (hs5_ack (shared5_init cfg) c)) =
    mkLimits (keepalive_of (CodecV5.c_keep_alive c))
             (match CodecV5.c_receive_max c with
              | Some peer => N.min (cfg_max_send cfg) peer
              | None => cfg_max_send cfg
              end)
             (cfg_max_size cfg)
             (CodecV5.ec_max_out_size (outbound5 c)) (CodecV5.ec_max_out_frame (outbound5 c))
             (cfg_max_qos cfg) (cfg_max_topic_alias cfg)
             (if cfg_max_receive cfg =? 0 then 65535 else cfg_max_receive cfg) /\
  (CodecV5.ec_max_out_frame (outbound5 c), CodecV5.ec_max_out_size (outbound5 c)) =
    match CodecV5.c_max_packet_size c with
    | Some size => (size, if 5 <? size then size - 5 else size)
    | None => (0, 0)
    end.
Proof.
  intros cfg c. split; [intros a; apply limits_v5_announced|]. split; [apply limits_v5_default|apply outbound_v5].
Qed.

Lemma imposed_keepalive_announced_stmt : forall (cfg : svc_cfg) (c : CodecV5.connect),
  (forall a, CodecV5.ca_server_keepalive_sec (a5_packet a) = None ->
     CodecV5.ca_server_keepalive_sec (snd (negotiate_v5 cfg c a)) =
       if a5_keepalive a <? CodecV5.c_keep_alive c then Some (a5_keepalive a) else None) /\
  (forall a v, CodecV5.ca_server_keepalive_sec (a5_packet a) = Some v ->
     CodecV5.ca_server_keepalive_sec (snd (negotiate_v5 cfg c a)) = Some v) /\
  (CodecV5.c_keep_alive c <= 65535 -> CodecV5.c_keep_alive c <> 0 ->
     CodecV5.ca_server_keepalive_sec (snd (negotiate_v5 cfg c (hs5_ack (shared5_init cfg) c))) = None).
Proof.
  intros cfg c. split; [intros; now apply imposed_keepalive_announced|].
  split; [intros; now apply app_keepalive_kept|apply default_keepalive_not_announced].
Qed.
