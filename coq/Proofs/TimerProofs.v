(* Proofs/TimerProofs.v -- lemmas about Model/Timer.v for property C20. *)
From Coq Require Import ZArith.
From MV Require Import Base.Prelude Base.Res Model.Timer.

(* ---------------------------------------------------------------- generalities *)
Lemma t_run_cons c s e r :
  t_run c s (e :: r) =
  match timer_step c s e with
  | Ok (s1, o1) => match t_run c s1 r with Ok (s2, o2) => Ok (s2, o1 ++ o2) | Err x => Err x | Panic x => Panic x end
  | Err x => Err x
  | Panic x => Panic x
  end.
Proof.
  cbn [t_run]. destruct (timer_step c s e) as [[s1 o1]| |]; cbn [bind]; [|reflexivity|reflexivity].
  destruct (t_run c s1 r) as [[s2 o2]| |]; reflexivity.
Qed.

Lemma t_run_app c s a b :
  t_run c s (a ++ b) =
  match t_run c s a with
  | Ok (s1, o1) => match t_run c s1 b with Ok (s2, o2) => Ok (s2, o1 ++ o2) | Err x => Err x | Panic x => Panic x end
  | Err x => Err x
  | Panic x => Panic x
  end.
Proof.
  revert s; induction a as [|e a IH]; intros s.
  - cbn [app t_run]. destruct (t_run c s b) as [[s2 o2]| |]; reflexivity.
  - cbn [app]. rewrite !t_run_cons. destruct (timer_step c s e) as [[s1 o1]| |]; [|reflexivity|reflexivity].
    rewrite IH. destruct (t_run c s1 a) as [[s2 o2]| |]; [|reflexivity|reflexivity].
    destruct (t_run c s2 b) as [[s3 o3]| |]; [|reflexivity|reflexivity]. now rewrite app_assoc.
Qed.

(* what handle_timeout can do *)
Lemma handle_timeout_cases c s :
  exists s1 o, handle_timeout c s = Ok (s1, o) /\
    ka_enabled s1 = ka_enabled s /\ ka_timeout s1 = ka_timeout s /\ read_timeout s1 = read_timeout s /\
    dsp_timeout s1 = dsp_timeout s /\ now s1 = now s /\
    ( (o = [] /\ stopped s1 = stopped s)
      \/ (o = [StopRead] /\ read_timeout s = true /\ stopped s1 = true /\ timer s1 = None)
      \/ (o = [StopKeepAlive] /\ read_timeout s = false /\ ka_timeout s = true /\ stopped s1 = true /\
          timer s1 = None) ).
Proof.
  unfold handle_timeout.
  destruct (read_timeout s) eqn:RT.
  - destruct (cfg_rr c) as [p|].
    + destruct (rr_rate p <? read_remains s - read_remains_prev s).
      * destruct ((rr_max p =? 0) || negb _) eqn:E.
        -- eexists _, _. split; [reflexivity|]. unfold start_timer, set_timer. cbn.
           repeat split; auto.
        -- eexists _, _. split; [reflexivity|]. cbn. repeat split; auto. right. left. auto.
      * eexists _, _. split; [reflexivity|]. cbn. repeat split; auto. right. left. auto.
    + eexists _, _. split; [reflexivity|]. repeat split; auto.
  - destruct (ka_timeout s) eqn:KT.
    + eexists _, _. split; [reflexivity|]. cbn. repeat split; auto. right. right. auto.
    + eexists _, _. split; [reflexivity|]. repeat split; auto.
Qed.

(* ---------------------------------------------------------------- C20_ka_zero_disables *)
Definition not_paused (e : tevent) : bool := negb (is_paused e).
Definition not_inject (e : tevent) : bool := negb (is_inject e).

Lemma update_timer_ka_off c s item r :
  ka_enabled s = false -> ka_timeout s = false ->
  ka_enabled (update_timer c s item r) = false /\ ka_timeout (update_timer c s item r) = false.
Proof.
  intros E K. unfold update_timer.
  destruct item; [cbn; auto|].
  destruct (read_timeout s); [cbn; auto|].
  destruct (((read_remains s =? 0) && (r =? 0)) || match cfg_rr c with None => true | Some _ => false end).
  - rewrite E. cbn. auto.
  - destruct (cfg_rr c); [unfold start_timer, set_timer; cbn; auto | auto].
Qed.

Lemma ka_off_step c s e s1 o :
  ka_enabled s = false -> ka_timeout s = false -> is_paused e = false ->
  timer_step c s e = Ok (s1, o) ->
  ka_enabled s1 = false /\ ka_timeout s1 = false /\ ~ In StopKeepAlive o.
Proof.
  intros E K NP H. destruct e; cbn [timer_step] in H; try discriminate NP.
  - (* Recv *)
    destruct (stopped s); [injection H as <- <-; auto|].
    destruct item.
    + injection H as <- <-. destruct (update_timer_ka_off c s true remains E K). auto.
    + destruct (dsp_timeout s).
      * destruct (handle_timeout_cases c (clear_dsp s)) as (s2 & o2 & HT & E2 & K2 & R2 & _ & _ & Cs).
        rewrite HT in H. cbn [bind] in H. cbn in E2, K2.
        assert (NK : ~ In StopKeepAlive o2).
        { destruct Cs as [(-> & _) | [(-> & _) | (_ & _ & KT & _)]].
          - intros [].
          - intros [X|[]]. discriminate.
          - cbn in KT. congruence. }
        destruct (stopped s2).
        -- injection H as <- <-. rewrite E2, K2. auto.
        -- injection H as <- <-.
           destruct (update_timer_ka_off c s2 false remains) as [A B]; [congruence | congruence |]. auto.
      * injection H as <- <-. destruct (update_timer_ka_off c s false remains E K). auto.
  - (* Timeout *)
    destruct (stopped s); [injection H as <- <-; auto|].
    destruct (dsp_timeout s); [|injection H as <- <-; auto].
    destruct (handle_timeout_cases c (clear_dsp s)) as (s2 & o2 & HT & E2 & K2 & R2 & _ & _ & Cs).
    rewrite HT in H. injection H as <- <-. cbn in E2, K2. rewrite E2, K2. repeat split; auto.
    destruct Cs as [(-> & _) | [(-> & _) | (_ & _ & KT & _)]].
    + intros [].
    + intros [X|[]]. discriminate.
    + cbn in KT. congruence.
  - injection H as <- <-. cbn. auto.
  - injection H as <- <-. cbn. auto.
  - destruct (timer s) as [dl|]; [destruct (dl <=? now s)|]; injection H as <- <-; cbn; auto.
  - injection H as <- <-. cbn. auto.
Qed.

Lemma ka_zero_no_pause c evs : forall s s' outs,
  ka_enabled s = false -> ka_timeout s = false ->
  forallb not_paused evs = true ->
  t_run c s evs = Ok (s', outs) -> ~ In StopKeepAlive outs.
Proof.
  induction evs as [|e r IH]; intros s s' outs E K NP H.
  - cbn in H. injection H as <- <-. intros [].
  - cbn [forallb] in NP. apply andb_true_iff in NP as [NP1 NP2].
    rewrite t_run_cons in H.
    destruct (timer_step c s e) as [[s1 o1]| |] eqn:ST; try discriminate.
    destruct (t_run c s1 r) as [[s2 o2]| |] eqn:TR; try discriminate.
    injection H as <- <-.
    unfold not_paused in NP1. apply negb_true_iff in NP1.
    destruct (ka_off_step c s e s1 o1 E K NP1 ST) as (E1 & K1 & N1).
    intros I. apply in_app_or in I as [I|I]; [auto|].
    exact (IH s1 s2 o2 E1 K1 NP2 TR I).
Qed.

(* without keep-alive and without the read-rate rule no timer is ever armed *)
Definition quiet_state (s : tstate) : Prop :=
  ka_enabled s = false /\ ka_timeout s = false /\ read_timeout s = false /\ timer s = None /\
  dsp_timeout s = false.

Lemma quiet_step c s e s1 o :
  cfg_rr c = None -> quiet_state s -> is_inject e = false ->
  timer_step c s e = Ok (s1, o) -> quiet_state s1 /\ o = [].
Proof.
  intros RR (E & K & R & T & D) NI H. unfold quiet_state.
  destruct e; cbn [timer_step] in H; try discriminate NI.
  - destruct (stopped s); [injection H as <- <-; auto 10|].
    destruct item.
    + injection H as <- <-. unfold update_timer. cbn. auto 10.
    + rewrite D in H. injection H as <- <-. unfold update_timer. rewrite R, E, RR.
      destruct ((read_remains s =? 0) && (remains =? 0)); cbn; auto 10.
  - destruct (stopped s); [injection H as <- <-; auto 10|]. rewrite D in H. injection H as <- <-. auto 10.
  - destruct (stopped s); [injection H as <- <-; auto 10|]. unfold pause in H. cbn in H. rewrite D in H.
    injection H as <- <-. cbn. auto 10.
  - injection H as <- <-. cbn. auto 10.
  - injection H as <- <-. cbn. auto 10.
  - rewrite T in H. injection H as <- <-. auto 10.
Qed.

Lemma ka_zero_no_rr c evs : forall s s' outs,
  cfg_rr c = None -> quiet_state s -> forallb not_inject evs = true ->
  t_run c s evs = Ok (s', outs) -> outs = [].
Proof.
  induction evs as [|e r IH]; intros s s' outs RR Q NI H.
  - cbn in H. now injection H as <- <-.
  - cbn [forallb] in NI. apply andb_true_iff in NI as [NI1 NI2].
    rewrite t_run_cons in H.
    destruct (timer_step c s e) as [[s1 o1]| |] eqn:ST; try discriminate.
    destruct (t_run c s1 r) as [[s2 o2]| |] eqn:TR; try discriminate.
    injection H as <- <-. unfold not_inject in NI1. apply negb_true_iff in NI1.
    destruct (quiet_step c s e s1 o1 RR Q NI1 ST) as (Q1 & ->).
    now rewrite (IH s1 s2 o2 RR Q1 NI2 TR).
Qed.

Lemma ka_zero_disables c evs s' outs :
  cfg_ka c = 0 ->
  (forallb not_paused evs = true \/ (cfg_rr c = None /\ forallb not_inject evs = true)) ->
  t_run c (t_init c) evs = Ok (s', outs) -> ~ In StopKeepAlive outs.
Proof.
  intros K0 [NP | (RR & NI)] H.
  - eapply (ka_zero_no_pause c evs (t_init c)); eauto; unfold t_init; cbn; now rewrite K0.
  - assert (Q : quiet_state (t_init c)) by (unfold quiet_state, t_init; cbn; rewrite K0; auto).
    rewrite (ka_zero_no_rr c evs _ _ _ RR Q NI H). intros [].
Qed.

Lemma ka_zero_disables_refuted :
  let c := mkTcfg 0 (Some (mkRr 1 0 0)) in
  exists s, t_run c (t_init c) [Recv false 1; Tick; TimerFired; Paused] = Ok (s, [StopKeepAlive]).
Proof. eexists. vm_compute. reflexivity. Qed.

(* ---------------------------------------------------------------- C20_idle_times_out *)
(* idle: seconds pass and polls that decode no frame; with the read-rate rule on, polls that find
   nothing buffered (a buffered partial frame is then governed by the read-rate rule) *)
Definition idle_ev (c : tcfg) (e : tevent) : bool :=
  match e with
  | Tick => true
  | Recv false r => match cfg_rr c with None => true | Some _ => r =? 0 end
  | _ => false
  end.
Definition is_tick (e : tevent) : bool := match e with Tick => true | _ => false end.
Definition ticks (evs : list tevent) : N := N.of_nat (length (filter is_tick evs)).

Definition armed (s : tstate) (dl : N) : Prop :=
  stopped s = false /\ ka_timeout s = true /\ read_timeout s = false /\ dsp_timeout s = false /\
  timer s = Some dl.

Lemma idle_step c s dl e :
  (cfg_rr c = None \/ read_remains s = 0) -> armed s dl -> idle_ev c e = true ->
  exists s1, timer_step c s e = Ok (s1, []) /\ armed s1 dl /\ read_remains s1 = read_remains s /\
             now s1 = now s + (if is_tick e then 1 else 0).
Proof.
  intros RR (S & K & R & D & T) I. destruct e; try discriminate I.
  - destruct item; [discriminate I|]. cbn [timer_step]. rewrite S, D.
    exists s. cbn [is_tick]. rewrite N.add_0_r. unfold update_timer. rewrite R, K, andb_false_r.
    cbn [idle_ev] in I.
    destruct (cfg_rr c) as [p|] eqn:C.
    + apply N.eqb_eq in I. subst remains. destruct RR as [RR|RR]; [discriminate|].
      rewrite RR. cbn. repeat split; auto.
    + rewrite orb_true_r. repeat split; auto.
  - eexists. cbn [timer_step]. split; [reflexivity|]. unfold armed. cbn. repeat split; auto.
Qed.

Lemma idle_run c evs : forall s dl,
  (cfg_rr c = None \/ read_remains s = 0) -> armed s dl -> forallb (idle_ev c) evs = true ->
  exists s1, t_run c s evs = Ok (s1, []) /\ armed s1 dl /\ now s1 = now s + ticks evs.
Proof.
  induction evs as [|e r IH]; intros s dl RR A I.
  - exists s. cbn. unfold ticks. cbn. rewrite N.add_0_r. auto.
  - cbn [forallb] in I. apply andb_true_iff in I as [I1 I2].
    destruct (idle_step c s dl e RR A I1) as (s1 & ST & A1 & RM1 & N1).
    assert (RR1 : cfg_rr c = None \/ read_remains s1 = 0) by (destruct RR; [auto | right; congruence]).
    destruct (IH s1 dl RR1 A1 I2) as (s2 & TR & A2 & N2).
    exists s2. rewrite t_run_cons, ST, TR. cbn [app]. split; [reflexivity|]. split; [exact A2|].
    rewrite N2, N1. unfold ticks. cbn [filter]. destruct (is_tick e); cbn [length]; lia.
Qed.

Lemma armed_fires c s dl r :
  armed s dl -> dl <= now s ->
  exists s2, t_run c s [TimerFired; Recv false r] = Ok (s2, [StopKeepAlive]) /\ stopped s2 = true /\
             timer s2 = None.
Proof.
  intros (S & K & R & D & T) L.
  cbn [t_run timer_step]. rewrite T. apply N.leb_le in L. rewrite L. cbn [bind].
  cbn [stopped dsp_timeout]. rewrite S.
  unfold handle_timeout, clear_dsp. cbn [read_timeout ka_timeout]. rewrite R, K. cbn [bind halt stopped].
  eexists. split; [reflexivity|]. cbn. auto.
Qed.

Lemma idle_times_out c s dl evs :
  (cfg_rr c = None \/ read_remains s = 0) -> armed s dl -> forallb (idle_ev c) evs = true ->
  exists s1, t_run c s evs = Ok (s1, []) /\ timer s1 = Some dl /\ now s1 = now s + ticks evs /\
    (dl <= now s1 -> forall r, exists s2,
       t_run c s1 [TimerFired; Recv false r] = Ok (s2, [StopKeepAlive]) /\ stopped s2 = true /\ timer s2 = None).
Proof.
  intros RR A I. destruct (idle_run c evs s dl RR A I) as (s1 & TR & A1 & N1).
  exists s1. repeat split; auto.
  - now destruct A1 as (_ & _ & _ & _ & T).
  - intros L r. now apply (armed_fires c s1 dl r).
Qed.

(* the first poll of an idle connection with keep-alive arms the timer *)
Lemma init_arms c : cfg_ka c <> 0 ->
  exists s, t_run c (t_init c) [Recv false 0] = Ok (s, []) /\ armed s (cfg_ka c).
Proof.
  intros K. destruct c as [ka rr]. cbn [cfg_ka] in *. apply N.eqb_neq in K.
  unfold t_run, timer_step, t_init, update_timer, start_timer, set_timer. cbn. rewrite K. cbn.
  rewrite N.eqb_refl. cbn [andb orb]. eexists. split; [reflexivity|].
  unfold armed. cbn. rewrite N.add_0_l. repeat split; reflexivity.
Qed.

(* after a frame (KA_TIMEOUT cleared) the next poll that decodes no frame arms the keep-alive timer
   again -- with the read-rate rule off whatever is buffered (a67d067), with it on when nothing is *)
Definition after_frame (s : tstate) : Prop :=
  stopped s = false /\ ka_enabled s = true /\ ka_timeout s = false /\ read_timeout s = false /\
  read_remains s = 0 /\ dsp_timeout s = false.

Lemma frame_clears c s r :
  stopped s = false -> ka_enabled s = true -> dsp_timeout s = false ->
  exists s1, timer_step c s (Recv true r) = Ok (s1, []) /\ after_frame s1 /\ timer s1 = timer s /\ now s1 = now s.
Proof.
  intros S E D. cbn [timer_step]. rewrite S. eexists. split; [reflexivity|].
  unfold after_frame, update_timer. cbn. auto 10.
Qed.

Lemma partial_frame_arms_keepalive c s r :
  cfg_ka c <> 0 -> (cfg_rr c = None \/ r = 0) -> after_frame s ->
  exists s1 dl, timer_step c s (Recv false r) = Ok (s1, []) /\ armed s1 dl /\
                now s + cfg_ka c <= dl <= now s + cfg_ka c + 1.
Proof.
  intros K RR (S & E & KT & R & RM & D). apply N.eqb_neq in K.
  cbn [timer_step]. rewrite S, D. unfold update_timer. rewrite R, RM, E, KT.
  assert (X : (0 =? 0) && (r =? 0) || match cfg_rr c with None => true | Some _ => false end = true).
  { destruct RR as [-> | ->]; [apply orb_true_r | reflexivity]. }
  rewrite X. cbn [andb negb]. unfold start_timer, set_timer. cbn. rewrite K.
  destruct (timer s) as [d0|].
  - destruct ((d0 =? now s + cfg_ka c) || (d0 =? now s + cfg_ka c + 1)) eqn:Q.
    + eexists _, d0. split; [reflexivity|]. unfold armed. cbn. repeat split; auto;
        apply orb_true_iff in Q as [Q|Q]; apply N.eqb_eq in Q; lia.
    + eexists _, _. split; [reflexivity|]. unfold armed. cbn. repeat split; auto; lia.
  - eexists _, _. split; [reflexivity|]. unfold armed. cbn. repeat split; auto; lia.
Qed.

(* ---------------------------------------------------------------- C20_live_never_timed_out *)
Definition live_inv (ka cnt : N) (s : tstate) : Prop :=
  (ka_timeout s = true -> read_timeout s = false -> forall dl, timer s = Some dl -> now s + ka <= dl + cnt) /\
  (dsp_timeout s = true -> ka_timeout s = true -> read_timeout s = true) /\
  (stopped s = true -> timer s = None).

Definition plain_ev (e : tevent) : bool := negb (is_paused e) && negb (is_inject e).

Lemma update_timer_stopped c s item r : stopped (update_timer c s item r) = stopped s.
Proof.
  unfold update_timer. destruct item; [reflexivity|].
  destruct (read_timeout s); [reflexivity|].
  destruct (((read_remains s =? 0) && (r =? 0)) || match cfg_rr c with None => true | Some _ => false end).
  - destruct (ka_enabled s && negb (ka_timeout s)); reflexivity.
  - destruct (cfg_rr c); reflexivity.
Qed.

Lemma update_timer_live c ka cnt s r :
  cfg_ka c = ka -> ka <> 0 -> dsp_timeout s = false -> stopped s = false ->
  live_inv ka cnt s -> live_inv ka cnt (update_timer c s false r).
Proof.
  intros CK K0 D S LI. pose proof LI as (I1 & I2 & I3).
  assert (S3 : stopped (update_timer c s false r) = true -> timer (update_timer c s false r) = None)
    by (rewrite update_timer_stopped; congruence).
  revert S3. unfold update_timer.
  destruct (read_timeout s) eqn:R.
  - intros S3. split; [|split]; cbn; intros; try congruence.
  - destruct (((read_remains s =? 0) && (r =? 0)) || match cfg_rr c with None => true | Some _ => false end).
    + destruct (ka_enabled s && negb (ka_timeout s)) eqn:E.
      * intros S3. split; [|split]; [| |exact S3].
        -- unfold start_timer, set_timer. cbn. rewrite CK. apply N.eqb_neq in K0. rewrite K0.
           intros _ _ dl H1. destruct (timer s) as [d0|].
           ++ destruct ((d0 =? now s + ka) || (d0 =? now s + ka + 1)) eqn:Q.
              ** injection H1 as <-. apply orb_true_iff in Q as [Q|Q]; apply N.eqb_eq in Q; lia.
              ** injection H1 as <-. lia.
           ++ injection H1 as <-. lia.
        -- unfold start_timer, set_timer. cbn. intros; congruence.
      * intros _. exact LI.
    + destruct (cfg_rr c) as [p|].
      * intros S3. split; [|split]; [| |exact S3]; unfold start_timer, set_timer; cbn; intros; congruence.
      * intros _. exact LI.
Qed.

Lemma live_step c ka cnt s e s1 o :
  cfg_ka c = ka -> ka <> 0 -> cnt < ka -> plain_ev e = true ->
  live_inv ka cnt s -> timer_step c s e = Ok (s1, o) ->
  ~ In StopKeepAlive o /\
  live_inv ka (match e with Tick => cnt + 1 | Recv true _ => 0 | _ => cnt end) s1.
Proof.
  intros CK K0 CL PE LI H. pose proof LI as (I1 & I2 & I3).
  assert (STOPPED : forall cnt', stopped s = true -> live_inv ka cnt' s).
  { intros cnt' S. split; [|split]; auto. intros _ _ dl T. rewrite (I3 S) in T. discriminate. }
  destruct e; cbn [timer_step] in H; try discriminate PE.
  - (* Recv *)
    destruct (stopped s) eqn:S.
    { injection H as <- <-. split; [intros []|]. destruct item; apply STOPPED; reflexivity. }
    destruct item.
    + injection H as <- <-. split; [intros []|]. unfold update_timer.
      split; [|split]; cbn; intros; congruence.
    + destruct (dsp_timeout s) eqn:D.
      * destruct (handle_timeout_cases c (clear_dsp s)) as (s2 & o2 & HT & E2 & K2 & R2 & D2 & N2 & Cs).
        rewrite HT in H. cbn [bind] in H. cbn in E2, K2, R2, D2, N2.
        assert (NK : ~ In StopKeepAlive o2).
        { destruct Cs as [(-> & _) | [(-> & _) | (_ & RT & KT & _)]].
          - intros [].
          - intros [X|[]]. discriminate.
          - cbn in RT, KT. specialize (I2 eq_refl KT). congruence. }
        assert (L2 : live_inv ka cnt s2).
        { split; [|split].
          - intros KT RT dl T. rewrite K2 in KT. rewrite R2 in RT. specialize (I2 eq_refl KT). congruence.
          - intros DD. congruence.
          - intros S2. destruct Cs as [(_ & S2') | [(_ & _ & _ & T2) | (_ & _ & _ & _ & T2)]]; auto.
            cbn in S2'. congruence. }
        destruct (stopped s2) eqn:S2.
        -- injection H as <- <-. auto.
        -- injection H as <- <-. split; [auto|]. apply update_timer_live; auto.
      * injection H as <- <-. split; [intros []|]. apply update_timer_live; auto.
  - (* Timeout *)
    destruct (stopped s) eqn:S; [injection H as <- <-; split; [intros []|exact LI]|].
    destruct (dsp_timeout s) eqn:D; [|injection H as <- <-; split; [intros []|exact LI]].
    destruct (handle_timeout_cases c (clear_dsp s)) as (s2 & o2 & HT & E2 & K2 & R2 & D2 & N2 & Cs).
    rewrite HT in H. injection H as <- <-. cbn in E2, K2, R2, D2, N2. split.
    + destruct Cs as [(-> & _) | [(-> & _) | (_ & RT & KT & _)]].
      * intros [].
      * intros [X|[]]. discriminate.
      * cbn in RT, KT. specialize (I2 eq_refl KT). congruence.
    + split; [|split].
      * intros KT RT dl T. rewrite K2 in KT. rewrite R2 in RT. specialize (I2 eq_refl KT). congruence.
      * intros DD. congruence.
      * intros S2. destruct Cs as [(_ & S2') | [(_ & _ & _ & T2) | (_ & _ & _ & _ & T2)]]; auto.
        cbn in S2'. congruence.
  - (* Halt *)
    injection H as <- <-. split; [intros []|]. split; [|split]; cbn; intros; try congruence. auto.
  - (* Tick *)
    injection H as <- <-. split; [intros []|]. split; [|split]; cbn; auto.
    intros KT RT dl T. specialize (I1 KT RT dl T). lia.
  - (* TimerFired *)
    destruct (timer s) as [dl|] eqn:T.
    + destruct (dl <=? now s) eqn:L.
      * injection H as <- <-. split; [intros []|]. split; [|split]; cbn; intros; try congruence.
        destruct (read_timeout s) eqn:RT; [reflexivity|]. exfalso.
        specialize (I1 H0 eq_refl dl eq_refl). apply N.leb_le in L. lia.
      * injection H as <- <-. split; [intros []|]. exact LI.
    + injection H as <- <-. split; [intros []|]. exact LI.
Qed.

Lemma live_run c ka evs : forall cnt s s' outs,
  cfg_ka c = ka -> ka <> 0 -> cnt < ka -> forallb plain_ev evs = true -> gaps_ok ka cnt evs = true ->
  live_inv ka cnt s -> t_run c s evs = Ok (s', outs) -> ~ In StopKeepAlive outs.
Proof.
  induction evs as [|e r IH]; intros cnt s s' outs CK K0 CL PE G LI H.
  - cbn in H. injection H as <- <-. intros [].
  - cbn [forallb] in PE. apply andb_true_iff in PE as [PE1 PE2].
    rewrite t_run_cons in H.
    destruct (timer_step c s e) as [[s1 o1]| |] eqn:ST; try discriminate.
    destruct (t_run c s1 r) as [[s2 o2]| |] eqn:TR; try discriminate.
    injection H as <- <-.
    destruct (live_step c ka cnt s e s1 o1 CK K0 CL PE1 LI ST) as (N1 & L1).
    intros I. apply in_app_or in I as [I|I]; [auto|].
    revert I. destruct e as [item rm| | | | | |]; cbn [gaps_ok] in G.
    + destruct item.
      * eapply (IH 0); eauto. lia.
      * eapply (IH cnt); eauto.
    + eapply (IH cnt); eauto.
    + eapply (IH cnt); eauto.
    + eapply (IH cnt); eauto.
    + apply andb_true_iff in G as [G1 G2]. apply N.ltb_lt in G1. eapply (IH (cnt + 1)); eauto.
    + eapply (IH cnt); eauto.
    + eapply (IH cnt); eauto.
Qed.

Lemma live_never_timed_out c evs s' outs :
  cfg_ka c <> 0 -> forallb plain_ev evs = true -> gaps_ok (cfg_ka c) 0 evs = true ->
  t_run c (t_init c) evs = Ok (s', outs) -> ~ In StopKeepAlive outs.
Proof.
  intros K0 PE G H.
  eapply (live_run c (cfg_ka c) evs 0 (t_init c)); eauto; [lia|].
  split; [|split]; unfold t_init; cbn; intros; congruence.
Qed.

(* a frame-read timer that expires while the service is not ready is reported by poll_read_pause as
   KeepAliveTimeout: here one second after a complete frame, keep-alive 4 *)
Lemma live_refuted_not_ready :
  let c := mkTcfg 4 (Some (mkRr 1 0 0)) in
  let evs := [Recv false 0; Tick; Recv true 1; Recv false 1; Tick; TimerFired; Paused] in
  gaps_ok 4 0 evs = true /\ exists s, t_run c (t_init c) evs = Ok (s, [StopKeepAlive]).
Proof. split; [reflexivity|]. eexists. vm_compute. reflexivity. Qed.

(* with the read-rate rule off (the default) not-ready episodes are harmless as well, provided the poll
   loop goes on after a frame (next poll_recv_decode, or the service is not ready, or stop) *)
Fixpoint frame_followed (evs : list tevent) : bool :=
  match evs with
  | [] => true
  | Recv true _ :: r =>
    match r with
    | [] => true
    | Recv _ _ :: _ | Paused :: _ | Halt :: _ => frame_followed r
    | _ => false
    end
  | _ :: r => frame_followed r
  end.

Definition norr_inv (ka cnt : N) (aw : bool) (s : tstate) : Prop :=
  dsp_timeout s = false /\ read_timeout s = false /\ ka_enabled s = true /\
  (aw = false -> forall dl, timer s = Some dl -> now s + ka <= dl + cnt) /\
  (stopped s = true -> timer s = None) /\
  (aw = true -> ka_timeout s = false /\ stopped s = false).

Definition aw_ok (aw : bool) (e : tevent) : bool :=
  if aw then match e with Recv _ _ | Paused | Halt => true | _ => false end else true.

Definition next_cnt (cnt : N) (e : tevent) : N :=
  match e with Tick => cnt + 1 | Recv true _ => 0 | _ => cnt end.
Definition next_aw (s : tstate) (e : tevent) : bool :=
  match e with Recv true _ => negb (stopped s) | _ => false end.

Ltac fin := repeat split; auto; try discriminate; try (intros; congruence); try (intros; exfalso; eauto).

Lemma norr_step c ka cnt aw s e s1 o :
  cfg_ka c = ka -> cfg_rr c = None -> ka <> 0 -> cnt < ka -> is_inject e = false -> aw_ok aw e = true ->
  norr_inv ka cnt aw s -> timer_step c s e = Ok (s1, o) ->
  o = [] /\ norr_inv ka (next_cnt cnt e) (next_aw s e) s1.
Proof.
  intros CK RR K0 CL NI AW (D & R & E & I3 & I4 & I6) H. unfold norr_inv, next_aw, next_cnt.
  assert (STOPPED : stopped s = true -> forall dl, timer s = Some dl -> False).
  { intros S dl T. rewrite (I4 S) in T. discriminate. }
  destruct e as [item r| | | | | |]; cbn [timer_step] in H; try discriminate NI.
  - (* Recv *)
    destruct (stopped s) eqn:S.
    { injection H as <- <-. split; [reflexivity|]. destruct item; cbn [negb]; repeat split; auto;
        try discriminate; intros; exfalso; eauto. }
    destruct item.
    + injection H as <- <-. split; [reflexivity|]. unfold update_timer. cbn. fin.
    + rewrite D in H. injection H as <- <-. split; [reflexivity|].
      unfold update_timer. rewrite R, RR, orb_true_r, E. cbn [andb].
      destruct (ka_timeout s) eqn:KT; cbn [negb].
      * destruct aw; [destruct (I6 eq_refl); discriminate|].
        fin.
      * unfold start_timer, set_timer. cbn. rewrite CK. apply N.eqb_neq in K0. rewrite K0.
        repeat split; auto; cbn; try discriminate; try (intros; congruence).
        -- intros _ dl T. destruct (timer s) as [d0|].
           ++ destruct ((d0 =? now s + ka) || (d0 =? now s + ka + 1)) eqn:Q; injection T as <-;
                [apply orb_true_iff in Q as [Q|Q]; apply N.eqb_eq in Q; lia | lia].
           ++ injection T as <-. lia.
  - (* Timeout *)
    destruct aw; [discriminate AW|].
    destruct (stopped s) eqn:S; [injection H as <- <-; split; [reflexivity|]; fin|].
    rewrite D in H. injection H as <- <-. split; [reflexivity|]. fin.
  - (* Paused *)
    destruct (stopped s) eqn:S.
    { injection H as <- <-. split; [reflexivity|]. repeat split; auto; try discriminate. intros; exfalso; eauto. }
    unfold pause in H. cbn [dsp_timeout] in H. rewrite D in H. injection H as <- <-.
    split; [reflexivity|]. cbn. fin.
  - (* Halt *)
    injection H as <- <-. split; [reflexivity|]. cbn. fin.
  - (* Tick *)
    destruct aw; [discriminate AW|].
    injection H as <- <-. split; [reflexivity|]. cbn. repeat split; auto; try discriminate.
    intros _ dl T. specialize (I3 eq_refl dl T). lia.
  - (* TimerFired *)
    destruct aw; [discriminate AW|].
    assert (KEEP : norr_inv ka cnt false s) by (unfold norr_inv; fin).
    destruct (timer s) as [dl|] eqn:T.
    + destruct (dl <=? now s) eqn:L.
      * exfalso. apply N.leb_le in L. specialize (I3 eq_refl dl eq_refl). lia.
      * injection H as <- <-. split; [reflexivity|]. exact KEEP.
    + injection H as <- <-. split; [reflexivity|]. exact KEEP.
Qed.

Lemma frame_followed_cons e r :
  frame_followed (e :: r) = true ->
  frame_followed r = true /\
  (match e with Recv true _ => match r with [] => true | e2 :: _ => aw_ok true e2 end | _ => true end) = true.
Proof.
  destruct e as [[|] x| | | | | |]; cbn [frame_followed]; auto.
  destruct r as [|e2 r2]; [auto|]. destruct e2; cbn [aw_ok]; auto; discriminate.
Qed.

Lemma norr_run c ka evs : forall cnt aw s s' outs,
  cfg_ka c = ka -> cfg_rr c = None -> ka <> 0 -> cnt < ka ->
  forallb not_inject evs = true -> frame_followed evs = true ->
  (match evs with [] => true | e :: _ => aw_ok aw e end) = true ->
  gaps_ok ka cnt evs = true ->
  norr_inv ka cnt aw s -> t_run c s evs = Ok (s', outs) -> outs = [].
Proof.
  induction evs as [|e r IH]; intros cnt aw s s' outs CK RR K0 CL NI FF AW G INV H.
  - cbn in H. now injection H as <- <-.
  - cbn [forallb] in NI. apply andb_true_iff in NI as [NI1 NI2].
    unfold not_inject in NI1. apply negb_true_iff in NI1.
    apply frame_followed_cons in FF as [FF1 FF2].
    rewrite t_run_cons in H.
    destruct (timer_step c s e) as [[s1 o1]| |] eqn:ST; try discriminate.
    destruct (t_run c s1 r) as [[s2 o2]| |] eqn:TR; try discriminate.
    injection H as <- <-.
    destruct (norr_step c ka cnt aw s e s1 o1 CK RR K0 CL NI1 AW INV ST) as (-> & INV1).
    cbn [app].
    assert (CL1 : next_cnt cnt e < ka /\ gaps_ok ka (next_cnt cnt e) r = true).
    { destruct e as [[|] x| | | | | |]; cbn [gaps_ok next_cnt] in *; try (split; [lia | exact G]).
      apply andb_true_iff in G as [G1 G2]. apply N.ltb_lt in G1. auto. }
    destruct CL1 as [CL1 G1].
    eapply (IH (next_cnt cnt e) (next_aw s e) s1); eauto.
    destruct r as [|e2 r2]; [reflexivity|].
    unfold next_aw. destruct e as [[|] x| | | | | |]; try reflexivity.
    destruct (stopped s); [reflexivity | exact FF2].
Qed.

Lemma live_default_config c evs s' outs :
  cfg_rr c = None -> cfg_ka c <> 0 -> forallb not_inject evs = true -> frame_followed evs = true ->
  gaps_ok (cfg_ka c) 0 evs = true ->
  t_run c (t_init c) evs = Ok (s', outs) -> outs = [].
Proof.
  intros RR K0 NI FF G H.
  eapply (norr_run c (cfg_ka c) evs 0 false (t_init c)); eauto; [lia | destruct evs; reflexivity |].
  unfold norr_inv, t_init. cbn. apply N.eqb_neq in K0. rewrite K0. cbn. repeat split; auto; discriminate.
Qed.

(* ---------------------------------------------------------------- C20_slow_frame_times_out / fast_enough_extends *)
Definition expired_read (s : tstate) : Prop :=
  stopped s = false /\ read_timeout s = true /\ dsp_timeout s = true.

(* `-` on N truncates at 0: read_remains.saturating_sub(read_remains_prev) *)
Lemma slow_frame_times_out c p s r :
  cfg_rr c = Some p -> expired_read s ->
  read_remains s - read_remains_prev s <= rr_rate p ->
  exists s1, timer_step c s (Recv false r) = Ok (s1, [StopRead]) /\ stopped s1 = true /\ timer s1 = None.
Proof.
  intros RR (S & R & D) T. destruct s as [ke kt rt rm rp mx tm dsp nw st]. cbn in *. subst.
  unfold handle_timeout, clear_dsp. cbn. rewrite RR.
  assert (X : rr_rate p <? rm - rp = false) by (apply N.ltb_ge; lia).
  rewrite X. cbn. eexists. split; [reflexivity|]. cbn. auto.
Qed.

Definition next_max (p : rr_cfg) (s : tstate) : N :=
  if rr_max p =? 0 then read_max_timeout s else read_max_timeout s - rr_timeout p.

Lemma fast_enough_extends c p s r :
  cfg_rr c = Some p -> expired_read s -> timer s = None ->
  rr_rate p < read_remains s - read_remains_prev s ->
  (rr_max p = 0 \/ next_max p s <> 0) ->
  exists s1, timer_step c s (Recv false r) = Ok (s1, []) /\ stopped s1 = false /\
    timer s1 = (if rr_timeout p =? 0 then None else Some (now s + rr_timeout p)) /\
    read_remains_prev s1 = read_remains s /\ read_remains s1 = r mod U32 /\
    read_max_timeout s1 = next_max p s /\ read_timeout s1 = true.
Proof.
  intros RR (S & R & D) TN T M. destruct s as [ke kt rt rm rp mx tm dsp nw st]. unfold next_max in *. cbn in *. subst.
  unfold handle_timeout, clear_dsp. cbn. rewrite RR.
  apply N.ltb_lt in T. rewrite T.
  assert (X : (rr_max p =? 0) || negb ((if rr_max p =? 0 then mx else mx - rr_timeout p) =? 0) = true).
  { destruct M as [M | M].
    - rewrite M. reflexivity.
    - destruct (rr_max p =? 0); [reflexivity|]. cbn [orb]. apply negb_true_iff. now apply N.eqb_neq. }
  rewrite X. cbn. unfold update_timer. cbn.
  eexists. split; [reflexivity|]. cbn. repeat split; auto.
Qed.

Lemma max_timeout_exhausted c p s r :
  cfg_rr c = Some p -> expired_read s ->
  rr_rate p < read_remains s - read_remains_prev s ->
  rr_max p <> 0 -> next_max p s = 0 ->
  exists s1, timer_step c s (Recv false r) = Ok (s1, [StopRead]) /\ stopped s1 = true /\ timer s1 = None.
Proof.
  intros RR (S & R & D) T M0 M. destruct s as [ke kt rt rm rp mx tm dsp nw st]. unfold next_max in *. cbn in *. subst.
  unfold handle_timeout, clear_dsp. cbn. rewrite RR.
  apply N.ltb_lt in T. rewrite T. apply N.eqb_neq in M0. rewrite M0 in *.
  rewrite M. cbn. eexists. split; [reflexivity|]. cbn. auto.
Qed.

(* ---------------------------------------------------------------- C20_no_underflow *)
(* since 4dba145 the subtraction saturates: no event sequence from any state makes the machine panic *)
Lemma step_total c s e : exists r, timer_step c s e = Ok r.
Proof.
  destruct e as [item r| | | | | |]; cbn [timer_step]; try (eexists; reflexivity).
  - destruct (stopped s); [eexists; reflexivity|]. destruct item; [eexists; reflexivity|].
    destruct (dsp_timeout s); [|eexists; reflexivity].
    destruct (handle_timeout_cases c (clear_dsp s)) as (s1 & o & -> & _). cbn [bind].
    destruct (stopped s1); eexists; reflexivity.
  - destruct (stopped s); [eexists; reflexivity|]. destruct (dsp_timeout s); [|eexists; reflexivity].
    destruct (handle_timeout_cases c (clear_dsp s)) as (s1 & o & -> & _). eexists; reflexivity.
  - destruct (stopped s); eexists; reflexivity.
  - destruct (timer s) as [dl|]; [destruct (dl <=? now s)|]; eexists; reflexivity.
Qed.

Lemma no_underflow c evs : forall s, exists r, t_run c s evs = Ok r.
Proof.
  induction evs as [|e r IH]; intros s; [eexists; reflexivity|].
  rewrite t_run_cons. destruct (step_total c s e) as ([s1 o1] & ->).
  destruct (IH s1) as ([s2 o2] & ->). eexists; reflexivity.
Qed.

(* the two sequences that made the subtraction underflow before 4dba145 (header consumed by the
   decoder; write back-pressure in the poll that extended the timer) now end in a read timeout *)
Lemma former_underflow_sequences :
  let c := mkTcfg 0 (Some (mkRr 1 0 0)) in
  (exists s, t_run c (t_init c) [Recv false 1; Tick; TimerFired; Recv false 1; Recv false 0; Tick; TimerFired;
                                 Recv false 0] = Ok (s, [StopRead])) /\
  (exists s, t_run c (t_init c) [Recv false 3; Tick; TimerFired; Timeout; Tick; TimerFired; Recv false 3]
             = Ok (s, [StopRead])).
Proof. split; eexists; vm_compute; reflexivity. Qed.

(* ---------------------------------------------------------------- C20_keepalive_factor *)
Lemma keepalive_factor ka :
  ka <= U16MAX ->
  ack_keepalive ka = if ka =? 0 then 30 else N.min (ka + ka / 2) 65535.
Proof.
  intros B. unfold ack_keepalive, sat_add16, DEFAULT_KEEPALIVE, U16MAX in *.
  destruct (ka =? 0); [reflexivity|].
  rewrite N.shiftr_div_pow2. change (2 ^ 1) with 2.
  destruct (ka / 2 + ka <=? 65535) eqn:E.
  - apply N.leb_le in E. set (h := ka / 2) in *. rewrite N.min_l by lia. lia.
  - apply N.leb_gt in E. set (h := ka / 2) in *. rewrite N.min_r by lia. reflexivity.
Qed.

Lemma keepalive_factor_bounds ka :
  0 < ka -> ka <= U16MAX -> ka <= ack_keepalive ka <= U16MAX /\ (ka < 43690 -> 2 * ack_keepalive ka + 1 >= 3 * ka).
Proof.
  intros P B. rewrite keepalive_factor by exact B. unfold U16MAX in *.
  assert (Z : ka =? 0 = false) by (apply N.eqb_neq; lia). rewrite Z.
  pose proof (N.div_mod ka 2 ltac:(lia)) as DM.
  pose proof (N.mod_upper_bound ka 2 ltac:(lia)) as MB.
  set (h := ka / 2) in *. set (m := ka mod 2) in *.
  split.
  - split; [apply N.min_glb; lia | apply N.le_min_r].
  - intros L. rewrite N.min_l by lia. lia.
Qed.

(* ---------------------------------------------------------------- connect timeout *)
Lemma connect_times_out ct : forall w rest,
  ct <> 0 -> w < ct ->
  connect_phase ct w (repeat CTick (N.to_nat (ct - w)) ++ rest) = Some CDropped.
Proof.
  intros w rest NZ. remember (N.to_nat (ct - w)) as n eqn:En. revert w En.
  induction n as [|n IH]; intros w En L.
  - lia.
  - cbn [repeat app connect_phase].
    assert (Z : ct =? 0 = false) by now apply N.eqb_neq. rewrite Z. cbn [negb andb].
    destruct (ct <=? w + 1) eqn:E; [reflexivity|].
    apply N.leb_gt in E. apply IH; lia.
Qed.

Lemma connect_no_early_drop ct : forall n w,
  (ct = 0 \/ w + N.of_nat n < ct) -> connect_phase ct w (repeat CTick n ++ [CConnect]) = Some CAccepted.
Proof.
  induction n as [|n IH]; intros w H.
  - reflexivity.
  - cbn [repeat app connect_phase].
    assert (E : negb (ct =? 0) && (ct <=? w + 1) = false).
    { destruct H as [-> | H]; [reflexivity|]. apply andb_false_iff. right. apply N.leb_gt. lia. }
    rewrite E. apply IH. destruct H; [auto|right; lia].
Qed.

(* ---------------------------------------------------------------- client keep-alive loop *)
Lemma ping_cadence ka : 0 < ka -> forall n j,
  j < ka ->
  k_run ka (mkK true true j) (repeat KTick n) =
  (mkK true true ((j + N.of_nat n) mod ka), map (fun i => (j + N.of_nat i + 1) mod ka =? 0) (seq 0 n)).
Proof.
  intros P. induction n as [|n IH]; intros j L.
  - cbn. rewrite N.add_0_r, N.mod_small by exact L. reflexivity.
  - cbn [repeat k_run k_step k_running k_open k_slept].
    destruct (j + 1 <? ka) eqn:E.
    + apply N.ltb_lt in E. rewrite (IH (j + 1) E). f_equal.
      * f_equal. f_equal. lia.
      * cbn [seq map]. f_equal.
        -- cbn. rewrite N.add_0_r, N.mod_small by exact E. symmetry. apply N.eqb_neq. lia.
        -- rewrite <- seq_shift, map_map. apply map_ext. intros i. f_equal. f_equal. lia.
    + apply N.ltb_ge in E. assert (J : j + 1 = ka) by lia.
      rewrite (IH 0 P). f_equal.
      * f_equal. rewrite N.add_0_l.
        replace (j + N.of_nat (S n)) with (N.of_nat n + 1 * ka) by lia.
        rewrite N.mod_add by lia. reflexivity.
      * cbn [seq map]. f_equal.
        -- cbn. rewrite N.add_0_r, J, N.mod_same by lia. reflexivity.
        -- rewrite <- seq_shift, map_map. apply map_ext. intros i. f_equal.
           replace (j + N.of_nat (S i) + 1) with (0 + N.of_nat i + 1 + 1 * ka) by lia.
           rewrite N.mod_add by lia. reflexivity.
Qed.

Lemma client_ping_cadence ka n :
  0 < ka ->
  snd (k_run ka (k_init ka) (repeat KTick n)) = map (fun i => (N.of_nat i + 1) mod ka =? 0) (seq 0 n).
Proof.
  intros P. unfold k_init. assert (Z : ka =? 0 = false) by (apply N.eqb_neq; lia). rewrite Z. cbn [negb].
  rewrite (ping_cadence ka P n 0 P). cbn [snd]. apply map_ext. intros i. now rewrite N.add_0_l.
Qed.

Lemma closed_never_pings ka : forall evs s,
  k_open s = false -> Forall (fun p => p = false) (snd (k_run ka s evs)).
Proof.
  induction evs as [|e r IH]; intros s O; [constructor|].
  cbn [k_run]. destruct e; cbn [k_step].
  - destruct (k_running s).
    + destruct (k_slept s + 1 <? ka).
      * specialize (IH (mkK true (k_open s) (k_slept s + 1)) O).
        destruct (k_run ka _ r). cbn [snd] in *. constructor; auto.
      * rewrite O. specialize (IH (mkK false false 0) eq_refl).
        destruct (k_run ka _ r). cbn [snd] in *. constructor; auto.
    + specialize (IH s O). destruct (k_run ka s r). cbn [snd] in *. constructor; auto.
  - specialize (IH (mkK (k_running s) false (k_slept s)) eq_refl).
    destruct (k_run ka _ r). cbn [snd] in *. constructor; auto.
Qed.

Lemma no_keepalive_no_ping evs : Forall (fun p => p = false) (snd (k_run 0 (k_init 0) evs)).
Proof.
  unfold k_init. change (0 =? 0) with true. cbn [negb].
  assert (G : forall evs s, k_running s = false -> Forall (fun p => p = false) (snd (k_run 0 s evs))).
  { induction evs0 as [|e r IH]; intros s R; [constructor|].
    cbn [k_run]. destruct e; cbn [k_step]; rewrite ?R.
    - specialize (IH s R). destruct (k_run 0 s r). cbn [snd] in *. constructor; auto.
    - specialize (IH (mkK false false (k_slept s)) eq_refl).
      destruct (k_run 0 _ r). cbn [snd] in *. constructor; auto. }
  apply G. reflexivity.
Qed.

(* ---------------------------------------------------------------- tie to the handshake model *)
(* Model/Handshake.v (validated against the real Handshake::ack by engine "hs") computes the same value *)
From MV Require Model.Handshake.
Lemma ack_keepalive_is_handshake_model ka : ack_keepalive ka = Handshake.keepalive_of ka.
Proof.
  unfold ack_keepalive, Handshake.keepalive_of, sat_add16, Handshake.sat_add16, DEFAULT_KEEPALIVE,
    Handshake.DEFAULT_KEEPALIVE, U16MAX, Handshake.U16MAX.
  destruct (ka =? 0); [reflexivity|].
  rewrite N.shiftr_div_pow2. change (2 ^ 1) with 2. set (h := ka / 2).
  destruct (h + ka <=? 65535) eqn:E.
  - apply N.leb_le in E. rewrite N.min_r by lia. reflexivity.
  - apply N.leb_gt in E. rewrite N.min_l by lia. reflexivity.
Qed.
