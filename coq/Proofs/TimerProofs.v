(* Proofs/TimerProofs.v -- lemmas about Model/Timer.v for property C20. *)
From Coq Require Import ZArith.
From MV Require Import Base.Prelude Base.Res Model.Timer.

(* ---------------------------------------------------------------- generalities *)
Lemma t_run_cons c s e r :
  t_run c s (e :: r) =
  match timer_step c s e with
  | Ok (s1, o1) => match t_run c s1 r with Ok (s2, o2) => Ok (s2, o1 ++ o2) | Err x => Err x | Panic x => Panic x end
  | Err x => Err x
  | Panic x => Panic x
  end.
Proof.
  cbn [t_run]. destruct (timer_step c s e) as [[s1 o1]| |]; cbn [bind]; [|reflexivity|reflexivity].
  destruct (t_run c s1 r) as [[s2 o2]| |]; reflexivity.
Qed.

Lemma t_run_app c s a b :
  t_run c s (a ++ b) =
  match t_run c s a with
  | Ok (s1, o1) => match t_run c s1 b with Ok (s2, o2) => Ok (s2, o1 ++ o2) | Err x => Err x | Panic x => Panic x end
  | Err x => Err x
  | Panic x => Panic x
  end.
Proof.
  revert s; induction a as [|e a IH]; intros s.
  - cbn [app t_run]. destruct (t_run c s b) as [[s2 o2]| |]; reflexivity.
  - cbn [app]. rewrite !t_run_cons. destruct (timer_step c s e) as [[s1 o1]| |]; [|reflexivity|reflexivity].
    rewrite IH. destruct (t_run c s1 a) as [[s2 o2]| |]; [|reflexivity|reflexivity].
    destruct (t_run c s2 b) as [[s3 o3]| |]; [|reflexivity|reflexivity]. now rewrite app_assoc.
Qed.

(* what handle_timeout can do *)
Lemma handle_timeout_cases c s :
  handle_timeout c s = Panic PS_sub_overflow \/
  exists s1 o, handle_timeout c s = Ok (s1, o) /\
    ka_enabled s1 = ka_enabled s /\ ka_timeout s1 = ka_timeout s /\ read_timeout s1 = read_timeout s /\
    dsp_timeout s1 = dsp_timeout s /\ now s1 = now s /\
    ( (o = [] /\ stopped s1 = stopped s)
      \/ (o = [StopRead] /\ read_timeout s = true /\ stopped s1 = true /\ timer s1 = None)
      \/ (o = [StopKeepAlive] /\ read_timeout s = false /\ ka_timeout s = true /\ stopped s1 = true /\
          timer s1 = None) ).
Proof.
  unfold handle_timeout.
  destruct (read_timeout s) eqn:RT.
  - destruct (cfg_rr c) as [p|].
    + unfold sub_chk. destruct (read_remains_prev s <=? read_remains s); [|left; reflexivity].
      cbn [bind]. right.
      destruct (rr_rate p <? read_remains s - read_remains_prev s).
      * destruct ((rr_max p =? 0) || negb _) eqn:E.
        -- eexists _, _. split; [reflexivity|]. unfold start_timer, set_timer. cbn.
           repeat split; auto.
        -- eexists _, _. split; [reflexivity|]. cbn. repeat split; auto. right. left. auto.
      * eexists _, _. split; [reflexivity|]. cbn. repeat split; auto. right. left. auto.
    + right. eexists _, _. split; [reflexivity|]. repeat split; auto.
  - right. destruct (ka_timeout s) eqn:KT.
    + eexists _, _. split; [reflexivity|]. cbn. repeat split; auto. right. right. auto.
    + eexists _, _. split; [reflexivity|]. repeat split; auto.
Qed.

(* ---------------------------------------------------------------- C20_ka_zero_disables *)
Definition not_paused (e : tevent) : bool := negb (is_paused e).
Definition not_inject (e : tevent) : bool := negb (is_inject e).

Lemma update_timer_ka_off c s item r :
  ka_enabled s = false -> ka_timeout s = false ->
  ka_enabled (update_timer c s item r) = false /\ ka_timeout (update_timer c s item r) = false.
Proof.
  intros E K. unfold update_timer.
  destruct item; [cbn; auto|].
  destruct (read_timeout s); [cbn; auto|].
  destruct ((read_remains s =? 0) && (r =? 0)).
  - rewrite E. cbn. auto.
  - destruct (cfg_rr c); [unfold start_timer, set_timer; cbn; auto | auto].
Qed.

Lemma ka_off_step c s e s1 o :
  ka_enabled s = false -> ka_timeout s = false -> is_paused e = false ->
  timer_step c s e = Ok (s1, o) ->
  ka_enabled s1 = false /\ ka_timeout s1 = false /\ ~ In StopKeepAlive o.
Proof.
  intros E K NP H. destruct e; cbn [timer_step] in H; try discriminate NP.
  - (* Recv *)
    destruct (stopped s); [injection H as <- <-; auto|].
    destruct item.
    + injection H as <- <-. destruct (update_timer_ka_off c s true remains E K). auto.
    + destruct (dsp_timeout s).
      * destruct (handle_timeout_cases c (clear_dsp s)) as [P | (s2 & o2 & HT & E2 & K2 & R2 & _ & _ & Cs)];
          [rewrite P in H; discriminate|].
        rewrite HT in H. cbn [bind] in H. cbn in E2, K2.
        assert (NK : ~ In StopKeepAlive o2).
        { destruct Cs as [(-> & _) | [(-> & _) | (_ & _ & KT & _)]].
          - intros [].
          - intros [X|[]]. discriminate.
          - cbn in KT. congruence. }
        destruct (stopped s2).
        -- injection H as <- <-. rewrite E2, K2. auto.
        -- injection H as <- <-.
           destruct (update_timer_ka_off c s2 false remains) as [A B]; [congruence | congruence |]. auto.
      * injection H as <- <-. destruct (update_timer_ka_off c s false remains E K). auto.
  - (* Timeout *)
    destruct (stopped s); [injection H as <- <-; auto|].
    destruct (dsp_timeout s); [|injection H as <- <-; auto].
    destruct (handle_timeout_cases c (clear_dsp s)) as [P | (s2 & o2 & HT & E2 & K2 & R2 & _ & _ & Cs)];
      [rewrite P in H; discriminate|].
    rewrite HT in H. injection H as <- <-. cbn in E2, K2. rewrite E2, K2. repeat split; auto.
    destruct Cs as [(-> & _) | [(-> & _) | (_ & _ & KT & _)]].
    + intros [].
    + intros [X|[]]. discriminate.
    + cbn in KT. congruence.
  - injection H as <- <-. cbn. auto.
  - injection H as <- <-. cbn. auto.
  - destruct (timer s) as [dl|]; [destruct (dl <=? now s)|]; injection H as <- <-; cbn; auto.
  - injection H as <- <-. cbn. auto.
Qed.

Lemma ka_zero_no_pause c evs : forall s s' outs,
  ka_enabled s = false -> ka_timeout s = false ->
  forallb not_paused evs = true ->
  t_run c s evs = Ok (s', outs) -> ~ In StopKeepAlive outs.
Proof.
  induction evs as [|e r IH]; intros s s' outs E K NP H.
  - cbn in H. injection H as <- <-. intros [].
  - cbn [forallb] in NP. apply andb_true_iff in NP as [NP1 NP2].
    rewrite t_run_cons in H.
    destruct (timer_step c s e) as [[s1 o1]| |] eqn:ST; try discriminate.
    destruct (t_run c s1 r) as [[s2 o2]| |] eqn:TR; try discriminate.
    injection H as <- <-.
    unfold not_paused in NP1. apply negb_true_iff in NP1.
    destruct (ka_off_step c s e s1 o1 E K NP1 ST) as (E1 & K1 & N1).
    intros I. apply in_app_or in I as [I|I]; [auto|].
    exact (IH s1 s2 o2 E1 K1 NP2 TR I).
Qed.

(* without keep-alive and without the read-rate rule no timer is ever armed *)
Definition quiet_state (s : tstate) : Prop :=
  ka_enabled s = false /\ ka_timeout s = false /\ read_timeout s = false /\ timer s = None /\
  dsp_timeout s = false.

Lemma quiet_step c s e s1 o :
  cfg_rr c = None -> quiet_state s -> is_inject e = false ->
  timer_step c s e = Ok (s1, o) -> quiet_state s1 /\ o = [].
Proof.
  intros RR (E & K & R & T & D) NI H. unfold quiet_state.
  destruct e; cbn [timer_step] in H; try discriminate NI.
  - destruct (stopped s); [injection H as <- <-; auto 10|].
    destruct item.
    + injection H as <- <-. unfold update_timer. cbn. auto 10.
    + rewrite D in H. injection H as <- <-. unfold update_timer. rewrite R, E, RR.
      destruct ((read_remains s =? 0) && (remains =? 0)); cbn; auto 10.
  - destruct (stopped s); [injection H as <- <-; auto 10|]. rewrite D in H. injection H as <- <-. auto 10.
  - destruct (stopped s); [injection H as <- <-; auto 10|]. unfold pause in H. cbn in H. rewrite D in H.
    injection H as <- <-. cbn. auto 10.
  - injection H as <- <-. cbn. auto 10.
  - injection H as <- <-. cbn. auto 10.
  - rewrite T in H. injection H as <- <-. auto 10.
Qed.

Lemma ka_zero_no_rr c evs : forall s s' outs,
  cfg_rr c = None -> quiet_state s -> forallb not_inject evs = true ->
  t_run c s evs = Ok (s', outs) -> outs = [].
Proof.
  induction evs as [|e r IH]; intros s s' outs RR Q NI H.
  - cbn in H. now injection H as <- <-.
  - cbn [forallb] in NI. apply andb_true_iff in NI as [NI1 NI2].
    rewrite t_run_cons in H.
    destruct (timer_step c s e) as [[s1 o1]| |] eqn:ST; try discriminate.
    destruct (t_run c s1 r) as [[s2 o2]| |] eqn:TR; try discriminate.
    injection H as <- <-. unfold not_inject in NI1. apply negb_true_iff in NI1.
    destruct (quiet_step c s e s1 o1 RR Q NI1 ST) as (Q1 & ->).
    now rewrite (IH s1 s2 o2 RR Q1 NI2 TR).
Qed.

Lemma ka_zero_disables c evs s' outs :
  cfg_ka c = 0 ->
  (forallb not_paused evs = true \/ (cfg_rr c = None /\ forallb not_inject evs = true)) ->
  t_run c (t_init c) evs = Ok (s', outs) -> ~ In StopKeepAlive outs.
Proof.
  intros K0 [NP | (RR & NI)] H.
  - eapply (ka_zero_no_pause c evs (t_init c)); eauto; unfold t_init; cbn; now rewrite K0.
  - assert (Q : quiet_state (t_init c)) by (unfold quiet_state, t_init; cbn; rewrite K0; auto).
    rewrite (ka_zero_no_rr c evs _ _ _ RR Q NI H). intros [].
Qed.

Lemma ka_zero_disables_refuted :
  let c := mkTcfg 0 (Some (mkRr 1 0 0)) in
  exists s, t_run c (t_init c) [Recv false 1; Tick; TimerFired; Paused] = Ok (s, [StopKeepAlive]).
Proof. eexists. vm_compute. reflexivity. Qed.

(* ---------------------------------------------------------------- C20_idle_times_out *)
Definition idle_ev (e : tevent) : bool :=
  match e with Tick => true | Recv false _ => true | _ => false end.
Definition is_tick (e : tevent) : bool := match e with Tick => true | _ => false end.
Definition ticks (evs : list tevent) : N := N.of_nat (length (filter is_tick evs)).

Definition armed (s : tstate) (dl : N) : Prop :=
  stopped s = false /\ ka_timeout s = true /\ read_timeout s = false /\ dsp_timeout s = false /\
  timer s = Some dl.

Lemma idle_step c s dl e :
  cfg_rr c = None -> armed s dl -> idle_ev e = true ->
  exists s1, timer_step c s e = Ok (s1, []) /\ armed s1 dl /\
             now s1 = now s + (if is_tick e then 1 else 0).
Proof.
  intros RR (S & K & R & D & T) I. destruct e; try discriminate I.
  - destruct item; [discriminate I|]. cbn [timer_step]. rewrite S, D.
    exists s. unfold update_timer. rewrite R, K, RR, andb_false_r.
    destruct ((read_remains s =? 0) && (remains =? 0)); cbn [is_tick]; rewrite N.add_0_r;
      repeat split; auto.
  - eexists. cbn [timer_step]. split; [reflexivity|]. unfold armed. cbn. repeat split; auto.
Qed.

Lemma idle_run c evs : forall s dl,
  cfg_rr c = None -> armed s dl -> forallb idle_ev evs = true ->
  exists s1, t_run c s evs = Ok (s1, []) /\ armed s1 dl /\ now s1 = now s + ticks evs.
Proof.
  induction evs as [|e r IH]; intros s dl RR A I.
  - exists s. cbn. unfold ticks. cbn. rewrite N.add_0_r. auto.
  - cbn [forallb] in I. apply andb_true_iff in I as [I1 I2].
    destruct (idle_step c s dl e RR A I1) as (s1 & ST & A1 & N1).
    destruct (IH s1 dl RR A1 I2) as (s2 & TR & A2 & N2).
    exists s2. rewrite t_run_cons, ST, TR. cbn [app]. split; [reflexivity|]. split; [exact A2|].
    rewrite N2, N1. unfold ticks. cbn [filter]. destruct (is_tick e); cbn [length]; lia.
Qed.

Lemma armed_fires c s dl r :
  armed s dl -> dl <= now s ->
  exists s2, t_run c s [TimerFired; Recv false r] = Ok (s2, [StopKeepAlive]) /\ stopped s2 = true /\
             timer s2 = None.
Proof.
  intros (S & K & R & D & T) L.
  cbn [t_run timer_step]. rewrite T. apply N.leb_le in L. rewrite L. cbn [bind].
  cbn [stopped dsp_timeout]. rewrite S.
  unfold handle_timeout, clear_dsp. cbn [read_timeout ka_timeout]. rewrite R, K. cbn [bind halt stopped].
  eexists. split; [reflexivity|]. cbn. auto.
Qed.

Lemma idle_times_out c s dl evs :
  cfg_rr c = None -> armed s dl -> forallb idle_ev evs = true ->
  exists s1, t_run c s evs = Ok (s1, []) /\ timer s1 = Some dl /\ now s1 = now s + ticks evs /\
    (dl <= now s1 -> forall r, exists s2,
       t_run c s1 [TimerFired; Recv false r] = Ok (s2, [StopKeepAlive]) /\ stopped s2 = true /\ timer s2 = None).
Proof.
  intros RR A I. destruct (idle_run c evs s dl RR A I) as (s1 & TR & A1 & N1).
  exists s1. repeat split; auto.
  - now destruct A1 as (_ & _ & _ & _ & T).
  - intros L r. now apply (armed_fires c s1 dl r).
Qed.

(* the first poll of an idle connection with keep-alive arms the timer *)
Lemma init_arms c : cfg_ka c <> 0 ->
  exists s, t_run c (t_init c) [Recv false 0] = Ok (s, []) /\ armed s (cfg_ka c).
Proof.
  intros K. destruct c as [ka rr]. cbn [cfg_ka] in *. apply N.eqb_neq in K.
  unfold t_run, timer_step, t_init, update_timer, start_timer, set_timer. cbn. rewrite K. cbn.
  rewrite N.eqb_refl. cbn [andb]. eexists. split; [reflexivity|].
  unfold armed. cbn. rewrite N.add_0_l. repeat split; reflexivity.
Qed.

(* a frame followed in the same read by the first byte of the next one clears KA_TIMEOUT and leaves
   nothing that would set it again: with the read-rate rule off the connection can stay idle forever *)
Definition silence (e : tevent) : bool :=
  match e with Tick | TimerFired => true | Recv false 1 => true | _ => false end.

Definition unarmed (s : tstate) : Prop :=
  stopped s = false /\ ka_timeout s = false /\ read_timeout s = false /\ read_remains s = 0.

Lemma silence_step c s e :
  cfg_rr c = None -> unarmed s -> silence e = true ->
  exists s1, timer_step c s e = Ok (s1, []) /\ unarmed s1.
Proof.
  intros RR (S & K & R & RM) Q. unfold unarmed.
  destruct e as [item r| | | | | |]; try discriminate Q.
  - destruct item; [discriminate Q|].
    destruct r as [|[| |]]; try discriminate Q.
    cbn [timer_step]. rewrite S.
    assert (U : forall t, stopped t = false -> ka_timeout t = false -> read_timeout t = false ->
                          read_remains t = 0 -> update_timer c t false 1 = t).
    { intros t _ _ R' RM'. unfold update_timer. rewrite R', RM', RR. reflexivity. }
    destruct (dsp_timeout s) eqn:D.
    + unfold handle_timeout, clear_dsp. cbn [read_timeout ka_timeout]. rewrite R, K. cbn [bind stopped].
      rewrite S. rewrite U; cbn; auto. eexists. split; [reflexivity|]. cbn. auto.
    + rewrite U; auto. eexists. split; [reflexivity|]. auto.
  - eexists. cbn [timer_step]. split; [reflexivity|]. cbn. auto.
  - cbn [timer_step]. destruct (timer s) as [dl|]; [destruct (dl <=? now s)|];
      eexists; (split; [reflexivity|]); cbn; auto.
Qed.

Lemma silence_run c evs : forall s,
  cfg_rr c = None -> unarmed s -> forallb silence evs = true ->
  exists s1, t_run c s evs = Ok (s1, []) /\ unarmed s1.
Proof.
  induction evs as [|e r IH]; intros s RR U Q.
  - exists s. cbn. auto.
  - cbn [forallb] in Q. apply andb_true_iff in Q as [Q1 Q2].
    destruct (silence_step c s e RR U Q1) as (s1 & ST & U1).
    destruct (IH s1 RR U1 Q2) as (s2 & TR & U2).
    exists s2. rewrite t_run_cons, ST, TR. auto.
Qed.

Lemma idle_partial_never_times_out ka evs :
  ka <> 0 -> forallb silence evs = true ->
  let c := mkTcfg ka None in
  exists s, t_run c (t_init c) ([Recv false 0; Recv true 1; Recv false 1] ++ evs) = Ok (s, []) /\
            stopped s = false.
Proof.
  intros K Q c.
  assert (P : exists s0, t_run c (t_init c) [Recv false 0; Recv true 1; Recv false 1] = Ok (s0, []) /\ unarmed s0).
  { apply N.eqb_neq in K. unfold c.
    unfold t_run, timer_step, t_init, update_timer, start_timer, set_timer. cbn. rewrite K. cbn.
    rewrite N.eqb_refl. cbn [andb]. cbn. rewrite N.eqb_refl.
    change (1 =? 0) with false. cbn [andb].
    eexists. split; [reflexivity|]. unfold unarmed. cbn. auto. }
  destruct P as (s0 & TR0 & U0).
  destruct (silence_run c evs s0 eq_refl U0 Q) as (s1 & TR1 & U1).
  exists s1. rewrite t_run_app, TR0, TR1. split; [reflexivity|]. now destruct U1.
Qed.

(* ---------------------------------------------------------------- C20_live_never_timed_out *)
Definition live_inv (ka cnt : N) (s : tstate) : Prop :=
  (ka_timeout s = true -> read_timeout s = false -> forall dl, timer s = Some dl -> now s + ka <= dl + cnt) /\
  (dsp_timeout s = true -> ka_timeout s = true -> read_timeout s = true) /\
  (stopped s = true -> timer s = None).

Definition plain_ev (e : tevent) : bool := negb (is_paused e) && negb (is_inject e).

Lemma update_timer_stopped c s item r : stopped (update_timer c s item r) = stopped s.
Proof.
  unfold update_timer. destruct item; [reflexivity|].
  destruct (read_timeout s); [reflexivity|].
  destruct ((read_remains s =? 0) && (r =? 0)).
  - destruct (ka_enabled s && negb (ka_timeout s)); reflexivity.
  - destruct (cfg_rr c); reflexivity.
Qed.

Lemma update_timer_live c ka cnt s r :
  cfg_ka c = ka -> ka <> 0 -> dsp_timeout s = false -> stopped s = false ->
  live_inv ka cnt s -> live_inv ka cnt (update_timer c s false r).
Proof.
  intros CK K0 D S LI. pose proof LI as (I1 & I2 & I3).
  assert (S3 : stopped (update_timer c s false r) = true -> timer (update_timer c s false r) = None)
    by (rewrite update_timer_stopped; congruence).
  revert S3. unfold update_timer.
  destruct (read_timeout s) eqn:R.
  - intros S3. split; [|split]; cbn; intros; try congruence.
  - destruct ((read_remains s =? 0) && (r =? 0)).
    + destruct (ka_enabled s && negb (ka_timeout s)) eqn:E.
      * intros S3. split; [|split]; [| |exact S3].
        -- unfold start_timer, set_timer. cbn. rewrite CK. apply N.eqb_neq in K0. rewrite K0.
           intros _ _ dl H1. destruct (timer s) as [d0|].
           ++ destruct ((d0 =? now s + ka) || (d0 =? now s + ka + 1)) eqn:Q.
              ** injection H1 as <-. apply orb_true_iff in Q as [Q|Q]; apply N.eqb_eq in Q; lia.
              ** injection H1 as <-. lia.
           ++ injection H1 as <-. lia.
        -- unfold start_timer, set_timer. cbn. intros; congruence.
      * intros _. exact LI.
    + destruct (cfg_rr c) as [p|].
      * intros S3. split; [|split]; [| |exact S3]; unfold start_timer, set_timer; cbn; intros; congruence.
      * intros _. exact LI.
Qed.

Lemma live_step c ka cnt s e s1 o :
  cfg_ka c = ka -> ka <> 0 -> cnt < ka -> plain_ev e = true ->
  live_inv ka cnt s -> timer_step c s e = Ok (s1, o) ->
  ~ In StopKeepAlive o /\
  live_inv ka (match e with Tick => cnt + 1 | Recv true _ => 0 | _ => cnt end) s1.
Proof.
  intros CK K0 CL PE LI H. pose proof LI as (I1 & I2 & I3).
  assert (STOPPED : forall cnt', stopped s = true -> live_inv ka cnt' s).
  { intros cnt' S. split; [|split]; auto. intros _ _ dl T. rewrite (I3 S) in T. discriminate. }
  destruct e; cbn [timer_step] in H; try discriminate PE.
  - (* Recv *)
    destruct (stopped s) eqn:S.
    { injection H as <- <-. split; [intros []|]. destruct item; apply STOPPED; reflexivity. }
    destruct item.
    + injection H as <- <-. split; [intros []|]. unfold update_timer.
      split; [|split]; cbn; intros; congruence.
    + destruct (dsp_timeout s) eqn:D.
      * destruct (handle_timeout_cases c (clear_dsp s)) as [P | (s2 & o2 & HT & E2 & K2 & R2 & D2 & N2 & Cs)];
          [rewrite P in H; discriminate|].
        rewrite HT in H. cbn [bind] in H. cbn in E2, K2, R2, D2, N2.
        assert (NK : ~ In StopKeepAlive o2).
        { destruct Cs as [(-> & _) | [(-> & _) | (_ & RT & KT & _)]].
          - intros [].
          - intros [X|[]]. discriminate.
          - cbn in RT, KT. specialize (I2 eq_refl KT). congruence. }
        assert (L2 : live_inv ka cnt s2).
        { split; [|split].
          - intros KT RT dl T. rewrite K2 in KT. rewrite R2 in RT. specialize (I2 eq_refl KT). congruence.
          - intros DD. congruence.
          - intros S2. destruct Cs as [(_ & S2') | [(_ & _ & _ & T2) | (_ & _ & _ & _ & T2)]]; auto.
            cbn in S2'. congruence. }
        destruct (stopped s2) eqn:S2.
        -- injection H as <- <-. auto.
        -- injection H as <- <-. split; [auto|]. apply update_timer_live; auto.
      * injection H as <- <-. split; [intros []|]. apply update_timer_live; auto.
  - (* Timeout *)
    destruct (stopped s) eqn:S; [injection H as <- <-; split; [intros []|exact LI]|].
    destruct (dsp_timeout s) eqn:D; [|injection H as <- <-; split; [intros []|exact LI]].
    destruct (handle_timeout_cases c (clear_dsp s)) as [P | (s2 & o2 & HT & E2 & K2 & R2 & D2 & N2 & Cs)];
      [rewrite P in H; discriminate|].
    rewrite HT in H. injection H as <- <-. cbn in E2, K2, R2, D2, N2. split.
    + destruct Cs as [(-> & _) | [(-> & _) | (_ & RT & KT & _)]].
      * intros [].
      * intros [X|[]]. discriminate.
      * cbn in RT, KT. specialize (I2 eq_refl KT). congruence.
    + split; [|split].
      * intros KT RT dl T. rewrite K2 in KT. rewrite R2 in RT. specialize (I2 eq_refl KT). congruence.
      * intros DD. congruence.
      * intros S2. destruct Cs as [(_ & S2') | [(_ & _ & _ & T2) | (_ & _ & _ & _ & T2)]]; auto.
        cbn in S2'. congruence.
  - (* Halt *)
    injection H as <- <-. split; [intros []|]. split; [|split]; cbn; intros; try congruence. auto.
  - (* Tick *)
    injection H as <- <-. split; [intros []|]. split; [|split]; cbn; auto.
    intros KT RT dl T. specialize (I1 KT RT dl T). lia.
  - (* TimerFired *)
    destruct (timer s) as [dl|] eqn:T.
    + destruct (dl <=? now s) eqn:L.
      * injection H as <- <-. split; [intros []|]. split; [|split]; cbn; intros; try congruence.
        destruct (read_timeout s) eqn:RT; [reflexivity|]. exfalso.
        specialize (I1 H0 eq_refl dl eq_refl). apply N.leb_le in L. lia.
      * injection H as <- <-. split; [intros []|]. exact LI.
    + injection H as <- <-. split; [intros []|]. exact LI.
Qed.

Lemma live_run c ka evs : forall cnt s s' outs,
  cfg_ka c = ka -> ka <> 0 -> cnt < ka -> forallb plain_ev evs = true -> gaps_ok ka cnt evs = true ->
  live_inv ka cnt s -> t_run c s evs = Ok (s', outs) -> ~ In StopKeepAlive outs.
Proof.
  induction evs as [|e r IH]; intros cnt s s' outs CK K0 CL PE G LI H.
  - cbn in H. injection H as <- <-. intros [].
  - cbn [forallb] in PE. apply andb_true_iff in PE as [PE1 PE2].
    rewrite t_run_cons in H.
    destruct (timer_step c s e) as [[s1 o1]| |] eqn:ST; try discriminate.
    destruct (t_run c s1 r) as [[s2 o2]| |] eqn:TR; try discriminate.
    injection H as <- <-.
    destruct (live_step c ka cnt s e s1 o1 CK K0 CL PE1 LI ST) as (N1 & L1).
    intros I. apply in_app_or in I as [I|I]; [auto|].
    revert I. destruct e as [item rm| | | | | |]; cbn [gaps_ok] in G.
    + destruct item.
      * eapply (IH 0); eauto. lia.
      * eapply (IH cnt); eauto.
    + eapply (IH cnt); eauto.
    + eapply (IH cnt); eauto.
    + eapply (IH cnt); eauto.
    + apply andb_true_iff in G as [G1 G2]. apply N.ltb_lt in G1. eapply (IH (cnt + 1)); eauto.
    + eapply (IH cnt); eauto.
    + eapply (IH cnt); eauto.
Qed.

Lemma live_never_timed_out c evs s' outs :
  cfg_ka c <> 0 -> forallb plain_ev evs = true -> gaps_ok (cfg_ka c) 0 evs = true ->
  t_run c (t_init c) evs = Ok (s', outs) -> ~ In StopKeepAlive outs.
Proof.
  intros K0 PE G H.
  eapply (live_run c (cfg_ka c) evs 0 (t_init c)); eauto; [lia|].
  split; [|split]; unfold t_init; cbn; intros; congruence.
Qed.

Lemma live_refuted_not_ready :
  let c := mkTcfg 2 None in
  let evs := [Recv false 0; Tick; Recv true 1; Recv false 1; Tick; TimerFired; Paused] in
  gaps_ok 2 0 evs = true /\ exists s, t_run c (t_init c) evs = Ok (s, [StopKeepAlive]).
Proof. split; [reflexivity|]. eexists. vm_compute. reflexivity. Qed.

(* ---------------------------------------------------------------- C20_slow_frame_times_out / fast_enough_extends *)
Definition expired_read (s : tstate) : Prop :=
  stopped s = false /\ read_timeout s = true /\ dsp_timeout s = true.
Lemma slow_frame_times_out c p s r :
  cfg_rr c = Some p -> expired_read s ->
  read_remains_prev s <= read_remains s ->
  read_remains s - read_remains_prev s <= rr_rate p ->
  exists s1, timer_step c s (Recv false r) = Ok (s1, [StopRead]) /\ stopped s1 = true /\ timer s1 = None.
Proof.
  intros RR (S & R & D) L T. destruct s as [ke kt rt rm rp mx tm dsp nw st]. cbn in *. subst.
  unfold handle_timeout, clear_dsp. cbn. rewrite RR.
  unfold sub_chk. apply N.leb_le in L. rewrite L. cbn [bind].
  assert (X : rr_rate p <? rm - rp = false) by (apply N.ltb_ge; lia).
  rewrite X. cbn. eexists. split; [reflexivity|]. cbn. auto.
Qed.
Definition next_max (p : rr_cfg) (s : tstate) : N :=
  if rr_max p =? 0 then read_max_timeout s else read_max_timeout s - rr_timeout p.

Lemma fast_enough_extends c p s r :
  cfg_rr c = Some p -> expired_read s -> timer s = None ->
  read_remains_prev s <= read_remains s ->
  rr_rate p < read_remains s - read_remains_prev s ->
  (rr_max p = 0 \/ next_max p s <> 0) ->
  exists s1, timer_step c s (Recv false r) = Ok (s1, []) /\ stopped s1 = false /\
    timer s1 = (if rr_timeout p =? 0 then None else Some (now s + rr_timeout p)) /\
    read_remains_prev s1 = read_remains s /\ read_remains s1 = r mod U32 /\
    read_max_timeout s1 = next_max p s /\ read_timeout s1 = true.
Proof.
  intros RR (S & R & D) TN L T M. destruct s as [ke kt rt rm rp mx tm dsp nw st]. unfold next_max in *. cbn in *. subst.
  unfold handle_timeout, clear_dsp. cbn. rewrite RR.
  unfold sub_chk. apply N.leb_le in L. rewrite L. cbn [bind].
  apply N.ltb_lt in T. rewrite T.
  assert (X : (rr_max p =? 0) || negb ((if rr_max p =? 0 then mx else mx - rr_timeout p) =? 0) = true).
  { destruct M as [M | M].
    - rewrite M. reflexivity.
    - destruct (rr_max p =? 0); [reflexivity|]. cbn [orb]. apply negb_true_iff. now apply N.eqb_neq. }
  rewrite X. cbn. unfold update_timer. cbn.
  eexists. split; [reflexivity|]. cbn. repeat split; auto.
Qed.

Lemma max_timeout_exhausted c p s r :
  cfg_rr c = Some p -> expired_read s ->
  read_remains_prev s <= read_remains s ->
  rr_rate p < read_remains s - read_remains_prev s ->
  rr_max p <> 0 -> next_max p s = 0 ->
  exists s1, timer_step c s (Recv false r) = Ok (s1, [StopRead]) /\ stopped s1 = true /\ timer s1 = None.
Proof.
  intros RR (S & R & D) L T M0 M. destruct s as [ke kt rt rm rp mx tm dsp nw st]. unfold next_max in *. cbn in *. subst.
  unfold handle_timeout, clear_dsp. cbn. rewrite RR.
  unfold sub_chk. apply N.leb_le in L. rewrite L. cbn [bind].
  apply N.ltb_lt in T. rewrite T. apply N.eqb_neq in M0. rewrite M0 in *.
  rewrite M. cbn. eexists. split; [reflexivity|]. cbn. auto.
Qed.

(* ---------------------------------------------------------------- C20_no_underflow *)
Definition rd_ok (last : N) (s : tstate) : Prop :=
  read_timeout s = true -> read_remains_prev s <= read_remains s /\ read_remains s <= last.
Definition uf_inv (last : N) (s : tstate) : Prop := stopped s = false -> rd_ok last s.

Lemma handle_timeout_ok c s last :
  rd_ok last s ->
  exists s1 o, handle_timeout c s = Ok (s1, o) /\
    (stopped s1 = false -> read_timeout s1 = true -> read_remains_prev s1 <= last) /\
    dsp_timeout s1 = dsp_timeout s.
Proof.
  intros U. unfold handle_timeout. destruct (read_timeout s) eqn:R.
  - destruct (U R) as [L1 L2].
    destruct (cfg_rr c) as [p|].
    + unfold sub_chk. apply N.leb_le in L1. rewrite L1. cbn [bind]. apply N.leb_le in L1.
      destruct (rr_rate p <? _).
      * destruct (_ || _); eexists _, _; (split; [reflexivity|]); unfold start_timer, set_timer; cbn;
          split; auto; intros; try discriminate; lia.
      * eexists _, _. split; [reflexivity|]. cbn. split; auto. intros; discriminate.
    + eexists _, _. split; [reflexivity|]. split; auto. intros. lia.
  - destruct (ka_timeout s); eexists _, _; (split; [reflexivity|]); cbn; split; auto; intros; congruence.
Qed.

Lemma update_timer_rd c s r last :
  last <= r -> r < U32 ->
  (read_timeout s = true -> read_remains_prev s <= last) ->
  rd_ok r (update_timer c s false r).
Proof.
  intros L B P. unfold update_timer, rd_ok.
  destruct (read_timeout s) eqn:R.
  - cbn. intros _. rewrite N.mod_small by exact B. specialize (P eq_refl). lia.
  - destruct ((read_remains s =? 0) && (r =? 0)).
    + destruct (ka_enabled s && negb (ka_timeout s)); unfold start_timer, set_timer; cbn; congruence.
    + destruct (cfg_rr c) as [p|]; [|congruence].
      unfold start_timer, set_timer. cbn. intros _. rewrite N.mod_small by exact B. lia.
Qed.

Definition next_last (last : N) (e : tevent) : N := match e with Recv _ r => r | _ => last end.
Definition ev_ok (last : N) (e : tevent) : bool :=
  match e with
  | Recv true r => r <? U32
  | Recv false r => (last <=? r) && (r <? U32)
  | _ => true
  end.

Lemma mono_cons last e t : mono last (e :: t) = ev_ok last e && mono (next_last last e) t.
Proof. destruct e as [[|] r| | | | | |]; cbn [mono ev_ok next_last andb]; try reflexivity. Qed.

Lemma step_uf c s e last :
  is_timeout_ev e = false -> ev_ok last e = true -> uf_inv last s ->
  exists s1 o1, timer_step c s e = Ok (s1, o1) /\ uf_inv (next_last last e) s1.
Proof.
  intros NT EO U. destruct e as [item r| | | | | |]; try discriminate NT; cbn [timer_step next_last].
  - destruct (stopped s) eqn:S.
    { eexists _, _. split; [reflexivity|]. intros S'. congruence. }
    specialize (U S). destruct item; cbn [ev_ok] in EO.
    + eexists _, _. split; [reflexivity|]. intros _. unfold update_timer, rd_ok. cbn. congruence.
    + apply andb_true_iff in EO as [L B]. apply N.leb_le in L. apply N.ltb_lt in B.
      destruct (dsp_timeout s) eqn:D.
      * destruct (handle_timeout_ok c (clear_dsp s) last) as (s1 & o & HT & P & _); [exact U|].
        rewrite HT. cbn [bind]. destruct (stopped s1) eqn:S1.
        -- eexists _, _. split; [reflexivity|]. intros S'. congruence.
        -- eexists _, _. split; [reflexivity|]. intros _. apply (update_timer_rd c s1 r last); auto.
      * eexists _, _. split; [reflexivity|]. intros _. apply (update_timer_rd c s r last); auto.
        intros R. destruct (U R). lia.
  - destruct (stopped s) eqn:S.
    + eexists _, _. split; [reflexivity|]. intros S'. congruence.
    + unfold pause. cbn [dsp_timeout]. destruct (dsp_timeout s).
      * eexists _, _. split; [reflexivity|]. intros S'. cbn in S'. discriminate.
      * eexists _, _. split; [reflexivity|]. intros _ R. cbn in R. discriminate.
  - eexists _, _. split; [reflexivity|]. intros S'. cbn in S'. discriminate.
  - eexists _, _. split; [reflexivity|]. intros S' R. cbn in *. exact (U S' R).
  - destruct (timer s) as [dl|]; [destruct (dl <=? now s)|]; eexists _, _; (split; [reflexivity|]);
      intros S' R; cbn in *; exact (U S' R).
  - eexists _, _. split; [reflexivity|]. intros S' R. cbn in *. exact (U S' R).
Qed.

Lemma timeout_paused_uf c s last :
  uf_inv last s ->
  exists s2 o, t_run c s [Timeout; Paused] = Ok (s2, o) /\ forall l, uf_inv l s2.
Proof.
  intros U. cbn [t_run timer_step].
  destruct (stopped s) eqn:S.
  - cbn [bind]. rewrite S. cbn [bind]. eexists _, _. split; [reflexivity|]. intros l S'. congruence.
  - assert (X : exists s1 o1, (if dsp_timeout s then handle_timeout c (clear_dsp s) else Ok (s, [])) = Ok (s1, o1)).
    { destruct (dsp_timeout s); [|eauto].
      destruct (handle_timeout_ok c (clear_dsp s) last) as (s1 & o & HT & _); [exact (U S)|]. eauto. }
    destruct X as (s1 & o1 & ->). cbn [bind].
    destruct (stopped s1) eqn:S1.
    + cbn [bind]. eexists _, _. split; [reflexivity|]. intros l S'. congruence.
    + unfold pause. cbn [dsp_timeout]. destruct (dsp_timeout s1); cbn [bind].
      * eexists _, _. split; [reflexivity|]. intros l S'. cbn in S'. discriminate.
      * eexists _, _. split; [reflexivity|]. intros l _ R. cbn in R. discriminate.
Qed.

Lemma no_underflow_gen c n : forall evs last s,
  (length evs <= n)%nat -> loop_ok evs = true -> mono last evs = true -> uf_inv last s ->
  exists r, t_run c s evs = Ok r.
Proof.
  induction n as [|n IH]; intros evs last s LN LO MO U.
  - destruct evs; [eexists; reflexivity | cbn in LN; lia].
  - destruct evs as [|e r]; [eexists; reflexivity|].
    cbn [length] in LN. apply le_S_n in LN.
    destruct (is_timeout_ev e) eqn:TE.
    + destruct e; try discriminate TE. cbn [loop_ok] in LO.
      destruct r as [|e2 r2]; [discriminate LO|]. destruct e2; try discriminate LO.
      cbn [mono] in MO.
      destruct (timeout_paused_uf c s last U) as (s2 & o & TR & U2).
      assert (LN2 : (length r2 <= n)%nat) by (cbn [length] in LN; lia).
      destruct (IH r2 last s2 LN2 LO MO (U2 last)) as ([s3 o3] & TR3).
      change (Timeout :: Paused :: r2) with ([Timeout; Paused] ++ r2).
      revert TR TR3. generalize [Timeout; Paused]. intros pre TR TR3.
      assert (A : forall a b st, t_run c st (a ++ b) =
                match t_run c st a with
                | Ok (s1, o1) => match t_run c s1 b with Ok (s2, o2) => Ok (s2, o1 ++ o2) | Err x => Err x | Panic x => Panic x end
                | Err x => Err x | Panic x => Panic x end).
      { induction a as [|x a IHa]; intros b st.
        - cbn [app t_run]. destruct (t_run c st b) as [[? ?]| |]; reflexivity.
        - cbn [app]. rewrite !t_run_cons. destruct (timer_step c st x) as [[s1 o1]| |]; [|reflexivity|reflexivity].
          rewrite IHa. destruct (t_run c s1 a) as [[s4 o4]| |]; [|reflexivity|reflexivity].
          destruct (t_run c s4 b) as [[s5 o5]| |]; [|reflexivity|reflexivity]. now rewrite app_assoc. }
      rewrite A, TR, TR3. eauto.
    + rewrite mono_cons in MO. apply andb_true_iff in MO as [EO MO].
      assert (LO' : loop_ok r = true) by (destruct e; try discriminate TE; exact LO).
      destruct (step_uf c s e last TE EO U) as (s1 & o1 & ST & U1).
      destruct (IH r _ s1 LN LO' MO U1) as ([s2 o2] & TR).
      rewrite t_run_cons, ST, TR. eauto.
Qed.

Lemma no_underflow c evs :
  loop_ok evs = true -> mono 0 evs = true -> exists r, t_run c (t_init c) evs = Ok r.
Proof.
  intros LO MO. apply (no_underflow_gen c (length evs) evs 0 (t_init c)); auto.
  intros _ R. unfold t_init in R. cbn in R. discriminate.
Qed.

Lemma no_underflow_refuted_header :
  let c := mkTcfg 0 (Some (mkRr 1 0 0)) in
  let evs := [Recv false 1; Tick; TimerFired; Recv false 1; Recv false 0; Tick; TimerFired; Recv false 0] in
  loop_ok evs = true /\ t_run c (t_init c) evs = Panic PS_sub_overflow.
Proof. split; vm_compute; reflexivity. Qed.

Lemma no_underflow_refuted_backpressure :
  let c := mkTcfg 0 (Some (mkRr 1 0 0)) in
  let evs := [Recv false 3; Tick; TimerFired; Timeout; Tick; TimerFired; Recv false 3] in
  mono 0 evs = true /\ t_run c (t_init c) evs = Panic PS_sub_overflow.
Proof. split; vm_compute; reflexivity. Qed.

(* ---------------------------------------------------------------- C20_keepalive_factor *)
Lemma keepalive_factor ka :
  ka <= U16MAX ->
  ack_keepalive ka = if ka =? 0 then 30 else N.min (ka + ka / 2) 65535.
Proof.
  intros B. unfold ack_keepalive, sat_add16, DEFAULT_KEEPALIVE, U16MAX in *.
  destruct (ka =? 0); [reflexivity|].
  rewrite N.shiftr_div_pow2. change (2 ^ 1) with 2.
  destruct (ka / 2 + ka <=? 65535) eqn:E.
  - apply N.leb_le in E. set (h := ka / 2) in *. rewrite N.min_l by lia. lia.
  - apply N.leb_gt in E. set (h := ka / 2) in *. rewrite N.min_r by lia. reflexivity.
Qed.

Lemma keepalive_factor_bounds ka :
  0 < ka -> ka <= U16MAX -> ka <= ack_keepalive ka <= U16MAX /\ (ka < 43690 -> 2 * ack_keepalive ka + 1 >= 3 * ka).
Proof.
  intros P B. rewrite keepalive_factor by exact B. unfold U16MAX in *.
  assert (Z : ka =? 0 = false) by (apply N.eqb_neq; lia). rewrite Z.
  pose proof (N.div_mod ka 2 ltac:(lia)) as DM.
  pose proof (N.mod_upper_bound ka 2 ltac:(lia)) as MB.
  set (h := ka / 2) in *. set (m := ka mod 2) in *.
  split.
  - split; [apply N.min_glb; lia | apply N.le_min_r].
  - intros L. rewrite N.min_l by lia. lia.
Qed.

(* ---------------------------------------------------------------- connect timeout *)
Lemma connect_times_out ct : forall w rest,
  ct <> 0 -> w < ct ->
  connect_phase ct w (repeat CTick (N.to_nat (ct - w)) ++ rest) = Some CDropped.
Proof.
  intros w rest NZ. remember (N.to_nat (ct - w)) as n eqn:En. revert w En.
  induction n as [|n IH]; intros w En L.
  - lia.
  - cbn [repeat app connect_phase].
    assert (Z : ct =? 0 = false) by now apply N.eqb_neq. rewrite Z. cbn [negb andb].
    destruct (ct <=? w + 1) eqn:E; [reflexivity|].
    apply N.leb_gt in E. apply IH; lia.
Qed.

Lemma connect_no_early_drop ct : forall n w,
  (ct = 0 \/ w + N.of_nat n < ct) -> connect_phase ct w (repeat CTick n ++ [CConnect]) = Some CAccepted.
Proof.
  induction n as [|n IH]; intros w H.
  - reflexivity.
  - cbn [repeat app connect_phase].
    assert (E : negb (ct =? 0) && (ct <=? w + 1) = false).
    { destruct H as [-> | H]; [reflexivity|]. apply andb_false_iff. right. apply N.leb_gt. lia. }
    rewrite E. apply IH. destruct H; [auto|right; lia].
Qed.

(* ---------------------------------------------------------------- client keep-alive loop *)
Lemma ping_cadence ka : 0 < ka -> forall n j,
  j < ka ->
  k_run ka (mkK true true j) (repeat KTick n) =
  (mkK true true ((j + N.of_nat n) mod ka), map (fun i => (j + N.of_nat i + 1) mod ka =? 0) (seq 0 n)).
Proof.
  intros P. induction n as [|n IH]; intros j L.
  - cbn. rewrite N.add_0_r, N.mod_small by exact L. reflexivity.
  - cbn [repeat k_run k_step k_running k_open k_slept].
    destruct (j + 1 <? ka) eqn:E.
    + apply N.ltb_lt in E. rewrite (IH (j + 1) E). f_equal.
      * f_equal. f_equal. lia.
      * cbn [seq map]. f_equal.
        -- cbn. rewrite N.add_0_r, N.mod_small by exact E. symmetry. apply N.eqb_neq. lia.
        -- rewrite <- seq_shift, map_map. apply map_ext. intros i. f_equal. f_equal. lia.
    + apply N.ltb_ge in E. assert (J : j + 1 = ka) by lia.
      rewrite (IH 0 P). f_equal.
      * f_equal. rewrite N.add_0_l.
        replace (j + N.of_nat (S n)) with (N.of_nat n + 1 * ka) by lia.
        rewrite N.mod_add by lia. reflexivity.
      * cbn [seq map]. f_equal.
        -- cbn. rewrite N.add_0_r, J, N.mod_same by lia. reflexivity.
        -- rewrite <- seq_shift, map_map. apply map_ext. intros i. f_equal.
           replace (j + N.of_nat (S i) + 1) with (0 + N.of_nat i + 1 + 1 * ka) by lia.
           rewrite N.mod_add by lia. reflexivity.
Qed.

Lemma client_ping_cadence ka n :
  0 < ka ->
  snd (k_run ka (k_init ka) (repeat KTick n)) = map (fun i => (N.of_nat i + 1) mod ka =? 0) (seq 0 n).
Proof.
  intros P. unfold k_init. assert (Z : ka =? 0 = false) by (apply N.eqb_neq; lia). rewrite Z. cbn [negb].
  rewrite (ping_cadence ka P n 0 P). cbn [snd]. apply map_ext. intros i. now rewrite N.add_0_l.
Qed.

Lemma closed_never_pings ka : forall evs s,
  k_open s = false -> Forall (fun p => p = false) (snd (k_run ka s evs)).
Proof.
  induction evs as [|e r IH]; intros s O; [constructor|].
  cbn [k_run]. destruct e; cbn [k_step].
  - destruct (k_running s).
    + destruct (k_slept s + 1 <? ka).
      * specialize (IH (mkK true (k_open s) (k_slept s + 1)) O).
        destruct (k_run ka _ r). cbn [snd] in *. constructor; auto.
      * rewrite O. specialize (IH (mkK false false 0) eq_refl).
        destruct (k_run ka _ r). cbn [snd] in *. constructor; auto.
    + specialize (IH s O). destruct (k_run ka s r). cbn [snd] in *. constructor; auto.
  - specialize (IH (mkK (k_running s) false (k_slept s)) eq_refl).
    destruct (k_run ka _ r). cbn [snd] in *. constructor; auto.
Qed.

Lemma no_keepalive_no_ping evs : Forall (fun p => p = false) (snd (k_run 0 (k_init 0) evs)).
Proof.
  unfold k_init. change (0 =? 0) with true. cbn [negb].
  assert (G : forall evs s, k_running s = false -> Forall (fun p => p = false) (snd (k_run 0 s evs))).
  { induction evs0 as [|e r IH]; intros s R; [constructor|].
    cbn [k_run]. destruct e; cbn [k_step]; rewrite ?R.
    - specialize (IH s R). destruct (k_run 0 s r). cbn [snd] in *. constructor; auto.
    - specialize (IH (mkK false false (k_slept s)) eq_refl).
      destruct (k_run 0 _ r). cbn [snd] in *. constructor; auto. }
  apply G. reflexivity.
Qed.

(* ---------------------------------------------------------------- tie to the handshake model *)
(* Model/Handshake.v (validated against the real Handshake::ack by engine "hs") computes the same value *)
From MV Require Model.Handshake.
Lemma ack_keepalive_is_handshake_model ka : ack_keepalive ka = Handshake.keepalive_of ka.
Proof.
  unfold ack_keepalive, Handshake.keepalive_of, sat_add16, Handshake.sat_add16, DEFAULT_KEEPALIVE,
    Handshake.DEFAULT_KEEPALIVE, U16MAX, Handshake.U16MAX.
  destruct (ka =? 0); [reflexivity|].
  rewrite N.shiftr_div_pow2. change (2 ^ 1) with 2. set (h := ka / 2).
  destruct (h + ka <=? 65535) eqn:E.
  - apply N.leb_le in E. rewrite N.min_r by lia. reflexivity.
  - apply N.leb_gt in E. rewrite N.min_l by lia. reflexivity.
Qed.
