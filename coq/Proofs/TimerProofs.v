(* Proofs/TimerProofs.v -- lemmas about Model/Timer.v for property C20. *)
From Coq Require Import ZArith.
From MV Require Import Base.Prelude Base.Res Model.Timer.

(* ---------------------------------------------------------------- generalities *)
Lemma t_run_cons c s e r :
  t_run c s (e :: r) =
  match timer_step c s e with
  | Ok (s1, o1) => match t_run c s1 r with Ok (s2, o2) => Ok (s2, o1 ++ o2) | Err x => Err x | Panic x => Panic x end
  | Err x => Err x
  | Panic x => Panic x
  end.
Proof.
  cbn [t_run]. destruct (timer_step c s e) as [[s1 o1]| |]; cbn [bind]; [|reflexivity|reflexivity].
  destruct (t_run c s1 r) as [[s2 o2]| |]; reflexivity.
Qed.

Lemma t_run_app c s a b :
  t_run c s (a ++ b) =
  match t_run c s a with
  | Ok (s1, o1) => match t_run c s1 b with Ok (s2, o2) => Ok (s2, o1 ++ o2) | Err x => Err x | Panic x => Panic x end
  | Err x => Err x
  | Panic x => Panic x
  end.
Proof.
  revert s; induction a as [|e a IH]; intros s.
  - cbn [app t_run]. destruct (t_run c s b) as [[s2 o2]| |]; reflexivity.
  - cbn [app]. rewrite !t_run_cons. destruct (timer_step c s e) as [[s1 o1]| |]; [|reflexivity|reflexivity].
    rewrite IH. destruct (t_run c s1 a) as [[s2 o2]| |]; [|reflexivity|reflexivity].
    destruct (t_run c s2 b) as [[s3 o3]| |]; [|reflexivity|reflexivity]. now rewrite app_assoc.
Qed.

(* what handle_timeout can do *)
Lemma handle_timeout_cases c s :
  handle_timeout c s = Panic PS_sub_overflow \/
  exists s1 o, handle_timeout c s = Ok (s1, o) /\
    ka_enabled s1 = ka_enabled s /\ ka_timeout s1 = ka_timeout s /\ read_timeout s1 = read_timeout s /\
    dsp_timeout s1 = dsp_timeout s /\ now s1 = now s /\
    ( (o = [] /\ stopped s1 = stopped s)
      \/ (o = [StopRead] /\ read_timeout s = true /\ stopped s1 = true /\ timer s1 = None)
      \/ (o = [StopKeepAlive] /\ read_timeout s = false /\ ka_timeout s = true /\ stopped s1 = true /\
          timer s1 = None) ).
Proof.
  unfold handle_timeout.
  destruct (read_timeout s) eqn:RT.
  - destruct (cfg_rr c) as [p|].
    + unfold sub_chk. destruct (read_remains_prev s <=? read_remains s); [|left; reflexivity].
      cbn [bind]. right.
      destruct (rr_rate p <? read_remains s - read_remains_prev s).
      * destruct ((rr_max p =? 0) || negb _) eqn:E.
        -- eexists _, _. split; [reflexivity|]. unfold start_timer, set_timer. cbn.
           repeat split; auto.
        -- eexists _, _. split; [reflexivity|]. cbn. repeat split; auto. right. left. auto.
      * eexists _, _. split; [reflexivity|]. cbn. repeat split; auto. right. left. auto.
    + right. eexists _, _. split; [reflexivity|]. repeat split; auto.
  - right. destruct (ka_timeout s) eqn:KT.
    + eexists _, _. split; [reflexivity|]. cbn. repeat split; auto. right. right. auto.
    + eexists _, _. split; [reflexivity|]. repeat split; auto.
Qed.

(* ---------------------------------------------------------------- C20_ka_zero_disables *)
Definition not_paused (e : tevent) : bool := negb (is_paused e).
Definition not_inject (e : tevent) : bool := negb (is_inject e).

Lemma update_timer_ka_off c s item r :
  ka_enabled s = false -> ka_timeout s = false ->
  ka_enabled (update_timer c s item r) = false /\ ka_timeout (update_timer c s item r) = false.
Proof.
  intros E K. unfold update_timer.
  destruct item; [cbn; auto|].
  destruct (read_timeout s); [cbn; auto|].
  destruct ((read_remains s =? 0) && (r =? 0)).
  - rewrite E. cbn. auto.
  - destruct (cfg_rr c); [unfold start_timer, set_timer; cbn; auto | auto].
Qed.

Lemma ka_off_step c s e s1 o :
  ka_enabled s = false -> ka_timeout s = false -> is_paused e = false ->
  timer_step c s e = Ok (s1, o) ->
  ka_enabled s1 = false /\ ka_timeout s1 = false /\ ~ In StopKeepAlive o.
Proof.
  intros E K NP H. destruct e; cbn [timer_step] in H; try discriminate NP.
  - (* Recv *)
    destruct (stopped s); [injection H as <- <-; auto|].
    destruct item.
    + injection H as <- <-. destruct (update_timer_ka_off c s true remains E K). auto.
    + destruct (dsp_timeout s).
      * destruct (handle_timeout_cases c (clear_dsp s)) as [P | (s2 & o2 & HT & E2 & K2 & R2 & _ & _ & Cs)];
          [rewrite P in H; discriminate|].
        rewrite HT in H. cbn [bind] in H. cbn in E2, K2.
        assert (NK : ~ In StopKeepAlive o2).
        { destruct Cs as [(-> & _) | [(-> & _) | (_ & _ & KT & _)]].
          - intros [].
          - intros [X|[]]. discriminate.
          - cbn in KT. congruence. }
        destruct (stopped s2).
        -- injection H as <- <-. rewrite E2, K2. auto.
        -- injection H as <- <-.
           destruct (update_timer_ka_off c s2 false remains) as [A B]; [congruence | congruence |]. auto.
      * injection H as <- <-. destruct (update_timer_ka_off c s false remains E K). auto.
  - (* Timeout *)
    destruct (stopped s); [injection H as <- <-; auto|].
    destruct (dsp_timeout s); [|injection H as <- <-; auto].
    destruct (handle_timeout_cases c (clear_dsp s)) as [P | (s2 & o2 & HT & E2 & K2 & R2 & _ & _ & Cs)];
      [rewrite P in H; discriminate|].
    rewrite HT in H. injection H as <- <-. cbn in E2, K2. rewrite E2, K2. repeat split; auto.
    destruct Cs as [(-> & _) | [(-> & _) | (_ & _ & KT & _)]].
    + intros [].
    + intros [X|[]]. discriminate.
    + cbn in KT. congruence.
  - injection H as <- <-. cbn. auto.
  - injection H as <- <-. cbn. auto.
  - destruct (timer s) as [dl|]; [destruct (dl <=? now s)|]; injection H as <- <-; cbn; auto.
  - injection H as <- <-. cbn. auto.
Qed.

Lemma ka_zero_no_pause c evs : forall s s' outs,
  ka_enabled s = false -> ka_timeout s = false ->
  forallb not_paused evs = true ->
  t_run c s evs = Ok (s', outs) -> ~ In StopKeepAlive outs.
Proof.
  induction evs as [|e r IH]; intros s s' outs E K NP H.
  - cbn in H. injection H as <- <-. intros [].
  - cbn [forallb] in NP. apply andb_true_iff in NP as [NP1 NP2].
    rewrite t_run_cons in H.
    destruct (timer_step c s e) as [[s1 o1]| |] eqn:ST; try discriminate.
    destruct (t_run c s1 r) as [[s2 o2]| |] eqn:TR; try discriminate.
    injection H as <- <-.
    unfold not_paused in NP1. apply negb_true_iff in NP1.
    destruct (ka_off_step c s e s1 o1 E K NP1 ST) as (E1 & K1 & N1).
    intros I. apply in_app_or in I as [I|I]; [auto|].
    exact (IH s1 s2 o2 E1 K1 NP2 TR I).
Qed.

(* without keep-alive and without the read-rate rule no timer is ever armed *)
Definition quiet_state (s : tstate) : Prop :=
  ka_enabled s = false /\ ka_timeout s = false /\ read_timeout s = false /\ timer s = None /\
  dsp_timeout s = false.

Lemma quiet_step c s e s1 o :
  cfg_rr c = None -> quiet_state s -> is_inject e = false ->
  timer_step c s e = Ok (s1, o) -> quiet_state s1 /\ o = [].
Proof.
  intros RR (E & K & R & T & D) NI H. unfold quiet_state.
  destruct e; cbn [timer_step] in H; try discriminate NI.
  - destruct (stopped s); [injection H as <- <-; auto 10|].
    destruct item.
    + injection H as <- <-. unfold update_timer. cbn. auto 10.
    + rewrite D in H. injection H as <- <-. unfold update_timer. rewrite R, E, RR.
      destruct ((read_remains s =? 0) && (remains =? 0)); cbn; auto 10.
  - destruct (stopped s); [injection H as <- <-; auto 10|]. rewrite D in H. injection H as <- <-. auto 10.
  - destruct (stopped s); [injection H as <- <-; auto 10|]. unfold pause in H. cbn in H. rewrite D in H.
    injection H as <- <-. cbn. auto 10.
  - injection H as <- <-. cbn. auto 10.
  - injection H as <- <-. cbn. auto 10.
  - rewrite T in H. injection H as <- <-. auto 10.
Qed.

Lemma ka_zero_no_rr c evs : forall s s' outs,
  cfg_rr c = None -> quiet_state s -> forallb not_inject evs = true ->
  t_run c s evs = Ok (s', outs) -> outs = [].
Proof.
  induction evs as [|e r IH]; intros s s' outs RR Q NI H.
  - cbn in H. now injection H as <- <-.
  - cbn [forallb] in NI. apply andb_true_iff in NI as [NI1 NI2].
    rewrite t_run_cons in H.
    destruct (timer_step c s e) as [[s1 o1]| |] eqn:ST; try discriminate.
    destruct (t_run c s1 r) as [[s2 o2]| |] eqn:TR; try discriminate.
    injection H as <- <-. unfold not_inject in NI1. apply negb_true_iff in NI1.
    destruct (quiet_step c s e s1 o1 RR Q NI1 ST) as (Q1 & ->).
    now rewrite (IH s1 s2 o2 RR Q1 NI2 TR).
Qed.

Lemma ka_zero_disables c evs s' outs :
  cfg_ka c = 0 ->
  (forallb not_paused evs = true \/ (cfg_rr c = None /\ forallb not_inject evs = true)) ->
  t_run c (t_init c) evs = Ok (s', outs) -> ~ In StopKeepAlive outs.
Proof.
  intros K0 [NP | (RR & NI)] H.
  - eapply (ka_zero_no_pause c evs (t_init c)); eauto; unfold t_init; cbn; now rewrite K0.
  - assert (Q : quiet_state (t_init c)) by (unfold quiet_state, t_init; cbn; rewrite K0; auto).
    rewrite (ka_zero_no_rr c evs _ _ _ RR Q NI H). intros [].
Qed.

Lemma ka_zero_disables_refuted :
  let c := mkTcfg 0 (Some (mkRr 1 0 0)) in
  exists s, t_run c (t_init c) [Recv false 1; Tick; TimerFired; Paused] = Ok (s, [StopKeepAlive]).
Proof. eexists. vm_compute. reflexivity. Qed.

(* ---------------------------------------------------------------- C20_idle_times_out *)
Definition idle_ev (e : tevent) : bool :=
  match e with Tick => true | Recv false _ => true | _ => false end.
Definition is_tick (e : tevent) : bool := match e with Tick => true | _ => false end.
Definition ticks (evs : list tevent) : N := N.of_nat (length (filter is_tick evs)).

Definition armed (s : tstate) (dl : N) : Prop :=
  stopped s = false /\ ka_timeout s = true /\ read_timeout s = false /\ dsp_timeout s = false /\
  timer s = Some dl.

Lemma idle_step c s dl e :
  cfg_rr c = None -> armed s dl -> idle_ev e = true ->
  exists s1, timer_step c s e = Ok (s1, []) /\ armed s1 dl /\
             now s1 = now s + (if is_tick e then 1 else 0).
Proof.
  intros RR (S & K & R & D & T) I. destruct e; try discriminate I.
  - destruct item; [discriminate I|]. cbn [timer_step]. rewrite S, D.
    exists s. unfold update_timer. rewrite R, K, RR, andb_false_r.
    destruct ((read_remains s =? 0) && (remains =? 0)); cbn [is_tick]; rewrite N.add_0_r;
      repeat split; auto.
  - eexists. cbn [timer_step]. split; [reflexivity|]. unfold armed. cbn. repeat split; auto.
Qed.

Lemma idle_run c evs : forall s dl,
  cfg_rr c = None -> armed s dl -> forallb idle_ev evs = true ->
  exists s1, t_run c s evs = Ok (s1, []) /\ armed s1 dl /\ now s1 = now s + ticks evs.
Proof.
  induction evs as [|e r IH]; intros s dl RR A I.
  - exists s. cbn. unfold ticks. cbn. rewrite N.add_0_r. auto.
  - cbn [forallb] in I. apply andb_true_iff in I as [I1 I2].
    destruct (idle_step c s dl e RR A I1) as (s1 & ST & A1 & N1).
    destruct (IH s1 dl RR A1 I2) as (s2 & TR & A2 & N2).
    exists s2. rewrite t_run_cons, ST, TR. cbn [app]. repeat split; auto.
    rewrite N2, N1. unfold ticks. cbn [filter]. destruct (is_tick e); cbn [length]; lia.
Qed.

Lemma armed_fires c s dl r :
  armed s dl -> dl <= now s ->
  exists s2, t_run c s [TimerFired; Recv false r] = Ok (s2, [StopKeepAlive]) /\ stopped s2 = true /\
             timer s2 = None.
Proof.
  intros (S & K & R & D & T) L.
  cbn [t_run timer_step]. rewrite T. apply N.leb_le in L. rewrite L. cbn [bind].
  cbn [stopped dsp_timeout]. rewrite S.
  unfold handle_timeout, clear_dsp. cbn [read_timeout ka_timeout]. rewrite R, K. cbn [bind halt stopped].
  eexists. split; [reflexivity|]. cbn. auto.
Qed.

Lemma idle_times_out c s dl evs :
  cfg_rr c = None -> armed s dl -> forallb idle_ev evs = true ->
  exists s1, t_run c s evs = Ok (s1, []) /\ timer s1 = Some dl /\ now s1 = now s + ticks evs /\
    (dl <= now s1 -> forall r, exists s2,
       t_run c s1 [TimerFired; Recv false r] = Ok (s2, [StopKeepAlive]) /\ stopped s2 = true /\ timer s2 = None).
Proof.
  intros RR A I. destruct (idle_run c evs s dl RR A I) as (s1 & TR & A1 & N1).
  exists s1. repeat split; auto.
  - now destruct A1 as (_ & _ & _ & _ & T).
  - intros L r. now apply armed_fires.
Qed.

(* the first poll of an idle connection with keep-alive arms the timer *)
Lemma init_arms c : cfg_ka c <> 0 ->
  exists s, t_run c (t_init c) [Recv false 0] = Ok (s, []) /\ armed s (cfg_ka c).
Proof.
  intros K. apply N.eqb_neq in K.
  cbn [t_run timer_step t_init stopped dsp_timeout bind].
  unfold update_timer. cbn [read_timeout read_remains ka_enabled ka_timeout].
  rewrite K. cbn [negb andb N.eqb]. rewrite N.eqb_refl. cbn [andb negb].
  unfold start_timer, set_timer. cbn. rewrite K.
  eexists. split; [reflexivity|]. unfold armed. cbn. repeat split; auto.
Qed.

(* a frame followed in the same read by the first byte of the next one clears KA_TIMEOUT and leaves
   nothing that would set it again: with the read-rate rule off the connection can stay idle forever *)
Definition silence (e : tevent) : bool :=
  match e with Tick | TimerFired => true | Recv false 1 => true | _ => false end.

Definition unarmed (s : tstate) : Prop :=
  stopped s = false /\ ka_timeout s = false /\ read_timeout s = false /\ read_remains s = 0.

Lemma silence_step c s e :
  cfg_rr c = None -> unarmed s -> silence e = true ->
  exists s1, timer_step c s e = Ok (s1, []) /\ unarmed s1.
Proof.
  intros RR (S & K & R & RM) Q. unfold unarmed.
  destruct e as [item r| | | | | |]; try discriminate Q.
  - destruct item; [discriminate Q|].
    destruct r as [|[| |]]; try discriminate Q.
    cbn [timer_step]. rewrite S.
    assert (U : forall t, stopped t = false -> ka_timeout t = false -> read_timeout t = false ->
                          read_remains t = 0 -> update_timer c t false 1 = t).
    { intros t _ _ R' RM'. unfold update_timer. rewrite R', RM', RR. reflexivity. }
    destruct (dsp_timeout s) eqn:D.
    + unfold handle_timeout, clear_dsp. cbn [read_timeout ka_timeout]. rewrite R, K. cbn [bind stopped].
      rewrite S. rewrite U; cbn; auto. eexists. split; [reflexivity|]. cbn. auto.
    + rewrite U; auto. eexists. split; [reflexivity|]. auto.
  - eexists. cbn [timer_step]. split; [reflexivity|]. cbn. auto.
  - cbn [timer_step]. destruct (timer s) as [dl|]; [destruct (dl <=? now s)|];
      eexists; (split; [reflexivity|]); cbn; auto.
Qed.

Lemma silence_run c evs : forall s,
  cfg_rr c = None -> unarmed s -> forallb silence evs = true ->
  exists s1, t_run c s evs = Ok (s1, []) /\ unarmed s1.
Proof.
  induction evs as [|e r IH]; intros s RR U Q.
  - exists s. cbn. auto.
  - cbn [forallb] in Q. apply andb_true_iff in Q as [Q1 Q2].
    destruct (silence_step c s e RR U Q1) as (s1 & ST & U1).
    destruct (IH s1 RR U1 Q2) as (s2 & TR & U2).
    exists s2. rewrite t_run_cons, ST, TR. auto.
Qed.

Lemma idle_partial_never_times_out ka evs :
  ka <> 0 -> forallb silence evs = true ->
  let c := mkTcfg ka None in
  exists s, t_run c (t_init c) ([Recv false 0; Recv true 1; Recv false 1] ++ evs) = Ok (s, []) /\
            stopped s = false.
Proof.
  intros K Q c.
  assert (P : exists s0, t_run c (t_init c) [Recv false 0; Recv true 1; Recv false 1] = Ok (s0, []) /\ unarmed s0).
  { apply N.eqb_neq in K. unfold c.
    cbn [t_run timer_step t_init stopped dsp_timeout bind cfg_ka].
    unfold update_timer at 1. cbn [read_timeout read_remains ka_enabled ka_timeout].
    rewrite K. cbn [negb andb]. rewrite N.eqb_refl. cbn [andb negb].
    unfold start_timer, set_timer. cbn [cfg_ka now stopped ka_enabled ka_timeout read_timeout read_remains
      read_remains_prev read_max_timeout timer dsp_timeout]. rewrite K.
    cbn [stopped dsp_timeout bind]. unfold update_timer at 1.
    cbn [stopped dsp_timeout bind].
    unfold update_timer. cbn [read_timeout read_remains cfg_rr]. cbn.
    eexists. split; [reflexivity|]. unfold unarmed. cbn. auto. }
  destruct P as (s0 & TR0 & U0).
  destruct (silence_run c evs s0 eq_refl U0 Q) as (s1 & TR1 & U1).
  exists s1. rewrite t_run_app, TR0, TR1. split; [reflexivity|]. now destruct U1.
Qed.

(* ---------------------------------------------------------------- C20_live_never_timed_out *)
Definition live_inv (ka cnt : N) (s : tstate) : Prop :=
  (ka_timeout s = true -> read_timeout s = false -> forall dl, timer s = Some dl -> now s + ka <= dl + cnt) /\
  (dsp_timeout s = true -> ka_timeout s = true -> read_timeout s = true).

Definition plain_ev (e : tevent) : bool := negb (is_paused e) && negb (is_inject e).

Lemma update_timer_live c ka cnt s r :
  cfg_ka c = ka -> ka <> 0 -> dsp_timeout s = false ->
  live_inv ka cnt s -> live_inv ka cnt (update_timer c s false r).
Proof.
  intros CK K0 D (I1 & I2). unfold update_timer.
  destruct (read_timeout s) eqn:R.
  - split; cbn; intros; try congruence.
  - destruct ((read_remains s =? 0) && (r =? 0)).
    + destruct (ka_enabled s && negb (ka_timeout s)) eqn:E.
      * unfold start_timer, set_timer. cbn. rewrite CK. apply N.eqb_neq in K0. rewrite K0.
        split; cbn; intros; try congruence. injection H1 as <-. lia.
      * split; auto.
    + destruct (cfg_rr c) as [p|].
      * unfold start_timer, set_timer. split; cbn; intros; congruence.
      * split; auto.
Qed.

Lemma live_step c ka cnt s e s1 o :
  cfg_ka c = ka -> ka <> 0 -> cnt < ka -> plain_ev e = true ->
  live_inv ka cnt s -> timer_step c s e = Ok (s1, o) ->
  ~ In StopKeepAlive o /\
  live_inv ka (match e with Tick => cnt + 1 | Recv true _ => 0 | _ => cnt end) s1.
Proof.
  intros CK K0 CL PE (I1 & I2) H.
  destruct e; cbn [timer_step] in H; try discriminate PE.
  - (* Recv *)
    destruct (stopped s) eqn:S.
    { injection H as <- <-. split; [intros []|]. destruct item; split; auto.
      intros KT RT dl T. specialize (I1 KT RT dl T). lia. }
    destruct item.
    + injection H as <- <-. split; [intros []|]. unfold update_timer. split; cbn; intros; congruence.
    + destruct (dsp_timeout s) eqn:D.
      * destruct (handle_timeout_cases c (clear_dsp s)) as [P | (s2 & o2 & HT & E2 & K2 & R2 & D2 & N2 & Cs)];
          [rewrite P in H; discriminate|].
        rewrite HT in H. cbn [bind] in H. cbn in E2, K2, R2, D2, N2.
        assert (NK : ~ In StopKeepAlive o2).
        { destruct Cs as [(-> & _) | [(-> & _) | (_ & RT & KT & _)]].
          - intros [].
          - intros [X|[]]. discriminate.
          - cbn in RT, KT. specialize (I2 eq_refl KT). congruence. }
        assert (L2 : live_inv ka cnt s2).
        { split.
          - intros KT RT dl T. rewrite K2 in KT. rewrite R2 in RT. specialize (I2 eq_refl KT). congruence.
          - intros DD. congruence. }
        destruct (stopped s2).
        -- injection H as <- <-. auto.
        -- injection H as <- <-. split; [auto|]. apply update_timer_live; auto.
      * injection H as <- <-. split; [intros []|]. apply update_timer_live; auto. split; auto.
  - (* Timeout *)
    destruct (stopped s); [injection H as <- <-; split; [intros []|split; auto]|].
    destruct (dsp_timeout s) eqn:D; [|injection H as <- <-; split; [intros []|split; auto]].
    destruct (handle_timeout_cases c (clear_dsp s)) as [P | (s2 & o2 & HT & E2 & K2 & R2 & D2 & N2 & Cs)];
      [rewrite P in H; discriminate|].
    rewrite HT in H. injection H as <- <-. cbn in E2, K2, R2, D2, N2. split.
    + destruct Cs as [(-> & _) | [(-> & _) | (_ & RT & KT & _)]].
      * intros [].
      * intros [X|[]]. discriminate.
      * cbn in RT, KT. specialize (I2 eq_refl KT). congruence.
    + split.
      * intros KT RT dl T. rewrite K2 in KT. rewrite R2 in RT. specialize (I2 eq_refl KT). congruence.
      * intros DD. congruence.
  - (* Halt *)
    injection H as <- <-. split; [intros []|]. split; cbn; intros; try congruence. auto.
  - (* Tick *)
    injection H as <- <-. split; [intros []|]. split; cbn; auto.
    intros KT RT dl T. specialize (I1 KT RT dl T). lia.
  - (* TimerFired *)
    destruct (timer s) as [dl|] eqn:T.
    + destruct (dl <=? now s) eqn:L.
      * injection H as <- <-. split; [intros []|]. split; cbn; intros; try congruence.
        destruct (read_timeout s) eqn:RT; [reflexivity|]. exfalso.
        specialize (I1 H0 eq_refl dl eq_refl). apply N.leb_le in L. lia.
      * injection H as <- <-. split; [intros []|]. split; auto.
    + injection H as <- <-. split; [intros []|]. split; auto.
Qed.

Lemma live_run c ka evs : forall cnt s s' outs,
  cfg_ka c = ka -> ka <> 0 -> cnt < ka -> forallb plain_ev evs = true -> gaps_ok ka cnt evs = true ->
  live_inv ka cnt s -> t_run c s evs = Ok (s', outs) -> ~ In StopKeepAlive outs.
Proof.
  induction evs as [|e r IH]; intros cnt s s' outs CK K0 CL PE G LI H.
  - cbn in H. injection H as <- <-. intros [].
  - cbn [forallb] in PE. apply andb_true_iff in PE as [PE1 PE2].
    rewrite t_run_cons in H.
    destruct (timer_step c s e) as [[s1 o1]| |] eqn:ST; try discriminate.
    destruct (t_run c s1 r) as [[s2 o2]| |] eqn:TR; try discriminate.
    injection H as <- <-.
    destruct (live_step c ka cnt s e s1 o1 CK K0 CL PE1 LI ST) as (N1 & L1).
    intros I. apply in_app_or in I as [I|I]; [auto|].
    revert I. destruct e as [item rm| | | | | |]; cbn [gaps_ok] in G.
    + destruct item.
      * eapply (IH 0); eauto. lia.
      * eapply (IH cnt); eauto.
    + eapply (IH cnt); eauto.
    + eapply (IH cnt); eauto.
    + eapply (IH cnt); eauto.
    + apply andb_true_iff in G as [G1 G2]. apply N.ltb_lt in G1. eapply (IH (cnt + 1)); eauto.
    + eapply (IH cnt); eauto.
    + eapply (IH cnt); eauto.
Qed.

Lemma live_never_timed_out c evs s' outs :
  cfg_ka c <> 0 -> forallb plain_ev evs = true -> gaps_ok (cfg_ka c) 0 evs = true ->
  t_run c (t_init c) evs = Ok (s', outs) -> ~ In StopKeepAlive outs.
Proof.
  intros K0 PE G H.
  eapply (live_run c (cfg_ka c) evs 0 (t_init c)); eauto; [lia|].
  split; unfold t_init; cbn; intros; congruence.
Qed.

Lemma live_refuted_not_ready :
  let c := mkTcfg 2 None in
  let evs := [Recv false 0; Tick; Recv true 1; Recv false 1; Tick; TimerFired; Paused] in
  gaps_ok 2 0 evs = true /\ exists s, t_run c (t_init c) evs = Ok (s, [StopKeepAlive]).
Proof. split; [reflexivity|]. eexists. vm_compute. reflexivity. Qed.

(* ---------------------------------------------------------------- C20_slow_frame_times_out / fast_enough_extends *)
Definition expired_read (s : tstate) : Prop :=
  stopped s = false /\ read_timeout s = true /\ dsp_timeout s = true.

Lemma slow_frame_times_out c p s r :
  cfg_rr c = Some p -> expired_read s ->
  read_remains_prev s <= read_remains s ->
  read_remains s - read_remains_prev s <= rr_rate p ->
  exists s1, timer_step c s (Recv false r) = Ok (s1, [StopRead]) /\ stopped s1 = true /\ timer s1 = None.
Proof.
  intros RR (S & R & D) L T. cbn [timer_step]. rewrite S, D.
  unfold handle_timeout, clear_dsp. cbn [read_timeout read_remains read_remains_prev]. rewrite R, RR.
  unfold sub_chk. apply N.leb_le in L. rewrite L. cbn [bind].
  assert (X : rr_rate p <? read_remains s - read_remains_prev s = false) by (apply N.ltb_ge; lia).
  rewrite X. cbn [bind halt stopped]. eexists. split; [reflexivity|]. cbn. auto.
Qed.

Definition next_max (p : rr_cfg) (s : tstate) : N :=
  if rr_max p =? 0 then read_max_timeout s else read_max_timeout s - rr_timeout p.

Lemma fast_enough_extends c p s r :
  cfg_rr c = Some p -> expired_read s ->
  read_remains_prev s <= read_remains s ->
  rr_rate p < read_remains s - read_remains_prev s ->
  (rr_max p = 0 \/ next_max p s <> 0) ->
  exists s1, timer_step c s (Recv false r) = Ok (s1, []) /\ stopped s1 = false /\
    timer s1 = (if rr_timeout p =? 0 then None else Some (now s + rr_timeout p)) /\
    read_remains_prev s1 = read_remains s /\ read_remains s1 = r mod U32 /\
    read_max_timeout s1 = next_max p s /\ read_timeout s1 = true.
Proof.
  intros RR (S & R & D) L T M. cbn [timer_step]. rewrite S, D.
  unfold handle_timeout, clear_dsp. cbn [read_timeout read_remains read_remains_prev read_max_timeout].
  rewrite R, RR. unfold sub_chk. apply N.leb_le in L. rewrite L. cbn [bind].
  apply N.ltb_lt in T. rewrite T.
  assert (X : (rr_max p =? 0) || negb ((if rr_max p =? 0 then read_max_timeout s else read_max_timeout s - rr_timeout p) =? 0) = true).
  { unfold next_max in M. destruct M as [M | M].
    - rewrite M. reflexivity.
    - destruct (rr_max p =? 0); [reflexivity|]. cbn [orb]. apply negb_true_iff. now apply N.eqb_neq. }
  rewrite X. cbn [bind]. unfold start_timer, set_timer. cbn [stopped]. rewrite S.
  unfold update_timer. cbn [read_timeout]. rewrite R.
  eexists. split; [reflexivity|]. cbn. unfold next_max. repeat split; auto.
Qed.

Lemma max_timeout_exhausted c p s r :
  cfg_rr c = Some p -> expired_read s ->
  read_remains_prev s <= read_remains s ->
  rr_rate p < read_remains s - read_remains_prev s ->
  rr_max p <> 0 -> next_max p s = 0 ->
  exists s1, timer_step c s (Recv false r) = Ok (s1, [StopRead]) /\ stopped s1 = true /\ timer s1 = None.
Proof.
  intros RR (S & R & D) L T M0 M. cbn [timer_step]. rewrite S, D.
  unfold handle_timeout, clear_dsp. cbn [read_timeout read_remains read_remains_prev read_max_timeout].
  rewrite R, RR. unfold sub_chk. apply N.leb_le in L. rewrite L. cbn [bind].
  apply N.ltb_lt in T. rewrite T. unfold next_max in M. apply N.eqb_neq in M0. rewrite M0 in *.
  rewrite M. cbn [orb negb N.eqb]. rewrite N.eqb_refl. cbn [negb bind halt stopped].
  eexists. split; [reflexivity|]. cbn. auto.
Qed.

(* ---------------------------------------------------------------- C20_no_underflow *)
Definition uf_inv (last : N) (s : tstate) : Prop :=
  read_timeout s = true -> read_remains_prev s <= read_remains s /\ read_remains s <= last.

Lemma handle_timeout_no_panic c s last :
  uf_inv last s -> exists s1 o, handle_timeout c s = Ok (s1, o).
Proof.
  intros U. destruct (handle_timeout_cases c s) as [P | (s1 & o & H & _)]; [|eauto].
  exfalso. unfold handle_timeout in P. destruct (read_timeout s) eqn:R.
  - destruct (cfg_rr c) as [p|]; [|discriminate].
    destruct (U eq_refl) as [L _]. unfold sub_chk in P. apply N.leb_le in L. rewrite L in P. cbn [bind] in P.
    destruct (rr_rate p <? _); [destruct (_ || _)|]; discriminate.
  - destruct (ka_timeout s); discriminate.
Qed.

(* after handle_timeout the stored counts are bounded by what was buffered *)
Lemma handle_timeout_bound c s last s1 o :
  uf_inv last s -> handle_timeout c s = Ok (s1, o) ->
  read_timeout s1 = read_timeout s /\ (read_timeout s1 = true -> read_remains_prev s1 <= last).
Proof.
  intros U H. unfold handle_timeout in H. destruct (read_timeout s) eqn:R.
  - destruct (U eq_refl) as [L1 L2].
    destruct (cfg_rr c) as [p|].
    + unfold sub_chk in H. destruct (read_remains_prev s <=? read_remains s); [|discriminate]. cbn [bind] in H.
      destruct (rr_rate p <? _).
      * destruct (_ || _); injection H as <- <-; unfold start_timer, set_timer; cbn; split; auto; intros; lia.
      * injection H as <- <-. cbn. split; auto. intros. lia.
    + injection H as <- <-. split; auto. intros. lia.
  - destruct (ka_timeout s); injection H as <- <-; cbn; split; auto; congruence.
Qed.

Lemma update_timer_uf c s r last :
  last <= r -> r < U32 ->
  (read_timeout s = true -> read_remains_prev s <= last) ->
  uf_inv r (update_timer c s false r).
Proof.
  intros L B P. unfold update_timer, uf_inv.
  destruct (read_timeout s) eqn:R.
  - cbn. intros _. rewrite N.mod_small by exact B. specialize (P eq_refl). lia.
  - destruct ((read_remains s =? 0) && (r =? 0)).
    + destruct (ka_enabled s && negb (ka_timeout s)); unfold start_timer, set_timer; cbn; congruence.
    + destruct (cfg_rr c) as [p|]; [|congruence].
      unfold start_timer, set_timer. cbn. intros _. rewrite N.mod_small by exact B. lia.
Qed.

Lemma uf_weaken last last' s : last <= last' -> uf_inv last s -> uf_inv last' s.
Proof. intros L U R. destruct (U R). lia. Qed.

Lemma no_underflow_gen c n : forall evs last s,
  (length evs <= n)%nat -> loop_ok evs = true -> mono last evs = true -> uf_inv last s ->
  exists r, t_run c s evs = Ok r.
Proof.
  induction n as [|n IH]; intros evs last s LN LO MO U.
  - destruct evs; [eexists; reflexivity | cbn in LN; lia].
  - destruct evs as [|e r]; [eexists; reflexivity|].
    cbn [length] in LN. apply le_S_n in LN.
    assert (STEP : forall s1 o1 last1, timer_step c s e = Ok (s1, o1) -> loop_ok r = true ->
                    mono last1 r = true -> uf_inv last1 s1 -> exists x, t_run c s (e :: r) = Ok x).
    { intros s1 o1 last1 ST LO1 MO1 U1. rewrite t_run_cons, ST.
      destruct (IH r last1 s1 LN LO1 MO1 U1) as ([s2 o2] & TR). rewrite TR. eauto. }
    destruct e as [item rm| | | | | |].
    + (* Recv *)
      cbn [loop_ok] in LO.
      destruct item; cbn [mono] in MO.
      * apply andb_true_iff in MO as [B MO]. cbn [timer_step] in STEP.
        destruct (stopped s) eqn:S.
        -- eapply (STEP s [] rm); eauto. intros R. destruct (U R). admit.
        -- eapply (STEP _ [] rm); eauto. unfold update_timer, uf_inv. cbn. congruence.
      * admit.
    + admit.
    + admit.
    + admit.
    + admit.
    + admit.
    + admit.
Abort.
