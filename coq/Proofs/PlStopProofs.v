(* Proofs/PlStopProofs.v -- invariant of Model/PlStop.v and the lemmas behind Props/C07pl.v.
   The payload component of the state is a state of Model/Payload.v; its invariant [Inv F eof last] (the
   chunks fed, whether the eof has been fed, the error of the last set_error) is the one of
   Proofs/PayloadProofs.v, here tied to the decoder (what is left of the announced size) and to the slot
   that holds the sender. *)
From MV Require Import Base.Prelude Base.Res Model.Payload Proofs.PayloadProofs Model.PlStop.

Ltac pj := cbn [hdr sent src drem rdr polled slot failing parked stopped stops hnd gate pings pclosed
                set_hdr set_sent set_dec set_rdr set_polled set_slot set_failing set_parked set_ended
                set_hnd set_gate set_pings set_pclosed] in *.

(* ------------------------------------------------------------------ small facts *)
Lemma len_app (a b : bytes) : len (a ++ b) = len a + len b.
Proof. unfold len. rewrite app_length. lia. Qed.

Lemma len_concat (F : list bytes) : len (concat F) = sum_len F.
Proof.
  induction F as [|d r IH]; [reflexivity|]. cbn [concat]. rewrite len_app, sum_len_cons, IH. reflexivity.
Qed.

Lemma len_count_bytes k : forall c, len (count_bytes k c) = N.of_nat k.
Proof.
  induction k as [|k IH]; intros c; [reflexivity|]. cbn [count_bytes]. unfold len in *. cbn [length].
  specialize (IH (c + 1)). lia.
Qed.

Lemma len_count n c : len (count_bytes (N.to_nat n) c) = n.
Proof. rewrite len_count_bytes. apply N2Nat.id. Qed.

Lemma sum_len_snoc F d : sum_len (F ++ [d]) = sum_len F + len d.
Proof. apply sum_len_app. Qed.

(* ------------------------------------------------------------------ the invariant *)
(* the stream case: ghost F / eof / last against slot and decoder *)
Record G (c : cfg) (p : st) (sl : bool) (dr : option N) (F : list bytes) (eof : bool) (last : option N)
  : Prop := mkG {
  g_slot : sl = true -> eof = false /\ last = None /\
                        exists rem, dr = Some rem /\ 0 < rem /\ sum_len F + rem = decl c;
  g_noslot : sl = false -> eof = true \/ last <> None;
  g_eof : eof = true -> sum_len F = decl c /\ dr = None;
  g_ok : rd p = Done None -> eof = true /\ len (held p) = decl c
}.

(* the payload the reader holds: whole (Payload::from_bytes) or streamed *)
Definition RS (c : cfg) (p : st) (sl : bool) (dr : option N) : Prop :=
  (exists buf n, FixInv buf n p /\ len buf = decl c /\ sl = false /\ dr = None) \/
  (exists F eof last ch, Inv F eof last p ch /\ G c p sl dr F eof last).

Record J (c : cfg) (s : ps) : Prop := mkJ {
  j_stop : stopped s = true -> slot s = false /\ parked s = false;
  j_rdr : match rdr s with
          | None => slot s = false /\ drem s = None /\ polled s = false
          | Some p => (polled s = false -> running (rd p) = true) /\ RS c p (slot s) (drem s)
          end
}.

Lemma J_init c : J c init.
Proof. constructor; cbn; [discriminate|auto]. Qed.

(* ------------------------------------------------------------------ operations on the payload *)
Lemma inv_poll_same F eof last p ch :
  Inv F eof last p ch -> exists p' ch', step p Poll = Ok p' /\ Inv F eof last p' ch'.
Proof.
  intros I. destruct (inv_step _ _ _ _ _ Poll I) as (p' & ch' & H & I' & _).
  cbn [fed_ops is_feed_eof last_step] in I'. rewrite app_nil_r, orb_false_r in I'. eauto.
Qed.

Lemma RS_poll c p sl dr :
  RS c p sl dr -> exists p', step p Poll = Ok p' /\ RS c p' sl dr.
Proof.
  intros [(buf & n & Hf & Hl & Hs & Hd)|(F & eof & last & ch & I & Gi)].
  - destruct (fix_step _ _ _ Poll Hf) as (p' & H & Hf' & _). exists p'. split; [assumption|].
    left. eauto 8.
  - destruct (inv_poll_same _ _ _ _ _ I) as (p' & ch' & H & I'). exists p'. split; [assumption|].
    right. exists F, eof, last, ch'. split; [assumption|].
    destruct Gi as [g1 g2 g3 g4]. constructor; try assumption.
    intros Hd. destruct (running (rd p)) eqn:Hr.
    + destruct (finish_ok _ _ _ _ _ _ I Hr H Hd) as (E & Hg). split; [assumption|].
      destruct (g3 E) as (Hsum & _). unfold held.
      destruct (md p); rewrite Hg; cbn [concat]; rewrite ?app_nil_r, len_concat; assumption.
    + apply running_not_done in Hr as (x & Hx). rewrite (step_poll_done _ _ Hx) in H. injection H as <-.
      apply g4. assumption.
Qed.

Lemma RS_seterr c p dr e :
  RS c p true dr -> exists p', step p (SetError e) = Ok p' /\ RS c p' false dr /\ rd p' = rd p.
Proof.
  intros [(buf & n & _ & _ & Hs & _)|(F & eof & last & ch & I & Gi)]; [discriminate|].
  destruct (inv_set_error _ _ _ _ _ e I) as (ch' & H & I'). eexists. split; [exact H|]. split; [|reflexivity].
  right. exists F, eof, (Some e), ch'. split; [assumption|].
  destruct Gi as [g1 g2 g3 g4]. constructor.
  - discriminate.
  - intros _. right. discriminate.
  - assumption.
  - exact g4.
Qed.

(* a chunk that is not the last one *)
Lemma RS_feed c p rem d :
  RS c p true (Some rem) -> len d < rem ->
  exists p', step p (Feed d) = Ok p' /\ RS c p' true (Some (rem - len d)) /\ rd p' = rd p.
Proof.
  intros [(buf & n & _ & _ & Hs & _)|(F & eof & last & ch & I & Gi)] Hlt; [discriminate|].
  destruct (inv_feed _ _ _ _ _ d I) as (ch' & H & I'). eexists. split; [exact H|]. split; [|reflexivity].
  right. exists (F ++ [d]), eof, last, ch'. split; [assumption|].
  destruct Gi as [g1 g2 g3 g4]. destruct (g1 eq_refl) as (E1 & E2 & r & Er & Hr & Hs). injection Er as <-.
  constructor.
  - intros _. split; [assumption|]. split; [assumption|]. exists (rem - len d).
    split; [reflexivity|]. rewrite sum_len_snoc. lia.
  - discriminate.
  - rewrite E1. discriminate.
  - exact g4.
Qed.

(* the last chunk: feed_data, feed_eof, the sender is given away *)
Lemma RS_feed_last c p rem d :
  RS c p true (Some rem) -> len d = rem ->
  exists p' p'', step p (Feed d) = Ok p' /\ step p' FeedEof = Ok p'' /\ RS c p'' false None /\ rd p'' = rd p.
Proof.
  intros [(buf & n & _ & _ & Hs & _)|(F & eof & last & ch & I & Gi)] Hl; [discriminate|].
  destruct (inv_feed _ _ _ _ _ d I) as (ch' & H & I').
  destruct (inv_feed_eof _ _ _ _ _ I') as (ch'' & H' & I'').
  eexists. eexists. split; [exact H|]. split; [exact H'|]. split; [|reflexivity].
  right. exists (F ++ [d]), true, last, ch''. split; [assumption|].
  destruct Gi as [g1 g2 g3 g4]. destruct (g1 eq_refl) as (E1 & E2 & r & Er & Hr & Hs). injection Er as <-.
  assert (Hsum : sum_len (F ++ [d]) = decl c) by (rewrite sum_len_snoc; lia).
  constructor.
  - discriminate.
  - auto.
  - auto.
  - intros Hd. proj. destruct (g4 Hd) as (E & _). rewrite E1 in E. discriminate.
Qed.

(* ------------------------------------------------------------------ the operations keep the invariant *)
Lemma J_ext c s s' :
  stopped s' = stopped s -> slot s' = slot s -> parked s' = parked s -> rdr s' = rdr s ->
  polled s' = polled s -> drem s' = drem s -> J c s -> J c s'.
Proof.
  intros E1 E2 E3 E4 E5 E6 [j1 j2]. constructor.
  - rewrite E1, E2, E3. assumption.
  - rewrite E4, E2, E5, E6. assumption.
Qed.

Lemma RS_noslot_dr c p dr dr' :
  RS c p false dr -> dr <> None -> RS c p false dr'.
Proof.
  intros [(buf & n & _ & _ & _ & Hd)|(F & eof & last & ch & I & [g1 g2 g3 g4])] Hn; [contradiction|].
  right. exists F, eof, last, ch. split; [assumption|]. constructor.
  - discriminate.
  - assumption.
  - intros E. destruct (g3 E) as (_ & X). contradiction.
  - assumption.
Qed.

Lemma do_end_ok c s r :
  J c s -> exists s' out, do_end c s r = Ok (s', out) /\ J c s' /\ stopped s' = true /\ drem s' = drem s.
Proof.
  intros [j1 j2]. unfold do_end. destruct (slot s) eqn:Hs.
  - unfold on_rdr. destruct (rdr s) as [p|] eqn:Hr; [|destruct j2 as (X & _); discriminate].
    destruct j2 as (jp & jr). destruct (RS_seterr c p (drem s) (err_of r) jr) as (p' & H & R' & Hd).
    rewrite H. cbn [bind]. eexists. eexists. split; [reflexivity|]. split; [|split; reflexivity].
    constructor; pj; [auto|]. split; [rewrite Hd; assumption|assumption].
  - cbn [bind]. eexists. eexists. split; [reflexivity|]. split; [|split; reflexivity].
    constructor; pj; [auto|]. destruct (rdr s); assumption.
Qed.

Lemma check_ready_ok c s :
  J c s -> exists s' out, check_ready c s = Ok (s', out) /\ J c s' /\ drem s' = drem s.
Proof.
  intros Jx. unfold check_ready.
  destruct (failing s && negb (stopped s) && negb (parked s)) eqn:E; [|eauto].
  destruct (slot s && negb (need_read s)).
  - eexists. eexists. split; [reflexivity|]. split; [|reflexivity].
    apply andb_true_iff in E as (E & _). apply andb_true_iff in E as (_ & E). apply negb_true_iff in E.
    destruct Jx as [j1 j2]. constructor; pj; [rewrite E; discriminate|assumption].
  - destruct (do_end_ok c s RError Jx) as (s' & out & H & J' & _ & D). eauto.
Qed.

Lemma decode_more_ok c s :
  J c s -> stopped s = false -> exists s' out, decode_more c s = Ok (s', out) /\ J c s'.
Proof.
  intros Jx Hst. unfold decode_more. destruct (drem s) as [rem|] eqn:Hd; [|eauto].
  destruct ((rem <=? src s) || (negb (minc c =? 0) && (minc c <=? src s))); [|eauto].
  set (n := N.min (src s) rem). set (rem' := rem - n).
  assert (Hn : n <= rem) by (unfold n; lia).
  unfold feed_chunk. pj. destruct (slot s) eqn:Hs.
  - destruct Jx as [j1 j2]. unfold on_rdr at 1. pj.
    destruct (rdr s) as [p|] eqn:Hr; [|destruct j2 as (X & _); congruence].
    destruct j2 as (jp & jr). rewrite Hd, Hs in jr.
    set (d := count_bytes (N.to_nat n) (decl c - rem)).
    assert (Hl : len d = n) by apply len_count.
    destruct (rem' =? 0) eqn:Ez.
    + apply N.eqb_eq in Ez. assert (Hl' : len d = rem) by (unfold rem' in Ez; lia).
      destruct (RS_feed_last c p rem d jr Hl') as (p' & p'' & H1 & H2 & R'' & Hrd).
      rewrite H1. cbn [bind]. unfold on_rdr. pj. rewrite H2. cbn [bind].
      eexists. eexists. split; [reflexivity|]. constructor; pj.
      * rewrite Hst. discriminate.
      * split; [rewrite Hrd; assumption|assumption].
    + apply N.eqb_neq in Ez. assert (Hl' : len d < rem) by (unfold rem' in Ez; lia).
      destruct (RS_feed c p rem d jr Hl') as (p' & H1 & R' & Hrd).
      rewrite H1. cbn [bind].
      eexists. eexists. split; [reflexivity|]. constructor; pj.
      * rewrite Hst. discriminate.
      * split; [rewrite Hrd; assumption|]. rewrite Hl in R'. rewrite Hs. exact R'.
  - match goal with |- context [do_end c ?s1 RProto] => assert (J1 : J c s1) end.
    { destruct Jx as [j1 j2]. constructor; pj; [assumption|].
      destruct (rdr s) as [p|].
      - destruct j2 as (jp & jr). split; [assumption|]. rewrite Hs, Hd in *.
        eapply RS_noslot_dr; [exact jr|discriminate].
      - destruct j2 as (_ & X & _). rewrite Hd in X. discriminate. }
    destruct (do_end_ok c _ RProto J1) as (s' & out & H & J' & _). eauto.
Qed.

Lemma first_chunks_sum buf : sum_len (first_chunks buf) = len buf.
Proof. destruct buf; [reflexivity|]. cbn [first_chunks]. rewrite sum_len_cons. cbn [sum_len fold_right]. lia. Qed.

Lemma op_header_ok c s n :
  J c s -> exists s' out, op_header c s n = Ok (s', out) /\ J c s'.
Proof.
  intros Jx. unfold op_header. destruct (hdr s); [eauto|]. pj.
  destruct (stopped s || parked s) eqn:Esp.
  { eexists. eexists. split; [reflexivity|]. eapply J_ext; try exact Jx; reflexivity. }
  apply orb_false_iff in Esp as (Hst & Hpk).
  set (n' := N.min n (decl c)).
  set (first := if (decl c <=? n') || (minc c =? 0) || (minc c <=? n') then n' else 0).
  assert (Hf : first <= decl c).
  { unfold first, n'. destruct ((decl c <=? N.min n (decl c)) || (minc c =? 0) || (minc c <=? N.min n (decl c))); lia. }
  set (buf := count_bytes (N.to_nat first) 0).
  assert (Hb : len buf = first) by apply len_count.
  assert (Jn : J c (set_slot (set_rdr (set_dec (set_sent (set_hdr s true) n') (n' - first)
                 (if decl c - first =? 0 then None else Some (decl c - first)))
                 (Some (if decl c - first =? 0 then init_fixed (rmode c) buf
                        else init_stream (rmode c) buf (maxb c))))
               (negb (decl c - first =? 0)))).
  { constructor; pj; [rewrite Hst; discriminate|].
    destruct (decl c - first =? 0) eqn:Ez; cbn [negb].
    - apply N.eqb_eq in Ez. split; [intros _; apply start_running|].
      left. exists buf, 0%nat. repeat split. lia.
    - apply N.eqb_neq in Ez. split; [intros _; apply start_running|].
      right. destruct (inv_init (rmode c) buf (maxb c)) as (ch & I).
      exists (first_chunks buf), false, None, ch. split; [assumption|]. constructor.
      + intros _. split; [reflexivity|]. split; [reflexivity|]. exists (decl c - first).
        split; [reflexivity|]. rewrite first_chunks_sum, Hb. lia.
      + discriminate.
      + discriminate.
      + unfold init_stream. proj. destruct (rmode c); discriminate. }
  match goal with |- context [if gate ?x then _ else _] => destruct (gate x) end;
    (eexists; eexists; split; [reflexivity|]; eapply J_ext; try exact Jn; reflexivity).
Qed.

Lemma op_bytes_ok c s n :
  J c s -> exists s' out, op_bytes c s n = Ok (s', out) /\ J c s'.
Proof.
  intros Jx. unfold op_bytes. destruct (hdr s); cbn [negb]; [|eauto]. pj.
  destruct (stopped s || parked s) eqn:Esp.
  { eexists. eexists. split; [reflexivity|]. eapply J_ext; try exact Jx; reflexivity. }
  apply orb_false_iff in Esp as (Hst & Hpk).
  apply decode_more_ok; [|assumption].
  eapply J_ext; try exact Jx; reflexivity.
Qed.

Lemma op_fail_ok c s : J c s -> exists s' out, op_fail c s = Ok (s', out) /\ J c s'.
Proof.
  intros Jx. unfold op_fail.
  assert (J1 : J c (set_failing s true)) by (eapply J_ext; try exact Jx; reflexivity).
  destruct (check_ready_ok c _ J1) as (s' & out & H & J' & _). eauto.
Qed.

Lemma op_peer_close_ok c s : J c s -> exists s' out, op_peer_close c s = Ok (s', out) /\ J c s'.
Proof.
  intros Jx. unfold op_peer_close.
  assert (J1 : J c (set_pclosed s true)) by (eapply J_ext; try exact Jx; reflexivity).
  destruct (stopped (set_pclosed s true) || parked (set_pclosed s true)); [eauto|].
  destruct (do_end_ok c _ RPeer J1) as (s' & out & H & J' & _). eauto.
Qed.

Lemma op_close_ok c s f : J c s -> exists s' out, op_close c s f = Ok (s', out) /\ J c s'.
Proof.
  intros Jx. unfold op_close. destruct (stopped s); [eauto|].
  destruct (do_end_ok c s RPeer Jx) as (s' & out & H & J' & _). rewrite H. cbn [bind]. eauto.
Qed.

Lemma op_poll_ok c s : J c s -> exists s' out, op_poll c s = Ok (s', out) /\ J c s'.
Proof.
  intros Jx. unfold op_poll. destruct (rdr s) as [p|] eqn:Hr; [|eauto].
  destruct (running (rd p)) eqn:Hrun; [|eauto].
  assert (jr : RS c p (slot s) (drem s)) by (destruct Jx as [_ j2]; rewrite Hr in j2; apply j2).
  destruct (RS_poll c p _ _ jr) as (p' & H & R'). rewrite H. cbn [bind].
  assert (J1 : J c (set_polled (set_rdr s (Some p')) true)).
  { destruct Jx as [j1 j2]. constructor; pj; [assumption|]. split; [discriminate|assumption]. }
  match goal with |- context [if ?b then _ else _] => destruct b end; [|eauto].
  destruct (do_end_ok c _ RError J1) as (s' & out & H' & J' & _). eauto.
Qed.

Lemma op_done_ok c s : J c s -> exists s' out, op_done c s = Ok (s', out) /\ J c s'.
Proof.
  intros Jx. unfold op_done. destruct (gate s); [eauto|]. pj.
  destruct (hnd s); [| destruct (stopped s) |];
    (eexists; eexists; split; [reflexivity|]; eapply J_ext; try exact Jx; reflexivity).
Qed.

Lemma op_ping_ok c s : J c s -> exists s' out, op_ping c s = Ok (s', out) /\ J c s'.
Proof.
  intros Jx. unfold op_ping.
  destruct (hdr s && (sent s =? decl c) && negb (stopped s) && negb (parked s)); [|eauto].
  destruct (hnd s); (eexists; eexists; split; [reflexivity|]; eapply J_ext; try exact Jx; reflexivity).
Qed.

Lemma pstep_raw_ok c s o : J c s -> exists s' out, pstep_raw c s o = Ok (s', out) /\ J c s'.
Proof.
  intros Jx. destruct o; cbn [pstep_raw].
  - apply op_header_ok; assumption.
  - apply op_bytes_ok; assumption.
  - apply op_fail_ok; assumption.
  - apply op_peer_close_ok; assumption.
  - apply op_close_ok; assumption.
  - apply op_close_ok; assumption.
  - apply op_poll_ok; assumption.
  - apply op_done_ok; assumption.
  - apply op_ping_ok; assumption.
  - eauto.
Qed.

Lemma pstep_ok c s o : J c s -> exists s' out, pstep c s o = Ok (s', out) /\ J c s'.
Proof.
  intros Jx. destruct (pstep_raw_ok c s o Jx) as (s' & out & H & J'). unfold pstep. rewrite H. cbn [bind]. eauto.
Qed.

Lemma prun_ok c ops : forall s, J c s -> exists s', prun c s ops = Ok s' /\ J c s'.
Proof.
  induction ops as [|o r IH]; intros s Jx; cbn [prun]; [eauto|].
  destruct (pstep_ok c s o Jx) as (s1 & out & H & J1). rewrite H. cbn [bind]. apply IH. assumption.
Qed.

Lemma reach_J c ops s : prun c init ops = Ok s -> J c s.
Proof.
  intros H. destruct (prun_ok c ops init (J_init c)) as (s' & H' & J'). rewrite H in H'. injection H' as <-.
  assumption.
Qed.

(* ------------------------------------------------------------------ theorems *)
Lemma total c ops : exists s, prun c init ops = Ok s.
Proof. destruct (prun_ok c ops init (J_init c)) as (s & H & _). eauto. Qed.

(* (a) a reader that finished Ok holds every announced byte *)
Lemma ok_is_complete c s : J c s -> status s = 2 -> nbytes s = decl c.
Proof.
  intros [_ j2] Hs. unfold status, nbytes in *. destruct (rdr s) as [p|]; [|discriminate].
  destruct (polled s); [|discriminate].
  assert (Hd : rd p = Done None) by (destruct (rd p) as [| | | | |[e|]]; try discriminate; reflexivity).
  destruct j2 as (_ & [(buf & n & Hf & Hl & _)|(F & eof & last & ch & I & [g1 g2 g3 g4])]).
  - unfold FixInv in Hf. unfold held.
    destruct n as [|[|n]], (md p); cbn [fix_shape] in Hf; injection Hf as _ Hg Hr; rewrite Hr in Hd;
      try discriminate; rewrite Hg; cbn [concat]; rewrite app_nil_r; assumption.
  - apply g4. assumption.
Qed.

Lemma no_truncated_ok c ops s : prun c init ops = Ok s -> status s = 2 -> nbytes s = decl c.
Proof. intros H. apply ok_is_complete. eapply reach_J. eassumption. Qed.

(* (b) after the end of the connection with the payload incomplete *)
Lemma after_end c s :
  J c s -> stopped s = true -> incomplete s = true ->
  parked s = false /\
  exists p F last ch, rdr s = Some p /\ Inv F false last p ch /\ last <> None /\ rd p <> Done None /\
                      (polled s = false -> running (rd p) = true).
Proof.
  intros [j1 j2] Hst Hi. destruct (j1 Hst) as (Hs & Hp). split; [assumption|].
  unfold incomplete in Hi. destruct (drem s) as [rem|] eqn:Hd; [|discriminate].
  destruct (rdr s) as [p|]; [|destruct j2 as (_ & X & _); discriminate].
  destruct j2 as (jp & [(buf & n & _ & _ & _ & X)|(F & eof & last & ch & I & [g1 g2 g3 g4])]); [discriminate|].
  assert (E : eof = false).
  { destruct eof; [|reflexivity]. destruct (g3 eq_refl) as (_ & X). discriminate. }
  subst eof. exists p, F, last, ch. split; [reflexivity|]. split; [assumption|].
  split; [destruct (g2 Hs) as [X|X]; [discriminate|assumption]|].
  split; [|assumption]. intros Hd'. destruct (g4 Hd') as (X & _). discriminate.
Qed.

Lemma status_done_err s p e : rdr s = Some p -> polled s = true -> rd p = Done (Some e) -> status s = 3.
Proof. intros H1 H2 H3. unfold status. rewrite H1, H2, H3. reflexivity. Qed.

(* one poll of the reader after the end: it finishes with Err, or it takes one buffered chunk *)
Lemma poll_after_end c s :
  J c s -> stopped s = true -> incomplete s = true ->
  exists s', pstep c s OPoll = Ok (s', []) /\ J c s' /\ stopped s' = true /\ incomplete s' = true /\
             (status s' = 3 \/ (status s' = 1 /\ S (buffered s') = buffered s)).
Proof.
  intros Jx Hst Hi.
  destruct (after_end c s Jx Hst Hi) as (Hpk & p & F & last & ch & Hr & I & Hl & Hnd & Hpo).
  destruct (pstep_ok c s OPoll Jx) as (s' & out & Hstep & J').
  assert (K : forall s1, pstep c s OPoll = Ok (s1, []) -> stopped s1 = true -> incomplete s1 = true ->
                         (status s1 = 3 \/ (status s1 = 1 /\ S (buffered s1) = buffered s)) ->
                         exists s', pstep c s OPoll = Ok (s', []) /\ J c s' /\ stopped s' = true /\
                                    incomplete s' = true /\
                                    (status s' = 3 \/ (status s' = 1 /\ S (buffered s') = buffered s))).
  { intros s1 H1 A B C. exists s1. rewrite H1 in Hstep. injection Hstep as <- <-. auto. }
  clear Hstep J' s' out.
  destruct (running (rd p)) eqn:Hrun.
  - (* a poll of Model/Payload.v *)
    assert (Hout : forall p', step p Poll = Ok p' ->
              pstep c s OPoll = Ok (set_polled (set_rdr s (Some p')) true, [])).
    { intros p' H. unfold pstep, pstep_raw, op_poll. rewrite Hr, Hrun, H. cbn [bind]. pj. rewrite Hpk.
      cbn [andb bind]. pj. destruct (pclosed s); reflexivity. }
    destruct (rd_cases (rd p)) as [Hlp|[Ha|(x & Hx)]].
    + pose proof (poll_spec_loop p ch (i_pl _ _ _ _ _ I) (i_ok _ _ _ _ _ I) Hlp) as P.
      destruct (items ch) as [|d r] eqn:Hit.
      * apply K with (s1 := set_polled (set_rdr s (Some (loop_out p ch))) true);
          [apply Hout; assumption|assumption|assumption|].
        left. pose proof (i_err4 _ _ _ _ _ I Hl Hrun) as He.
        destruct (ch_err ch) as [e|] eqn:Ee; [|contradiction].
        eapply status_done_err; pj; [reflexivity|reflexivity|]. unfold loop_out. rewrite Ee. reflexivity.
      * destruct P as (c1 & Hpop & P).
        apply K with (s1 := set_polled (set_rdr s (Some (mkSt (md p) (PStream c1) LoopIdle (got p ++ [d]) false))) true);
          [apply Hout; assumption|assumption|assumption|].
        right. split; [reflexivity|].
        unfold buffered. pj. rewrite Hr. proj. rewrite (i_pl _ _ _ _ _ I).
        destruct Hpop as (Hi1 & _). rewrite Hit in Hi1. injection Hi1 as <-. rewrite Hit. reflexivity.
    + destruct (inv_poll_same _ _ _ _ _ I) as (p' & ch' & H & _).
      apply K with (s1 := set_polled (set_rdr s (Some p')) true);
        [apply Hout; assumption|assumption|assumption|].
      left. pose proof (poll_all_err _ _ _ _ _ _ I Hl Ha H) as Hfin.
      apply running_not_done in Hfin as (x & Hx).
      pose proof (finish_err _ _ _ _ _ _ _ I Hl Hrun H Hx) as E. subst x.
      destruct last as [e|]; [|contradiction].
      eapply status_done_err; pj; [reflexivity|reflexivity|eassumption].
    + rewrite Hx in Hrun. discriminate.
  - apply K with (s1 := s);
      [unfold pstep, pstep_raw, op_poll; rewrite Hr, Hrun; cbn [bind]; destruct (pclosed s); reflexivity
      |assumption|assumption|].
    left. apply running_not_done in Hrun as (x & Hx).
    destruct x as [e|]; [|contradiction].
    destruct (polled s) eqn:Hp; [|discriminate (Hpo eq_refl)].
    eapply status_done_err; eassumption.
Qed.

Lemma fails_after_end_from c : forall n s,
  J c s -> stopped s = true -> incomplete s = true -> buffered s = n -> status s <> 3 ->
  exists k s', (1 <= k <= S n)%nat /\ prun c s (polls_n k) = Ok s' /\ status s' = 3.
Proof.
  induction n as [|n IH]; intros s Jx Hst Hi Hb Hns;
    destruct (poll_after_end c s Jx Hst Hi) as (s1 & H1 & J1 & St1 & I1 & [D|(D & B)]).
  - exists 1%nat, s1. split; [lia|]. cbn [polls_n prun]. rewrite H1. cbn [bind]. auto.
  - rewrite Hb in B. discriminate.
  - exists 1%nat, s1. split; [lia|]. cbn [polls_n prun]. rewrite H1. cbn [bind]. auto.
  - rewrite Hb in B. injection B as B.
    assert (Hns1 : status s1 <> 3) by (rewrite D; discriminate).
    destruct (IH s1 J1 St1 I1 B Hns1) as (k & s2 & Hk & H2 & D2).
    exists (S k), s2. split; [lia|]. cbn [polls_n prun]. rewrite H1. cbn [bind]. auto.
Qed.

Lemma reader_fails_after_end c ops s :
  prun c init ops = Ok s -> stopped s = true -> incomplete s = true ->
  exists k s', (k <= S (buffered s))%nat /\ prun c s (polls_n k) = Ok s' /\ status s' = 3.
Proof.
  intros H Hst Hi. pose proof (reach_J _ _ _ H) as Jx.
  destruct (N.eq_dec (status s) 3) as [E|E].
  - exists 0%nat, s. split; [lia|]. auto.
  - destruct (fails_after_end_from c (buffered s) s Jx Hst Hi eq_refl E) as (k & s' & Hk & H' & D).
    exists k, s'. split; [lia|]. auto.
Qed.

Lemma reader_progress_after_end c ops s :
  prun c init ops = Ok s -> stopped s = true -> incomplete s = true ->
  exists s', pstep c s OPoll = Ok (s', []) /\ stopped s' = true /\ incomplete s' = true /\
             (status s' = 3 \/ (status s' = 1 /\ S (buffered s') = buffered s)).
Proof.
  intros H Hst Hi. destruct (poll_after_end c s (reach_J _ _ _ H) Hst Hi) as (s' & A & _ & B & C & D). eauto.
Qed.

(* whenever the connection ends with the payload incomplete, the sender in the slot fails the reader: the
   end leaves the slot empty, and an incomplete payload then has an error set *)
Lemma end_sets_error c ops s :
  prun c init ops = Ok s -> stopped s = true -> slot s = false /\ parked s = false.
Proof. intros H. apply (j_stop _ _ (reach_J _ _ _ H)). Qed.
