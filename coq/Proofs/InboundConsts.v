(* Proofs/InboundConsts.v -- the numbers Model/Inbound.v uses (packet types, reason codes) are the numbers
   of the tables translated from the Rust source (Gen/Consts.v).  Kept apart from Proofs/InboundInv.v because
   Gen/Consts.v is regenerated on every run. *)
From Coq Require Import List NArith String.
From MV Require Import Gen.Consts Proofs.ConstsProofs.
From MV Require Import Base.Prelude Model.RespQueue Model.Inbound.
Import ListNotations.
Local Open Scope N_scope.

(* ---- the numbers the model uses are the numbers of the Rust tables (Gen/Consts.v) *)
Lemma model_codes :
  reason_code_of "Pub_3_3_4_7" = Some 147 /\ reason_code_of "Pub_3_3_4_9" = Some 147 /\
  reason_code_of "Connack_3_2_2_11" = Some 155 /\
  lookup "TopicAliasInvalid" gen_enum_v5_DisconnectReasonCode = Some 148 /\
  reason_code_of "Connack_3_2_2_17" = Some 130 /\ reason_code_of "Pub_3_3_2_2" = Some 130 /\
  reason_code_of "PacketId_2_2_1_3_Pub" = Some 130 /\ reason_code_of "PacketId_2_2_1_3_Sub" = Some 130 /\
  reason_code_of "PacketId_2_2_1_3_Unsub" = Some 130 /\ reason_code_of "Subs_4_7_1" = Some 130 /\
  reason_code_of "Disconnect_3_14_2_22" = Some 130 /\
  proto_reason_code_of "_" = Some 131 /\ stop_reason EServ = 131 /\
  lookup "PacketIdentifierInUse" gen_enum_v5_PublishAckReason = Some 145 /\
  lookup "PacketIdentifierInUse" gen_enum_v5_SubscribeAckReason = Some 145 /\
  lookup "PacketIdentifierInUse" gen_enum_v5_UnsubscribeAckReason = Some 145 /\
  lookup "PacketIdNotFound" gen_enum_v5_PublishAck2Reason = Some 146 /\
  lookup "UnspecifiedError" gen_enum_v5_DisconnectReasonCode = Some 128 /\
  lookup "DISCONNECT" gen_packet_types = Some 224 /\ lookup "PUBACK" gen_packet_types = Some 64 /\
  lookup "PUBREC" gen_packet_types = Some 80 /\ lookup "PUBCOMP" gen_packet_types = Some 112 /\
  lookup "SUBACK" gen_packet_types = Some 144 /\ lookup "UNSUBACK" gen_packet_types = Some 176 /\
  lookup "PINGRESP" gen_packet_types = Some 208.
Proof. repeat split; reflexivity. Qed.
