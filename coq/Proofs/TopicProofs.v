(* Proofs/TopicProofs.v -- proofs relating Model/Topic.v to Spec/SpecTopic.v (property C18). *)
From MV Require Import Base.Prelude Model.Topic Spec.SpecTopic.
From Coq Require Import PeanoNat.

Definition is_nil {A : Type} (l : list A) : bool :=
  match l with [] => true | _ => false end.

Ltac consts := unfold SLASH, PLUS, HASH, DOLLAR, sSLASH, sPLUS, sHASH, sDOLLAR in *.

Ltac nimp :=
  exfalso;
  repeat match goal with
         | H : (_ =? _) = true |- _ => apply N.eqb_eq in H
         end; subst; discriminate.

(* ---------------------------------------------------------------- levels / split *)

Lemma levels_cons s : exists l ls, levels s = l :: ls.
Proof.
  induction s as [|c r [l [ls E]]]; cbn [levels].
  - eauto.
  - destruct (c =? sSLASH); rewrite ?E; eauto.
Qed.

Lemma split_go_levels s : forall cur,
  split_go cur s = match levels s with
                   | l :: ls => (rev cur ++ l) :: ls
                   | [] => [rev cur]
                   end.
Proof.
  induction s as [|c r IH]; intros cur; cbn [split_go levels].
  - now rewrite app_nil_r.
  - change sSLASH with SLASH. destruct (levels_cons r) as [l [ls E]].
    destruct (c =? SLASH).
    + rewrite app_nil_r. f_equal. rewrite IH, E. reflexivity.
    + rewrite IH, E. cbn [rev]. now rewrite <- app_assoc.
Qed.

Lemma split_levels s : split s = levels s.
Proof.
  unfold split. rewrite split_go_levels.
  destruct (levels_cons s) as [l [ls E]]. rewrite E. reflexivity.
Qed.

(* ---------------------------------------------------------------- is_valid vs spec *)

Lemma is_plus_cons c l : is_plus (c :: l) = (c =? 43) && is_nil l.
Proof. unfold is_plus, sPLUS. cbn [bytes_eqb]. destruct l; reflexivity. Qed.

Lemma is_hash_cons c l : is_hash (c :: l) = (c =? 35) && is_nil l.
Proof. unfold is_hash, sHASH. cbn [bytes_eqb]. destruct l; reflexivity. Qed.

Lemma no_wild_cons c l : no_wild (c :: l) = negb ((c =? 43) || (c =? 35)) && no_wild l.
Proof. unfold no_wild. cbn [existsb]. now rewrite negb_orb. Qed.

Lemma flo_cons l r :
  filter_levels_ok (l :: r) =
  if is_nil r then is_plus l || is_hash l || no_wild l
  else (is_plus l || no_wild l) && filter_levels_ok r.
Proof. destruct r; reflexivity. Qed.

Definition flo_st (p : prev) (ls : list bytes) : bool :=
  match ls with
  | [] => true
  | l :: r =>
    match p with
    | PNone | PLevelSep => filter_levels_ok (l :: r)
    | PSingle => is_nil l && filter_levels_ok r
    | PMulti => is_nil l && is_nil r
    | POther => no_wild l && filter_levels_ok r
    end
  end.

Lemma is_valid_go_spec s : forall p, is_valid_go p s = flo_st p (levels s).
Proof.
  induction s as [|c r IH]; intros p.
  - destruct p; reflexivity.
  - cbn [is_valid_go levels]. consts.
    destruct (levels_cons r) as [l [ls E]].
    destruct (c =? 43) eqn:E1; destruct (c =? 35) eqn:E2; destruct (c =? 47) eqn:E3;
      try nimp; destruct p; rewrite ?IH, ?E; cbn [flo_st];
      rewrite ?flo_cons, ?is_plus_cons, ?is_hash_cons, ?no_wild_cons, ?E1, ?E2;
      cbn [is_nil andb orb negb]; try reflexivity.
    all: destruct ls as [|l2 ls]; [change (filter_levels_ok []) with true|];
      cbn [is_nil]; rewrite ?orb_false_r, ?andb_true_r, ?andb_false_r; reflexivity.
Qed.

Lemma valid_is_spec : forall s, is_valid s = spec_valid_filter s.
Proof.
  intros [|c r]; [reflexivity|].
  unfold is_valid, spec_valid_filter. rewrite is_valid_go_spec.
  destruct (levels_cons (c :: r)) as [l [ls E]]. rewrite E. reflexivity.
Qed.

(* ---------------------------------------------------------------- display / parse *)

Fixpoint join (ls : list bytes) : bytes :=
  match ls with
  | [] => []
  | [l] => l
  | l :: r => l ++ 47 :: join r
  end.

Lemma join_cons_char c l ls : join ((c :: l) :: ls) = c :: join (l :: ls).
Proof. destruct ls; reflexivity. Qed.

Lemma join_levels s : join (levels s) = s.
Proof.
  induction s as [|c r IH]; [reflexivity|].
  cbn [levels]. destruct (levels_cons r) as [l [ls E]]. rewrite E in *.
  unfold sSLASH. destruct (N.eqb_spec c 47).
  - subst c. change (join ([] :: l :: ls)) with (47 :: join (l :: ls)). now rewrite IH.
  - cbv iota beta. rewrite join_cons_char. f_equal. exact IH.
Qed.

Lemma display_join F : display F = join (map show_level F).
Proof.
  induction F as [|x F IH]; [reflexivity|].
  destruct F as [|y F]; [reflexivity|].
  change (display (x :: y :: F)) with (show_level x ++ SLASH :: display (y :: F)).
  rewrite IH. reflexivity.
Qed.

Inductive plv (idx : nat) (l : bytes) : option level -> Prop :=
| plv_single : l = [43] -> plv idx l (Some Single)
| plv_multi : l = [35] -> plv idx l (Some Multi)
| plv_blank : l = [] -> plv idx l (Some Blank)
| plv_bad : is_plus l = false -> is_hash l = false -> l <> [] -> no_wild l = false ->
            plv idx l None
| plv_sys : is_plus l = false -> is_hash l = false -> l <> [] -> no_wild l = true ->
            idx = 0%nat -> is_system l = true -> plv idx l (Some (System l))
| plv_norm : is_plus l = false -> is_hash l = false -> l <> [] -> no_wild l = true ->
            (Nat.eqb idx 0 && is_system l) = false -> plv idx l (Some (Normal l)).

Lemma no_wild_has_wild l : no_wild l = negb (has_wild l).
Proof. reflexivity. Qed.

Lemma parse_level_plv idx l : plv idx l (parse_level idx l).
Proof.
  unfold parse_level.
  destruct (bytes_eqb l [PLUS]) eqn:E1.
  { apply bytes_eqb_eq in E1. now constructor. }
  destruct (bytes_eqb l [HASH]) eqn:E2.
  { apply bytes_eqb_eq in E2. now constructor. }
  destruct l as [|c l]. { now constructor. }
  destruct (has_wild (c :: l)) eqn:E3.
  { apply plv_bad; auto; try discriminate. rewrite no_wild_has_wild, E3; reflexivity. }
  assert (no_wild (c :: l) = true) by (rewrite no_wild_has_wild, E3; reflexivity).
  destruct (Nat.eqb idx 0 && is_system (c :: l)) eqn:E4.
  - apply andb_true_iff in E4 as [E4 E5]. apply Nat.eqb_eq in E4.
    apply plv_sys; auto; discriminate.
  - apply plv_norm; auto; discriminate.
Qed.

Lemma plv_show idx l x : plv idx l (Some x) -> show_level x = l.
Proof. inversion 1; subst; reflexivity. Qed.

Lemma parse_levels_show ls : forall idx F,
  parse_levels idx ls = Some F -> map show_level F = ls.
Proof.
  induction ls as [|l r IH]; intros idx F; cbn [parse_levels].
  - now intros [= <-].
  - pose proof (parse_level_plv idx l) as P.
    destruct (parse_level idx l) as [x|]; [|discriminate].
    destruct (parse_levels (S idx) r) as [xs|] eqn:E; [|discriminate].
    intros [= <-]. cbn [map]. f_equal; [eapply plv_show; eauto | eauto].
Qed.

Lemma parse_inv s F : parse s = inl F ->
  s <> [] /\ parse_levels 0 (levels s) = Some F /\ filter_valid F = true.
Proof.
  unfold parse. destruct s as [|c r]; [discriminate|].
  rewrite split_levels. destruct (parse_levels 0 (levels (c :: r))) as [f|]; [|discriminate].
  destruct (filter_valid f) eqn:V; [|discriminate].
  intros [= <-]. repeat split; auto. discriminate.
Qed.

Lemma display_parse : forall s F, parse s = inl F -> display F = s.
Proof.
  intros s F H. apply parse_inv in H as (_ & P & _).
  rewrite display_join, (parse_levels_show _ _ _ P). apply join_levels.
Qed.

Lemma parse_display : forall s F, parse s = inl F -> parse (display F) = inl F.
Proof. intros s F H. now rewrite (display_parse _ _ H). Qed.

(* ---------------------------------------------------------------- the two validators *)

Definition level_ok (l : bytes) : bool := is_plus l || is_hash l || no_wild l.

Fixpoint hash_last (ls : list bytes) : bool :=
  match ls with
  | [] => true
  | l :: r => (negb (is_hash l) || is_nil r) && hash_last r
  end.

Lemma is_hash_true l : is_hash l = true -> is_plus l = false /\ no_wild l = false.
Proof. intros H. apply bytes_eqb_eq in H. subst. split; reflexivity. Qed.

Lemma flo_decomp ls : filter_levels_ok ls = forallb level_ok ls && hash_last ls.
Proof.
  induction ls as [|l r IH]; [reflexivity|].
  rewrite flo_cons.
  change (forallb level_ok (l :: r)) with (level_ok l && forallb level_ok r).
  change (hash_last (l :: r)) with ((negb (is_hash l) || is_nil r) && hash_last r).
  rewrite IH.
  destruct r as [|l2 r].
  - cbn [is_nil forallb hash_last]. unfold level_ok. now rewrite orb_true_r, !andb_true_r.
  - cbn [is_nil]. generalize (forallb level_ok (l2 :: r)) (hash_last (l2 :: r)). intros A B.
    unfold level_ok.
    destruct (is_hash l) eqn:H.
    + destruct (is_hash_true _ H) as [-> ->]. destruct A, B; reflexivity.
    + destruct (is_plus l), (no_wild l), A, B; reflexivity.
Qed.

Lemma parse_levels_ok ls : forall idx,
  match parse_levels idx ls with
  | Some F => forallb level_ok ls = true /\ length F = length ls /\
              forallb level_valid F = true /\
              positions_ok idx (idx + length ls) F = hash_last ls
  | None => forallb level_ok ls = false
  end.
Proof.
  induction ls as [|l r IH]; intros idx.
  - cbn. repeat split.
  - cbn [parse_levels].
    change (forallb level_ok (l :: r)) with (level_ok l && forallb level_ok r).
    specialize (IH (S idx)).
    destruct (parse_level_plv idx l) as [E|E|E|E1 E2 E3 E4|E1 E2 E3 E4 E5 E6|E1 E2 E3 E4 E5].
    4: { unfold level_ok. now rewrite E1, E2, E4. }
    all: destruct (parse_levels (S idx) r) as [F'|].
    all: try (rewrite IH; apply andb_false_r).
    all: destruct IH as (A & B & C & D); rewrite A.
    all: assert (L : level_ok l = true) by
        (unfold level_ok; subst; try reflexivity; rewrite ?E1, ?E2, ?E4; reflexivity).
    all: rewrite L; split; [reflexivity|]; split; [cbn [length]; now f_equal|].
    all: cbn [forallb level_valid positions_ok hash_last length].
    all: rewrite C; rewrite Nat.add_succ_r; change (S (idx + length r)) with (S idx + length r)%nat;
         rewrite D.
    + subst l. split; reflexivity.
    + subst l. split; [reflexivity|]. f_equal.
      change (negb (is_hash [35]) || is_nil r) with (is_nil r).
      destruct r as [|l2 r]; cbn [length is_nil].
      * apply Nat.eqb_eq. lia.
      * apply Nat.eqb_neq. lia.
    + subst l. split; reflexivity.
    + change (negb (has_wild l)) with (no_wild l). rewrite E4, E2, E5. split; reflexivity.
    + change (negb (has_wild l)) with (no_wild l). rewrite E4, E2. split; reflexivity.
Qed.

Lemma validators_agree : forall s, is_valid s = true <-> exists F, parse s = inl F.
Proof.
  intros s. rewrite valid_is_spec.
  destruct s as [|c r].
  - split; [discriminate|intros [F H]; discriminate].
  - unfold spec_valid_filter, parse. rewrite split_levels, flo_decomp.
    pose proof (parse_levels_ok (levels (c :: r)) 0) as P.
    destruct (parse_levels 0 (levels (c :: r))) as [f|].
    + destruct P as (A & B & C & D). unfold filter_valid.
      rewrite A, C, B. cbn [Nat.add] in D. rewrite D. cbn [andb].
      destruct (hash_last (levels (c :: r))); split; eauto; try discriminate.
      intros [F H]; discriminate.
    + rewrite P. split; [discriminate|intros [F H]; discriminate].
Qed.

(* ---------------------------------------------------------------- matching vs spec *)

Lemma mtg_step {T : Type} (ml : T -> level -> nat -> bool) j x F t Ts :
  match_topic_go ml j (x :: F) (t :: Ts) =
  match x with
  | Multi => ml t Multi j
  | _ => ml t x j && match_topic_go ml (S j) F Ts
  end.
Proof. destruct x; cbn [match_topic_go]; destruct (ml t _ j); reflexivity. Qed.

Lemma no_wild_starts l : no_wild l = true -> starts_wild l = false.
Proof.
  destruct l as [|c l]; [reflexivity|].
  rewrite no_wild_cons. unfold starts_wild, is_wild_char, sPLUS, sHASH.
  destruct ((c =? 43) || (c =? 35)); [discriminate|reflexivity].
Qed.

Lemma plv_plain idx l x : plv idx l (Some x) -> x <> Single -> x <> Multi ->
  is_hash l = false /\ is_plus l = false /\ starts_wild l = false /\
  forall tl j, match_level_str tl x j = bytes_eqb l tl.
Proof.
  inversion 1; subst; intros; try congruence.
  - repeat split.
  - repeat split; auto using no_wild_starts. intros tl j. cbn [match_level_str].
    destruct (bytes_eqb l tl) eqn:E; [|apply andb_false_r].
    apply bytes_eqb_eq in E. subst tl. now rewrite andb_true_r.
  - repeat split; auto using no_wild_starts.
Qed.

Lemma match_tail ls : forall idx F, parse_levels idx ls = Some F ->
  forall Ts j, match_topic_go match_level_str (S j) F Ts = lmatch ls Ts.
Proof.
  induction ls as [|l r IH]; intros idx F; cbn [parse_levels].
  - intros [= <-] Ts j. destruct Ts; reflexivity.
  - pose proof (parse_level_plv idx l) as P.
    destruct (parse_level idx l) as [x|]; [|discriminate].
    destruct (parse_levels (S idx) r) as [F'|] eqn:E; [|discriminate].
    intros [= <-] Ts j. cbn [lmatch].
    inversion P; subst.
    + change (is_hash [43]) with false. cbv iota.
      destruct Ts as [|tl Ts]; [reflexivity|].
      rewrite mtg_step. change (is_plus [43]) with true.
      cbn [match_level_str Nat.eqb andb orb negb]. apply (IH _ _ E).
    + change (is_hash [35]) with true. destruct Ts; reflexivity.
    + destruct (plv_plain _ _ _ P) as (Hh & Hp & _ & Hm); [discriminate..|].
      rewrite Hh, Hp. destruct Ts as [|tl Ts]; [reflexivity|].
      rewrite mtg_step, Hm. cbn [orb]. f_equal. apply (IH _ _ E).
    + destruct (plv_plain _ _ _ P) as (Hh & Hp & _ & Hm); [discriminate..|].
      rewrite Hh, Hp. destruct Ts as [|tl Ts]; [reflexivity|].
      rewrite mtg_step, Hm. cbn [orb]. f_equal. apply (IH _ _ E).
    + destruct (plv_plain _ _ _ P) as (Hh & Hp & _ & Hm); [discriminate..|].
      rewrite Hh, Hp. destruct Ts as [|tl Ts]; [reflexivity|].
      rewrite mtg_step, Hm. cbn [orb]. f_equal. apply (IH _ _ E).
Qed.

Lemma starts_wild_levels f l ls : levels f = l :: ls -> starts_wild f = starts_wild l.
Proof.
  destruct f as [|c r]; cbn [levels].
  - intros [= <- <-]; reflexivity.
  - destruct (levels_cons r) as [l' [ls' E]]; rewrite E.
    unfold sSLASH; destruct (N.eqb_spec c 47).
    + subst c; intros [= <- <-]; reflexivity.
    + intros [= <- <-]; reflexivity.
Qed.

Lemma starts_dollar_levels t l ls : levels t = l :: ls -> starts_dollar t = is_system l.
Proof.
  destruct t as [|c r]; cbn [levels].
  - intros [= <- <-]; reflexivity.
  - destruct (levels_cons r) as [l' [ls' E]]; rewrite E.
    unfold sSLASH; destruct (N.eqb_spec c 47).
    + subst c; intros [= <- <-]; reflexivity.
    + intros [= <- <-]; reflexivity.
Qed.

Lemma match_is_spec : forall f F t,
  parse f = inl F -> spec_topic_name t = true -> matches_topic F t = spec_matchb f t.
Proof.
  intros f F t H _. apply parse_inv in H as (_ & P & _).
  unfold matches_topic, spec_matchb. rewrite split_levels.
  destruct (levels_cons f) as [l [ls E]]. destruct (levels_cons t) as [tl [Ts Et]].
  rewrite (starts_wild_levels _ _ _ E), (starts_dollar_levels _ _ _ Et), E, Et.
  rewrite E in P. cbn [parse_levels] in P.
  pose proof (parse_level_plv 0 l) as PL.
  destruct (parse_level 0 l) as [x|]; [|discriminate].
  destruct (parse_levels 1 ls) as [F'|] eqn:E2; [|discriminate].
  injection P as <-.
  rewrite mtg_step. cbn [lmatch].
  inversion PL; subst.
  - change (starts_wild [43]) with true; change (is_hash [43]) with false;
      change (is_plus [43]) with true.
    cbn [match_level_str Nat.eqb andb orb]. destruct (is_system tl); cbn [negb andb]; [reflexivity|].
    apply (match_tail _ _ _ E2).
  - change (starts_wild [35]) with true; change (is_hash [35]) with true.
    cbn [match_level_str Nat.eqb andb orb]. destruct (is_system tl); reflexivity.
  - destruct (plv_plain _ _ _ PL) as (Hh & Hp & Hs & Hm); [discriminate..|].
    rewrite Hh, Hp, Hs, Hm. cbn [andb orb]. f_equal. apply (match_tail _ _ _ E2).
  - destruct (plv_plain _ _ _ PL) as (Hh & Hp & Hs & Hm); [discriminate..|].
    rewrite Hh, Hp, Hs, Hm. cbn [andb orb]. f_equal. apply (match_tail _ _ _ E2).
  - destruct (plv_plain _ _ _ PL) as (Hh & Hp & Hs & Hm); [discriminate..|].
    rewrite Hh, Hp, Hs, Hm. cbn [andb orb]. f_equal. apply (match_tail _ _ _ E2).
Qed.

(* ---------------------------------------------------------------- covering is sound *)

Definition lvl_ok (g : level) : Prop :=
  match g with Normal r => is_system r = false | _ => True end.

Definition hd_ok (G : filter) : Prop :=
  match G with g :: _ => lvl_ok g | [] => True end.

Lemma level_is_multi (f : level) : f = Multi \/ f <> Multi.
Proof. destruct f; (left; reflexivity) || (right; discriminate). Qed.

Lemma mtg_step_nm {T : Type} (ml : T -> level -> nat -> bool) j x F t Ts :
  x <> Multi ->
  match_topic_go ml j (x :: F) (t :: Ts) = ml t x j && match_topic_go ml (S j) F Ts.
Proof. intros H. rewrite mtg_step. destruct x; congruence. Qed.

Lemma lvl_multi_false f i : f <> Multi -> match_level_lvl Multi f i = false.
Proof. destruct f; intros; try congruence; cbn; now rewrite ?andb_false_r. Qed.

Ltac bsplit :=
  repeat match goal with
         | H : _ && _ = true |- _ => apply andb_true_iff in H; destruct H
         | H : bytes_eqb _ _ = true |- _ => apply bytes_eqb_eq in H; subst
         end.

Lemma lvl_trans f g tl i : (i = 0%nat -> lvl_ok g) -> f <> Multi ->
  match_level_lvl g f i = true -> match_level_str tl g i = true ->
  match_level_str tl f i = true.
Proof.
  intros Hok Hf H1 H2.
  destruct i as [|i]; destruct f, g;
    cbn [match_level_lvl match_level_str level_eqb Nat.eqb andb negb lvl_ok] in *;
    try congruence; try discriminate; bsplit; try specialize (Hok eq_refl);
    rewrite ?bytes_eqb_refl, ?andb_true_r; auto.
  - rewrite Hok. reflexivity.
  - destruct tl; [reflexivity|discriminate].
Qed.

Lemma cover_gen F : forall G Ts i, (i = 0%nat -> hd_ok G) ->
  match_topic_go match_level_lvl i F G = true ->
  match_topic_go match_level_str i G Ts = true ->
  match_topic_go match_level_str i F Ts = true.
Proof.
  induction F as [|f F IH]; intros G Ts i Hok H1 H2.
  - destruct G; [exact H2|discriminate].
  - destruct (level_is_multi f) as [->|Hf].
    + destruct Ts as [|tl Ts]; [reflexivity|].
      rewrite mtg_step. destruct i as [|i]; [|reflexivity].
      specialize (Hok eq_refl).
      destruct G as [|g G]; [discriminate|].
      rewrite mtg_step in H1. rewrite mtg_step in H2.
      destruct g; cbn [match_level_lvl match_level_str Nat.eqb andb negb hd_ok lvl_ok] in *;
        try discriminate; bsplit; auto.
      * rewrite Hok. reflexivity.
      * destruct tl; [reflexivity|discriminate].
    + destruct G as [|g G].
      { destruct f; try discriminate; congruence. }
      destruct (level_is_multi g) as [->|Hg].
      { rewrite mtg_step_nm in H1 by assumption.
        rewrite lvl_multi_false in H1 by assumption. discriminate. }
      destruct Ts as [|tl Ts].
      { destruct g; try discriminate; congruence. }
      rewrite mtg_step_nm in H1 by assumption. rewrite mtg_step_nm in H2 by assumption.
      rewrite mtg_step_nm by assumption. bsplit.
      apply andb_true_iff; split.
      * eapply lvl_trans; eauto.
      * eapply IH; eauto. intros; discriminate.
Qed.

Lemma parse_hd_ok g G : parse g = inl G -> hd_ok G.
Proof.
  intros H. apply parse_inv in H as (_ & P & _).
  destruct (levels_cons g) as [l [ls E]]. rewrite E in P. cbn [parse_levels] in P.
  pose proof (parse_level_plv 0 l) as PL.
  destruct (parse_level 0 l) as [x|]; [|discriminate].
  destruct (parse_levels 1 ls) as [G'|]; [|discriminate].
  injection P as <-. inversion PL; subst; cbn; auto.
Qed.

Lemma cover_sound : forall f g F G t,
  parse f = inl F -> parse g = inl G -> matches_filter F G = true ->
  spec_topic_name t = true -> matches_topic G t = true -> matches_topic F t = true.
Proof.
  intros f g F G t _ HG HC _ HM. unfold matches_topic, matches_filter in *.
  eapply cover_gen; eauto. intros _. eapply parse_hd_ok; eauto.
Qed.
