(* Proofs/CodecV5Fields.v -- lemma library for the MQTT 5 codec model:
   lengths, the writer calculus (inversion / length / no-panic), primitive field encoders. *)
From Coq Require Import ZArith ZifyN ZifyBool Lia.
From MV Require Import Base.Prelude Base.Res Base.VarInt Base.Utf8 Model.CodecV5 Proofs.VarIntProofs.
Ltac Zify.zify_post_hook ::= Z.div_mod_to_equations.

(* ------------------------------------------------------------------ len *)
Lemma len_nil : len (@nil N) = 0.
Proof. reflexivity. Qed.
Lemma len_cons a (s : bytes) : len (a :: s) = 1 + len s.
Proof. unfold len. cbn [length]. lia. Qed.
Lemma len_app (a b : bytes) : len (a ++ b) = len a + len b.
Proof. unfold len. rewrite app_length. lia. Qed.
Lemma len_length (s : bytes) : N.to_nat (len s) = length s.
Proof. unfold len. lia. Qed.
Lemma len_firstn n (s : bytes) : len (firstn (N.to_nat n) s) = N.min n (len s).
Proof. unfold len. rewrite firstn_length. lia. Qed.
Lemma len_skipn n (s : bytes) : len (skipn (N.to_nat n) s) = len s - n.
Proof. unfold len. rewrite skipn_length. lia. Qed.
Lemma len_0 (s : bytes) : len s = 0 -> s = [].
Proof. destruct s; [reflexivity|]. rewrite len_cons. lia. Qed.
Lemma len_rev (s : bytes) : len (rev s) = len s.
Proof. unfold len. now rewrite rev_length. Qed.
#[export] Hint Rewrite len_nil len_cons len_app len_firstn len_skipn len_rev : len.
Ltac lens := autorewrite with len in *.

Lemma firstn_len_app (a b : bytes) : firstn (N.to_nat (len a)) (a ++ b) = a.
Proof.
  rewrite len_length. rewrite firstn_app, Nat.sub_diag, firstn_all. cbn [firstn]. now rewrite app_nil_r.
Qed.
Lemma skipn_len_app (a b : bytes) : skipn (N.to_nat (len a)) (a ++ b) = b.
Proof.
  rewrite len_length. rewrite skipn_app, Nat.sub_diag, skipn_all. reflexivity.
Qed.
Lemma split_to_app (a b : bytes) n : n = len a -> split_to n (a ++ b) = (a, b).
Proof. intros ->. unfold split_to. now rewrite firstn_len_app, skipn_len_app. Qed.

(* ------------------------------------------------------------------ res *)
Definition np {A} (r : res A) : Prop := match r with Panic _ => False | _ => True end.

Lemma np_bind {A B} (r : res A) (f : A -> res B) :
  np r -> (forall a, r = Ok a -> np (f a)) -> np (bind r f).
Proof. destruct r; cbn; auto. Qed.
Lemma np_ensure c e : np (ensure c e).
Proof. destruct c; exact I. Qed.
Lemma bind_ok {A B} (r : res A) (f : A -> res B) b :
  bind r f = Ok b -> exists a, r = Ok a /\ f a = Ok b.
Proof. destruct r; cbn; try discriminate. eauto. Qed.
Lemma ensure_ok c e u : ensure c e = Ok u -> c = true.
Proof. destruct c; [reflexivity|discriminate]. Qed.
Lemma sub_chk_ok a b : b <= a -> sub_chk a b = Ok (a - b).
Proof. intros. unfold sub_chk. replace (b <=? a) with true by lia. reflexivity. Qed.
Lemma sub_chk_inv a b v : sub_chk a b = Ok v -> b <= a /\ v = a - b.
Proof. unfold sub_chk. destruct (b <=? a) eqn:E; [|discriminate]. intros [= <-]. lia. Qed.

(* ------------------------------------------------------------------ var_int_len *)
Lemma var_int_len_pos n : 1 <= var_int_len n.
Proof. unfold var_int_len. repeat match goal with |- context [if ?c then _ else _] => destruct c end; lia. Qed.
Lemma var_int_len_le10 n : var_int_len n <= 10.
Proof. unfold var_int_len. repeat match goal with |- context [if ?c then _ else _] => destruct c end; lia. Qed.
Lemma var_int_len_le4 n : n <= VI_MAX -> var_int_len n <= 4.
Proof.
  unfold VI_MAX. intros. rewrite var_int_len_small by (unfold VI_MAX; lia).
  repeat match goal with |- context [if ?a <? ?b then _ else _] => destruct (a <? b) eqn:? end; lia.
Qed.
Lemma var_int_len_mono a b : a <= b -> var_int_len a <= var_int_len b.
Proof.
  intros H. unfold var_int_len.
  repeat match goal with |- context [if ?a <? ?b then _ else _] => destruct (a <? b) eqn:? end; lia.
Qed.
Lemma var_int_len_0 : var_int_len 0 = 1.
Proof. reflexivity. Qed.
Lemma varlen_inverse' n : n <= VI_MAX -> var_int_len_from_size (var_int_len n + n) = Ok n.
Proof. intros. rewrite N.add_comm. now apply varlen_inverse. Qed.

(* ------------------------------------------------------------------ writer calculus *)
Lemma wseq_inv a k bs :
  wseq a k = (bs, Ok tt) -> exists x y, a = (x, Ok tt) /\ k x = (y, Ok tt) /\ bs = x ++ y.
Proof.
  destruct a as [x [[]|e|p]]; cbn [wseq]; try discriminate.
  destruct (k x) as [y r] eqn:E. intros [= <- ->]. eauto.
Qed.
Lemma wseq_ok a k x y : a = (x, Ok tt) -> k x = (y, Ok tt) -> wseq a k = (x ++ y, Ok tt).
Proof. intros -> H. cbn [wseq]. now rewrite H. Qed.
Lemma wseq_ok_gen a k x : a = (x, Ok tt) -> wseq a k = (x ++ fst (k x), snd (k x)).
Proof. intros ->. cbn [wseq]. now destruct (k x). Qed.
Lemma wlet_inv {A} (r : res A) k bs :
  wlet r k = (bs, Ok tt) -> exists v, r = Ok v /\ k v = (bs, Ok tt).
Proof. destruct r; cbn [wlet]; try discriminate. eauto. Qed.
Lemma wput_inv b bs : wput b = (bs, Ok tt) -> bs = b.
Proof. now intros [= <-]. Qed.
Lemma wnop_inv bs : wnop = (bs, Ok tt) -> bs = [].
Proof. now intros [= <-]. Qed.

(* result-only views *)
Lemma wseq_err a k bs e :
  wseq a k = (bs, Err e) ->
  (exists x, a = (x, Err e)) \/ (exists x y, a = (x, Ok tt) /\ k x = (y, Err e)).
Proof.
  destruct a as [x [[]|e'|p]]; cbn [wseq]; try discriminate.
  - destruct (k x) as [y r] eqn:E. intros [= <- ->]. right; eauto.
  - intros [= <- <-]. left; eauto.
Qed.

(* length of what a successful writer wrote *)
Definition wlen (w : wr) (n : N) : Prop := forall bs, w = (bs, Ok tt) -> len bs = n.

Lemma wlen_seq a k n m :
  wlen a n -> (forall x, a = (x, Ok tt) -> wlen (k x) m) -> wlen (wseq a k) (n + m).
Proof.
  intros Ha Hk bs H. apply wseq_inv in H as (x & y & E1 & E2 & ->).
  rewrite len_app. rewrite (Ha _ E1), (Hk _ E1 _ E2). reflexivity.
Qed.
Lemma wlen_then a b n m : wlen a n -> wlen b m -> wlen (a >>> b) (n + m).
Proof. intros. apply wlen_seq; auto. Qed.
Lemma wlen_put b : wlen (wput b) (len b).
Proof. intros bs [= <-]. reflexivity. Qed.
Lemma wlen_nop : wlen wnop 0.
Proof. intros bs [= <-]. reflexivity. Qed.
Lemma wlen_fail e n : wlen (wfail e) n.
Proof. intros bs [=]. Qed.
Lemma wlen_panic p n : wlen (wpanic p) n.
Proof. intros bs [=]. Qed.
Lemma wlen_let {A} (r : res A) k n : (forall v, r = Ok v -> wlen (k v) n) -> wlen (wlet r k) n.
Proof. intros H bs E. apply wlet_inv in E as (v & E1 & E2). eapply H; eauto. Qed.
Lemma wlen_eq w n m : wlen w n -> n = m -> wlen w m.
Proof. now intros H <-. Qed.

(* the writer does not panic *)
Definition wnp (w : wr) : Prop := match snd w with Panic _ => False | _ => True end.

Lemma wnp_seq a k : wnp a -> (forall x, a = (x, Ok tt) -> wnp (k x)) -> wnp (wseq a k).
Proof.
  destruct a as [x [[]|e|p]]; unfold wnp; cbn [wseq snd]; intros Ha Hk; auto.
  specialize (Hk x eq_refl). destruct (k x) as [y r]. exact Hk.
Qed.
Lemma wnp_then a b : wnp a -> wnp b -> wnp (a >>> b).
Proof. intros. apply wnp_seq; auto. Qed.
Lemma wnp_put b : wnp (wput b).
Proof. exact I. Qed.
Lemma wnp_nop : wnp wnop.
Proof. exact I. Qed.
Lemma wnp_fail e : wnp (wfail e).
Proof. exact I. Qed.
Lemma wnp_let {A} (r : res A) k : np r -> (forall v, r = Ok v -> wnp (k v)) -> wnp (wlet r k).
Proof. destruct r; cbn [wlet np]; intros Hn Hk; [apply Hk; reflexivity|exact I|contradiction]. Qed.

(* ------------------------------------------------------------------ primitive field writers *)
Lemma wlen_u8 n : wlen (w_u8 n) 1.
Proof. apply wlen_put. Qed.
Lemma wlen_bool b : wlen (w_bool b) 1.
Proof. apply wlen_put. Qed.
Lemma wlen_u16 n : wlen (w_u16 n) 2.
Proof. apply wlen_put. Qed.
Lemma wlen_u32 n : wlen (w_u32 n) 4.
Proof. apply wlen_put. Qed.
Lemma w_bytes_inv b bs : w_bytes b = (bs, Ok tt) -> len b <= U16MAX /\ bs = len b / 256 :: len b mod 256 :: b.
Proof.
  unfold w_bytes. destruct (len b <=? U16MAX) eqn:E; [|discriminate]. intros [= <-]. split; [lia|reflexivity].
Qed.
Lemma w_bytes_ok b : len b <= U16MAX -> w_bytes b = (len b / 256 :: len b mod 256 :: b, Ok tt).
Proof. intros. unfold w_bytes. replace (len b <=? U16MAX) with true by lia. reflexivity. Qed.
Lemma wlen_bytes b : wlen (w_bytes b) (es_bytes b).
Proof. intros bs H. apply w_bytes_inv in H as [_ ->]. unfold es_bytes. rewrite !len_cons. lia. Qed.
Lemma wnp_bytes b : wnp (w_bytes b).
Proof. unfold w_bytes. destruct (len b <=? U16MAX); exact I. Qed.
Lemma wlen_uprop p : wlen (w_uprop p) (es_uprop p).
Proof. apply wlen_then; apply wlen_bytes. Qed.
Lemma wnp_uprop p : wnp (w_uprop p).
Proof. apply wnp_then; apply wnp_bytes. Qed.
Lemma w_vi_inv n bs : w_vi n = (bs, Ok tt) -> enc_vi n = Some bs.
Proof. unfold w_vi, write_vi. destruct (enc_vi n); cbn [wlet]; [|discriminate]. now intros [= <-]. Qed.
Lemma w_vi_ok n bs : enc_vi n = Some bs -> w_vi n = (bs, Ok tt).
Proof. unfold w_vi, write_vi. now intros ->. Qed.
Lemma wlen_vi n : wlen (w_vi n) (var_int_len n).
Proof. intros bs H. apply w_vi_inv in H. now apply enc_vi_len. Qed.
Lemma wnp_vi n : n <= VI_MAX -> wnp (w_vi n).
Proof. intros H. destruct (enc_vi_some n H) as [b E]. now rewrite (w_vi_ok _ _ E). Qed.
Lemma w_vi_ok_bound n bs : w_vi n = (bs, Ok tt) -> n <= VI_MAX.
Proof.
  intros H. apply w_vi_inv in H. destruct (N.leb_spec n VI_MAX); [assumption|].
  rewrite enc_vi_none in H by assumption. discriminate.
Qed.

Ltac wlen_struct :=
  lazymatch goal with
  | |- wlen (wseq _ (fun _ => _)) _ => eapply wlen_then; [wlen_struct | wlen_struct]
  | |- wlen (w_u8 _) _ => apply wlen_u8
  | |- wlen (w_bool _) _ => apply wlen_bool
  | |- wlen (w_u16 _) _ => apply wlen_u16
  | |- wlen (w_u32 _) _ => apply wlen_u32
  | |- wlen (w_bytes _) _ => apply wlen_bytes
  | |- wlen (w_uprop _) _ => apply wlen_uprop
  | |- wlen (w_vi _) _ => apply wlen_vi
  | |- wlen (wput _) _ => apply wlen_put
  | |- wlen wnop _ => apply wlen_nop
  | |- _ => eassumption
  end.
Ltac wlen_tac := eapply wlen_eq; [wlen_struct | try (autorewrite with len; lia)].

Lemma wlen_uprops l : wlen (w_uprops l) (es_uprops l).
Proof.
  induction l as [|p r IH]; cbn [w_uprops es_uprops]; [apply wlen_nop|]. wlen_tac.
Qed.
Lemma wnp_uprops l : wnp (w_uprops l).
Proof.
  induction l as [|p r IH]; cbn [w_uprops]; [exact I|].
  apply wnp_then; [exact I|]. apply wnp_then; [apply wnp_uprop|exact IH].
Qed.

Lemma wlen_prop {A} (enc : A -> wr) sz v pt :
  (forall x, wlen (enc x) (sz x)) -> wlen (w_prop enc v pt) (eps sz v).
Proof.
  intros H. destruct v; cbn [w_prop eps]; [|apply wlen_nop]. apply wlen_then; [apply wlen_u8|apply H].
Qed.
Lemma wlen_prop_default {A} (enc : A -> wr) sz d v pt :
  (forall x, wlen (enc x) (sz x)) -> wlen (w_prop_default enc d v pt) (eps_default sz d v).
Proof.
  intros H. unfold w_prop_default, eps_default. destruct d; [apply wlen_nop|].
  apply wlen_then; [apply wlen_u8|apply H].
Qed.
Lemma wnp_prop {A} (enc : A -> wr) v pt : (forall x, wnp (enc x)) -> wnp (w_prop enc v pt).
Proof. intros H. destruct v; cbn [w_prop]; [|exact I]. apply wnp_then; [exact I|apply H]. Qed.
Lemma wnp_prop_default {A} (enc : A -> wr) d v pt : (forall x, wnp (enc x)) -> wnp (w_prop_default enc d v pt).
Proof. intros H. unfold w_prop_default. destruct d; [exact I|]. apply wnp_then; [exact I|apply H]. Qed.

Lemma wlen_sub_id id : wlen (w_sub_id id) (1 + var_int_len id).
Proof. unfold w_sub_id. destruct (MAX_PACKET_SIZE <? id); [apply wlen_fail|wlen_tac]. Qed.
Lemma wnp_sub_id id : wnp (w_sub_id id).
Proof.
  unfold w_sub_id. destruct (MAX_PACKET_SIZE <? id) eqn:E; [exact I|].
  apply wnp_then; [exact I|]. apply wnp_vi. unfold MAX_PACKET_SIZE, VI_MAX in *. lia.
Qed.
Lemma wlen_sub_ids l : wlen (w_sub_ids l) (sub_ids_size l).
Proof.
  induction l as [|p r IH]; cbn [w_sub_ids sub_ids_size]; [apply wlen_nop|].
  apply wlen_then; [apply wlen_sub_id|exact IH].
Qed.
Lemma wnp_sub_ids l : wnp (w_sub_ids l).
Proof.
  induction l as [|p r IH]; cbn [w_sub_ids]; [exact I|]. apply wnp_then; [apply wnp_sub_id|exact IH].
Qed.
Lemma wlen_sub_filters l : wlen (w_sub_filters l) (sub_filters_size l).
Proof.
  induction l as [|[f o] r IH]; cbn [w_sub_filters sub_filters_size]; [apply wlen_nop|]. wlen_tac.
Qed.
Lemma wnp_sub_filters l : wnp (w_sub_filters l).
Proof.
  induction l as [|[f o] r IH]; cbn [w_sub_filters]; [exact I|].
  apply wnp_then; [apply wnp_bytes|]. apply wnp_then; [exact I|exact IH].
Qed.
Lemma wlen_unsub_filters l : wlen (w_unsub_filters l) (unsub_filters_size l).
Proof.
  induction l as [|f r IH]; cbn [w_unsub_filters unsub_filters_size]; [apply wlen_nop|]. wlen_tac.
  unfold es_bytes. lia.
Qed.
Lemma wnp_unsub_filters l : wnp (w_unsub_filters l).
Proof.
  induction l as [|f r IH]; cbn [w_unsub_filters]; [exact I|]. apply wnp_then; [apply wnp_bytes|exact IH].
Qed.

Lemma wlen_sz1_bool x : wlen (w_bool x) (sz1 x). Proof. apply wlen_bool. Qed.
Lemma wlen_sz2_u16 x : wlen (w_u16 x) (sz2 x). Proof. apply wlen_u16. Qed.
Lemma wlen_sz4_u32 x : wlen (w_u32 x) (sz4 x). Proof. apply wlen_u32. Qed.

(* ------------------------------------------------------------------ optional (diagnostic) properties *)
Lemma es_bytes_ge b : 2 <= es_bytes b.
Proof. unfold es_bytes. lia. Qed.
Lemma es_uprop_ge p : 4 <= es_uprop p.
Proof. unfold es_uprop, es_bytes. lia. Qed.

Lemma esop_le ups reason lim : encoded_size_opt_props ups reason lim <= lim.
Proof.
  revert lim. induction ups as [|p r IH]; intros lim; cbn [encoded_size_opt_props].
  - destruct reason; [|lia]. destruct (1 + es_bytes b <=? lim) eqn:E; lia.
  - destruct (lim <? 1 + es_uprop p) eqn:E; [lia|]. specialize (IH (lim - (1 + es_uprop p))). lia.
Qed.

Lemma esop_nil_none lim : encoded_size_opt_props [] None lim = 0.
Proof. reflexivity. Qed.

(* the encoder writes exactly what the size function counted *)
Lemma eop_len ups reason lim :
  wlen (encode_opt_props ups reason (encoded_size_opt_props ups reason lim))
       (encoded_size_opt_props ups reason lim).
Proof.
  revert lim. induction ups as [|p r IH]; intros lim; cbn [encoded_size_opt_props encode_opt_props].
  - destruct reason as [s|]; [|apply wlen_nop].
    destruct (1 + es_bytes s <=? lim) eqn:E.
    + replace (len s <? 1 + es_bytes s) with true by (unfold es_bytes; lia).
      apply wlen_then; [apply wlen_u8|apply wlen_bytes].
    + replace (len s <? 0) with false by lia. apply wlen_nop.
  - pose proof (es_uprop_ge p) as Hp. unfold es_uprop in *.
    destruct (lim <? 1 + (es_bytes (fst p) + es_bytes (snd p))) eqn:E.
    + replace (0 <? 1 + es_bytes (fst p) + es_bytes (snd p)) with true by lia. apply wlen_nop.
    + set (E' := encoded_size_opt_props r reason _).
      replace (1 + (es_bytes (fst p) + es_bytes (snd p)) + E' <? 1 + es_bytes (fst p) + es_bytes (snd p))
        with false by lia.
      replace (1 + (es_bytes (fst p) + es_bytes (snd p)) + E' - (1 + es_bytes (fst p) + es_bytes (snd p)))
        with E' by lia.
      eapply wlen_eq; [eapply wlen_then; [apply wlen_u8|eapply wlen_then; [apply wlen_uprop|apply IH]]|].
      unfold es_uprop. fold E'. lia.
Qed.

Lemma eop_np ups reason size : wnp (encode_opt_props ups reason size).
Proof.
  revert size. induction ups as [|p r IH]; intros size; cbn [encode_opt_props].
  - destruct reason as [s|]; [|exact I]. destruct (len s <? size); [|exact I].
    apply wnp_then; [exact I|apply wnp_bytes].
  - destruct (size <? _); [exact I|]. apply wnp_then; [exact I|]. apply wnp_then; [apply wnp_uprop|apply IH].
Qed.

(* ack_props::{encoded_size, encode} *)
Lemma apes_ge1 ups reason lim : 1 <= ack_props_encoded_size ups reason lim.
Proof.
  unfold ack_props_encoded_size. destruct (lim <? 4); [lia|].
  pose proof (var_int_len_pos (encoded_size_opt_props ups reason (lim - 4))). lia.
Qed.

Lemma ack_props_len ups reason lim : lim <= VI_MAX ->
  wlen (ack_props_encode ups reason (ack_props_encoded_size ups reason lim))
       (ack_props_encoded_size ups reason lim).
Proof.
  intros Hl. unfold ack_props_encoded_size, ack_props_encode.
  destruct (lim <? 4) eqn:E4. { cbn. apply wlen_u8. }
  set (l := encoded_size_opt_props ups reason (lim - 4)).
  assert (Hle : l <= lim - 4) by apply esop_le.
  pose proof (var_int_len_pos l) as Hv.
  replace (var_int_len l + l =? 0) with false by lia.
  destruct (var_int_len l + l =? 1) eqn:E1.
  - assert (l = 0) by lia. replace (var_int_len l + l) with 1 by lia. apply wlen_u8.
  - rewrite varlen_inverse' by lia. cbn [wlet].
    apply wlen_then; [apply wlen_vi|apply eop_len].
Qed.

Lemma ack_props_np ups reason lim : lim <= VI_MAX ->
  wnp (ack_props_encode ups reason (ack_props_encoded_size ups reason lim)).
Proof.
  intros Hl. unfold ack_props_encoded_size, ack_props_encode.
  destruct (lim <? 4) eqn:E4. { cbn. exact I. }
  set (l := encoded_size_opt_props ups reason (lim - 4)).
  assert (Hle : l <= lim - 4) by apply esop_le.
  pose proof (var_int_len_pos l) as Hv.
  replace (var_int_len l + l =? 0) with false by lia.
  destruct (var_int_len l + l =? 1) eqn:E1; [exact I|].
  rewrite varlen_inverse' by lia. cbn [wlet].
  apply wnp_then; [apply wnp_vi; lia|apply eop_np].
Qed.
