(* Proofs/InboundRun.v -- more layer-2 results about the full operational model of Model/Inbound.v, over ALL
   operation lists, on top of Proofs/InboundInv.v.
   Part 1: the response queue (Model/RespQueue.v as driven by d_call_service / finish_deferred) never indexes
   out of bounds.  [W q]: every response index the dispatcher still tracks (the inline call's `response_idx`,
   the spawned calls' indices) is distinct, < 2^64 and points, relative to `base`, at its own SPending slot.
   [J B s]: W (q_ s), and at most B packets sit in queue slots + read buffer + channel together (every packet
   takes at most one slot, so the queue stays shorter than 2^64 while fewer than 2^64 operations were given,
   and the usize wrapping arithmetic is exact). *)
From Coq Require Import ZArith ZifyN ZifyBool Lia List NArith Bool.
From MV Require Import Base.Prelude Model.RespQueue Model.Inbound Proofs.InboundLogic Proofs.InboundInv.
Import ListNotations.
Open Scope N_scope.

(* ================================================================== the response queue never indexes out of bounds *)
Section Arith.
Local Ltac Zify.zify_post_hook ::= Z.div_mod_to_equations.
Lemma wadd_lt' a b : wadd a b < W64.
Proof. unfold wadd, W64. lia. Qed.
Lemma wsub_wadd' b n : b < W64 -> n < W64 -> wsub (wadd b n) b = n.
Proof. unfold wsub, wadd, W64. lia. Qed.
Lemma wsub_shift' i b n k : wsub i b = n + k -> wsub i (wadd b k) = n.
Proof. unfold wsub, wadd, W64. lia. Qed.
Lemma wsub_inj x y b : x < W64 -> y < W64 -> b < W64 -> wsub x b = wsub y b -> x = y.
Proof. unfold wsub, W64. lia. Qed.
Lemma wsub_lt x b : wsub x b < W64.
Proof. unfold wsub, W64. lia. Qed.
End Arith.

Definition tracked (q : rq) : list N :=
  (match response q with Some _ => [response_idx q] | None => [] end) ++ map snd (spawned q).
Definition pos_at (b : N) (l : list slot) (x : N) : Prop :=
  exists j, wsub x b = N.of_nat j /\ nth_error l j = Some SPending.

(* every tracked response index (the inline call's, the spawned calls') points at its own pending slot *)
Record W (q : rq) : Prop := mkW {
  w_base : base q < W64;
  w_lt : forall x, In x (tracked q) -> x < W64;
  w_nodup : NoDup (tracked q);
  w_pos : forall x, In x (tracked q) -> pos_at (base q) (queue q) x;
  w_np : panicked q = false
}.

Lemma W_ext q q' :
  base q' = base q -> queue q' = queue q -> tracked q' = tracked q -> panicked q' = panicked q -> W q -> W q'.
Proof. intros H1 H2 H3 H4 [A B C D E']. constructor; rewrite ?H1, ?H2, ?H3, ?H4; auto. Qed.

Lemma apply_item_W q r : W q -> W (apply_item q r).
Proof. intros H. apply (W_ext q); auto; destruct r; reflexivity. Qed.

Lemma pop_W q :
  W q -> (forall x, In x (tracked q) -> wsub x (base q) <> 0) -> W (pop_front q).
Proof.
  intros [A B C D E'] H0. constructor; cbn [pop_front base queue panicked]; auto.
  - apply wadd_lt'.
  - intros x Hx. change (In x (tracked q)) in Hx. destruct (D x Hx) as (j & J1 & J2).
    destruct j as [|j]; [exfalso; apply (H0 x Hx); rewrite J1; reflexivity|].
    exists j. split.
    + apply wsub_shift'. rewrite J1. lia.
    + destruct (queue q); [discriminate|exact J2].
Qed.

Lemma drain_W fuel : forall q, W q -> W (drain fuel q).
Proof.
  induction fuel as [|f IH]; intros q H; cbn [drain]; auto.
  destruct (queue q) as [|[|r] t] eqn:Eq; auto.
  apply IH, apply_item_W, pop_W; auto.
  intros x Hx E0. destruct (w_pos q H x Hx) as (j & J1 & J2). rewrite E0 in J1.
  destruct j; [|lia]. rewrite Eq in J2. discriminate.
Qed.

Lemma nth_error_set_nth_other {A} (l : list A) n m v : n <> m -> nth_error (set_nth n v l) m = nth_error l m.
Proof.
  revert n m; induction l as [|a l IH]; intros [|n] [|m] H; cbn [set_nth nth_error]; auto; try congruence.
Qed.

Lemma drain_len fuel : forall q, (length (queue (drain fuel q)) <= length (queue q))%nat.
Proof.
  induction fuel as [|f IH]; intros q; cbn [drain]; auto.
  destruct (queue q) as [|[|r] t] eqn:Eq; rewrite ?Eq; auto.
  eapply Nat.le_trans; [apply IH|].
  assert (queue (apply_item (pop_front q) r) = t) by (destruct r; cbn; now rewrite Eq).
  rewrite H. cbn. lia.
Qed.
Lemma set_nth_len {A} n (v : A) l : length (set_nth n v l) = length l.
Proof. revert n; induction l; intros [|n]; cbn; auto. Qed.

(* the call whose index is x (no longer tracked) delivers its result *)
Lemma handle_result_W q r x :
  W q -> x < W64 -> ~ In x (tracked q) -> pos_at (base q) (queue q) x -> W (handle_result q r x).
Proof.
  intros H Hx Hn (j & J1 & J2). unfold handle_result. rewrite J1.
  destruct j as [|j].
  - cbn [N.of_nat]. change (0 =? 0) with true. cbv beta iota.
    apply drain_W, apply_item_W, pop_W; auto.
    intros y Hy E0. apply Hn. replace x with y; auto.
    apply (wsub_inj y x (base q)); auto using (w_lt q H), (w_base q H). now rewrite E0, J1.
  - assert (E0 : (N.of_nat (S j) =? 0) = false) by (apply N.eqb_neq; lia). rewrite E0.
    assert (Hl : (N.of_nat (S j) <? lenN (queue q)) = true).
    { apply N.ltb_lt. unfold lenN. assert (S j < length (queue q))%nat by (apply nth_error_Some; congruence). lia. }
    destruct r; try (apply (apply_item_W q HErr H)); rewrite Hl, Nat2N.id.
    all: destruct H as [A B C D E']; constructor; cbn [base queue panicked]; auto.
    all: intros y Hy; change (In y (tracked q)) in Hy; destruct (D y Hy) as (k & K1 & K2);
         exists k; split; auto; rewrite nth_error_set_nth_other; auto;
         intros <-; apply Hn; replace x with y; auto;
         apply (wsub_inj y x (base q)); auto; congruence.
Qed.

Lemma handle_result_len q r x : (length (queue (handle_result q r x)) <= length (queue q))%nat.
Proof.
  unfold handle_result. destruct (_ =? 0).
  - eapply Nat.le_trans; [apply drain_len|].
    assert (queue (apply_item (pop_front q) r) = tl (queue q)) by (destruct r; reflexivity).
    rewrite H. destruct (queue q); cbn; lia.
  - destruct r; try (destruct (_ <? _)); cbn [queue apply_item]; rewrite ?set_nth_len; auto.
Qed.
Lemma lookup_split k l x :
  lookup_spawned k l = Some x ->
  exists l1 l2, l = l1 ++ (k, x) :: l2 /\ remove_spawned k l = l1 ++ l2.
Proof.
  induction l as [|[i y] l IH]; cbn [lookup_spawned remove_spawned]; [discriminate|].
  destruct (N.eqb_spec i k) as [->|Hn].
  - intros E. injection E as ->. exists [], l. auto.
  - intros E. destruct (IH E) as (l1 & l2 & -> & H2). exists ((i, y) :: l1), l2. cbn. now rewrite H2.
Qed.

Lemma NoDup_mid {A} (l1 l2 : list A) a : NoDup (l1 ++ a :: l2) -> NoDup (l1 ++ l2) /\ ~ In a (l1 ++ l2).
Proof. intros H. split; [eapply NoDup_remove_1|eapply NoDup_remove_2]; eauto. Qed.

Lemma NoDup_snoc' {A} (l : list A) x : NoDup l -> ~ In x l -> NoDup (l ++ [x]).
Proof.
  induction l as [|y l IH]; intros H1 H2; cbn [app].
  - constructor; [intros []|constructor].
  - inversion H1 as [|? ? H3 H4]; subst. constructor.
    + rewrite in_app_iff. cbn [In]. intros [H|[H|[]]]; [auto|]. apply H2. now left.
    + apply IH; auto. intros H; apply H2; now right.
Qed.

Lemma complete_W q k r : W q -> W (complete q k r).
Proof.
  intros H. unfold complete.
  assert (SP : forall ridx, lookup_spawned k (spawned q) = Some ridx ->
     W (handle_result (mkRq (base q) (queue q) (response q) (response_idx q) (error q)
                            (remove_spawned k (spawned q)) (out q) (panicked q)) r ridx)).
  { intros ridx E. destruct (lookup_split _ _ _ E) as (l1 & l2 & E1 & E2).
    destruct H as [A B C D E'].
    assert (T : tracked q = (match response q with Some _ => [response_idx q] | None => [] end ++ map snd l1)
                             ++ ridx :: map snd l2).
    { unfold tracked. rewrite E1, map_app. cbn [map snd]. now rewrite app_assoc. }
    rewrite T in C. apply NoDup_mid in C as [C1 C2].
    assert (T' : tracked (mkRq (base q) (queue q) (response q) (response_idx q) (error q)
                               (remove_spawned k (spawned q)) (out q) (panicked q)) =
                 (match response q with Some _ => [response_idx q] | None => [] end ++ map snd l1) ++ map snd l2).
    { unfold tracked. cbn [response response_idx spawned]. rewrite E2, map_app. now rewrite app_assoc. }
    assert (Hin : forall y, In y ((match response q with Some _ => [response_idx q] | None => [] end ++ map snd l1)
                                   ++ map snd l2) -> In y (tracked q)).
    { intros y Hy. rewrite T. apply in_app_or in Hy as [Hy|Hy]; apply in_or_app; [left|right; right]; auto. }
    assert (Hr : In ridx (tracked q)) by (rewrite T; apply in_or_app; right; now left).
    apply handle_result_W; cbn [base queue]; auto.
    - constructor; cbn [base queue panicked]; rewrite ?T'; auto.
    - now rewrite T'. }
  destruct (response q) as [i|] eqn:Er.
  - destruct (i =? k).
    + destruct H as [A B C D E'].
      assert (T : tracked q = response_idx q :: map snd (spawned q)) by (unfold tracked; now rewrite Er).
      rewrite T in *. inversion C as [|? ? C1 C2]; subst.
      apply handle_result_W; cbn [base queue]; auto.
      * constructor; cbn [base queue panicked]; unfold tracked; cbn [response spawned app]; auto.
        -- intros x Hx. apply B. now right.
        -- intros x Hx. apply D. now right.
      * apply B. now left.
      * apply D. now left.
    + destruct (lookup_spawned k (spawned q)) eqn:El; auto.
  - destruct (lookup_spawned k (spawned q)) eqn:El; auto.
Qed.

Lemma complete_len q k r : (length (queue (complete q k r)) <= length (queue q))%nat.
Proof.
  unfold complete. repeat dm; auto;
    match goal with |- (length (queue (handle_result ?a _ _)) <= _)%nat =>
      eapply Nat.le_trans; [apply handle_result_len|cbn [queue]; auto] end.
Qed.

Lemma pos_at_app b l x s : pos_at b l x -> pos_at b (l ++ [s]) x.
Proof.
  intros (j & J1 & J2). exists j. split; auto. rewrite nth_error_app1; auto. apply nth_error_Some. congruence.
Qed.

Lemma fresh_index q :
  W q -> N.of_nat (length (queue q)) < W64 ->
  let x := wadd (base q) (lenN (queue q)) in
  x < W64 /\ ~ In x (tracked q) /\ pos_at (base q) (queue q ++ [SPending]) x.
Proof.
  intros H Hl x. assert (Hx : wsub x (base q) = N.of_nat (length (queue q))).
  { unfold x, lenN. apply wsub_wadd'; auto. apply H. }
  split; [apply wadd_lt'|split].
  - intros Hin. destruct (w_pos q H x Hin) as (j & J1 & J2).
    assert (j < length (queue q))%nat by (apply nth_error_Some; congruence). lia.
  - exists (length (queue q)). split; auto. rewrite nth_error_app2, Nat.sub_diag; auto.
Qed.

Lemma call_service_W q k now :
  W q -> N.of_nat (length (queue q)) < W64 -> W (fst (call_service q k now)).
Proof.
  intros H Hl. destruct (fresh_index q H Hl) as (F1 & F2 & F3).
  pose proof H as [A B C D E'].
  unfold call_service. destruct (response q) as [i|] eqn:Er.
  - assert (T : tracked q = response_idx q :: map snd (spawned q)) by (unfold tracked; now rewrite Er).
    destruct now as [r|]; cbn [fst].
    + constructor; cbn [push_back base queue panicked]; auto;
        change (tracked (push_back q SPending)) with (tracked q); auto.
      intros x Hx. apply pos_at_app; auto.
    + constructor; cbn [push_back base queue panicked]; auto;
        match goal with |- context [tracked ?a] =>
          assert (T2 : tracked a = tracked q ++ [wadd (base q) (lenN (queue q))])
            by (unfold tracked; cbn [response response_idx spawned push_back]; rewrite Er, map_app; cbn [map snd];
                now rewrite app_assoc) end; rewrite T2.
      * intros x Hx. apply in_app_or in Hx as [Hx|[<-|[]]]; auto.
      * apply NoDup_snoc'; auto.
      * intros x Hx. apply in_app_or in Hx as [Hx|[<-|[]]]; auto. apply pos_at_app; auto.
  - assert (T : tracked q = map snd (spawned q)) by (unfold tracked; now rewrite Er).
    destruct now as [r|]; cbn [fst].
    + destruct (queue q) eqn:Eq; cbn [fst]; [now apply apply_item_W|].
      constructor; cbn [push_back base queue panicked]; auto;
        match goal with |- context [tracked ?a] =>
          assert (T2 : tracked a = tracked q) by (unfold tracked; cbn [response response_idx spawned push_back]; now rewrite Er) end;
        rewrite ?T2; auto.
      intros x Hx. apply pos_at_app. rewrite Eq. auto.
    + constructor; cbn [push_back base queue panicked]; auto;
        match goal with |- context [tracked ?a] =>
          assert (T2 : tracked a = wadd (base q) (lenN (queue q)) :: tracked q)
            by (unfold tracked; cbn [response response_idx spawned push_back app]; now rewrite Er) end; rewrite T2.
      * intros x [<-|Hx]; auto.
      * constructor; auto.
      * intros x [<-|Hx]; auto. apply pos_at_app; auto.
Qed.

Lemma apply_item_queue q r : queue (apply_item q r) = queue q.
Proof. destruct r; reflexivity. Qed.
Lemma call_service_len q k now : (length (queue (fst (call_service q k now))) <= S (length (queue q)))%nat.
Proof.
  unfold call_service. destruct (response q); destruct now as [r|]; cbn [fst push_back queue];
    rewrite ?app_length; cbn [length]; try lia.
  destruct (queue q) eqn:Eq; cbn [fst queue]; rewrite ?apply_item_queue, ?Eq, ?app_length; cbn [length]; lia.
Qed.
(* ================================================================== the state-level invariant
   [J B s]: the response queue of s satisfies [W], and at most B packets are in the queue slots, the read
   buffer and the peer-side channel together (every packet takes at most one slot) *)
Definition load (s : st) : nat :=
  (length (queue (q_ s)) + length (chan (i_ s)) + length (rbuf (i_ s)))%nat.
Definition J (B : nat) (s : st) : Prop := W (q_ s) /\ (load s <= B)%nat.
Definition TT (s : st) := (q_ s, chan (i_ s), rbuf (i_ s)).

Lemma J_TT B s s' : TT s' = TT s -> J B s -> J B s'.
Proof. unfold TT, J, load. intros H. injection H as -> -> ->. auto. Qed.
Lemma TT_K s s' : K s' = K s -> TT s' = TT s.
Proof. intros H. Kproj H. unfold TT. congruence. Qed.
Lemma TT_R s s' : R s' = R s -> TT s' = TT s.
Proof. unfold R, TT. intros H. injection H; intros; congruence. Qed.
Lemma J_K B s s' : K s' = K s -> J B s -> J B s'.
Proof. intros H. apply J_TT, TT_K, H. Qed.
Lemma J_R B s s' : R s' = R s -> J B s -> J B s'.
Proof. intros H. apply J_TT, TT_R, H. Qed.

Lemma J_up_s B g s : J B s -> J B (up_s g s). Proof. apply J_TT. reflexivity. Qed.
Lemma J_up_b B g s : J B s -> J B (up_b g s). Proof. apply J_TT. reflexivity. Qed.
Lemma J_up_p B g s : J B s -> J B (up_p g s). Proof. apply J_TT. reflexivity. Qed.
Lemma J_up_l B g s : J B s -> J B (up_l g s). Proof. apply J_TT. reflexivity. Qed.
Lemma J_up_i B g s : (forall x, chan (g x) = chan x /\ rbuf (g x) = rbuf x) -> J B s -> J B (up_i g s).
Proof. intros H. apply J_TT. unfold TT. cbn [up_i q_ i_]. destruct (H (i_ s)) as [-> ->]. reflexivity. Qed.
Create HintDb jdb.
#[export] Hint Resolve J_up_s J_up_b J_up_p J_up_l : jdb.
#[export] Hint Extern 1 (J _ (up_i _ _)) => (apply J_up_i; [intro; split; reflexivity|]) : jdb.
Lemma J_wake B t s : J B s -> J B (wake t s).
Proof. apply J_K, K_wake. Qed.
#[export] Hint Resolve J_wake : jdb.
Lemma J_wake_opt B t s : J B s -> J B (wake_opt t s).
Proof. apply J_K, K_wake_opt. Qed.
#[export] Hint Resolve J_wake_opt : jdb.
Lemma J_wake_all B l s : J B s -> J B (wake_all l s).
Proof. apply J_K, K_wake_all. Qed.
#[export] Hint Resolve J_wake_all : jdb.
Lemma J_wake_disp B s : J B s -> J B (wake_disp s).
Proof. apply J_K, K_wake_disp. Qed.
#[export] Hint Resolve J_wake_disp : jdb.
Lemma J_wake_cnt B s : J B s -> J B (wake_cnt s).
Proof. apply J_K, K_wake_cnt. Qed.
#[export] Hint Resolve J_wake_cnt : jdb.
Lemma J_wake_lim B s : J B s -> J B (wake_lim s).
Proof. apply J_K, K_wake_lim. Qed.
#[export] Hint Resolve J_wake_lim : jdb.
Lemma J_ip_notify B s : J B s -> J B (ip_notify s).
Proof. apply J_K, K_ip_notify. Qed.
#[export] Hint Resolve J_ip_notify : jdb.
Lemma J_ip_push B k t s : J B s -> J B (ip_push k t s).
Proof. apply J_K, K_ip_push. Qed.
#[export] Hint Resolve J_ip_push : jdb.
Lemma J_sp_notify B s : J B s -> J B (sp_notify s).
Proof. apply J_K, K_sp_notify. Qed.
#[export] Hint Resolve J_sp_notify : jdb.
Lemma J_sp_push B t s : J B s -> J B (sp_push t s).
Proof. apply J_K, K_sp_push. Qed.
#[export] Hint Resolve J_sp_push : jdb.
Lemma J_set_cst B k v s : J B s -> J B (set_cst k v s).
Proof. apply J_K, K_set_cst. Qed.
#[export] Hint Resolve J_set_cst : jdb.
Lemma J_reg_guard B o t s : J B s -> J B (reg_guard o t s).
Proof. apply J_K, K_reg_guard. Qed.
#[export] Hint Resolve J_reg_guard : jdb.
Lemma J_wake_guard B o s : J B s -> J B (wake_guard o s).
Proof. apply J_K, K_wake_guard. Qed.
#[export] Hint Resolve J_wake_guard : jdb.
Lemma J_bs_ready0 B who w s : J B s -> J B (fst (bs_ready0 who w s)).
Proof. apply J_K, K_bs_ready0. Qed.
#[export] Hint Resolve J_bs_ready0 : jdb.
Lemma J_bs_ready B who w s : J B s -> J B (fst (bs_ready who w s)).
Proof. apply J_K, K_bs_ready. Qed.
#[export] Hint Resolve J_bs_ready : jdb.
Lemma J_lim_inc B s : J B s -> J B (lim_inc s).
Proof. apply J_K, K_lim_inc. Qed.
#[export] Hint Resolve J_lim_inc : jdb.
Lemma J_lim_dec B s : J B s -> J B (lim_dec s).
Proof. apply J_K, K_lim_dec. Qed.
#[export] Hint Resolve J_lim_dec : jdb.
Lemma J_release_guards B k g s : J B s -> J B (release_guards k g s).
Proof. apply J_K, K_release_guards. Qed.
#[export] Hint Resolve J_release_guards : jdb.
Lemma J_retire_call B k s : J B s -> J B (retire_call k s).
Proof. apply J_K, K_retire_call. Qed.
#[export] Hint Resolve J_retire_call : jdb.
Lemma J_cancel_call B k s : J B s -> J B (cancel_call k s).
Proof. apply J_K, K_cancel_call. Qed.
#[export] Hint Resolve J_cancel_call : jdb.
Lemma J_r1_poll_srv B s : J B s -> J B (fst (r1_poll_srv s)).
Proof. apply J_K, K_r1_poll_srv. Qed.
#[export] Hint Resolve J_r1_poll_srv : jdb.
Lemma J_r1_poll_cli B s : J B s -> J B (fst (r1_poll_cli s)).
Proof. apply J_K, K_r1_poll_cli. Qed.
#[export] Hint Resolve J_r1_poll_cli : jdb.
Lemma J_r1_poll B s : J B s -> J B (fst (r1_poll s)).
Proof. apply J_K, K_r1_poll. Qed.
#[export] Hint Resolve J_r1_poll : jdb.
Lemma J_wake_keys B l s : J B s -> J B (wake_keys l s).
Proof. apply J_K, K_wake_keys. Qed.
#[export] Hint Resolve J_wake_keys : jdb.
Lemma J_wake_spawned B l s : J B s -> J B (wake_spawned l s).
Proof. apply J_K, K_wake_spawned. Qed.
#[export] Hint Resolve J_wake_spawned : jdb.
Lemma J_free_key B k s : J B s -> J B (free_key k s).
Proof. apply J_K, K_free_key. Qed.
#[export] Hint Resolve J_free_key : jdb.
Lemma J_tw_poll B s : J B s -> J B (tw_poll s).
Proof. apply J_K, K_tw_poll. Qed.
#[export] Hint Resolve J_tw_poll : jdb.
Lemma J_wake_waiting_h B h l s : J B s -> J B (wake_waiting_h h l s).
Proof. apply J_K, K_wake_waiting_h. Qed.
#[export] Hint Resolve J_wake_waiting_h : jdb.
Lemma J_wake_waiting_p B h l s : J B s -> J B (wake_waiting_p h l s).
Proof. apply J_K, K_wake_waiting_p. Qed.
#[export] Hint Resolve J_wake_waiting_p : jdb.
Lemma J_io_encode B t id r s : J B s -> J B (io_encode t id r s). Proof. apply J_R, R_io_encode. Qed.
Lemma J_io_close B s : J B s -> J B (io_close s). Proof. apply J_R, R_io_close. Qed.
Lemma J_close3c B s : J B s -> J B (close3c s). Proof. apply J_R, R_close3c. Qed.
Lemma J_body B p s : J B s -> J B (fst (proto_body p s)). Proof. apply J_R, R_body. Qed.
Lemma J_hres B q2 id res s : J B s -> J B (fst (hres_any q2 id res s)). Proof. apply J_R, R_hres. Qed.
Lemma J_ctl B m a s : J B s -> J B (fst (ctl_result m a s)). Proof. apply J_R, R_ctl. Qed.
Lemma J_ctlc B m res s : J B s -> J B (fst (ctl_result_c m res s)). Proof. apply J_R, R_ctlc. Qed.
#[export] Hint Resolve J_io_encode J_io_close J_close3c J_body J_hres J_ctl J_ctlc : jdb.
Lemma J_emit B l : forall s, J B s -> J B (emit l s).
Proof. induction l as [|b l IH]; intros s H; cbn [emit wire_fields]; auto with jdb. Qed.
#[export] Hint Resolve J_emit : jdb.
Lemma J_log_handler B h qos id t plen retain s : J B s -> J B (log_handler h qos id t plen retain s).
Proof. unfold log_handler. auto with jdb. Qed.
#[export] Hint Resolve J_log_handler : jdb.

(* a destructed pair-returning call:  E : f .. = (s1, r)  gives  J B s1 *)
Ltac jpair B :=
  repeat match goal with E : ?f = (?s1, _) |- _ =>
    lazymatch goal with H : J B s1 |- _ => fail | _ => try fail end;
    let H := fresh "HJ" in
    assert (H : J B s1) by (replace s1 with (fst f) by (rewrite E; reflexivity); auto 20 with jdb)
  end.
Ltac jauto B := intros; repeat (dm; jpair B); cbn [fst snd]; auto 30 with jdb.

Lemma J_proto_finish B k m g res s : J B s -> J B (fst (proto_finish k m g res s)).
Proof. unfold proto_finish. jauto B. Qed.
#[export] Hint Resolve J_proto_finish : jdb.
Lemma J_proto_invoke B who k m g s : J B s -> J B (fst (proto_invoke who k m g s)).
Proof. unfold proto_invoke. jauto B. Qed.
#[export] Hint Resolve J_proto_invoke : jdb.
Lemma J_inner_call B who k m g s : J B s -> J B (fst (inner_call who k m g s)).
Proof. unfold inner_call. jauto B. Qed.
#[export] Hint Resolve J_inner_call : jdb.
Lemma J_ctl_enter B n : forall who k m w s, J B s -> J B (fst (ctl_enter n who k m w s)).
Proof. induction n; intros; cbn [ctl_enter]; jauto B. Qed.
#[export] Hint Resolve J_ctl_enter : jdb.
Lemma J_cproto_finish B m res s : J B s -> J B (fst (cproto_finish m res s)).
Proof. unfold cproto_finish. jauto B. Qed.
#[export] Hint Resolve J_cproto_finish : jdb.
Lemma J_cproto_invoke B k m e s : J B s -> J B (fst (cproto_invoke k m e s)).
Proof. unfold cproto_invoke. jauto B. Qed.
#[export] Hint Resolve J_cproto_invoke : jdb.
Lemma J_body_full B who k p s : J B s -> J B (fst (body who k p s)).
Proof. rewrite body_proto_body. jauto B. Qed.
#[export] Hint Resolve J_body_full : jdb.
Lemma J_climgate B who k p s : J B s -> J B (fst (climgate who k p s)).
Proof. unfold climgate. jauto B. Qed.
#[export] Hint Resolve J_climgate : jdb.
Lemma J_gate B who k p w s : J B s -> J B (fst (gate who k p w s)).
Proof. unfold gate. jauto B. Qed.
#[export] Hint Resolve J_gate : jdb.
Lemma J_poll_call B who k s : J B s -> J B (fst (poll_call who k s)).
Proof. unfold poll_call. jauto B. Qed.
#[export] Hint Resolve J_poll_call : jdb.
(* ---- where the queue, the read buffer or the channel change *)
Lemma TT_after_rq q0 q1 d s : TT (after_rq q0 q1 d s) = (q1, chan (i_ s), rbuf (i_ s)).
Proof.
  unfold after_rq.
  assert (Hem : forall l x, TT (emit l x) = TT x).
  { induction l as [|b l IH]; intros x; cbn [emit wire_fields]; auto.
    rewrite IH. apply TT_R, R_io_encode. }
  rewrite Hem. repeat dm; reflexivity.
Qed.

Lemma J_set B q1 s X :
  TT X = (q1, chan (i_ s), rbuf (i_ s)) -> W q1 ->
  (length (queue q1) + length (chan (i_ s)) + length (rbuf (i_ s)) <= B)%nat -> J B X.
Proof. unfold TT, J, load. intros H. injection H as -> -> ->. auto. Qed.

Lemma J_finish_deferred B k r s : J B s -> J B (fst (finish_deferred k r s)).
Proof.
  intros [HW HL]. unfold finish_deferred. cbn [fst].
  eapply J_set; [apply TT_after_rq|now apply complete_W|].
  pose proof (complete_len (q_ s) k (hres_of r)). unfold load in HL. lia.
Qed.
#[export] Hint Resolve J_finish_deferred : jdb.

Lemma J_set_q B q1 s :
  W q1 -> (length (queue q1) + length (chan (i_ s)) + length (rbuf (i_ s)) <= B)%nat -> J B (set_q q1 s).
Proof. intros. eapply J_set; eauto. reflexivity. Qed.

Lemma J_noerr B s :
  J B s -> J B (set_q (mkRq (base (q_ s)) (queue (q_ s)) (response (q_ s)) (response_idx (q_ s)) false (spawned (q_ s))
                            (out (q_ s)) (panicked (q_ s))) s).
Proof. intros [HW HL]. apply J_set_q; [apply (W_ext (q_ s)); auto|exact HL]. Qed.
#[export] Hint Resolve J_noerr : jdb.

Lemma J_mono B1 B2 s : (B1 <= B2)%nat -> J B1 s -> J B2 s.
Proof. intros H [A C]. split; auto. lia. Qed.

Lemma J_do_stop B0 kind reason s : J B0 s -> J B0 (do_stop kind reason s).
Proof.
  intros H. unfold do_stop, test_set_dsent. cbv beta iota zeta.
  repeat (match goal with |- context [if ?x then _ else _] => destruct x eqn:? end; cbv beta iota zeta);
    auto 20 with jdb.
Qed.
#[export] Hint Resolve J_do_stop : jdb.
Lemma J_shut_flush B0 s : J B0 s -> J B0 (fst (shut_flush s)).
Proof. unfold shut_flush. jauto B0. Qed.
#[export] Hint Resolve J_shut_flush : jdb.
Lemma J_shut_done B0 s : J B0 s -> J B0 (shut_done s).
Proof. unfold shut_done. jauto B0. Qed.
Lemma J_d_finish B0 s : J B0 s -> J B0 (d_finish s).
Proof. unfold d_finish. jauto B0. Qed.
#[export] Hint Resolve J_shut_done J_d_finish : jdb.

Lemma J_pop B0 p rest s :
  rbuf (i_ s) = p :: rest -> J B0 s -> J (pred B0) (up_i (i_rbuf rest) s) /\ (S (pred B0) <= B0)%nat.
Proof.
  intros E [HW HL]. unfold load in HL. rewrite E in HL. cbn [length] in HL. split; [split|lia]; auto.
  unfold load. cbn [up_i q_ i_ i_rbuf chan rbuf]. lia.
Qed.

Section Bound.
Variable B : nat.
Hypothesis HB : N.of_nat B < W64.

(* a packet has just left the read buffer: room for one more slot *)
Lemma J_d_call_service B' p s : (S B' <= B)%nat -> J B' s -> J B (fst (d_call_service p s)).
Proof.
  intros HB' H1. unfold d_call_service.
  set (k := nreq (s_ s) + 1). set (s0 := up_s (s_nreq k) s).
  assert (H0 : J B' s0) by (unfold s0; auto with jdb).
  assert (CS : forall X now, J B' X -> J B (set_q (fst (call_service (q_ X) k now)) X)).
  { intros X now [HW HL]. unfold load in HL. apply J_set_q.
    - apply call_service_W; auto. lia.
    - pose proof (call_service_len (q_ X) k now). lia. }
  destruct (response (q_ s0)) eqn:Er.
  - match goal with |- context [let '(key, s0) := ?X in _] => destruct X as [key s0'] eqn:Ek' end.
    assert (H0' : TT s0' = TT s0) by (destruct (cfree (s_ s0)); injection Ek' as <- <-; reflexivity).
    cbn [fst]. apply J_wake. apply J_up_s.
    assert (Q : q_ s0' = q_ s0) by (unfold TT in H0'; congruence). rewrite <- Q.
    apply CS. apply (J_TT B' s0); auto.
  - cbn [fst].
    set (s1 := up_s (fun x => s_calls (calls x ++ [mkCall k (CInit p) false TD 0]) x) s0).
    assert (H1' : J B' s1) by (unfold s1; auto with jdb).
    pose proof (J_poll_call B' TD k s1 H1') as HP.
    destruct (poll_call TD k s1) as [s2 [r|]]; cbn [fst] in HP.
    + assert (H3 : J B' (retire_call k s2)) by auto with jdb.
      set (s3 := retire_call k s2) in *.
      assert (AR : forall d X, J B' X ->
                 J B (after_rq (q_ X) (fst (call_service (q_ X) k (Some (hres_of r)))) d X)).
      { intros d X HX. pose proof (CS X (Some (hres_of r)) HX) as [C1 C2].
        eapply J_set; [apply TT_after_rq|exact C1|exact C2]. }
      destruct r as [|t id x|e]; try (destruct (queue (q_ s3)) eqn:Eq); try apply AR; auto.
      change (q_ s3) with (q_ (up_s (s_qerrs (qerrs (s_ s3) ++ [e])) s3)). apply AR. auto with jdb.
    + apply CS. exact HP.
Qed.
Lemma J_d_loop fuel : forall s, J B s -> J B (d_loop fuel s).
Proof.
  induction fuel as [|f IH]; intros s HJ; cbn [d_loop]; auto.
  destruct (dst (s_ s)) as [|sh| |].
  - destruct (error (q_ s)); [auto 10 with jdb|].
    destruct (r1_poll s) as [s1 rdy] eqn:Er. jpair B. destruct rdy.
    + match goal with |- context [rbuf (i_ ?X)] => assert (H2 : J B X) by (dm; auto 10 with jdb); set (s2 := X) in * end.
      destruct (rbuf (i_ s2)) as [|p rest] eqn:Erb.
      * repeat dm; auto 10 with jdb.
      * destruct (J_pop B p rest s2 Erb H2) as [H3 H4].
        assert (CS : J B (match d_call_service p (up_i (i_rbuf rest) s2) with
                          | (s3, true) => wake TD s3 | (s3, false) => d_loop f s3 end)).
        { pose proof (J_d_call_service (pred B) p _ H4 H3) as H5.
          destruct (d_call_service p (up_i (i_rbuf rest) s2)) as [s3 [|]]; cbn [fst] in H5; auto with jdb. }
        destruct p; try exact CS.
        apply IH, J_do_stop. apply (J_mono (pred B)); auto. lia.
    + repeat dm; auto 10 with jdb.
  - destruct sh; repeat (dm; jpair B); auto 30 with jdb.
  - repeat dm; auto 10 with jdb.
  - exact HJ.
Qed.

Lemma J_d_poll s : J B s -> J B (d_poll s).
Proof.
  intros H. unfold d_poll.
  assert (M : J B (match response (q_ s) with
                   | Some k => match poll_call TD k s with
                               | (s', Some r) => fst (finish_deferred k r (retire_call k s'))
                               | (s', None) => s' end
                   | None => s end)) by (repeat (dm; jpair B); auto 10 with jdb).
  destruct (dst (s_ s)); auto using J_d_loop.
Qed.

Lemma J_ts_poll k s : J B s -> J B (ts_poll k s).
Proof. intros H. unfold ts_poll. repeat (dm; jpair B); auto 20 with jdb. Qed.

Lemma J_tio_poll s : J B s -> J B (tio_poll s).
Proof.
  intros H. unfold tio_poll. destruct (stopped (i_ s)); auto.
  match goal with |- context [closing (i_ ?X) || negb (rpaused (i_ ?X))] =>
    assert (S1 : J B X) by (repeat dm; auto 10 with jdb); set (s1 := X) in * end.
  cbv zeta.
  match goal with |- context [wpaused (i_ ?X)] => assert (S2 : J B X); [|set (s2 := X) in *] end.
  { dm; auto. destruct (chan (i_ s1)) as [|p l] eqn:Ec; auto.
    apply J_wake_disp. destruct S1 as [HW HL]. split; auto.
    unfold load in *. cbn [up_i q_ i_ i_chan i_rbuf chan rbuf]. rewrite Ec in HL. rewrite app_length. cbn [length] in *. lia. }
  repeat dm; auto 10 with jdb.
Qed.

Lemma J_run_task t s : J B s -> J B (run_task t s).
Proof.
  intros H. unfold run_task.
  match goal with |- context [self_woken (s_ ?X)] => assert (S1 : J B X); [|set (s1 := X) in *] end.
  { destruct t; auto using J_d_poll, J_tio_poll, J_ts_poll with jdb. }
  cbv zeta. dm; auto 10 with jdb.
Qed.

Lemma J_run_all fuel : forall s, J B s -> J B (run_all fuel s).
Proof.
  induction fuel as [|f IH]; intros s H; cbn [run_all]; auto.
  destruct (runq (s_ s)); auto. apply IH, J_run_task. auto with jdb.
Qed.
End Bound.

Lemma J_step_op B f s : J B s -> J (S B) (step_op f s).
Proof.
  intros H. unfold step_op.
  assert (A1 : J (S B) (if stopped (i_ s) then s
                        else wake TIO (up_i (i_chan (chan (i_ s) ++ [parse_pkt (v5 (c_ s)) f])) s))).
  { dm; [apply (J_mono B); auto|]. apply J_wake. destruct H as [HW HL]. split; auto.
    unfold load in *. cbn [up_i q_ i_ i_chan chan rbuf]. rewrite app_length. cbn [length]. lia. }
  assert (A0 : J (S B) s) by (apply (J_mono B); auto).
  repeat (match goal with |- context [match ?x with _ => _ end] =>
    lazymatch x with
    | context [match _ with _ => _ end] => fail
    | stopped _ => fail
    | _ => destruct x
    end end); first [ exact A1 | exact A0 | auto 10 with jdb ].
Qed.

(* ================================================================== runs *)
Lemma J_clear_obs B s : J B s -> J B (clear_obs s).
Proof. apply J_TT. reflexivity. Qed.

Lemma J_full_step B f s :
  N.of_nat (S B) < W64 -> J B s -> J (S B) (run_all 400 (step_op f s)).
Proof. intros HB H. apply J_run_all; auto. now apply J_step_op. Qed.

Lemma J_after ops : forall B s,
  N.of_nat (B + length ops) < W64 -> J B s -> J (B + length ops) (after ops s).
Proof.
  induction ops as [|f r IH]; intros B s HB H; cbn [after fold_left length].
  - now rewrite Nat.add_0_r.
  - cbn [length] in HB. replace (B + S (length r))%nat with (S B + length r)%nat by lia.
    apply (IH (S B)); [now replace (S B + length r)%nat with (B + S (length r))%nat by lia|].
    apply J_clear_obs, J_full_step; auto. lia.
Qed.

Lemma any_panic_false ops : forall B s,
  N.of_nat (B + length ops) < W64 -> J B s -> any_panic ops s = false.
Proof.
  induction ops as [|f r IH]; intros B s HB H; cbn [any_panic].
  - apply H.
  - cbn [length] in HB.
    assert (H1 : J (S B) (run_all 400 (step_op f s))) by (apply J_full_step; auto; lia).
    rewrite (w_np _ (proj1 H1)). cbn [orb].
    apply (IH (S B)); [now replace (S B + length r)%nat with (B + S (length r))%nat by lia|].
    now apply J_clear_obs.
Qed.

Lemma W_init : W rq_init.
Proof. constructor; cbn; auto; try contradiction. - reflexivity. - constructor. Qed.
Lemma J_init is5 cf : J 0 (init_st is5 cf).
Proof. split; [apply W_init|reflexivity]. Qed.
Lemma J_init_cli is5 cf : J 0 (init_st_cli is5 cf).
Proof. split; [apply W_init|reflexivity]. Qed.

Lemma trace_no_panic ops : forall B s,
  N.of_nat (B + length ops) < W64 -> J B s -> forall s', In s' (trace ops s) -> panicked (q_ s') = false.
Proof.
  induction ops as [|f r IH]; intros B s HB H s'; cbn [trace]; [intros []|].
  cbn [length] in HB.
  assert (H1 : J (S B) (run_all 400 (step_op f s))) by (apply J_full_step; auto; lia).
  intros [<-|Hin]; [apply H1|].
  apply (IH (S B) (clear_obs (run_all 400 (step_op f s)))); auto;
    first [now replace (S B + length r)%nat with (B + S (length r))%nat by lia|now apply J_clear_obs].
Qed.

(* no operation list (fewer than 2^64 operations) makes the response queue index out of bounds: the four
   engines never answer 9999 *)
Theorem no_panic (is5 : bool) (cf : list N) (ops : list (list N)) :
  N.of_nat (length ops) < W64 ->
  panicked (q_ (after ops (init_st is5 cf))) = false /\
  panicked (q_ (after ops (init_st_cli is5 cf))) = false /\
  (forall s, In s (trace ops (init_st is5 cf)) -> panicked (q_ s) = false) /\
  (forall s, In s (trace ops (init_st_cli is5 cf)) -> panicked (q_ s) = false) /\
  run_inb is5 (cf :: ops) = run_ops ops (init_st is5 cf) /\
  run_cli is5 (cf :: ops) = run_ops ops (init_st_cli is5 cf).
Proof.
  intros HB.
  assert (HB0 : N.of_nat (0 + length ops) < W64) by exact HB.
  split; [apply (J_after ops 0 _ HB0 (J_init is5 cf))|].
  split; [apply (J_after ops 0 _ HB0 (J_init_cli is5 cf))|].
  split; [apply (trace_no_panic ops 0 _ HB0 (J_init is5 cf))|].
  split; [apply (trace_no_panic ops 0 _ HB0 (J_init_cli is5 cf))|].
  unfold run_inb, run_cli.
  rewrite (any_panic_false ops 0 _ HB0 (J_init is5 cf)), (any_panic_false ops 0 _ HB0 (J_init_cli is5 cf)). auto.
Qed.

Lemma observe_not_9999 s : observe s <> [9999].
Proof.
  intros H. apply (f_equal (@length N)) in H. unfold observe in H. rewrite !app_length in H. cbn [length] in H. lia.
Qed.
Lemma run_ops_not_9999 ops s : run_ops ops s <> [[9999]].
Proof. destruct ops; cbn [run_ops]; [discriminate|]. intros H. injection H as H _. now apply observe_not_9999 in H. Qed.

(* the engines inb3 / inb5 / cli3 / cli5 never print the panic observation *)
Theorem engines_never_panic (c : list (list N)) :
  N.of_nat (length c) <= W64 ->
  run_inb3 c <> [[9999]] /\ run_inb5 c <> [[9999]] /\ run_cli3 c <> [[9999]] /\ run_cli5 c <> [[9999]].
Proof.
  intros H. destruct c as [|cf ops]; [repeat split; discriminate|].
  assert (HB : N.of_nat (length ops) < W64) by (cbn [length] in H; lia).
  unfold run_inb3, run_inb5, run_cli3, run_cli5.
  destruct (no_panic false cf ops HB) as (_ & _ & _ & _ & A1 & A2).
  destruct (no_panic true cf ops HB) as (_ & _ & _ & _ & A3 & A4).
  rewrite A1, A2, A3, A4. repeat split; apply run_ops_not_9999.
Qed.

(* ================================================================== Part 2
   Acknowledgement accounting for the server roles.  [AKg n D e cl s]: n = PUBACK/PUBREC (reason other than
   0x91) written in earlier operations, D = the handler numbers whose completion operation has been given
   (= the keys of the harness gate table), e = 1 if the result in flight is such an acknowledgement.
   Invariant: n + (acknowledgements on the wire of this operation) + (acknowledgement codes waiting in ready
   slots of the response queue) + e  <=  G = the number of h in D with h <= nh (invoked) for which no call
   is parked in state CHandler h (so: completed and consumed).  The calls parked on handlers have distinct
   numbers <= nh.  Nothing depends on the identifiers being u16: a written code can only decode to a
   packet type >= the type of the result it was made from ([ackc_code]). *)

(* ================================================================== part 2: acknowledgements are accounted for by handler completions *)
Definition cnt {A} (f : A -> bool) (l : list A) : nat := length (filter f l).
Lemma cnt_app {A} (f : A -> bool) a b : cnt f (a ++ b) = (cnt f a + cnt f b)%nat.
Proof. unfold cnt. now rewrite filter_app, app_length. Qed.
Lemma cnt_nil {A} (f : A -> bool) : cnt f [] = 0%nat. Proof. reflexivity. Qed.
Lemma cnt_le_len {A} (f : A -> bool) l : (cnt f l <= length l)%nat.
Proof. unfold cnt. induction l; cbn; auto. destruct (f a); cbn; lia. Qed.
Lemma cnt_imp {A} (f g : A -> bool) l : (forall x, In x l -> f x = true -> g x = true) -> (cnt f l <= cnt g l)%nat.
Proof.
  unfold cnt. induction l as [|a l IH]; intros H; cbn [filter length]; auto.
  assert (IH' : (length (filter f l) <= length (filter g l))%nat) by (apply IH; intros; apply H; auto; now right).
  destruct (f a) eqn:Fa; [rewrite (H a (or_introl eq_refl) Fa); cbn; lia|destruct (g a); cbn; lia].
Qed.
Lemma cnt_strict {A} (f g : A -> bool) l h :
  (forall x, In x l -> f x = true -> g x = true) -> In h l -> f h = false -> g h = true ->
  (cnt f l + 1 <= cnt g l)%nat.
Proof.
  intros H Hin Fh Gh. apply in_split in Hin as (l1 & l2 & ->). rewrite !cnt_app.
  assert (A1 : (cnt f l1 <= cnt g l1)%nat) by (apply cnt_imp; intros; apply H; auto; apply in_or_app; now left).
  assert (A2 : (cnt f l2 <= cnt g l2)%nat) by (apply cnt_imp; intros; apply H; auto; apply in_or_app; right; now right).
  assert (C1 : cnt f (h :: l2) = cnt f l2) by (unfold cnt; cbn [filter]; now rewrite Fh).
  assert (C2 : cnt g (h :: l2) = S (cnt g l2)) by (unfold cnt; cbn [filter]; now rewrite Gh).
  lia.
Qed.

(* an acknowledgement of a PUBLISH that is not the immediate "identifier in use" answer *)
Definition ackt (x : N * N * N) : bool :=
  ((fst (fst x) =? 64) || (fst (fst x) =? 80)) && negb (snd x =? 145).
Definition trip_of (c : N) : N * N * N := (c / 16777216, (c / 256) mod 65536, c mod 256).
Definition ackc (c : N) : bool := ackt (trip_of c).
Definition nackq (l : list slot) : nat := cnt ackc (rcodes l).

(* counting version of rq_flow: the response queue loses or moves codes, never invents one *)
Definition rq_cnt (q q' : rq) (extra : list N) : Prop :=
  exists new, out q' = out q ++ new /\
    (cnt ackc new + nackq (queue q') <= nackq (queue q) + cnt ackc extra)%nat.

Lemma rq_cnt_same q q' : out q' = out q -> queue q' = queue q -> rq_cnt q q' [].
Proof. intros H1 H2. exists []. rewrite H1, H2, app_nil_r. split; auto. cbn. lia. Qed.
Lemma rq_cnt_trans q1 q2 q3 e1 e2 : rq_cnt q1 q2 e1 -> rq_cnt q2 q3 e2 -> rq_cnt q1 q3 (e1 ++ e2).
Proof.
  intros (n1 & A1 & A2) (n2 & B1 & B2). exists (n1 ++ n2). rewrite B1, A1, app_assoc. split; auto.
  rewrite !cnt_app. lia.
Qed.
Lemma rq_cnt_ext q q' e e' : (cnt ackc e <= cnt ackc e')%nat -> rq_cnt q q' e -> rq_cnt q q' e'.
Proof. intros H (n & A1 & A2). exists n. split; auto. lia. Qed.
Lemma nackq_cons x l : nackq (x :: l) = (cnt ackc (match x with SReady (HSome c) => [c] | _ => [] end) + nackq l)%nat.
Proof. unfold nackq. cbn [rcodes flat_map]. now rewrite cnt_app. Qed.
Lemma nackq_app a b : nackq (a ++ b) = (nackq a + nackq b)%nat.
Proof. unfold nackq. now rewrite rcodes_app, cnt_app. Qed.

Lemma apply_item_cnt q r : rq_cnt q (apply_item q r) (ritem r).
Proof.
  destruct r; cbn [apply_item ritem]; try (apply rq_cnt_same; reflexivity).
  exists [b]. cbn [out queue]. split; auto. lia.
Qed.
Lemma pop_front_cnt q : rq_cnt q (pop_front q) [].
Proof.
  exists []. cbn [pop_front out queue]. rewrite app_nil_r. split; auto.
  destruct (queue q) as [|x l]; cbn [tl]; [lia|]. rewrite nackq_cons. cbn. lia.
Qed.
Lemma pop_apply_cnt q r t : queue q = SReady r :: t -> rq_cnt q (apply_item (pop_front q) r) [].
Proof.
  intros Eq. destruct (apply_item_cnt (pop_front q) r) as (n & A1 & A2). exists n. split; [exact A1|].
  cbn [pop_front queue] in A2. rewrite Eq in *. cbn [tl] in A2. rewrite nackq_cons.
  destruct r; cbn [ritem] in *; cbn [cnt filter length] in *; lia.
Qed.
Lemma drain_cnt fuel : forall q, rq_cnt q (drain fuel q) [].
Proof.
  induction fuel as [|f IH]; intros q; cbn [drain]; [apply rq_cnt_same; auto|].
  destruct (queue q) as [|[|r] t] eqn:Eq; [apply rq_cnt_same; auto..|].
  apply (rq_cnt_trans q (apply_item (pop_front q) r) _ [] []); [now apply (pop_apply_cnt q r t)|apply IH].
Qed.
Lemma nackq_set_nth n r l : (nackq (set_nth n (SReady r) l) <= nackq l + cnt ackc (ritem r))%nat.
Proof.
  revert n; induction l as [|x l IH]; intros n; cbn [set_nth]; [destruct n; cbn [set_nth]; lia|].
  destruct n as [|n]; cbn [set_nth]; rewrite !nackq_cons.
  - destruct r; cbn [ritem]; rewrite ?cnt_nil; lia.
  - specialize (IH n). lia.
Qed.
Lemma handle_result_cnt q r ridx : rq_cnt q (handle_result q r ridx) (ritem r).
Proof.
  unfold handle_result. destruct (wsub ridx (base q) =? 0).
  - apply (rq_cnt_ext _ _ ([] ++ ritem r ++ [])); [rewrite !cnt_app, !cnt_nil; lia|].
    eapply rq_cnt_trans; [apply pop_front_cnt|]. eapply rq_cnt_trans; [apply apply_item_cnt|apply drain_cnt].
  - destruct r; try (destruct (_ <? _)); try (apply (apply_item_cnt q HErr)).
    all: exists []; cbn [out queue]; rewrite app_nil_r; split; auto; cbn [cnt filter length];
         try (pose proof (nackq_set_nth (N.to_nat (wsub ridx (base q))) (HSome b) (queue q)));
         try (pose proof (nackq_set_nth (N.to_nat (wsub ridx (base q))) HNone (queue q))); cbn [ritem] in *; lia.
Qed.
Lemma complete_cnt q k r : rq_cnt q (complete q k r) (ritem r).
Proof.
  unfold complete.
  repeat dm; try (apply (rq_cnt_ext _ _ []); [rewrite cnt_nil; lia|apply rq_cnt_same; reflexivity]);
    match goal with |- rq_cnt _ (handle_result ?a _ _) _ =>
      apply (rq_cnt_ext _ _ ([] ++ ritem r)); [rewrite !cnt_app, !cnt_nil; lia|];
      eapply rq_cnt_trans; [|apply handle_result_cnt];
      apply rq_cnt_same; reflexivity end.
Qed.
Lemma call_service_cnt q k now :
  rq_cnt q (fst (call_service q k now)) (match now with Some r => ritem r | None => [] end).
Proof.
  unfold call_service. destruct (response q); destruct now as [r|]; cbn [fst].
  1,2,4: exists []; cbn [push_back out queue]; rewrite app_nil_r, nackq_app; split; auto; cbn; lia.
  destruct (queue q) eqn:Eq; cbn [fst]; [apply apply_item_cnt|].
  exists []. cbn [push_back out queue]. rewrite app_nil_r, nackq_app. split; auto.
  unfold nackq at 2. cbn [rcodes flat_map]. rewrite app_nil_r. destruct r; cbn [ritem]; cbn; lia.
Qed.

(* ---- handlers: the calls waiting for a publish handler, the handlers whose completion has been consumed *)
Definition ch1 (c : cstate) : list N := match c with CHandler h _ _ => [h] | _ => [] end.
Definition chs (l : list call) : list N := flat_map (fun c => ch1 (cst c)) l.
Definition gdone (nh : N) (ch : list N) (h : N) : bool := (h <=? nh) && negb (memN h ch).
Definition G (keys : list N) (nh : N) (ch : list N) : nat := cnt (gdone nh ch) keys.

Lemma memN_In x l : memN x l = true <-> In x l.
Proof.
  induction l as [|y l IH]; cbn [memN In]; [split; [discriminate|tauto]|].
  rewrite orb_true_iff, IH, N.eqb_eq. intuition.
Qed.
Lemma memN_false x l : memN x l = false <-> ~ In x l.
Proof. rewrite <- memN_In. destruct (memN x l); intuition congruence. Qed.

Lemma G_mono keys nh nh' ch ch' :
  nh <= nh' -> incl ch' ch -> (G keys nh ch <= G keys nh' ch')%nat.
Proof.
  intros H1 H2. apply cnt_imp. intros h _. unfold gdone. rewrite !andb_true_iff, !negb_true_iff, !N.leb_le, !memN_false.
  intros [A B]. split; [lia|]. intros C. apply B, H2, C.
Qed.
Lemma G_step keys nh nh' ch ch' h :
  nh <= nh' -> incl ch' ch -> In h keys -> gdone nh ch h = false -> gdone nh' ch' h = true ->
  (G keys nh ch + 1 <= G keys nh' ch')%nat.
Proof.
  intros H1 H2 Hin F Gt. apply (cnt_strict _ _ keys h); auto.
  intros x _. unfold gdone. rewrite !andb_true_iff, !negb_true_iff, !N.leb_le, !memN_false.
  intros [A B]. split; [lia|]. intros C. apply B, H2, C.
Qed.
Lemma G_keys_snoc keys nh ch h : (G keys nh ch <= G (keys ++ [h]) nh ch)%nat.
Proof. unfold G. rewrite cnt_app. lia. Qed.
Lemma G_le_len keys nh ch : (G keys nh ch <= length keys)%nat.
Proof. apply cnt_le_len. Qed.

Lemma chs_app a b : chs (a ++ b) = chs a ++ chs b.
Proof. apply flat_map_app. Qed.
Lemma chs_cons c l : chs (c :: l) = ch1 (cst c) ++ chs l.
Proof. reflexivity. Qed.

(* rewriting one call's state *)
Lemma chs_upd k f l :
  chs (upd_call k f l) = chs l \/
  exists l1 c l2, l = l1 ++ c :: l2 /\ find_call k l = Some c /\ upd_call k f l = l1 ++ f c :: l2.
Proof.
  induction l as [|x l IH]; cbn [upd_call find_call]; [now left|].
  destruct (cid x =? k) eqn:E.
  - right. exists [], x, l. auto.
  - destruct IH as [IH|(l1 & c & l2 & A1 & A2 & A3)].
    + left. now rewrite !chs_cons, IH.
    + right. exists (x :: l1), c, l2. cbn [app]. repeat split; congruence.
Qed.

Lemma NoDup_app_remove_mid {A} (a b c : list A) : NoDup (a ++ b ++ c) -> NoDup (a ++ c).
Proof.
  induction b as [|x b IH]; cbn [app]; auto. intros H. apply IH. now apply NoDup_remove_1 in H.
Qed.

(* a call's state is replaced by one that does not wait for a handler (or the same one) *)
Lemma chs_upd_drop k f l :
  (forall c, ch1 (cst (f c)) = [] \/ ch1 (cst (f c)) = ch1 (cst c)) ->
  incl (chs (upd_call k f l)) (chs l) /\ (NoDup (chs l) -> NoDup (chs (upd_call k f l))).
Proof.
  intros Hf. destruct (chs_upd k f l) as [E|(l1 & c & l2 & A1 & A2 & A3)].
  - rewrite E. split; auto. apply incl_refl.
  - rewrite A3, A1, !chs_app, !chs_cons. destruct (Hf c) as [E|E]; rewrite E.
    + split.
      * apply incl_app; [apply incl_appl, incl_refl|apply incl_appr, incl_appr, incl_refl].
      * cbn [app]. apply NoDup_app_remove_mid.
    + split; auto. apply incl_refl.
Qed.

Lemma chs_del k l :
  incl (chs (del_call k l)) (chs l) /\ (NoDup (chs l) -> NoDup (chs (del_call k l))) /\
  (forall c, find_call k l = Some c -> forall h, In h (ch1 (cst c)) -> NoDup (chs l) -> ~ In h (chs (del_call k l))).
Proof.
  induction l as [|x l (IH1 & IH2 & IH3)]; cbn [del_call find_call]; [repeat split; auto using incl_refl; discriminate|].
  destruct (cid x =? k) eqn:E.
  - rewrite chs_cons. split; [apply incl_appr, incl_refl|]. split.
    + intros H. now apply NoDup_app_remove_mid with (a := []) (b := ch1 (cst x)) in H.
    + intros c Ec h Hh Hn. injection Ec as <-. intros Hin.
      destruct (cst x); cbn [ch1] in *; try contradiction. destruct Hh as [<-|[]].
      cbn [app] in Hn. inversion Hn; auto.
  - rewrite !chs_cons. split; [apply incl_app; [apply incl_appl, incl_refl|apply incl_appr, IH1]|]. split.
    + intros H. destruct (cst x); cbn [ch1 app] in *; auto.
      inversion H; subst. constructor; auto.
    + intros c Ec h Hh Hn Hin.
      assert (Hn' : NoDup (chs l)) by (destruct (cst x); cbn [ch1 app] in Hn; auto; now inversion Hn).
      apply in_app_or in Hin as [Hin|Hin]; [|exact (IH3 c Ec h Hh Hn' Hin)].
      (* h is the handler of x and of c, c further down the list: duplicates *)
      destruct (cst x) eqn:Ex; cbn [ch1] in Hin; try contradiction. destruct Hin as [<-|[]].
      cbn [app] in Hn. inversion Hn as [|? ? Hni _]; subst. apply Hni.
      clear - Ec Hh. induction l as [|y l IH]; cbn [find_call] in Ec; [discriminate|].
      rewrite chs_cons. apply in_or_app. destruct (cid y =? k); [left; now injection Ec as ->|right; auto].
Qed.

Lemma del_call_none k l : find_call k l = None -> del_call k l = l.
Proof. induction l as [|x l IH]; cbn [find_call del_call]; auto. destruct (cid x =? k); [discriminate|]. intros H. now rewrite IH. Qed.

(* ---- the accounting invariant (server roles) *)
Definition hkeys (s : st) : list N := map fst (hgate (l_ s)).

(* [n]: acknowledgements written in earlier operations (the wire log is cleared between operations);
   [D]: the handler numbers for which a completion operation was given; [e]: an acknowledgement in flight
   (the result of the call being polled); [cl]: the calls table the bound is computed with *)
Record AKg (n : nat) (D : list N) (e : nat) (cl : list call) (s : st) : Prop := mkAK {
  ak_role : role (c_ s) = 0;
  ak_keys : hkeys s = D;
  ak_chnd : NoDup (chs (CL s));
  ak_chle : forall h, In h (chs (CL s)) -> h <= nh (l_ s);
  ak_cl : incl (chs cl) (chs (CL s));
  ak_cnt : exists ws, wire (i_ s) = flat3 ws /\
             (n + cnt ackt ws + nackq (queue (q_ s)) + e <= G D (nh (l_ s)) (chs cl))%nat
}.

Create HintDb akdb.

(* transfer along a step that keeps configuration, logs, queue, wire; the calls waiting for handlers may
   only disappear *)
Lemma AKg_tr n D e cl cl' s s' :
  c_ s' = c_ s -> l_ s' = l_ s -> q_ s' = q_ s -> wire (i_ s') = wire (i_ s) ->
  incl (chs (CL s')) (chs (CL s)) -> (NoDup (chs (CL s)) -> NoDup (chs (CL s'))) ->
  incl (chs cl') (chs cl) -> incl (chs cl') (chs (CL s')) ->
  AKg n D e cl s -> AKg n D e cl' s'.
Proof.
  intros H1 H2 H3 H4 H5 H6 H7 H8 [A B C D' E' (ws & F1 & F2)].
  constructor; unfold hkeys in *; rewrite ?H1, ?H2, ?H3, ?H4; auto.
  exists ws. split; auto. eapply Nat.le_trans; [exact F2|]. apply G_mono; [lia|auto].
Qed.

Definition AKe (n : nat) (D : list N) (e : nat) (s : st) : Prop := AKg n D e (CL s) s.

Lemma AKe_tr n D e s s' :
  c_ s' = c_ s -> l_ s' = l_ s -> q_ s' = q_ s -> wire (i_ s') = wire (i_ s) ->
  incl (chs (CL s')) (chs (CL s)) -> (NoDup (chs (CL s)) -> NoDup (chs (CL s'))) ->
  AKe n D e s -> AKe n D e s'.
Proof. intros. eapply AKg_tr; eauto using incl_refl. Qed.

Lemma AKe_KC n D e s s' : K s' = K s -> CL s' = CL s -> AKe n D e s -> AKe n D e s'.
Proof. intros HK HC H. Kproj HK. apply (AKe_tr n D e s s'); auto; rewrite ?HC; auto using incl_refl. Qed.

Lemma AK_up_b n D e g s : AKe n D e s -> AKe n D e (up_b g s).
Proof. apply AKe_KC; reflexivity. Qed.
Lemma AK_up_p n D e g s : AKe n D e s -> AKe n D e (up_p g s).
Proof. intros H. apply (AKe_tr n D e s); auto using incl_refl. Qed.
Lemma AK_up_s n D e g s : (forall x, calls (g x) = calls x) -> AKe n D e s -> AKe n D e (up_s g s).
Proof.
  intros Hg H. assert (HC : CL (up_s g s) = CL s) by (unfold CL; cbn [up_s s_]; apply Hg).
  apply (AKe_tr n D e s); auto using incl_refl; rewrite ?HC; auto using incl_refl.
Qed.
Lemma AK_up_i n D e g s : (forall x, wire (g x) = wire x) -> AKe n D e s -> AKe n D e (up_i g s).
Proof. intros Hg H. apply (AKe_tr n D e s); auto using incl_refl. cbn [up_i i_]. apply Hg. Qed.
Lemma AK_up_l n D e g s :
  (forall x, hgate (g x) = hgate x /\ nh (g x) = nh x) -> AKe n D e s -> AKe n D e (up_l g s).
Proof.
  intros Hg [A B C D' E' (ws & F1 & F2)]. destruct (Hg (l_ s)) as [G1 G2].
  constructor; unfold hkeys in *; cbn [up_l c_ l_ q_ i_]; rewrite ?G1, ?G2; auto.
  exists ws. auto.
Qed.
#[export] Hint Resolve AK_up_b AK_up_p : akdb.
#[export] Hint Extern 1 (AKe _ _ _ (up_s _ _)) => (apply AK_up_s; [intro; reflexivity|]) : akdb.
#[export] Hint Extern 1 (AKe _ _ _ (up_i _ _)) => (apply AK_up_i; [intro; reflexivity|]) : akdb.
#[export] Hint Extern 1 (AKe _ _ _ (up_l _ _)) => (apply AK_up_l; [intro; split; reflexivity|]) : akdb.

Lemma AK_wake n D e t s : AKe n D e s -> AKe n D e (wake t s).
Proof. apply AKe_KC; [apply K_wake|apply CL_wake]. Qed.
#[export] Hint Resolve AK_wake : akdb.
Lemma AK_wake_opt n D e t s : AKe n D e s -> AKe n D e (wake_opt t s).
Proof. apply AKe_KC; [apply K_wake_opt|apply CL_wake_opt]. Qed.
#[export] Hint Resolve AK_wake_opt : akdb.
Lemma AK_wake_all n D e l s : AKe n D e s -> AKe n D e (wake_all l s).
Proof. apply AKe_KC; [apply K_wake_all|apply CL_wake_all]. Qed.
#[export] Hint Resolve AK_wake_all : akdb.
Lemma AK_wake_disp n D e s : AKe n D e s -> AKe n D e (wake_disp s).
Proof. apply AKe_KC; [apply K_wake_disp|apply CL_wake_disp]. Qed.
#[export] Hint Resolve AK_wake_disp : akdb.
Lemma AK_wake_cnt n D e s : AKe n D e s -> AKe n D e (wake_cnt s).
Proof. apply AKe_KC; [apply K_wake_cnt|apply CL_wake_cnt]. Qed.
#[export] Hint Resolve AK_wake_cnt : akdb.
Lemma AK_wake_lim n D e s : AKe n D e s -> AKe n D e (wake_lim s).
Proof. apply AKe_KC; [apply K_wake_lim|apply CL_wake_lim]. Qed.
#[export] Hint Resolve AK_wake_lim : akdb.
Lemma AK_ip_notify n D e s : AKe n D e s -> AKe n D e (ip_notify s).
Proof. apply AKe_KC; [apply K_ip_notify|apply CL_ip_notify]. Qed.
#[export] Hint Resolve AK_ip_notify : akdb.
Lemma AK_ip_push n D e k t s : AKe n D e s -> AKe n D e (ip_push k t s).
Proof. apply AKe_KC; [apply K_ip_push|apply CL_ip_push]. Qed.
#[export] Hint Resolve AK_ip_push : akdb.
Lemma AK_sp_notify n D e s : AKe n D e s -> AKe n D e (sp_notify s).
Proof. apply AKe_KC; [apply K_sp_notify|apply CL_sp_notify]. Qed.
#[export] Hint Resolve AK_sp_notify : akdb.
Lemma AK_sp_push n D e t s : AKe n D e s -> AKe n D e (sp_push t s).
Proof. apply AKe_KC; [apply K_sp_push|apply CL_sp_push]. Qed.
#[export] Hint Resolve AK_sp_push : akdb.
Lemma AK_reg_guard n D e o t s : AKe n D e s -> AKe n D e (reg_guard o t s).
Proof. apply AKe_KC; [apply K_reg_guard|apply CL_reg_guard]. Qed.
#[export] Hint Resolve AK_reg_guard : akdb.
Lemma AK_wake_guard n D e o s : AKe n D e s -> AKe n D e (wake_guard o s).
Proof. apply AKe_KC; [apply K_wake_guard|apply CL_wake_guard]. Qed.
#[export] Hint Resolve AK_wake_guard : akdb.
Lemma AK_lim_inc n D e s : AKe n D e s -> AKe n D e (lim_inc s).
Proof. apply AKe_KC; [apply K_lim_inc|apply CL_lim_inc]. Qed.
#[export] Hint Resolve AK_lim_inc : akdb.
Lemma AK_lim_dec n D e s : AKe n D e s -> AKe n D e (lim_dec s).
Proof. apply AKe_KC; [apply K_lim_dec|apply CL_lim_dec]. Qed.
#[export] Hint Resolve AK_lim_dec : akdb.
Lemma AK_release_guards n D e k g s : AKe n D e s -> AKe n D e (release_guards k g s).
Proof. apply AKe_KC; [apply K_release_guards|apply CL_release_guards]. Qed.
#[export] Hint Resolve AK_release_guards : akdb.
Lemma AK_wake_keys n D e l s : AKe n D e s -> AKe n D e (wake_keys l s).
Proof. apply AKe_KC; [apply K_wake_keys|apply CL_wake_keys]. Qed.
#[export] Hint Resolve AK_wake_keys : akdb.
Lemma AK_wake_spawned n D e l s : AKe n D e s -> AKe n D e (wake_spawned l s).
Proof. apply AKe_KC; [apply K_wake_spawned|apply CL_wake_spawned]. Qed.
#[export] Hint Resolve AK_wake_spawned : akdb.
Lemma AK_free_key n D e k s : AKe n D e s -> AKe n D e (free_key k s).
Proof. apply AKe_KC; [apply K_free_key|apply CL_free_key]. Qed.
#[export] Hint Resolve AK_free_key : akdb.
Lemma AK_tw_poll n D e s : AKe n D e s -> AKe n D e (tw_poll s).
Proof. apply AKe_KC; [apply K_tw_poll|apply CL_tw_poll]. Qed.
#[export] Hint Resolve AK_tw_poll : akdb.
Lemma AK_wake_waiting_h n D e h l s : AKe n D e s -> AKe n D e (wake_waiting_h h l s).
Proof. apply AKe_KC; [apply K_wake_waiting_h|apply CL_wake_waiting_h]. Qed.
#[export] Hint Resolve AK_wake_waiting_h : akdb.
Lemma AK_wake_waiting_p n D e h l s : AKe n D e s -> AKe n D e (wake_waiting_p h l s).
Proof. apply AKe_KC; [apply K_wake_waiting_p|apply CL_wake_waiting_p]. Qed.
#[export] Hint Resolve AK_wake_waiting_p : akdb.

(* calls table updates *)
Lemma AK_upd n D e k f s :
  (forall c, ch1 (cst (f c)) = [] \/ ch1 (cst (f c)) = ch1 (cst c)) ->
  AKe n D e s -> AKe n D e (up_s (fun x => s_calls (upd_call k f (calls x)) x) s).
Proof.
  intros Hf H. destruct (chs_upd_drop k f (CL s) Hf) as [U1 U2].
  apply (AKe_tr n D e s); auto.
Qed.
Lemma AK_set_cst n D e k v s : ch1 v = [] -> AKe n D e s -> AKe n D e (set_cst k v s).
Proof. intros Hv. unfold set_cst. apply AK_upd. intros c. left. exact Hv. Qed.
Lemma AK_flag n D e k b s :
  AKe n D e s ->
  AKe n D e (up_s (fun x => s_calls (upd_call k (fun c => mkCall (cid c) (cst c) b (chost c) (ckey c)) (calls x)) x) s).
Proof. apply AK_upd. intros c. now right. Qed.
Lemma AK_del n D e k s : AKe n D e s -> AKe n D e (up_s (fun x => s_calls (del_call k (calls x)) x) s).
Proof.
  intros H. destruct (chs_del k (CL s)) as (U1 & U2 & _). apply (AKe_tr n D e s); auto.
Qed.
Lemma AK_add n D e c s : ch1 (cst c) = [] -> AKe n D e s -> AKe n D e (up_s (fun x => s_calls (calls x ++ [c]) x) s).
Proof.
  intros Hc H.
  assert (E : chs (CL (up_s (fun x => s_calls (calls x ++ [c]) x) s)) = chs (CL s)).
  { unfold CL. cbn [up_s s_ s_calls calls]. rewrite chs_app, chs_cons, Hc. cbn [app chs flat_map]. now rewrite app_nil_r. }
  apply (AKe_tr n D e s); auto; rewrite E; auto using incl_refl.
Qed.
#[export] Hint Resolve AK_flag AK_del : akdb.
#[export] Hint Extern 1 (AKe _ _ _ (set_cst _ _ _)) => (apply AK_set_cst; [reflexivity|]) : akdb.
#[export] Hint Extern 1 (AKe _ _ _ (up_s (fun x => s_calls (calls x ++ _) x) _)) => (apply AK_add; [reflexivity|]) : akdb.

(* writes *)
Lemma AK_io_close n D e s : AKe n D e s -> AKe n D e (io_close s).
Proof.
  intros H. apply (AKe_tr n D e s); auto using io_close_c, io_close_l, io_close_q, io_close_wire;
    rewrite CL_io_close; auto using incl_refl.
Qed.
Lemma flat3_snoc ws t id r : flat3 (ws ++ [(t, id, r)]) = flat3 ws ++ [t; id; r].
Proof. now rewrite flat3_app. Qed.
Lemma AK_io_encode n D e t id r s : ackt (t, id, r) = false -> AKe n D e s -> AKe n D e (io_encode t id r s).
Proof.
  intros Ha [A B C D' E' (ws & F1 & F2)].
  constructor; unfold hkeys in *; rewrite ?io_encode_c, ?io_encode_l, ?io_encode_q, ?CL_io_encode; auto.
  rewrite io_encode_wire. destruct (closedio s); [exists ws; auto|].
  exists (ws ++ [(t, id, r)]). rewrite flat3_snoc, F1. split; auto.
  rewrite cnt_app. unfold cnt at 2. cbn [filter]. rewrite Ha. cbn [length]. lia.
Qed.
#[export] Hint Resolve AK_io_close : akdb.
#[export] Hint Extern 1 (AKe _ _ _ (io_encode _ _ _ _)) => (apply AK_io_encode; [reflexivity|]) : akdb.

Lemma AK_close3c n D e s : AKe n D e s -> AKe n D e (close3c s).
Proof. intros H. unfold close3c, test_set_dsent. dm; auto with akdb. Qed.
#[export] Hint Resolve AK_close3c : akdb.

Lemma AK_body n D e p s : AKe n D e s -> AKe n D e (fst (proto_body p s)).
Proof.
  intros H. destruct p; bodies; repeat dm; cbn [fst]; auto 10 with akdb.
Qed.
#[export] Hint Resolve AK_body : akdb.

(* ---- results in flight *)
Definition ackr (r : cres) : nat :=
  match r with RSome t _ x => if (t <=? 80) && negb (x =? 145) then 1 else 0 | _ => 0 end.

Section Arith2.
Local Ltac Zify.zify_post_hook ::= Z.div_mod_to_equations.
(* what a result code decodes to when it is written: never more of an acknowledgement than the result was *)
Lemma ackc_code t id x : x < 256 -> (cnt ackc (ritem (hres_of (RSome t id x))) <= ackr (RSome t id x))%nat.
Proof.
  intros Hx. cbn [hres_of ritem ackr]. unfold cnt. cbn [filter]. unfold ackc, ackt, trip_of, wire_code. cbn [fst snd].
  assert (E3 : (t * 16777216 + id * 256 + x) mod 256 = x) by lia. rewrite E3.
  assert (HT : t <= (t * 16777216 + id * 256 + x) / 16777216) by lia.
  generalize dependent ((t * 16777216 + id * 256 + x) / 16777216). intros T' HT.
  destruct (x =? 145); cbn [negb]; rewrite ?andb_false_r; cbn [length]; [lia|]. rewrite !andb_true_r.
  destruct (t <=? 80) eqn:Ht.
  - destruct ((T' =? 64) || (T' =? 80)); cbn [length]; lia.
  - apply N.leb_gt in Ht.
    destruct (N.eqb_spec T' 64); [lia|]. destruct (N.eqb_spec T' 80); [lia|]. cbn. lia.
Qed.
End Arith2.

Lemma ackc_res r :
  match r with RSome _ _ x => x < 256 | _ => True end -> (cnt ackc (ritem (hres_of r)) <= ackr r)%nat.
Proof. destruct r; cbn [hres_of ritem ackr]; try (intros; cbn; lia). apply ackc_code. Qed.

(* a result of the control path is never a PUBLISH acknowledgement (server role) *)
Lemma ctl_no_ack m res (is5 : bool) s :
  let r := snd (ctl_result m (if is5 then ack5 (fst m) res else ack3 (fst m) res) s) in
  ackr r = 0%nat /\ match r with RSome _ _ x => x < 256 | _ => True end.
Proof.
  destruct m as [kind pid]. cbn [fst]. unfold ack5, ack3. results.
  destruct is5; repeat (dm; cbn [fst snd]); cbn [snd ackr]; split; auto; try lia; try reflexivity.
Qed.

Lemma ctl_l m a s : l_ (fst (ctl_result m a s)) = l_ s.
Proof. destruct m. results. repeat dm; cbn [fst]; rewrite ?io_close_l; reflexivity. Qed.

Lemma AK_ctl n D e m a s : AKe n D e s -> AKe n D e (fst (ctl_result m a s)).
Proof. intros H. destruct m. results. cbv beta iota zeta. repeat (dm; cbn [fst snd]); unfold info_remove; auto 10 with akdb. Qed.
#[export] Hint Resolve AK_ctl : akdb.
Lemma AK_hres n D e q2 id res s : AKe n D e s -> AKe n D e (fst (hres_any q2 id res s)).
Proof. intros H. results. repeat (dm; cbn [fst snd]); unfold info_remove; auto 10 with akdb. Qed.
#[export] Hint Resolve AK_hres : akdb.

Lemma hres_res_lt q2 id res s : match snd (hres_any q2 id res s) with RSome _ _ x => x < 256 | _ => True end.
Proof. results. repeat (dm; cbn [fst snd]); cbn [snd]; auto; try lia; try (apply neg_ack_lt; b2p; assumption). Qed.

Definition rlt (r : cres) : Prop := match r with RSome _ _ x => x < 256 | _ => True end.
Definition AKo (n : nat) (D : list N) (k : N) (p : st * option cres) : Prop :=
  match snd p with
  | None => AKe n D 0 (fst p)
  | Some r => AKg n D (ackr r) (del_call k (CL (fst p))) (fst p) /\ rlt r
  end.

Lemma AKe_R n D k s r : ackr r = 0%nat -> AKe n D 0 s -> AKg n D (ackr r) (del_call k (CL s)) s.
Proof.
  intros Hr H. rewrite Hr. destruct (chs_del k (CL s)) as (U1 & _).
  apply (AKg_tr n D 0 (CL s) (del_call k (CL s)) s s); auto using incl_refl.
Qed.

Lemma assocN_keys h l v : assocN h l = Some v -> In h (map fst l).
Proof.
  induction l as [|[a b] l IH]; cbn [assocN map fst In]; [discriminate|].
  destruct (N.eqb_spec a h); [now left|right; auto].
Qed.
Lemma find_call_chs k l c h : find_call k l = Some c -> In h (ch1 (cst c)) -> In h (chs l).
Proof.
  induction l as [|y l IH]; cbn [find_call]; [discriminate|]. intros Ec Hh.
  rewrite chs_cons. apply in_or_app. destruct (cid y =? k); [left; now injection Ec as ->|right; auto].
Qed.
Lemma ackr_le1 r : (ackr r <= 1)%nat.
Proof. destruct r; cbn [ackr]; try lia. dm; lia. Qed.

(* a parked handler call whose completion has been given: its result, accounted with the call removed *)
Lemma AK_hres_done n D k s c h q2 id res :
  AKe n D 0 s -> find_call k (CL s) = Some c -> cst c = CHandler h q2 id ->
  gate_val h (hgate (l_ s)) = Some res ->
  AKo n D k (fst (hres_any q2 id res s), Some (snd (hres_any q2 id res s))).
Proof.
  intros H Ec Ecs Hg. unfold AKo. cbn [fst snd]. split; [|apply hres_res_lt].
  pose proof (AK_hres n D 0 q2 id res s H) as H1.
  destruct H1 as [A B C D' E' (ws & F1 & F2)].
  assert (HC : CL (fst (hres_any q2 id res s)) = CL s) by apply CL_hres.
  assert (HL : l_ (fst (hres_any q2 id res s)) = l_ s) by apply hres_l.
  unfold hkeys in *. rewrite HC in *. rewrite HL in *.
  destruct (chs_del k (CL s)) as (U1 & U2 & U3).
  constructor; unfold hkeys; rewrite ?HC, ?HL; auto.
  exists ws. split; auto.
  assert (Hin : In h (chs (CL s))) by (apply (find_call_chs k _ c); auto; rewrite Ecs; now left).
  assert (Hstep : (G D (nh (l_ s)) (chs (CL s)) + 1 <= G D (nh (l_ s)) (chs (del_call k (CL s))))%nat).
  { apply (G_step _ _ _ _ _ h); auto; try lia.
    - rewrite <- B. apply (assocN_keys _ _ res). exact Hg.
    - unfold gdone. apply andb_false_iff. right. apply negb_false_iff, memN_In, Hin.
    - unfold gdone. apply andb_true_iff. split; [apply N.leb_le; auto|].
      apply negb_true_iff, memN_false. apply (U3 c Ec); auto. rewrite Ecs. now left. }
  pose proof (ackr_le1 (snd (hres_any q2 id res s))). lia.
Qed.

Lemma role_server s : role (c_ s) = 0 -> is_client s = false.
Proof. unfold is_client. now intros ->. Qed.

Lemma body_done_noack p s r : snd (proto_body p s) = ODone r -> ackr r = 0%nat /\ rlt r.
Proof.
  destruct p; bodies; repeat dm; cbn [snd]; try discriminate; intros E; injection E as <-; cbn [ackr rlt]; split; auto; lia.
Qed.
Lemma srv_no_ctlp p s m qos id t plen retain :
  is_client s = false -> snd (proto_body p s) <> OCtlP m qos id t plen retain.
Proof. intros Hc. unfold proto_body. rewrite Hc. destruct p; unfold body3, body5, proto_err; repeat dm; cbn [snd]; discriminate. Qed.

Lemma NoDup_insert {A} (a b : list A) h : NoDup (a ++ b) -> ~ In h (a ++ b) -> NoDup (a ++ h :: b).
Proof.
  induction a as [|x a IH]; cbn [app]; intros H1 H2; [now constructor|].
  inversion H1; subst. constructor.
  - rewrite in_app_iff in *. cbn [In] in *. intuition.
  - apply IH; auto. cbn [In] in H2. tauto.
Qed.

(* a call is parked waiting for the fresh handler number h *)
Lemma chs_set_handler k h q2 id l :
  let l' := upd_call k (fun c => mkCall (cid c) (CHandler h q2 id) (clim c) (chost c) (ckey c)) l in
  (forall x, In x (chs l') -> x = h \/ In x (chs l)) /\
  (NoDup (chs l) -> ~ In h (chs l) -> NoDup (chs l')).
Proof.
  cbv zeta. set (f := fun c => mkCall (cid c) (CHandler h q2 id) (clim c) (chost c) (ckey c)).
  destruct (chs_upd k f l) as [E|(l1 & c & l2 & A1 & A2 & A3)].
  - rewrite E. split; auto.
  - rewrite A3, A1, !chs_app, !chs_cons. cbn [f cst ch1 app]. split.
    + intros x Hx. apply in_app_or in Hx as [Hx|[Hx|Hx]]; auto; right; apply in_or_app; auto.
      right. apply in_or_app. now right.
    + intros Hn Hh. apply NoDup_insert.
      * now apply NoDup_app_remove_mid in Hn.
      * intros Hin. apply Hh. apply in_app_or in Hin as [Hin|Hin]; apply in_or_app; auto.
        right. apply in_or_app. now right.
Qed.

Lemma AK_log_handler_park n D k h q2 qos id t plen retain s :
  h = nh (l_ s) + 1 -> gate_val h (hgate (l_ s)) = None ->
  AKe n D 0 s -> AKe n D 0 (set_cst k (CHandler h q2 id) (log_handler h qos id t plen retain s)).
Proof.
  intros Hh Hg [A B C D' E' (ws & F1 & F2)].
  destruct (chs_set_handler k h q2 id (CL s)) as [S1 S2].
  assert (Hfresh : ~ In h (chs (CL s))) by (intros Hin; apply D' in Hin; lia).
  assert (HCL : CL (set_cst k (CHandler h q2 id) (log_handler h qos id t plen retain s)) =
                upd_call k (fun c => mkCall (cid c) (CHandler h q2 id) (clim c) (chost c) (ckey c)) (CL s)) by reflexivity.
  unfold AKe. rewrite HCL.
  constructor; unfold hkeys in *; cbn [set_cst log_handler up_s up_l c_ l_ q_ i_ l_nh l_hlog nh hgate]; auto.
  - intros x Hx. destruct (S1 x Hx) as [->|Hx']; [lia|]. apply D' in Hx'. lia.
  - apply incl_refl.
  - exists ws. split; auto. eapply Nat.le_trans; [exact F2|]. apply cnt_imp.
    intros x Hx. unfold gdone. rewrite !andb_true_iff, !negb_true_iff, !N.leb_le, !memN_false.
    intros [X1 X2]. split; [lia|]. intros X3. destruct (S1 x X3) as [->|X4]; [lia|auto].
Qed.

Lemma AK_log_handler_done n D k h q2 qos id t plen retain res s :
  h = nh (l_ s) + 1 -> gate_val h (hgate (l_ s)) = Some res ->
  AKe n D 0 s ->
  let s2 := log_handler h qos id t plen retain s in
  AKo n D k (fst (hres_any q2 id res s2), Some (snd (hres_any q2 id res s2))).
Proof.
  intros Hh Hg H s2. unfold AKo. cbn [fst snd]. split; [|apply hres_res_lt].
  assert (H2 : AKg n D 1 (del_call k (CL s2)) s2).
  { destruct H as [A B C D' E' (ws & F1 & F2)]. destruct (chs_del k (CL s)) as (U1 & U2 & U3).
    assert (HCL : CL s2 = CL s) by reflexivity. rewrite HCL.
    constructor; unfold hkeys in *; unfold s2; cbn [log_handler up_l c_ l_ q_ i_ l_nh l_hlog nh hgate]; auto.
    - intros x Hx. apply D' in Hx. lia.
    - exists ws. split; auto.
      assert (Hstep : (G D (nh (l_ s)) (chs (CL s)) + 1 <= G D h (chs (del_call k (CL s))))%nat).
      { apply (G_step _ _ _ _ _ h); auto; try lia.
        - rewrite <- B. apply (assocN_keys _ _ res). exact Hg.
        - unfold gdone. apply andb_false_iff. left. apply N.leb_gt. lia.
        - unfold gdone. apply andb_true_iff. split; [apply N.leb_le; lia|].
          apply negb_true_iff, memN_false. intros Hin. apply U1, D' in Hin. lia. }
      lia. }
  (* hres_any only touches the protocol state *)
  destruct H2 as [A B C D' E' (ws & F1 & F2)].
  assert (HC : CL (fst (hres_any q2 id res s2)) = CL s2) by apply CL_hres.
  assert (HL : l_ (fst (hres_any q2 id res s2)) = l_ s2) by apply hres_l.
  constructor; unfold hkeys in *; rewrite ?HC, ?HL, ?hres_c; auto.
  exists ws. rewrite hres_wire. split; auto.
  assert (Q : q_ (fst (hres_any q2 id res s2)) = q_ s2) by (pose proof (R_hres q2 id res s2) as HR; unfold R in HR; injection HR; auto).
  rewrite Q. pose proof (ackr_le1 (snd (hres_any q2 id res s2))). lia.
Qed.

(* ---- compound plumbing *)
Ltac akpair :=
  repeat match goal with E : ?f = (?s1, _) |- _ =>
    lazymatch goal with H : AKe _ _ _ s1 |- _ => fail | _ => try fail end;
    match goal with H0 : AKe ?n ?D ?e _ |- _ =>
      let H := fresh "HA" in
      assert (H : AKe n D e s1) by (replace s1 with (fst f) by (rewrite E; reflexivity); auto 20 with akdb)
    end
  end.
Ltac akauto := intros; repeat (dm; akpair); cbn [fst snd]; auto 30 with akdb.

Lemma AK_bs_ready0 n D e who w s : AKe n D e s -> AKe n D e (fst (bs_ready0 who w s)).
Proof. unfold bs_ready0. akauto. Qed.
#[export] Hint Resolve AK_bs_ready0 : akdb.
Lemma AK_bs_ready n D e who w s : AKe n D e s -> AKe n D e (fst (bs_ready who w s)).
Proof. unfold bs_ready. akauto. Qed.
#[export] Hint Resolve AK_bs_ready : akdb.
Lemma AK_retire_call n D e k s : AKe n D e s -> AKe n D e (retire_call k s).
Proof. unfold retire_call. akauto. Qed.
Lemma AK_cancel_call n D e k s : AKe n D e s -> AKe n D e (cancel_call k s).
Proof. unfold cancel_call. akauto. Qed.
#[export] Hint Resolve AK_retire_call AK_cancel_call : akdb.
Lemma AK_r1_poll_srv n D e s : AKe n D e s -> AKe n D e (fst (r1_poll_srv s)).
Proof. unfold r1_poll_srv. akauto. Qed.
Lemma AK_r1_poll_cli n D e s : AKe n D e s -> AKe n D e (fst (r1_poll_cli s)).
Proof. unfold r1_poll_cli. akauto. Qed.
#[export] Hint Resolve AK_r1_poll_srv AK_r1_poll_cli : akdb.
Lemma AK_r1_poll n D e s : AKe n D e s -> AKe n D e (fst (r1_poll s)).
Proof. unfold r1_poll. akauto. Qed.
#[export] Hint Resolve AK_r1_poll : akdb.
Lemma AK_shut_flush n D e s : AKe n D e s -> AKe n D e (fst (shut_flush s)).
Proof. unfold shut_flush. akauto. Qed.
Lemma AK_shut_done n D e s : AKe n D e s -> AKe n D e (shut_done s).
Proof. unfold shut_done. akauto. Qed.
Lemma AK_d_finish n D e s : AKe n D e s -> AKe n D e (d_finish s).
Proof. unfold d_finish. akauto. Qed.
#[export] Hint Resolve AK_shut_flush AK_shut_done AK_d_finish : akdb.
Lemma AK_do_stop n D e kind reason s : AKe n D e s -> AKe n D e (do_stop kind reason s).
Proof.
  intros H. unfold do_stop, test_set_dsent. cbv beta iota zeta.
  assert (L : forall X, AKe n D e X ->
     AKe n D e (up_l (fun x => l_stops (stops x + 1) (if stops x =? 0 then l_stop1 kind x else x)) X)).
  { intros X HX. apply AK_up_l; auto. intro x. destruct (stops x =? 0); split; reflexivity. }
  repeat (match goal with |- context [if ?x then _ else _] => destruct x eqn:? end; cbv beta iota zeta);
    auto 20 with akdb.
Qed.
#[export] Hint Resolve AK_do_stop : akdb.
Lemma cnt_cons {A} (f : A -> bool) x l : cnt f (x :: l) = ((if f x then 1 else 0) + cnt f l)%nat.
Proof. unfold cnt. cbn [filter]. destruct (f x); reflexivity. Qed.
Lemma AK_emit l : forall s w,
  wire (i_ s) = flat3 w ->
  exists w', wire (i_ (emit l s)) = flat3 (w ++ w') /\ (cnt ackt w' <= cnt ackc l)%nat.
Proof.
  induction l as [|b l IH]; intros s w Hw; cbn [emit wire_fields].
  - exists []. rewrite app_nil_r. split; auto.
  - destruct (IH (io_encode (b / 16777216) ((b / 256) mod 65536) (b mod 256) s)
                 (if closedio s then w else w ++ [trip_of b])) as (w' & A1 & A2).
    { rewrite io_encode_wire, Hw. destruct (closedio s); auto. unfold trip_of. now rewrite flat3_snoc. }
    destruct (closedio s).
    + exists w'. split; auto. rewrite cnt_cons. clear - A2. destruct (ackc b); cbn [Nat.add]; [apply le_S|]; exact A2.
    + exists (trip_of b :: w'). rewrite A1, <- app_assoc. split; auto.
      rewrite !cnt_cons. unfold ackc. clear - A2. destruct (ackt (trip_of b)); cbn [Nat.add]; [apply le_n_S|]; exact A2.
Qed.

(* ---- the call chain, with the result in flight *)
Lemma AKo_none n D k s : AKe n D 0 s -> AKo n D k (s, None).
Proof. intros H. exact H. Qed.
Lemma AKo_noack n D k s r : ackr r = 0%nat -> rlt r -> AKe n D 0 s -> AKo n D k (s, Some r).
Proof. intros H1 H2 H. split; auto. now apply AKe_R. Qed.

Lemma AKo_proto_finish n D k m g res s : AKe n D 0 s -> AKo n D k (proto_finish k m g res s).
Proof.
  intros H. unfold proto_finish.
  set (a := if v5 (c_ s) then ack5 (fst m) res else ack3 (fst m) res).
  set (s2 := release_guards k g (set_cst k (CBuf m) s)).
  assert (H2 : AKe n D 0 s2) by (unfold s2; auto 10 with akdb).
  pose proof (AK_ctl n D 0 m a s2 H2) as H3.
  destruct (ctl_no_ack m res (v5 (c_ s)) s2) as [N1 N2]. fold a in N1, N2.
  destruct (ctl_result m a s2) as [s3 r]. cbn [fst snd] in *. now apply AKo_noack.
Qed.
Lemma AKo_proto_invoke n D who k m g s : AKe n D 0 s -> AKo n D k (proto_invoke who k m g s).
Proof.
  intros H. unfold proto_invoke. repeat dm; try (simple apply AKo_proto_finish); try (simple apply AKo_none); auto 10 with akdb.
Qed.
Lemma AKo_inner_call n D who k m g s : AKe n D 0 s -> AKo n D k (inner_call who k m g s).
Proof.
  intros H. unfold inner_call. repeat dm; try (simple apply AKo_proto_invoke); try (simple apply AKo_none); auto 10 with akdb.
Qed.
Lemma AKo_ctl_enter n D nn : forall who k m w s, AKe n D 0 s -> AKo n D k (ctl_enter nn who k m w s).
Proof.
  induction nn as [|nn IH]; intros who k m w s H; cbn [ctl_enter]; repeat (dm; akpair);
    try (simple apply IH); try (simple apply AKo_inner_call); try (simple apply AKo_none); auto 10 with akdb.
Qed.

Lemma AKo_body n D who k p s : AKe n D 0 s -> AKo n D k (body who k p s).
Proof.
  intros H. rewrite body_proto_body.
  pose proof (AK_body n D 0 p s H) as H1.
  assert (Hc : is_client (fst (proto_body p s)) = false).
  { apply role_server. rewrite body_c. apply H. }
  pose proof (body_done_noack p s) as Hd. pose proof (srv_no_ctlp p s) as Hp.
  assert (Hcs : is_client s = false) by (apply role_server, H).
  destruct (proto_body p s) as [s1 o]. cbn [fst snd] in *.
  destruct o as [r|q2 qos id t plen retain|m|m qos id t plen retain].
  - destruct (Hd r eq_refl). now apply AKo_noack.
  - cbv zeta. set (h := nh (l_ s1) + 1).
    assert (Hg : hgate (l_ (log_handler h qos id t plen retain s1)) = hgate (l_ s1)) by reflexivity.
    rewrite Hg. destruct (gate_val h (hgate (l_ s1))) as [res|] eqn:Eg.
    + pose proof (AK_log_handler_done n D k h q2 qos id t plen retain res s1 eq_refl Eg H1) as H2.
      cbv zeta in H2. destruct (hres_any q2 id res _) as [s3 r]. exact H2.
    + apply AKo_none. now apply AK_log_handler_park.
  - rewrite Hc. now apply AKo_ctl_enter.
  - exfalso. eapply Hp; eauto.
Qed.

Lemma AKo_gate n D who k p w s : AKe n D 0 s -> AKo n D k (gate who k p w s).
Proof.
  intros H. unfold gate. repeat (dm; akpair); try (simple apply AKo_body); try (simple apply AKo_none); auto 10 with akdb.
Qed.

Lemma AKo_poll_call n D who k s : AKe n D 0 s -> AKo n D k (poll_call who k s).
Proof.
  intros H. unfold poll_call.
  assert (Hcs : is_client s = false) by (apply role_server, H). rewrite Hcs.
  destruct (find_call k (calls (s_ s))) as [c|] eqn:Ef; [|now apply AKo_none].
  destruct (cst c) eqn:Ec; try (now apply AKo_none).
  - apply AKo_gate. auto 10 with akdb.
  - now apply AKo_gate.
  - destruct (gate_val h (hgate (l_ s))) as [res|] eqn:Eg; [|now apply AKo_none].
    pose proof (AK_hres_done n D k s c h q2 id res H Ef Ec Eg) as H2.
    destruct (hres_any q2 id res s) as [s1 r]. exact H2.
  - now apply AKo_ctl_enter.
  - now apply AKo_inner_call.
  - now apply AKo_inner_call.
  - destruct (gate_val c0 (pgate (l_ s))); [now apply AKo_proto_finish|now apply AKo_none].
  - (* CLimWait: only v3 clients create it; here it is polled by climgate *)
    unfold climgate. repeat (dm; akpair); try (simple apply AKo_body); try (simple apply AKo_none); auto 10 with akdb.
Qed.

(* ---- results reach the response queue *)
Ltac natgen :=
  repeat match goal with
  | |- context [G ?a ?b ?c] => generalize dependent (G a b c)
  | |- context [nackq ?l] => generalize dependent (nackq l)
  | |- context [@cnt ?A ?f ?l] => generalize dependent (@cnt A f l)
  | H : context [nackq ?l] |- _ => generalize dependent (nackq l)
  | H : context [@cnt ?A ?f ?l] |- _ => generalize dependent (@cnt A f l)
  end; intros; lia.
Lemma AK_retire_res n D e k s : AKg n D e (del_call k (CL s)) s -> AKe n D e (retire_call k s).
Proof.
  intros [A B C D' E' (ws & F1 & F2)]. unfold retire_call.
  destruct (find_call k (calls (s_ s))) as [c|] eqn:Ef.
  - destruct (chs_del k (CL s)) as (U1 & U2 & _).
    assert (M : AKe n D e (up_s (fun x => s_calls (del_call k (calls x)) x) s)).
    { unfold AKe. change (CL (up_s (fun x => s_calls (del_call k (calls x)) x) s)) with (del_call k (CL s)).
      constructor; auto using incl_refl. exists ws. auto. }
    dm; auto with akdb.
  - unfold AKe. change (calls (s_ s)) with (CL s) in Ef. rewrite (del_call_none _ _ Ef) in *.
    constructor; auto. exists ws. auto.
Qed.

Lemma after_rq_proj q0 q1 d s :
  c_ (after_rq q0 q1 d s) = c_ s /\ l_ (after_rq q0 q1 d s) = l_ s /\ CL (after_rq q0 q1 d s) = CL s /\
  q_ (after_rq q0 q1 d s) = q1 /\
  forall w, wire (i_ s) = flat3 w ->
    exists w', wire (i_ (after_rq q0 q1 d s)) = flat3 (w ++ w') /\
               (cnt ackt w' <= cnt ackc (drop_n (length (out q0)) (out q1)))%nat.
Proof.
  unfold after_rq.
  assert (Hem : forall l x, c_ (emit l x) = c_ x /\ l_ (emit l x) = l_ x /\ q_ (emit l x) = q_ x).
  { induction l as [|b l IH]; intros x; cbn [emit wire_fields]; auto.
    destruct (IH (io_encode (b / 16777216) (b / 256 mod 65536) (b mod 256) x)) as (A1 & A2 & A3).
    rewrite A1, A2, A3, io_encode_c, io_encode_l, io_encode_q. auto. }
  match goal with |- context [emit ?l ?x] => destruct (Hem l x) as (A1 & A2 & A3); set (X := x) in * end.
  rewrite A1, A2, A3, CL_emit.
  assert (P : c_ X = c_ s /\ l_ X = l_ s /\ CL X = CL s /\ q_ X = q1 /\ i_ X = i_ s).
  { unfold X. repeat dm; repeat split; reflexivity. }
  destruct P as (P1 & P2 & P3 & P4 & P5). repeat split; auto.
  intros w Hw. apply AK_emit. now rewrite P5.
Qed.

Lemma AK_rq n D e q1 d X extra :
  AKe n D e X -> rq_cnt (q_ X) q1 extra -> (cnt ackc extra <= e)%nat -> AKe n D 0 (after_rq (q_ X) q1 d X).
Proof.
  intros [A B C D' E' (ws & F1 & F2)] (new & R1 & R2) He.
  destruct (after_rq_proj (q_ X) q1 d X) as (P1 & P2 & P3 & P4 & P5).
  destruct (P5 ws F1) as (w' & W1 & W2). rewrite R1, drop_n_app in W2.
  unfold AKe. rewrite P3. constructor; unfold hkeys in *; rewrite ?P1, ?P2, ?P3, ?P4; auto.
  exists (ws ++ w'). split; auto. rewrite cnt_app. lia.
Qed.

Lemma AK_setq n D q1 X : AKe n D 0 X -> rq_cnt (q_ X) q1 [] -> AKe n D 0 (set_q q1 X).
Proof.
  intros [A B C D' E' (ws & F1 & F2)] (new & R1 & R2).
  constructor; auto. exists ws. split; auto. unfold CL in *. cbn [set_q q_ l_ s_] in *. rewrite cnt_nil in R2. lia.
Qed.

Lemma AK_finish_deferred n D k r s :
  AKe n D (ackr r) s -> rlt r -> AKe n D 0 (fst (finish_deferred k r s)).
Proof.
  intros H Hr. unfold finish_deferred. cbn [fst].
  apply (AK_rq n D (ackr r) _ _ s (ritem (hres_of r))); auto; [apply complete_cnt|now apply ackc_res].
Qed.

Lemma AK_weaken n D s : AKe n D 0 s -> AKe n D (ackr RNone) s.
Proof. auto. Qed.

Lemma AK_noerr n D s :
  AKe n D 0 s -> AKe n D 0 (set_q (mkRq (base (q_ s)) (queue (q_ s)) (response (q_ s)) (response_idx (q_ s)) false
                                         (spawned (q_ s)) (out (q_ s)) (panicked (q_ s))) s).
Proof. intros H. apply AK_setq; auto. apply rq_cnt_same; reflexivity. Qed.
#[export] Hint Resolve AK_noerr : akdb.

Lemma AK_d_call_service n D p s : AKe n D 0 s -> AKe n D 0 (fst (d_call_service p s)).
Proof.
  intros H. unfold d_call_service.
  set (k := nreq (s_ s) + 1). set (s0 := up_s (s_nreq k) s).
  assert (H0 : AKe n D 0 s0) by (unfold s0; auto with akdb).
  destruct (response (q_ s0)) eqn:Er.
  - match goal with |- context [let '(key, s0) := ?X in _] => destruct X as [key s0'] eqn:Ek' end.
    assert (H0' : AKe n D 0 s0' /\ q_ s0' = q_ s0).
    { destruct (cfree (s_ s0)); injection Ek' as <- <-; split; auto with akdb. }
    destruct H0' as [H0' Q]. cbn [fst]. apply AK_wake. apply AK_add; [reflexivity|].
    apply AK_setq; auto. rewrite Q. apply (call_service_cnt (q_ s0) k None).
  - cbn [fst].
    set (s1 := up_s (fun x => s_calls (calls x ++ [mkCall k (CInit p) false TD 0]) x) s0).
    assert (H1 : AKe n D 0 s1) by (unfold s1; apply AK_add; [reflexivity|exact H0]).
    pose proof (AKo_poll_call n D TD k s1 H1) as HP.
    destruct (poll_call TD k s1) as [s2 [r|]]; unfold AKo in HP; cbn [fst snd] in HP.
    + destruct HP as [HP Hr]. apply AK_retire_res in HP.
      set (s3 := retire_call k s2) in *.
      assert (AR : forall d X, AKe n D (ackr r) X ->
                 AKe n D 0 (after_rq (q_ X) (fst (call_service (q_ X) k (Some (hres_of r)))) d X)).
      { intros d X HX. apply (AK_rq n D (ackr r) _ d X (ritem (hres_of r))); auto.
        - apply (call_service_cnt (q_ X) k (Some (hres_of r))).
        - now apply ackc_res. }
      destruct r as [|t id x|e]; try (destruct (queue (q_ s3)) eqn:Eq); try apply AR; auto.
      change (q_ s3) with (q_ (up_s (s_qerrs (qerrs (s_ s3) ++ [e])) s3)). apply AR. auto with akdb.
    + apply AK_setq; auto. apply (call_service_cnt (q_ s2) k None).
Qed.
#[export] Hint Resolve AK_d_call_service AK_finish_deferred : akdb.

(* ---- dispatcher, tasks, scheduler *)
Lemma AK_d_loop n D fuel : forall s, AKe n D 0 s -> AKe n D 0 (d_loop fuel s).
Proof.
  induction fuel as [|f IH]; intros s HJ; cbn [d_loop]; auto.
  destruct (dst (s_ s)) as [|sh| |].
  - destruct (error (q_ s)); [auto 10 with akdb|].
    destruct (r1_poll s) as [s1 rdy] eqn:Er. akpair. destruct rdy.
    + match goal with |- context [rbuf (i_ ?X)] => assert (H2 : AKe n D 0 X) by (dm; auto 10 with akdb); set (s2 := X) in * end.
      destruct (rbuf (i_ s2)) as [|p rest] eqn:Erb.
      * repeat dm; auto 10 with akdb.
      * assert (H3 : AKe n D 0 (up_i (i_rbuf rest) s2)) by auto with akdb.
        assert (CS : AKe n D 0 (match d_call_service p (up_i (i_rbuf rest) s2) with
                          | (s3, true) => wake TD s3 | (s3, false) => d_loop f s3 end)).
        { pose proof (AK_d_call_service n D p _ H3) as H5.
          destruct (d_call_service p (up_i (i_rbuf rest) s2)) as [s3 [|]]; cbn [fst] in H5; auto with akdb. }
        destruct p; try exact CS. auto 10 with akdb.
    + repeat dm; auto 10 with akdb.
  - destruct sh; repeat (dm; akpair); auto 30 with akdb.
  - repeat dm; auto 10 with akdb.
  - exact HJ.
Qed.

Lemma AK_d_poll n D s : AKe n D 0 s -> AKe n D 0 (d_poll s).
Proof.
  intros H. unfold d_poll.
  assert (M : AKe n D 0 (match response (q_ s) with
                   | Some k => match poll_call TD k s with
                               | (s', Some r) => fst (finish_deferred k r (retire_call k s'))
                               | (s', None) => s' end
                   | None => s end)).
  { destruct (response (q_ s)) as [k|]; auto.
    pose proof (AKo_poll_call n D TD k s H) as HP.
    destruct (poll_call TD k s) as [s' [r|]]; unfold AKo in HP; cbn [fst snd] in HP; auto.
    destruct HP as [HP Hr]. apply AK_finish_deferred; auto. now apply AK_retire_res. }
  destruct (dst (s_ s)); auto using AK_d_loop.
Qed.

Lemma AK_ts_poll n D k s : AKe n D 0 s -> AKe n D 0 (ts_poll k s).
Proof.
  intros H. unfold ts_poll. destruct (find_call k (calls (s_ s))) as [c0|]; auto.
  pose proof (AKo_poll_call n D (TS k) k s H) as HP.
  destruct (poll_call (TS k) k s) as [s1 [r|]]; unfold AKo in HP; cbn [fst snd] in HP.
  - destruct HP as [HP Hr].
    assert (H3 : AKe n D 0 (fst (finish_deferred k r (retire_call k s1))))
      by (apply AK_finish_deferred; auto; now apply AK_retire_res).
    destruct (finish_deferred k r (retire_call k s1)) as [s2 e]. cbn [fst] in H3. dm; auto 10 with akdb.
  - destruct (stopping (s_ s1)); auto.
    assert (H3 : AKe n D 0 (fst (finish_deferred k RNone (cancel_call k s1))))
      by (apply AK_finish_deferred; [apply AK_weaken; auto with akdb|exact Logic.I]).
    destruct (finish_deferred k RNone (cancel_call k s1)) as [s2 e]. cbn [fst] in H3. dm; auto 10 with akdb.
Qed.

Lemma AK_tio_poll n D s : AKe n D 0 s -> AKe n D 0 (tio_poll s).
Proof. intros H. unfold tio_poll. repeat dm; auto 20 with akdb. Qed.

Lemma AK_run_task n D t s : AKe n D 0 s -> AKe n D 0 (run_task t s).
Proof.
  intros H. unfold run_task.
  match goal with |- context [self_woken (s_ ?X)] => assert (S1 : AKe n D 0 X); [|set (s1 := X) in *] end.
  { destruct t; auto using AK_d_poll, AK_tio_poll, AK_ts_poll with akdb. }
  cbv zeta. dm; auto 10 with akdb.
Qed.

Lemma AK_run_all n D fuel : forall s, AKe n D 0 s -> AKe n D 0 (run_all fuel s).
Proof.
  induction fuel as [|f IH]; intros s H; cbn [run_all]; auto.
  destruct (runq (s_ s)); auto. apply IH, AK_run_task. auto with akdb.
Qed.

(* ---- operations and runs *)
Definition dkh (D : list N) (h : N) : list N := if memN h D then D else D ++ [h].
(* the handler numbers for which a completion operation (2,h,res) has been given, in order of first mention *)
Definition dk (D : list N) (f : list N) : list N := match f with [2; h; _] => dkh D h | _ => D end.
Definition done_handlers (ops : list (list N)) : list N := fold_left dk ops [].

Lemma NoDup_dkh D h : NoDup D -> NoDup (dkh D h).
Proof.
  intros H. unfold dkh. destruct (memN h D) eqn:E; auto. apply NoDup_snoc'; auto. now apply memN_false.
Qed.
Lemma NoDup_dk D f : NoDup D -> NoDup (dk D f).
Proof. intros H. unfold dk. repeat dm; auto using NoDup_dkh. Qed.

Lemma keys_assoc_set h v l : assocN h l <> None -> map fst (assoc_set h v l) = map fst l.
Proof.
  induction l as [|[a b] l IH]; cbn [assocN assoc_set map fst]; [congruence|].
  destruct (a =? h) eqn:E; cbn [map fst]; auto. intros H. now rewrite IH.
Qed.
Lemma assocN_memN h l : memN h (map fst l) = match assocN h l with Some _ => true | None => false end.
Proof.
  induction l as [|[a b] l IH]; cbn [assocN map fst memN]; auto.
  rewrite (N.eqb_sym h a). destruct (a =? h); auto.
Qed.

Lemma AK_gate_op n D h res s :
  AKe n D 0 s ->
  AKe n (dkh D h) 0
    (let s1 := match assocN h (hgate (l_ s)) with
               | Some _ => up_l (l_hgate (assoc_set h res (hgate (l_ s)))) s
               | None => up_l (l_hgate (hgate (l_ s) ++ [(h, res)])) s
               end in wake_waiting_h h (calls (s_ s1)) s1).
Proof.
  intros [A B C D' E' (ws & F1 & F2)]. cbv zeta. apply AK_wake_waiting_h.
  unfold dkh. rewrite <- B. unfold hkeys. rewrite assocN_memN.
  destruct (assocN h (hgate (l_ s))) eqn:Ea.
  - constructor; unfold hkeys; cbn [up_l c_ l_ q_ i_ l_hgate hgate nh]; auto.
    + apply keys_assoc_set. congruence.
    + exists ws. unfold hkeys in B. rewrite B. auto.
  - constructor; unfold hkeys; cbn [up_l c_ l_ q_ i_ l_hgate hgate nh]; auto.
    + now rewrite map_app.
    + exists ws. split; auto. unfold hkeys in B. rewrite B.
      eapply Nat.le_trans; [exact F2|apply G_keys_snoc].
Qed.

Lemma AK_step_op n D f s : AKe n D 0 s -> AKe n (dk D f) 0 (step_op f s).
Proof.
  intros H. unfold step_op.
  assert (A1 : AKe n D 0 (if stopped (i_ s) then s
                          else wake TIO (up_i (i_chan (chan (i_ s) ++ [parse_pkt (v5 (c_ s)) f])) s)))
    by (dm; auto with akdb).
  assert (A3 : forall m res, AKe n D 0 (
      let s1 := match assocN m (pgate (l_ s)) with
                | Some _ => up_l (l_pgate (assoc_set m res (pgate (l_ s)))) s
                | None => up_l (l_pgate (pgate (l_ s) ++ [(m, res)])) s
                end in wake_waiting_p m (calls (s_ s1)) s1))
    by (intros; cbv zeta; dm; auto with akdb).
  pose proof (fun h res => AK_gate_op n D h res s H) as A2.
  unfold dk.
  repeat (match goal with |- context [match ?x with _ => _ end] =>
    lazymatch x with
    | context [match _ with _ => _ end] => fail
    | stopped _ => fail
    | assocN _ _ => fail
    | _ => destruct x
    end end);
  first [ exact A1 | apply A2 | apply A3 | exact H ].
Qed.

Lemma AK_clear_obs n D s :
  AKe n D 0 s -> exists ws, wire (i_ s) = flat3 ws /\ AKe (n + cnt ackt ws) D 0 (clear_obs s).
Proof.
  intros [A B C D' E' (ws & F1 & F2)]. exists ws. split; auto.
  constructor; auto. exists []. split; auto. cbn [clear_obs up_l up_i l_ q_ i_ l_plog l_hlog nh]. rewrite cnt_nil.
  change (CL (clear_obs s)) with (CL s). lia.
Qed.

Lemma AK_bound n D s : AKe n D 0 s -> (n <= length D)%nat.
Proof. intros [A B C D' E' (ws & F1 & F2)]. pose proof (G_le_len D (nh (l_ s)) (chs (CL s))). lia. Qed.

Lemma AK_trace ops : forall n D s,
  AKe n D 0 s -> wire (i_ s) = [] ->
  exists ws, cumwire (trace ops s) = flat3 ws /\ (n + cnt ackt ws <= length (fold_left dk ops D))%nat.
Proof.
  induction ops as [|f r IH]; intros n D s H Hw; cbn [trace fold_left].
  - exists []. split; auto. rewrite cnt_nil. pose proof (AK_bound n D s H). lia.
  - assert (H1 : AKe n (dk D f) 0 (run_all 400 (step_op f s))) by (apply AK_run_all, AK_step_op, H).
    destruct (AK_clear_obs _ _ _ H1) as (ws1 & W1 & H2).
    destruct (IH _ _ _ H2 eq_refl) as (ws2 & W2 & B2).
    exists (ws1 ++ ws2). unfold cumwire in *. cbn [flat_map]. rewrite W2, W1, flat3_app, cnt_app. split; auto. lia.
Qed.

Lemma AK_init is5 cf : AKe 0 [] 0 (init_st is5 cf).
Proof.
  constructor; cbn; auto; try constructor; try contradiction.
  - apply incl_refl.
  - exists []. split; auto.
Qed.

(* every run of a server (MQTT 3.1.1 or 5): at the end of each prefix of the operation list, the PUBACKs and
   PUBRECs on the wire so far -- other than the immediate "identifier in use" (0x91) answers -- are no more
   than the publish handlers whose completion operation has been given so far *)
Theorem one_ack_per_handler_run (is5 : bool) (cf : list N) (a b : list (list N)) :
  let s := init_st is5 cf in
  trace (a ++ b) s = trace a s ++ trace b (after a s) /\
  exists ws, cumwire (trace a s) = flat3 ws /\ (cnt ackt ws <= length (done_handlers a))%nat.
Proof.
  intros s. split; [apply trace_app|].
  destruct (AK_trace a 0 [] s (AK_init is5 cf) eq_refl) as (ws & A1 & A2). exists ws. auto.
Qed.

Lemma dk_spec D f :
  dk D f = match f with [a; h; _] => if a =? 2 then dkh D h else D | _ => D end.
Proof.
  destruct f as [|a [|h [|r [|x f]]]]; try reflexivity;
    try (destruct a as [|[[p|p|]|[p|p|]|]]; reflexivity).
Qed.

Lemma done_handlers_spec ops h :
  In h (done_handlers ops) <-> exists res, In [2; h; res] ops.
Proof.
  unfold done_handlers.
  assert (Gen : forall D, In h (fold_left dk ops D) <-> In h D \/ exists res, In [2; h; res] ops).
  { induction ops as [|f r IH]; intros D; cbn [fold_left].
    - split; [auto|intros [H|(res & [])]; auto].
    - rewrite IH. clear IH.
      assert (Hd : In h (dk D f) <-> In h D \/ exists res, f = [2; h; res]).
      { rewrite dk_spec. destruct f as [|a [|h' [|r' [|x f]]]];
          try (split; [auto|intros [H|(res & E)]; [auto|discriminate]]).
        destruct (N.eqb_spec a 2) as [->|Ha].
        - unfold dkh. destruct (memN h' D) eqn:Em.
          + split; [auto|]. intros [H|(res & E)]; auto. injection E as <- _. now apply memN_In.
          + rewrite in_app_iff. cbn [In]. split.
            * intros [H|[<-|[]]]; [auto|right; eexists; reflexivity].
            * intros [H|(res & E)]; auto. injection E as <- _. auto.
        - split; [auto|]. intros [H|(res & E)]; auto. injection E as E _ _. congruence. }
      rewrite Hd. cbn [In]. split.
      + intros [[H|(res & E)]|(res & H)]; [auto|subst f; eauto|eauto].
      + intros [H|(res & [E|H])]; [auto|subst f; left; right; eauto|eauto]. }
  rewrite Gen. cbn [In]. tauto.
Qed.
Lemma done_handlers_nodup ops : NoDup (done_handlers ops).
Proof.
  unfold done_handlers. assert (Gen : forall D, NoDup D -> NoDup (fold_left dk ops D)).
  { induction ops as [|f r IH]; intros D H; cbn [fold_left]; auto using NoDup_dk. }
  apply Gen. constructor.
Qed.


Lemma ackt_spec (x : N * N * N) :
  ackt x = ((fst (fst x) =? 64) || (fst (fst x) =? 80)) && negb (snd x =? 145).
Proof. reflexivity. Qed.
