(* Proofs/CodecV5DecBase.v -- helper lemmas for Proofs/CodecV5Stream.v (property C02, v5 decoder):
   lengths, the non-panic predicate, "the decoder returns a suffix that is shorter by at least n bytes"
   ([gd n]), totality (no [Panic]) of every field decoder, of the property loop, of every per-packet
   decoder and of [decode_packet] / [packet_header_size] / [publish_decode]. *)
From Coq Require Import ZArith ZifyN ZifyBool Lia.
From MV Require Import Base.Prelude Base.Res Base.VarInt Base.Utf8 Proofs.VarIntProofs Model.CodecV5.
Ltac Zify.zify_post_hook ::= Z.div_mod_to_equations.
Set Warnings "-unused-intro-pattern".

(* ------------------------------------------------------------------ len *)
Lemma llen_nil : len (@nil N) = 0.
Proof. reflexivity. Qed.
Lemma llen_cons a (s : bytes) : len (a :: s) = 1 + len s.
Proof. unfold len. cbn [length]. lia. Qed.
Lemma llen_app (a b : bytes) : len (a ++ b) = len a + len b.
Proof. unfold len. rewrite app_length. lia. Qed.
Lemma llen_length (s : bytes) : N.to_nat (len s) = length s.
Proof. unfold len. lia. Qed.
Lemma llen_firstn n (s : bytes) : len (firstn (N.to_nat n) s) = N.min n (len s).
Proof. unfold len. rewrite firstn_length. lia. Qed.
Lemma llen_skipn n (s : bytes) : len (skipn (N.to_nat n) s) = len s - n.
Proof. unfold len. rewrite skipn_length. lia. Qed.
Lemma llen_0 (s : bytes) : len s = 0 -> s = [].
Proof. destruct s; [reflexivity|]. rewrite llen_cons. lia. Qed.

#[export] Hint Rewrite llen_nil llen_cons llen_app llen_firstn llen_skipn : llen.
Ltac lens := autorewrite with llen in *.

Lemma firstn_llen_app (a b : bytes) : firstn (N.to_nat (len a)) (a ++ b) = a.
Proof.
  rewrite llen_length. rewrite firstn_app, Nat.sub_diag, firstn_all. cbn [firstn]. apply app_nil_r.
Qed.
Lemma skipn_llen_app (a b : bytes) : skipn (N.to_nat (len a)) (a ++ b) = b.
Proof.
  rewrite llen_length. rewrite skipn_app, Nat.sub_diag, skipn_all. reflexivity.
Qed.
Lemma firstn_app_le n (a b : bytes) : (n <= length a)%nat -> firstn n (a ++ b) = firstn n a.
Proof.
  intros H. rewrite firstn_app. replace (n - length a)%nat with 0%nat by lia.
  cbn [firstn]. apply app_nil_r.
Qed.
Lemma skipn_app_le n (a b : bytes) : (n <= length a)%nat -> skipn n (a ++ b) = skipn n a ++ b.
Proof.
  intros H. rewrite skipn_app. replace (n - length a)%nat with 0%nat by lia. reflexivity.
Qed.

(* ------------------------------------------------------------------ res: non-panic predicate *)
Definition nopanic {A} (r : res A) : Prop := match r with Panic _ => False | _ => True end.

Lemma nopanic_bind {A B} (r : res A) (f : A -> res B) :
  nopanic r -> (forall a, r = Ok a -> nopanic (f a)) -> nopanic (bind r f).
Proof. destruct r; cbn; auto. Qed.
Lemma nopanic_ensure c e : nopanic (ensure c e).
Proof. destruct c; exact I. Qed.
Lemma nopanic_ensure_bind {B} c e (k : unit -> res B) :
  (c = true -> nopanic (k tt)) -> nopanic (bind (ensure c e) k).
Proof. destruct c; cbn; auto. Qed.
Lemma nopanic_map {A B} (r : res A) (g : A -> B) : nopanic r -> nopanic (bind r (fun a => Ok (g a))).
Proof. destruct r; cbn; auto. Qed.

Lemma bind_ok_inv {A B} (r : res A) (f : A -> res B) b :
  bind r f = Ok b -> exists a, r = Ok a /\ f a = Ok b.
Proof. destruct r; cbn; intros H; try discriminate. eauto. Qed.
Lemma ensure_ok_inv c e u : ensure c e = Ok u -> c = true.
Proof. destruct c; [reflexivity|discriminate]. Qed.

(* ------------------------------------------------------------------ good decoders:
   no panic, and an Ok answer hands back a rest that is at least n bytes shorter than the input *)
Definition gd {A} (n : nat) (s : bytes) (r : res (A * bytes)) : Prop :=
  match r with
  | Panic _ => False
  | Err _ => True
  | Ok (_, r') => (length r' + n <= length s)%nat
  end.

Lemma gd_np {A} n s (r : res (A * bytes)) : gd n s r -> nopanic r.
Proof. destruct r as [[? ?]| |]; cbn; auto. Qed.
Lemma gd_ok {A} n s (r : res (A * bytes)) a r' : gd n s r -> r = Ok (a, r') -> (length r' + n <= length s)%nat.
Proof. intros H ->. exact H. Qed.
Lemma gd_weaken {A} n m s (r : res (A * bytes)) : (m <= n)%nat -> gd n s r -> gd m s r.
Proof. destruct r as [[? ?]| |]; cbn; auto. lia. Qed.
Lemma gd_bind {A B} n m s (r : res (A * bytes)) (f : A * bytes -> res (B * bytes)) :
  gd n s r -> (forall a r', r = Ok (a, r') -> gd m r' (f (a, r'))) -> gd (n + m) s (bind r f).
Proof.
  destruct r as [[a r']| |]; cbn [bind gd]; auto.
  intros H1 H2. specialize (H2 a r' eq_refl). destruct (f (a, r')) as [[b r'']| |]; cbn [gd] in *; auto. lia.
Qed.
Lemma gd_ensure_bind {B} n s c e (k : unit -> res (B * bytes)) :
  (c = true -> gd n s (k tt)) -> gd n s (bind (ensure c e) k).
Proof. destruct c; cbn; auto. Qed.

(* ------------------------------------------------------------------ field decoders *)
Lemma dec_bool_gd s : gd 1 s (dec_bool s).
Proof.
  destruct s as [|v r]; [exact I|]. unfold dec_bool. destruct (v <=? 1); cbn [gd length]; [lia|exact I].
Qed.
Lemma dec_u16_gd s : gd 2 s (dec_u16 s).
Proof. destruct s as [|a [|b r]]; try exact I. cbn [dec_u16 gd length]. lia. Qed.
Lemma dec_u32_gd s : gd 4 s (dec_u32 s).
Proof. destruct s as [|a [|b [|c [|d r]]]]; try exact I. cbn [dec_u32 gd length]. lia. Qed.
Lemma dec_nz16_gd s : gd 2 s (dec_nz16 s).
Proof.
  unfold dec_nz16. pose proof (dec_u16_gd s) as H. destruct (dec_u16 s) as [[v r]| |]; cbn [bind gd] in *; auto.
  destruct (v =? 0); cbn [gd]; auto.
Qed.
Lemma dec_nz32_gd s : gd 4 s (dec_nz32 s).
Proof.
  unfold dec_nz32. pose proof (dec_u32_gd s) as H. destruct (dec_u32 s) as [[v r]| |]; cbn [bind gd] in *; auto.
  destruct (v =? 0); cbn [gd]; auto.
Qed.
Lemma split_to_gd {A} n (r : bytes) (g : bytes -> A) :
  gd 0 r (Ok (g (fst (split_to n r)), snd (split_to n r))).
Proof. unfold split_to. cbn [fst snd gd]. rewrite skipn_length. lia. Qed.
Lemma dec_bytes_gd s : gd 2 s (dec_bytes s).
Proof.
  unfold dec_bytes. pose proof (dec_u16_gd s) as H. destruct (dec_u16 s) as [[v r]| |]; cbn [bind gd] in *; auto.
  destruct (len r <? v); cbn [gd]; auto. unfold split_to. rewrite skipn_length. lia.
Qed.
Lemma dec_string_gd s : gd 2 s (dec_string s).
Proof.
  unfold dec_string. pose proof (dec_bytes_gd s) as H.
  destruct (dec_bytes s) as [[v r]| |]; cbn [bind gd] in *; auto.
  destruct (utf8_valid v); cbn [gd]; auto.
Qed.
Lemma dec_uprop_gd s : gd 4 s (dec_uprop s).
Proof.
  unfold dec_uprop. change 4%nat with (2 + 2)%nat. apply gd_bind; [apply dec_string_gd|].
  intros k r _. change 2%nat with (2 + 0)%nat at 1. apply gd_bind; [apply dec_string_gd|].
  intros v r' _. cbn [gd]. lia.
Qed.
Lemma dec_vi_gd s : gd 1 s (dec_vi s).
Proof.
  pose proof (dec_vi_total s) as T. destruct (dec_vi s) as [[v r]| |] eqn:E; cbn [gd]; auto.
  apply dec_vi_consumes in E as (p & -> & Hp). rewrite app_length. lia.
Qed.
Lemma take_properties_gd s : gd 1 s (take_properties s).
Proof.
  unfold take_properties. pose proof (dec_vi_gd s) as H.
  destruct (dec_vi s) as [[v r]| |]; cbn [bind gd] in *; auto.
  destruct (len r <? v); cbn [gd]; auto. unfold split_to. rewrite skipn_length. lia.
Qed.
Lemma take_properties_np s : nopanic (take_properties s).
Proof. eapply gd_np, take_properties_gd. Qed.

Lemma gd_map {A B} n s (r : res (A * bytes)) (g : A -> B) :
  gd n s r -> gd n s (bind r (fun '(v, r') => Ok (g v, r'))).
Proof. destruct r as [[? ?]| |]; cbn; auto. Qed.

Lemma dec_pval_gd k s : gd 1 s (dec_pval k s).
Proof.
  destruct k; cbn [dec_pval].
  - apply (gd_map 1 s _ (fun v => VN (b2n v))), dec_bool_gd.
  - eapply gd_weaken; [|apply (gd_map 2 s _ VN), dec_u16_gd]. lia.
  - eapply gd_weaken; [|apply (gd_map 4 s _ VN), dec_u32_gd]. lia.
  - eapply gd_weaken; [|apply (gd_map 2 s _ VN), dec_nz16_gd]. lia.
  - eapply gd_weaken; [|apply (gd_map 4 s _ VN), dec_nz32_gd]. lia.
  - eapply gd_weaken; [|apply (gd_map 2 s _ VB), dec_bytes_gd]. lia.
  - eapply gd_weaken; [|apply (gd_map 2 s _ VB), dec_string_gd]. lia.
  - destruct s as [|v r]; [exact I|]. destruct (qos_ok v); cbn [gd length]; [lia|exact I].
  - pose proof (dec_vi_gd s) as H. destruct (dec_vi s) as [[v r]| |]; cbn [bind gd] in *; auto.
    destruct (v =? 0); cbn [gd]; auto.
  - eapply gd_weaken; [|apply (gd_map 4 s _ (fun p => VP (fst p) (snd p))), dec_uprop_gd]. lia.
Qed.
Lemma dec_pval_np k s : nopanic (dec_pval k s).
Proof. eapply gd_np, dec_pval_gd. Qed.

(* ------------------------------------------------------------------ the property loop *)
Lemma parse_props_np fuel tbl : forall acc s, (length s <= fuel)%nat -> nopanic (parse_props fuel tbl acc s).
Proof.
  induction fuel as [|f IH]; intros acc s Hl.
  - destruct s; [exact I|cbn [length] in Hl; lia].
  - destruct s as [|id r]; [exact I|]. cbn [parse_props length] in *.
    destruct (tbl id) as [[k once]|]; [|exact I].
    apply nopanic_ensure_bind. intros _.
    pose proof (dec_pval_gd k r) as G.
    destruct (dec_pval k r) as [[v r']| |]; cbn [bind gd] in *; auto.
    apply IH. lia.
Qed.
Lemma props_of_np tbl s : nopanic (props_of tbl s).
Proof. apply parse_props_np. lia. Qed.

Lemma ack_props_decode_gd s : gd 1 s (ack_props_decode s).
Proof.
  unfold ack_props_decode. pose proof (take_properties_gd s) as H.
  destruct (take_properties s) as [[ps r]| |]; cbn [bind gd] in *; auto.
  pose proof (props_of_np tbl_ack ps) as P. destruct (props_of tbl_ack ps); cbn [bind gd nopanic] in *; auto.
Qed.
Lemma ack_props_decode_np s : nopanic (ack_props_decode s).
Proof. eapply gd_np, ack_props_decode_gd. Qed.

(* ------------------------------------------------------------------ per-packet decoders *)
Ltac np_go :=
  repeat match goal with
  | |- nopanic (Ok _) => exact I
  | |- nopanic (Err _) => exact I
  | |- nopanic (bind (ensure _ _) _) => apply nopanic_ensure_bind; intros _
  | |- nopanic (bind _ _) =>
    apply nopanic_bind;
    [ first [ eapply gd_np, dec_nz16_gd | eapply gd_np, dec_string_gd | eapply gd_np, dec_bytes_gd
            | apply take_properties_np | apply props_of_np | apply ack_props_decode_np
            | eapply gd_np, dec_u16_gd | eapply gd_np, dec_vi_gd ]
    | let a := fresh "a" in let H := fresh "HOk" in intros a H; try (destruct a as [? ?]) ]
  | |- nopanic (match ?x with [] => _ | _ :: _ => _ end) => destruct x
  | |- nopanic (if ?c then _ else _) => destruct c
  end.

Lemma publish_ack_decode_np s : nopanic (publish_ack_decode s).
Proof. unfold publish_ack_decode. np_go. Qed.
Lemma publish_ack2_decode_np s : nopanic (publish_ack2_decode s).
Proof. unfold publish_ack2_decode. np_go. Qed.

Lemma parse_publish_properties_np s : nopanic (parse_publish_properties s).
Proof. unfold parse_publish_properties. np_go. Qed.

Lemma publish_decode_np s fl ps : nopanic (publish_decode s fl ps).
Proof.
  unfold publish_decode. np_go.
  apply nopanic_bind.
  - destruct (flags_qos fl =? 0); [exact I|]. np_go.
  - intros [pid r1] _. apply nopanic_bind; [apply parse_publish_properties_np|]. intros [pp ?] _. exact I.
Qed.

Lemma dec_vi_opt_np s : nopanic (dec_vi_opt s).
Proof.
  unfold dec_vi_opt. pose proof (dec_vi_total s) as T. destruct (dec_vi s) as [[v r]|e|].
  - exact I.
  - destruct (e =? DE_MalformedPacket); exact I.
  - exact T.
Qed.

(* the slice taken by packet_header_size is always in range *)
Lemma packet_header_size_np src fl rl : nopanic (packet_header_size src fl rl).
Proof.
  unfold packet_header_size. apply nopanic_ensure_bind. intros _.
  destruct src as [|b0 [|b1 s]]; try exact I.
  remember (b0 :: b1 :: s) as src eqn:Es.
  apply nopanic_ensure_bind. intros _.
  remember (if flags_qos fl =? 0 then b0 * 256 + b1 + 2 else b0 * 256 + b1 + 2 + 2) as len1 eqn:El.
  apply nopanic_ensure_bind. intros H1.
  destruct (len src <? len1) eqn:H2; [exact I|].
  unfold slice. replace ((len1 <=? N.min (len src) rl) && (N.min (len src) rl <=? len src)) with true by lia.
  cbn [bind]. apply nopanic_bind; [apply dec_vi_opt_np|].
  intros [[pl pos]|] _; apply nopanic_ensure_bind; intros _; exact I.
Qed.

Lemma packet_header_size_le src fl rl l : packet_header_size src fl rl = Ok (Some l) -> l <= rl.
Proof.
  unfold packet_header_size. intros H.
  apply bind_ok_inv in H as (u & _ & H).
  destruct src as [|b0 [|b1 s]]; try discriminate.
  apply bind_ok_inv in H as (u1 & _ & H).
  apply bind_ok_inv in H as (u2 & _ & H).
  match type of H with (if ?c then _ else _) = _ => destruct c; [discriminate|] end.
  apply bind_ok_inv in H as (sl & _ & H).
  apply bind_ok_inv in H as ([[pl pos]|] & _ & H).
  - apply bind_ok_inv in H as (u3 & E & H). apply ensure_ok_inv in E. injection H as <-. lia.
  - apply bind_ok_inv in H as (u3 & E & H). discriminate.
Qed.

Lemma decode_last_will_np s fl : nopanic (decode_last_will s fl).
Proof. unfold decode_last_will. np_go. Qed.

Lemma connect_decode_np s : nopanic (connect_decode s).
Proof.
  unfold connect_decode. apply nopanic_ensure_bind. intros E.
  destruct s as [|l0 [|l1 [|m0 [|m1 [|m2 [|m3 [|lv [|fl [|k0 [|k1 r]]]]]]]]]];
    try (exfalso; cbv in E; discriminate).
  np_go.
  apply nopanic_bind.
  { destruct (bit fl 4); [|exact I]. apply nopanic_bind; [apply decode_last_will_np|]. intros [? ?] _. exact I. }
  intros [lw r3] _. apply nopanic_bind.
  { destruct (bit fl 128); [|exact I]. np_go. }
  intros [un r4] _. apply nopanic_bind.
  { destruct (bit fl 64); [|exact I]. np_go. }
  intros [pw ?] _. exact I.
Qed.

Lemma connect_ack_decode_np s : nopanic (connect_ack_decode s).
Proof. unfold connect_ack_decode. destruct s as [|fl [|rc r]]; try exact I. np_go. Qed.

Lemma subscription_options_decode_gd s : gd 1 s (subscription_options_decode s).
Proof.
  destruct s as [|v r]; [exact I|]. unfold subscription_options_decode.
  apply gd_ensure_bind. intros _. apply gd_ensure_bind. intros _. cbn [gd length]. lia.
Qed.

Lemma subscribe_filters_np fuel : forall s, (length s <= fuel)%nat -> nopanic (subscribe_filters fuel s).
Proof.
  induction fuel as [|f IH]; intros s Hl.
  - destruct s; [exact I|cbn [length] in Hl; lia].
  - destruct s as [|x s0]; [exact I|]. cbn [subscribe_filters]. remember (x :: s0) as s eqn:Es.
    pose proof (dec_string_gd s) as G1.
    destruct (dec_string s) as [[t r]| |]; cbn [bind gd] in *; auto.
    pose proof (subscription_options_decode_gd r) as G2.
    destruct (subscription_options_decode r) as [[o r']| |]; cbn [bind gd] in *; auto.
    apply nopanic_map. apply IH. lia.
Qed.

Lemma unsubscribe_filters_np fuel : forall s, (length s <= fuel)%nat -> nopanic (unsubscribe_filters fuel s).
Proof.
  induction fuel as [|f IH]; intros s Hl.
  - destruct s; [exact I|cbn [length] in Hl; lia].
  - destruct s as [|x s0]; [exact I|]. cbn [unsubscribe_filters]. remember (x :: s0) as s eqn:Es.
    pose proof (dec_string_gd s) as G1.
    destruct (dec_string s) as [[t r]| |]; cbn [bind gd] in *; auto.
    apply nopanic_map. apply IH. lia.
Qed.

Lemma status_decode_np ok s : nopanic (status_decode ok s).
Proof.
  induction s as [|c r IH]; [exact I|]. cbn [status_decode].
  apply nopanic_ensure_bind. intros _. apply nopanic_map. exact IH.
Qed.

Lemma subscribe_decode_np s : nopanic (subscribe_decode s).
Proof.
  unfold subscribe_decode. np_go. apply nopanic_map. apply subscribe_filters_np. lia.
Qed.
Lemma unsubscribe_decode_np s : nopanic (unsubscribe_decode s).
Proof.
  unfold unsubscribe_decode. np_go. apply nopanic_map. apply unsubscribe_filters_np. lia.
Qed.
Lemma subscribe_ack_decode_np s : nopanic (subscribe_ack_decode s).
Proof. unfold subscribe_ack_decode. np_go. apply nopanic_map. apply status_decode_np. Qed.
Lemma unsubscribe_ack_decode_np s : nopanic (unsubscribe_ack_decode s).
Proof. unfold unsubscribe_ack_decode. np_go. apply nopanic_map. apply status_decode_np. Qed.
Lemma disconnect_decode_np s : nopanic (disconnect_decode s).
Proof. unfold disconnect_decode. np_go. Qed.
Lemma auth_decode_np s : nopanic (auth_decode s).
Proof. unfold auth_decode. np_go. Qed.

Lemma decode_packet_np fb s : nopanic (decode_packet fb s).
Proof.
  unfold decode_packet.
  repeat match goal with |- nopanic (if ?c then _ else _) => destruct c end;
    try exact I; apply nopanic_map;
    auto using publish_ack_decode_np, publish_ack2_decode_np, subscribe_decode_np, subscribe_ack_decode_np,
      unsubscribe_decode_np, unsubscribe_ack_decode_np, connect_decode_np, connect_ack_decode_np,
      disconnect_decode_np, auth_decode_np.
Qed.

(* ------------------------------------------------------------------ prefix stability:
   a decoder that succeeded on s gives the same value on s ++ x and hands back rest ++ x *)
Lemma dec_bool_app s x v r : dec_bool s = Ok (v, r) -> dec_bool (s ++ x) = Ok (v, r ++ x).
Proof.
  destruct s as [|a s]; cbn [dec_bool app]; [discriminate|]. destruct (a <=? 1); [|discriminate].
  intros [= <- <-]. reflexivity.
Qed.
Lemma dec_u16_app s x v r : dec_u16 s = Ok (v, r) -> dec_u16 (s ++ x) = Ok (v, r ++ x).
Proof. destruct s as [|a [|b s]]; cbn [dec_u16 app]; try discriminate. intros [= <- <-]. reflexivity. Qed.
Lemma dec_u32_app s x v r : dec_u32 s = Ok (v, r) -> dec_u32 (s ++ x) = Ok (v, r ++ x).
Proof.
  destruct s as [|a [|b [|c [|d s]]]]; cbn [dec_u32 app]; try discriminate. intros [= <- <-]. reflexivity.
Qed.
Lemma dec_nz16_app s x v r : dec_nz16 s = Ok (v, r) -> dec_nz16 (s ++ x) = Ok (v, r ++ x).
Proof.
  unfold dec_nz16. intros H. apply bind_ok_inv in H as ([v' r'] & E & H).
  rewrite (dec_u16_app _ x _ _ E). cbn [bind]. destruct (v' =? 0); [discriminate|].
  injection H as <- <-. reflexivity.
Qed.
Lemma dec_nz32_app s x v r : dec_nz32 s = Ok (v, r) -> dec_nz32 (s ++ x) = Ok (v, r ++ x).
Proof.
  unfold dec_nz32. intros H. apply bind_ok_inv in H as ([v' r'] & E & H).
  rewrite (dec_u32_app _ x _ _ E). cbn [bind]. destruct (v' =? 0); [discriminate|].
  injection H as <- <-. reflexivity.
Qed.
Lemma split_to_app_le n (r x : bytes) : n <= len r -> split_to n (r ++ x) = (fst (split_to n r), snd (split_to n r) ++ x).
Proof.
  intros H. unfold split_to. cbn [fst snd].
  rewrite firstn_app_le, skipn_app_le by (unfold len in *; lia). reflexivity.
Qed.
Lemma dec_bytes_app s x v r : dec_bytes s = Ok (v, r) -> dec_bytes (s ++ x) = Ok (v, r ++ x).
Proof.
  unfold dec_bytes. intros H. apply bind_ok_inv in H as ([n r0] & E & H).
  rewrite (dec_u16_app _ x _ _ E). cbn [bind]. destruct (len r0 <? n) eqn:L; [discriminate|].
  replace (len (r0 ++ x) <? n) with false by (rewrite llen_app; lia).
  rewrite split_to_app_le by lia. destruct (split_to n r0) as [a b]. injection H as <- <-. reflexivity.
Qed.
Lemma dec_string_app s x v r : dec_string s = Ok (v, r) -> dec_string (s ++ x) = Ok (v, r ++ x).
Proof.
  unfold dec_string. intros H. apply bind_ok_inv in H as ([b r0] & E & H).
  rewrite (dec_bytes_app _ x _ _ E). cbn [bind]. destruct (utf8_valid b); [|discriminate].
  injection H as <- <-. reflexivity.
Qed.
Lemma dec_uprop_app s x v r : dec_uprop s = Ok (v, r) -> dec_uprop (s ++ x) = Ok (v, r ++ x).
Proof.
  unfold dec_uprop. intros H. apply bind_ok_inv in H as ([k r0] & E & H).
  apply bind_ok_inv in H as ([w r1] & E1 & H).
  rewrite (dec_string_app _ x _ _ E). cbn [bind]. rewrite (dec_string_app _ x _ _ E1). cbn [bind].
  injection H as <- <-. reflexivity.
Qed.
Lemma dec_vi_app s x v r : dec_vi s = Ok (v, r) -> dec_vi (s ++ x) = Ok (v, r ++ x).
Proof.
  unfold dec_vi. intros H.
  destruct s as [|a s]; cbn [dec_vi_go app] in *; [discriminate|].
  destruct (a <? 128). { injection H as <- <-. reflexivity. }
  destruct s as [|b s]; cbn [dec_vi_go app] in *; [discriminate|].
  destruct (b <? 128). { injection H as <- <-. reflexivity. }
  destruct s as [|c s]; cbn [dec_vi_go app] in *; [discriminate|].
  destruct (c <? 128). { injection H as <- <-. reflexivity. }
  destruct s as [|d s]; cbn [dec_vi_go app] in *; [discriminate|].
  destruct (d <? 128); [|discriminate]. injection H as <- <-. reflexivity.
Qed.
Lemma take_properties_app s x v r : take_properties s = Ok (v, r) -> take_properties (s ++ x) = Ok (v, r ++ x).
Proof.
  unfold take_properties. intros H. apply bind_ok_inv in H as ([n r0] & E & H).
  rewrite (dec_vi_app _ x _ _ E). cbn [bind]. destruct (len r0 <? n) eqn:L; [discriminate|].
  replace (len (r0 ++ x) <? n) with false by (rewrite llen_app; lia).
  rewrite split_to_app_le by lia. destruct (split_to n r0) as [a b]. injection H as <- <-. reflexivity.
Qed.

Lemma map_ok_inv {A B} (r : res (A * bytes)) (g : A -> B) w r' :
  bind r (fun '(v, r0) => Ok (g v, r0)) = Ok (w, r') -> exists v, r = Ok (v, r') /\ w = g v.
Proof. destruct r as [[v r0]| |]; cbn [bind]; try discriminate. intros [= <- <-]. eauto. Qed.

Lemma dec_pval_app k s x v r : dec_pval k s = Ok (v, r) -> dec_pval k (s ++ x) = Ok (v, r ++ x).
Proof.
  destruct k; cbn [dec_pval]; intros H.
  - apply map_ok_inv in H as (w & E & ->). now rewrite (dec_bool_app _ x _ _ E).
  - apply map_ok_inv in H as (w & E & ->). now rewrite (dec_u16_app _ x _ _ E).
  - apply map_ok_inv in H as (w & E & ->). now rewrite (dec_u32_app _ x _ _ E).
  - apply map_ok_inv in H as (w & E & ->). now rewrite (dec_nz16_app _ x _ _ E).
  - apply map_ok_inv in H as (w & E & ->). now rewrite (dec_nz32_app _ x _ _ E).
  - apply map_ok_inv in H as (w & E & ->). now rewrite (dec_bytes_app _ x _ _ E).
  - apply map_ok_inv in H as (w & E & ->). now rewrite (dec_string_app _ x _ _ E).
  - destruct s as [|b s]; [discriminate|]. cbn [app]. destruct (qos_ok b); [|discriminate].
    injection H as <- <-. reflexivity.
  - apply bind_ok_inv in H as ([w r0] & E & H). rewrite (dec_vi_app _ x _ _ E). cbn [bind].
    destruct (w =? 0); [discriminate|]. injection H as <- <-. reflexivity.
  - apply map_ok_inv in H as (w & E & ->). now rewrite (dec_uprop_app _ x _ _ E).
Qed.

(* ------------------------------------------------------------------ the property loop: fuel is irrelevant
   once it covers the input, and a block that parses can be extended *)
Lemma parse_props_fuel f1 : forall f2 tbl acc s, (length s <= f1)%nat -> (length s <= f2)%nat ->
  parse_props f1 tbl acc s = parse_props f2 tbl acc s.
Proof.
  induction f1 as [|f1 IH]; intros f2 tbl acc s H1 H2; destruct s as [|id r]; cbn [length] in *; try lia.
  - destruct f2; reflexivity.
  - destruct f2; reflexivity.
  - destruct f2 as [|f2]; [lia|]. cbn [parse_props]. destruct (tbl id) as [[k once]|]; [|reflexivity].
    destruct (negb (once && bag_has id acc)); cbn [ensure bind]; [|reflexivity].
    pose proof (dec_pval_gd k r) as G. destruct (dec_pval k r) as [[v r']| |]; cbn [bind gd] in *; try reflexivity.
    apply IH; lia.
Qed.

Lemma parse_props_app f tbl : forall acc pre bag rest, (length pre <= f)%nat ->
  parse_props f tbl acc pre = Ok bag ->
  parse_props (f + length rest) tbl acc (pre ++ rest) = parse_props (length rest) tbl (rev bag) rest.
Proof.
  induction f as [|f IH]; intros acc pre bag rest Hl H.
  - destruct pre; [|cbn [length] in Hl; lia]. cbn [parse_props] in H. injection H as <-.
    rewrite rev_involutive. reflexivity.
  - destruct pre as [|id r].
    + cbn [parse_props] in H. injection H as <-. rewrite rev_involutive. cbn [app].
      apply parse_props_fuel; lia.
    + cbn [parse_props app Nat.add length] in *. destruct (tbl id) as [[k once]|]; [|discriminate].
      destruct (negb (once && bag_has id acc)); cbn [ensure bind] in *; [|discriminate].
      pose proof (dec_pval_gd k r) as G.
      destruct (dec_pval k r) as [[v r']| |] eqn:E; cbn [bind gd] in *; try discriminate.
      rewrite (dec_pval_app _ _ rest _ _ E). cbn [bind]. apply IH; [lia|exact H].
Qed.

Lemma props_of_app tbl pre bag rest :
  props_of tbl pre = Ok bag -> props_of tbl (pre ++ rest) = parse_props (length rest) tbl (rev bag) rest.
Proof.
  unfold props_of. intros H. rewrite app_length. apply parse_props_app; [lia|exact H].
Qed.

Lemma bag_has_rev id b : bag_has id (rev b) = bag_has id b.
Proof.
  unfold bag_has. induction b as [|e b IH]; [reflexivity|].
  cbn [rev existsb]. rewrite existsb_app, IH. cbn [existsb]. rewrite orb_false_r. apply orb_comm.
Qed.
