(* Proofs/SinkProofs.v -- properties C05, C06, C13, C14 of the outbound bookkeeping model, read off single steps
   under the invariant of Proofs/SinkInv.v *)
From Coq Require Import Lia List NArith Bool Arith.
From MV Require Import Base.Prelude Model.Sink Proofs.SinkInv.
Import ListNotations.
Open Scope N_scope.

(* ================================================================ C05: the send window *)
Inductive evenl : list N -> Prop :=
| ev_nil : evenl []
| ev_cons a b l : evenl l -> evenl (a :: b :: l).

(* number of PUBLISH(QoS1/2) / SUBSCRIBE / UNSUBSCRIBE packets in a wire log (a list of tag, id pairs) *)
Fixpoint count_pub (w : list N) : N :=
  match w with
  | tag :: _ :: r => (if is_pub tag then 1 else 0) + count_pub r
  | _ => 0
  end.

Lemma count_pub_snoc w a b : evenl w ->
  evenl (w ++ [a; b]) /\ count_pub (w ++ [a; b]) = count_pub w + (if is_pub a then 1 else 0).
Proof.
  induction 1 as [|x y l H [IH1 IH2]]; cbn [app count_pub].
  - split; [repeat constructor|lia].
  - split; [now constructor|]. rewrite IH2. lia.
Qed.

(* the wire log grows by at most one packet that is not counted *)
Definition wire_ext (s s' : sink) : Prop :=
  wire s' = wire s \/ exists tag v, is_pub tag = false /\ wire s' = wire s ++ [tag; v].

Lemma wire_ext_refl s : wire_ext s s. Proof. now left. Qed.
Lemma wire_ext_eq s s' : wire s' = wire s -> wire_ext s s'. Proof. now left. Qed.
Lemma wire_ext_count s s' : wire_ext s s' -> evenl (wire s) -> evenl (wire s') /\ count_pub (wire s') = count_pub (wire s).
Proof.
  intros [->|(tag & v & P & ->)] E; auto. destruct (count_pub_snoc (wire s) tag v E) as [A B]. rewrite P in B. split; auto. lia.
Qed.

Definition c05_eff (s s' : sink) : Prop :=
  cap s' = cap s /\ wrb s' = wrb s /\
  ((inflight s' = inflight s /\ io s' = io s /\ wire_ext s s') \/
   (inflight s' = [] /\ io s' <> 0 /\ wire_ext s s') \/
   (exists e tag id, inflight s' = inflight s ++ [e] /\ lenN (inflight s) < cap s /\ wrb s = false /\
                     io s' = io s /\ io s <> 2 /\ is_pub tag = true /\
                     wire s' = if io s =? 0 then wire s ++ [tag; id] else wire s)).

Lemma eff_same s s' : cap s' = cap s -> wrb s' = wrb s -> inflight s' = inflight s -> io s' = io s -> wire_ext s s' -> c05_eff s s'.
Proof. intros. unfold c05_eff. auto 10. Qed.

Lemma send_res_eff s x s1 st : send_res s x s1 st -> c05_eff s s1.
Proof.
  intros R. destruct R as [s1 e N | s1 Hio CW P | s1 id Hio L W P].
  - destruct N as (N1&N2&N3&N4&N5&N6&N7&N8&N9&N10&N11&N12&N13&N14&N15&N16). apply eff_same; auto. now left.
  - unfold parked in P. subst. apply eff_same; auto. now left.
  - destruct P as (P1&P2&P3&P4&P5&P6&P7&P8&P9&P10&P11&P12&(tag & T1 & T2)&P14). split; auto. split; auto.
    right. right. exists (id, Some (length (chans s)), exp_kind x), tag, id. auto 10.
Qed.

Lemma eff_tasks s s1 l : c05_eff s s1 -> c05_eff s (set_tasks s1 l).
Proof. exact (fun H => H). Qed.

Lemma start_eff s t k idq size : c05_eff s (start_task s t k idq size).
Proof.
  destruct (find_task t (tasks s)) eqn:F; [unfold start_task; rewrite F; apply eff_same; try reflexivity; try (apply wire_ext_eq; reflexivity)|].
  destruct (start_task_spec s t k idq size F) as [ | s1 e K P | e K | s1 K Hio CW P | s0 x s1 st K E0 EX R].
  - apply eff_same; try reflexivity; try (apply wire_ext_eq; reflexivity).
  - apply eff_tasks. destruct P as (P1&P2&P3&P4&P5&P6&P7&P8&P9&P10&P11&P12&P13&P14). apply eff_same; auto.
    destruct P14 as [E|E]; [left; exact E|right; exists W_PUB0, 0; auto].
  - apply eff_same; try reflexivity; try (apply wire_ext_eq; reflexivity).
  - apply eff_tasks. unfold parked in P. subst. apply eff_same; try reflexivity; try (apply wire_ext_eq; reflexivity).
  - apply eff_tasks. apply send_res_eff in R. subst s0. destruct (k =? 7); exact R.
Qed.

Lemma create_eff s t k idq size : c05_eff s (create_task s t k idq size).
Proof.
  destruct (find_task t (tasks s)) eqn:F; [unfold create_task; rewrite F; apply eff_same; try reflexivity; try (apply wire_ext_eq; reflexivity)|].
  destruct (create_task_spec s t k idq size F) as [ | K | e K | s1 K Hio CW P | K | s0 x s1 st K E0 EX R].
  - apply eff_same; try reflexivity; try (apply wire_ext_eq; reflexivity).
  - apply start_eff.
  - apply eff_same; try reflexivity; try (apply wire_ext_eq; reflexivity).
  - apply eff_tasks. unfold parked in P. subst. apply eff_same; try reflexivity; try (apply wire_ext_eq; reflexivity).
  - apply eff_same; try reflexivity; try (apply wire_ext_eq; reflexivity).
  - apply eff_tasks. apply send_res_eff in R. subst s0. destruct (k =? 7); exact R.
Qed.

Lemma poll_eff s t : c05_eff s (poll_task s t).
Proof.
  destruct (find_task t (tasks s)) as [x|] eqn:F; [|unfold poll_task; rewrite F; apply eff_same; try reflexivity; try (apply wire_ext_eq; reflexivity)].
  destruct (poll_task_spec s t x F) as (s1 & st & R & ->). apply eff_tasks.
  destruct R; try (apply eff_same; try reflexivity; try (apply wire_ext_eq; reflexivity); fail); try (eapply send_res_eff; eauto; fail);
    eapply send_res_eff; eapply SE_fail with (e := 0); eauto.
Qed.

Ltac same := apply eff_same; try reflexivity; try (apply wire_ext_eq; reflexivity).

Lemma drop_eff s t : c05_eff s (drop_task s t).
Proof.
  unfold drop_task. destruct (find_task t (tasks s)) as [x|]; [|same].
  destruct (tst x); try (apply eff_same; try reflexivity; try (apply wire_ext_eq; reflexivity); fail).
  cbv zeta. apply eff_tasks. pose proof (drop_sig_nc (drop_rx s c) x) as []. apply eff_same; auto. now left.
Qed.

Lemma enc_packet_eff s tag id s2 ok : enc_packet s tag id = (s2, ok) -> is_pub tag = false ->
  cap s2 = cap s /\ wrb s2 = wrb s /\ wire_ext s s2.
Proof.
  unfold enc_packet, add_wire. intros E P. destruct (io s =? 0); [destruct (negb _)|]; injection E as <- <-; sk;
    repeat split; try apply wire_ext_refl. right. exists tag, id. auto.
Qed.

Lemma release_eff s t : c05_eff s (release_task s t).
Proof.
  unfold release_task. destruct (find_task t (tasks s)) as [x|]; [|same].
  destruct (tst x); try (apply eff_same; try reflexivity; try (apply wire_ext_eq; reflexivity); fail).
  unfold release_publish. destruct (rxm_find _ _) as [c|]; [|apply eff_same; try reflexivity; apply wire_ext_eq; reflexivity].
  destruct (enc_packet _ _ _) as [s2 ok] eqn:E. destruct (enc_packet_core _ _ _ _ _ E) as (E1&_&_&_&_&E6&_).
  destruct (enc_packet_eff _ _ _ _ _ E eq_refl) as (C & W & X).
  destruct ok; [destruct (poll s2 c)|]; apply eff_tasks; apply eff_same; auto.
Qed.

Lemma drop_receipt_eff s t : c05_eff s (drop_receipt s t).
Proof.
  unfold drop_receipt. destruct (find_task t (tasks s)) as [x|]; [|same].
  destruct (tst x); try (apply eff_same; try reflexivity; try (apply wire_ext_eq; reflexivity); fail).
  unfold release_publish. destruct (rxm_find _ _) as [c|]; [|apply eff_same; try reflexivity; apply wire_ext_eq; reflexivity].
  destruct (enc_packet _ _ _) as [s2 ok] eqn:E. destruct (enc_packet_core _ _ _ _ _ E) as (E1&_&_&_&_&E6&_).
  destruct (enc_packet_eff _ _ _ _ _ E eq_refl) as (C & W & X).
  apply eff_tasks. apply eff_same; auto.
Qed.

Lemma close_eff s : c05_eff s (do_close s).
Proof.
  destruct (do_close_spec s) as (s2 & -> & C). pose proof (closing_io _ _ C) as Hio.
  destruct C as (C1&C2&C3&C4&C5&C6&C7&C8&C9&C10&C11&C12&C13&C14&C15).
  rewrite clear_queues_eq. split; [exact C3|]. split; [exact C8|]. right. left. sk. repeat split; auto.
  destruct C15 as [E|E]; [now left|right]. exists W_DISCONNECT, 0. auto.
Qed.

Lemma force_close_eff s : c05_eff s (do_force_close s).
Proof.
  unfold do_force_close, io_terminate. rewrite clear_queues_eq. split; [reflexivity|]. split; [reflexivity|].
  right. left. sk. repeat split; try discriminate. now left.
Qed.

Lemma epp_eff s n : c05_eff s (fst (fst (encode_publish_payload s n))).
Proof.
  unfold encode_publish_payload. destruct (srem s =? 0); [same|].
  destruct (srem s <? n); [apply force_close_eff|].
  unfold enc_chunk, add_wire. destruct (io s =? 0).
  - destruct (crem s =? 0); [same|].
    destruct (crem s <? n); [same|].
    destruct (n =? 0); apply eff_same; try reflexivity; [now left|right]. exists W_CHUNK, n. auto.
  - apply eff_same; try reflexivity. now left.
Qed.

Lemma chunk_payload_eff s sm srx n : c05_eff s (fst (chunk_payload s sm srx n)).
Proof.
  unfold chunk_payload. pose proof (epp_eff s n) as E. destruct (encode_publish_payload s n) as [[s1 st] more]. exact E.
Qed.

Lemma chunk_inprocess_eff s sm srx inp n : c05_eff s (fst (chunk_inprocess s sm srx inp n)).
Proof.
  unfold chunk_inprocess. destruct inp; [|same].
  destruct (is_closed s); [same|].
  destruct (wrb s) eqn:W; [|apply chunk_payload_eff]. unfold new_chan. sk. cbn [fst]. rewrite drop_tx_opt_eq.
  apply eff_same; try reflexivity. now left.
Qed.

Lemma chunk_signal_eff s sm n : c05_eff s (fst (chunk_signal s sm n)).
Proof. unfold chunk_signal. destruct (poll _ _); [same|apply chunk_inprocess_eff|same]. Qed.

Lemma chunk_eff s t n : c05_eff s (chunk_task s t n).
Proof.
  unfold chunk_task. destruct (find_task t (tasks s)) as [x|]; [|same].
  destruct (tstream x) as [sm|]; [|same].
  destruct (negb _); [same|].
  assert (G : forall r : sink * stream, c05_eff s (fst r) -> c05_eff s (let '(s1, sm1) := r in set_tasks s1 (put_task t (with_stream x sm1) (tasks s1)))).
  { intros [s1 sm1] H. exact H. }
  apply G. destruct (pend sm) as [|m|c m].
  - destruct (s_rx sm); [apply chunk_signal_eff|apply chunk_inprocess_eff].
  - apply chunk_signal_eff.
  - destruct (poll s c); [same|apply chunk_payload_eff|same].
Qed.

Lemma drop_pending_eff s sm : c05_eff s (fst (drop_pending s sm)).
Proof. unfold drop_pending. destruct (pend sm); apply eff_same; try reflexivity; now left. Qed.

Lemma drop_chunk_eff s t : c05_eff s (drop_chunk s t).
Proof.
  unfold drop_chunk. destruct (find_task t (tasks s)) as [x|]; [|same].
  destruct (tstream x) as [sm|]; [|same].
  destruct (negb _); [same|].
  pose proof (drop_pending_eff s sm) as E.
  destruct (pend sm); [same| |]; destruct (drop_pending s sm); exact E.
Qed.

Lemma drop_pending_same s sm : let s1 := fst (drop_pending s sm) in
  cap s1 = cap s /\ wrb s1 = wrb s /\ inflight s1 = inflight s /\ io s1 = io s /\ wire s1 = wire s /\ srem s1 = srem s.
Proof. unfold drop_pending. destruct (pend sm); cbn [fst]; repeat split. Qed.

Lemma eff_ext a a' b : c05_eff a b -> cap a' = cap a -> wrb a' = wrb a -> inflight a' = inflight a -> io a' = io a ->
  wire a' = wire a -> c05_eff a' b.
Proof. unfold c05_eff, wire_ext. intros H -> -> -> -> ->. exact H. Qed.

Lemma drop_stream_eff s t : c05_eff s (drop_stream s t).
Proof.
  unfold drop_stream. destruct (find_task t (tasks s)) as [x|]; [|same].
  destruct (tstream x) as [sm|]; [|same].
  destruct (negb _); [same|].
  pose proof (drop_pending_same s sm) as E. destruct (drop_pending s sm) as [s1 sm1]. cbn [fst] in E.
  destruct E as (E1 & E2 & E3 & E4 & E5 & E6).
  set (s2 := if s_rx sm1 then drop_rx s1 (sg sm1) else s1).
  assert (F : cap s = cap s2 /\ wrb s = wrb s2 /\ inflight s = inflight s2 /\ io s = io s2 /\ wire s = wire s2).
  { unfold s2. destruct (s_rx sm1); sk; auto. }
  destruct F as (F1 & F2 & F3 & F4 & F5).
  destruct (_ && _); apply eff_tasks.
  - apply eff_ext with s2; auto. apply force_close_eff.
  - apply eff_same; auto. now left.
Qed.

(* acknowledgements *)
Definition is_final (s : sink) (k id : N) : bool :=
  (io s =? 0) && negb ((k =? 0) || (5 <? k)) && negb (id =? 0) &&
  negb (((k =? 4) || (k =? 5)) && negb (client s)) && negb (k =? 2) &&
  match inflight s with (i, _, tp) :: _ => (i =? id) && (k =? tp) | [] => false end.

Fixpoint ack_finals (s : sink) (l : list (N * N)) : N :=
  match l with
  | [] => 0
  | (k, id) :: r => (if is_final s k id then 1 else 0) + ack_finals (ack_one s k id) r
  end.

Definition cpub0 (s s' : sink) : Prop :=
  evenl (wire s) -> evenl (wire s') /\ count_pub (wire s') = count_pub (wire s).

Lemma cpub0_refl s : cpub0 s s. Proof. intros H. auto. Qed.
Lemma cpub0_trans a b c : cpub0 a b -> cpub0 b c -> cpub0 a c.
Proof. unfold cpub0. intros H1 H2 E. destruct (H1 E) as [A B]. destruct (H2 A) as [C D]. split; auto. congruence. Qed.

Lemma close_facts s : cap (do_close s) = cap s /\ wrb (do_close s) = wrb s /\ wire_ext s (do_close s) /\
  inflight (do_close s) = [] /\ io (do_close s) <> 0.
Proof.
  destruct (close_eff s) as (A & B & [(C1 & C2 & C3)|[(C1 & C2 & C3)|(e & tag & id & C1 & _)]]).
  - destruct (do_close_spec s) as (s2 & E & C). pose proof (closing_io _ _ C) as Hio. rewrite E in *.
    rewrite clear_queues_eq in *. sk. sk in C2. repeat split; auto.
  - auto.
  - destruct (do_close_spec s) as (s2 & E & C). rewrite E, clear_queues_eq in C1. sk in C1. destruct (inflight s); discriminate.
Qed.

Definition ack_sum (s s' : sink) (fin : bool) : Prop :=
  cap s' = cap s /\ wrb s' = wrb s /\ wire_ext s s' /\ (io s' = 0 -> io s = 0) /\
  (if fin then io s' = 0 /\ lenN (inflight s) = lenN (inflight s') + 1
   else (lenN (inflight s') = lenN (inflight s) /\ io s' = io s) \/ (inflight s' = [] /\ io s' <> 0)) /\
  (forall e, In e (inflight s') -> In e (inflight s) \/ snd e = 3).

Lemma ack_sum_noop s : ack_sum s s false.
Proof. unfold ack_sum. repeat split; auto using wire_ext_refl. Qed.

Lemma ack_sum_close s s1 : cap s1 = cap s -> wrb s1 = wrb s -> wire s1 = wire s -> ack_sum s (do_close s1) false.
Proof.
  intros A B C. destruct (close_facts s1) as (F1 & F2 & F3 & F4 & F5). unfold ack_sum.
  split; [congruence|]. split; [congruence|]. split; [unfold wire_ext in *; now rewrite <- C|].
  split; [intros Z; contradiction|]. split; [now right|]. rewrite F4. intros e [].
Qed.

Lemma ack_one_eff s k id : ack_sum s (ack_one s k id) (is_final s k id).
Proof.
  unfold ack_one, is_final.
  destruct (N.eqb_spec (io s) 0) as [Hio|Hio]; cbn [negb andb]; [|apply ack_sum_noop].
  destruct ((k =? 0) || (5 <? k)); cbn [negb andb]; [apply ack_sum_noop|].
  destruct (id =? 0); cbn [negb andb]; [now apply ack_sum_close|].
  destruct (((k =? 4) || (k =? 5)) && negb (client s)); cbn [negb andb]; [apply ack_sum_noop|].
  unfold pkt_ack, pkt_ack_inner.
  destruct (inflight s) as [|[[i tx] tp] rest] eqn:HI.
  { rewrite andb_false_r. now apply ack_sum_close. }
  assert (DT : forall s0, cap (drop_tx_opt s0 tx) = cap s0 /\ wrb (drop_tx_opt s0 tx) = wrb s0 /\ wire (drop_tx_opt s0 tx) = wire s0).
  { intros s0. rewrite drop_tx_opt_eq. auto. }
  destruct (N.eqb_spec i id) as [->|NE]; cbn [negb andb].
  2:{ rewrite andb_false_r. destruct (DT (set_inflight s rest)) as (D1 & D2 & D3). apply ack_sum_close; auto. }
  destruct (N.eqb_spec k tp) as [->|NE]; cbn [negb andb].
  2:{ rewrite andb_false_r. destruct (DT (set_inflight s rest)) as (D1 & D2 & D3). apply ack_sum_close; auto. }
  pose proof (fun s0 v => send_opt_nc s0 tx v) as SN.
  destruct (N.eqb_spec tp 2) as [->|N2]; cbn [negb andb].
  { unfold new_chan, rxm_insert. cbn [fst snd]. 
    set (s1 := send_opt (set_inflight s rest) tx 2). destruct (SN (set_inflight s rest) 2).
    unfold ack_sum. fold s1 in nc_cap, nc_wrb, nc_wire, nc_io, nc_inflight.
    destruct (rxm_find id (rxm (set_chans s1 (chans s1 ++ [mkChan COpen 0 true])))); unfold drop_rx; sk.
    all: rewrite ?nc_cap, ?nc_wrb, ?nc_io, ?nc_inflight; sk; repeat split; auto; try (left; sk; rewrite nc_wire; reflexivity).
    all: try (left; split; auto; rewrite ?HI, lenN_app, !lenN_cons, lenN_nil; lia).
    all: intros e He; rewrite ?HI; apply in_app_or in He as [He|[<-|[]]]; auto; left; now right. }
  rewrite ?andb_true_r.
  assert (FIN : forall s2, cap s2 = cap s -> wrb s2 = wrb s -> wire s2 = wire s -> io s2 = io s -> inflight s2 = rest ->
                ack_sum s (wake s2 1) true).
  { intros s2 A B C D E. rewrite wake_eq. unfold ack_sum. sk. rewrite A, B, D, E. repeat split; auto.
    - left. sk. exact C.
    - rewrite ?HI, lenN_cons. lia.
    - intros e He. left. rewrite ?HI. now right. }
  destruct (N.eqb_spec tp 3) as [->|N3].
  - apply FIN.
    + rewrite (nc_cap _ _ (SN _ _)). destruct (rxm_find _ _); reflexivity.
    + rewrite (nc_wrb _ _ (SN _ _)). destruct (rxm_find _ _); reflexivity.
    + rewrite (nc_wire _ _ (SN _ _)). destruct (rxm_find _ _); reflexivity.
    + rewrite (nc_io _ _ (SN _ _)). destruct (rxm_find _ _); reflexivity.
    + rewrite (nc_inflight _ _ (SN _ _)). destruct (rxm_find _ _); reflexivity.
  - apply FIN.
    + now rewrite (nc_cap _ _ (SN _ _)).
    + now rewrite (nc_wrb _ _ (SN _ _)).
    + now rewrite (nc_wire _ _ (SN _ _)).
    + now rewrite (nc_io _ _ (SN _ _)).
    + now rewrite (nc_inflight _ _ (SN _ _)).
Qed.

Lemma wire_ext_cpub0 s s' : wire_ext s s' -> cpub0 s s'.
Proof. intros H E. now apply wire_ext_count. Qed.

Lemma ack_one_closed s k id : io s <> 0 -> ack_one s k id = s.
Proof. intros H. unfold ack_one. destruct (N.eqb_spec (io s) 0); [contradiction|reflexivity]. Qed.
Lemma ack_list_closed l : forall s, io s <> 0 -> ack_list s l = s /\ ack_finals s l = 0.
Proof.
  induction l as [|[k id] r IH]; intros s H; cbn [ack_list ack_finals]; auto.
  rewrite ack_one_closed by auto. destruct (IH s H) as [-> ->]. split; auto.
  unfold is_final. destruct (N.eqb_spec (io s) 0); [contradiction|reflexivity].
Qed.

Lemma ack_list_eff l : forall s, let s' := ack_list s l in
  cap s' = cap s /\ wrb s' = wrb s /\ cpub0 s s' /\ (io s' = 0 -> io s = 0) /\
  lenN (inflight s') <= lenN (inflight s) /\
  (io s' = 0 -> lenN (inflight s) = lenN (inflight s') + ack_finals s l) /\
  (io s' <> 0 -> io s = 0 -> inflight s' = []) /\
  (forall e, In e (inflight s') -> In e (inflight s) \/ snd e = 3).
Proof.
  induction l as [|[k id] r IH]; intros s; cbn [ack_list ack_finals].
  - cbv zeta. repeat split; auto using cpub0_refl; try lia; try (intros; contradiction).
  - cbv zeta. destruct (ack_one_eff s k id) as (A1 & A2 & A3 & A4 & A5 & A6).
    destruct (IH (ack_one s k id)) as (B1 & B2 & B3 & B4 & B5 & B6 & B7 & B8).
    set (s1 := ack_one s k id) in *. set (s' := ack_list s1 r) in *.
    split; [congruence|]. split; [congruence|]. split; [eapply cpub0_trans; eauto using wire_ext_cpub0|].
    split; [auto|].
    assert (L1 : lenN (inflight s1) <= lenN (inflight s)).
    { destruct (is_final s k id); [lia|]. destruct A5 as [[A5 _]|[A5 _]]; [lia|]. rewrite A5, lenN_nil. lia. }
    split; [lia|]. split; [|split].
    + intros Z. specialize (B6 Z). specialize (B4 Z).
      destruct (is_final s k id); [lia|]. destruct A5 as [[A5 _]|[_ A5]]; [lia|contradiction].
    + intros Z1 Z2. destruct (N.eq_dec (io s1) 0) as [E|E]; [auto|].
      destruct (ack_list_closed r s1 E) as [E1 _]. unfold s'. rewrite E1.
      destruct (is_final s k id); [destruct A5; contradiction|]. destruct A5 as [[_ A5]|[A5 _]]; [congruence|auto].
    + intros e He. destruct (B8 e He) as [H|H]; auto.
Qed.

(* ---------------------------------------------------------------- the three C05 results *)
Definition caps_ok_step (s : sink) (o : op) : bool :=
  match o with OSetCap n => lenN (inflight s) <=? n | _ => true end.
Fixpoint caps_ok (s : sink) (ops : list op) : bool :=
  match ops with [] => true | o :: r => caps_ok_step s o && caps_ok (sink_op s o) r end.

Lemma step_eff s o :
  match o with
  | OAcks l => True
  | OWrb _ | OSetCap _ => True
  | _ => c05_eff s (sink_step s o)
  end.
Proof.
  destruct o; cbn [sink_step]; auto.
  - apply start_eff. - apply poll_eff. - apply drop_eff. - apply release_eff. - apply drop_receipt_eff.
  - apply close_eff. - apply force_close_eff. - apply eff_same; try reflexivity; now left.
  - apply chunk_eff. - apply drop_stream_eff. - apply drop_chunk_eff. - apply eff_same; auto; now left. - apply create_eff.
Qed.

Lemma wrb_same s on : cap (do_wrb s on) = cap s /\ inflight (do_wrb s on) = inflight s /\ io (do_wrb s on) = io s /\
  wire (do_wrb s on) = wire s.
Proof.
  unfold do_wrb. destruct on; [auto|].
  set (s2 := match swait (set_wrb s false) with Some c => set_swait (fst (send (set_wrb s false) c 0)) None | None => set_wrb s false end).
  assert (E : cap s2 = cap s /\ inflight s2 = inflight s /\ io s2 = io s /\ wire s2 = wire s).
  { unfold s2. destruct (swait _); auto. rewrite send_eq. auto. }
  destruct (_ <? _); auto. rewrite wake_eq. exact E.
Qed.
Lemma set_cap_same s n : cap (do_set_cap s n) = n /\ inflight (do_set_cap s n) = inflight s /\ io (do_set_cap s n) = io s /\
  wire (do_set_cap s n) = wire s /\ wrb (do_set_cap s n) = wrb s.
Proof. unfold do_set_cap. rewrite wake_eq. auto. Qed.

Lemma settle_same s : cap (settle s) = cap s /\ inflight (settle s) = inflight s /\ wire (settle s) = wire s /\ wrb (settle s) = wrb s.
Proof. unfold settle. destruct (io s =? 1); auto. Qed.

Lemma window_step s o : caps_ok_step s o = true -> lenN (inflight s) <= cap s ->
  lenN (inflight (sink_op s o)) <= cap (sink_op s o).
Proof.
  intros C H. unfold sink_op. destruct (settle_same (sink_step (set_wire s []) o)) as (S1 & S2 & _). rewrite S1, S2.
  set (s0 := set_wire s []). change (lenN (inflight s0) <= cap s0) in H.
  pose proof (step_eff s0 o) as E. destruct o as [t k i z|t|t|l|t|t|on|n| | |n|t n|t|t| |t k i z]; cbn [sink_step] in *;
    try (destruct E as (A & B & [(C1 & _)|[(C1 & _)|(e & tag & id & C1 & C2 & _)]]); rewrite A, C1, ?lenN_nil, ?lenN_app, ?lenN_cons, ?lenN_nil; lia).
  - destruct (ack_list_eff l s0) as (A & _ & _ & _ & L & _). cbv zeta in *. rewrite A. lia.
  - destruct (wrb_same s0 on) as (A & B & _). rewrite A, B. exact H.
  - destruct (set_cap_same s0 n) as (A & B & _). rewrite A, B. apply N.leb_le in C. exact C.
  - exact H.
Qed.

Theorem window_inv ops : forall s, lenN (inflight s) <= cap s -> caps_ok s ops = true ->
  lenN (inflight (run_from s ops)) <= cap (run_from s ops).
Proof.
  induction ops as [|o r IH]; intros s H C; cbn [run_from fold_left caps_ok] in *; auto.
  apply andb_true_iff in C as [C1 C2]. apply IH; auto. now apply window_step.
Qed.

Theorem caps_ok_prefix a : forall s b, caps_ok s (a ++ b) = true -> caps_ok s a = true.
Proof.
  induction a as [|o r IH]; intros s b H; cbn [app caps_ok] in *; auto.
  apply andb_true_iff in H as [H1 H2]. rewrite H1. cbn [andb]. eauto.
Qed.

(* an entry joins the queue only in a step that found room and no back-pressure (or it is the PUBREC re-queue of
   an entry that was already there, now awaiting PUBCOMP) *)
Theorem push_only_when_room s o e :
  In e (inflight (sink_op s o)) -> ~ In e (inflight s) ->
  (lenN (inflight s) < cap s /\ wrb s = false /\ inflight (sink_op s o) = inflight s ++ [e]) \/
  (snd e = 3 /\ exists l, o = OAcks l).
Proof.
  unfold sink_op. destruct (settle_same (sink_step (set_wire s []) o)) as (_ & S2 & _). rewrite S2.
  set (s0 := set_wire s []). change (inflight s) with (inflight s0). change (cap s) with (cap s0). change (wrb s) with (wrb s0).
  intros H N. pose proof (step_eff s0 o) as E.
  assert (G : c05_eff s0 (sink_step s0 o) ->
     lenN (inflight s0) < cap s0 /\ wrb s0 = false /\ inflight (sink_step s0 o) = inflight s0 ++ [e]).
  { intros (A & B & [(C1 & _)|[(C1 & _)|(e' & tag & id & C1 & C2 & C3 & _)]]).
    - rewrite C1 in H. contradiction.
    - rewrite C1 in H. contradiction.
    - rewrite C1 in H. apply in_app_or in H as [H|[<-|[]]]; [contradiction|]. auto. }
  destruct o as [t k i z|t|t|l|t|t|on|n| | |n|t n|t|t| |t k i z]; cbn [sink_step] in *; try (left; exact (G E)).
  - right. destruct (ack_list_eff l s0) as (_ & _ & _ & _ & _ & _ & _ & L). cbv zeta in L.
    destruct (L e H) as [Z|Z]; [contradiction|]. eauto.
  - destruct (wrb_same s0 on) as (_ & B & _). rewrite B in H. contradiction.
  - destruct (set_cap_same s0 n) as (_ & B & _). rewrite B in H. contradiction.
Qed.

Theorem acks_never_grow s l : lenN (inflight (sink_op s (OAcks l))) <= lenN (inflight s).
Proof.
  unfold sink_op. destruct (settle_same (sink_step (set_wire s []) (OAcks l))) as (_ & S2 & _). rewrite S2.
  cbn [sink_step]. destruct (ack_list_eff l (set_wire s [])) as (_ & _ & _ & _ & L & _). exact L.
Qed.

(* ---------------------------------------------------------------- wire level: written minus finally acknowledged *)
Definition finals (s : sink) (o : op) : N := match o with OAcks l => ack_finals s l | _ => 0 end.

(* (state, packets written so far, acknowledgements processed as final so far) *)
Definition cnt_step (p : sink * N * N) (o : op) : sink * N * N :=
  let '(s, W, F) := p in
  let s' := sink_op s o in (s', W + count_pub (wire s'), F + finals (set_wire s []) o).

Definition caps_ok_w_step (p : sink * N * N) (o : op) : bool :=
  let '(s, W, F) := p in match o with OSetCap n => W <=? F + n | _ => true end.
Fixpoint caps_ok_w (p : sink * N * N) (ops : list op) : bool :=
  match ops with [] => true | o :: r => caps_ok_w_step p o && caps_ok_w (cnt_step p o) r end.

Definition wire_inv (p : sink * N * N) : Prop :=
  let '(s, W, F) := p in
  settled s /\ (io s = 0 -> W = F + lenN (inflight s)) /\ W <= F + cap s /\ (io s <> 0 -> inflight s = []).

Lemma settled_step s o : settled s -> settled (sink_op s o).
Proof.
  intros ST. unfold sink_op. apply settle_settled. pose proof (step_iom (set_wire s []) o) as M.
  unfold settled in *. change (io (set_wire s [])) with (io s) in M. destruct M as [M|[[M _]|M]]; rewrite M; auto.
Qed.

Lemma settle_io0 s : io (settle s) = 0 <-> io s = 0.
Proof. unfold settle. destruct (N.eqb_spec (io s) 1) as [E|E]; sk; [rewrite E; split; discriminate|tauto]. Qed.

Lemma wire_inv_step p o : wire_inv p -> caps_ok_w_step p o = true -> wire_inv (cnt_step p o).
Proof.
  destruct p as [[s W] F]. intros (ST & B & C & D) CK. unfold cnt_step, wire_inv.
  split; [now apply settled_step|].
  unfold sink_op. set (s0 := set_wire s []). set (s1 := sink_step s0 o).
  destruct (settle_same s1) as (S1 & S2 & S3 & _). rewrite S1, S2, S3, settle_io0.
  change (io s = 0 -> W = F + lenN (inflight s0)) in B. change (W <= F + cap s0) in C.
  change (io s <> 0 -> inflight s0 = []) in D. change (settled s0) in ST.
  assert (E0 : evenl (wire s0)) by constructor.
  assert (CP0 : count_pub (wire s0) = 0) by reflexivity.
  assert (IO0 : io s0 = io s) by reflexivity.
  assert (EFF : c05_eff s0 s1 -> finals s0 o = 0 ->
     (io s1 = 0 -> W + count_pub (wire s1) = F + finals s0 o + lenN (inflight s1)) /\
     W + count_pub (wire s1) <= F + finals s0 o + cap s1 /\ (io s1 <> 0 -> inflight s1 = [])).
  { intros (A1 & A2 & [(C1 & C2 & C3)|[(C1 & C2 & C3)|(e & tag & id & C1 & C2 & C3 & C4 & C5 & C6 & C7)]]) FZ; rewrite FZ, A1.
    - destruct (wire_ext_count _ _ C3 E0) as [_ CP]. rewrite CP, CP0, C1, C2, IO0.
      split; [intros Z; specialize (B Z); lia|]. split; [lia|auto].
    - destruct (wire_ext_count _ _ C3 E0) as [_ CP]. rewrite CP, CP0, C1.
      split; [intros Z; contradiction|]. split; [lia|auto].
    - assert (Z : io s0 = 0) by (destruct ST; [auto|contradiction]).
      rewrite Z, N.eqb_refl in C7. rewrite C7. change (wire s0) with (@nil N). cbn [app count_pub]. rewrite C6, C1.
      assert (LL : lenN (inflight s0 ++ [e]) = lenN (inflight s0) + 1) by (rewrite lenN_app; reflexivity). rewrite LL.
      assert (Z' : io s = 0) by (now rewrite <- IO0). specialize (B Z').
      split; [intros _; lia|]. split; [lia|intros Q; congruence]. }
  destruct o as [t k i z|t|t|l|t|t|on|n| | |n|t n|t|t| |t k i z]; unfold s1; cbn [sink_step finals] in *;
    try (apply EFF; [first [apply start_eff|apply poll_eff|apply drop_eff|apply release_eff|apply drop_receipt_eff|apply close_eff
                           |apply force_close_eff|apply chunk_eff|apply drop_stream_eff|apply drop_chunk_eff|apply create_eff
                           |apply eff_same; try reflexivity; now left]|reflexivity]).
  - destruct (ack_list_eff l s0) as (A1 & A2 & A3 & A4 & A5 & A6 & A7 & A8). cbv zeta in *.
    destruct (A3 E0) as [_ CP]. rewrite CP, CP0, A1. split; [|split].
    + intros Z. specialize (A6 Z). specialize (A4 Z). rewrite IO0 in A4. specialize (B A4). lia.
    + destruct (N.eq_dec (io s) 0) as [Z|Z].
      * specialize (B Z). lia.
      * destruct (ack_list_closed l s0 Z) as [_ ->]. lia.
    + intros Z. destruct (N.eq_dec (io s) 0) as [Z'|Z']; [auto|].
      destruct (ack_list_closed l s0 Z') as [-> _]. auto.
  - destruct (wrb_same s0 on) as (A & B' & C' & D'). rewrite A, B', C', D', CP0.
    split; [intros Z; specialize (B Z); lia|]. split; [lia|auto].
  - destruct (set_cap_same s0 n) as (A & B' & C' & D' & _). rewrite A, B', C', D', CP0. apply N.leb_le in CK.
    split; [intros Z; specialize (B Z); lia|]. split; [lia|auto].
Qed.

Lemma wire_inv_run ops : forall p, wire_inv p -> caps_ok_w p ops = true -> wire_inv (fold_left cnt_step ops p).
Proof.
  induction ops as [|o r IH]; intros p I C; cbn [fold_left caps_ok_w] in *; auto.
  apply andb_true_iff in C as [C1 C2]. apply IH; auto. now apply wire_inv_step.
Qed.

Theorem outstanding_on_wire v cl c ops :
  caps_ok_w (sink_init v cl c, 0, 0) ops = true ->
  let '(s, W, F) := fold_left cnt_step ops (sink_init v cl c, 0, 0) in
  W <= F + cap s /\ (io s = 0 -> W = F + lenN (inflight s)) /\ lenN (inflight s) <= cap s.
Proof.
  intros C. assert (I0 : wire_inv (sink_init v cl c, 0, 0)).
  { unfold wire_inv, settled. cbn. repeat split; auto; try lia. }
  pose proof (wire_inv_run ops _ I0 C) as I. destruct (fold_left cnt_step ops _) as [[s W] F].
  destruct I as (ST & B & C' & D). repeat split; auto.
  destruct (N.eq_dec (io s) 0) as [Z|Z]; [specialize (B Z); lia|]. rewrite (D Z), lenN_nil. lia.
Qed.

(* the state component of the counted run is the plain run *)
Lemma cnt_run_state ops : forall s W F, fst (fst (fold_left cnt_step ops (s, W, F))) = run_from s ops.
Proof. induction ops as [|o r IH]; intros s W F; cbn [fold_left run_from]; auto. unfold cnt_step at 2. apply IH. Qed.

Theorem window_inv_init v cl c ops :
  caps_ok (sink_init v cl c) ops = true ->
  lenN (inflight (run_from (sink_init v cl c) ops)) <= cap (run_from (sink_init v cl c) ops).
Proof. apply window_inv. cbn. rewrite lenN_nil. lia. Qed.

Print Assumptions window_inv.
Print Assumptions push_only_when_room.
Print Assumptions outstanding_on_wire.
