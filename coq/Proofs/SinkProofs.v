(* Proofs/SinkProofs.v -- properties C05, C06, C13, C14 of the outbound bookkeeping model, read off single steps
   under the invariant of Proofs/SinkInv.v *)
From Coq Require Import Lia List NArith Bool Arith.
From MV Require Import Base.Prelude Model.Sink Proofs.SinkInv.
Import ListNotations.
Open Scope N_scope.

(* ================================================================ C05: the send window *)
Inductive evenl : list N -> Prop :=
| ev_nil : evenl []
| ev_cons a b l : evenl l -> evenl (a :: b :: l).

(* number of PUBLISH(QoS1/2) / SUBSCRIBE / UNSUBSCRIBE packets in a wire log (a list of tag, id pairs) *)
Fixpoint count_pub (w : list N) : N :=
  match w with
  | tag :: _ :: r => (if is_pub tag then 1 else 0) + count_pub r
  | _ => 0
  end.

Lemma count_pub_snoc w a b : evenl w ->
  evenl (w ++ [a; b]) /\ count_pub (w ++ [a; b]) = count_pub w + (if is_pub a then 1 else 0).
Proof.
  induction 1 as [|x y l H [IH1 IH2]]; cbn [app count_pub].
  - split; [repeat constructor|lia].
  - split; [now constructor|]. rewrite IH2. lia.
Qed.

(* the wire log grows by at most one packet that is not counted *)
Definition wire_ext (s s' : sink) : Prop :=
  wire s' = wire s \/ exists tag v, is_pub tag = false /\ wire s' = wire s ++ [tag; v].

Lemma wire_ext_refl s : wire_ext s s. Proof. now left. Qed.
Lemma wire_ext_eq s s' : wire s' = wire s -> wire_ext s s'. Proof. now left. Qed.
Lemma wire_ext_count s s' : wire_ext s s' -> evenl (wire s) -> evenl (wire s') /\ count_pub (wire s') = count_pub (wire s).
Proof.
  intros [->|(tag & v & P & ->)] E; auto. destruct (count_pub_snoc (wire s) tag v E) as [A B]. rewrite P in B. split; auto. lia.
Qed.

Definition c05_eff (s s' : sink) : Prop :=
  cap s' = cap s /\ wrb s' = wrb s /\
  ((inflight s' = inflight s /\ io s' = io s /\ wire_ext s s') \/
   (inflight s' = [] /\ io s' <> 0 /\ wire_ext s s') \/
   (exists e tag id, inflight s' = inflight s ++ [e] /\ lenN (inflight s) < cap s /\ wrb s = false /\
                     io s' = io s /\ io s <> 2 /\ is_pub tag = true /\
                     wire s' = if io s =? 0 then wire s ++ [tag; id] else wire s)).

Lemma eff_same s s' : cap s' = cap s -> wrb s' = wrb s -> inflight s' = inflight s -> io s' = io s -> wire_ext s s' -> c05_eff s s'.
Proof. intros. unfold c05_eff. auto 10. Qed.

Lemma send_res_eff s x s1 st : send_res s x s1 st -> c05_eff s s1.
Proof.
  intros R. destruct R as [s1 e N | s1 Hio CW P | s1 id Hio L W P].
  - destruct N as (N1&N2&N3&N4&N5&N6&N7&N8&N9&N10&N11&N12&N13&N14&N15&N16). apply eff_same; auto. now left.
  - unfold parked in P. subst. apply eff_same; auto. now left.
  - destruct P as (P1&P2&P3&P4&P5&P6&P7&P8&P9&P10&P11&P12&(tag & T1 & T2)&P14). split; auto. split; auto.
    right. right. exists (id, Some (length (chans s)), exp_kind x), tag, id. auto 10.
Qed.

Lemma eff_tasks s s1 l : c05_eff s s1 -> c05_eff s (set_tasks s1 l).
Proof. exact (fun H => H). Qed.

Lemma start_eff s t k idq size : c05_eff s (start_task s t k idq size).
Proof.
  destruct (find_task t (tasks s)) eqn:F; [unfold start_task; rewrite F; apply eff_same; try reflexivity; try (apply wire_ext_eq; reflexivity)|].
  destruct (start_task_spec s t k idq size F) as [ | s1 e K P | e K | s1 K Hio CW P | s0 x s1 st K E0 EX R].
  - apply eff_same; try reflexivity; try (apply wire_ext_eq; reflexivity).
  - apply eff_tasks. destruct P as (P1&P2&P3&P4&P5&P6&P7&P8&P9&P10&P11&P12&P13&P14). apply eff_same; auto.
    destruct P14 as [E|E]; [left; exact E|right; exists W_PUB0, 0; auto].
  - apply eff_same; try reflexivity; try (apply wire_ext_eq; reflexivity).
  - apply eff_tasks. unfold parked in P. subst. apply eff_same; try reflexivity; try (apply wire_ext_eq; reflexivity).
  - apply eff_tasks. apply send_res_eff in R. subst s0. destruct (k =? 7); exact R.
Qed.

Lemma create_eff s t k idq size : c05_eff s (create_task s t k idq size).
Proof.
  destruct (find_task t (tasks s)) eqn:F; [unfold create_task; rewrite F; apply eff_same; try reflexivity; try (apply wire_ext_eq; reflexivity)|].
  destruct (create_task_spec s t k idq size F) as [ | K | e K | s1 K Hio CW P | K | s0 x s1 st K E0 EX R].
  - apply eff_same; try reflexivity; try (apply wire_ext_eq; reflexivity).
  - apply start_eff.
  - apply eff_same; try reflexivity; try (apply wire_ext_eq; reflexivity).
  - apply eff_tasks. unfold parked in P. subst. apply eff_same; try reflexivity; try (apply wire_ext_eq; reflexivity).
  - apply eff_same; try reflexivity; try (apply wire_ext_eq; reflexivity).
  - apply eff_tasks. apply send_res_eff in R. subst s0. destruct (k =? 7); exact R.
Qed.

Lemma poll_eff s t : c05_eff s (poll_task s t).
Proof.
  destruct (find_task t (tasks s)) as [x|] eqn:F; [|unfold poll_task; rewrite F; apply eff_same; try reflexivity; try (apply wire_ext_eq; reflexivity)].
  destruct (poll_task_spec s t x F) as (s1 & st & R & ->). apply eff_tasks.
  destruct R; try (apply eff_same; try reflexivity; try (apply wire_ext_eq; reflexivity); fail); try (eapply send_res_eff; eauto; fail);
    eapply send_res_eff; eapply SE_fail with (e := 0); eauto.
Qed.

Ltac same := apply eff_same; try reflexivity; try (apply wire_ext_eq; reflexivity).

Lemma drop_eff s t : c05_eff s (drop_task s t).
Proof.
  unfold drop_task. destruct (find_task t (tasks s)) as [x|]; [|same].
  destruct (tst x); try (apply eff_same; try reflexivity; try (apply wire_ext_eq; reflexivity); fail).
  cbv zeta. apply eff_tasks. pose proof (drop_sig_nc (drop_rx s c) x) as []. apply eff_same; auto. now left.
Qed.

Lemma enc_packet_eff s tag id s2 ok : enc_packet s tag id = (s2, ok) -> is_pub tag = false ->
  cap s2 = cap s /\ wrb s2 = wrb s /\ wire_ext s s2.
Proof.
  unfold enc_packet, add_wire. intros E P. destruct (io s =? 0); [destruct (negb _)|]; injection E as <- <-; sk;
    repeat split; try apply wire_ext_refl. right. exists tag, id. auto.
Qed.

Lemma release_eff s t : c05_eff s (release_task s t).
Proof.
  unfold release_task. destruct (find_task t (tasks s)) as [x|]; [|same].
  destruct (tst x); try (apply eff_same; try reflexivity; try (apply wire_ext_eq; reflexivity); fail).
  unfold release_publish. destruct (rxm_find _ _) as [c|]; [|apply eff_same; try reflexivity; apply wire_ext_eq; reflexivity].
  destruct (enc_packet _ _ _) as [s2 ok] eqn:E. destruct (enc_packet_core _ _ _ _ _ E) as (E1&_&_&_&_&E6&_).
  destruct (enc_packet_eff _ _ _ _ _ E eq_refl) as (C & W & X).
  destruct ok; [destruct (poll s2 c)|]; apply eff_tasks; apply eff_same; auto.
Qed.

Lemma drop_receipt_eff s t : c05_eff s (drop_receipt s t).
Proof.
  unfold drop_receipt. destruct (find_task t (tasks s)) as [x|]; [|same].
  destruct (tst x); try (apply eff_same; try reflexivity; try (apply wire_ext_eq; reflexivity); fail).
  unfold release_publish. destruct (rxm_find _ _) as [c|]; [|apply eff_same; try reflexivity; apply wire_ext_eq; reflexivity].
  destruct (enc_packet _ _ _) as [s2 ok] eqn:E. destruct (enc_packet_core _ _ _ _ _ E) as (E1&_&_&_&_&E6&_).
  destruct (enc_packet_eff _ _ _ _ _ E eq_refl) as (C & W & X).
  apply eff_tasks. apply eff_same; auto.
Qed.

Lemma close_eff s r : c05_eff s (do_close s r).
Proof.
  destruct (do_close_spec s r) as (s2 & -> & C). pose proof (closing_io _ _ C) as Hio.
  destruct C as (C1&C2&C3&C4&C5&C6&C7&C8&C9&C10&C11&C12&C13&C14&C15).
  rewrite clear_queues_eq. split; [exact C3|]. split; [exact C8|]. right. left. sk. repeat split; auto.
  destruct C15 as [E|[rc E]]; [now left|right]. exists W_DISCONNECT, rc. auto.
Qed.

Lemma force_close_eff s : c05_eff s (do_force_close s).
Proof.
  unfold do_force_close, io_terminate. rewrite clear_queues_eq. split; [reflexivity|]. split; [reflexivity|].
  right. left. sk. repeat split; try discriminate. now left.
Qed.

Lemma epp_eff s n : c05_eff s (fst (fst (encode_publish_payload s n))).
Proof.
  unfold encode_publish_payload. destruct (srem s =? 0); [same|].
  destruct (srem s <? n); [apply force_close_eff|].
  unfold enc_chunk, add_wire. destruct (io s =? 0).
  - destruct (crem s =? 0); [same|].
    destruct (crem s <? n); [same|].
    destruct (n =? 0); apply eff_same; try reflexivity; [now left|right]. exists W_CHUNK, n. auto.
  - apply eff_same; try reflexivity. now left.
Qed.

Lemma chunk_payload_eff s sm srx n : c05_eff s (fst (chunk_payload s sm srx n)).
Proof.
  unfold chunk_payload. pose proof (epp_eff s n) as E. destruct (encode_publish_payload s n) as [[s1 st] more]. exact E.
Qed.

Lemma chunk_inprocess_eff s sm srx inp n : c05_eff s (fst (chunk_inprocess s sm srx inp n)).
Proof.
  unfold chunk_inprocess. destruct inp; [|same].
  destruct (is_closed s); [same|].
  destruct (wrb s) eqn:W; [|apply chunk_payload_eff]. unfold new_chan. sk. cbn [fst]. rewrite drop_tx_opt_eq.
  apply eff_same; try reflexivity. now left.
Qed.

Lemma chunk_signal_eff s sm n : c05_eff s (fst (chunk_signal s sm n)).
Proof. unfold chunk_signal. destruct (poll _ _); [same|apply chunk_inprocess_eff|same]. Qed.

Lemma chunk_eff s t n : c05_eff s (chunk_task s t n).
Proof.
  unfold chunk_task. destruct (find_task t (tasks s)) as [x|]; [|same].
  destruct (tstream x) as [sm|]; [|same].
  destruct (negb _); [same|].
  assert (G : forall r : sink * stream, c05_eff s (fst r) -> c05_eff s (let '(s1, sm1) := r in set_tasks s1 (put_task t (with_stream x sm1) (tasks s1)))).
  { intros [s1 sm1] H. exact H. }
  apply G. destruct (pend sm) as [|m|c m].
  - destruct (s_rx sm); [apply chunk_signal_eff|apply chunk_inprocess_eff].
  - apply chunk_signal_eff.
  - destruct (poll s c); [same|apply chunk_payload_eff|same].
Qed.

Lemma drop_pending_eff s sm : c05_eff s (fst (drop_pending s sm)).
Proof. unfold drop_pending. destruct (pend sm); apply eff_same; try reflexivity; now left. Qed.

Lemma drop_chunk_eff s t : c05_eff s (drop_chunk s t).
Proof.
  unfold drop_chunk. destruct (find_task t (tasks s)) as [x|]; [|same].
  destruct (tstream x) as [sm|]; [|same].
  destruct (negb _); [same|].
  pose proof (drop_pending_eff s sm) as E.
  destruct (pend sm); [same| |]; destruct (drop_pending s sm); exact E.
Qed.

Lemma drop_pending_same s sm : let s1 := fst (drop_pending s sm) in
  cap s1 = cap s /\ wrb s1 = wrb s /\ inflight s1 = inflight s /\ io s1 = io s /\ wire s1 = wire s /\ srem s1 = srem s.
Proof. unfold drop_pending. destruct (pend sm); cbn [fst]; repeat split. Qed.

Lemma eff_ext a a' b : c05_eff a b -> cap a' = cap a -> wrb a' = wrb a -> inflight a' = inflight a -> io a' = io a ->
  wire a' = wire a -> c05_eff a' b.
Proof. unfold c05_eff, wire_ext. intros H -> -> -> -> ->. exact H. Qed.

Lemma drop_stream_eff s t : c05_eff s (drop_stream s t).
Proof.
  unfold drop_stream. destruct (find_task t (tasks s)) as [x|]; [|same].
  destruct (tstream x) as [sm|]; [|same].
  destruct (negb _); [same|].
  pose proof (drop_pending_same s sm) as E. destruct (drop_pending s sm) as [s1 sm1]. cbn [fst] in E.
  destruct E as (E1 & E2 & E3 & E4 & E5 & E6).
  set (s2 := if s_rx sm1 then drop_rx s1 (sg sm1) else s1).
  assert (F : cap s = cap s2 /\ wrb s = wrb s2 /\ inflight s = inflight s2 /\ io s = io s2 /\ wire s = wire s2).
  { unfold s2. destruct (s_rx sm1); sk; auto. }
  destruct F as (F1 & F2 & F3 & F4 & F5).
  destruct (_ && _); apply eff_tasks.
  - apply eff_ext with s2; auto. apply force_close_eff.
  - apply eff_same; auto. now left.
Qed.

(* acknowledgements *)
Definition is_final (s : sink) (k id : N) : bool :=
  (io s =? 0) && negb ((k =? 0) || (5 <? k)) && negb (id =? 0) &&
  negb (((k =? 4) || (k =? 5)) && negb (client s)) && negb (k =? 2) &&
  match inflight s with (i, _, tp) :: _ => (i =? id) && (k =? tp) | [] => false end.

Fixpoint ack_finals (s : sink) (l : list (N * N)) : N :=
  match l with
  | [] => 0
  | (k, id) :: r => (if is_final s k id then 1 else 0) + ack_finals (ack_one s k id) r
  end.

Definition cpub0 (s s' : sink) : Prop :=
  evenl (wire s) -> evenl (wire s') /\ count_pub (wire s') = count_pub (wire s).

Lemma cpub0_refl s : cpub0 s s. Proof. intros H. auto. Qed.
Lemma cpub0_trans a b c : cpub0 a b -> cpub0 b c -> cpub0 a c.
Proof. unfold cpub0. intros H1 H2 E. destruct (H1 E) as [A B]. destruct (H2 A) as [C D]. split; auto. congruence. Qed.

Lemma close_facts s r : cap (do_close s r) = cap s /\ wrb (do_close s r) = wrb s /\ wire_ext s (do_close s r) /\
  inflight (do_close s r) = [] /\ io (do_close s r) <> 0.
Proof.
  destruct (close_eff s r) as (A & B & [(C1 & C2 & C3)|[(C1 & C2 & C3)|(e & tag & id & C1 & _)]]).
  - destruct (do_close_spec s r) as (s2 & E & C). pose proof (closing_io _ _ C) as Hio. rewrite E in *.
    rewrite clear_queues_eq in *. sk. sk in C2. repeat split; auto.
  - auto.
  - destruct (do_close_spec s r) as (s2 & E & C). rewrite E, clear_queues_eq in C1. sk in C1. destruct (inflight s); discriminate.
Qed.

Definition ack_sum (s s' : sink) (fin : bool) : Prop :=
  cap s' = cap s /\ wrb s' = wrb s /\ wire_ext s s' /\ (io s' = 0 -> io s = 0) /\
  (if fin then io s' = 0 /\ lenN (inflight s) = lenN (inflight s') + 1
   else (lenN (inflight s') = lenN (inflight s) /\ io s' = io s) \/ (inflight s' = [] /\ io s' <> 0)) /\
  (forall e, In e (inflight s') -> In e (inflight s) \/ snd e = 3).

Lemma ack_sum_noop s : ack_sum s s false.
Proof. unfold ack_sum. repeat split; auto using wire_ext_refl. Qed.

Lemma ack_sum_close s s1 r : cap s1 = cap s -> wrb s1 = wrb s -> wire s1 = wire s -> ack_sum s (do_close s1 r) false.
Proof.
  intros A B C. destruct (close_facts s1 r) as (F1 & F2 & F3 & F4 & F5). unfold ack_sum.
  split; [congruence|]. split; [congruence|]. split; [unfold wire_ext in *; now rewrite <- C|].
  split; [intros Z; contradiction|]. split; [now right|]. rewrite F4. intros e [].
Qed.

Lemma ack_one_eff s k id : ack_sum s (ack_one s k id) (is_final s k id).
Proof.
  unfold ack_one, is_final.
  destruct (N.eqb_spec (io s) 0) as [Hio|Hio]; cbn [negb andb]; [|apply ack_sum_noop].
  destruct ((k =? 0) || (5 <? k)); cbn [negb andb]; [apply ack_sum_noop|].
  destruct (id =? 0); cbn [negb andb]; [now apply ack_sum_close|].
  destruct (((k =? 4) || (k =? 5)) && negb (client s)); cbn [negb andb]; [apply ack_sum_noop|].
  unfold pkt_ack, pkt_ack_inner.
  destruct (inflight s) as [|[[i tx] tp] rest] eqn:HI.
  { rewrite andb_false_r. now apply ack_sum_close. }
  assert (DT : forall s0, cap (drop_tx_opt s0 tx) = cap s0 /\ wrb (drop_tx_opt s0 tx) = wrb s0 /\ wire (drop_tx_opt s0 tx) = wire s0).
  { intros s0. rewrite drop_tx_opt_eq. auto. }
  destruct (N.eqb_spec i id) as [->|NE]; cbn [negb andb].
  2:{ rewrite andb_false_r. destruct (DT (set_inflight s rest)) as (D1 & D2 & D3). apply ack_sum_close; auto. }
  destruct (N.eqb_spec k tp) as [->|NE]; cbn [negb andb].
  2:{ rewrite andb_false_r. destruct (DT (set_inflight s rest)) as (D1 & D2 & D3). apply ack_sum_close; auto. }
  pose proof (fun s0 v => send_opt_nc s0 tx v) as SN.
  destruct (N.eqb_spec tp 2) as [->|N2]; cbn [negb andb].
  { unfold new_chan, rxm_insert. cbn [fst snd]. 
    set (s1 := send_opt (set_inflight s rest) tx 2). destruct (SN (set_inflight s rest) 2).
    unfold ack_sum. fold s1 in nc_cap, nc_wrb, nc_wire, nc_io, nc_inflight.
    destruct (rxm_find id (rxm (set_chans s1 (chans s1 ++ [mkChan COpen 0 true])))); unfold drop_rx; sk.
    all: rewrite ?nc_cap, ?nc_wrb, ?nc_io, ?nc_inflight; sk; repeat split; auto; try (left; sk; rewrite nc_wire; reflexivity).
    all: try (left; split; auto; rewrite ?HI, lenN_app, !lenN_cons, lenN_nil; lia).
    all: intros e He; rewrite ?HI; apply in_app_or in He as [He|[<-|[]]]; auto; left; now right. }
  rewrite ?andb_true_r.
  assert (FIN : forall s2, cap s2 = cap s -> wrb s2 = wrb s -> wire s2 = wire s -> io s2 = io s -> inflight s2 = rest ->
                ack_sum s (wake s2 1) true).
  { intros s2 A B C D E. rewrite wake_eq. unfold ack_sum. sk. rewrite A, B, D, E. repeat split; auto.
    - left. sk. exact C.
    - rewrite ?HI, lenN_cons. lia.
    - intros e He. left. rewrite ?HI. now right. }
  destruct (N.eqb_spec tp 3) as [->|N3].
  - apply FIN.
    + rewrite (nc_cap _ _ (SN _ _)). destruct (rxm_find _ _); reflexivity.
    + rewrite (nc_wrb _ _ (SN _ _)). destruct (rxm_find _ _); reflexivity.
    + rewrite (nc_wire _ _ (SN _ _)). destruct (rxm_find _ _); reflexivity.
    + rewrite (nc_io _ _ (SN _ _)). destruct (rxm_find _ _); reflexivity.
    + rewrite (nc_inflight _ _ (SN _ _)). destruct (rxm_find _ _); reflexivity.
  - apply FIN.
    + now rewrite (nc_cap _ _ (SN _ _)).
    + now rewrite (nc_wrb _ _ (SN _ _)).
    + now rewrite (nc_wire _ _ (SN _ _)).
    + now rewrite (nc_io _ _ (SN _ _)).
    + now rewrite (nc_inflight _ _ (SN _ _)).
Qed.

Lemma wire_ext_cpub0 s s' : wire_ext s s' -> cpub0 s s'.
Proof. intros H E. now apply wire_ext_count. Qed.

Lemma ack_one_closed s k id : io s <> 0 -> ack_one s k id = s.
Proof. intros H. unfold ack_one. destruct (N.eqb_spec (io s) 0); [contradiction|reflexivity]. Qed.
Lemma ack_list_closed l : forall s, io s <> 0 -> ack_list s l = s /\ ack_finals s l = 0.
Proof.
  induction l as [|[k id] r IH]; intros s H; cbn [ack_list ack_finals]; auto.
  rewrite ack_one_closed by auto. destruct (IH s H) as [-> ->]. split; auto.
  unfold is_final. destruct (N.eqb_spec (io s) 0); [contradiction|reflexivity].
Qed.

Lemma ack_list_eff l : forall s, let s' := ack_list s l in
  cap s' = cap s /\ wrb s' = wrb s /\ cpub0 s s' /\ (io s' = 0 -> io s = 0) /\
  lenN (inflight s') <= lenN (inflight s) /\
  (io s' = 0 -> lenN (inflight s) = lenN (inflight s') + ack_finals s l) /\
  (io s' <> 0 -> io s = 0 -> inflight s' = []) /\
  (forall e, In e (inflight s') -> In e (inflight s) \/ snd e = 3).
Proof.
  induction l as [|[k id] r IH]; intros s; cbn [ack_list ack_finals].
  - cbv zeta. repeat split; auto using cpub0_refl; try lia; try (intros; contradiction).
  - cbv zeta. destruct (ack_one_eff s k id) as (A1 & A2 & A3 & A4 & A5 & A6).
    destruct (IH (ack_one s k id)) as (B1 & B2 & B3 & B4 & B5 & B6 & B7 & B8).
    set (s1 := ack_one s k id) in *. set (s' := ack_list s1 r) in *.
    split; [congruence|]. split; [congruence|]. split; [eapply cpub0_trans; eauto using wire_ext_cpub0|].
    split; [auto|].
    assert (L1 : lenN (inflight s1) <= lenN (inflight s)).
    { destruct (is_final s k id); [lia|]. destruct A5 as [[A5 _]|[A5 _]]; [lia|]. rewrite A5, lenN_nil. lia. }
    split; [lia|]. split; [|split].
    + intros Z. specialize (B6 Z). specialize (B4 Z).
      destruct (is_final s k id); [lia|]. destruct A5 as [[A5 _]|[_ A5]]; [lia|contradiction].
    + intros Z1 Z2. destruct (N.eq_dec (io s1) 0) as [E|E]; [auto|].
      destruct (ack_list_closed r s1 E) as [E1 _]. unfold s'. rewrite E1.
      destruct (is_final s k id); [destruct A5; contradiction|]. destruct A5 as [[_ A5]|[A5 _]]; [congruence|auto].
    + intros e He. destruct (B8 e He) as [H|H]; auto.
Qed.

(* ---------------------------------------------------------------- the three C05 results *)
Definition caps_ok_step (s : sink) (o : op) : bool :=
  match o with OSetCap n => lenN (inflight s) <=? n | _ => true end.
Fixpoint caps_ok (s : sink) (ops : list op) : bool :=
  match ops with [] => true | o :: r => caps_ok_step s o && caps_ok (sink_op s o) r end.

Lemma in_publish_chans s id : chans (in_publish s id) = chans s.
Proof. destruct (in_publish_eq s id) as [-> | ->]; reflexivity. Qed.
Lemma in_publish_tasks s id : tasks (in_publish s id) = tasks s.
Proof. destruct (in_publish_eq s id) as [-> | ->]; reflexivity. Qed.

Lemma in_publish_eff s id : c05_eff s (in_publish s id).
Proof.
  destruct (in_publish_fields s id) as (_&_&A&B&_&_&_&_&C&_&_&_&D&_). apply eff_same; auto.
  destruct (in_publish_eq s id) as [-> | ->]; [now left|right]. exists W_IN_PUBACK, id. auto.
Qed.

Lemma step_eff s o :
  match o with
  | OAcks l => True
  | OWrb _ | OSetCap _ => True
  | _ => c05_eff s (sink_step s o)
  end.
Proof.
  destruct o; cbn [sink_step]; auto.
  - apply start_eff. - apply poll_eff. - apply drop_eff. - apply release_eff. - apply drop_receipt_eff.
  - apply close_eff. - apply force_close_eff. - apply eff_same; try reflexivity; now left.
  - apply chunk_eff. - apply drop_stream_eff. - apply drop_chunk_eff. - apply eff_same; auto; now left. - apply create_eff.
  - apply in_publish_eff.
Qed.

Lemma wrb_same s on : cap (do_wrb s on) = cap s /\ inflight (do_wrb s on) = inflight s /\ io (do_wrb s on) = io s /\
  wire (do_wrb s on) = wire s.
Proof.
  unfold do_wrb. destruct on; [auto|].
  set (s2 := match swait (set_wrb s false) with Some c => set_swait (fst (send (set_wrb s false) c 0)) None | None => set_wrb s false end).
  assert (E : cap s2 = cap s /\ inflight s2 = inflight s /\ io s2 = io s /\ wire s2 = wire s).
  { unfold s2. destruct (swait _); auto. rewrite send_eq. auto. }
  destruct (_ <? _); auto. rewrite wake_eq. exact E.
Qed.
Lemma set_cap_same s n : cap (do_set_cap s n) = n /\ inflight (do_set_cap s n) = inflight s /\ io (do_set_cap s n) = io s /\
  wire (do_set_cap s n) = wire s /\ wrb (do_set_cap s n) = wrb s.
Proof. unfold do_set_cap. rewrite wake_eq. auto. Qed.

Lemma settle_same s : cap (settle s) = cap s /\ inflight (settle s) = inflight s /\ wire (settle s) = wire s /\ wrb (settle s) = wrb s.
Proof. unfold settle. destruct (io s =? 1); auto. Qed.

Lemma window_step s o : caps_ok_step s o = true -> lenN (inflight s) <= cap s ->
  lenN (inflight (sink_op s o)) <= cap (sink_op s o).
Proof.
  intros C H. unfold sink_op. destruct (settle_same (sink_step (set_wire s []) o)) as (S1 & S2 & _). rewrite S1, S2.
  set (s0 := set_wire s []). change (lenN (inflight s0) <= cap s0) in H.
  pose proof (step_eff s0 o) as E. destruct o as [t k i z|t|t|l|t|t|on|n| | |n|t n|t|t| |t k i z|ip]; cbn [sink_step] in *;
    try (destruct E as (A & B & [(C1 & _)|[(C1 & _)|(e & tag & id & C1 & C2 & _)]]); rewrite A, C1, ?lenN_nil, ?lenN_app, ?lenN_cons, ?lenN_nil; lia).
  - destruct (ack_list_eff l s0) as (A & _ & _ & _ & L & _). cbv zeta in *. rewrite A. lia.
  - destruct (wrb_same s0 on) as (A & B & _). rewrite A, B. exact H.
  - destruct (set_cap_same s0 n) as (A & B & _). rewrite A, B. apply N.leb_le in C. exact C.
  - exact H.
Qed.

Theorem window_inv ops : forall s, lenN (inflight s) <= cap s -> caps_ok s ops = true ->
  lenN (inflight (run_from s ops)) <= cap (run_from s ops).
Proof.
  induction ops as [|o r IH]; intros s H C; cbn [run_from fold_left caps_ok] in *; auto.
  apply andb_true_iff in C as [C1 C2]. apply IH; auto. now apply window_step.
Qed.

Theorem caps_ok_prefix a : forall s b, caps_ok s (a ++ b) = true -> caps_ok s a = true.
Proof.
  induction a as [|o r IH]; intros s b H; cbn [app caps_ok] in *; auto.
  apply andb_true_iff in H as [H1 H2]. rewrite H1. cbn [andb]. eauto.
Qed.

(* an entry joins the queue only in a step that found room and no back-pressure (or it is the PUBREC re-queue of
   an entry that was already there, now awaiting PUBCOMP) *)
Theorem push_only_when_room s o e :
  In e (inflight (sink_op s o)) -> ~ In e (inflight s) ->
  (lenN (inflight s) < cap s /\ wrb s = false /\ inflight (sink_op s o) = inflight s ++ [e]) \/
  (snd e = 3 /\ exists l, o = OAcks l).
Proof.
  unfold sink_op. destruct (settle_same (sink_step (set_wire s []) o)) as (_ & S2 & _). rewrite S2.
  set (s0 := set_wire s []). change (inflight s) with (inflight s0). change (cap s) with (cap s0). change (wrb s) with (wrb s0).
  intros H N. pose proof (step_eff s0 o) as E.
  assert (G : c05_eff s0 (sink_step s0 o) ->
     lenN (inflight s0) < cap s0 /\ wrb s0 = false /\ inflight (sink_step s0 o) = inflight s0 ++ [e]).
  { intros (A & B & [(C1 & _)|[(C1 & _)|(e' & tag & id & C1 & C2 & C3 & _)]]).
    - rewrite C1 in H. contradiction.
    - rewrite C1 in H. contradiction.
    - rewrite C1 in H. apply in_app_or in H as [H|[<-|[]]]; [contradiction|]. auto. }
  destruct o as [t k i z|t|t|l|t|t|on|n| | |n|t n|t|t| |t k i z|ip]; cbn [sink_step] in *; try (left; exact (G E)).
  - right. destruct (ack_list_eff l s0) as (_ & _ & _ & _ & _ & _ & _ & L). cbv zeta in L.
    destruct (L e H) as [Z|Z]; [contradiction|]. eauto.
  - destruct (wrb_same s0 on) as (_ & B & _). rewrite B in H. contradiction.
  - destruct (set_cap_same s0 n) as (_ & B & _). rewrite B in H. contradiction.
Qed.

Theorem acks_never_grow s l : lenN (inflight (sink_op s (OAcks l))) <= lenN (inflight s).
Proof.
  unfold sink_op. destruct (settle_same (sink_step (set_wire s []) (OAcks l))) as (_ & S2 & _). rewrite S2.
  cbn [sink_step]. destruct (ack_list_eff l (set_wire s [])) as (_ & _ & _ & _ & L & _). exact L.
Qed.

(* ---------------------------------------------------------------- wire level: written minus finally acknowledged *)
Definition finals (s : sink) (o : op) : N := match o with OAcks l => ack_finals s l | _ => 0 end.

(* (state, packets written so far, acknowledgements processed as final so far) *)
Definition cnt_step (p : sink * N * N) (o : op) : sink * N * N :=
  let '(s, W, F) := p in
  let s' := sink_op s o in (s', W + count_pub (wire s'), F + finals (set_wire s []) o).

Definition caps_ok_w_step (p : sink * N * N) (o : op) : bool :=
  let '(s, W, F) := p in match o with OSetCap n => W <=? F + n | _ => true end.
Fixpoint caps_ok_w (p : sink * N * N) (ops : list op) : bool :=
  match ops with [] => true | o :: r => caps_ok_w_step p o && caps_ok_w (cnt_step p o) r end.

Definition wire_inv (p : sink * N * N) : Prop :=
  let '(s, W, F) := p in
  settled s /\ (io s = 0 -> W = F + lenN (inflight s)) /\ W <= F + cap s /\ (io s <> 0 -> inflight s = []).

Lemma settled_step s o : settled s -> settled (sink_op s o).
Proof.
  intros ST. unfold sink_op. apply settle_settled. pose proof (step_iom (set_wire s []) o) as M.
  unfold settled in *. change (io (set_wire s [])) with (io s) in M. destruct M as [M|[[M _]|M]]; rewrite M; auto.
Qed.

Lemma settle_io0 s : io (settle s) = 0 <-> io s = 0.
Proof. unfold settle. destruct (N.eqb_spec (io s) 1) as [E|E]; sk; [rewrite E; split; discriminate|tauto]. Qed.

Lemma wire_inv_step p o : wire_inv p -> caps_ok_w_step p o = true -> wire_inv (cnt_step p o).
Proof.
  destruct p as [[s W] F]. intros (ST & B & C & D) CK. unfold cnt_step, wire_inv.
  split; [now apply settled_step|].
  unfold sink_op. set (s0 := set_wire s []). set (s1 := sink_step s0 o).
  destruct (settle_same s1) as (S1 & S2 & S3 & _). rewrite S1, S2, S3, settle_io0.
  change (io s = 0 -> W = F + lenN (inflight s0)) in B. change (W <= F + cap s0) in C.
  change (io s <> 0 -> inflight s0 = []) in D. change (settled s0) in ST.
  assert (E0 : evenl (wire s0)) by constructor.
  assert (CP0 : count_pub (wire s0) = 0) by reflexivity.
  assert (IO0 : io s0 = io s) by reflexivity.
  assert (EFF : c05_eff s0 s1 -> finals s0 o = 0 ->
     (io s1 = 0 -> W + count_pub (wire s1) = F + finals s0 o + lenN (inflight s1)) /\
     W + count_pub (wire s1) <= F + finals s0 o + cap s1 /\ (io s1 <> 0 -> inflight s1 = [])).
  { intros (A1 & A2 & [(C1 & C2 & C3)|[(C1 & C2 & C3)|(e & tag & id & C1 & C2 & C3 & C4 & C5 & C6 & C7)]]) FZ; rewrite FZ, A1.
    - destruct (wire_ext_count _ _ C3 E0) as [_ CP]. rewrite CP, CP0, C1, C2, IO0.
      split; [intros Z; specialize (B Z); lia|]. split; [lia|auto].
    - destruct (wire_ext_count _ _ C3 E0) as [_ CP]. rewrite CP, CP0, C1.
      split; [intros Z; contradiction|]. split; [lia|auto].
    - assert (Z : io s0 = 0) by (destruct ST; [auto|contradiction]).
      rewrite Z, N.eqb_refl in C7. rewrite C7. change (wire s0) with (@nil N). cbn [app count_pub]. rewrite C6, C1.
      assert (LL : lenN (inflight s0 ++ [e]) = lenN (inflight s0) + 1) by (rewrite lenN_app; reflexivity). rewrite LL.
      assert (Z' : io s = 0) by (now rewrite <- IO0). specialize (B Z').
      split; [intros _; lia|]. split; [lia|intros Q; congruence]. }
  destruct o as [t k i z|t|t|l|t|t|on|n| | |n|t n|t|t| |t k i z|ip]; unfold s1; cbn [sink_step finals] in *;
    try (apply EFF; [first [apply start_eff|apply poll_eff|apply drop_eff|apply release_eff|apply drop_receipt_eff|apply close_eff
                           |apply force_close_eff|apply chunk_eff|apply drop_stream_eff|apply drop_chunk_eff|apply create_eff|apply in_publish_eff
                           |apply eff_same; try reflexivity; now left]|reflexivity]).
  - destruct (ack_list_eff l s0) as (A1 & A2 & A3 & A4 & A5 & A6 & A7 & A8). cbv zeta in *.
    destruct (A3 E0) as [_ CP]. rewrite CP, CP0, A1. split; [|split].
    + intros Z. specialize (A6 Z). specialize (A4 Z). rewrite IO0 in A4. specialize (B A4). lia.
    + destruct (N.eq_dec (io s) 0) as [Z|Z].
      * specialize (B Z). lia.
      * destruct (ack_list_closed l s0 Z) as [_ ->]. lia.
    + intros Z. destruct (N.eq_dec (io s) 0) as [Z'|Z']; [auto|].
      destruct (ack_list_closed l s0 Z') as [-> _]. auto.
  - destruct (wrb_same s0 on) as (A & B' & C' & D'). rewrite A, B', C', D', CP0.
    split; [intros Z; specialize (B Z); lia|]. split; [lia|auto].
  - destruct (set_cap_same s0 n) as (A & B' & C' & D' & _). rewrite A, B', C', D', CP0. apply N.leb_le in CK.
    split; [intros Z; specialize (B Z); lia|]. split; [lia|auto].
Qed.

Lemma wire_inv_run ops : forall p, wire_inv p -> caps_ok_w p ops = true -> wire_inv (fold_left cnt_step ops p).
Proof.
  induction ops as [|o r IH]; intros p I C; cbn [fold_left caps_ok_w] in *; auto.
  apply andb_true_iff in C as [C1 C2]. apply IH; auto. now apply wire_inv_step.
Qed.

Theorem outstanding_on_wire v cl c ops :
  caps_ok_w (sink_init v cl c, 0, 0) ops = true ->
  let '(s, W, F) := fold_left cnt_step ops (sink_init v cl c, 0, 0) in
  W <= F + cap s /\ (io s = 0 -> W = F + lenN (inflight s)) /\ lenN (inflight s) <= cap s.
Proof.
  intros C. assert (I0 : wire_inv (sink_init v cl c, 0, 0)).
  { unfold wire_inv, settled. cbn. repeat split; auto; try lia. }
  pose proof (wire_inv_run ops _ I0 C) as I. destruct (fold_left cnt_step ops _) as [[s W] F].
  destruct I as (ST & B & C' & D). repeat split; auto.
  destruct (N.eq_dec (io s) 0) as [Z|Z]; [specialize (B Z); lia|]. rewrite (D Z), lenN_nil. lia.
Qed.

(* the state component of the counted run is the plain run *)
Lemma cnt_run_state ops : forall s W F, fst (fst (fold_left cnt_step ops (s, W, F))) = run_from s ops.
Proof. induction ops as [|o r IH]; intros s W F; cbn [fold_left run_from]; auto. unfold cnt_step at 2. apply IH. Qed.

Theorem window_inv_init v cl c ops :
  caps_ok (sink_init v cl c) ops = true ->
  lenN (inflight (run_from (sink_init v cl c) ops)) <= cap (run_from (sink_init v cl c) ops).
Proof. apply window_inv. cbn. rewrite lenN_nil. lia. Qed.


(* ================================================================ C06: acknowledgements *)
(* which steps can complete a one-shot channel *)
Definition nfill (chs chs' : list chan) (c : nat) : Prop :=
  c_st (ch_get chs' c) = CFilled -> ch_get chs' c = ch_get chs c.

Lemma nfill_refl chs c : nfill chs chs c. Proof. intros _. reflexivity. Qed.
Lemma nfill_trans a b d c : nfill a b c -> nfill b d c -> nfill a d c.
Proof. unfold nfill. intros H1 H2 H. pose proof (H2 H) as E. rewrite E in H. rewrite E. now apply H1. Qed.
Lemma nfill_eq a b c : ch_get b c = ch_get a c -> nfill a b c.
Proof. intros E _. exact E. Qed.
Lemma nfill_drop_tx chs c0 c : nfill chs (ch_drop_tx chs c0) c.
Proof.
  unfold nfill. rewrite ch_drop_tx_get. destruct (Nat.eqb c0 c); auto. unfold dtx.
  destruct (c_st (ch_get chs c)) eqn:E; cbn [c_st]; rewrite ?E; auto; discriminate.
Qed.
Lemma nfill_fold_dtx l : forall chs c, nfill chs (fold_left ch_drop_tx l chs) c.
Proof.
  induction l as [|c0 l IH]; intros chs c; cbn [fold_left]; [apply nfill_refl|].
  eapply nfill_trans; [apply nfill_drop_tx|apply IH].
Qed.
Lemma nfill_send chs c0 v c : c <> c0 -> nfill chs (fst (ch_send chs c0 v)) c.
Proof. intros N. apply nfill_eq. rewrite ch_send_get. destruct (Nat.eqb_spec c0 c); [congruence|reflexivity]. Qed.
Lemma nfill_app chs x c : (c < length chs)%nat -> nfill chs (chs ++ [x]) c.
Proof. intros L. apply nfill_eq. now apply ch_get_app_old. Qed.
Lemma nfill_wake chs n ws c : NoDup ws -> ~ In c ws -> nfill chs (fst (wake_go chs n ws)) c.
Proof.
  intros ND N. destruct (wake_go_spec ws chs n ND) as (p & w & W1 & W2 & W3 & _). apply nfill_eq. rewrite W3.
  destruct (existsb (Nat.eqb c) w) eqn:E; auto. apply existsb_eqb_In in E. apply W2 in E as [E _].
  exfalso. apply N. rewrite W1. apply in_or_app. now left.
Qed.
Lemma nfill_sig x chs chs' c : sig_only x chs chs' -> sig_of x <> Some c -> nfill chs chs' c.
Proof. intros [_ G] N. apply nfill_eq. auto. Qed.

(* drop_rx keeps the sender side: the state and value of every channel *)
Definition same_tx (a b : chan) : Prop := c_st b = c_st a /\ c_val b = c_val a.
Definition nfill' (chs chs' : list chan) (c : nat) : Prop :=
  c_st (ch_get chs' c) = CFilled -> same_tx (ch_get chs c) (ch_get chs' c).
Lemma nfill_weak a b c : nfill a b c -> nfill' a b c.
Proof. unfold nfill, nfill', same_tx. intros H F. rewrite (H F). auto. Qed.
Lemma nfill'_refl a c : nfill' a a c. Proof. apply nfill_weak, nfill_refl. Qed.
Lemma nfill'_trans a b d c : nfill' a b c -> nfill' b d c -> nfill' a d c.
Proof.
  unfold nfill', same_tx. intros H1 H2 H. destruct (H2 H) as [A B]. rewrite A, B. apply H1. congruence.
Qed.
Lemma nfill'_drop_rx chs c0 c : nfill' chs (ch_drop_rx chs c0) c.
Proof. unfold nfill', same_tx. rewrite ch_drop_rx_get. destruct (Nat.eqb c0 c); auto. Qed.

Definition nf (s s' : sink) (c : nat) : Prop := nfill' (chans s) (chans s') c.

Lemma nf_send_res ks s x s1 st c :
  send_res s x s1 st -> sm_ok ks s x -> (c < length (chans s))%nat -> kof ks c <> Some KS -> nf s s1 c.
Proof.
  intros R M L K. assert (NS : sig_of x <> Some c).
  { unfold sig_of, sm_ok in *. destruct (tstream x) as [sm|]; [|discriminate]. destruct M as [M _].
    intros E. injection E as E. subst c. contradiction. }
  unfold nf. apply nfill_weak. destruct R as [s1 e N | s1 Hio CW P | s1 id Hio L' W P].
  - destruct N as (_&_&_&_&_&_&_&_&_&_&_&_&_&_&_&N). eapply nfill_sig; eauto.
  - unfold parked in P. subst. sk. now apply nfill_app.
  - destruct P as (_&_&_&_&_&_&_&_&_&_&_&_&_&P&_). eapply nfill_trans; [apply nfill_app; eauto|eapply nfill_sig; eauto].
Qed.

Lemma nf_refl s c : nf s s c. Proof. apply nfill'_refl. Qed.
Lemma nf_trans a b d c : nf a b c -> nf b d c -> nf a d c. Proof. apply nfill'_trans. Qed.
Lemma nf_eq s s' c : chans s' = chans s -> nf s s' c. Proof. unfold nf. intros ->. apply nfill'_refl. Qed.

Ltac nfe := first [apply nf_refl | apply nf_eq; reflexivity].

Lemma nf_clear s c : nf s (clear_queues s) c.
Proof. rewrite clear_queues_eq. unfold nf. sk. apply nfill_weak. unfold cleared. apply nfill_fold_dtx. Qed.
Lemma nf_close s r c : nf s (do_close s r) c.
Proof.
  destruct (do_close_spec s r) as (s2 & -> & C). eapply nf_trans; [|apply nf_clear].
  apply nf_eq. apply C.
Qed.
Lemma nf_force_close s c : nf s (do_force_close s) c.
Proof. unfold do_force_close. eapply nf_trans; [|apply nf_clear]. now apply nf_eq. Qed.
Lemma nf_drop_rx s c0 c : nf s (drop_rx s c0) c.
Proof. unfold nf, drop_rx. sk. apply nfill'_drop_rx. Qed.
Lemma nf_wake ks s n c k : inv ks s -> kof ks c = Some k -> k <> KW -> nf s (wake s n) c.
Proof.
  intros I K N. rewrite wake_eq. unfold nf. sk. apply nfill_weak. apply nfill_wake; [apply I|].
  intros H. apply (i_ws _ _ I) in H as [H _]. congruence.
Qed.
Lemma nf_drop_sig ks s s0 x c k : sm_ok ks s0 x -> kof ks c = Some k -> k <> KS -> nf s (drop_sig s x) c.
Proof.
  intros M K N. unfold nf. apply nfill_weak. eapply nfill_sig; [apply drop_sig_chans|].
  unfold sig_of, sm_ok in *. destruct (tstream x) as [sm|]; [|discriminate]. destruct M as [M _].
  intros E. injection E as E. subst c. congruence.
Qed.

Definition ackch (ks : list ck) (c : nat) : Prop := kof ks c = Some KA \/ kof ks c = Some KC.
Lemma ackch_ne ks c k : ackch ks c -> k <> KA -> k <> KC -> kof ks c <> Some k.
Proof. intros [H|H] A B; rewrite H; congruence. Qed.

Lemma nf_start0 ks s k idq size s1 st c :
  inv ks s -> (c < length (chans s))%nat -> ackch ks c ->
  send_res (if k =? 7 then set_chans s (chans s ++ [open_ch]) else s) (new_task k idq size (length (chans s))) s1 st ->
  nf s s1 c.
Proof.
  intros I L A R. pose proof (i_len _ _ I) as LK.
  assert (L0 : (c < length (chans (if (k =? 7)%N then set_chans s (chans s ++ [open_ch]) else s)))%nat).
  { destruct (k =? 7); sk; auto. rewrite app_length. lia. }
  assert (K0 : kof (if k =? 7 then ks ++ [KS] else ks) c <> Some KS).
  { destruct (k =? 7); [|apply ackch_ne; auto; discriminate]. intros H. unfold kof in H. rewrite nth_error_app1 in H by lia.
    revert H. apply (ackch_ne ks c KS A); discriminate. }
  pose proof (nf_send_res _ _ _ _ _ c R (new_task_sm ks s k idq size LK) L0 K0) as N.
  eapply nf_trans; [|exact N].
  destruct (k =? 7); [|apply nf_refl]. unfold nf. sk. apply nfill_weak. now apply nfill_app.
Qed.

Lemma nf_start ks s t k idq size c :
  inv ks s -> (c < length (chans s))%nat -> ackch ks c -> nf s (start_task s t k idq size) c.
Proof.
  intros I L A. destruct (find_task t (tasks s)) eqn:F; [unfold start_task; rewrite F; apply nf_refl|].
  destruct (start_task_spec s t k idq size F) as [ | s1 e K P | e K | s1 K Hio CW P | s0 x s1 st K E0 EX R].
  - apply nf_refl.
  - apply nf_eq. sk. apply P.
  - now apply nf_eq.
  - unfold parked in P. subst. unfold nf. sk. apply nfill_weak. now apply nfill_app.
  - subst. change (nf s s1 c). eapply nf_start0; eauto.
Qed.

Lemma nf_create ks s t k idq size c :
  inv ks s -> (c < length (chans s))%nat -> ackch ks c -> nf s (create_task s t k idq size) c.
Proof.
  intros I L A. destruct (find_task t (tasks s)) eqn:F; [unfold create_task; rewrite F; apply nf_refl|].
  destruct (create_task_spec s t k idq size F) as [ | K | e K | s1 K Hio CW P | K | s0 x s1 st K E0 EX R].
  - apply nf_refl.
  - now apply nf_start with ks.
  - now apply nf_eq.
  - unfold parked in P. subst. unfold nf. sk. apply nfill_weak. now apply nfill_app.
  - now apply nf_eq.
  - subst. change (nf s s1 c). eapply nf_start0; eauto.
Qed.

Lemma nf_poll ks s t c :
  inv ks s -> (c < length (chans s))%nat -> ackch ks c -> nf s (poll_task s t) c.
Proof.
  intros I L A. destruct (find_task t (tasks s)) as [x|] eqn:F; [|unfold poll_task; rewrite F; apply nf_refl].
  assert (H : In (t, x) (tasks s)) by (apply find_task_In; auto; apply I).
  destruct (i_task _ _ I t x H) as [SO MO].
  destruct (poll_task_spec s t x F) as (s1 & st & R & ->). change (nf s s1 c).
  assert (NK : kof ks c <> Some KS) by (apply ackch_ne; auto; discriminate).
  assert (SR : forall s2 st2, send_res s x s2 st2 -> nf s s2 c) by (intros s2 st2 R2; exact (nf_send_res ks s x s2 st2 c R2 MO L NK)).
  destruct R; try apply nf_refl; try (eapply SR; eassumption); apply (SR s1 (TDone 0)); now apply SE_fail.
Qed.

Lemma nf_drop ks s t c : inv ks s -> ackch ks c -> nf s (drop_task s t) c.
Proof.
  intros I A. unfold drop_task. destruct (find_task t (tasks s)) as [x|] eqn:F; [|apply nf_refl].
  assert (H : In (t, x) (tasks s)) by (apply find_task_In; auto; apply I).
  destruct (i_task _ _ I t x H) as [SO MO].
  destruct (tst x) as [c0|c0 id|id|c0|c0|e| | |e]; try apply nf_refl; cbv zeta;
    try (change (nf s (drop_rx s c0) c); apply nf_drop_rx); try (apply nf_eq; reflexivity).
  change (nf s (drop_sig (drop_rx s c0) x) c). eapply nf_trans; [apply nf_drop_rx|].
  destruct A as [A|A]; eapply nf_drop_sig; eauto; discriminate.
Qed.

Lemma nf_release s t c : nf s (release_task s t) c.
Proof.
  unfold release_task. destruct (find_task t (tasks s)) as [x|]; [|nfe].
  destruct (tst x); try nfe. unfold release_publish. destruct (rxm_find _ _) as [c0|]; [|nfe].
  destruct (enc_packet _ _ _) as [s2 ok] eqn:E. destruct (enc_packet_core _ _ _ _ _ E) as (_&_&_&_&_&_&E7&_).
  destruct ok; [destruct (poll s2 c0)|]; try (apply nf_eq; exact E7).
  change (nf s (drop_rx s2 c0) c). eapply nf_trans; [apply nf_eq; exact E7|apply nf_drop_rx].
Qed.

Lemma nf_drop_receipt s t c : nf s (drop_receipt s t) c.
Proof.
  unfold drop_receipt. destruct (find_task t (tasks s)) as [x|]; [|nfe].
  destruct (tst x); try nfe. unfold release_publish. destruct (rxm_find _ _) as [c0|]; [|nfe].
  destruct (enc_packet _ _ _) as [s2 ok] eqn:E. destruct (enc_packet_core _ _ _ _ _ E) as (_&_&_&_&_&_&E7&_).
  change (nf s (drop_rx s2 c0) c). eapply nf_trans; [apply nf_eq; exact E7|apply nf_drop_rx].
Qed.

Lemma nf_wrb ks s on c : inv ks s -> ackch ks c -> nf s (do_wrb s on) c.
Proof.
  intros I A. unfold do_wrb. destruct on; [nfe|].
  set (s1 := set_wrb s false).
  assert (I1 : inv ks s1) by (apply inv_core with s; auto).
  set (s2 := match swait s1 with Some c0 => set_swait (fst (send s1 c0 0)) None | None => s1 end).
  assert (N2 : nf s s2 c).
  { unfold s2. destruct (swait s1) as [c0|] eqn:E; [|nfe]. rewrite send_eq. unfold nf. sk.
    apply nfill_weak, nfill_send. intros ->. apply (i_swait _ _ I) in E. revert E. apply ackch_ne; auto; discriminate. }
  assert (I2 : inv ks s2).
  { unfold s2. destruct (swait s1) as [c0|] eqn:E; auto. now apply inv_swait_send. }
  destruct (_ <? _); auto. eapply nf_trans; [exact N2|].
  destruct A as [A|A]; eapply nf_wake; eauto; discriminate.
Qed.

Lemma nf_epp s n c : nf s (fst (fst (encode_publish_payload s n))) c.
Proof. destruct (epp_cases s n) as [-> | C]; [apply nf_force_close|apply nf_eq; apply C]. Qed.

Lemma nf_chunk_payload s sm srx n c : nf s (fst (chunk_payload s sm srx n)) c.
Proof. unfold chunk_payload. pose proof (nf_epp s n c) as E. destruct (encode_publish_payload s n) as [[s1 st] more]. exact E. Qed.

Lemma nf_chunk_inprocess s sm srx inp n c : (c < length (chans s))%nat -> nf s (fst (chunk_inprocess s sm srx inp n)) c.
Proof.
  intros L. unfold chunk_inprocess. destruct inp; [|nfe]. destruct (is_closed s); [nfe|].
  destruct (wrb s); [|apply nf_chunk_payload]. unfold new_chan. sk. cbn [fst]. rewrite drop_tx_opt_eq. unfold nf. sk.
  apply nfill_weak. eapply nfill_trans; [apply nfill_app; eauto|]. destruct (swait s); [apply nfill_drop_tx|apply nfill_refl].
Qed.

Lemma nf_chunk_signal s sm n c : (c < length (chans s))%nat -> nf s (fst (chunk_signal s sm n)) c.
Proof. intros L. unfold chunk_signal. destruct (poll _ _); try nfe. now apply nf_chunk_inprocess. Qed.

Lemma nf_chunk s t n c : (c < length (chans s))%nat -> nf s (chunk_task s t n) c.
Proof.
  intros L. unfold chunk_task. destruct (find_task t (tasks s)) as [x|]; [|nfe].
  destruct (tstream x) as [sm|]; [|nfe]. destruct (negb _); [nfe|].
  assert (G : forall r : sink * stream, nf s (fst r) c -> nf s (let '(s1, sm1) := r in set_tasks s1 (put_task t (with_stream x sm1) (tasks s1))) c).
  { intros [s1 sm1] H. exact H. }
  apply G. destruct (pend sm) as [|m|c0 m].
  - destruct (s_rx sm); [now apply nf_chunk_signal|now apply nf_chunk_inprocess].
  - now apply nf_chunk_signal.
  - destruct (poll s c0); try nfe. apply nf_chunk_payload.
Qed.

Lemma nf_drop_pending s sm c : nf s (fst (drop_pending s sm)) c.
Proof. unfold drop_pending. destruct (pend sm); cbn [fst]; try nfe; apply nf_drop_rx. Qed.

Lemma nf_drop_chunk s t c : nf s (drop_chunk s t) c.
Proof.
  unfold drop_chunk. destruct (find_task t (tasks s)) as [x|]; [|nfe].
  destruct (tstream x) as [sm|]; [|nfe]. destruct (negb _); [nfe|].
  pose proof (nf_drop_pending s sm c) as E. destruct (pend sm); [nfe| |]; destruct (drop_pending s sm); exact E.
Qed.

Lemma nf_drop_stream s t c : nf s (drop_stream s t) c.
Proof.
  unfold drop_stream. destruct (find_task t (tasks s)) as [x|]; [|nfe].
  destruct (tstream x) as [sm|]; [|nfe]. destruct (negb _); [nfe|].
  pose proof (nf_drop_pending s sm c) as E. destruct (drop_pending s sm) as [s1 sm1]. cbn [fst] in E.
  set (s2 := if s_rx sm1 then drop_rx s1 (sg sm1) else s1).
  assert (E2 : nf s s2 c) by (unfold s2; destruct (s_rx sm1); [eapply nf_trans; [exact E|apply nf_drop_rx]|exact E]).
  destruct (_ && _); [|exact E2]. change (nf s (do_force_close s2) c). eapply nf_trans; [exact E2|apply nf_force_close].
Qed.

(* outside the processing of acknowledgements no acknowledgement channel is ever completed *)
Lemma step_nf ks s o c :
  inv ks s -> (forall l, o <> OAcks l) -> (c < length (chans s))%nat -> ackch ks c -> nf s (sink_step s o) c.
Proof.
  intros I NA L A. destruct o as [t k i z|t|t|l|t|t|on|n| | |n|t n|t|t| |t k i z|ip]; cbn [sink_step].
  - now apply nf_start with ks.
  - now apply nf_poll with ks.
  - now apply nf_drop with ks.
  - exfalso. now apply (NA l).
  - apply nf_release.
  - apply nf_drop_receipt.
  - now apply nf_wrb with ks.
  - unfold do_set_cap. eapply nf_trans; [|apply nf_eq; reflexivity]. destruct A as [A|A]; eapply nf_wake; eauto; discriminate.
  - apply nf_close.
  - apply nf_force_close.
  - now apply nf_eq.
  - now apply nf_chunk.
  - apply nf_drop_stream.
  - apply nf_drop_chunk.
  - nfe.
  - now apply nf_create with ks.
  - apply nf_eq, in_publish_chans.
Qed.

Lemma filled_by_send chs c0 v c :
  c_st (ch_get chs c) <> CFilled -> c_st (ch_get (fst (ch_send chs c0 v)) c) = CFilled ->
  c0 = c /\ c_val (ch_get (fst (ch_send chs c0 v)) c) = v /\ c_rx (ch_get chs c0) = true.
Proof.
  rewrite ch_send_get. destruct (Nat.eqb_spec c0 c) as [->|]; cbn [andb]; [|intros N F; contradiction].
  destruct (c_rx (ch_get chs c)); [auto|intros N F; contradiction].
Qed.

Lemma nf_filled s s' c : nf s s' c -> c_st (cg s' c) = CFilled -> c_st (cg s c) = CFilled /\ c_val (cg s' c) = c_val (cg s c).
Proof. unfold nf, nfill', same_tx, cg. intros H F. destruct (H F) as [A B]. split; congruence. Qed.

(* a single acknowledgement completes channel [c] only if it matches the head of the queue, whose sender is [c] *)
Lemma ack_one_fill ks s k id' c :
  inv ks s -> ackch ks c -> c_st (cg s c) <> CFilled -> c_st (cg (ack_one s k id') c) = CFilled ->
  io s = 0 /\ id' <> 0 /\ c_val (cg (ack_one s k id') c) = k /\ exists rest, inflight s = (id', Some c, k) :: rest.
Proof.
  intros I A NF. pose proof (kof_range ks c) as KR. 
  assert (L : (c < length (chans s))%nat) by (rewrite <- (i_len _ _ I); destruct A as [A|A]; eapply kof_range; eauto).
  assert (CONTRA : forall s', nf s s' c -> c_st (cg s' c) = CFilled -> False).
  { intros s' N F. apply (nf_filled s s' c N) in F as [F _]. contradiction. }
  unfold ack_one.
  destruct (N.eqb_spec (io s) 0) as [Hio|Hio]; cbn [negb]; [|intros F; contradiction].
  destruct ((k =? 0) || (5 <? k)); [intros F; contradiction|].
  destruct (N.eqb_spec id' 0) as [->|Hid]; [intros F; exfalso; exact (CONTRA _ (nf_close _ _ _) F)|].
  destruct (((k =? 4) || (k =? 5)) && negb (client s)); [intros F; contradiction|].
  unfold pkt_ack, pkt_ack_inner.
  destruct (inflight s) as [|[[i tx] tp] rest] eqn:HI.
  { intros F; exfalso; exact (CONTRA _ (nf_close _ _ _) F). }
  assert (DT : nf s (drop_tx_opt (set_inflight s rest) tx) c).
  { rewrite drop_tx_opt_eq. unfold nf. sk. apply nfill_weak. destruct tx; [apply nfill_drop_tx|apply nfill_refl]. }
  destruct (N.eqb_spec i id') as [->|NE]; cbn [negb].
  2:{ intros F; exfalso; exact (CONTRA _ (nf_trans _ _ _ _ DT (nf_close _ _ _)) F). }
  destruct (N.eqb_spec k tp) as [->|NE]; cbn [negb].
  2:{ intros F; exfalso; exact (CONTRA _ (nf_trans _ _ _ _ DT (nf_close _ _ _)) F). }
  destruct (i_inf _ _ I id' tx tp) as (_ & _ & c0 & -> & K0 & O0); [rewrite HI; now left|].
  assert (NW : ~ In c (waiters s)).
  { intros H. apply (i_ws _ _ I) in H as [H _]. destruct A as [A|A]; congruence. }
  (* every matched case: send on the head's channel, then channel operations that keep the sender side *)
  assert (KEY : forall s', nfill' (fst (ch_send (chans s) c0 tp)) (chans s') c ->
                 c_st (cg s' c) = CFilled ->
                 io s = 0 /\ id' <> 0 /\ c_val (cg s' c) = tp /\ exists rest0, (id', Some c0, tp) :: rest = (id', Some c, tp) :: rest0).
  { intros s' N F. unfold cg in F. destruct (N F) as [S1 S2].
    assert (F1 : c_st (ch_get (fst (ch_send (chans s) c0 tp)) c) = CFilled) by congruence.
    destruct (filled_by_send _ _ _ _ NF F1) as (-> & V & _). repeat split; auto; [unfold cg; congruence|eauto]. }
  assert (KEY2 : forall chs : list chan, nfill' (fst (ch_send (chans s) c0 tp)) (fst (ch_send (ch_drop_rx (chans s) c0) c0 tp)) c).
  { intros _. unfold nfill', same_tx. intros F. exfalso. revert F. rewrite ch_send_get.
    rewrite ch_drop_rx_get, Nat.eqb_refl. cbn [drx c_rx]. rewrite andb_false_r, ch_drop_rx_get.
    destruct (Nat.eqb c0 c); cbn [drx c_st]; exact NF. }
  destruct (N.eqb_spec tp 2) as [->|N2].
  { unfold new_chan, rxm_insert, send_opt. rewrite send_eq. cbn [fst snd]. sk. cbn [fst snd].
    intros F. apply KEY in F; auto.
    destruct (rxm_find id' (rxm s)); unfold drop_rx; sk.
    - eapply nfill'_trans; [apply nfill_weak, nfill_app; rewrite ch_send_length; exact L|apply nfill'_drop_rx].
    - apply nfill_weak, nfill_app. rewrite ch_send_length. exact L. }
  destruct (N.eqb_spec tp 3) as [->|N3].
  { unfold send_opt. rewrite send_eq. cbn [fst]. rewrite wake_eq. sk.
    destruct (rxm_find id' (rxm s)) as [cx|] eqn:RF; unfold drop_rx; sk; intros F; apply KEY in F; auto.
    - apply rxm_find_In in RF. destruct (i_rxm _ _ I id' cx RF) as (_ & _ & _ & R4 & _). specialize (R4 Hio).
      rewrite HI in R4. assert (cx = c0) as ->.
      { destruct R4 as [E|R4]; [now injection E as <-|]. exfalso. pose proof (i_infnd _ _ I) as ND. rewrite HI in ND.
        cbn [map fst3 fst] in ND. inversion ND as [|? ? N1 _]; subst. apply N1. apply in_map_iff. exists (id', Some cx, 3). auto. }
      eapply nfill'_trans; [apply KEY2; exact (chans s)|]. apply nfill_weak. apply nfill_wake; [apply I|exact NW].
    - apply nfill_weak. apply nfill_wake; [apply I|exact NW]. }
  unfold send_opt. rewrite send_eq. cbn [fst]. rewrite wake_eq. sk. intros F; apply KEY in F; auto.
  apply nfill_weak. apply nfill_wake; [apply I|exact NW].
Qed.

Lemma find_put_same t x l : find_task t (put_task t x l) = Some x.
Proof.
  induction l as [|[i y] r IH]; cbn [put_task find_task]; [now rewrite N.eqb_refl|].
  destruct (N.eqb_spec i t) as [->|N]; cbn [find_task]; [now rewrite N.eqb_refl|].
  destruct (t <? i); cbn [find_task]; [now rewrite N.eqb_refl|].
  destruct (N.eqb_spec i t); [contradiction|exact IH].
Qed.
Lemma find_put_other t t' x l : t' <> t -> find_task t' (put_task t x l) = find_task t' l.
Proof.
  intros N. induction l as [|[i y] r IH]; cbn [put_task find_task].
  - destruct (N.eqb_spec t t'); [congruence|reflexivity].
  - destruct (N.eqb_spec i t) as [->|N1]; cbn [find_task].
    + destruct (N.eqb_spec t t'); [congruence|reflexivity].
    + destruct (t <? i); cbn [find_task].
      * destruct (N.eqb_spec t t'); [congruence|reflexivity].
      * destruct (i =? t'); auto.
Qed.

Lemma ack_one_tasks s k id : tasks (ack_one s k id) = tasks s.
Proof.
  unfold ack_one. destruct (negb _); auto. destruct (_ || _); auto.
  assert (C : forall s0 r, tasks (do_close s0 r) = tasks s0).
  { intros s0 r. destruct (do_close_spec s0 r) as (s2 & -> & C). rewrite clear_queues_eq. sk. apply C. }
  destruct (id =? 0); [apply C|]. destruct (_ && _); auto. unfold pkt_ack, pkt_ack_inner.
  destruct (inflight s) as [|[[i tx] tp] rest]; [apply C|].
  assert (D : forall s0, tasks (drop_tx_opt s0 tx) = tasks s0) by (intros s0; rewrite drop_tx_opt_eq; reflexivity).
  assert (S : forall s0 v, tasks (send_opt s0 tx v) = tasks s0) by (intros s0 v; apply (send_opt_nc s0 tx v)).
  destruct (negb (i =? id)); [rewrite C, D; reflexivity|]. destruct (negb (k =? tp)); [rewrite C, D; reflexivity|].
  destruct (k =? 2).
  { unfold new_chan, rxm_insert. cbn [fst snd]. sk. cbn [fst snd]. destruct (rxm_find _ _); unfold drop_rx; sk; now rewrite S. }
  destruct (k =? 3).
  { rewrite wake_eq. sk. rewrite S. destruct (rxm_find _ _); unfold drop_rx; reflexivity. }
  rewrite wake_eq. sk. now rewrite S.
Qed.
Lemma ack_list_tasks l : forall s, tasks (ack_list s l) = tasks s.
Proof. induction l as [|[k id] r IH]; intros s; cbn [ack_list]; auto. now rewrite IH, ack_one_tasks. Qed.

(* ---------------------------------------------------------------- identifiers *)
Theorem ids_inv s : sink_inv s ->
  NoDup (map fst3 (inflight s)) /\ (forall e, In e (inflight s) -> fst3 e <> 0) /\
  (io s = 0 -> forall i, memN i (ids s) = true <-> In i (map fst3 (inflight s))).
Proof.
  intros [ks I]. split; [apply I|]. split; [|apply I].
  intros [[i tx] tp] H. apply (i_inf _ _ I i tx tp H).
Qed.

(* an explicit packet id that is still in flight is refused: the send fails with PacketIdInUse, nothing is queued *)
Lemma proceed_inuse s x :
  io s = 0 -> tid x <> 0 -> memN (tid x) (ids s) = true -> srem s = 0 ->
  (tk x = 7 -> match sig_of x with Some c => rx_alive s c = true | None => True end) ->
  snd (proceed s x) = TDone ST_IDINUSE /\ inflight (fst (proceed s x)) = inflight s.
Proof.
  intros I T M S A. unfold proceed, inner_subscribe, inner_publish, wait_response, wait_publish_response, stopped.
  destruct (N.eqb_spec (tid x) 0); [contradiction|]. rewrite I, S, M. cbn [N.eqb negb].
  replace (negb (0 =? 0)) with false by reflexivity.
  destruct ((tk x =? 3) || (tk x =? 4)); cbn [fst snd]; auto.
  destruct (N.eqb_spec (tk x) 7) as [E|E]; cbn [andb].
  - specialize (A E). destruct (sig_of x) as [c|].
    + rewrite A. cbn [negb fst snd]. split; auto. apply (send_opt_nc s (Some c) 0).
    + cbn [negb fst snd send_opt]. auto.
  - cbn [fst snd]. auto.
Qed.

Theorem explicit_id_in_use_refused s t k idq size :
  sink_inv s -> io s = 0 -> find_task t (tasks s) = None ->
  (k = 1 \/ k = 2 \/ k = 3 \/ k = 4 \/ k = 7) -> idq <> 0 -> In idq (map fst3 (inflight s)) ->
  srem s = 0 -> lenN (inflight s) < cap s -> wrb s = false ->
  (exists x, find_task t (tasks (start_task s t k idq size)) = Some x /\ tst x = TDone ST_IDINUSE) /\
  inflight (start_task s t k idq size) = inflight s.
Proof.
  intros SI Hio F K Hid Hin S L W. destruct (ids_inv s SI) as (_ & _ & IDS). apply (IDS Hio) in Hin.
  unfold start_task. rewrite F.
  replace ((k =? 0) || (8 <? k)) with false by (destruct K as [->|[->|[->|[->| ->]]]]; reflexivity).
  replace (k =? 6) with false by (destruct K as [->|[->|[->|[->| ->]]]]; reflexivity).
  replace (k =? 5) with false by (destruct K as [->|[->|[->|[->| ->]]]]; reflexivity).
  set (s0x := if k =? 7 then _ else _).
  assert (E : s0x = (if k =? 7 then set_chans s (chans s ++ [open_ch]) else s, new_task k idq size (length (chans s)))).
  { unfold s0x, new_task, new_chan. destruct (k =? 7); reflexivity. }
  rewrite E. clear E s0x. set (s0 := if k =? 7 then _ else s). set (x := new_task k idq size (length (chans s))).
  assert (Z : is_closed s0 = false) by (unfold is_closed, s0; destruct (k =? 7); sk; rewrite Hio; reflexivity).
  rewrite Z. unfold window_then_proceed, wait_readiness.
  assert (ZS : stopped s0 = false) by (unfold stopped, s0; destruct (k =? 7); sk; rewrite Hio; reflexivity).
  rewrite ZS.
  assert (R : (cap s0 <=? lenN (inflight s0)) || wrb s0 = false).
  { unfold s0. destruct (k =? 7); sk; rewrite W, orb_false_r; apply N.leb_gt; exact L. }
  rewrite R.
  assert (TX : tid x = idq /\ tk x = k) by (unfold x, new_task; destruct (k =? 7); auto). destruct TX as [TX TK].
  destruct (proceed_inuse s0 x) as [P1 P2].
  - unfold s0. destruct (k =? 7); exact Hio.
  - now rewrite TX.
  - rewrite TX. unfold s0. destruct (k =? 7); exact Hin.
  - unfold s0. destruct (k =? 7); exact S.
  - intros E7. rewrite TK in E7. apply N.eqb_eq in E7. unfold x, new_task, s0. rewrite E7.
    cbn [sig_of tstream sg]. unfold rx_alive. sk. now rewrite ch_get_app_new.
  - destruct (proceed s0 x) as [s1 st]. cbn [fst snd] in *. subst st. split.
    + eexists. sk. rewrite find_put_same. split; [reflexivity|]. reflexivity.
    + sk. rewrite (nc_inflight _ _ (drop_sig_nc s1 x)), P2. unfold s0. destruct (k =? 7); reflexivity.
Qed.

(* ---------------------------------------------------------------- an awaited channel is completed only by its own ack *)
(* the task awaits an acknowledgement on [c]: kind and id of the entry that can complete it *)
Definition awaits (x : task) (c : nat) (k id : N) : Prop :=
  (tst x = TAwaitAck c id /\ k = exp_kind x) \/ (tst x = TAwaitComp c /\ k = 3).

Lemma awaits_ackch ks s x c k id : st_ok ks s x -> awaits x c k id -> ackch ks c.
Proof. unfold st_ok, awaits, ackch. intros SO [[E _]|[E _]]; rewrite E in SO; destruct SO as (K & _); auto. Qed.

Lemma fill_in_acks l : forall s t x c k id,
  sink_inv s -> In (t, x) (tasks s) -> awaits x c k id ->
  c_st (cg s c) <> CFilled -> c_st (cg (ack_list s l) c) = CFilled ->
  exists l1 id' l2, l = l1 ++ (k, id') :: l2 /\ (forall i, tst x = TAwaitAck c i -> id' = i) /\
    io (ack_list s l1) = 0 /\ id' <> 0 /\ (exists rest, inflight (ack_list s l1) = (id', Some c, k) :: rest) /\
    c_val (cg (ack_list s l) c) = k.
Proof.
  induction l as [|[k0 id0] r IH]; intros s t x c k id SI H AW NF F; cbn [ack_list] in *; [contradiction|].
  destruct SI as [ks I]. destruct (i_task _ _ I t x H) as [SO MO].
  pose proof (awaits_ackch ks s x c k id SO AW) as AC.
  assert (SI1 : sink_inv (ack_one s k0 id0)) by (apply inv_ack_one; now exists ks).
  assert (H1 : In (t, x) (tasks (ack_one s k0 id0))) by (rewrite ack_one_tasks; exact H).
  destruct (c_st (cg (ack_one s k0 id0) c)) eqn:E1.
  1,3: destruct (IH (ack_one s k0 id0) t x c k id SI1 H1 AW) as (l1 & id' & l2 & -> & A1 & A2 & A3 & A4 & A5);
       [congruence|exact F|]; exists ((k0, id0) :: l1), id', l2; cbn [app ack_list]; auto 10.
  destruct (ack_one_fill ks s k0 id0 c I AC NF E1) as (Hio & Hid & V & rest & HI).
  (* the head entry belongs to this task: kind and id agree *)
  assert (KI : k0 = k /\ forall i, tst x = TAwaitAck c i -> id0 = i).
  { unfold st_ok, awaits in *. destruct AW as [[E ->]|[E ->]]; rewrite E in SO.
    - destruct SO as (_ & _ & S3 & _). destruct (S3 id0 k0) as [<- <-]; [rewrite HI; now left|].
      split; auto. intros i Ei. congruence.
    - destruct SO as (K & _). destruct (i_inf _ _ I id0 (Some c) k0) as (_ & _ & c' & Ec & Kc & _); [rewrite HI; now left|].
      injection Ec as <-. rewrite K in Kc. split; [|intros i Ei; congruence].
      destruct (N.eqb_spec k0 3); [auto|discriminate]. }
  destruct KI as [-> KI]. exists [], id0, r. cbn [app ack_list]. repeat split; auto; [eauto|].
  (* the value seen at the end is the one the task expects *)
  destruct (inv_ack_list r _ SI1) as [ks' I']. pose proof (ack_list_tasks r (ack_one s k id0)) as TL.
  assert (H' : In (t, x) (tasks (ack_list (ack_one s k id0) r))) by (rewrite TL; exact H1).
  destruct (i_task _ _ I' t x H') as [SO' _]. unfold st_ok, awaits in *.
  destruct AW as [[E Ek]|[E Ek]]; rewrite E in SO'.
  - destruct SO' as (_ & _ & _ & _ & S5 & _). rewrite (S5 F). auto.
  - destruct SO' as (_ & _ & _ & S4 & _). rewrite (S4 F). auto.
Qed.

Theorem ack_goes_to_head s o t x c k id :
  sink_inv s -> settled s -> find_task t (tasks s) = Some x -> awaits x c k id ->
  c_st (cg s c) <> CFilled -> c_st (cg (sink_op s o) c) = CFilled ->
  exists l1 id' l2, o = OAcks (l1 ++ (k, id') :: l2) /\ (forall i, tst x = TAwaitAck c i -> id' = i) /\ id' <> 0 /\
    let s1 := ack_list (set_wire s []) l1 in
    io s1 = 0 /\ (exists rest, inflight s1 = (id', Some c, k) :: rest) /\ c_val (cg (sink_op s o) c) = k.
Proof.
  intros SI ST F AW NF FL. destruct SI as [ks I].
  assert (H : In (t, x) (tasks s)) by (apply find_task_In; auto; apply I).
  destruct (i_task _ _ I t x H) as [SO MO]. pose proof (awaits_ackch ks s x c k id SO AW) as AC.
  set (s0 := set_wire s []).
  assert (I0 : inv ks s0) by (apply inv_core with s; auto).
  assert (CS : forall s1, cg (settle s1) c = cg s1 c) by (intros s1; unfold settle, cg; destruct (io s1 =? 1); reflexivity).
  unfold sink_op in FL. fold s0 in FL. rewrite CS in FL.
  destruct o as [t0 k0 i z|t0|t0|l|t0|t0|on|n| | |n|t0 n|t0|t0| |t0 k0 i z|ip];
    try (exfalso; apply NF; apply (nf_filled s0 _ c) in FL as [FL _]; [exact FL|];
         apply step_nf with ks; auto; [discriminate|rewrite <- (i_len _ _ I0); destruct AC as [A|A]; eapply kof_range; eauto]).
  2,3: exfalso; apply NF; exact FL.
  cbn [sink_step] in FL.
  destruct (fill_in_acks l s0 t x c k id) as (l1 & id' & l2 & -> & A1 & A2 & A3 & A4 & A5); auto; [now exists ks|].
  exists l1, id', l2. unfold sink_op. fold s0. rewrite CS. cbn [sink_step]. auto 10.
Qed.

(* ---------------------------------------------------------------- an acknowledgement that does not answer the head *)
Definition head_matches (s : sink) (k id : N) : bool :=
  match inflight s with (i, _, tp) :: _ => (i =? id) && (k =? tp) | [] => false end.
(* the dispatcher hands the acknowledgement to pkt_ack (open io, a known ack kind, not a SUBACK/UNSUBACK read by a server) *)
Definition ack_seen (s : sink) (k : N) : bool :=
  (io s =? 0) && negb ((k =? 0) || (5 <? k)) && negb (((k =? 4) || (k =? 5)) && negb (client s)).

Theorem mismatch_is_clean s k id :
  ack_seen s k = true -> (id =? 0) || negb (head_matches s k id) = true ->
  let s' := ack_one s k id in
  tasks s' = tasks s /\ io s' <> 0 /\ inflight s' = [] /\ waiters s' = [] /\
  forall c, c_st (cg s' c) = CFilled -> c_st (cg s c) = CFilled /\ c_val (cg s' c) = c_val (cg s c).
Proof.
  unfold ack_seen, head_matches. intros AS MM. apply andb_true_iff in AS as [AS A3]. apply andb_true_iff in AS as [A1 A2].
  cbv zeta. split; [apply ack_one_tasks|].
  assert (CL : forall s1 r, (forall c, nf s s1 c) ->
     io (do_close s1 r) <> 0 /\ inflight (do_close s1 r) = [] /\ waiters (do_close s1 r) = [] /\
     forall c, c_st (cg (do_close s1 r) c) = CFilled -> c_st (cg s c) = CFilled /\ c_val (cg (do_close s1 r) c) = c_val (cg s c)).
  { intros s1 r N. destruct (close_facts s1 r) as (_ & _ & _ & F4 & F5). split; auto. split; auto. split.
    - destruct (do_close_spec s1 r) as (s2 & -> & _). rewrite clear_queues_eq. reflexivity.
    - intros c. apply nf_filled. eapply nf_trans; [apply N|apply nf_close]. }
  unfold ack_one. apply N.eqb_eq in A1. rewrite A1. cbn [N.eqb negb]. replace (negb (0 =? 0)) with false by reflexivity.
  apply negb_true_iff in A2. rewrite A2. apply negb_true_iff in A3. rewrite A3.
  destruct (N.eqb_spec id 0) as [E|E]; [apply CL; intros c; apply nf_refl|]. cbn [orb] in MM.
  unfold pkt_ack, pkt_ack_inner. destruct (inflight s) as [|[[i tx] tp] rest]; [apply CL; intros c; apply nf_refl|].
  assert (DT : forall c, nf s (drop_tx_opt (set_inflight s rest) tx) c).
  { intros c. rewrite drop_tx_opt_eq. unfold nf. sk. apply nfill_weak. destruct tx; [apply nfill_drop_tx|apply nfill_refl]. }
  apply negb_true_iff, andb_false_iff in MM.
  destruct (i =? id); cbn [negb]; [|apply CL; exact DT].
  destruct (k =? tp); cbn [negb]; [|apply CL; exact DT]. destruct MM; discriminate.
Qed.

(* with the invariant: every send that was still waiting for its acknowledgement fails (its channel is cancelled) *)
Theorem mismatch_fails_pending s k id t x c i :
  sink_inv s -> ack_seen s k = true -> (id =? 0) || negb (head_matches s k id) = true ->
  find_task t (tasks s) = Some x -> tst x = TAwaitAck c i -> c_st (cg s c) = COpen ->
  c_st (cg (ack_one s k id) c) = CSenderDropped.
Proof.
  intros SI AS MM F E O. destruct (mismatch_is_clean s k id AS MM) as (T & Hio & HI & _ & NFL).
  destruct (inv_ack_one s k id SI) as [ks' I'].
  assert (H : In (t, x) (tasks (ack_one s k id))).
  { rewrite T. destruct SI as [ks I]. apply find_task_In; auto. apply I. }
  destruct (i_task _ _ I' t x H) as [SO _]. unfold st_ok in SO. rewrite E in SO.
  destruct SO as (_ & _ & _ & S4 & _).
  destruct (c_st (cg (ack_one s k id) c)) eqn:Q; auto.
  - specialize (S4 eq_refl). rewrite HI in S4. contradiction.
  - destruct (NFL c Q) as [Z _]. congruence.
Qed.

(* ---------------------------------------------------------------- an identifier is free again after the final ack *)
Theorem id_reusable_after_finish s k id :
  ack_seen s k = true -> id <> 0 -> head_matches s k id = true -> k <> 2 ->
  memN id (ids (ack_one s k id)) = false.
Proof.
  unfold ack_seen, head_matches. intros AS Hid HM K2. apply andb_true_iff in AS as [AS A3]. apply andb_true_iff in AS as [A1 A2].
  unfold ack_one. apply N.eqb_eq in A1. rewrite A1. replace (negb (0 =? 0)) with false by reflexivity.
  apply negb_true_iff in A2. rewrite A2. apply negb_true_iff in A3. rewrite A3.
  destruct (N.eqb_spec id 0); [contradiction|].
  unfold pkt_ack, pkt_ack_inner. destruct (inflight s) as [|[[i tx] tp] rest]; [discriminate|].
  apply andb_true_iff in HM as [H1 H2]. rewrite H1, H2. cbn [negb].
  destruct (N.eqb_spec k 2); [contradiction|].
  pose proof (fun s0 v => nc_ids _ _ (send_opt_nc s0 tx v)) as SN.
  destruct (k =? 3).
  - rewrite wake_eq. sk. rewrite SN. destruct (rxm_find _ _); unfold drop_rx; sk; apply memN_removeN.
  - rewrite wake_eq. sk. rewrite SN. sk. apply memN_removeN.
Qed.

(* ---------------------------------------------------------------- a peer that acknowledges in order *)
Fixpoint good_acks (s : sink) (l : list (N * N)) : bool :=
  match l with
  | [] => true
  | (k, id) :: r => (negb (io s =? 0) || head_matches s k id) && good_acks (ack_one s k id) r
  end.
Definition good_step (s : sink) (o : op) : bool :=
  match o with OAcks l => good_acks (set_wire s []) l | _ => true end.
Fixpoint good_peer (s : sink) (ops : list op) : bool :=
  match ops with [] => true | o :: r => good_step s o && good_peer (sink_op s o) r end.

Lemma pkt_ack_inner_ok s k id : head_matches s k id = true -> snd (pkt_ack_inner s k id) = true.
Proof.
  unfold head_matches, pkt_ack_inner. destruct (inflight s) as [|[[i tx] tp] rest]; [discriminate|].
  intros H. apply andb_true_iff in H as [-> ->]. cbn [negb]. destruct (k =? 2); [destruct (new_chan _); reflexivity|].
  destruct (k =? 3); reflexivity.
Qed.

Lemma good_ack_io s k id : sink_inv s -> negb (io s =? 0) || head_matches s k id = true -> io (ack_one s k id) = io s.
Proof.
  intros [ks I] G. unfold ack_one. destruct (N.eqb_spec (io s) 0) as [Hio|Hio]; cbn [negb orb] in *; auto.
  destruct (_ || _); auto.
  assert (Hid : id <> 0).
  { unfold head_matches in G. destruct (inflight s) as [|[[i tx] tp] rest] eqn:HI; [discriminate|].
    apply andb_true_iff in G as [G _]. apply N.eqb_eq in G. subst i.
    apply (i_inf _ _ I id tx tp). rewrite HI. now left. }
  destruct (N.eqb_spec id 0); [contradiction|]. destruct (_ && _); auto.
  unfold pkt_ack. pose proof (pkt_ack_inner_ok s k id G) as OK. pose proof (pkt_ack_inner_io s k id) as E.
  destruct (pkt_ack_inner s k id) as [s1 ok]. cbn [fst snd] in *. now rewrite OK.
Qed.

Lemma good_acks_io l : forall s, sink_inv s -> good_acks s l = true -> io (ack_list s l) = io s.
Proof.
  induction l as [|[k id] r IH]; intros s SI G; cbn [ack_list good_acks] in *; auto.
  apply andb_true_iff in G as [G1 G2]. rewrite IH; auto using inv_ack_one. now apply good_ack_io.
Qed.

Theorem good_peer_never_closes pre : forall s l post,
  sink_inv s -> settled s -> good_peer s (pre ++ OAcks l :: post) = true ->
  io (run_from s (pre ++ [OAcks l])) = io (run_from s pre).
Proof.
  induction pre as [|o r IH]; intros s l post SI ST G; cbn [app good_peer run_from fold_left] in *.
  - apply andb_true_iff in G as [G _]. cbn [good_step] in G.
    unfold sink_op. cbn [sink_step]. set (s0 := set_wire s []).
    assert (SI0 : sink_inv s0) by (destruct SI as [ks I]; exists ks; apply inv_core with s; auto).
    pose proof (good_acks_io l s0 SI0 G) as E. change (io s0) with (io s) in E.
    unfold settle. destruct (N.eqb_spec (io (ack_list s0 l)) 1) as [Z|Z]; auto.
    exfalso. rewrite E in Z. destruct ST; congruence.
  - apply andb_true_iff in G as [_ G]. destruct (inv_sink_op s o SI ST) as [SI1 ST1]. exact (IH _ l post SI1 ST1 G).
Qed.

(* once the entry of a send has left the queue of an open connection, its acknowledgement is there: the poll completes *)
Theorem acked_send_completes s t x c id :
  sink_inv s -> io s = 0 -> find_task t (tasks s) = Some x -> tst x = TAwaitAck c id ->
  (forall tp, ~ In (id, Some c, tp) (inflight s)) ->
  c_st (cg s c) = CFilled /\ c_val (cg s c) = exp_kind x /\
  exists x', find_task t (tasks (poll_task s t)) = Some x' /\
             tst x' = (if tk x =? 2 then TReceipt id else TDone ST_OK).
Proof.
  intros [ks I] Hio F E NI. assert (H : In (t, x) (tasks s)) by (apply find_task_In; auto; apply I).
  destruct (i_task _ _ I t x H) as [SO _]. unfold st_ok in SO. rewrite E in SO.
  destruct SO as (_ & _ & _ & S4 & S5 & S6).
  assert (FL : c_st (cg s c) = CFilled).
  { destruct (c_st (cg s c)) eqn:Q; auto; [exfalso; eapply NI; eauto|exfalso; now apply S6]. }
  split; auto. split; auto.
  unfold poll_task. rewrite F, E. unfold poll, ch_poll. fold (cg s c). rewrite FL.
  eexists. sk. rewrite find_put_same. split; reflexivity.
Qed.

Theorem completed_release_completes s t x c :
  sink_inv s -> io s = 0 -> find_task t (tasks s) = Some x -> tst x = TAwaitComp c ->
  (forall i, ~ In (i, Some c, 3) (inflight s)) ->
  exists x', find_task t (tasks (poll_task s t)) = Some x' /\ tst x' = TDone ST_OK.
Proof.
  intros [ks I] Hio F E NI. assert (H : In (t, x) (tasks s)) by (apply find_task_In; auto; apply I).
  destruct (i_task _ _ I t x H) as [SO _]. unfold st_ok in SO. rewrite E in SO.
  destruct SO as (_ & _ & S3 & S4 & S5).
  assert (FL : c_st (cg s c) = CFilled).
  { destruct (c_st (cg s c)) eqn:Q; auto; [exfalso; destruct (S3 eq_refl) as (i & Hi); eapply NI; eauto|exfalso; now apply S5]. }
  unfold poll_task. rewrite F, E. unfold poll, ch_poll. fold (cg s c). rewrite FL.
  eexists. sk. rewrite find_put_same. split; reflexivity.
Qed.

(* a task completes successfully only by finding its channel completed *)
Theorem ok_only_if_filled s t x c id x' :
  find_task t (tasks s) = Some x -> tst x = TAwaitAck c id ->
  find_task t (tasks (poll_task s t)) = Some x' -> (tst x' = TDone ST_OK \/ tst x' = TReceipt id) ->
  c_st (cg s c) = CFilled.
Proof.
  intros F E. unfold poll_task. rewrite F, E. unfold poll, ch_poll. fold (cg s c).
  destruct (c_st (cg s c)); auto; sk; rewrite find_put_same; intros Q; injection Q as <-; cbn [with_tst tst];
    intros [Z|Z]; discriminate.
Qed.

(* ================================================================ C14: concurrent exactly-once exchanges *)
Lemma rxm_find_del_other id j l : j <> id -> rxm_find j (rxm_del id l) = rxm_find j l.
Proof.
  intros N. induction l as [|[i c] r IH]; cbn [rxm_del rxm_find]; auto.
  destruct (N.eqb_spec i id) as [->|N1].
  - destruct (N.eqb_spec id j); [congruence|exact IH].
  - cbn [rxm_find]. destruct (i =? j); auto.
Qed.
Lemma rxm_find_del_same id l : rxm_find id (rxm_del id l) = None.
Proof.
  induction l as [|[i c] r IH]; cbn [rxm_del rxm_find]; auto.
  destruct (N.eqb_spec i id) as [->|N1]; auto. cbn [rxm_find]. destruct (N.eqb_spec i id); [contradiction|exact IH].
Qed.

(* what the release of receipt [id] (its handle being released or merely dropped) does to the wire *)
Theorem release_writes_own_pubrel s t x id c :
  find_task t (tasks s) = Some x -> tst x = TReceipt id -> rxm_find id (rxm s) = Some c ->
  wire (release_task s t) = (if (io s =? 0) && (crem s =? 0) then wire s ++ [W_PUBREL; id] else wire s) /\
  wire (drop_receipt s t) = (if (io s =? 0) && (crem s =? 0) then wire s ++ [W_PUBREL; id] else wire s).
Proof.
  intros F E R. unfold release_task, drop_receipt, release_publish. rewrite F, E, R.
  unfold enc_packet, add_wire. sk. destruct (io s =? 0); cbn [andb].
  - destruct (crem s =? 0); cbn [negb]; sk.
    + split; [|reflexivity]. unfold poll. sk. destruct (ch_poll _ _); reflexivity.
    + split; reflexivity.
  - split; [|reflexivity]. unfold poll. sk. destruct (ch_poll _ _); reflexivity.
Qed.

(* releasing / dropping a receipt touches nothing that belongs to another exchange *)
Definition untouched (s s' : sink) (t id : N) : Prop :=
  (forall t', t' <> t -> find_task t' (tasks s') = find_task t' (tasks s)) /\
  (forall j, j <> id -> rxm_find j (rxm s') = rxm_find j (rxm s)) /\
  inflight s' = inflight s /\ ids s' = ids s /\ waiters s' = waiters s /\ io s' = io s /\
  (forall c', rxm_find id (rxm s) <> Some c' -> cg s' c' = cg s c').

Theorem release_no_cross_talk s t x id :
  find_task t (tasks s) = Some x -> tst x = TReceipt id ->
  untouched s (release_task s t) t id /\ untouched s (drop_receipt s t) t id.
Proof.
  intros F E. unfold release_task, drop_receipt, release_publish. rewrite F, E.
  assert (PT : forall s1 y, tasks s1 = tasks s -> forall t', t' <> t ->
     find_task t' (tasks (set_tasks s1 (put_task t y (tasks s1)))) = find_task t' (tasks s)).
  { intros s1 y T t' N. sk. rewrite T. now apply find_put_other. }
  destruct (rxm_find id (rxm s)) as [c|] eqn:R.
  2:{ unfold untouched. sk. split; repeat split; auto; intros; apply find_put_other; auto. }
  destruct (enc_packet (set_rxm s (rxm_del id (rxm s))) W_PUBREL id) as [s2 ok] eqn:EP.
  destruct (enc_packet_core _ _ _ _ _ EP) as (E1 & E2 & E3 & E4 & E5 & E6 & E7 & E8). sk in E1. sk in E2. sk in E3. sk in E4.
  sk in E6. sk in E7. sk in E8.
  assert (DR : forall c', Some c <> Some c' -> cg (drop_rx s2 c) c' = cg s c').
  { intros c' N. rewrite cg_drop_rx. destruct (Nat.eqb_spec c c') as [->|]; [congruence|]. unfold cg. now rewrite E7. }
  assert (SM : forall c', cg s2 c' = cg s c') by (intros c'; unfold cg; now rewrite E7).
  assert (RX : forall j, j <> id -> rxm_find j (rxm s2) = rxm_find j (rxm s)).
  { intros j N. rewrite E4. now apply rxm_find_del_other. }
  assert (UA : forall y, untouched s (set_tasks s2 (put_task t y (tasks s2))) t id).
  { intros y. unfold untouched. sk. split; [intros; apply PT; auto|]. split; [exact RX|]. repeat split; auto.
    intros c' _. apply SM. }
  assert (UB : forall y, untouched s (set_tasks (drop_rx s2 c) (put_task t y (tasks (drop_rx s2 c)))) t id).
  { intros y. unfold untouched. split; [intros; apply (PT (drop_rx s2 c)); auto|]. split; [exact RX|]. repeat split; auto.
    intros c' N. change (cg (drop_rx s2 c) c' = cg s c'). apply DR. now rewrite <- R. }
  split.
  - destruct ok; [destruct (poll s2 c)|]; first [apply UA|apply UB].
  - apply UB.
Qed.

Theorem release_leaves_others s t x id s' :
  sink_inv s -> find_task t (tasks s) = Some x -> tst x = TReceipt id ->
  s' = release_task s t \/ s' = drop_receipt s t ->
  (forall t' x' c', t' <> t -> find_task t' (tasks s) = Some x' ->
     find_task t' (tasks s') = Some x' /\ (In c' (trx x') -> cg s' c' = cg s c')) /\
  (forall j c', j <> id -> rxm_find j (rxm s) = Some c' -> rxm_find j (rxm s') = Some c' /\ cg s' c' = cg s c').
Proof.
  intros [ks I] F E S'. destruct (release_no_cross_talk s t x id F E) as [U1 U2].
  assert (U : untouched s s' t id) by (destruct S' as [-> | ->]; auto). clear U1 U2.
  destruct U as (U1 & U2 & _ & _ & _ & _ & U7). split.
  - intros t' x' c' N F'. split; [now rewrite U1|]. intros Hc. apply U7. intros R. apply rxm_find_In in R.
    assert (H' : In (t', x') (tasks s)) by (apply find_task_In; auto; apply I).
    destruct (i_rxm _ _ I id c' R) as (_ & _ & _ & _ & _ & R6). eapply R6; eauto.
  - intros j c' N R. split; [now rewrite U2|]. apply U7. intros R'. apply rxm_find_In in R, R'.
    apply N. exact (NoDup_map_inv_snd _ _ _ _ (i_rxmc _ _ I) R R').
Qed.

(* the release awaits the channel stored under its own identifier by the PUBREC of that identifier; that channel is
   the sender side of the queue entry (id, _, Complete), so (C06_ack_goes_to_head) only PUBCOMP(id) completes it *)
Theorem release_waits_own_pubcomp s t x id c :
  sink_inv s -> io s = 0 -> crem s = 0 -> find_task t (tasks s) = Some x -> tst x = TReceipt id ->
  rxm_find id (rxm s) = Some c ->
  In (id, Some c, 3) (inflight s) /\ c_st (cg s c) = COpen /\
  let s' := release_task s t in
  (exists x', find_task t (tasks s') = Some x' /\ tst x' = TAwaitComp c) /\
  In (id, Some c, 3) (inflight s') /\ rxm_find id (rxm s') = None.
Proof.
  intros [ks I] Hio Hc F E R. pose proof (rxm_find_In _ _ _ R) as RI.
  destruct (i_rxm _ _ I id c RI) as (_ & _ & _ & R4 & _). specialize (R4 Hio).
  destruct (i_inf _ _ I id (Some c) 3 R4) as (_ & _ & c' & Ec & _ & O). injection Ec as <-.
  split; auto. split; auto. cbv zeta.
  unfold release_task, release_publish. rewrite F, E, R. unfold enc_packet, add_wire. sk. rewrite Hio, Hc. cbn [N.eqb negb].
  replace (0 =? 0) with true by reflexivity. cbn [negb]. unfold poll, ch_poll. sk. fold (cg s c). rewrite O. sk.
  split; [eexists; rewrite find_put_same; split; reflexivity|]. split; auto. apply rxm_find_del_same.
Qed.

(* ... and PUBCOMP(id), arriving when that entry heads the queue, completes exactly this release *)
Theorem completes_on_own_pubcomp s t x c id rest :
  sink_inv s -> io s = 0 -> find_task t (tasks s) = Some x -> tst x = TAwaitComp c ->
  inflight s = (id, Some c, 3) :: rest ->
  let s' := ack_one s 3 id in
  cg s' c = mkChan CFilled 3 true /\ io s' = 0 /\ inflight s' = rest /\ memN id (ids s') = false /\
  exists x', find_task t (tasks (poll_task s' t)) = Some x' /\ tst x' = TDone ST_OK.
Proof.
  intros [ks I] Hio F E HI. assert (H : In (t, x) (tasks s)) by (apply find_task_In; auto; apply I).
  destruct (i_task _ _ I t x H) as [SO _]. unfold st_ok in SO. rewrite E in SO. destruct SO as (K & RX & _).
  destruct (i_inf _ _ I id (Some c) 3) as (Hid & _); [rewrite HI; now left|].
  assert (RN : rxm_find id (rxm s) = None).
  { destruct (rxm_find id (rxm s)) as [c0|] eqn:R; auto. exfalso. apply rxm_find_In in R.
    destruct (i_rxm _ _ I id c0 R) as (_ & _ & _ & R4 & _ & R6). specialize (R4 Hio). rewrite HI in R4.
    destruct R4 as [Q|R4].
    - injection Q as <-. apply (R6 t x H). unfold trx. rewrite E. now left.
    - pose proof (i_infnd _ _ I) as ND. rewrite HI in ND. cbn [map fst3 fst] in ND. inversion ND as [|? ? N1 _]; subst.
      apply N1. apply in_map_iff. exists (id, Some c0, 3). auto. }
  assert (NW : ~ In c (waiters s)).
  { intros W. apply (i_ws _ _ I) in W as [W _]. congruence. }
  cbv zeta. unfold ack_one. rewrite Hio. cbn [N.eqb negb orb]. replace (negb (0 =? 0)) with false by reflexivity.
  replace ((3 =? 0) || (5 <? 3)) with false by reflexivity.
  destruct (N.eqb_spec id 0); [contradiction|]. replace (((3 =? 4) || (3 =? 5)) && negb (client s)) with false by reflexivity.
  unfold pkt_ack, pkt_ack_inner. rewrite HI, !N.eqb_refl. cbn [negb]. replace (3 =? 2) with false by reflexivity.
  sk. rewrite RN. unfold send_opt. rewrite send_eq, wake_eq.
  assert (CG : cg (set_waiters (set_chans (set_chans (set_ids (set_inflight s rest) (removeN id (ids s)))
                 (fst (ch_send (chans s) c 3))) (fst (wake_go (fst (ch_send (chans s) c 3)) 1 (waiters s))))
                 (snd (wake_go (fst (ch_send (chans s) c 3)) 1 (waiters s)))) c = mkChan CFilled 3 true).
  { unfold cg. sk. destruct (wake_go_spec (waiters s) (fst (ch_send (chans s) c 3)) 1 (i_wsnd _ _ I)) as (p & w & W1 & W2 & W3 & _).
    rewrite W3. destruct (existsb (Nat.eqb c) w) eqn:Q.
    - apply existsb_eqb_In in Q. apply W2 in Q as [Q _]. exfalso. apply NW. rewrite W1. apply in_or_app. now left.
    - rewrite ch_send_get, Nat.eqb_refl. fold (cg s c). now rewrite RX. }
  sk. split; [exact CG|]. split; auto. split; auto. split; [apply memN_removeN|].
  unfold poll_task. sk. rewrite F, E. unfold poll, ch_poll. unfold cg in CG. sk in CG. sk. rewrite CG. cbn [c_st].
  eexists. sk. rewrite find_put_same. split; reflexivity.
Qed.

(* ================================================================ C13: no sender stays blocked *)
(* a channel never re-opens and a completed channel stays completed *)
Definition cmc (a b : chan) : Prop := (c_st b = COpen -> c_st a = COpen) /\ (c_st a = CFilled -> c_st b = CFilled).
Lemma cmc_refl a : cmc a a. Proof. split; auto. Qed.
Lemma cmc_trans a b c : cmc a b -> cmc b c -> cmc a c. Proof. unfold cmc. intuition. Qed.
Lemma cmc_dtx a : cmc a (dtx a).
Proof. unfold cmc, dtx. destruct (c_st a) eqn:E; cbn [c_st]; rewrite ?E; split; auto; discriminate. Qed.
Lemma cmc_drx a : cmc a (drx a). Proof. unfold cmc, drx. cbn [c_st]. auto. Qed.
Lemma cmc_filled a v : cmc a (mkChan CFilled v true). Proof. unfold cmc. cbn [c_st]. split; [discriminate|auto]. Qed.

Definition cmx (chs chs' : list chan) (c : nat) : Prop := cmc (ch_get chs c) (ch_get chs' c).
Lemma cmx_refl chs c : cmx chs chs c. Proof. apply cmc_refl. Qed.
Lemma cmx_trans a b d c : cmx a b c -> cmx b d c -> cmx a d c. Proof. apply cmc_trans. Qed.
Lemma cmx_eq a b c : ch_get b c = ch_get a c -> cmx a b c. Proof. unfold cmx. intros ->. apply cmc_refl. Qed.
Lemma cmx_drop_tx chs c0 c : cmx chs (ch_drop_tx chs c0) c.
Proof. unfold cmx. rewrite ch_drop_tx_get. destruct (Nat.eqb c0 c); [apply cmc_dtx|apply cmc_refl]. Qed.
Lemma cmx_drop_rx chs c0 c : cmx chs (ch_drop_rx chs c0) c.
Proof. unfold cmx. rewrite ch_drop_rx_get. destruct (Nat.eqb c0 c); [apply cmc_drx|apply cmc_refl]. Qed.
Lemma cmx_send chs c0 v c : cmx chs (fst (ch_send chs c0 v)) c.
Proof. unfold cmx. rewrite ch_send_get. destruct (_ && _); [apply cmc_filled|apply cmc_refl]. Qed.
Lemma cmx_fold_dtx l : forall chs c, cmx chs (fold_left ch_drop_tx l chs) c.
Proof. induction l as [|c0 l IH]; intros chs c; cbn [fold_left]; [apply cmx_refl|]. eapply cmx_trans; [apply cmx_drop_tx|apply IH]. Qed.
Lemma cmx_app chs x c : (c < length chs)%nat -> cmx chs (chs ++ [x]) c.
Proof. intros L. apply cmx_eq. now apply ch_get_app_old. Qed.
Lemma cmx_wake ws : forall chs n c, cmx chs (fst (wake_go chs n ws)) c.
Proof.
  induction ws as [|c0 r IH]; intros chs n c; cbn [wake_go fst]; [apply cmx_refl|].
  destruct (n =? 0); [apply cmx_refl|]. destruct (ch_send chs c0 0) as [chs1 ok] eqn:E.
  assert (C1 : cmx chs chs1 c) by (rewrite <- (f_equal fst E : fst (ch_send chs c0 0) = chs1); apply cmx_send).
  destruct ok; eapply cmx_trans; eauto.
Qed.
Lemma cmx_sig x chs chs' c : sig_only x chs chs' -> sig_of x <> Some c -> cmx chs chs' c.
Proof. intros [_ G] N. apply cmx_eq. auto. Qed.

Definition cm (s s' : sink) (c : nat) : Prop := cmx (chans s) (chans s') c.
Lemma cm_refl s c : cm s s c. Proof. apply cmx_refl. Qed.
Lemma cm_trans a b d c : cm a b c -> cm b d c -> cm a d c. Proof. apply cmx_trans. Qed.
Lemma cm_eq s s' c : chans s' = chans s -> cm s s' c. Proof. unfold cm. intros ->. apply cmx_refl. Qed.
Ltac cme := first [apply cm_refl | apply cm_eq; reflexivity].

Lemma cm_send_res ks s x s1 st c :
  send_res s x s1 st -> sm_ok ks s x -> (c < length (chans s))%nat -> kof ks c <> Some KS -> cm s s1 c.
Proof.
  intros R M L K. assert (NS : sig_of x <> Some c).
  { unfold sig_of, sm_ok in *. destruct (tstream x) as [sm|]; [|discriminate]. destruct M as [M _].
    intros E. injection E as E. subst c. contradiction. }
  unfold cm. destruct R as [s1 e N | s1 Hio CW P | s1 id Hio L' W P].
  - destruct N as (_&_&_&_&_&_&_&_&_&_&_&_&_&_&_&N). eapply cmx_sig; eauto.
  - unfold parked in P. subst. sk. now apply cmx_app.
  - destruct P as (_&_&_&_&_&_&_&_&_&_&_&_&_&P&_). eapply cmx_trans; [apply cmx_app; eauto|eapply cmx_sig; eauto].
Qed.

Lemma cm_clear s c : cm s (clear_queues s) c.
Proof. rewrite clear_queues_eq. unfold cm. sk. unfold cleared. apply cmx_fold_dtx. Qed.
Lemma cm_close s r c : cm s (do_close s r) c.
Proof. destruct (do_close_spec s r) as (s2 & -> & C). eapply cm_trans; [|apply cm_clear]. apply cm_eq. apply C. Qed.
Lemma cm_force_close s c : cm s (do_force_close s) c.
Proof. unfold do_force_close. eapply cm_trans; [|apply cm_clear]. now apply cm_eq. Qed.
Lemma cm_drop_rx s c0 c : cm s (drop_rx s c0) c. Proof. unfold cm, drop_rx. sk. apply cmx_drop_rx. Qed.
Lemma cm_wake s n c : cm s (wake s n) c. Proof. rewrite wake_eq. unfold cm. sk. apply cmx_wake. Qed.
Lemma cm_drop_sig ks s s0 x c k : sm_ok ks s0 x -> kof ks c = Some k -> k <> KS -> cm s (drop_sig s x) c.
Proof.
  intros M K N. unfold cm. eapply cmx_sig; [apply drop_sig_chans|].
  unfold sig_of, sm_ok in *. destruct (tstream x) as [sm|]; [|discriminate]. destruct M as [M _].
  intros E. injection E as E. subst c. congruence.
Qed.

Lemma cm_start0 ks s k idq size s1 st c :
  inv ks s -> (c < length (chans s))%nat -> kof ks c = Some KW ->
  send_res (if k =? 7 then set_chans s (chans s ++ [open_ch]) else s) (new_task k idq size (length (chans s))) s1 st ->
  cm s s1 c.
Proof.
  intros I L A R. pose proof (i_len _ _ I) as LK.
  assert (L0 : (c < length (chans (if (k =? 7)%N then set_chans s (chans s ++ [open_ch]) else s)))%nat).
  { destruct (k =? 7); sk; auto. rewrite app_length. lia. }
  assert (K0 : kof (if k =? 7 then ks ++ [KS] else ks) c <> Some KS).
  { destruct (k =? 7); [|congruence]. unfold kof in *. rewrite nth_error_app1 by lia. congruence. }
  pose proof (cm_send_res _ _ _ _ _ c R (new_task_sm ks s k idq size LK) L0 K0) as N.
  eapply cm_trans; [|exact N].
  destruct (k =? 7); [|apply cm_refl]. unfold cm. sk. now apply cmx_app.
Qed.

Lemma cm_start ks s t k idq size c :
  inv ks s -> (c < length (chans s))%nat -> kof ks c = Some KW -> cm s (start_task s t k idq size) c.
Proof.
  intros I L A. destruct (find_task t (tasks s)) eqn:F; [unfold start_task; rewrite F; apply cm_refl|].
  destruct (start_task_spec s t k idq size F) as [ | s1 e K P | e K | s1 K Hio CW P | s0 x s1 st K E0 EX R].
  - apply cm_refl.
  - apply cm_eq. sk. apply P.
  - now apply cm_eq.
  - unfold parked in P. subst. unfold cm. sk. now apply cmx_app.
  - subst. change (cm s s1 c). eapply cm_start0; eauto.
Qed.

Lemma cm_create ks s t k idq size c :
  inv ks s -> (c < length (chans s))%nat -> kof ks c = Some KW -> cm s (create_task s t k idq size) c.
Proof.
  intros I L A. destruct (find_task t (tasks s)) eqn:F; [unfold create_task; rewrite F; apply cm_refl|].
  destruct (create_task_spec s t k idq size F) as [ | K | e K | s1 K Hio CW P | K | s0 x s1 st K E0 EX R].
  - apply cm_refl.
  - now apply cm_start with ks.
  - now apply cm_eq.
  - unfold parked in P. subst. unfold cm. sk. now apply cmx_app.
  - now apply cm_eq.
  - subst. change (cm s s1 c). eapply cm_start0; eauto.
Qed.

Lemma cm_poll ks s t c :
  inv ks s -> (c < length (chans s))%nat -> kof ks c = Some KW -> cm s (poll_task s t) c.
Proof.
  intros I L A. destruct (find_task t (tasks s)) as [x|] eqn:F; [|unfold poll_task; rewrite F; apply cm_refl].
  assert (H : In (t, x) (tasks s)) by (apply find_task_In; auto; apply I).
  destruct (i_task _ _ I t x H) as [SO MO].
  destruct (poll_task_spec s t x F) as (s1 & st & R & ->). change (cm s s1 c).
  assert (NK : kof ks c <> Some KS) by congruence.
  assert (SR : forall s2 st2, send_res s x s2 st2 -> cm s s2 c) by (intros s2 st2 R2; exact (cm_send_res ks s x s2 st2 c R2 MO L NK)).
  destruct R; try apply cm_refl; try (eapply SR; eassumption); apply (SR s1 (TDone 0)); now apply SE_fail.
Qed.

Lemma cm_drop ks s t c : inv ks s -> kof ks c = Some KW -> cm s (drop_task s t) c.
Proof.
  intros I A. unfold drop_task. destruct (find_task t (tasks s)) as [x|] eqn:F; [|apply cm_refl].
  assert (H : In (t, x) (tasks s)) by (apply find_task_In; auto; apply I).
  destruct (i_task _ _ I t x H) as [SO MO].
  destruct (tst x) as [c0|c0 id|id|c0|c0|e| | |e]; try apply cm_refl; cbv zeta;
    try (change (cm s (drop_rx s c0) c); apply cm_drop_rx); try (apply cm_eq; reflexivity).
  change (cm s (drop_sig (drop_rx s c0) x) c). eapply cm_trans; [apply cm_drop_rx|].
  eapply cm_drop_sig; eauto; discriminate.
Qed.

Lemma cm_release s t c : cm s (release_task s t) c.
Proof.
  unfold release_task. destruct (find_task t (tasks s)) as [x|]; [|cme].
  destruct (tst x); try cme. unfold release_publish. destruct (rxm_find _ _) as [c0|]; [|cme].
  destruct (enc_packet _ _ _) as [s2 ok] eqn:E. destruct (enc_packet_core _ _ _ _ _ E) as (_&_&_&_&_&_&E7&_).
  destruct ok; [destruct (poll s2 c0)|]; try (apply cm_eq; exact E7).
  change (cm s (drop_rx s2 c0) c). eapply cm_trans; [apply cm_eq; exact E7|apply cm_drop_rx].
Qed.

Lemma cm_drop_receipt s t c : cm s (drop_receipt s t) c.
Proof.
  unfold drop_receipt. destruct (find_task t (tasks s)) as [x|]; [|cme].
  destruct (tst x); try cme. unfold release_publish. destruct (rxm_find _ _) as [c0|]; [|cme].
  destruct (enc_packet _ _ _) as [s2 ok] eqn:E. destruct (enc_packet_core _ _ _ _ _ E) as (_&_&_&_&_&_&E7&_).
  change (cm s (drop_rx s2 c0) c). eapply cm_trans; [apply cm_eq; exact E7|apply cm_drop_rx].
Qed.

Lemma cm_wrb s on c : cm s (do_wrb s on) c.
Proof.
  unfold do_wrb. destruct on; [cme|].
  set (s1 := set_wrb s false).
  set (s2 := match swait s1 with Some c0 => set_swait (fst (send s1 c0 0)) None | None => s1 end).
  assert (N2 : cm s s2 c).
  { unfold s2. destruct (swait s1) as [c0|] eqn:E; [|cme]. rewrite send_eq. unfold cm. sk. apply cmx_send. }
  destruct (_ <? _); auto. eapply cm_trans; [exact N2|apply cm_wake].
Qed.

Lemma cm_epp s n c : cm s (fst (fst (encode_publish_payload s n))) c.
Proof. destruct (epp_cases s n) as [-> | C]; [apply cm_force_close|apply cm_eq; apply C]. Qed.
Lemma cm_chunk_payload s sm srx n c : cm s (fst (chunk_payload s sm srx n)) c.
Proof. unfold chunk_payload. pose proof (cm_epp s n c) as E. destruct (encode_publish_payload s n) as [[s1 st] more]. exact E. Qed.
Lemma cm_chunk_inprocess s sm srx inp n c : (c < length (chans s))%nat -> cm s (fst (chunk_inprocess s sm srx inp n)) c.
Proof.
  intros L. unfold chunk_inprocess. destruct inp; [|cme]. destruct (is_closed s); [cme|].
  destruct (wrb s); [|apply cm_chunk_payload]. unfold new_chan. sk. cbn [fst]. rewrite drop_tx_opt_eq. unfold cm. sk.
  eapply cmx_trans; [apply cmx_app; eauto|]. destruct (swait s); [apply cmx_drop_tx|apply cmx_refl].
Qed.
Lemma cm_chunk_signal s sm n c : (c < length (chans s))%nat -> cm s (fst (chunk_signal s sm n)) c.
Proof. intros L. unfold chunk_signal. destruct (poll _ _); try cme. now apply cm_chunk_inprocess. Qed.
Lemma cm_chunk s t n c : (c < length (chans s))%nat -> cm s (chunk_task s t n) c.
Proof.
  intros L. unfold chunk_task. destruct (find_task t (tasks s)) as [x|]; [|cme].
  destruct (tstream x) as [sm|]; [|cme]. destruct (negb _); [cme|].
  assert (G : forall r : sink * stream, cm s (fst r) c -> cm s (let '(s1, sm1) := r in set_tasks s1 (put_task t (with_stream x sm1) (tasks s1))) c).
  { intros [s1 sm1] H. exact H. }
  apply G. destruct (pend sm) as [|m|c0 m].
  - destruct (s_rx sm); [now apply cm_chunk_signal|now apply cm_chunk_inprocess].
  - now apply cm_chunk_signal.
  - destruct (poll s c0); try cme. apply cm_chunk_payload.
Qed.
Lemma cm_drop_pending s sm c : cm s (fst (drop_pending s sm)) c.
Proof. unfold drop_pending. destruct (pend sm); cbn [fst]; try cme; apply cm_drop_rx. Qed.
Lemma cm_drop_chunk s t c : cm s (drop_chunk s t) c.
Proof.
  unfold drop_chunk. destruct (find_task t (tasks s)) as [x|]; [|cme].
  destruct (tstream x) as [sm|]; [|cme]. destruct (negb _); [cme|].
  pose proof (cm_drop_pending s sm c) as E. destruct (pend sm); [cme| |]; destruct (drop_pending s sm); exact E.
Qed.
Lemma cm_drop_stream s t c : cm s (drop_stream s t) c.
Proof.
  unfold drop_stream. destruct (find_task t (tasks s)) as [x|]; [|cme].
  destruct (tstream x) as [sm|]; [|cme]. destruct (negb _); [cme|].
  pose proof (cm_drop_pending s sm c) as E. destruct (drop_pending s sm) as [s1 sm1]. cbn [fst] in E.
  set (s2 := if s_rx sm1 then drop_rx s1 (sg sm1) else s1).
  assert (E2 : cm s s2 c) by (unfold s2; destruct (s_rx sm1); [eapply cm_trans; [exact E|apply cm_drop_rx]|exact E]).
  destruct (_ && _); [|exact E2]. change (cm s (do_force_close s2) c). eapply cm_trans; [exact E2|apply cm_force_close].
Qed.

Lemma cm_ack_one s k id c : (c < length (chans s))%nat -> cm s (ack_one s k id) c.
Proof.
  intros L. unfold ack_one. destruct (negb _); [cme|]. destruct (_ || _); [cme|].
  destruct (id =? 0); [apply cm_close|]. destruct (_ && _); [cme|]. unfold pkt_ack, pkt_ack_inner.
  destruct (inflight s) as [|[[i tx] tp] rest]; [apply cm_close|].
  assert (DT : cm s (drop_tx_opt (set_inflight s rest) tx) c).
  { rewrite drop_tx_opt_eq. unfold cm. sk. destruct tx; [apply cmx_drop_tx|apply cmx_refl]. }
  assert (SD : forall s0 v, chans s0 = chans s -> cm s (send_opt s0 tx v) c).
  { intros s0 v E. unfold send_opt. destruct tx; [|now apply cm_eq]. rewrite send_eq. unfold cm. sk. rewrite E. apply cmx_send. }
  destruct (negb (i =? id)); [eapply cm_trans; [exact DT|apply cm_close]|].
  destruct (negb (k =? tp)); [eapply cm_trans; [exact DT|apply cm_close]|].
  destruct (k =? 2).
  { unfold new_chan, rxm_insert. cbn [fst snd]. sk. cbn [fst snd].
    pose proof (SD (set_inflight s rest) k eq_refl) as S1. set (s1 := send_opt (set_inflight s rest) tx k) in *.
    assert (L1 : (c < length (chans s1))%nat).
    { unfold s1, send_opt. destruct tx; [rewrite send_eq; sk; now rewrite ch_send_length|exact L]. }
    destruct (rxm_find _ _); unfold drop_rx; sk; eapply cm_trans; try exact S1; unfold cm; sk.
    - eapply cmx_trans; [apply cmx_app; exact L1|apply cmx_drop_rx].
    - apply cmx_app; exact L1. }
  destruct (k =? 3).
  { eapply cm_trans; [|apply cm_wake]. destruct (rxm_find _ _) as [c0|]; unfold drop_rx; sk.
    - unfold send_opt. destruct tx; [|unfold cm; sk; apply cmx_drop_rx]. rewrite send_eq. unfold cm. sk.
      eapply cmx_trans; [apply cmx_drop_rx|apply cmx_send].
    - now apply SD. }
  eapply cm_trans; [|apply cm_wake]. now apply SD.
Qed.

Lemma ack_one_length s k id : (length (chans s) <= length (chans (ack_one s k id)))%nat.
Proof.
  unfold ack_one. destruct (negb _); auto. destruct (_ || _); auto.
  assert (C : forall s0 r, length (chans (do_close s0 r)) = length (chans s0)).
  { intros s0 r. destruct (do_close_spec s0 r) as (s2 & -> & C). rewrite clear_queues_eq. sk. unfold cleared.
    rewrite fold_dtx_length. f_equal. apply C. }
  destruct (id =? 0); [rewrite C; auto|]. destruct (_ && _); auto. unfold pkt_ack, pkt_ack_inner.
  destruct (inflight s) as [|[[i tx] tp] rest]; [rewrite C; auto|].
  assert (D : forall s0, length (chans (drop_tx_opt s0 tx)) = length (chans s0)).
  { intros s0. rewrite drop_tx_opt_eq. sk. destruct tx; auto using ch_drop_tx_length. }
  assert (S : forall s0 v, length (chans (send_opt s0 tx v)) = length (chans s0)).
  { intros s0 v. unfold send_opt. destruct tx; auto. rewrite send_eq. sk. apply ch_send_length. }
  destruct (negb (i =? id)); [rewrite C, D; auto|]. destruct (negb (k =? tp)); [rewrite C, D; auto|].
  destruct (k =? 2).
  { unfold new_chan, rxm_insert. cbn [fst snd]. sk. cbn [fst snd]. destruct (rxm_find _ _); unfold drop_rx; sk;
      rewrite ?ch_drop_rx_length, app_length, S; sk; lia. }
  destruct (k =? 3).
  { rewrite wake_eq. sk. rewrite wake_go_length, S. destruct (rxm_find _ _); unfold drop_rx; sk; rewrite ?ch_drop_rx_length; auto. }
  rewrite wake_eq. sk. rewrite wake_go_length, S. auto.
Qed.

Lemma cm_ack_list l : forall s c, (c < length (chans s))%nat -> cm s (ack_list s l) c.
Proof.
  induction l as [|[k id] r IH]; intros s c L; cbn [ack_list]; [apply cm_refl|].
  eapply cm_trans; [now apply cm_ack_one|]. apply IH. pose proof (ack_one_length s k id). lia.
Qed.

(* for every operation: a window-waiter channel never re-opens, a woken one stays woken *)
Lemma step_cm ks s o c :
  inv ks s -> (c < length (chans s))%nat -> kof ks c = Some KW -> cm s (sink_step s o) c.
Proof.
  intros I L A. destruct o as [t k i z|t|t|l|t|t|on|n| | |n|t n|t|t| |t k i z|ip]; cbn [sink_step].
  - now apply cm_start with ks.
  - now apply cm_poll with ks.
  - now apply cm_drop with ks.
  - now apply cm_ack_list.
  - apply cm_release.
  - apply cm_drop_receipt.
  - apply cm_wrb.
  - unfold do_set_cap. eapply cm_trans; [apply cm_wake|cme].
  - apply cm_close.
  - apply cm_force_close.
  - cme.
  - now apply cm_chunk.
  - apply cm_drop_stream.
  - apply cm_drop_chunk.
  - cme.
  - now apply cm_create with ks.
  - apply cm_eq, in_publish_chans.
Qed.

(* ---------------------------------------------------------------- counting parked tasks *)
(* parked in the window (send) or in ready(), and not woken: the waiter channel is still open *)
Definition unwoken (s : sink) (x : task) : bool :=
  match twait (tst x) with
  | Some c => match c_st (cg s c) with COpen => true | _ => false end
  | None => false
  end.
(* woken (the waiter channel is filled) and not polled since *)
Definition woken (s : sink) (x : task) : bool :=
  match twait (tst x) with
  | Some c => match c_st (cg s c) with CFilled => true | _ => false end
  | None => false
  end.
Fixpoint cnt (P : task -> bool) (l : list (N * task)) : N :=
  match l with [] => 0 | (_, x) :: r => b2n (P x) + cnt P r end.
Definition nU (s : sink) : N := cnt (unwoken s) (tasks s).
Definition nW (s : sink) : N := cnt (woken s) (tasks s).

Definition wake_ok (s : sink) : Prop :=
  0 < nU s -> cap s <= lenN (inflight s) + nW s \/ wrb s = true.

Lemma cnt_le P Q l : (forall t x, In (t, x) l -> P x = true -> Q x = true) -> cnt P l <= cnt Q l.
Proof.
  induction l as [|[t x] r IH]; intros H; cbn [cnt]; [lia|].
  assert (b2n (P x) <= b2n (Q x)).
  { destruct (P x) eqn:E; cbn [b2n]; [rewrite (H t x (or_introl eq_refl) E); cbn; lia|destruct (Q x); cbn; lia]. }
  assert (cnt P r <= cnt Q r) by (apply IH; intros t0 x0 Hin0 Pt0; apply (H t0 x0); [now right|exact Pt0]). lia.
Qed.
Lemma cnt_pos P l : 0 < cnt P l -> exists t x, In (t, x) l /\ P x = true.
Proof.
  induction l as [|[t x] r IH]; cbn [cnt]; [lia|]. destruct (P x) eqn:E.
  - intros _. exists t, x. split; auto. now left.
  - cbn [b2n]. intros H. destruct IH as (t' & x' & A & B); [lia|]. exists t', x'. split; auto. now right.
Qed.
Lemma cnt_in P l t x : In (t, x) l -> P x = true -> 0 < cnt P l.
Proof.
  induction l as [|[t' x'] r IH]; cbn [cnt In]; [tauto|]. intros [E|H] Px.
  - injection E as -> ->. rewrite Px. cbn. lia.
  - specialize (IH H Px). lia.
Qed.

(* replacing (or adding) the entry of task t *)
Lemma cnt_put_le P P' t x' l : sortedk l ->
  (forall t2 x2, In (t2, x2) l -> t2 <> t -> P' x2 = true -> P x2 = true) ->
  cnt P' (put_task t x' l) <= cnt P l + b2n (P' x').
Proof.
  induction l as [|[i y] r IH]; intros S H; cbn [put_task cnt]; [lia|].
  cbn [sortedk] in S. destruct S as [S1 S2].
  assert (R : cnt P' r <= cnt P r \/ True) by auto.
  destruct (N.eqb_spec i t) as [->|N1]; cbn [cnt].
  - assert (cnt P' r <= cnt P r).
    { apply cnt_le. intros t2 x2 H2 Px. apply (H t2 x2); auto; [now right|]. apply S1 in H2. lia. }
    destruct (P y); cbn [b2n]; lia.
  - destruct (N.ltb_spec t i) as [Lt|Ge]; cbn [cnt].
    + assert (b2n (P' y) + cnt P' r <= b2n (P y) + cnt P r).
      { change (cnt P' ((i, y) :: r) <= cnt P ((i, y) :: r)). apply cnt_le. intros t2 x2 H2 Px. apply (H t2 x2); auto.
        destruct H2 as [E|H2]; [injection E as <- <-; auto|]. apply S1 in H2. lia. }
      lia.
    + assert (cnt P' (put_task t x' r) <= cnt P r + b2n (P' x')).
      { apply IH; auto. intros t2 x2 H2. apply H. now right. }
      assert (b2n (P' y) <= b2n (P y)).
      { destruct (P' y) eqn:E; cbn [b2n]; [|destruct (P y); cbn; lia]. rewrite (H i y); auto; [cbn; lia|now left]. }
      lia.
Qed.

Lemma cnt_put_ge P P' t x' l : sortedk l ->
  (forall t2 x2, In (t2, x2) l -> t2 <> t -> P x2 = true -> P' x2 = true) ->
  cnt P l + b2n (P' x') <= cnt P' (put_task t x' l) + match find_task t l with Some xo => b2n (P xo) | None => 0 end.
Proof.
  induction l as [|[i y] r IH]; intros S H; cbn [put_task cnt find_task]; [lia|].
  cbn [sortedk] in S. destruct S as [S1 S2].
  destruct (N.eqb_spec i t) as [->|N1]; cbn [cnt].
  - assert (cnt P r <= cnt P' r).
    { apply cnt_le. intros t2 x2 H2 Px. apply (H t2 x2); auto; [now right|]. apply S1 in H2. lia. }
    lia.
  - destruct (N.ltb_spec t i) as [Lt|Ge]; cbn [cnt].
    + assert (b2n (P y) + cnt P r <= b2n (P' y) + cnt P' r).
      { change (cnt P ((i, y) :: r) <= cnt P' ((i, y) :: r)). apply cnt_le. intros t2 x2 H2 Px. apply (H t2 x2); auto.
        destruct H2 as [E|H2]; [injection E as <- <-; auto|]. apply S1 in H2. lia. }
      assert (F : find_task t r = None).
      { destruct (find_task t r) as [z|] eqn:F; auto. apply find_task_In in F; auto. apply S1 in F. lia. }
      rewrite F. lia.
    + assert (cnt P r + b2n (P' x') <= cnt P' (put_task t x' r) + match find_task t r with Some xo => b2n (P xo) | None => 0 end).
      { apply IH; auto. intros t2 x2 H2. apply H. now right. }
      assert (b2n (P y) <= b2n (P' y)).
      { destruct (P y) eqn:E; cbn [b2n]; [|destruct (P' y); cbn; lia]. rewrite (H i y); auto; [cbn; lia|now left]. }
      lia.
Qed.

(* channel monotonicity gives status monotonicity for a task that keeps its state *)
Lemma status_mono ks s s' x :
  st_ok ks s x -> (forall c, kof ks c = Some KW -> (c < length (chans s))%nat -> cm s s' c) ->
  length ks = length (chans s) ->
  (unwoken s' x = true -> unwoken s x = true) /\ (woken s x = true -> woken s' x = true).
Proof.
  intros SO CM LK. unfold unwoken, woken, st_ok in *.
  destruct (tst x) as [c|c id|id|c|c|e| | |e]; cbn [twait]; auto; destruct SO as (K & _);
    (assert (L : (c < length (chans s))%nat) by (rewrite <- LK; eapply kof_range; eauto));
    destruct (CM c K L) as [C1 C2]; fold (cg s c) in C1, C2; fold (cg s' c) in C1, C2; split.
  all: try (destruct (c_st (cg s' c)) eqn:E; try discriminate; intros _; now rewrite C1).
  all: destruct (c_st (cg s c)) eqn:E; try discriminate; intros _; now rewrite C2.
Qed.

Lemma closed_nU0 s : sink_inv s -> io s <> 0 -> nU s = 0.
Proof.
  intros [ks I] Hio. destruct (N.eq_dec (nU s) 0) as [|N]; auto. exfalso.
  destruct (cnt_pos (unwoken s) (tasks s)) as (t & x & H & P); [unfold nU in N; lia|].
  destruct (i_task _ _ I t x H) as [SO _]. destruct (i_closed _ _ I Hio) as (_ & W & _).
  unfold unwoken, st_ok in *. destruct (tst x); cbn [twait] in P; try discriminate;
    destruct SO as (_ & _ & S3); destruct (c_st (cg s c)) eqn:E; try discriminate; specialize (S3 eq_refl); rewrite W in S3; contradiction.
Qed.

(* generic transfer: nothing lost *)
Lemma wake_ok_mono s s' :
  wake_ok s -> cap s' = cap s -> wrb s' = wrb s -> lenN (inflight s) <= lenN (inflight s') ->
  (0 < nU s' -> 0 < nU s) -> nW s <= nW s' -> wake_ok s'.
Proof. unfold wake_ok. intros H C W L U Wk P. rewrite C, W. destruct (H (U P)) as [Z|Z]; [left; lia|now right]. Qed.

Lemma settle_counts s : nU (settle s) = nU s /\ nW (settle s) = nW s.
Proof. unfold settle. destruct (io s =? 1); auto. Qed.

Lemma cnt_put_repl_le P P' t xo x' l : sortedk l -> find_task t l = Some xo ->
  (P' x' = true -> P xo = true) ->
  (forall t2 x2, In (t2, x2) l -> t2 <> t -> P' x2 = true -> P x2 = true) ->
  cnt P' (put_task t x' l) <= cnt P l.
Proof.
  induction l as [|[i y] r IH]; intros S F H0 H; cbn [put_task cnt find_task] in *; [discriminate|].
  cbn [sortedk] in S. destruct S as [S1 S2].
  destruct (N.eqb_spec i t) as [->|N1]; cbn [cnt].
  - injection F as ->.
    assert (cnt P' r <= cnt P r).
    { apply cnt_le. intros t2 x2 H2 Px. apply (H t2 x2); auto; [now right|]. apply S1 in H2. lia. }
    assert (b2n (P' x') <= b2n (P xo)) by (destruct (P' x'); cbn [b2n]; [rewrite H0; auto; cbn; lia|destruct (P xo); cbn; lia]).
    lia.
  - destruct (N.ltb_spec t i) as [Lt|Ge].
    + apply find_task_In in F; auto. apply S1 in F. lia.
    + cbn [cnt]. assert (cnt P' (put_task t x' r) <= cnt P r) by (apply IH; auto; intros t2 x2 H2; apply H; now right).
      assert (b2n (P' y) <= b2n (P y)).
      { destruct (P' y) eqn:E; cbn [b2n]; [|destruct (P y); cbn; lia]. rewrite (H i y); auto; [cbn; lia|now left]. }
      lia.
Qed.

Lemma cnt_put_repl_ge P P' t xo x' l : sortedk l -> find_task t l = Some xo ->
  (P xo = true -> P' x' = true) ->
  (forall t2 x2, In (t2, x2) l -> t2 <> t -> P x2 = true -> P' x2 = true) ->
  cnt P l <= cnt P' (put_task t x' l).
Proof.
  induction l as [|[i y] r IH]; intros S F H0 H; cbn [put_task cnt find_task] in *; [discriminate|].
  cbn [sortedk] in S. destruct S as [S1 S2].
  destruct (N.eqb_spec i t) as [->|N1]; cbn [cnt].
  - injection F as ->.
    assert (cnt P r <= cnt P' r).
    { apply cnt_le. intros t2 x2 H2 Px. apply (H t2 x2); auto; [now right|]. apply S1 in H2. lia. }
    assert (b2n (P xo) <= b2n (P' x')) by (destruct (P xo); cbn [b2n]; [rewrite H0; auto; cbn; lia|destruct (P' x'); cbn; lia]).
    lia.
  - destruct (N.ltb_spec t i) as [Lt|Ge].
    + apply find_task_In in F; auto. apply S1 in F. lia.
    + cbn [cnt]. assert (cnt P r <= cnt P' (put_task t x' r)) by (apply IH; auto; intros t2 x2 H2; apply H; now right).
      assert (b2n (P y) <= b2n (P' y)).
      { destruct (P y) eqn:E; cbn [b2n]; [|destruct (P' y); cbn; lia]. rewrite (H i y); auto; [cbn; lia|now left]. }
      lia.
Qed.

(* the task table changes at one entry at most, which keeps its waiter channel *)
Definition tasks_tw (s s' : sink) : Prop :=
  tasks s' = tasks s \/
  exists t xo x', find_task t (tasks s) = Some xo /\ tasks s' = put_task t x' (tasks s) /\ tst x' = tst xo.
(* ... or a state without a waiter channel before and after *)
Definition tasks_nw (s s' : sink) : Prop :=
  tasks s' = tasks s \/
  exists t xo x', find_task t (tasks s) = Some xo /\ tasks s' = put_task t x' (tasks s) /\
                  twait (tst x') = twait (tst xo).

Lemma tw_nw s s' : tasks_tw s s' -> tasks_nw s s'.
Proof. intros [H|(t & xo & x' & A & B & C)]; [now left|right]. exists t, xo, x'. rewrite C. auto. Qed.

Lemma counts_nw ks s s' :
  inv ks s -> tasks_nw s s' -> (forall c, kof ks c = Some KW -> (c < length (chans s))%nat -> cm s s' c) ->
  nU s' <= nU s /\ nW s <= nW s'.
Proof.
  intros I T CM. pose proof (i_len _ _ I) as LK.
  assert (MONO : forall t x, In (t, x) (tasks s) ->
     (unwoken s' x = true -> unwoken s x = true) /\ (woken s x = true -> woken s' x = true)).
  { intros t x H. destruct (i_task _ _ I t x H) as [SO _]. eapply status_mono; eauto. }
  unfold nU, nW. destruct T as [-> | (t & xo & x' & F & -> & TW)].
  - split; apply cnt_le; intros t x H; apply (MONO t x H).
  - assert (H : In (t, xo) (tasks s)) by (apply find_task_In; auto; apply I).
    assert (EU : unwoken s' x' = unwoken s' xo) by (unfold unwoken; now rewrite TW).
    assert (EW : woken s' x' = woken s' xo) by (unfold woken; now rewrite TW).
    split.
    + apply cnt_put_repl_le with xo; auto; [apply I|rewrite EU; apply (MONO t xo H)|intros t2 x2 H2 _; apply (MONO t2 x2 H2)].
    + apply cnt_put_repl_ge with xo; auto; [apply I|rewrite EW; apply (MONO t xo H)|intros t2 x2 H2 _; apply (MONO t2 x2 H2)].
Qed.

(* shape of the task table after the operations that do not start / poll / drop a task *)
Lemma nw_put s s1 t x st' : find_task t (tasks s) = Some x -> tasks s1 = tasks s -> twait st' = twait (tst x) ->
  tasks_nw s (set_tasks s1 (put_task t (with_tst x st') (tasks s1))).
Proof. intros F E T. right. exists t, x, (with_tst x st'). sk. rewrite E. auto. Qed.
Lemma nw_put_stream s s1 t x sm1 : find_task t (tasks s) = Some x -> tasks s1 = tasks s ->
  tasks_nw s (set_tasks s1 (put_task t (with_stream x sm1) (tasks s1))).
Proof. intros F E. right. exists t, x, (with_stream x sm1). sk. rewrite E. auto. Qed.

Lemma release_tw s t : tasks_nw s (release_task s t).
Proof.
  unfold release_task. destruct (find_task t (tasks s)) as [x|] eqn:F; [|now left].
  destruct (tst x) eqn:E; try (now left). unfold release_publish. destruct (rxm_find _ _) as [c|].
  - destruct (enc_packet _ _ _) as [s2 ok] eqn:EP. destruct (enc_packet_core _ _ _ _ _ EP) as (_&_&_&_&_&_&_&E8). sk in E8.
    destruct ok; [destruct (poll s2 c)|]; apply nw_put; auto; rewrite E; reflexivity.
  - apply nw_put; auto. rewrite E. reflexivity.
Qed.
Lemma drop_receipt_tw s t : tasks_nw s (drop_receipt s t).
Proof.
  unfold drop_receipt. destruct (find_task t (tasks s)) as [x|] eqn:F; [|now left].
  destruct (tst x) eqn:E; try (now left). unfold release_publish. destruct (rxm_find _ _) as [c|].
  - destruct (enc_packet _ _ _) as [s2 ok] eqn:EP. destruct (enc_packet_core _ _ _ _ _ EP) as (_&_&_&_&_&_&_&E8). sk in E8.
    apply nw_put; auto. rewrite E. reflexivity.
  - apply nw_put; auto. rewrite E. reflexivity.
Qed.

Lemma epp_tasks s n : tasks (fst (fst (encode_publish_payload s n))) = tasks s.
Proof. destruct (epp_cases s n) as [-> | C]; [unfold do_force_close; rewrite clear_queues_eq; reflexivity|apply C]. Qed.
Lemma chunk_payload_tasks s sm srx n : tasks (fst (chunk_payload s sm srx n)) = tasks s.
Proof. unfold chunk_payload. pose proof (epp_tasks s n) as E. destruct (encode_publish_payload s n) as [[s1 st] more]. exact E. Qed.
Lemma chunk_inprocess_tasks s sm srx inp n : tasks (fst (chunk_inprocess s sm srx inp n)) = tasks s.
Proof.
  unfold chunk_inprocess. destruct inp; auto. destruct (is_closed s); auto. destruct (wrb s); [|apply chunk_payload_tasks].
  unfold new_chan. sk. cbn [fst]. rewrite drop_tx_opt_eq. reflexivity.
Qed.
Lemma chunk_signal_tasks s sm n : tasks (fst (chunk_signal s sm n)) = tasks s.
Proof. unfold chunk_signal. destruct (poll _ _); auto. apply chunk_inprocess_tasks. Qed.

Lemma chunk_tw s t n : tasks_nw s (chunk_task s t n).
Proof.
  unfold chunk_task. destruct (find_task t (tasks s)) as [x|] eqn:F; [|now left].
  destruct (tstream x) as [sm|]; [|now left]. destruct (negb _); [now left|].
  assert (G : forall r : sink * stream, tasks (fst r) = tasks s ->
     tasks_nw s (let '(s1, sm1) := r in set_tasks s1 (put_task t (with_stream x sm1) (tasks s1)))).
  { intros [s1 sm1] H. cbn [fst] in H. now apply nw_put_stream. }
  apply G. destruct (pend sm) as [|m|c0 m].
  - destruct (s_rx sm); [apply chunk_signal_tasks|apply chunk_inprocess_tasks].
  - apply chunk_signal_tasks.
  - destruct (poll s c0); auto. apply chunk_payload_tasks.
Qed.
Lemma drop_chunk_tw s t : tasks_nw s (drop_chunk s t).
Proof.
  unfold drop_chunk. destruct (find_task t (tasks s)) as [x|] eqn:F; [|now left].
  destruct (tstream x) as [sm|]; [|now left]. destruct (negb _); [now left|].
  pose proof (drop_pending_tasks s sm) as E.
  destruct (pend sm); [now left| |]; destruct (drop_pending s sm) as [s1 sm1]; cbn [fst] in E; now apply nw_put_stream.
Qed.
Lemma drop_stream_tw s t : tasks_nw s (drop_stream s t).
Proof.
  unfold drop_stream. destruct (find_task t (tasks s)) as [x|] eqn:F; [|now left].
  destruct (tstream x) as [sm|]; [|now left]. destruct (negb _); [now left|].
  pose proof (drop_pending_tasks s sm) as E. destruct (drop_pending s sm) as [s1 sm1]. cbn [fst] in E.
  set (s2 := if s_rx sm1 then drop_rx s1 (sg sm1) else s1).
  assert (E2 : tasks s2 = tasks s) by (unfold s2; destruct (s_rx sm1); exact E).
  destruct (_ && _); apply nw_put_stream; auto.
  unfold do_force_close. rewrite clear_queues_eq. exact E2.
Qed.

Lemma cnt_split P Q l : (forall t x, In (t, x) l -> P x = true -> Q x = true) ->
  cnt P l + cnt (fun x => Q x && negb (P x)) l = cnt Q l.
Proof.
  induction l as [|[t x] r IH]; intros H; cbn [cnt]; [lia|].
  assert (E : cnt P r + cnt (fun x => Q x && negb (P x)) r = cnt Q r) by (apply IH; intros t0 x0 Hi; apply (H t0 x0); now right).
  specialize (H t x (or_introl eq_refl)). destruct (P x) eqn:EP; [rewrite H by auto|]; destruct (Q x); cbn [b2n andb negb]; lia.
Qed.

Lemma lenN_remove c w : NoDup w -> In c w -> lenN w = 1 + lenN (remove Nat.eq_dec c w).
Proof.
  induction w as [|y w IH]; intros ND Hi; [contradiction|]. inversion ND as [|? ? N1 N2]; subst. cbn [remove].
  destruct (Nat.eq_dec c y) as [->|NE].
  - rewrite lenN_cons. rewrite notin_remove by auto. reflexivity.
  - destruct Hi as [E|Hi]; [congruence|]. rewrite !lenN_cons, (IH N2 Hi). lia.
Qed.

Lemma NoDup_remove' c w : NoDup w -> NoDup (remove Nat.eq_dec c w).
Proof.
  induction w as [|y w IH]; intros ND; cbn [remove]; auto. inversion ND as [|? ? N1 N2]; subst.
  destruct (Nat.eq_dec c y); auto. constructor; auto. intros H. apply in_remove in H as [H _]. contradiction.
Qed.

(* [w] channels, each the waiter channel of some task satisfying R: at least |w| tasks satisfy R *)
Lemma cnt_inj (R : task -> bool) l : forall w, NoDup w ->
  (forall c, In c w -> exists t x, In (t, x) l /\ twait (tst x) = Some c /\ R x = true) ->
  lenN w <= cnt R l.
Proof.
  induction l as [|[t0 x0] r IH]; intros w ND H.
  - destruct w as [|c w]; [rewrite lenN_nil; cbn; lia|]. destruct (H c (or_introl eq_refl)) as (t & x & [] & _).
  - cbn [cnt].
    assert (D : (exists c0, twait (tst x0) = Some c0 /\ In c0 w /\ R x0 = true) \/
                (forall c, In c w -> exists t x, In (t, x) r /\ twait (tst x) = Some c /\ R x = true)).
    { destruct (twait (tst x0)) as [c0|] eqn:E0.
      - destruct (in_dec Nat.eq_dec c0 w) as [Hi|Hn].
        + destruct (R x0) eqn:ER; [left; eauto|]. right. intros c Hc. destruct (H c Hc) as (t & x & [Q|Q] & A & B); eauto.
          injection Q as <- <-. congruence.
        + right. intros c Hc. destruct (H c Hc) as (t & x & [Q|Q] & A & B); eauto. injection Q as <- <-. congruence.
      - right. intros c Hc. destruct (H c Hc) as (t & x & [Q|Q] & A & B); eauto. injection Q as <- <-. congruence. }
    destruct D as [(c0 & E0 & Hi & ER)|D].
    + rewrite ER. cbn [b2n]. rewrite (lenN_remove c0 w ND Hi).
      assert (lenN (remove Nat.eq_dec c0 w) <= cnt R r).
      { apply IH; [now apply NoDup_remove'|]. intros c Hc. apply in_remove in Hc as [Hc NE].
        destruct (H c Hc) as (t & x & [Q|Q] & A & B); eauto. injection Q as <- <-. congruence. }
      lia.
    + specialize (IH w ND D). lia.
Qed.

Lemma kw_cm_of (s s' : sink) (ks : list ck) :
  (forall c, (c < length (chans s))%nat -> cm s s' c) ->
  forall c, kof ks c = Some KW -> (c < length (chans s))%nat -> cm s s' c.
Proof. auto. Qed.

(* wake n: exactly n parked tasks become woken, unless no un-woken parked task is left *)
Lemma wake_counts ks s n : inv ks s ->
  nU (wake s n) <= nU s /\ exists m, nW s + m <= nW (wake s n) /\ (0 < nU (wake s n) -> m = n).
Proof.
  intros I. pose proof (inv_wake ks s n I) as I'.
  assert (T : tasks (wake s n) = tasks s) by (rewrite wake_eq; reflexivity).
  destruct (counts_nw ks s (wake s n) I (or_introl T)) as [CU CW]; [intros c _ _; apply cm_wake|].
  split; auto.
  destruct (wake_go_spec (waiters s) (chans s) n (i_wsnd _ _ I)) as (p & w & W1 & W2 & W3 & W4 & W5 & W6).
  exists (lenN w). split.
  - unfold nW. rewrite T. rewrite <- (cnt_split (woken s) (woken (wake s n)) (tasks s)).
    + apply N.add_le_mono_l. apply cnt_inj; auto. intros c Hc. apply W2 in Hc as [Hp Hr].
      assert (Hw : In c (waiters s)) by (rewrite W1; apply in_or_app; now left).
      destruct (i_wtask _ _ I c Hw Hr) as (t & x & Hx & Tw). exists t, x. split; auto. split; auto.
      destruct (i_ws _ _ I c Hw) as [_ O]. unfold woken. rewrite Tw, O. cbn [negb]. rewrite andb_true_r.
      unfold cg. rewrite wake_eq. sk. rewrite W3.
      assert (E : existsb (Nat.eqb c) w = true) by (apply existsb_eqb_In; apply W2; auto). now rewrite E.
    + intros t x Hx Px. destruct (i_task _ _ I t x Hx) as [SO _].
      refine (proj2 (status_mono ks s (wake s n) x SO _ (i_len _ _ I)) Px). intros c _ _. apply cm_wake.
  - intros P. destruct W6 as [W6|W6]; auto. exfalso.
    destruct (cnt_pos _ _ P) as (t & x & Hx & Ux). destruct (i_task _ _ I' t x Hx) as [SO _].
    assert (WS : waiters (wake s n) = []) by (rewrite wake_eq; sk; exact W6).
    unfold unwoken, st_ok in *. destruct (tst x); cbn [twait] in Ux; try discriminate;
      destruct SO as (_ & _ & S3); destruct (c_st (cg (wake s n) c)) eqn:E; try discriminate;
      specialize (S3 eq_refl); rewrite WS in S3; contradiction.
Qed.

Lemma cm_all_kw (s s' : sink) (ks : list ck) :
  (forall c, (c < length (chans s))%nat -> cm s s' c) ->
  forall c, kof ks c = Some KW -> (c < length (chans s))%nat -> cm s s' c.
Proof. auto. Qed.

Lemma wake_ok_closed s : sink_inv s -> io s <> 0 -> wake_ok s.
Proof. intros SI Hio P. rewrite (closed_nU0 s SI Hio) in P. lia. Qed.

Lemma is_final_inner s k id : is_final s k id = true ->
  io s = 0 /\ k <> 2 /\ exists s1, pkt_ack_inner s k id = (s1, true) /\ ack_one s k id = s1.
Proof.
  unfold is_final. intros F. repeat (apply andb_true_iff in F as [F ?]).
  apply N.eqb_eq in F. split; auto. split; [intros ->; discriminate|].
  assert (HM : head_matches s k id = true) by exact H.
  pose proof (pkt_ack_inner_ok s k id HM) as OK. destruct (pkt_ack_inner s k id) as [s1 ok] eqn:E. cbn [snd] in OK. subst ok.
  exists s1. split; auto. unfold ack_one, pkt_ack. rewrite F. replace (negb (0 =? 0)) with false by reflexivity.
  apply negb_true_iff in H3. rewrite H3. apply negb_true_iff in H2. rewrite H2. apply negb_true_iff in H1. rewrite H1.
  now rewrite E.
Qed.

Lemma wake_ok_ack_one s k id : sink_inv s -> wake_ok s -> wake_ok (ack_one s k id).
Proof.
  intros SI WO. pose proof (inv_ack_one s k id SI) as SI'.
  destruct (N.eq_dec (io (ack_one s k id)) 0) as [Z|Z]; [|now apply wake_ok_closed].
  destruct (ack_one_eff s k id) as (A1 & A2 & A3 & A4 & A5 & A6). specialize (A4 Z).
  destruct SI as [ks I].
  assert (CM : forall c, kof ks c = Some KW -> (c < length (chans s))%nat -> cm s (ack_one s k id) c).
  { intros c _ L. now apply cm_ack_one. }
  pose proof (ack_one_tasks s k id) as T.
  destruct (counts_nw ks s (ack_one s k id) I (or_introl T) CM) as [CU CW].
  destruct (is_final s k id) eqn:F.
  - destruct A5 as [_ A5]. destruct (is_final_inner s k id F) as (Hio & K2 & s1 & E & ES).
    destruct (inv_ack_pre ks s k id s1 I Hio K2 E) as (s2 & -> & (c & rest & P1 & P2 & P3 & P4 & P5 & P6 & P7 & P8) & I2).
    rewrite ES in *.
    destruct (wake_counts ks s2 1 I2) as [W1 (m & W2 & W3)].
    assert (CM2 : forall c0, kof ks c0 = Some KW -> (c0 < length (chans s))%nat -> cm s s2 c0).
    { intros c0 _ _. unfold cm. destruct P8 as [-> | ->]; [apply cmx_send|apply cmx_drop_rx]. }
    destruct (counts_nw ks s s2 I (or_introl P3) CM2) as [CU2 CW2].
    intros P. specialize (W3 P). subst m. rewrite A1, A2.
    assert (P0 : 0 < nU s) by lia. destruct (WO P0) as [Q|Q]; [left; lia|now right].
  - destruct A5 as [[A5 _]|[_ A5]]; [|contradiction].
    apply wake_ok_mono with s; auto; lia.
Qed.

Lemma wake_ok_ack_list l : forall s, sink_inv s -> wake_ok s -> wake_ok (ack_list s l).
Proof.
  induction l as [|[k id] r IH]; intros s SI WO; cbn [ack_list]; auto.
  apply IH; [now apply inv_ack_one|now apply wake_ok_ack_one].
Qed.

Lemma wake_ok_set_cap s n : sink_inv s -> wake_ok (do_set_cap s n).
Proof.
  intros [ks I]. destruct (wake_counts ks s n I) as [W1 (m & W2 & W3)]. unfold do_set_cap.
  intros P. left. change (n <= lenN (inflight (wake s n)) + nW (wake s n)). specialize (W3 P). lia.
Qed.

Lemma wake_ok_wrb s on : sink_inv s -> wake_ok (do_wrb s on).
Proof.
  intros [ks I]. unfold do_wrb. destruct on; [intros _; now right|].
  set (s1 := set_wrb s false).
  assert (I1 : inv ks s1) by (apply inv_core with s; auto).
  set (s2 := match swait s1 with Some c0 => set_swait (fst (send s1 c0 0)) None | None => s1 end).
  assert (I2 : inv ks s2) by (unfold s2; destruct (swait s1) as [c0|] eqn:E; auto; now apply inv_swait_send).
  assert (F : cap s2 = cap s /\ inflight s2 = inflight s).
  { unfold s2. destruct (swait s1); [rewrite send_eq|]; auto. }
  destruct F as [F1 F2].
  destruct (N.ltb_spec (lenN (inflight s2)) (cap s2)) as [L|L].
  - destruct (wake_counts ks s2 (cap s2 - lenN (inflight s2)) I2) as [W1 (m & W2 & W3)].
    intros P. left. specialize (W3 P). rewrite wake_eq in *. sk. sk in W2. lia.
  - intros _. left. lia.
Qed.

(* ---------------------------------------------------------------- the recorded findings, as an executable predicate *)
Definition is_done (st : tstate) : bool := match st with TDone _ => true | _ => false end.
(* Q: a woken task is dropped before it is polled again *)
Definition known_q (s : sink) (o : op) : bool :=
  match o with
  | ODrop t => match find_task t (tasks s) with Some x => woken s x | None => false end
  | _ => false
  end.
(* Q2: a woken ready() future completes: it consumed a wake-up that a parked sender needed *)
Definition known_q2 (s : sink) (o : op) : bool :=
  match o with
  | OPoll t => match find_task t (tasks s) with
               | Some x => match tst x with TReadyW _ => woken s x | _ => false end
               | None => false
               end
  | _ => false
  end.
(* Qerr: a woken sender ends with a local error before writing *)
Definition known_qerr (s : sink) (o : op) : bool :=
  match o with
  | OPoll t => match find_task t (tasks s) with
               | Some x => match tst x with
                           | TParked _ => woken s x &&
                               match find_task t (tasks (poll_task s t)) with Some x' => is_done (tst x') | None => false end
                           | _ => false
                           end
               | None => false
               end
  | _ => false
  end.
(* ... each of them while another task is parked and not woken *)
Definition known_step (s : sink) (o : op) : bool :=
  (0 <? nU s) && (known_q s o || known_q2 s o || known_qerr s o).
Fixpoint Known (s : sink) (ops : list op) : bool :=
  match ops with [] => false | o :: r => known_step (set_wire s []) o || Known (sink_op s o) r end.

(* ---------------------------------------------------------------- one task changes *)
Lemma one_task_ok ks s s1 t x' :
  inv ks s -> tasks s1 = put_task t x' (tasks s) ->
  (forall c, kof ks c = Some KW -> (c < length (chans s))%nat -> cm s s1 c) ->
  cap s1 = cap s -> wrb s1 = wrb s -> lenN (inflight s) <= lenN (inflight s1) -> wake_ok s ->
  (unwoken s1 x' = true -> cap s <= lenN (inflight s) \/ wrb s = true) ->
  (unwoken s1 x' = false -> 0 < nU s -> forall xo, find_task t (tasks s) = Some xo -> woken s xo = true ->
                             lenN (inflight s) < lenN (inflight s1)) ->
  wake_ok s1.
Proof.
  intros I T CM C W L WO H2 H3 P. pose proof (i_len _ _ I) as LK.
  assert (MONO : forall t2 x2, In (t2, x2) (tasks s) ->
     (unwoken s1 x2 = true -> unwoken s x2 = true) /\ (woken s x2 = true -> woken s1 x2 = true)).
  { intros t2 x2 H. destruct (i_task _ _ I t2 x2 H) as [SO _]. eapply status_mono; eauto. }
  assert (LE : nU s1 <= nU s + b2n (unwoken s1 x')).
  { unfold nU. rewrite T. apply cnt_put_le; [apply I|]. intros t2 x2 H _. apply (MONO t2 x2 H). }
  assert (GE : nW s + b2n (woken s1 x') <= nW s1 + match find_task t (tasks s) with Some xo => b2n (woken s xo) | None => 0 end).
  { unfold nW. rewrite T. apply cnt_put_ge; [apply I|]. intros t2 x2 H _. apply (MONO t2 x2 H). }
  rewrite C, W. destruct (unwoken s1 x') eqn:U1.
  - destruct (H2 eq_refl) as [Q|Q]; [left; lia|now right].
  - cbn [b2n] in LE. assert (P0 : 0 < nU s) by lia. destruct (WO P0) as [Q|Q]; [left|now right].
    destruct (find_task t (tasks s)) as [xo|] eqn:F; [|lia].
    destruct (woken s xo) eqn:Wo; cbn [b2n] in GE; [|lia]. specialize (H3 eq_refl P0 xo eq_refl Wo). lia.
Qed.

Lemma send_res_tasks s x s1 st : send_res s x s1 st -> tasks s1 = tasks s.
Proof.
  intros [s1' e N | s1' Hio CW P | s1' id Hio L W P].
  - apply N.
  - unfold parked in P. subst. reflexivity.
  - apply P.
Qed.

(* facts every single-task operation shares, from the window summary of C05 *)
Lemma eff_cases s s' : c05_eff s s' ->
  cap s' = cap s /\ wrb s' = wrb s /\ (lenN (inflight s) <= lenN (inflight s') \/ io s' <> 0).
Proof.
  intros (A & B & [(C1 & _)|[(C1 & C2 & _)|(e & tag & id & C1 & _)]]); repeat split; auto.
  - left. rewrite C1. lia.
  - left. rewrite C1, lenN_app. lia.
Qed.

Lemma unwoken_parked s x : unwoken s x = true -> exists c, twait (tst x) = Some c.
Proof. unfold unwoken. destruct (twait (tst x)); [eauto|discriminate]. Qed.

Lemma wake_ok_start ks s t k idq size :
  inv ks s -> settled s -> wake_ok s -> wake_ok (start_task s t k idq size).
Proof.
  intros I ST WO. set (s' := start_task s t k idq size).
  assert (SI' : sink_inv s') by (apply inv_start; auto; now exists ks).
  destruct (eff_cases s s' (start_eff s t k idq size)) as (C & W & [L|Z]); [|now apply wake_ok_closed].
  assert (CM : forall c, kof ks c = Some KW -> (c < length (chans s))%nat -> cm s s' c) by (intros; now apply cm_start with ks).
  destruct (find_task t (tasks s)) eqn:F; [unfold s', start_task; rewrite F; exact WO|].
  assert (OT : forall x', tasks s' = put_task t x' (tasks s) ->
     (unwoken s' x' = true -> cap s <= lenN (inflight s) \/ wrb s = true) -> wake_ok s').
  { intros x' T H2. eapply one_task_ok; eauto. intros _ _ xo Fo. congruence. }
  unfold s' in *. clear s'.
  destruct (start_task_spec s t k idq size F) as [ | s1 e K P | e K | s1 K Hio CW P | s0 x s1 st K E0 EX R].
  - exact WO.
  - apply OT with (mkTask 6 0 0 (TDone e) false None); [sk; f_equal; apply P|]. intros U. apply unwoken_parked in U as [c U]. discriminate.
  - apply OT with (mkTask 5 0 0 (TDone e) false None); [reflexivity|]. intros U. apply unwoken_parked in U as [c U]. discriminate.
  - apply OT with (mkTask 5 0 0 (TReadyW (length (chans s))) false None); [unfold parked in P; subst; reflexivity|auto].
  - apply OT with (with_tst (no_stream_on_panic x st) st).
    + sk. rewrite (send_res_tasks _ _ _ _ R). subst s0. destruct (k =? 7); reflexivity.
    + intros U. apply unwoken_parked in U as [c U]. cbn [with_tst tst] in U.
      destruct R as [s1 e N | s1 Hio CW P | s1 id Hio L' W' P]; try discriminate.
      subst s0. destruct (k =? 7); exact CW.
Qed.

Lemma wake_ok_create ks s t k idq size :
  inv ks s -> settled s -> wake_ok s -> wake_ok (create_task s t k idq size).
Proof.
  intros I ST WO. set (s' := create_task s t k idq size).
  assert (SI' : sink_inv s') by (apply inv_create; auto; now exists ks).
  destruct (eff_cases s s' (create_eff s t k idq size)) as (C & W & [L|Z]); [|now apply wake_ok_closed].
  assert (CM : forall c, kof ks c = Some KW -> (c < length (chans s))%nat -> cm s s' c) by (intros; now apply cm_create with ks).
  destruct (find_task t (tasks s)) eqn:F; [unfold s', create_task; rewrite F; exact WO|].
  assert (OT : forall x', tasks s' = put_task t x' (tasks s) ->
     (unwoken s' x' = true -> cap s <= lenN (inflight s) \/ wrb s = true) -> wake_ok s').
  { intros x' T H2. eapply one_task_ok; eauto. intros _ _ xo Fo. congruence. }
  unfold s' in *. clear s'.
  destruct (create_task_spec s t k idq size F) as [ | K | e K | s1 K Hio CW P | K | s0 x s1 st K E0 EX R].
  - exact WO.
  - now apply wake_ok_start with ks.
  - apply OT with (mkTask 5 0 0 (TDeferred e) false None); [reflexivity|]. intros U. apply unwoken_parked in U as [c U]. discriminate.
  - apply OT with (mkTask 5 0 0 (TReadyW (length (chans s))) false None); [unfold parked in P; subst; reflexivity|auto].
  - apply OT with (mkTask k idq 0 TNew false None); [reflexivity|]. intros U. apply unwoken_parked in U as [c U]. discriminate.
  - apply OT with (with_tst (no_stream_on_panic x st) (defer st)).
    + sk. rewrite (send_res_tasks _ _ _ _ R). subst s0. destruct (k =? 7); reflexivity.
    + intros U. apply unwoken_parked in U as [c U]. cbn [with_tst tst] in U.
      destruct R as [s1 e N | s1 Hio CW P | s1 id Hio L' W' P]; try discriminate.
      * cbn [defer] in U. destruct (e =? ST_PANIC); discriminate.
      * subst s0. destruct (k =? 7); exact CW.
Qed.

Lemma woken_filled s x c : twait (tst x) = Some c -> woken s x = true -> c_st (cg s c) = CFilled.
Proof. unfold woken. intros ->. destruct (c_st (cg s c)); auto; discriminate. Qed.
Lemma poll_val_filled s c v : poll s c = PVal v -> c_st (cg s c) = CFilled.
Proof. unfold poll, ch_poll. fold (cg s c). destruct (c_st (cg s c)); auto; discriminate. Qed.
Lemma poll_cancel_dropped s c : poll s c = PCanceled -> c_st (cg s c) = CSenderDropped.
Proof. unfold poll, ch_poll. fold (cg s c). destruct (c_st (cg s c)); auto; discriminate. Qed.

Lemma wake_ok_poll ks s t :
  inv ks s -> settled s -> wake_ok s -> known_step s (OPoll t) = false -> wake_ok (poll_task s t).
Proof.
  intros I ST WO KN. set (s' := poll_task s t).
  assert (SI : sink_inv s) by now exists ks.
  assert (SI' : sink_inv s') by (apply inv_poll; auto).
  destruct (eff_cases s s' (poll_eff s t)) as (C & W & [L|Z]); [|now apply wake_ok_closed].
  assert (CM : forall c, kof ks c = Some KW -> (c < length (chans s))%nat -> cm s s' c) by (intros; now apply cm_poll with ks).
  destruct (find_task t (tasks s)) as [x|] eqn:F; [|unfold s', poll_task; rewrite F; exact WO].
  (* the excluded findings *)
  unfold known_step, known_q, known_q2, known_qerr in KN. rewrite F in KN. cbn [orb] in KN.
  assert (KN' : 0 < nU s -> (match tst x with TReadyW _ => woken s x | _ => false end = false) /\
                 (match tst x with TParked _ => woken s x && match find_task t (tasks s') with Some x' => is_done (tst x') | None => false end | _ => false end = false)).
  { intros P. apply N.ltb_lt in P. rewrite P in KN. cbn [andb] in KN. apply orb_false_iff in KN. exact KN. }
  clear KN.
  assert (OT : forall x', tasks s' = put_task t x' (tasks s) ->
     (unwoken s' x' = true -> cap s <= lenN (inflight s) \/ wrb s = true) ->
     (unwoken s' x' = false -> 0 < nU s -> woken s x = true -> lenN (inflight s) < lenN (inflight s')) -> wake_ok s').
  { intros x' T H2 H3. eapply one_task_ok; eauto. intros U P xo Fo. rewrite F in Fo. injection Fo as <-. auto. }
  destruct (poll_task_spec s t x F) as (s1 & st & R & E). fold s' in E.
  assert (FX : find_task t (tasks s') = Some (with_tst x st)) by (rewrite E; sk; apply find_put_same).
  assert (TS : tasks s1 = tasks s -> tasks s' = put_task t (with_tst x st) (tasks s)) by (intros Q; rewrite E; sk; now rewrite Q).
  assert (NP : forall st0, twait st0 = None -> unwoken s' (with_tst x st0) = true -> cap s <= lenN (inflight s) \/ wrb s = true).
  { intros st0 Q U. apply unwoken_parked in U as [c U]. cbn [with_tst tst] in U. congruence. }
  destruct R as [ | c id E1 P1 | c id v E1 P1 | c E1 P1 | c v E1 P1 | c E1 P1 | c v E1 P1 | c s1 E1 P1 P2 N | c v s1 st E1 P1 Hio R
                | s1 E1 Hio N | s1 st E1 Hio R | e E1].
  - (* nothing changes *)
    assert (TW : tasks_nw s s').
    { right. exists t, x, (with_tst x (tst x)). repeat split; auto. }
    destruct (counts_nw ks s s' I TW CM) as [CU CW]. apply wake_ok_mono with s; auto. lia.
  - apply OT with (with_tst x (TDone ST_DISCONNECTED)); [apply TS; reflexivity|apply NP; reflexivity|].
    intros _ _ Wo. unfold woken in Wo. rewrite E1 in Wo. discriminate.
  - apply OT with (with_tst x (if tk x =? 2 then TReceipt id else TDone ST_OK)); [apply TS; reflexivity| |].
    + apply NP. destruct (tk x =? 2); reflexivity.
    + intros _ _ Wo. unfold woken in Wo. rewrite E1 in Wo. discriminate.
  - apply OT with (with_tst x (TDone ST_DISCONNECTED)); [apply TS; reflexivity|apply NP; reflexivity|].
    intros _ _ Wo. unfold woken in Wo. rewrite E1 in Wo. discriminate.
  - apply OT with (with_tst x (TDone ST_OK)); [apply TS; reflexivity|apply NP; reflexivity|].
    intros _ _ Wo. unfold woken in Wo. rewrite E1 in Wo. discriminate.
  - apply OT with (with_tst x (TDone ST_DISCONNECTED)); [apply TS; reflexivity|apply NP; reflexivity|].
    intros _ _ Wo. apply (woken_filled s x c) in Wo; [|now rewrite E1]. apply poll_cancel_dropped in P1. congruence.
  - apply OT with (with_tst x (TDone ST_OK)); [apply TS; reflexivity|apply NP; reflexivity|].
    intros _ P Wo. destruct (KN' P) as [K1 _]. rewrite E1 in K1. congruence.
  - apply OT with (with_tst x (TDone ST_DISCONNECTED)); [apply TS; apply N|apply NP; reflexivity|].
    intros _ P Wo. destruct P2 as [P2|P2].
    + apply (woken_filled s x c) in Wo; [|now rewrite E1]. apply poll_cancel_dropped in P2. congruence.
    + rewrite (closed_nU0 s SI) in P; [lia|]. rewrite P2. discriminate.
  - pose proof (send_res_tasks _ _ _ _ R) as T1. apply OT with (with_tst x st); [apply TS; exact T1| |].
    + intros U. apply unwoken_parked in U as [c0 U]. cbn [with_tst tst] in U.
      destruct R as [s1 e N | s1 Hio' CW P | s1 id Hio' L' W' P]; try discriminate. exact CW.
    + intros U P Wo. destruct R as [s1 e N | s1 Hio' CW P' | s1 id Hio' L' W' P'].
      * exfalso. destruct (KN' P) as [_ K2]. rewrite E1, Wo, FX in K2. discriminate.
      * exfalso. (* re-parked on a fresh open channel: it is un-woken *)
        unfold unwoken in U. cbn [with_tst tst twait] in U. unfold parked in P'. rewrite E in U. subst s1.
        unfold cg in U. sk in U. rewrite ch_get_app_new in U. discriminate.
      * rewrite E. sk. destruct P' as (_&_&_&P4&_). rewrite P4, lenN_app. rewrite lenN_cons, lenN_nil. lia.
  - apply OT with (with_tst x (TDone ST_DISCONNECTED)); [apply TS; apply N|apply NP; reflexivity|].
    intros _ _ Wo. unfold woken in Wo. rewrite E1 in Wo. discriminate.
  - pose proof (send_res_tasks _ _ _ _ R) as T1. apply OT with (with_tst x st); [apply TS; exact T1| |].
    + intros U. apply unwoken_parked in U as [c0 U]. cbn [with_tst tst] in U.
      destruct R as [s1 e N | s1 Hio' CW P | s1 id Hio' L' W' P]; try discriminate. exact CW.
    + intros _ _ Wo. unfold woken in Wo. rewrite E1 in Wo. discriminate.
  - apply OT with (with_tst x (TDone e)); [apply TS; reflexivity|apply NP; reflexivity|].
    intros _ _ Wo. unfold woken in Wo. rewrite E1 in Wo. discriminate.
Qed.

Lemma wake_ok_drop ks s t :
  inv ks s -> wake_ok s -> known_step s (ODrop t) = false -> wake_ok (drop_task s t).
Proof.
  intros I WO KN. set (s' := drop_task s t).
  assert (SI' : sink_inv s') by (apply inv_drop; now exists ks).
  destruct (eff_cases s s' (drop_eff s t)) as (C & W & [L|Z]); [|now apply wake_ok_closed].
  assert (CM : forall c, kof ks c = Some KW -> (c < length (chans s))%nat -> cm s s' c) by (intros; now apply cm_drop with ks).
  destruct (find_task t (tasks s)) as [x|] eqn:F; [|unfold s', drop_task; rewrite F; exact WO].
  unfold known_step, known_q, known_q2, known_qerr in KN. rewrite F in KN. rewrite !orb_false_r in KN.
  assert (OT : tasks s' = put_task t (with_tst x TDropped) (tasks s) -> wake_ok s').
  { intros T. eapply one_task_ok; eauto.
    - intros U. apply unwoken_parked in U as [c U]. discriminate.
    - intros _ P xo Fo Wo. rewrite F in Fo. injection Fo as <-. apply N.ltb_lt in P. rewrite P, Wo in KN. discriminate. }
  unfold s', drop_task in *. rewrite F in *.
  destruct (tst x) as [c|c id|id|c|c|e| | |e]; try exact WO; apply OT; cbv zeta; sk; auto.
  rewrite (nc_tasks _ _ (drop_sig_nc (drop_rx s c) x)). reflexivity.
Qed.

(* the operations that neither create / poll / drop a task nor wake anybody *)
Lemma wake_ok_other ks s s' :
  inv ks s -> sink_inv s' -> wake_ok s -> c05_eff s s' -> tasks_nw s s' ->
  (forall c, kof ks c = Some KW -> (c < length (chans s))%nat -> cm s s' c) -> wake_ok s'.
Proof.
  intros I SI' WO EF TW CM. destruct (eff_cases s s' EF) as (C & W & [L|Z]); [|now apply wake_ok_closed].
  destruct (counts_nw ks s s' I TW CM) as [CU CW]. apply wake_ok_mono with s; auto. lia.
Qed.

Lemma wake_ok_step s o :
  sink_inv s -> settled s -> wake_ok s -> known_step s o = false -> wake_ok (sink_step s o).
Proof.
  intros SI ST WO KN. pose proof (inv_step s o SI ST) as SI'. destruct SI as [ks I].
  assert (CMA : forall c, kof ks c = Some KW -> (c < length (chans s))%nat -> cm s (sink_step s o) c).
  { intros c K L. now apply step_cm with ks. }
  destruct o as [t k i z|t|t|l|t|t|on|n| | |n|t n|t|t| |t k i z|ip]; cbn [sink_step] in *.
  - now apply wake_ok_start with ks.
  - now apply wake_ok_poll with ks.
  - now apply wake_ok_drop with ks.
  - apply wake_ok_ack_list; auto. now exists ks.
  - eapply wake_ok_other; eauto; [apply release_eff|apply release_tw].
  - eapply wake_ok_other; eauto; [apply drop_receipt_eff|apply drop_receipt_tw].
  - apply wake_ok_wrb. now exists ks.
  - apply wake_ok_set_cap. now exists ks.
  - apply wake_ok_closed; auto. destruct (close_facts s RC_NORMAL) as (_ & _ & _ & _ & Z). exact Z.
  - apply wake_ok_closed; auto. unfold do_force_close. rewrite clear_queues_eq. discriminate.
  - eapply wake_ok_other; eauto; [apply eff_same; try reflexivity; now left|now left].
  - eapply wake_ok_other; eauto; [apply chunk_eff|apply chunk_tw].
  - eapply wake_ok_other; eauto; [apply drop_stream_eff|apply drop_stream_tw].
  - eapply wake_ok_other; eauto; [apply drop_chunk_eff|apply drop_chunk_tw].
  - exact WO.
  - now apply wake_ok_create with ks.
  - eapply wake_ok_other; eauto; [apply in_publish_eff|left; apply in_publish_tasks].
Qed.

Lemma wake_ok_op s o :
  sink_inv s -> settled s -> wake_ok s -> known_step (set_wire s []) o = false -> wake_ok (sink_op s o).
Proof.
  intros SI ST WO KN. unfold sink_op. set (s0 := set_wire s []).
  assert (SI0 : sink_inv s0) by (destruct SI as [ks I]; exists ks; apply inv_core with s; auto).
  pose proof (wake_ok_step s0 o SI0 ST WO KN) as W1. set (s1 := sink_step s0 o) in *.
  unfold wake_ok in *. destruct (settle_counts s1) as [-> ->]. destruct (settle_same s1) as (-> & -> & _ & ->). exact W1.
Qed.

Theorem wake_inv ops : forall s, sink_inv s -> settled s -> wake_ok s -> Known s ops = false -> wake_ok (run_from s ops).
Proof.
  induction ops as [|o r IH]; intros s SI ST WO KN; cbn [run_from fold_left Known] in *; auto.
  apply orb_false_iff in KN as [K1 K2]. destruct (inv_sink_op s o SI ST) as [SI1 ST1].
  apply IH; auto. now apply wake_ok_op.
Qed.

Theorem wake_inv_init v cl c ops : Known (sink_init v cl c) ops = false -> wake_ok (run_from (sink_init v cl c) ops).
Proof.
  apply wake_inv; [exists []; apply inv_init|now left|]. intros P. cbv in P. discriminate.
Qed.

(* ---------------------------------------------------------------- quiescence *)
Lemma cnt_zero P l : cnt P l = 0 -> forall t x, In (t, x) l -> P x = false.
Proof.
  intros Z t x H. destruct (P x) eqn:E; auto. pose proof (cnt_in P l t x H E). lia.
Qed.

(* nobody woken and not yet resumed, back-pressure off, everything acknowledged *)
Definition quiescent (s : sink) : Prop := nW s = 0 /\ wrb s = false /\ inflight s = [].
Definition finished (st : tstate) : Prop :=
  match st with TDone _ | TReceipt _ | TDropped => True | _ => False end.

Theorem quiescent_all_done s t x :
  sink_inv s -> wake_ok s -> 1 <= cap s -> quiescent s ->
  find_task t (tasks s) = Some x -> tst x <> TNew ->
  nU s = 0 /\ exists x', find_task t (tasks (poll_task s t)) = Some x' /\ finished (tst x').
Proof.
  intros [ks I] WO C (QW & QB & QI) F NN.
  assert (U0 : nU s = 0).
  { destruct (N.eq_dec (nU s) 0) as [|N]; auto. exfalso. destruct WO as [Z|Z]; [lia|rewrite QI, lenN_nil, QW in Z; lia|congruence]. }
  split; auto.
  assert (H : In (t, x) (tasks s)) by (apply find_task_In; auto; apply I).
  destruct (i_task _ _ I t x H) as [SO _].
  pose proof (cnt_zero _ _ U0 t x H) as NU. pose proof (cnt_zero _ _ QW t x H) as NW.
  unfold poll_task. rewrite F. unfold unwoken, woken, st_ok in *.
  assert (PD : forall c, c_st (cg s c) = CSenderDropped -> poll s c = PCanceled).
  { intros c E. unfold poll, ch_poll. fold (cg s c). now rewrite E. }
  destruct (tst x) as [c|c id|id|c|c|e| | |e] eqn:E; cbn [twait] in *.
  - destruct (c_st (cg s c)) eqn:Q; try discriminate. rewrite (PD c Q). eexists. sk. rewrite find_put_same. split; [reflexivity|exact Logic.I].
  - destruct SO as (_ & _ & _ & S4 & _). unfold poll, ch_poll. fold (cg s c).
    destruct (c_st (cg s c)) eqn:Q; [specialize (S4 eq_refl); rewrite QI in S4; contradiction| |];
      eexists; sk; rewrite find_put_same; (split; [reflexivity|]); cbn [with_tst tst]; [destruct (tk x =? 2)|]; exact Logic.I.
  - eexists. sk. rewrite find_put_same. split; [reflexivity|exact Logic.I].
  - destruct SO as (_ & _ & S3 & _). unfold poll, ch_poll. fold (cg s c).
    destruct (c_st (cg s c)) eqn:Q; [destruct (S3 eq_refl) as (i & Hi); rewrite QI in Hi; contradiction| |];
      eexists; sk; rewrite find_put_same; (split; [reflexivity|exact Logic.I]).
  - destruct (c_st (cg s c)) eqn:Q; try discriminate. rewrite (PD c Q). eexists. sk. rewrite find_put_same. split; [reflexivity|exact Logic.I].
  - eexists. sk. rewrite find_put_same. split; [reflexivity|exact Logic.I].
  - eexists. sk. rewrite find_put_same. split; [reflexivity|exact Logic.I].
  - contradiction.
  - eexists. sk. rewrite find_put_same. split; [reflexivity|exact Logic.I].
Qed.

(* ---------------------------------------------------------------- cancelled waiters do not absorb a wake-up *)
Theorem cancelled_head_skipped chs n c r :
  c_rx (ch_get chs c) = false -> n <> 0 -> wake_go chs n (c :: r) = wake_go chs n r.
Proof.
  intros R N. cbn [wake_go]. destruct (N.eqb_spec n 0); [contradiction|]. unfold ch_send. rewrite R. reflexivity.
Qed.

Theorem wake_reaches_live ks s n :
  inv ks s -> nU (wake s n) <= nU s /\ exists m, nW s + m <= nW (wake s n) /\ (0 < nU (wake s n) -> m = n).
Proof. apply wake_counts. Qed.

(* ---------------------------------------------------------------- a streamed send paused by back-pressure resumes *)
Theorem stream_resumes s t x sm c m :
  sink_inv s -> find_task t (tasks s) = Some x -> tstream x = Some sm -> s_alive sm = true ->
  pend sm = SWaitWrb c m -> c_st (cg s c) = COpen ->
  let s' := do_wrb s false in
  cg s' c = mkChan CFilled 0 true /\ wrb s' = false /\ swait s' = None /\ wake_ok s' /\
  forall n, chunk_task s' t n =
    (let '(s1, sm1) := chunk_payload s' sm (s_rx sm) m in set_tasks s1 (put_task t (with_stream x sm1) (tasks s1))).
Proof.
  intros SI F TS AL PE O. pose proof (wake_ok_wrb s false SI) as WO. destruct SI as [ks I].
  assert (H : In (t, x) (tasks s)) by (apply find_task_In; auto; apply I).
  destruct (i_task _ _ I t x H) as [_ MO]. unfold sm_ok in MO. rewrite TS, PE in MO.
  destruct MO as (_ & KB' & RX & SW). specialize (SW O).
  cbv zeta.
  set (s2 := set_swait (set_chans (set_wrb s false) (fst (ch_send (chans s) c 0))) None).
  assert (E : do_wrb s false = if lenN (inflight s) <? cap s then wake s2 (cap s - lenN (inflight s)) else s2).
  { unfold do_wrb, s2. sk. rewrite SW, send_eq. reflexivity. }
  rewrite E in *. clear E.
  assert (C2 : cg s2 c = mkChan CFilled 0 true).
  { unfold cg, s2. sk. rewrite ch_send_get, Nat.eqb_refl. fold (cg s c). now rewrite RX. }
  assert (NW : ~ In c (waiters s)).
  { intros W. apply (i_ws _ _ I) in W as [W _]. congruence. }
  assert (G : forall s3, (s3 = s2 \/ s3 = wake s2 (cap s2 - lenN (inflight s2))) ->
     cg s3 c = mkChan CFilled 0 true /\ wrb s3 = false /\ swait s3 = None /\ tasks s3 = tasks s).
  { intros s3 [-> | ->]; [auto|]. rewrite wake_eq. unfold cg. sk. repeat split; auto.
    destruct (wake_go_spec (waiters s) (fst (ch_send (chans s) c 0)) (cap s - lenN (inflight s)) (i_wsnd _ _ I)) as (p & w & W1 & W2 & W3 & _).
    rewrite W3. destruct (existsb (Nat.eqb c) w) eqn:Q; [reflexivity|]. exact C2. }
  assert (FIN : forall s3, (s3 = s2 \/ s3 = wake s2 (cap s2 - lenN (inflight s2))) -> wake_ok s3 ->
     cg s3 c = mkChan CFilled 0 true /\ wrb s3 = false /\ swait s3 = None /\ wake_ok s3 /\
     forall n, chunk_task s3 t n =
       (let '(s1, sm1) := chunk_payload s3 sm (s_rx sm) m in set_tasks s1 (put_task t (with_stream x sm1) (tasks s1)))).
  { intros s3 E3 W3. destruct (G s3 E3) as (G1 & G2 & G3 & G4). split; [exact G1|]. split; [exact G2|]. split; [exact G3|].
    split; [exact W3|]. intros n. unfold chunk_task. rewrite G4, F, TS, AL, PE. cbn [negb]. unfold poll, ch_poll.
    unfold cg in G1. rewrite G1. reflexivity. }
  destruct (lenN (inflight s) <? cap s); apply FIN; auto.
Qed.

(* ---------------------------------------------------------------- the recorded findings are real: witnesses *)
Fixpoint Known_by (f : sink -> op -> bool) (s : sink) (ops : list op) : bool :=
  match ops with [] => false | o :: r => ((0 <? nU (set_wire s [])) && f (set_wire s []) o) || Known_by f (sink_op s o) r end.

Definition case_q : list op := map parse_op [[1;1;1;0];[1;2;1;0];[1;3;1;0];[4;1;1];[3;2];[2;1];[2;3]].
Definition case_q2 : list op := map parse_op [[1;1;1;0];[1;2;5;0];[1;3;1;0];[4;1;1];[2;2];[2;3];[2;1]].
Definition case_qerr : list op := map parse_op [[1;1;1;0];[1;2;7;0;5];[1;3;1;0];[14;2];[4;1;1];[2;1];[2;2];[2;3]].

(* final state: a live parked sender although nothing is outstanding, back-pressure is off and the window is open *)
Definition stranded (s : sink) : Prop :=
  nU s = 1 /\ nW s = 0 /\ inflight s = [] /\ wrb s = false /\ cap s = 1 /\ io s = 0 /\ ~ wake_ok s.

Lemma known_q_refuted :
  Known_by known_q (sink_init 3 false 1) case_q = true /\ Known (sink_init 3 false 1) case_q = true /\
  stranded (run_from (sink_init 3 false 1) case_q).
Proof.
  split; [vm_compute; reflexivity|]. split; [vm_compute; reflexivity|]. unfold stranded.
  set (s := run_from (sink_init 3 false 1) case_q).
  assert (E1 : nU s = 1) by (vm_compute; reflexivity).
  assert (E2 : nW s = 0) by (vm_compute; reflexivity).
  assert (E3 : inflight s = []) by (vm_compute; reflexivity).
  assert (E4 : wrb s = false) by (vm_compute; reflexivity).
  assert (E5 : cap s = 1) by (vm_compute; reflexivity).
  assert (E6 : io s = 0) by (vm_compute; reflexivity).
  clearbody s. repeat split; auto.
  unfold wake_ok. rewrite E1, E2, E3, E4, E5. intros W. destruct W as [W|W]; [lia|change (1 <= 0 + 0) in W; lia|discriminate].
Qed.

Lemma known_q2_refuted :
  Known_by known_q2 (sink_init 3 false 1) case_q2 = true /\ Known (sink_init 3 false 1) case_q2 = true /\
  stranded (run_from (sink_init 3 false 1) case_q2).
Proof.
  split; [vm_compute; reflexivity|]. split; [vm_compute; reflexivity|]. unfold stranded.
  set (s := run_from (sink_init 3 false 1) case_q2).
  assert (E1 : nU s = 1) by (vm_compute; reflexivity).
  assert (E2 : nW s = 0) by (vm_compute; reflexivity).
  assert (E3 : inflight s = []) by (vm_compute; reflexivity).
  assert (E4 : wrb s = false) by (vm_compute; reflexivity).
  assert (E5 : cap s = 1) by (vm_compute; reflexivity).
  assert (E6 : io s = 0) by (vm_compute; reflexivity).
  clearbody s. repeat split; auto.
  unfold wake_ok. rewrite E1, E2, E3, E4, E5. intros W. destruct W as [W|W]; [lia|change (1 <= 0 + 0) in W; lia|discriminate].
Qed.

Lemma known_qerr_refuted :
  Known_by known_qerr (sink_init 3 false 1) case_qerr = true /\ Known (sink_init 3 false 1) case_qerr = true /\
  stranded (run_from (sink_init 3 false 1) case_qerr).
Proof.
  split; [vm_compute; reflexivity|]. split; [vm_compute; reflexivity|]. unfold stranded.
  set (s := run_from (sink_init 3 false 1) case_qerr).
  assert (E1 : nU s = 1) by (vm_compute; reflexivity).
  assert (E2 : nW s = 0) by (vm_compute; reflexivity).
  assert (E3 : inflight s = []) by (vm_compute; reflexivity).
  assert (E4 : wrb s = false) by (vm_compute; reflexivity).
  assert (E5 : cap s = 1) by (vm_compute; reflexivity).
  assert (E6 : io s = 0) by (vm_compute; reflexivity).
  clearbody s. repeat split; auto.
  unfold wake_ok. rewrite E1, E2, E3, E4, E5. intros W. destruct W as [W|W]; [lia|change (1 <= 0 + 0) in W; lia|discriminate].
Qed.

(* ---------------------------------------------------------------- a send that fails locally reserves nothing *)
(* the connection-level bookkeeping a send registers itself in, and the wire *)
Definition books (s s' : sink) : Prop :=
  inflight s' = inflight s /\ ids s' = ids s /\ rxm s' = rxm s /\ waiters s' = waiters s /\ swait s' = swait s /\
  srem s' = srem s /\ crem s' = crem s /\ wire s' = wire s.

Lemma books_refl s : books s s.
Proof. unfold books. repeat split. Qed.
Lemma books_tasks s s1 l : books s s1 -> books s (set_tasks s1 l).
Proof. unfold books. sk. auto. Qed.
Lemma nopush_books x s s1 : nopush x s s1 -> books s s1.
Proof.
  unfold nopush, books. intros (A1&A2&A3&A4&A5&A6&A7&A8&A9&A10&A11&A12&A13&A14&A15&A16). repeat split; assumption.
Qed.

Definition ended (st : tstate) (e : N) : Prop := st = TDone e \/ st = TDeferred e.

Lemma send_res_ended s x s1 st e : send_res s x s1 st -> ended st e \/ ended (defer st) e -> books s s1.
Proof.
  intros R E. destruct R as [s1 e0 NP|s1 Hio W P|s1 id Hio L W P].
  - eapply nopush_books; eauto.
  - exfalso. cbn [defer] in E. unfold ended in E. destruct E as [[E|E]|[E|E]]; discriminate.
  - exfalso. cbn [defer] in E. unfold ended in E. destruct E as [[E|E]|[E|E]]; discriminate.
Qed.

(* the wait_publish_response level: every error leaves the state as it was *)
Lemma wait_publish_response_err s id ack rem tag big s' e :
  wait_publish_response s id ack rem tag big = (s', inr e) -> s' = s.
Proof.
  unfold wait_publish_response, enc_publish_chk, new_chan.
  destruct (stopped s); [intros H; now injection H as <- _|].
  destruct (negb (srem s =? 0)); [intros H; now injection H as <- _|].
  destruct (memN id (ids s)); [intros H; now injection H as <- _|].
  destruct (big && (io s =? 0)); [intros H; now injection H as <- _|]. discriminate.
Qed.

(* a PUBLISH larger than the maximum outbound packet size on an open connection is refused by the encoder *)
Lemma wait_publish_response_big s id ack rem tag :
  srem s = 0 -> memN id (ids s) = false -> io s = 0 ->
  wait_publish_response s id ack rem tag true = (s, inr ST_ENCODE).
Proof.
  intros S M I. unfold wait_publish_response, enc_publish_chk, stopped. rewrite S, M, I. reflexivity.
Qed.

Lemma poll_ended_books s t x' e :
  find_task t (tasks (poll_task s t)) = Some x' -> ended (tst x') e -> books s (poll_task s t).
Proof.
  destruct (find_task t (tasks s)) as [x|] eqn:F.
  2:{ intros _ _. unfold poll_task. rewrite F. apply books_refl. }
  destruct (poll_task_spec s t x F) as (s1 & st & R & ->). sk. rewrite find_put_same.
  intros H E. injection H as <-. cbn [with_tst tst] in E. apply books_tasks.
  destruct R; try apply books_refl; try (eapply nopush_books; eassumption);
    eapply send_res_ended; eauto.
Qed.

Lemma start_ended_books s t k idq size x' e :
  find_task t (tasks (start_task s t k idq size)) = Some x' -> tk x' = 8 -> ended (tst x') e ->
  books s (start_task s t k idq size).
Proof.
  destruct (find_task t (tasks s)) as [x|] eqn:F.
  { intros _ _ _. unfold start_task. rewrite F. apply books_refl. }
  pose proof (start_task_spec s t k idq size F) as R.
  remember (start_task s t k idq size) as S eqn:ES. clear ES.
  destruct R as [|s1 e0 K P|e0 K|s1 K Hio W P|s0 x s1 st K E0 EX R]; intros H T E.
  - apply books_refl.
  - exfalso. sk in H. rewrite find_put_same in H. injection H as <-. discriminate.
  - exfalso. sk in H. rewrite find_put_same in H. injection H as <-. discriminate.
  - exfalso. sk in H. rewrite find_put_same in H. injection H as <-. discriminate.
  - sk in H. rewrite find_put_same in H. injection H as <-. rewrite nsp_tk in T. rewrite nsp_tst in E.
    assert (K8 : k = 8) by (subst x; unfold new_task in T; destruct (k =? 7); exact T).
    subst k. cbn [N.eqb Pos.eqb] in E0. subst s0. apply books_tasks. eapply send_res_ended; eauto.
Qed.

Lemma create_ended_books s t k idq size x' e :
  find_task t (tasks (create_task s t k idq size)) = Some x' -> tk x' = 8 -> ended (tst x') e ->
  books s (create_task s t k idq size).
Proof.
  destruct (find_task t (tasks s)) as [x|] eqn:F.
  { intros _ _ _. unfold create_task. rewrite F. apply books_refl. }
  pose proof (create_task_spec s t k idq size F) as R.
  remember (create_task s t k idq size) as S eqn:ES. clear ES.
  destruct R as [|K|e0 K|s1 K Hio W P|K|s0 x s1 st K E0 EX R]; intros H T E.
  - apply books_refl.
  - eapply start_ended_books; eauto.
  - exfalso. sk in H. rewrite find_put_same in H. injection H as <-. discriminate.
  - exfalso. sk in H. rewrite find_put_same in H. injection H as <-. discriminate.
  - exfalso. sk in H. rewrite find_put_same in H. injection H as <-. cbn [tk] in T. destruct K; congruence.
  - sk in H. rewrite find_put_same in H. injection H as <-. rewrite nsp_tk in T. rewrite nsp_tst in E.
    assert (K8 : k = 8) by (subst x; unfold new_task in T; destruct (k =? 7); exact T).
    subst k. cbn [N.eqb Pos.eqb] in E0. subst s0. apply books_tasks. eapply send_res_ended; eauto.
Qed.

Lemma settle_books s s1 : books s s1 -> books s (settle s1).
Proof. unfold books, settle. destruct (io s1 =? 1); sk; auto. Qed.

(* a QoS 1 send whose PUBLISH cannot be encoded (kind 8) reserves nothing *)
Theorem failed_publish_reserves_nothing (s : sink) (o : op) (t : N) (x' : task) :
  (o = OPoll t \/ exists k idq size, o = OStart t k idq size \/ o = OCreate t k idq size) ->
  find_task t (tasks (sink_op s o)) = Some x' -> tk x' = 8 ->
  (tst x' = TDone ST_ENCODE \/ tst x' = TDeferred ST_ENCODE) ->
  let s' := sink_op s o in
  inflight s' = inflight s /\ ids s' = ids s /\ rxm s' = rxm s /\ waiters s' = waiters s /\ swait s' = swait s /\
  srem s' = srem s /\ crem s' = crem s /\ wire s' = [].
Proof.
  intros O H T E. cbv zeta.
  assert (TS : forall a, tasks (settle a) = tasks a) by (intros a; unfold settle; destruct (io a =? 1); reflexivity).
  unfold sink_op in *. rewrite TS in H.
  assert (B : books (set_wire s []) (settle (sink_step (set_wire s []) o))).
  { apply settle_books. destruct O as [->|(k & idq & size & [->| ->])]; cbn [sink_step] in *.
    - eapply poll_ended_books; eauto.
    - eapply start_ended_books; eauto.
    - eapply create_ended_books; eauto. }
  unfold books in B. sk in B. exact B.
Qed.

(* ---------------------------------------------------------------- the reason code of the DISCONNECT a close writes *)
(* what a close may append to the wire: the DISCONNECT with the caller's reason (v5) / without a reason (v3) *)
Definition disc_entry (s : sink) (r : N) : list N := [W_DISCONNECT; if ver s =? 3 then 0 else r].

Lemma clear_queues_wire s : wire (clear_queues s) = wire s.
Proof. rewrite clear_queues_eq. reflexivity. Qed.

Lemma do_close_wire s r :
  wire (do_close s r) = wire s \/ wire (do_close s r) = wire s ++ disc_entry s r.
Proof.
  unfold do_close, disc_entry. destruct (ver s =? 3); rewrite clear_queues_wire;
    unfold disconnect_sent, io_close, is_closed, enc_packet, add_wire; sk.
  - destruct (client s); [|destruct (io s =? 0); sk; auto].
    destruct (disc s); sk; [destruct (io s =? 0); sk; auto|].
    destruct (negb (srem s =? 0)); sk; [destruct (io s =? 0); sk; auto|].
    destruct (io s =? 0) eqn:E; sk; [|rewrite E; sk; auto].
    destruct (negb (crem s =? 0)); sk; rewrite E; sk; auto.
  - destruct (io s =? 2); [auto|].
    destruct (disc s); sk; [destruct (io s =? 0); sk; auto|].
    destruct (io s =? 0) eqn:E; sk; [|rewrite E; sk; auto].
    destruct (negb (crem s =? 0)); sk; rewrite E; sk; auto.
Qed.

Lemma pkt_ack_inner_wire s k id : wire (fst (pkt_ack_inner s k id)) = wire s.
Proof.
  unfold pkt_ack_inner. destruct (inflight s) as [|[[i tx] tp] rest]; [reflexivity|].
  assert (DT : forall s0, wire (drop_tx_opt s0 tx) = wire s0) by (intros s0; destruct tx; reflexivity).
  assert (SO : forall s0 v, wire (send_opt s0 tx v) = wire s0).
  { intros s0 v. unfold send_opt, send. destruct tx; [destruct (ch_send _ _ _)|]; reflexivity. }
  destruct (negb (i =? id)); [cbn [fst]; now rewrite DT|].
  destruct (negb (k =? tp)); [cbn [fst]; now rewrite DT|].
  destruct (k =? 2).
  { unfold new_chan, rxm_insert. cbn [fst]. sk. destruct (rxm_find _ _); sk; unfold drop_rx; sk; now rewrite SO. }
  destruct (k =? 3).
  { cbn [fst]. rewrite wake_eq. sk. rewrite SO. destruct (rxm_find _ _); unfold drop_rx; reflexivity. }
  cbn [fst]. rewrite wake_eq. sk. now rewrite SO.
Qed.

(* processing one acknowledgement writes nothing, or -- when it breaks the rules (packet id 0, nothing
   outstanding, not the id / kind of the oldest outstanding send) -- at most the DISCONNECT with the reason
   ImplementationSpecificError (v5; a v3 DISCONNECT has no reason code): never "normal disconnection" *)
Theorem ack_one_disconnect_reason s k id :
  wire (ack_one s k id) = wire s \/ wire (ack_one s k id) = wire s ++ disc_entry s RC_IMPL.
Proof.
  unfold ack_one. destruct (negb (io s =? 0)); [now left|].
  destruct (_ || _); [now left|]. destruct (id =? 0); [apply do_close_wire|].
  destruct (_ && _); [now left|]. unfold pkt_ack.
  pose proof (pkt_ack_inner_wire s k id) as W.
  assert (V : ver (fst (pkt_ack_inner s k id)) = ver s).
  { unfold pkt_ack_inner. destruct (inflight s) as [|[[i tx] tp] rest]; [reflexivity|].
    assert (DT : forall s0, ver (drop_tx_opt s0 tx) = ver s0) by (intros s0; destruct tx; reflexivity).
    assert (SO : forall s0 v, ver (send_opt s0 tx v) = ver s0).
    { intros s0 v. unfold send_opt, send. destruct tx; [destruct (ch_send _ _ _)|]; reflexivity. }
    destruct (negb (i =? id)); [cbn [fst]; now rewrite DT|].
    destruct (negb (k =? tp)); [cbn [fst]; now rewrite DT|].
    destruct (k =? 2).
    { unfold new_chan, rxm_insert. cbn [fst]. sk. destruct (rxm_find _ _); sk; unfold drop_rx; sk; now rewrite SO. }
    destruct (k =? 3).
    { cbn [fst]. rewrite wake_eq. sk. rewrite SO. destruct (rxm_find _ _); unfold drop_rx; reflexivity. }
    cbn [fst]. rewrite wake_eq. sk. now rewrite SO. }
  destruct (pkt_ack_inner s k id) as [s1 [|]]; cbn [fst] in *; [now left|].
  destruct (do_close_wire s1 RC_IMPL) as [E|E]; rewrite E, W; [now left|right].
  unfold disc_entry. now rewrite V.
Qed.
