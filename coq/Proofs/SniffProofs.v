(* Proofs/SniffProofs.v -- theorems about Model/Sniff.v (version::VersionCodec::decode). *)
From Coq Require Import ZArith ZifyN ZifyBool Lia.
From MV Require Import Base.Prelude Base.Res Base.VarInt Proofs.VarIntProofs Model.Sniff.
From MV Require Base.Utf8 Model.CodecV5 Model.CodecV3.
Ltac Zify.zify_post_hook ::= Z.div_mod_to_equations.

(* ------------------------------------------------------------------ len / sl / idx *)
Lemma len_app a b : len (a ++ b) = len a + len b.
Proof. unfold len. rewrite app_length. lia. Qed.

Lemma len_cons x a : len (x :: a) = len a + 1.
Proof. unfold len. cbn [length]. lia. Qed.

Lemma sl_ok a b s : a <= b -> b <= len s ->
  sl a b s = Ok (firstn (N.to_nat (b - a)) (skipn (N.to_nat a) s)).
Proof.
  intros H1 H2. unfold sl.
  replace ((a <=? b) && (b <=? len s)) with true by lia. reflexivity.
Qed.

Lemma sl_panic a b s : ~ (a <= b /\ b <= len s) -> sl a b s = Panic PS_index.
Proof.
  intros H. unfold sl.
  replace ((a <=? b) && (b <=? len s)) with false by lia. reflexivity.
Qed.

Lemma idx_ok i s : i < len s -> idx i s = Ok (nth (N.to_nat i) s 0).
Proof.
  unfold idx, len. intros H.
  assert (Hn : (N.to_nat i < length s)%nat) by lia.
  revert Hn. generalize (N.to_nat i). clear. intros n; revert s.
  induction n as [|n IH]; intros [|x s] Hn; cbn [length skipn nth] in *; try lia.
  - reflexivity.
  - apply IH. lia.
Qed.

Lemma idx_panic i s : len s <= i -> idx i s = Panic PS_index.
Proof.
  unfold idx, len. intros H. rewrite skipn_all2 by lia. reflexivity.
Qed.

Lemma skipn_len_app q r a : skipn (N.to_nat (len q + a)) (q ++ r) = skipn (N.to_nat a) r.
Proof.
  unfold len.
  replace (N.to_nat (N.of_nat (length q) + a)) with (length q + N.to_nat a)%nat by lia.
  rewrite skipn_app. rewrite skipn_all2 by lia.
  replace (length q + N.to_nat a - length q)%nat with (N.to_nat a) by lia. reflexivity.
Qed.

Lemma sl_app q r x y a n : x = len q + a -> y = x + n -> a + n <= len r ->
  sl x y (q ++ r) = Ok (firstn (N.to_nat n) (skipn (N.to_nat a) r)).
Proof.
  intros -> -> H. rewrite sl_ok; [| lia | rewrite len_app; lia].
  rewrite skipn_len_app. f_equal. f_equal. lia.
Qed.

Lemma idx_app q r x a : x = len q + a -> idx x (q ++ r) = idx a r.
Proof. intros ->. unfold idx. rewrite skipn_len_app. reflexivity. Qed.

(* ------------------------------------------------------------------ dec_vi / dec_vi_opt *)
Lemma dec_vi_ok_inv s v r : dec_vi s = Ok (v, r) ->
  exists p, s = p ++ r /\ (1 <= length p <= 4)%nat /\ forall r', dec_vi (p ++ r') = Ok (v, r').
Proof.
  unfold dec_vi. intros H.
  destruct s as [|a s]; cbn [dec_vi_go] in H; [discriminate|].
  destruct (a <? 128) eqn:Ea.
  { injection H as <- <-. exists [a]. cbn [length app]. repeat split; try lia.
    intros r'. cbn [dec_vi_go]. rewrite Ea. reflexivity. }
  destruct s as [|b s]; cbn [dec_vi_go] in H; [discriminate|].
  destruct (b <? 128) eqn:Eb.
  { injection H as <- <-. exists [a; b]. cbn [length app]. repeat split; try lia.
    intros r'. cbn [dec_vi_go]. rewrite Ea, Eb. reflexivity. }
  destruct s as [|c s]; cbn [dec_vi_go] in H; [discriminate|].
  destruct (c <? 128) eqn:Ec.
  { injection H as <- <-. exists [a; b; c]. cbn [length app]. repeat split; try lia.
    intros r'. cbn [dec_vi_go]. rewrite Ea, Eb, Ec. reflexivity. }
  destruct s as [|d s]; cbn [dec_vi_go] in H; [discriminate|].
  destruct (d <? 128) eqn:Ed; [|discriminate].
  injection H as <- <-. exists [a; b; c; d]. cbn [length app]. repeat split; try lia.
  intros r'. cbn [dec_vi_go]. rewrite Ea, Eb, Ec, Ed. reflexivity.
Qed.

(* the two ways [dec_vi] fails: ran out of bytes (fewer than 4 bytes, all with the continuation
   bit; ANY extension by a byte < 128 completes it), or four continuation bytes (stable) *)
Lemma dec_vi_err_inv s e : dec_vi s = Err e ->
  (e = DE_MalformedPacket /\ (length s < 4)%nat /\
   forall x more, x < 128 -> exists v, dec_vi (s ++ x :: more) = Ok (v, more)) \/
  (e = DE_InvalidLength /\ (4 <= length s)%nat /\ forall more, dec_vi (s ++ more) = Err e).
Proof.
  unfold dec_vi. intros H.
  destruct s as [|a s]; cbn [dec_vi_go] in H.
  { injection H as <-. left. cbn [length app]. repeat split; try lia.
    intros x more Hx. cbn [dec_vi_go]. replace (x <? 128) with true by lia. eauto. }
  destruct (a <? 128) eqn:Ea; [discriminate|].
  destruct s as [|b s]; cbn [dec_vi_go] in H.
  { injection H as <-. left. cbn [length app]. repeat split; try lia.
    intros x more Hx. cbn [dec_vi_go]. rewrite Ea. replace (x <? 128) with true by lia. eauto. }
  destruct (b <? 128) eqn:Eb; [discriminate|].
  destruct s as [|c s]; cbn [dec_vi_go] in H.
  { injection H as <-. left. cbn [length app]. repeat split; try lia.
    intros x more Hx. cbn [dec_vi_go]. rewrite Ea, Eb. replace (x <? 128) with true by lia. eauto. }
  destruct (c <? 128) eqn:Ec; [discriminate|].
  destruct s as [|d s]; cbn [dec_vi_go] in H.
  { injection H as <-. left. cbn [length app]. repeat split; try lia.
    intros x more Hx. cbn [dec_vi_go]. rewrite Ea, Eb, Ec. replace (x <? 128) with true by lia. eauto. }
  destruct (d <? 128) eqn:Ed; [discriminate|].
  injection H as <-. right. cbn [length app]. repeat split; try lia.
  intros more. cbn [dec_vi_go]. rewrite Ea, Eb, Ec, Ed. reflexivity.
Qed.

Lemma dec_vi_opt_some s v k : dec_vi_opt s = Ok (Some (v, k)) ->
  1 <= k <= 4 /\ k <= len s /\
  dec_vi s = Ok (v, skipn (N.to_nat k) s) /\
  forall more, dec_vi_opt (s ++ more) = Ok (Some (v, k)).
Proof.
  unfold dec_vi_opt. destruct (dec_vi s) as [[v' r]|e|p] eqn:Ed;
    [| destruct (e =? DE_MalformedPacket); discriminate | discriminate].
  intros [= -> <-]. apply dec_vi_ok_inv in Ed as (p & -> & Hl & Hall).
  rewrite len_app. replace (len p + len r - len r) with (len p) by lia.
  pose proof (eq_refl : len p = N.of_nat (length p)) as Hp.
  repeat split; try lia.
  - unfold len. rewrite Nat2N.id. rewrite skipn_app, skipn_all, Nat.sub_diag. reflexivity.
  - intros more. rewrite <- app_assoc, Hall. rewrite !len_app. do 3 f_equal. lia.
Qed.

Lemma dec_vi_opt_err s e : dec_vi_opt s = Err e ->
  e = DE_InvalidLength /\ (4 <= length s)%nat /\ forall more, dec_vi_opt (s ++ more) = Err e.
Proof.
  unfold dec_vi_opt. destruct (dec_vi s) as [[v' r]|e'|p] eqn:Ed; [discriminate| |discriminate].
  apply dec_vi_err_inv in Ed as [(-> & _)|(-> & Hl & Hall)]; [discriminate|].
  intros [= <-]. repeat split; try assumption. intros more. rewrite Hall. reflexivity.
Qed.

Lemma dec_vi_opt_none s : dec_vi_opt s = Ok None ->
  (length s < 4)%nat /\ dec_vi s = Err DE_MalformedPacket /\
  forall x more, x < 128 -> exists v, dec_vi_opt (s ++ x :: more) = Ok (Some (v, len s + 1)).
Proof.
  unfold dec_vi_opt. destruct (dec_vi s) as [[v' r]|e'|p] eqn:Ed; [discriminate| |discriminate].
  apply dec_vi_err_inv in Ed as [(-> & Hl & Hall)|(-> & _)]; [|discriminate].
  intros _. repeat split; try assumption. intros x more Hx.
  destruct (Hall x more Hx) as [v Hv]. exists v. rewrite Hv. rewrite len_app, len_cons. do 3 f_equal. lia.
Qed.

Lemma dec_vi_opt_total s : match dec_vi_opt s with Panic _ => False | _ => True end.
Proof.
  unfold dec_vi_opt. pose proof (dec_vi_total s) as H.
  destruct (dec_vi s) as [[v r]|e|p]; [exact I| destruct (e =? DE_MalformedPacket); exact I | exact H].
Qed.

(* ------------------------------------------------------------------ a closed form of [sniff] *)
Definition sniff_body (r : bytes) : res (option N) :=
  match r with
  | l0 :: l1 :: m0 :: m1 :: m2 :: m3 :: lvl :: _ =>
    if (l0 * 256 + l1 =? 4) && bytes_eqb [m0; m1; m2; m3] S_MQTT then
      if lvl =? 4 then Ok (Some 4) else if lvl =? 5 then Ok (Some 5) else Err DE_InvalidProtocol
    else Err DE_InvalidProtocol
  | _ => Ok None
  end.

Definition sniff_after (b0 : N) (d : res (N * bytes)) : res (option N) :=
  match d with
  | Ok (_, r) => if b0 =? S_CONNECT then sniff_body r else Err DE_UnsupportedPacketType
  | Err e => if e =? DE_MalformedPacket then Ok None else Err e
  | Panic p => Panic p
  end.

Definition sniff_spec (b : bytes) : res (option N) :=
  match b with
  | [] => Ok None
  | b0 :: t => sniff_after b0 (dec_vi t)
  end.

(* every checked access of the model is in range, and the model is the closed form *)
Lemma sniff_char b : sniff b = sniff_spec b.
Proof.
  destruct b as [|b0 t]; [reflexivity|].
  destruct t as [|t0 t']; [reflexivity|].
  assert (Ht : 1 <= len (t0 :: t')) by (rewrite len_cons; lia).
  generalize dependent (t0 :: t'). clear t0 t'. intros t Ht.
  cbv beta zeta delta [sniff sniff_spec].
  replace (len (b0 :: t) <? 2) with false by (rewrite len_cons; lia).
  change (idx 0 (b0 :: t)) with (Ok b0 : res N). cbn [bind].
  assert (Hsl : sl 1 (len (b0 :: t)) (b0 :: t) = Ok t).
  { rewrite sl_ok by (rewrite len_cons; lia). rewrite len_cons.
    replace (len t + 1 - 1) with (len t) by lia. change (N.to_nat 1) with 1%nat. cbn [skipn].
    unfold len. rewrite Nat2N.id, firstn_all. reflexivity. }
  rewrite Hsl. cbn [bind]. unfold dec_vi_opt, sniff_after.
  destruct (dec_vi t) as [[v r]|e|p] eqn:Ed; cbn [bind];
    [| destruct (e =? DE_MalformedPacket); reflexivity | reflexivity].
  apply dec_vi_ok_inv in Ed as (p & -> & Hl & _). clear Ht Hsl.
  change (b0 :: p ++ r) with ((b0 :: p) ++ r).
  replace (len (p ++ r) - len r + 1) with (len (b0 :: p)) by (rewrite len_app, len_cons; lia).
  set (q := b0 :: p).
  destruct (b0 =? S_CONNECT); [|reflexivity].
  destruct r as [|l0 [|l1 [|m0 [|m1 [|m2 [|m3 [|lvl r]]]]]]];
    try (replace (len (q ++ _) <=? len q + 6) with true
           by (rewrite len_app; unfold len; cbn [length]; lia); reflexivity).
  replace (len (q ++ _) <=? len q + 6) with false by (rewrite len_app; unfold len; cbn [length]; lia).
  rewrite (sl_app q _ _ _ 0 2) by (try (unfold len; cbn [length]); lia).
  change (N.to_nat 2) with 2%nat. change (N.to_nat 0) with 0%nat. cbn [firstn skipn bind sniff_body].
  destruct (l0 * 256 + l1 =? 4) eqn:E16; cbn [andb bind ensure]; [|reflexivity].
  rewrite (sl_app q _ _ _ 2 4) by (try (unfold len; cbn [length]); lia).
  change (N.to_nat 2) with 2%nat. change (N.to_nat 4) with 4%nat. cbn [firstn skipn bind].
  destruct (bytes_eqb [m0; m1; m2; m3] S_MQTT); cbn [ensure bind]; [|reflexivity].
  rewrite (idx_app q _ _ 6) by lia.
  unfold idx. change (N.to_nat 6) with 6%nat. cbn [skipn bind]. reflexivity.
Qed.

Lemma sniff_cons b0 t : sniff (b0 :: t) = sniff_after b0 (dec_vi t).
Proof. apply sniff_char. Qed.

(* ------------------------------------------------------------------ facts about the closed form *)
Ltac split7 r :=
  destruct r as [|?l0 [|?l1 [|?m0 [|?m1 [|?m2 [|?m3 [|?lvl ?r]]]]]]].

Lemma sniff_body_total r : match sniff_body r with Panic _ => False | _ => True end.
Proof.
  split7 r; try exact I. cbn [sniff_body].
  repeat match goal with |- context [if ?c then _ else _] => destruct c end; exact I.
Qed.

Lemma sniff_body_app r more : sniff_body r <> Ok None -> sniff_body (r ++ more) = sniff_body r.
Proof.
  split7 r; intros H; try (exfalso; apply H; reflexivity). reflexivity.
Qed.

Lemma sniff_body_none r : sniff_body r = Ok None <-> (length r < 7)%nat.
Proof.
  split7 r; cbn [length]; split; intros H; try lia; try reflexivity.
  cbn [sniff_body] in H.
  repeat match type of H with context [if ?c then _ else _] => destruct c end; discriminate.
Qed.

Lemma mqtt_name_eq m0 m1 m2 m3 :
  bytes_eqb [m0; m1; m2; m3] S_MQTT = true <-> [m0; m1; m2; m3] = S_MQTT.
Proof. apply bytes_eqb_eq. Qed.

Lemma sniff_body_some r v :
  sniff_body r = Ok (Some v) <->
  (v = 4 \/ v = 5) /\ exists rest, r = [0; 4] ++ S_MQTT ++ [v] ++ rest.
Proof.
  split.
  - split7 r; try discriminate. cbn [sniff_body].
    destruct (l0 * 256 + l1 =? 4) eqn:E16; cbn [andb]; [|discriminate].
    destruct (bytes_eqb [m0; m1; m2; m3] S_MQTT) eqn:Em; [|discriminate].
    apply bytes_eqb_eq in Em. injection Em as -> -> -> ->.
    assert (l0 = 0 /\ l1 = 4) as [-> ->] by lia.
    destruct (lvl =? 4) eqn:E4.
    { intros [= <-]. split; [now left|]. exists r. assert (lvl = 4) as -> by lia. reflexivity. }
    destruct (lvl =? 5) eqn:E5; [|discriminate].
    intros [= <-]. split; [now right|]. exists r. assert (lvl = 5) as -> by lia. reflexivity.
  - intros [[-> | ->] [rest ->]]; reflexivity.
Qed.

Lemma sniff_body_err r e : sniff_body r = Err e -> e = DE_InvalidProtocol /\ (7 <= length r)%nat.
Proof.
  split7 r; try discriminate. cbn [sniff_body length].
  repeat match goal with |- context [if ?c then _ else _] => destruct c end;
    intros [= <-]; split; try reflexivity; lia.
Qed.

(* ------------------------------------------------------------------ 1. totality *)
Lemma sniff_total : forall b, match sniff b with Panic _ => False | _ => True end.
Proof.
  intros b. rewrite sniff_char. destruct b as [|b0 t]; [exact I|]. cbn [sniff_spec]. unfold sniff_after.
  pose proof (dec_vi_total t) as H.
  destruct (dec_vi t) as [[v r]|e|p]; [| destruct (e =? DE_MalformedPacket); exact I | exact H].
  destruct (b0 =? S_CONNECT); [apply sniff_body_total | exact I].
Qed.

(* ------------------------------------------------------------------ 3. prefix stability *)
(* once decided (a version or an error), more bytes never change the answer *)
Lemma sniff_decided_stable b more : sniff b <> Ok None -> sniff (b ++ more) = sniff b.
Proof.
  rewrite !sniff_char. destruct b as [|b0 t]; [intros H; exfalso; apply H; reflexivity|].
  cbn [app sniff_spec]. unfold sniff_after.
  destruct (dec_vi t) as [[v r]|e|p] eqn:Ed.
  - apply dec_vi_ok_inv in Ed as (p & -> & _ & Hall). rewrite <- app_assoc, !Hall.
    destruct (b0 =? S_CONNECT); [apply sniff_body_app | reflexivity].
  - apply dec_vi_err_inv in Ed as [(-> & _)|(-> & _ & Hall)].
    + intros H; exfalso; apply H; reflexivity.
    + intros _. rewrite Hall. reflexivity.
  - pose proof (dec_vi_total t) as H. rewrite Ed in H. contradiction.
Qed.

Lemma sniff_prefix_stable_some b more v : sniff b = Ok (Some v) -> sniff (b ++ more) = Ok (Some v).
Proof. intros H. rewrite sniff_decided_stable; [exact H | congruence]. Qed.

Lemma sniff_prefix_stable_err b more e : sniff b = Err e -> sniff (b ++ more) = Err e.
Proof. intros H. rewrite sniff_decided_stable; [exact H | congruence]. Qed.

(* exact description of "need more bytes" *)
Lemma sniff_none_iff b :
  sniff b = Ok None <->
  b = [] \/
  exists b0 t, b = b0 :: t /\
    (dec_vi t = Err DE_MalformedPacket \/
     exists v r, dec_vi t = Ok (v, r) /\ b0 = S_CONNECT /\ (length r < 7)%nat).
Proof.
  rewrite sniff_char. destruct b as [|b0 t]; [split; [now left | reflexivity]|].
  cbn [sniff_spec]. unfold sniff_after. split.
  - intros H. right. exists b0, t. split; [reflexivity|].
    destruct (dec_vi t) as [[v r]|e|p] eqn:Ed; [| |discriminate].
    + right. exists v, r. destruct (b0 =? S_CONNECT) eqn:Eb; [|discriminate].
      apply sniff_body_none in H. repeat split; try assumption; lia.
    + left. destruct (e =? DE_MalformedPacket) eqn:Ee; [|discriminate]. f_equal. lia.
  - intros [H|(b0' & t' & [= <- <-] & [H|(v & r & H & -> & Hl)])]; [discriminate| |]; rewrite H.
    + reflexivity.
    + change (S_CONNECT =? S_CONNECT) with true. cbv iota. apply sniff_body_none. exact Hl.
Qed.

Lemma sniff_none_short b : sniff b = Ok None -> (length b < 12)%nat.
Proof.
  intros H. apply sniff_none_iff in H as [->|(b0 & t & -> & [H|(v & r & H & _ & Hl)])]; cbn [length]; [lia| |].
  - apply dec_vi_err_inv in H as [(_ & Hl & _)|(H & _)]; [lia | cbv in H; discriminate].
  - apply dec_vi_ok_inv in H as (p & -> & Hp & _). rewrite app_length. lia.
Qed.

(* twelve bytes always decide *)
Lemma sniff_decided_at_12 b : (12 <= length b)%nat -> sniff b <> Ok None.
Proof. intros H E. apply sniff_none_short in E. lia. Qed.

(* Ok None only while more bytes could still decide: ANY extension to 12 bytes or more decides *)
Lemma sniff_none_undecided b : sniff b = Ok None ->
  exists more, sniff (b ++ more) <> Ok None.
Proof.
  intros _. exists (repeat 0 12). apply sniff_decided_at_12. rewrite app_length, repeat_length. lia.
Qed.

Lemma sniff_none_undecided_all b more :
  sniff b = Ok None -> (12 <= length b + length more)%nat -> sniff (b ++ more) <> Ok None.
Proof. intros _ H. apply sniff_decided_at_12. rewrite app_length. lia. Qed.

(* the bound 12 is sharp: an 11-byte buffer that is still undecided, and both ways it can go *)
Lemma sniff_none_short_sharp :
  sniff [16; 128; 128; 128; 1; 0; 4; 77; 81; 84; 84] = Ok None /\
  sniff ([16; 128; 128; 128; 1; 0; 4; 77; 81; 84; 84] ++ [4]) = Ok (Some 4) /\
  sniff ([16; 128; 128; 128; 1; 0; 4; 77; 81; 84; 84] ++ [5]) = Ok (Some 5) /\
  sniff ([16; 128; 128; 128; 1; 0; 4; 77; 81; 84; 84] ++ [6]) = Err DE_InvalidProtocol.
Proof. repeat split; vm_compute; reflexivity. Qed.

(* the three statements asked for, together *)
Lemma sniff_prefix_stable b more :
  (forall v, sniff b = Ok (Some v) -> sniff (b ++ more) = Ok (Some v)) /\
  (forall e, sniff b = Err e -> sniff (b ++ more) = Err e) /\
  (sniff b = Ok None -> (length b < 12)%nat).
Proof.
  split; [|split].
  - intros v. apply sniff_prefix_stable_some.
  - intros e. apply sniff_prefix_stable_err.
  - apply sniff_none_short.
Qed.

(* Ok None is NOT stable (that is its meaning) *)
Lemma sniff_none_not_stable : exists b more, sniff b = Ok None /\ sniff (b ++ more) <> Ok None.
Proof. exists [17], [0]. split; vm_compute; [reflexivity | discriminate]. Qed.

(* ------------------------------------------------------------------ 2. only a bounded prefix is looked at *)
(* The result type [res (option N)] carries no buffer: the sniffer consumes nothing.  It is a
   function of the first 12 bytes (1 type byte + at most 4 var-int bytes + 2 + 4 + 1). *)
Lemma sniff_consumes_nothing : forall b, sniff b = sniff (firstn 12 b).
Proof.
  intros b. destruct (le_lt_dec 12 (length b)) as [H|H].
  - rewrite <- (firstn_skipn 12 b) at 1. apply sniff_decided_stable.
    apply sniff_decided_at_12. rewrite firstn_length. lia.
  - rewrite firstn_all2 by lia. reflexivity.
Qed.

Lemma sniff_depends_on_12 b b' : firstn 12 b = firstn 12 b' -> sniff b = sniff b'.
Proof. intros H. rewrite (sniff_consumes_nothing b), (sniff_consumes_nothing b'), H. reflexivity. Qed.

(* 12 cannot be replaced by 11 *)
Lemma sniff_consumes_nothing_11_refuted : ~ (forall b, sniff b = sniff (firstn 11 b)).
Proof.
  intros H. specialize (H [16; 128; 128; 128; 1; 0; 4; 77; 81; 84; 84; 4]). vm_compute in H. discriminate.
Qed.

(* sharper: a decided answer needs only 1 + k + 7 bytes, k the var-int length *)
Lemma sniff_decided_prefix b : sniff b <> Ok None ->
  exists n, (n <= 12)%nat /\ sniff (firstn n b) = sniff b /\
    forall b', firstn n b' = firstn n b -> sniff b' = sniff b.
Proof.
  intros H. exists 12%nat. split; [lia|]. split.
  - symmetry. apply sniff_consumes_nothing.
  - intros b' E. apply sniff_depends_on_12. exact E.
Qed.

(* ------------------------------------------------------------------ 4. routing *)
(* [vi] is a complete var-int (value rl) with nothing left over *)
Definition is_varint (vi : bytes) (rl : N) : Prop := dec_vi vi = Ok (rl, []).

Lemma is_varint_app vi rl r : is_varint vi rl -> dec_vi (vi ++ r) = Ok (rl, r).
Proof.
  unfold is_varint. intros H. apply dec_vi_ok_inv in H as (p & Hp & _ & Hall).
  rewrite app_nil_r in Hp. subst p. apply Hall.
Qed.

Lemma is_varint_len vi rl : is_varint vi rl -> (1 <= length vi <= 4)%nat.
Proof.
  unfold is_varint. intros H. apply dec_vi_ok_inv in H as (p & Hp & Hl & _).
  rewrite app_nil_r in Hp. subst p. exact Hl.
Qed.

Lemma enc_vi_is_varint n vi : enc_vi n = Some vi -> is_varint vi n.
Proof.
  intros H. unfold is_varint. pose proof (varint_roundtrip n vi [] H) as R.
  rewrite app_nil_r in R. exact R.
Qed.

Lemma sniff_some_iff b v :
  sniff b = Ok (Some v) <->
  (v = 4 \/ v = 5) /\
  exists vi rl rest, is_varint vi rl /\ b = S_CONNECT :: vi ++ [0; 4] ++ S_MQTT ++ [v] ++ rest.
Proof.
  rewrite sniff_char. split.
  - destruct b as [|b0 t]; [discriminate|]. cbn [sniff_spec]. unfold sniff_after.
    destruct (dec_vi t) as [[rl r]|e|p] eqn:Ed;
      [| destruct (e =? DE_MalformedPacket); discriminate | discriminate].
    destruct (b0 =? S_CONNECT) eqn:Eb; [|discriminate].
    intros H. apply sniff_body_some in H as [Hv [rest ->]]. split; [exact Hv|].
    apply dec_vi_ok_inv in Ed as (p & -> & _ & Hall).
    exists p, rl, rest. split.
    + unfold is_varint. specialize (Hall []). rewrite app_nil_r in Hall. exact Hall.
    + f_equal. lia.
  - intros [Hv (vi & rl & rest & Hvi & ->)]. cbn [sniff_spec]. unfold sniff_after.
    rewrite (is_varint_app _ _ _ Hvi). change (S_CONNECT =? S_CONNECT) with true. cbv iota.
    apply sniff_body_some. split; [exact Hv|]. exists rest. reflexivity.
Qed.

Lemma sniff_version_4_or_5 b v : sniff b = Ok (Some v) -> v = 4 \/ v = 5.
Proof. intros H. apply sniff_some_iff in H. tauto. Qed.

(* the formulation asked for: first byte 16, a complete var-int of k bytes right after it, and at
   offset 1 + k the seven bytes 0,4,'M','Q','T','T',level *)
Lemma sniff_routes b v : v = 4 \/ v = 5 ->
  (sniff b = Ok (Some v) <->
   exists rl k,
     hd_error b = Some S_CONNECT /\
     dec_vi_opt (tl b) = Ok (Some (rl, k)) /\
     firstn 7 (skipn (N.to_nat k) (tl b)) = [0; 4] ++ S_MQTT ++ [v]).
Proof.
  intros Hv. rewrite sniff_some_iff. split.
  - intros [_ (vi & rl & rest & Hvi & ->)]. exists rl, (len vi). cbn [hd_error tl].
    split; [reflexivity|]. split.
    + unfold dec_vi_opt. rewrite (is_varint_app _ _ _ Hvi). rewrite len_app. do 3 f_equal. lia.
    + unfold len. rewrite Nat2N.id. rewrite skipn_app, skipn_all, Nat.sub_diag. reflexivity.
  - intros (rl & k & Hh & Hd & Hf). split; [exact Hv|].
    destruct b as [|b0 t]; [discriminate|]. cbn [hd_error tl] in *. injection Hh as ->.
    apply dec_vi_opt_some in Hd as (_ & _ & Hd & _).
    apply dec_vi_ok_inv in Hd as (p & Hp & _ & Hall).
    exists p, rl, (skipn 7 (skipn (N.to_nat k) t)). split.
    + unfold is_varint. specialize (Hall []). rewrite app_nil_r in Hall. exact Hall.
    + f_equal. rewrite Hp at 1. f_equal.
      rewrite <- (firstn_skipn 7 (skipn (N.to_nat k) t)) at 1. rewrite Hf. reflexivity.
Qed.

Lemma sniff_routes_v3 b :
  sniff b = Ok (Some 4) <->
  exists vi rl rest, is_varint vi rl /\ b = 16 :: vi ++ [0; 4; 77; 81; 84; 84; 4] ++ rest.
Proof.
  rewrite sniff_some_iff. split.
  - intros [_ (vi & rl & rest & H & ->)]. exists vi, rl, rest. split; [exact H|reflexivity].
  - intros (vi & rl & rest & H & ->). split; [now left|]. exists vi, rl, rest. split; [exact H|reflexivity].
Qed.

Lemma sniff_routes_v5 b :
  sniff b = Ok (Some 5) <->
  exists vi rl rest, is_varint vi rl /\ b = 16 :: vi ++ [0; 4; 77; 81; 84; 84; 5] ++ rest.
Proof.
  rewrite sniff_some_iff. split.
  - intros [_ (vi & rl & rest & H & ->)]. exists vi, rl, rest. split; [exact H|reflexivity].
  - intros (vi & rl & rest & H & ->). split; [now right|]. exists vi, rl, rest. split; [exact H|reflexivity].
Qed.

(* what an encoder produces is routed: any remaining length the var-int can carry *)
Lemma sniff_accepts_encoded rl vi v rest : enc_vi rl = Some vi -> v = 4 \/ v = 5 ->
  sniff (S_CONNECT :: vi ++ [0; 4] ++ S_MQTT ++ [v] ++ rest) = Ok (Some v).
Proof.
  intros He Hv. apply sniff_some_iff. split; [exact Hv|].
  exists vi, rl, rest. split; [apply enc_vi_is_varint; exact He | reflexivity].
Qed.

(* the errors *)
Lemma sniff_err_cases b e : sniff b = Err e ->
  e = DE_InvalidLength \/ e = DE_UnsupportedPacketType \/ e = DE_InvalidProtocol.
Proof.
  rewrite sniff_char. destruct b as [|b0 t]; [discriminate|]. cbn [sniff_spec]. unfold sniff_after.
  destruct (dec_vi t) as [[rl r]|e'|p] eqn:Ed; [| |discriminate].
  - destruct (b0 =? S_CONNECT).
    + intros H. apply sniff_body_err in H as [-> _]. auto.
    + intros [= <-]. auto.
  - apply dec_vi_err_inv in Ed as [(-> & _)|(-> & _)]; [discriminate|]. intros [= <-]. auto.
Qed.

(* ------------------------------------------------------------------ 5. agreement with the CONNECT decoders *)
(* [good P r]: r is not a Panic, not Err InvalidProtocol, not Err UnsupportedProtocolLevel, and
   an Ok value satisfies P *)
Definition good {A} (P : A -> Prop) (r : res A) : Prop :=
  match r with
  | Ok a => P a
  | Err e => e <> DE_InvalidProtocol /\ e <> DE_UnsupportedProtocolLevel
  | Panic _ => False
  end.

(* the property of item 5 *)
Definition no_proto_failure {A} (r : res A) : Prop := good (fun _ => True) r.

Lemma no_proto_failure_spec {A} (r : res A) :
  no_proto_failure r <->
  r <> Err DE_InvalidProtocol /\ r <> Err DE_UnsupportedProtocolLevel /\ forall s, r <> Panic s.
Proof.
  unfold no_proto_failure, good. destruct r as [a|e|s]; split.
  - intros _. repeat split; try discriminate.
  - intros _. exact I.
  - intros [H1 H2]. repeat split; try discriminate; intros [= ->]; [apply H1 | apply H2]; reflexivity.
  - intros (H1 & H2 & _). split; intros ->; [apply H1 | apply H2]; reflexivity.
  - intros [].
  - intros (_ & _ & H). apply (H s). reflexivity.
Qed.

Lemma good_bind {A B} (P : A -> Prop) (Q : B -> Prop) (r : res A) (f : A -> res B) :
  good P r -> (forall a, P a -> good Q (f a)) -> good Q (bind r f).
Proof. destruct r as [a|e|s]; cbn [good bind]; intros H Hf; [apply Hf; exact H | exact H | exact H]. Qed.

Lemma good_weaken {A} (P Q : A -> Prop) (r : res A) : good P r -> (forall a, P a -> Q a) -> good Q r.
Proof. destruct r as [a|e|s]; cbn [good]; intros H HPQ; [apply HPQ; exact H | exact H | exact H]. Qed.

Ltac err_ok := split; intros X; cbv in X; discriminate X.

Lemma good_ensure c e : e <> DE_InvalidProtocol -> e <> DE_UnsupportedProtocolLevel ->
  good (fun _ => True) (ensure c e).
Proof. intros H1 H2. destruct c; cbn [ensure good]; [exact I | split; assumption]. Qed.

Ltac gbind L := eapply good_bind; [apply L |]; cbv beta.
Ltac gensure := eapply good_bind; [apply good_ensure; intros X; cbv in X; discriminate X |]; intros _ _.

Lemma good_dec_vi s : good (fun x => (length (snd x) < length s)%nat) (dec_vi s).
Proof.
  destruct (dec_vi s) as [[v r]|e|p] eqn:Ed; cbn [good snd].
  - apply dec_vi_ok_inv in Ed as (p & -> & Hl & _). rewrite app_length. lia.
  - apply dec_vi_err_inv in Ed as [(-> & _)|(-> & _)]; err_ok.
  - pose proof (dec_vi_total s) as H. rewrite Ed in H. exact H.
Qed.

Definition shorter {A : Type} (s : bytes) (x : A * bytes) : Prop := (length (snd x) <= length s)%nat.
Arguments shorter {A} s x /.

Module V5.
Import MV.Base.Utf8 MV.Model.CodecV5.


Lemma g_dec_bool s : good (A := bool * bytes) (shorter s) (dec_bool s).
Proof.
  destruct s as [|v r]; cbn [dec_bool good]; [err_ok|].
  destruct (v <=? 1); cbn [good shorter snd length]; [lia | err_ok].
Qed.

Lemma g_dec_u16 s : good (A := N * bytes) (shorter s) (dec_u16 s).
Proof. destruct s as [|a [|b r]]; cbn [dec_u16 good shorter snd length]; try err_ok. lia. Qed.

Lemma g_dec_u32 s : good (A := N * bytes) (shorter s) (dec_u32 s).
Proof. destruct s as [|a [|b [|c [|d r]]]]; cbn [dec_u32 good shorter snd length]; try err_ok. lia. Qed.

Lemma g_dec_nz16 s : good (A := N * bytes) (shorter s) (dec_nz16 s).
Proof.
  unfold dec_nz16. gbind g_dec_u16. intros [v r] H. cbv beta iota.
  destruct (v =? 0); cbn [good]; [err_ok | exact H].
Qed.

Lemma g_dec_nz32 s : good (A := N * bytes) (shorter s) (dec_nz32 s).
Proof.
  unfold dec_nz32. gbind g_dec_u32. intros [v r] H. cbv beta iota.
  destruct (v =? 0); cbn [good]; [err_ok | exact H].
Qed.

Lemma g_dec_bytes s : good (A := bytes * bytes) (shorter s) (dec_bytes s).
Proof.
  unfold dec_bytes. gbind g_dec_u16. intros [n r] H. cbv beta iota.
  destruct (len r <? n); cbn [good]; [err_ok|].
  unfold split_to, shorter in *. cbn [snd] in *. rewrite skipn_length. lia.
Qed.

Lemma g_dec_string s : good (A := bytes * bytes) (shorter s) (dec_string s).
Proof.
  unfold dec_string. gbind g_dec_bytes. intros [b r] H. cbv beta iota.
  destruct (utf8_valid b); cbn [good]; [exact H | err_ok].
Qed.

Lemma g_dec_uprop s : good (A := uprop * bytes) (shorter s) (dec_uprop s).
Proof.
  unfold dec_uprop. gbind g_dec_string. intros [k r] H. cbv beta iota.
  gbind g_dec_string. intros [v r'] H'. cbv beta iota. cbn [good shorter snd] in *. lia.
Qed.

Lemma g_take_properties s : good (A := bytes * bytes) (shorter s) (take_properties s).
Proof.
  unfold take_properties. gbind good_dec_vi. intros [n r] H. cbv beta iota.
  destruct (len r <? n); cbn [good]; [err_ok|].
  unfold split_to, shorter. cbn [snd] in *. rewrite skipn_length. lia.
Qed.

Lemma g_dec_pval k s : good (A := pval * bytes) (shorter s) (dec_pval k s).
Proof.
  destruct k; cbn [dec_pval].
  - gbind g_dec_bool. intros [v r] H. exact H.
  - gbind g_dec_u16. intros [v r] H. exact H.
  - gbind g_dec_u32. intros [v r] H. exact H.
  - gbind g_dec_nz16. intros [v r] H. exact H.
  - gbind g_dec_nz32. intros [v r] H. exact H.
  - gbind g_dec_bytes. intros [v r] H. exact H.
  - gbind g_dec_string. intros [v r] H. exact H.
  - destruct s as [|v r]; cbn [good]; [err_ok|].
    destruct (qos_ok v); cbn [good shorter snd length]; [lia | err_ok].
  - gbind good_dec_vi. intros [v r] H. cbv beta iota.
    destruct (v =? 0); cbn [good shorter snd] in *; [err_ok | lia].
  - gbind g_dec_uprop. intros [v r] H. exact H.
Qed.

Lemma g_parse_props tbl fuel : forall acc s, (length s <= fuel)%nat ->
  no_proto_failure (parse_props fuel tbl acc s).
Proof.
  unfold no_proto_failure.
  induction fuel as [|fuel IH]; intros acc [|id r] H; cbn [parse_props good length] in *;
    try exact I; try lia.
  destruct (tbl id) as [[k once]|]; [|cbn [good]; err_ok].
  gensure. gbind g_dec_pval. intros [v r'] Hr. cbv beta iota. apply IH.
  cbn [shorter snd] in Hr. lia.
Qed.

Lemma g_props_of tbl s : no_proto_failure (props_of tbl s).
Proof. unfold props_of. apply g_parse_props. lia. Qed.

Lemma g_decode_last_will src flags : no_proto_failure (decode_last_will src flags).
Proof.
  unfold no_proto_failure, decode_last_will.
  gbind g_take_properties. intros [ps r] _. cbv beta iota.
  gbind g_props_of. intros bag _.
  gbind g_dec_string. intros [topic r1] _. cbv beta iota.
  gbind g_dec_bytes. intros [msg r2] _. cbv beta iota.
  gensure. exact I.
Qed.

(* the part of connect_decode after the protocol name / level checks *)
Lemma connect_decode_good body :
  10 <= len body -> firstn 7 body = [0; 4; 77; 81; 84; 84; 5] -> no_proto_failure (connect_decode body).
Proof.
  intros Hl Hf. unfold no_proto_failure, connect_decode.
  replace (10 <=? len body) with true by lia. cbn [ensure bind].
  destruct body as [|l0 [|l1 [|m0 [|m1 [|m2 [|m3 [|lvl [|flags [|k0 [|k1 r]]]]]]]]]];
    try (unfold len in Hl; cbn [length] in Hl; lia).
  cbn [firstn] in Hf. injection Hf as -> -> -> -> -> -> ->.
  change ((0 * 256 + 4 =? 4) && bytes_eqb [77; 81; 84; 84] MQTT) with true.
  change (5 =? 5) with true. cbn [ensure bind].
  gensure.
  gbind g_take_properties. intros [ps r1] _. cbv beta iota.
  gbind g_props_of. intros bag _.
  gbind g_dec_string. intros [cid r2] _. cbv beta iota.
  eapply good_bind with (P := fun _ => True).
  { destruct (bit flags 4); [|exact I].
    eapply good_bind; [apply g_decode_last_will|]. intros [w r'] _. exact I. }
  intros [lw r3] _. cbv beta iota.
  eapply good_bind with (P := fun _ => True).
  { destruct (bit flags 128); [|exact I]. gbind g_dec_string. intros [u r'] _. exact I. }
  intros [un r4] _. cbv beta iota.
  eapply good_bind with (P := fun _ => True).
  { destruct (bit flags 64); [|exact I]. gbind g_dec_bytes. intros [u r'] _. exact I. }
  intros [pw r5] _. exact I.
Qed.

(* too short a body fails on length, never on protocol name / level, and never panics *)
Lemma connect_decode_short body : len body < 10 -> connect_decode body = Err DE_InvalidLength.
Proof. intros H. unfold connect_decode. replace (10 <=? len body) with false by lia. reflexivity. Qed.

Lemma decode_packet_connect src :
  decode_packet S_CONNECT src = let* a := connect_decode src in Ok (Connect a).
Proof. reflexivity. Qed.

End V5.

Module V3.
Import MV.Base.Utf8 MV.Model.CodecV3.

Lemma g_dec_u16 s : no_proto_failure (dec_u16 s).
Proof.
  unfold no_proto_failure, dec_u16. destruct (2 <=? len s) eqn:E; cbn [ensure bind good]; [|err_ok].
  destruct s as [|a [|b r]]; try (unfold len in E; cbn [length] in E; lia). exact I.
Qed.

Lemma g_dec_bytes s : no_proto_failure (dec_bytes s).
Proof.
  unfold no_proto_failure, dec_bytes. gbind g_dec_u16. intros [n r] _. cbv beta iota. gensure. exact I.
Qed.

Lemma g_dec_string s : no_proto_failure (dec_string s).
Proof.
  unfold no_proto_failure, dec_string. gbind g_dec_bytes. intros [b r] _. cbv beta iota.
  destruct (utf8_valid b); cbn [good]; [exact I | err_ok].
Qed.

Lemma g_qos_of_n v : no_proto_failure (qos_of_n v).
Proof.
  unfold no_proto_failure.
  destruct v as [|[[?|?|]|[?|?|]|]]; cbn [qos_of_n good]; try exact I; err_ok.
Qed.

Lemma g_decode_last_will flags src : no_proto_failure (decode_last_will flags src).
Proof.
  unfold no_proto_failure, decode_last_will. destruct (has_bit flags CF_WILL); [|exact I].
  gbind g_dec_string. intros [topic r] _. cbv beta iota.
  gbind g_dec_bytes. intros [msg r1] _. cbv beta iota.
  gbind g_qos_of_n. intros q _. exact I.
Qed.

Lemma connect_decode_good body :
  10 <= len body -> firstn 7 body = [0; 4; 77; 81; 84; 84; 4] ->
  no_proto_failure (decode_connect_packet body).
Proof.
  intros Hl Hf. unfold no_proto_failure, decode_connect_packet.
  replace (10 <=? len body) with true by lia. cbn [ensure bind].
  destruct body as [|l0 [|l1 [|m0 [|m1 [|m2 [|m3 [|lvl [|flags [|k0 [|k1 r]]]]]]]]]];
    try (unfold len in Hl; cbn [length] in Hl; lia).
  cbn [firstn] in Hf. injection Hf as -> -> -> -> -> -> ->.
  cbn [get_u16 bind]. change (0 * 256 + 4 =? 4) with true. cbv iota.
  unfold slice_to, advance.
  replace (len (77 :: 81 :: 84 :: 84 :: 4 :: flags :: k0 :: k1 :: r) <? 4) with false
    by (unfold len; cbn [length]; lia).
  change (N.to_nat 4) with 4%nat. cbn [firstn skipn bind].
  change (bytes_eqb [77; 81; 84; 84] MQTT) with true. cbn [ensure bind get_u8].
  change (4 =? MQTT_LEVEL_3) with true. cbn [ensure bind].
  gensure.
  gbind g_dec_u16. intros [ka r1] _. cbv beta iota.
  gbind g_dec_string. intros [cid r2] _. cbv beta iota.
  gensure.
  gbind g_decode_last_will. intros [lw r3] _. cbv beta iota.
  eapply good_bind with (P := fun _ => True).
  { destruct (has_bit flags CF_USERNAME); [|exact I]. gbind g_dec_string. intros [u r'] _. exact I. }
  intros [un r4] _. cbv beta iota.
  eapply good_bind with (P := fun _ => True).
  { destruct (has_bit flags CF_PASSWORD); [|exact I]. gbind g_dec_bytes. intros [u r'] _. exact I. }
  intros [pw r5] _. exact I.
Qed.

Lemma connect_decode_short body : len body < 10 -> decode_connect_packet body = Err DE_InvalidLength.
Proof. intros H. unfold decode_connect_packet. replace (10 <=? len body) with false by lia. reflexivity. Qed.

Lemma decode_packet_connect src : decode_packet S_CONNECT src = decode_connect_packet src.
Proof. reflexivity. Qed.

End V3.

(* the CONNECT frame body the decoders cut out of the buffer starts with the seven bytes the
   sniffer has checked: [k + 1] bytes of fixed header are skipped, [n] bytes are taken *)
Lemma sniff_connect_body b v rl k n body :
  sniff b = Ok (Some v) ->
  dec_vi_opt (tl b) = Ok (Some (rl, k)) ->
  body = firstn n (skipn (N.to_nat (k + 1)) b) ->
  (7 <= length body)%nat ->
  firstn 7 body = [0; 4] ++ S_MQTT ++ [v].
Proof.
  intros Hs Hd -> Hl. pose proof (sniff_version_4_or_5 _ _ Hs) as Hv.
  apply (sniff_routes b v Hv) in Hs as (rl' & k' & Hh & Hd' & Hf).
  rewrite Hd in Hd'. injection Hd' as <- <-.
  destruct b as [|b0 t]; [discriminate|]. cbn [tl] in *.
  replace (N.to_nat (k + 1)) with (S (N.to_nat k)) in * by lia. cbn [skipn] in *.
  rewrite firstn_firstn. rewrite firstn_length in Hl.
  replace (Nat.min 7 n) with 7%nat by lia. exact Hf.
Qed.

(* item 5, v5: offsets as Codec::decode computes them (remaining length rl, k var-int bytes) *)
Lemma sniff_agrees_with_decoder b rl k body :
  sniff b = Ok (Some 5) ->
  dec_vi_opt (tl b) = Ok (Some (rl, k)) ->
  body = firstn (N.to_nat rl) (skipn (N.to_nat (k + 1)) b) ->
  10 <= len body ->
  firstn 7 body = [0; 4; 77; 81; 84; 84; 5] /\
  no_proto_failure (CodecV5.connect_decode body).
Proof.
  intros Hs Hd Hb Hl.
  assert (Hf : firstn 7 body = [0; 4; 77; 81; 84; 84; 5]).
  { apply (sniff_connect_body b 5 rl k (N.to_nat rl) body Hs Hd Hb). unfold len in Hl. lia. }
  split; [exact Hf|]. apply V5.connect_decode_good; assumption.
Qed.

(* item 5, v3 *)
Lemma sniff_agrees_with_decoder_v3 b rl k body :
  sniff b = Ok (Some 4) ->
  dec_vi_opt (tl b) = Ok (Some (rl, k)) ->
  body = firstn (N.to_nat rl) (skipn (N.to_nat (k + 1)) b) ->
  10 <= len body ->
  firstn 7 body = [0; 4; 77; 81; 84; 84; 4] /\
  no_proto_failure (CodecV3.decode_connect_packet body).
Proof.
  intros Hs Hd Hb Hl.
  assert (Hf : firstn 7 body = [0; 4; 77; 81; 84; 84; 4]).
  { apply (sniff_connect_body b 4 rl k (N.to_nat rl) body Hs Hd Hb). unfold len in Hl. lia. }
  split; [exact Hf|]. apply V3.connect_decode_good; assumption.
Qed.

(* item 5 in the "b = 16 :: vi ++ body ++ rest" form (whatever the var-int value is) *)
Lemma sniff_frame_body vi rl body rest v :
  is_varint vi rl -> sniff (S_CONNECT :: vi ++ body ++ rest) = Ok (Some v) -> 7 <= len body ->
  firstn 7 body = [0; 4] ++ S_MQTT ++ [v].
Proof.
  intros Hvi Hs Hl.
  apply (sniff_connect_body _ v rl (len vi) (length body) body Hs).
  - cbn [tl]. unfold dec_vi_opt. rewrite (is_varint_app _ _ _ Hvi). rewrite len_app. do 3 f_equal. lia.
  - replace (N.to_nat (len vi + 1)) with (S (length vi)) by (unfold len; lia). cbn [skipn].
    rewrite skipn_app, skipn_all, Nat.sub_diag. cbn [skipn app].
    rewrite firstn_app, firstn_all, Nat.sub_diag. cbn [firstn]. rewrite app_nil_r. reflexivity.
  - unfold len in Hl. lia.
Qed.

Lemma sniff_agrees_with_decoder_frame vi rl body rest :
  is_varint vi rl -> sniff (16 :: vi ++ body ++ rest) = Ok (Some 5) -> 10 <= len body ->
  no_proto_failure (CodecV5.connect_decode body).
Proof.
  intros Hvi Hs Hl. apply V5.connect_decode_good; [exact Hl|].
  apply (sniff_frame_body vi rl body rest 5 Hvi Hs). lia.
Qed.

Lemma sniff_agrees_with_decoder_frame_v3 vi rl body rest :
  is_varint vi rl -> sniff (16 :: vi ++ body ++ rest) = Ok (Some 4) -> 10 <= len body ->
  no_proto_failure (CodecV3.decode_connect_packet body).
Proof.
  intros Hvi Hs Hl. apply V3.connect_decode_good; [exact Hl|].
  apply (sniff_frame_body vi rl body rest 4 Hvi Hs). lia.
Qed.

(* the whole first call of the v5 Codec::decode on a buffer the sniffer routed to v5: whatever it
   returns (need more / MaxSizeExceeded / a packet / some other decode error), it is never
   InvalidProtocol, never UnsupportedProtocolLevel and never a panic *)
Lemma sniff_agrees_with_decode_step_v5 max_in min_chunk npi b :
  sniff b = Ok (Some 5) ->
  no_proto_failure (fst (fst (fst (CodecV5.decode_step max_in min_chunk npi CodecV5.FrameHeader b)))).
Proof.
  intros Hs. pose proof Hs as Hr. apply (sniff_routes b 5 (or_intror eq_refl)) in Hr as (rl & k & Hh & Hd & _).
  destruct b as [|b0 t]; [discriminate|]. cbn [hd_error tl] in Hh, Hd. injection Hh as ->.
  destruct t as [|t0 t']; [vm_compute in Hd; discriminate|].
  cbn [CodecV5.decode_step CodecV5.step_frame_header]. rewrite Hd.
  destruct (negb (max_in =? 0) && (max_in <? rl)).
  { unfold CodecV5.dret. cbn [fst]. unfold no_proto_failure. cbn [good]. err_ok. }
  change (CodecV5.is_publish S_CONNECT) with false. cbv iota.
  unfold CodecV5.step_frame.
  set (src' := skipn (N.to_nat (k + 1)) (S_CONNECT :: t0 :: t')).
  destruct (len src' <? rl). { unfold CodecV5.dret. cbn [fst]. exact I. }
  unfold CodecV5.split_to. cbv iota.
  set (body := firstn (N.to_nat rl) src').
  assert (G : no_proto_failure (CodecV5.connect_decode body)).
  { destruct (N.ltb_spec (len body) 10) as [Hlt|Hge].
    - rewrite V5.connect_decode_short by exact Hlt. unfold no_proto_failure. cbn [good]. err_ok.
    - apply (sniff_agrees_with_decoder _ rl k body Hs Hd eq_refl Hge). }
  rewrite V5.decode_packet_connect. unfold no_proto_failure in *.
  destruct (CodecV5.connect_decode body) as [c|e|s]; cbn [bind CodecV5.lift_err good] in *;
    unfold CodecV5.dret; cbn [fst good]; exact G.
Qed.

(* same for the v3 codec *)
Lemma sniff_agrees_with_decode_step_v3 max_size min_chunk b :
  sniff b = Ok (Some 4) ->
  no_proto_failure (fst (fst (CodecV3.decode_step max_size min_chunk CodecV3.FrameHeader b))).
Proof.
  intros Hs. pose proof Hs as Hr. apply (sniff_routes b 4 (or_introl eq_refl)) in Hr as (rl & k & Hh & Hd & _).
  destruct b as [|b0 t]; [discriminate|]. cbn [hd_error tl] in Hh, Hd. injection Hh as ->.
  cbn [CodecV3.decode_step]. unfold CodecV3.step_frame_header.
  destruct (len (S_CONNECT :: t) <? 2); [exact I|]. rewrite Hd.
  destruct (negb (max_size =? 0) && (max_size <? rl)).
  { cbn [fst]. unfold no_proto_failure. cbn [good]. err_ok. }
  pose proof (dec_vi_opt_some _ _ _ Hd) as (_ & Hk & _).
  unfold CodecV3.advance.
  replace (len (S_CONNECT :: t) <? k + 1) with false by (rewrite len_cons; lia).
  change (CodecV3.is_publish S_CONNECT) with false. cbv iota.
  set (src' := skipn (N.to_nat (k + 1)) (S_CONNECT :: t)).
  destruct (len src' <? rl) eqn:El; [exact I|].
  unfold CodecV3.step_frame. rewrite El. unfold CodecV3.split_at.
  set (body := firstn (N.to_nat rl) src').
  assert (G : no_proto_failure (CodecV3.decode_connect_packet body)).
  { destruct (N.ltb_spec (len body) 10) as [Hlt|Hge].
    - rewrite V3.connect_decode_short by exact Hlt. unfold no_proto_failure. cbn [good]. err_ok.
    - apply (sniff_agrees_with_decoder_v3 _ rl k body Hs Hd eq_refl Hge). }
  rewrite V3.decode_packet_connect. unfold no_proto_failure in *.
  destruct (CodecV3.decode_connect_packet body) as [c|e|s]; cbn [fst good] in *; exact G.
Qed.

(* ------------------------------------------------------------------ 2 (sharper): exactly which bytes are looked at *)
(* the type byte and the var-int (k bytes) decide alone when the var-int is incomplete or bad;
   otherwise the answer is a function of the first 1 + k + 7 bytes *)
Lemma sniff_varint_incomplete b : dec_vi_opt (tl b) = Ok None -> sniff b = Ok None.
Proof.
  destruct b as [|b0 t]; [reflexivity|]. cbn [tl]. intros H. rewrite sniff_cons.
  apply dec_vi_opt_none in H as (_ & -> & _). reflexivity.
Qed.

Lemma sniff_varint_err b e : dec_vi_opt (tl b) = Err e -> sniff b = Err e.
Proof.
  destruct b as [|b0 t]; [intros H; vm_compute in H; discriminate|]. cbn [tl]. intros H.
  rewrite sniff_cons. unfold dec_vi_opt in H. unfold sniff_after.
  destruct (dec_vi t) as [[v r]|e'|p]; [discriminate| | discriminate].
  destruct (e' =? DE_MalformedPacket); [discriminate | injection H as ->; reflexivity].
Qed.

Lemma sniff_looks_at_header b rl k :
  dec_vi_opt (tl b) = Ok (Some (rl, k)) -> sniff b = sniff (firstn (N.to_nat (1 + k + 7)) b).
Proof.
  destruct b as [|b0 t]; [intros H; vm_compute in H; discriminate|]. cbn [tl]. intros H.
  unfold dec_vi_opt in H. destruct (dec_vi t) as [[v r]|e'|p'] eqn:Ed;
    [| destruct (e' =? DE_MalformedPacket); discriminate | discriminate].
  injection H as -> <-. apply dec_vi_ok_inv in Ed as (p & -> & _ & Hall).
  replace (N.to_nat (1 + (len (p ++ r) - len r) + 7)) with (S (length p + 7))
    by (rewrite len_app; unfold len; lia).
  cbn [firstn]. rewrite firstn_app_2. rewrite !sniff_cons, !Hall. unfold sniff_after.
  destruct (b0 =? S_CONNECT); [|reflexivity]. split7 r; reflexivity.
Qed.

(* ------------------------------------------------------------------ the sniffer ignores the remaining length *)
(* a complete CONNECT frame whose remaining length is < 7 stays undecided (the real combined server
   then waits for more bytes / its version timeout), while both codecs reject it at once; and the
   sniffer reads the protocol name across the frame boundary, out of the bytes that follow *)
Lemma sniff_short_frame_undecided vi rl body :
  is_varint vi rl -> (length body < 7)%nat -> sniff (S_CONNECT :: vi ++ body) = Ok None.
Proof.
  intros Hvi Hl. apply sniff_none_iff. right. exists S_CONNECT, (vi ++ body). split; [reflexivity|].
  right. exists rl, body. split; [apply is_varint_app; exact Hvi|]. split; [reflexivity | exact Hl].
Qed.

Lemma sniff_ignores_remaining_length :
  sniff [16; 0] = Ok None /\
  fst (fst (fst (CodecV5.decode_step 0 0 false CodecV5.FrameHeader [16; 0]))) = Err DE_InvalidLength /\
  fst (fst (CodecV3.decode_step 0 0 CodecV3.FrameHeader [16; 0])) = Err DE_InvalidLength /\
  sniff ([16; 0] ++ [0; 4; 77; 81; 84; 84; 4]) = Ok (Some 4) /\
  fst (fst (CodecV3.decode_step 0 0 CodecV3.FrameHeader ([16; 0] ++ [0; 4; 77; 81; 84; 84; 4])))
    = Err DE_InvalidLength.
Proof. repeat split; vm_compute; reflexivity. Qed.

(* ------------------------------------------------------------------ audit *)
Print Assumptions sniff_char.
Print Assumptions sniff_total.
Print Assumptions sniff_consumes_nothing.
Print Assumptions sniff_depends_on_12.
Print Assumptions sniff_consumes_nothing_11_refuted.
Print Assumptions sniff_looks_at_header.
Print Assumptions sniff_prefix_stable.
Print Assumptions sniff_decided_stable.
Print Assumptions sniff_none_iff.
Print Assumptions sniff_none_undecided.
Print Assumptions sniff_none_undecided_all.
Print Assumptions sniff_none_short_sharp.
Print Assumptions sniff_some_iff.
Print Assumptions sniff_routes.
Print Assumptions sniff_routes_v3.
Print Assumptions sniff_routes_v5.
Print Assumptions sniff_version_4_or_5.
Print Assumptions sniff_accepts_encoded.
Print Assumptions sniff_err_cases.
Print Assumptions sniff_agrees_with_decoder.
Print Assumptions sniff_agrees_with_decoder_v3.
Print Assumptions sniff_agrees_with_decoder_frame.
Print Assumptions sniff_agrees_with_decoder_frame_v3.
Print Assumptions sniff_agrees_with_decode_step_v5.
Print Assumptions sniff_agrees_with_decode_step_v3.
Print Assumptions sniff_short_frame_undecided.
Print Assumptions sniff_ignores_remaining_length.
