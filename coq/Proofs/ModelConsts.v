(* Proofs/ModelConsts.v -- the constants used by the hand-written codec models are the ones
   translated from the Rust source (Gen/Consts.v). *)
From Coq Require Import List NArith String.
From MV Require Import Gen.Consts Proofs.ConstsProofs.
From MV Require Model.CodecV3 Model.CodecV5.
Import ListNotations.
Local Open Scope N_scope.
Local Open Scope string_scope.

Lemma model_v5_constants_are_the_source_constants :
  lookup "CONNECT" gen_packet_types = Some CodecV5.PT_CONNECT /\
  lookup "CONNACK" gen_packet_types = Some CodecV5.PT_CONNACK /\
  lookup "PUBLISH_START" gen_packet_types = Some CodecV5.PT_PUBLISH_START /\
  lookup "PUBLISH_END" gen_packet_types = Some CodecV5.PT_PUBLISH_END /\
  lookup "PUBACK" gen_packet_types = Some CodecV5.PT_PUBACK /\
  lookup "PUBREC" gen_packet_types = Some CodecV5.PT_PUBREC /\
  lookup "PUBREL" gen_packet_types = Some CodecV5.PT_PUBREL /\
  lookup "PUBCOMP" gen_packet_types = Some CodecV5.PT_PUBCOMP /\
  lookup "SUBSCRIBE" gen_packet_types = Some CodecV5.PT_SUBSCRIBE /\
  lookup "SUBACK" gen_packet_types = Some CodecV5.PT_SUBACK /\
  lookup "UNSUBSCRIBE" gen_packet_types = Some CodecV5.PT_UNSUBSCRIBE /\
  lookup "UNSUBACK" gen_packet_types = Some CodecV5.PT_UNSUBACK /\
  lookup "PINGREQ" gen_packet_types = Some CodecV5.PT_PINGREQ /\
  lookup "PINGRESP" gen_packet_types = Some CodecV5.PT_PINGRESP /\
  lookup "DISCONNECT" gen_packet_types = Some CodecV5.PT_DISCONNECT /\
  lookup "AUTH" gen_packet_types = Some CodecV5.PT_AUTH /\
  lookup "UTF8_PAYLOAD" gen_property_types = Some CodecV5.P_UTF8_PAYLOAD /\
  lookup "MSG_EXPIRY_INT" gen_property_types = Some CodecV5.P_MSG_EXPIRY_INT /\
  lookup "CONTENT_TYPE" gen_property_types = Some CodecV5.P_CONTENT_TYPE /\
  lookup "RESP_TOPIC" gen_property_types = Some CodecV5.P_RESP_TOPIC /\
  lookup "CORR_DATA" gen_property_types = Some CodecV5.P_CORR_DATA /\
  lookup "SUB_ID" gen_property_types = Some CodecV5.P_SUB_ID /\
  lookup "SESS_EXPIRY_INT" gen_property_types = Some CodecV5.P_SESS_EXPIRY_INT /\
  lookup "ASSND_CLIENT_ID" gen_property_types = Some CodecV5.P_ASSND_CLIENT_ID /\
  lookup "SERVER_KA" gen_property_types = Some CodecV5.P_SERVER_KA /\
  lookup "AUTH_METHOD" gen_property_types = Some CodecV5.P_AUTH_METHOD /\
  lookup "AUTH_DATA" gen_property_types = Some CodecV5.P_AUTH_DATA /\
  lookup "REQ_PROB_INFO" gen_property_types = Some CodecV5.P_REQ_PROB_INFO /\
  lookup "WILL_DELAY_INT" gen_property_types = Some CodecV5.P_WILL_DELAY_INT /\
  lookup "REQ_RESP_INFO" gen_property_types = Some CodecV5.P_REQ_RESP_INFO /\
  lookup "RESP_INFO" gen_property_types = Some CodecV5.P_RESP_INFO /\
  lookup "SERVER_REF" gen_property_types = Some CodecV5.P_SERVER_REF /\
  lookup "REASON_STRING" gen_property_types = Some CodecV5.P_REASON_STRING /\
  lookup "RECEIVE_MAX" gen_property_types = Some CodecV5.P_RECEIVE_MAX /\
  lookup "TOPIC_ALIAS_MAX" gen_property_types = Some CodecV5.P_TOPIC_ALIAS_MAX /\
  lookup "TOPIC_ALIAS" gen_property_types = Some CodecV5.P_TOPIC_ALIAS /\
  lookup "MAX_QOS" gen_property_types = Some CodecV5.P_MAX_QOS /\
  lookup "RETAIN_AVAIL" gen_property_types = Some CodecV5.P_RETAIN_AVAIL /\
  lookup "USER" gen_property_types = Some CodecV5.P_USER /\
  lookup "MAX_PACKET_SIZE" gen_property_types = Some CodecV5.P_MAX_PACKET_SIZE /\
  lookup "WILDCARD_SUB_AVAIL" gen_property_types = Some CodecV5.P_WILDCARD_SUB_AVAIL /\
  lookup "SUB_IDS_AVAIL" gen_property_types = Some CodecV5.P_SUB_IDS_AVAIL /\
  lookup "SHARED_SUB_AVAIL" gen_property_types = Some CodecV5.P_SHARED_SUB_AVAIL /\
  gen_MAX_PACKET_SIZE = CodecV5.MAX_PACKET_SIZE /\
  gen_RECEIVE_MAX_DEFAULT = CodecV5.RECEIVE_MAX_DEFAULT.
Proof. repeat split; reflexivity. Qed.

Lemma model_v3_constants_are_the_source_constants :
  lookup "CONNECT" gen_packet_types = Some CodecV3.CONNECT /\
  lookup "CONNACK" gen_packet_types = Some CodecV3.CONNACK /\
  lookup "PUBLISH_START" gen_packet_types = Some CodecV3.PUBLISH_START /\
  lookup "PUBLISH_END" gen_packet_types = Some CodecV3.PUBLISH_END /\
  lookup "PUBACK" gen_packet_types = Some CodecV3.PUBACK /\
  lookup "PUBREC" gen_packet_types = Some CodecV3.PUBREC /\
  lookup "PUBREL" gen_packet_types = Some CodecV3.PUBREL /\
  lookup "PUBCOMP" gen_packet_types = Some CodecV3.PUBCOMP /\
  lookup "SUBSCRIBE" gen_packet_types = Some CodecV3.SUBSCRIBE /\
  lookup "SUBACK" gen_packet_types = Some CodecV3.SUBACK /\
  lookup "UNSUBSCRIBE" gen_packet_types = Some CodecV3.UNSUBSCRIBE /\
  lookup "UNSUBACK" gen_packet_types = Some CodecV3.UNSUBACK /\
  lookup "PINGREQ" gen_packet_types = Some CodecV3.PINGREQ /\
  lookup "PINGRESP" gen_packet_types = Some CodecV3.PINGRESP /\
  lookup "DISCONNECT" gen_packet_types = Some CodecV3.DISCONNECT /\
  lookup "USERNAME" gen_flags_ConnectFlags = Some CodecV3.CF_USERNAME /\
  lookup "PASSWORD" gen_flags_ConnectFlags = Some CodecV3.CF_PASSWORD /\
  lookup "WILL_RETAIN" gen_flags_ConnectFlags = Some CodecV3.CF_WILL_RETAIN /\
  lookup "WILL_QOS" gen_flags_ConnectFlags = Some CodecV3.CF_WILL_QOS /\
  lookup "WILL" gen_flags_ConnectFlags = Some CodecV3.CF_WILL /\
  lookup "CLEAN_START" gen_flags_ConnectFlags = Some CodecV3.CF_CLEAN_START /\
  gen_protocol_name = CodecV3.MQTT /\
  gen_MQTT_LEVEL_3 = CodecV3.MQTT_LEVEL_3 /\
  gen_WILL_QOS_SHIFT = CodecV3.WILL_QOS_SHIFT.
Proof. repeat split; reflexivity. Qed.
