(* Proofs/CodecV3Stable.v -- C02: whatever the decoder accepts is a well-formed value that the
   encoder can write again, and decoding that gives the same value. *)
From Coq Require Import ZArith ZifyN ZifyBool Lia.
From MV Require Import Base.Prelude Base.Res Base.VarInt Base.Utf8 Proofs.VarIntProofs Model.CodecV3
  Proofs.CodecV3Lib Proofs.CodecV3Enc Proofs.CodecV3Dec Proofs.CodecV3RT.
Ltac Zify.zify_post_hook ::= Z.div_mod_to_equations.
Set Warnings "-unused-intro-pattern".

Lemma byte_ok_lt b : byte_ok b = true -> b < 256.
Proof. unfold byte_ok. lia. Qed.

Lemma bytes_ok_cons_inv a s : bytes_ok (a :: s) = true -> a < 256 /\ bytes_ok s = true.
Proof. rewrite bytes_ok_cons. intros H. apply andb_true_iff in H as [H1 H2]. split; [now apply byte_ok_lt|auto]. Qed.
Lemma bytes_ok_app_inv a b : bytes_ok (a ++ b) = true -> bytes_ok a = true /\ bytes_ok b = true.
Proof. rewrite bytes_ok_app. intros H. now apply andb_true_iff in H. Qed.

(* ------------------------------------------------------------------ field decoders on real bytes *)
Lemma dec_u16_acc s v r : bytes_ok s = true -> dec_u16 s = Ok (v, r) ->
  v <= U16MAX /\ bytes_ok r = true /\ len s = 2 + len r.
Proof.
  intros Hb H. apply dec_u16_inv in H as (a & b & -> & ->).
  apply bytes_ok_cons_inv in Hb as [Ha Hb]. apply bytes_ok_cons_inv in Hb as [Hb Hr].
  unfold U16MAX. lens. repeat split; auto; lia.
Qed.
Lemma dec_nz16_acc s v r : bytes_ok s = true -> dec_nz16 s = Ok (v, r) ->
  nz16_ok v = true /\ bytes_ok r = true /\ len s = 2 + len r.
Proof.
  intros Hb H. apply dec_nz16_inv in H as (a & b & -> & -> & Hn).
  apply bytes_ok_cons_inv in Hb as [Ha Hb]. apply bytes_ok_cons_inv in Hb as [Hb Hr].
  unfold nz16_ok, U16MAX. lens. repeat split; auto; lia.
Qed.
Lemma dec_bytes_acc s x r : bytes_ok s = true -> dec_bytes s = Ok (x, r) ->
  bytes_ok x = true /\ fits16 x = true /\ bytes_ok r = true /\ len s = 2 + len x + len r.
Proof.
  intros Hb H. apply dec_bytes_inv in H as (a & b & -> & Hl).
  apply bytes_ok_cons_inv in Hb as [Ha Hb]. apply bytes_ok_cons_inv in Hb as [Hb Hr].
  apply bytes_ok_app_inv in Hr as [Hx Hr].
  unfold fits16, U16MAX. lens. repeat split; auto; lia.
Qed.
Lemma dec_string_acc s x r : bytes_ok s = true -> dec_string s = Ok (x, r) ->
  str_ok x = true /\ fits16 x = true /\ bytes_ok r = true /\ len s = 2 + len x + len r.
Proof.
  intros Hb H. unfold dec_string in H. apply bind_ok in H as ([x' r'] & H1 & H2).
  destruct (utf8_valid x') eqn:E; [|discriminate]. injection H2 as <- <-.
  destruct (dec_bytes_acc _ _ _ Hb H1) as (A & B & C & D). unfold str_ok. rewrite A, E. auto.
Qed.

(* ------------------------------------------------------------------ packet decoders *)
Definition accepted (p : packet) (n : N) : Prop :=
  packet_ok p = true /\ packet_fits p = true /\ packet_rt_ok p = true /\ get_encoded_size p <= n.

Lemma decode_ack_acc f src p : bytes_ok src = true -> decode_ack f src = Ok p ->
  exists i, p = f i /\ nz16_ok i = true /\ len src = 2.
Proof.
  intros Hb H. unfold decode_ack in H. apply bind_ok in H as ([i r] & H1 & H2).
  apply bind_ok in H2 as (u & H2 & H3). apply ensure_ok in H2. destruct r; [|discriminate].
  injection H3 as <-. destruct (dec_nz16_acc _ _ _ Hb H1) as (A & _ & C). exists i. lens. auto.
Qed.

Lemma dec_sub_filters_acc fuel : forall src fs, bytes_ok src = true -> dec_sub_filters fuel src = Ok fs ->
  forallb (fun f => str_ok (fst f)) fs = true /\ forallb (fun f => fits16 (fst f)) fs = true /\
  len (sub_bytes fs) = len src.
Proof.
  induction fuel as [|k IH]; intros src fs Hb H.
  - destruct src; [injection H as <-; auto|discriminate].
  - destruct src as [|x src]; [injection H as <-; auto|]. cbn [dec_sub_filters] in H.
    apply bind_ok in H as ([t r] & H1 & H). apply bind_ok in H as (u & H2 & H).
    destruct r as [|y r]; [discriminate|]. cbn [get_u8 bind] in H.
    apply bind_ok in H as (q & H3 & H). apply bind_ok in H as (rest & H4 & H). injection H as <-.
    destruct (dec_string_acc _ _ _ Hb H1) as (A & B & C & D).
    apply bytes_ok_cons_inv in C as [_ C].
    destruct (IH _ _ C H4) as (A' & B' & D').
    cbn [forallb fst sub_bytes]. rewrite A, B, A', B'. repeat split. revert D. lens. lia.
Qed.

Lemma dec_unsub_filters_acc fuel : forall src fs, bytes_ok src = true -> dec_unsub_filters fuel src = Ok fs ->
  forallb str_ok fs = true /\ forallb fits16 fs = true /\ len (unsub_bytes fs) = len src.
Proof.
  induction fuel as [|k IH]; intros src fs Hb H.
  - destruct src; [injection H as <-; auto|discriminate].
  - destruct src as [|x src]; [injection H as <-; auto|]. cbn [dec_unsub_filters] in H.
    apply bind_ok in H as ([t r] & H1 & H). apply bind_ok in H as (rest & H4 & H). injection H as <-.
    destruct (dec_string_acc _ _ _ Hb H1) as (A & B & C & D).
    destruct (IH _ _ C H4) as (A' & B' & D').
    cbn [forallb unsub_bytes]. rewrite A, B, A', B'. repeat split. revert D. lens. lia.
Qed.

Lemma dec_sub_status_acc src : forall st, dec_sub_status src = Ok st -> N.of_nat (length st) = len src.
Proof.
  induction src as [|c r IH]; intros st H.
  - injection H as <-. reflexivity.
  - cbn [dec_sub_status] in H. apply bind_ok in H as (s & _ & H). apply bind_ok in H as (rest & H1 & H).
    injection H as <-. cbn [length]. rewrite len_cons, <- (IH _ H1). lia.
Qed.

Lemma decode_last_will_acc flags src lw r : bytes_ok src = true -> decode_last_will flags src = Ok (lw, r) ->
  opt_ok last_will_ok lw = true /\ opt_ok will_fits lw = true /\ bytes_ok r = true /\
  len src = len (will_bytes lw) + len r.
Proof.
  intros Hb H. unfold decode_last_will in H. destruct (has_bit flags CF_WILL).
  - apply bind_ok in H as ([t r1] & H1 & H). apply bind_ok in H as ([m r2] & H2 & H).
    apply bind_ok in H as (q & H3 & H). injection H as <- <-.
    destruct (dec_string_acc _ _ _ Hb H1) as (A & B & C & D).
    destruct (dec_bytes_acc _ _ _ C H2) as (A' & B' & C' & D').
    cbn [opt_ok will_bytes]. unfold last_will_ok, will_fits. cbn [lw_topic lw_message].
    rewrite A, B, A', B'. repeat split; auto. lens. lia.
  - injection H as <- <-. cbn. auto.
Qed.

Lemma decode_connect_acc src p : bytes_ok src = true -> decode_connect_packet src = Ok p ->
  accepted p (len src).
Proof.
  intros Hb H. unfold decode_connect_packet in H.
  apply bind_ok in H as (u & H0 & H). apply ensure_ok in H0.
  destruct src as [|a [|b [|c [|d [|e [|f [|g [|h src]]]]]]]]; try (exfalso; revert H0; lens; lia).
  cbn [get_u16 bind] in H.
  assert (A4 : advance 4 (c :: d :: e :: f :: g :: h :: src) = Ok (g :: h :: src)).
  { unfold advance. replace (len (c :: d :: e :: f :: g :: h :: src) <? 4) with false by (lens; lia).
    reflexivity. }
  apply bind_ok in H as (im & _ & H). apply bind_ok in H as (u1 & _ & H).
  rewrite A4 in H. cbn [bind get_u8] in H.
  apply bind_ok in H as (u2 & _ & H). apply bind_ok in H as (u3 & _ & H).
  do 8 (apply bytes_ok_cons_inv in Hb as [_ Hb]).
  apply bind_ok in H as ([ka s2] & H1 & H).
  destruct (dec_u16_acc _ _ _ Hb H1) as (K1 & K2 & K3).
  apply bind_ok in H as ([cid s3] & H2 & H).
  destruct (dec_string_acc _ _ _ K2 H2) as (C1 & C2 & C3 & C4).
  apply bind_ok in H as (u4 & H3 & H). apply ensure_ok in H3.
  apply bind_ok in H as ([lw s4] & H4 & H).
  destruct (decode_last_will_acc _ _ _ _ C3 H4) as (W1 & W2 & W3 & W4).
  apply bind_ok in H as ([un s5] & H5 & H).
  assert (U : opt_ok str_ok un = true /\ opt_ok fits16 un = true /\ bytes_ok s5 = true /\
              len s4 = len (opt16 un) + len s5).
  { destruct (has_bit h CF_USERNAME).
    - apply bind_ok in H5 as ([x r] & H5 & H6). injection H6 as <- <-.
      destruct (dec_string_acc _ _ _ W3 H5) as (A & B & C & D). cbn [opt_ok opt16]. lens. auto.
    - injection H5 as <- <-. cbn. auto. }
  destruct U as (U1 & U2 & U3 & U4).
  apply bind_ok in H as ([pw s6] & H6 & H).
  assert (P : opt_ok bytes_ok pw = true /\ opt_ok fits16 pw = true /\ len s5 = len (opt16 pw) + len s6).
  { destruct (has_bit h CF_PASSWORD).
    - apply bind_ok in H6 as ([x r] & H6 & H7). injection H7 as <- <-.
      destruct (dec_bytes_acc _ _ _ U3 H6) as (A & B & C & D). cbn [opt_ok opt16]. lens. auto.
    - injection H6 as <- <-. cbn. auto. }
  destruct P as (P1 & P2 & P4).
  injection H as <-. unfold accepted. cbn [packet_ok packet_fits packet_rt_ok].
  unfold connect_ok, connect_fits, connect_cid_ok, is_nil.
  cbn [c_keep_alive c_last_will c_client_id c_username c_password c_clean_session].
  rewrite W1, W2, C1, C2, U1, U2, P1, P2, H3.
  replace (ka <=? U16MAX) with true by lia. repeat split.
  rewrite <- body_len. cbn [body]. unfold connect_body.
  cbn [c_keep_alive c_last_will c_client_id c_username c_password c_clean_session].
  lens. change (len MQTT) with 4. lens. lia.
Qed.

Lemma decode_packet_acc fb src p : bytes_ok src = true -> decode_packet fb src = Ok p ->
  accepted p (len src).
Proof.
  intros Hb. unfold decode_packet.
  repeat match goal with |- (if ?c then _ else _) = _ -> _ => destruct c end.
  - now apply decode_connect_acc.
  - intros H. unfold decode_connect_ack_packet in H.
    apply bind_ok in H as (u & H0 & H). apply ensure_ok in H0.
    destruct src as [|a [|b src]]; try (exfalso; revert H0; lens; lia). cbn [get_u8 bind] in H.
    apply bind_ok in H as (u1 & _ & H). apply bind_ok in H as (rc & _ & H). injection H as <-.
    unfold accepted. cbn. repeat split. lens. lia.
  - intros H. destruct (decode_ack_acc _ _ _ Hb H) as (i & -> & Hi & Hl). unfold accepted. cbn. rewrite Hi, Hl.
    repeat split; lia.
  - intros H. destruct (decode_ack_acc _ _ _ Hb H) as (i & -> & Hi & Hl). unfold accepted. cbn. rewrite Hi, Hl.
    repeat split; lia.
  - intros H. destruct (decode_ack_acc _ _ _ Hb H) as (i & -> & Hi & Hl). unfold accepted. cbn. rewrite Hi, Hl.
    repeat split; lia.
  - intros H. destruct (decode_ack_acc _ _ _ Hb H) as (i & -> & Hi & Hl). unfold accepted. cbn. rewrite Hi, Hl.
    repeat split; lia.
  - intros H. unfold decode_subscribe_packet in H.
    apply bind_ok in H as ([i r] & H1 & H). apply bind_ok in H as (fs & H2 & H). injection H as <-.
    destruct (dec_nz16_acc _ _ _ Hb H1) as (A & B & C).
    destruct (dec_sub_filters_acc _ _ _ B H2) as (D & E & F).
    unfold accepted. cbn [packet_ok packet_fits packet_rt_ok get_encoded_size]. rewrite A, D, E.
    repeat split. unfold get_encoded_subscribe_size. rewrite <- len_sub_bytes. lia.
  - intros H. unfold decode_subscribe_ack_packet in H.
    apply bind_ok in H as ([i r] & H1 & H). apply bind_ok in H as (st & H2 & H). injection H as <-.
    destruct (dec_nz16_acc _ _ _ Hb H1) as (A & B & C).
    apply dec_sub_status_acc in H2.
    unfold accepted. cbn [packet_ok packet_fits packet_rt_ok get_encoded_size]. rewrite A.
    repeat split. lia.
  - intros H. unfold decode_unsubscribe_packet in H.
    apply bind_ok in H as ([i r] & H1 & H). apply bind_ok in H as (fs & H2 & H). injection H as <-.
    destruct (dec_nz16_acc _ _ _ Hb H1) as (A & B & C).
    destruct (dec_unsub_filters_acc _ _ _ B H2) as (D & E & F).
    unfold accepted. cbn [packet_ok packet_fits packet_rt_ok get_encoded_size]. rewrite A, D, E.
    repeat split. unfold get_encoded_unsubscribe_size. rewrite <- len_unsub_bytes. lia.
  - intros H. destruct (decode_ack_acc _ _ _ Hb H) as (i & -> & Hi & Hl). unfold accepted. cbn. rewrite Hi, Hl.
    repeat split; lia.
  - intros [= <-]. unfold accepted. cbn. repeat split. lia.
  - intros [= <-]. unfold accepted. cbn. repeat split. lia.
  - intros [= <-]. unfold accepted. cbn. repeat split. lia.
  - discriminate.
Qed.

(* ------------------------------------------------------------------ items of the steps *)
Lemma step_frame_item fb rl src it st' src' : step_frame fb rl src = (Ok (Some it), st', src') ->
  exists p, it = IPacket p rl /\ rl <= len src /\ decode_packet fb (firstn (N.to_nat rl) src) = Ok p /\
            st' = FrameHeader /\ src' = skipn (N.to_nat rl) src.
Proof.
  unfold step_frame. destruct (len src <? rl) eqn:E; [discriminate|]. unfold split_at.
  destruct (decode_packet fb _) as [p| |] eqn:Ed; intros [= <- <- <-]. exists p. repeat split; auto. lia.
Qed.

Lemma step_publish_header_item mc fb rl src it st' src' :
  step_publish_header mc fb rl src = (Ok (Some it), st', src') ->
  exists a b tl q pub x pl,
    src = a :: b :: tl /\ qos_of_n ((fb / 2) mod 4) = Ok q /\
    let hdr := a * 256 + b + 2 + (if is_qos12 q then 2 else 0) in
    hdr <= rl /\ hdr <= len src /\
    decode_publish_packet (firstn (N.to_nat hdr) src) fb (rl - hdr) = Ok (pub, x) /\
    it = IPublish pub pl rl /\ len pl <= rl - hdr /\
    exists k, pl = firstn k (skipn (N.to_nat hdr) src) /\ src' = skipn k (skipn (N.to_nat hdr) src).
Proof.
  unfold step_publish_header. destruct (rl <? 2); [discriminate|].
  destruct (publish_size src fb) as [[hdr|]| |] eqn:Eps; try discriminate.
  apply publish_size_some in Eps as (a & b & tl & q & -> & Hq & ->).
  set (hdr := a * 256 + b + 2 + _).
  destruct (rl <? hdr) eqn:E1; [discriminate|].
  destruct (len (a :: b :: tl) <? hdr) eqn:E2; [discriminate|].
  rewrite sub_chk_ok by lia. unfold split_at.
  destruct (decode_publish_packet _ fb (rl - hdr)) as [[pub x]| |] eqn:Ed; try discriminate.
  set (rest := skipn (N.to_nat hdr) (a :: b :: tl)).
  destruct (_ || _).
  - set (k := N.min (len rest) (rl - hdr)).
    destruct (sub_chk _ _); try discriminate. intros [= <- <- <-].
    exists a, b, tl, q, pub, x, (firstn (N.to_nat k) rest). cbn zeta. fold hdr.
    repeat split; auto; try lia.
    + lens. lia.
    + exists (N.to_nat k). split; reflexivity.
  - intros [= <- <- <-]. exists a, b, tl, q, pub, x, []. cbn zeta. fold hdr.
    repeat split; auto; try lia.
    + lens. lia.
    + exists 0%nat. split; reflexivity.
Qed.

Lemma step_publish_payload_item mc n src it st' src' :
  step_publish_payload mc n src = (Ok (Some it), st', src') -> exists pl eof, it = IChunk pl eof.
Proof.
  unfold step_publish_payload. destruct (_ || _); [|discriminate]. unfold split_at.
  destruct (sub_chk _ _); try discriminate. destruct (0 <? _); intros [= <- <- <-]; eauto.
Qed.

Lemma decode_publish_packet_acc hd a b tl fb ps q pub x :
  bytes_ok hd = true -> hd = a :: b :: tl -> qos_of_n ((fb / 2) mod 4) = Ok q ->
  decode_publish_packet hd fb ps = Ok (pub, x) -> ps <= U32MAX ->
  publish_ok pub = true /\ publish_fits pub = true /\
  get_encoded_publish_size pub = a * 256 + b + 2 + (if is_qos12 q then 2 else 0) + ps.
Proof.
  intros Hb -> Hq H Hps. unfold decode_publish_packet in H.
  apply bind_ok in H as ([t r] & H1 & H). rewrite Hq in H. cbn [bind] in H.
  destruct (dec_string_acc _ _ _ Hb H1) as (A & B & C & D).
  apply dec_string_inv in H1 as (a' & b' & E & Hl & _). injection E as <- <- _.
  apply bind_ok in H as ([pid r2] & H2 & H). injection H as <- <-.
  unfold publish_ok, publish_fits, pid_matches_qos, get_encoded_publish_size.
  cbn [p_topic p_packet_id p_payload_size p_qos]. rewrite A, B.
  replace (ps <=? U32MAX) with true by lia.
  destruct q; cbn [is_qos12] in *.
  - injection H2 as <- <-. cbn. repeat split. lia.
  - apply bind_ok in H2 as ([i r3] & H2 & H3). injection H3 as <- <-.
    destruct (dec_nz16_acc _ _ _ C H2) as (A' & _). cbn [opt_ok]. rewrite A'. cbn. repeat split. lia.
  - apply bind_ok in H2 as ([i r3] & H2 & H3). injection H3 as <- <-.
    destruct (dec_nz16_acc _ _ _ C H2) as (A' & _). cbn [opt_ok]. rewrite A'. cbn. repeat split. lia.
Qed.

(* ------------------------------------------------------------------ C02: accepted is stable *)
Lemma v3_accepted_packet : forall ms mc buf p rl st' buf',
  bytes_ok buf = true ->
  decode_step ms mc FrameHeader buf = (Ok (Some (IPacket p rl)), st', buf') ->
  packet_ok p = true /\ packet_fits p = true /\ packet_rt_ok p = true /\
  get_encoded_size p <= rl /\ rl <= VI_MAX.
Proof.
  intros ms mc buf p rl st' buf' Hb H.
  destruct (step_budget_header ms mc buf) as
    [E|[[e E]|(fb & h & r & rl' & st & c & -> & Hd & Hh & _ & Hrl & Hst & E & _)]]; cbn zeta in *.
  - rewrite E in H. discriminate.
  - rewrite E in H. discriminate.
  - rewrite E in H. apply bytes_ok_cons_inv in Hb as [_ Hb]. apply bytes_ok_app_inv in Hb as [_ Hb].
    subst st. destruct (is_publish fb); cbn [decode_step] in H.
    + apply step_publish_header_item in H as (a & b & tl & q & pub & x & pl & _ & _ & _ & _ & _ & Hit & _).
      discriminate.
    + apply step_frame_item in H as (p' & Hit & Hl & Hdp & _). injection Hit as <- <-.
      destruct (decode_packet_acc _ _ _ (bytes_ok_firstn _ _ Hb) Hdp) as (A & B & C & D).
      revert D. lens. intros D. repeat split; auto; lia.
Qed.

Lemma v3_accepted_publish : forall ms mc buf p pl rl st' buf',
  bytes_ok buf = true ->
  decode_step ms mc FrameHeader buf = (Ok (Some (IPublish p pl rl)), st', buf') ->
  publish_ok p = true /\ publish_fits p = true /\ get_encoded_publish_size p = rl /\ rl <= VI_MAX /\
  len pl <= p_payload_size p.
Proof.
  intros ms mc buf p pl rl st' buf' Hb H.
  destruct (step_budget_header ms mc buf) as
    [E|[[e E]|(fb & h & r & rl' & st & c & -> & Hd & Hh & _ & Hrl & Hst & E & _)]]; cbn zeta in *.
  - rewrite E in H. discriminate.
  - rewrite E in H. discriminate.
  - rewrite E in H. apply bytes_ok_cons_inv in Hb as [_ Hb]. apply bytes_ok_app_inv in Hb as [_ Hb].
    subst st. destruct (is_publish fb); cbn [decode_step] in H.
    + apply step_publish_header_item in H
        as (a & b & tl & q & pub & x & pl' & -> & Hq & Hle & Hls & Hdp & Hit & Hpl & _).
      injection Hit as -> -> ->.
      set (hdr := a * 256 + b + 2 + (if is_qos12 q then 2 else 0)) in *.
      assert (Hfirst : exists tl', firstn (N.to_nat hdr) (a :: b :: tl) = a :: b :: tl').
      { destruct (N.to_nat hdr) as [|[|k]] eqn:Ek; try (exfalso; unfold hdr in Ek; lia).
        cbn [firstn]. eauto. }
      destruct Hfirst as [tl' Hf].
      destruct (decode_publish_packet_acc _ a b tl' fb (rl' - hdr) q pub x (bytes_ok_firstn _ _ Hb) Hf Hq Hdp)
        as (A & B & C). { unfold VI_MAX, U32MAX in *. lia. }
      assert (Hps : p_payload_size pub = rl' - hdr).
      { clear -Hdp. unfold decode_publish_packet in Hdp.
        apply bind_ok in Hdp as ([t r] & _ & Hdp). apply bind_ok in Hdp as (q' & _ & Hdp).
        apply bind_ok in Hdp as ([pid r2] & _ & Hdp). injection Hdp as <- _. reflexivity. }
      repeat split; auto; fold hdr in C; lia.
    + apply step_frame_item in H as (p' & Hit & _). discriminate.
Qed.

(* re-encoding what was accepted and decoding it again yields the same packet *)
Lemma v3_accepted_is_stable : forall ms mc buf st' buf',
  bytes_ok buf = true ->
  (forall p rl, decode_step ms mc FrameHeader buf = (Ok (Some (IPacket p rl)), st', buf') ->
     packet_ok p = true /\
     exists bs, encodev 0 None (EPacket p) [] = (bs, None, Ok tt) /\
       forall mc' r, decode_step 0 mc' FrameHeader (bs ++ r)
                     = (Ok (Some (IPacket p (get_encoded_size p))), FrameHeader, r)) /\
  (forall p pl rl, decode_step ms mc FrameHeader buf = (Ok (Some (IPublish p pl rl)), st', buf') ->
     publish_ok p = true /\
     forall payload, len payload = p_payload_size p ->
       exists bs, encodev 0 None (EPublish p (Some payload)) [] = (bs, None, Ok tt) /\
         forall r, len (payload ++ r) <= U32MAX ->
           forall mc', decode_step 0 mc' FrameHeader (bs ++ r) = (Ok (Some (IPublish p payload rl)), FrameHeader, r)).
Proof.
  intros ms mc buf st' buf' Hb. split.
  - intros p rl H. destruct (v3_accepted_packet _ _ _ _ _ _ _ Hb H) as (A & B & C & D & E).
    split; [exact A|].
    destruct (v3_roundtrip_packet 0 p A B C ltac:(lia)) as (bs & He & _). exists bs. split; [exact He|].
    intros mc' r. destruct (v3_roundtrip_packet mc' p A B C ltac:(lia)) as (bs' & He' & Hd').
    rewrite He in He'. injection He' as <-. apply Hd'.
  - intros p pl rl H. destruct (v3_accepted_publish _ _ _ _ _ _ _ _ Hb H) as (A & B & C & D & E).
    split; [exact A|]. intros payload Hp.
    destruct (v3_roundtrip_publish 0 p payload A B (eq_sym Hp) ltac:(lia)) as (bs & He & _).
    exists bs. split; [exact He|]. intros r Hr mc'.
    destruct (v3_roundtrip_publish mc' p payload A B (eq_sym Hp) ltac:(lia)) as (bs' & He' & Hd').
    rewrite He in He'. injection He' as <-. rewrite <- C. apply Hd'. now right.
Qed.
