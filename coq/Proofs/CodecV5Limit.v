(* Proofs/CodecV5Limit.v -- C09 continued: what happens when the limit cannot be met, and the
   NO_PROBLEM_INFO flag. *)
From Coq Require Import ZArith ZifyN ZifyBool Lia.
From MV Require Import Base.Prelude Base.Res Base.VarInt Base.Utf8 Model.CodecV5
  Proofs.VarIntProofs Proofs.CodecV5Fields Proofs.CodecV5Size.
Ltac Zify.zify_post_hook ::= Z.div_mod_to_equations.

(* the packet with every droppable diagnostic (reason string, user properties) removed *)
Definition drop_diag (p : packet) : packet :=
  match p with
  | ConnectAck a =>
    ConnectAck (mkConnectAck (ca_session_present a) (ca_reason_code a) (ca_session_expiry_interval_secs a)
      (ca_receive_max a) (ca_max_qos a) (ca_max_packet_size a) (ca_assigned_client_id a)
      (ca_topic_alias_max a) (ca_retain_available a) (ca_wildcard_subscription_available a)
      (ca_subscription_identifiers_available a) (ca_shared_subscription_available a)
      (ca_server_keepalive_sec a) (ca_response_info a) (ca_server_reference a) (ca_auth_method a)
      (ca_auth_data a) None [])
  | PublishAck a => PublishAck (mkPublishAck (pa_packet_id a) (pa_reason_code a) [] None)
  | PublishReceived a => PublishReceived (mkPublishAck (pa_packet_id a) (pa_reason_code a) [] None)
  | PublishRelease a => PublishRelease (mkPublishAck2 (pa2_packet_id a) (pa2_reason_code a) [] None)
  | PublishComplete a => PublishComplete (mkPublishAck2 (pa2_packet_id a) (pa2_reason_code a) [] None)
  | SubscribeAck a => SubscribeAck (mkSubscribeAck (sa_packet_id a) [] None (sa_status a))
  | UnsubscribeAck a => UnsubscribeAck (mkUnsubscribeAck (ua_packet_id a) [] None (ua_status a))
  | Disconnect d =>
    Disconnect (mkDisconnect (d_reason_code d) (d_session_expiry_interval_secs d) (d_server_reference d) None [])
  | Auth a => Auth (mkAuth (a_reason_code a) (a_auth_method a) (a_auth_data a) None [])
  | _ => p
  end.

Lemma apes_drop_le ups reason lim :
  ack_props_encoded_size [] None lim <= ack_props_encoded_size ups reason lim.
Proof.
  unfold ack_props_encoded_size. destruct (lim <? 4); [lia|]. cbn [encoded_size_opt_props].
  pose proof (var_int_len_pos (encoded_size_opt_props ups reason (lim - 4))). rewrite var_int_len_0. lia.
Qed.

Lemma diag_size_mono pl1 D : var_int_len (pl1 + 0) + (pl1 + 0) <= var_int_len (pl1 + D) + (pl1 + D).
Proof. pose proof (var_int_len_mono (pl1 + 0) (pl1 + D)). lia. Qed.

Lemma drop_diag_size_le p lim : packet_encoded_size (drop_diag p) lim <= packet_encoded_size p lim.
Proof.
  destruct p; cbn [drop_diag packet_encoded_size]; try lia.
  - rewrite !connect_ack_size_eq. cbv zeta.
    change (connect_ack_fixed_len (mkConnectAck _ _ _ _ _ _ _ _ _ _ _ _ _ _ _ _ _ _ _)) with (connect_ack_fixed_len c).
    cbn [ca_user_properties ca_reason_string encoded_size_opt_props].
    pose proof (diag_size_mono (connect_ack_fixed_len c)
      (encoded_size_opt_props (ca_user_properties c) (ca_reason_string c)
         (reduce_limit lim (2 + 4 + connect_ack_fixed_len c)))). lia.
  - unfold publish_ack_encoded_size. cbn [pa_properties pa_reason_string].
    pose proof (apes_drop_le (pa_properties a) (pa_reason_string a) (reduce_limit lim (3 + 4))). lia.
  - unfold publish_ack_encoded_size. cbn [pa_properties pa_reason_string].
    pose proof (apes_drop_le (pa_properties a) (pa_reason_string a) (reduce_limit lim (3 + 4))). lia.
  - unfold publish_ack2_encoded_size. cbn [pa2_properties pa2_reason_string].
    pose proof (apes_drop_le (pa2_properties a) (pa2_reason_string a) (reduce_limit lim (3 + 4))). lia.
  - unfold publish_ack2_encoded_size. cbn [pa2_properties pa2_reason_string].
    pose proof (apes_drop_le (pa2_properties a) (pa2_reason_string a) (reduce_limit lim (3 + 4))). lia.
  - unfold subscribe_ack_encoded_size. cbn [sa_properties sa_reason_string sa_status].
    destruct (U32MAX - 2 <? len (sa_status s)); [lia|].
    pose proof (apes_drop_le (sa_properties s) (sa_reason_string s) (reduce_limit lim (2 + len (sa_status s)))). lia.
  - unfold unsubscribe_ack_encoded_size. cbn [ua_properties ua_reason_string ua_status].
    pose proof (apes_drop_le (ua_properties u) (ua_reason_string u) (reduce_limit lim (2 + len (ua_status u)))). lia.
  - unfold disconnect_encoded_size. cbn [d_user_properties d_reason_string d_session_expiry_interval_secs
      d_server_reference encoded_size_opt_props]. cbv zeta.
    set (pl0 := eps sz4 _ + eps es_bytes _).
    pose proof (diag_size_mono pl0 (encoded_size_opt_props (d_user_properties d) (d_reason_string d)
      (reduce_limit lim (pl0 + 1 + 4)))). lia.
  - unfold auth_encoded_size. cbn [a_user_properties a_reason_string a_auth_method a_auth_data
      encoded_size_opt_props]. cbv zeta.
    set (pl0 := eps es_bytes _ + eps es_bytes _).
    pose proof (diag_size_mono pl0 (encoded_size_opt_props (a_user_properties a) (a_reason_string a)
      (reduce_limit lim (pl0 + 1 + 4)))). lia.
Qed.

(* if even without any diagnostic the content is above the limit (content size, or whole frame against
   the peer maximum) the result is Err OverMaxPacketSize and nothing is written *)
Theorem v5_else_oversize c p :
  ec_encoding_payload c = None ->
  let L := max_size_of c in
  let m := packet_encoded_size (drop_diag (effective c p)) L in
  (L < m \/ (ec_max_out_frame c <> 0 /\ ec_max_out_frame c < m + var_int_len m + 1)) ->
  encodev c (EPacket p) = (([], Err EE_OverMaxPacketSize), c).
Proof.
  intros Hp L m H. unfold encodev. rewrite encode_item_packet, Hp. cbv zeta. fold L.
  pose proof (drop_diag_size_le (effective c p) L) as Hle. fold m in Hle.
  set (cs := packet_encoded_size (effective c p) L) in *.
  destruct (L <? cs) eqn:E; [reflexivity|].
  destruct H as [H|[H0 H]]; [lia|].
  unfold check_frame_size. pose proof (var_int_len_mono m cs Hle).
  replace (negb (ec_max_out_frame c =? 0) && (ec_max_out_frame c <? cs + var_int_len cs + 1)) with true by lia.
  reflexivity.
Qed.

(* ------------------------------------------------------------------ NO_PROBLEM_INFO *)
Definition no_diag (p : packet) : Prop :=
  match p with
  | PublishAck a | PublishReceived a => pa_properties a = [] /\ pa_reason_string a = None
  | PublishRelease a | PublishComplete a => pa2_properties a = [] /\ pa2_reason_string a = None
  | SubscribeAck a => sa_properties a = [] /\ sa_reason_string a = None
  | UnsubscribeAck a => ua_properties a = [] /\ ua_reason_string a = None
  | Auth a => a_user_properties a = [] /\ a_reason_string a = None
  | _ => True
  end.

Lemma strip_packet_no_diag p : no_diag (strip_packet p).
Proof. destruct p; cbn; auto. Qed.

Lemma strip_packet_idem p : strip_packet (strip_packet p) = strip_packet p.
Proof. destruct p; reflexivity. Qed.

(* with NO_PROBLEM_INFO the packet that is sized and written is the stripped one: PUBACK, PUBREC,
   PUBREL, PUBCOMP, SUBACK, UNSUBACK, AUTH carry neither reason string nor user properties *)
Theorem v5_no_problem_info c p :
  ec_no_problem_info c = true ->
  effective c p = strip_packet p /\ no_diag (effective c p) /\
  encodev c (EPacket p) = encodev c (EPacket (strip_packet p)).
Proof.
  intros H. unfold effective. rewrite H. split; [reflexivity|]. split; [apply strip_packet_no_diag|].
  unfold encodev. rewrite !encode_item_packet. unfold effective. rewrite H, strip_packet_idem. reflexivity.
Qed.

(* the bytes: an acknowledgement without diagnostics is [type; 4; id; reason code; property length 0] *)
Lemma apes_nil lim : ack_props_encoded_size [] None lim = 1.
Proof. unfold ack_props_encoded_size. destruct (lim <? 4); reflexivity. Qed.

Lemma u16_split n : n < 65536 -> (n / 256) * 256 + n mod 256 = n.
Proof. intros. lia. Qed.

Theorem v5_no_problem_info_ack_bytes c p w c' :
  ec_no_problem_info c = true ->
  encodev c (EPacket p) = ((w, Ok tt), c') ->
  match p with
  | PublishAck a | PublishReceived a =>
    w = [first_byte p; 4; pa_packet_id a / 256; pa_packet_id a mod 256; pa_reason_code a; 0]
  | PublishRelease a | PublishComplete a =>
    w = [first_byte p; 4; pa2_packet_id a / 256; pa2_packet_id a mod 256; pa2_reason_code a; 0]
  | SubscribeAck a =>
    exists vi, enc_vi (3 + len (sa_status a)) = Some vi /\
      w = first_byte p :: vi ++ [sa_packet_id a / 256; sa_packet_id a mod 256; 0] ++ sa_status a
  | UnsubscribeAck a =>
    exists vi, enc_vi (3 + len (ua_status a)) = Some vi /\
      w = first_byte p :: vi ++ [ua_packet_id a / 256; ua_packet_id a mod 256; 0] ++ ua_status a
  | _ => True
  end.
Proof.
  intros Hn H. apply encodev_ok in H. rewrite encode_item_packet in H.
  destruct (ec_encoding_payload c); [discriminate|]. cbv zeta in H. unfold effective in H. rewrite Hn in H.
  pose proof (max_size_le c) as HL. set (L := max_size_of c) in *.
  destruct (L <? _) eqn:E; [discriminate|]. injection H as H _. apply wlet_inv in H as ([] & _ & H).
  destruct p; try exact I; cbn [strip_packet strip_problem_info packet_encoded_size packet_encode] in *.
  - unfold publish_ack_encoded_size, publish_ack_encode in *. cbn [pa_properties pa_reason_string pa_packet_id pa_reason_code] in *.
    rewrite apes_nil in *. cbn in H. now injection H as <-.
  - unfold publish_ack_encoded_size, publish_ack_encode in *. cbn [pa_properties pa_reason_string pa_packet_id pa_reason_code] in *.
    rewrite apes_nil in *. cbn in H. now injection H as <-.
  - unfold publish_ack2_encoded_size, publish_ack2_encode in *. cbn [pa2_properties pa2_reason_string pa2_packet_id pa2_reason_code] in *.
    rewrite apes_nil in *. cbn in H. now injection H as <-.
  - unfold publish_ack2_encoded_size, publish_ack2_encode in *. cbn [pa2_properties pa2_reason_string pa2_packet_id pa2_reason_code] in *.
    rewrite apes_nil in *. cbn in H. now injection H as <-.
  - unfold subscribe_ack_encoded_size, subscribe_ack_encode in *.
    cbn [sa_properties sa_reason_string sa_packet_id sa_status] in *. rewrite apes_nil in *.
    destruct (U32MAX - 2 <? len (sa_status s)) eqn:E2. { unfold USIZE_MAX, U64MAX, VI_MAX in *. lia. }
    apply wseq_inv in H as (x & y & E1 & E3 & ->). apply wput_inv in E1. subst x.
    apply wseq_inv in E3 as (vi & body & E4 & E5 & ->). apply w_vi_inv in E4.
    replace (2 + 1 + len (sa_status s)) with (3 + len (sa_status s)) in * by lia.
    exists vi. split; [assumption|].
    rewrite sub_chk_ok in E5 by lia. cbn [wlet] in E5. rewrite mod32_small in E5 by lia.
    rewrite sub_chk_ok in E5 by lia. cbn [wlet] in E5.
    replace (3 + len (sa_status s) - 2 - len (sa_status s)) with 1 in E5 by lia.
    cbn in E5. injection E5 as <-. reflexivity.
  - unfold unsubscribe_ack_encoded_size, unsubscribe_ack_encode in *.
    cbn [ua_properties ua_reason_string ua_packet_id ua_status] in *. rewrite apes_nil in *.
    apply wseq_inv in H as (x & y & E1 & E3 & ->). apply wput_inv in E1. subst x.
    apply wseq_inv in E3 as (vi & body & E4 & E5 & ->). apply w_vi_inv in E4.
    replace (2 + len (ua_status u) + 1) with (3 + len (ua_status u)) in * by lia.
    exists vi. split; [assumption|].
    rewrite sub_chk_ok in E5 by lia. cbn [wlet] in E5. rewrite mod32_small in E5 by lia.
    rewrite sub_chk_ok in E5 by lia. cbn [wlet] in E5.
    replace (3 + len (ua_status u) - 2 - len (ua_status u)) with 1 in E5 by lia.
    cbn in E5. injection E5 as <-. reflexivity.
Qed.
