(* Proofs/TimerRtProofs.v -- the keep-alive period a client adopts (Model/TimerRt.k_effective) and the cadence of
   the keep-alive loop that runs with it *)
From MV Require Import Base.Prelude Model.Timer Model.TimerRt Proofs.TimerProofs.

Lemma effective_server : forall own k, k_effective own (Some k) = k.
Proof. reflexivity. Qed.

Lemma effective_own : forall own, k_effective own None = own.
Proof. reflexivity. Qed.

Lemma server_keepalive_cadence : forall (own k : N) (n : nat),
  0 < k ->
  snd (k_run (k_effective own (Some k)) (k_init (k_effective own (Some k))) (repeat KTick n))
  = map (fun i => (N.of_nat i + 1) mod k =? 0) (seq 0 n).
Proof. intros own k n Hk. rewrite effective_server. apply client_ping_cadence; exact Hk. Qed.

Lemma srv_ka_v3_none : forall op, srv_ka_of false op = None.
Proof. reflexivity. Qed.

Lemma srv_ka_v5 : forall k, 1 <= k <= 3 -> srv_ka_of true (340 + k) = Some k.
Proof.
  intros k Hk. unfold srv_ka_of.
  assert (E1 : (341 <=? 340 + k) = true) by (apply N.leb_le; lia).
  assert (E2 : (340 + k <=? 343) = true) by (apply N.leb_le; lia).
  rewrite E1, E2. cbn [andb]. f_equal. lia.
Qed.
