(* Proofs/SinkInv.v -- the invariant of the outbound bookkeeping model (Model/Sink.v) and its preservation by every operation *)
From Coq Require Import Lia List NArith Bool Arith.
From MV Require Import Base.Prelude Model.Sink.
Import ListNotations.
Open Scope N_scope.

Arguments lenN : simpl never.

Ltac ds s := destruct s as [ver0 cl0 cap0 inf0 ids0 ws0 rxm0 idx0 wrb0 disc0 srem0 swait0 io0 crem0 chs0 tks0 wire0].
Ltac sk := cbn [ver client cap inflight ids waiters rxm idx wrb disc srem swait io crem chans tasks wire
                set_cap set_inflight set_ids set_waiters set_rxm set_idx set_wrb set_disc set_srem set_swait
                set_io set_crem set_chans set_tasks set_wire fst snd].
Tactic Notation "sk" "in" hyp(H) :=
  cbn [ver client cap inflight ids waiters rxm idx wrb disc srem swait io crem chans tasks wire
       set_cap set_inflight set_ids set_waiters set_rxm set_idx set_wrb set_disc set_srem set_swait
       set_io set_crem set_chans set_tasks set_wire fst snd] in H.

Lemma lenN_app {A} (a b : list A) : lenN (a ++ b) = lenN a + lenN b.
Proof. unfold lenN. rewrite app_length. lia. Qed.
Lemma lenN_cons {A} (x : A) l : lenN (x :: l) = 1 + lenN l.
Proof. unfold lenN. cbn [length]. lia. Qed.
Lemma lenN_nil {A} : lenN (@nil A) = 0. Proof. reflexivity. Qed.

Lemma memN_In x l : memN x l = true <-> In x l.
Proof.
  induction l as [|y l IH]; cbn [memN In]; [split; [discriminate|tauto]|].
  rewrite orb_true_iff, IH, N.eqb_eq. intuition congruence.
Qed.
Lemma memN_removeN x l : memN x (removeN x l) = false.
Proof.
  induction l as [|y l IH]; cbn [removeN memN]; auto.
  destruct (x =? y) eqn:E; auto. cbn [memN]. now rewrite E.
Qed.
Lemma In_removeN x y l : In y (removeN x l) <-> In y l /\ y <> x.
Proof.
  induction l as [|z l IH]; cbn [removeN In]; [tauto|].
  destruct (N.eqb_spec x z) as [->|Hne]; cbn [In]; rewrite IH; intuition congruence.
Qed.

Lemma NoDup_snoc {A} (l : list A) x : NoDup l -> ~ In x l -> NoDup (l ++ [x]).
Proof.
  induction l as [|y l IH]; intros H1 H2; cbn [app].
  - constructor; [intros []|constructor].
  - inversion H1 as [|? ? H3 H4]; subst. constructor.
    + rewrite in_app_iff. cbn [In]. intros [H|[H|[]]]; [auto|]. apply H2. now left.
    + apply IH; auto. intros H; apply H2; now right.
Qed.

(* ---------------------------------------------------------------- channel table *)
Definition dflt : chan := mkChan CSenderDropped 0 false.

Lemma upd_nth_length {A} (f : A -> A) l : forall n, length (upd_nth n f l) = length l.
Proof. induction l as [|x l IH]; intros [|n]; cbn [upd_nth length]; auto. Qed.

Lemma nth_upd_nth {A} (f : A -> A) d l : forall n m,
  nth m (upd_nth n f l) d = if Nat.eqb n m then (if Nat.ltb m (length l) then f (nth m l d) else d) else nth m l d.
Proof.
  induction l as [|x l IH]; intros n m.
  - cbn [upd_nth nth length]. destruct m, n; cbn; auto; destruct (Nat.eqb n m); auto.
  - destruct n as [|n], m as [|m]; cbn [upd_nth nth length Nat.eqb]; auto.
    rewrite IH. destruct (Nat.eqb n m); auto.
Qed.

Lemma ch_get_upd f chs n m :
  f dflt = dflt ->
  ch_get (upd_nth n f chs) m = if Nat.eqb n m then f (ch_get chs m) else ch_get chs m.
Proof.
  intros Hf. unfold ch_get. fold dflt. rewrite nth_upd_nth. destruct (Nat.eqb n m); auto.
  destruct (Nat.ltb_spec m (length chs)); auto. rewrite nth_overflow by lia. auto.
Qed.

Lemma ch_get_overflow chs c : (length chs <= c)%nat -> ch_get chs c = dflt.
Proof. intros H. unfold ch_get. now apply nth_overflow. Qed.

Lemma ch_get_app_old chs x c : (c < length chs)%nat -> ch_get (chs ++ [x]) c = ch_get chs c.
Proof. intros H. unfold ch_get. now apply app_nth1. Qed.
Lemma ch_get_app_new chs x : ch_get (chs ++ [x]) (length chs) = x.
Proof. unfold ch_get. rewrite app_nth2 by lia. now rewrite Nat.sub_diag. Qed.

Lemma rx_in_range chs c : c_rx (ch_get chs c) = true -> (c < length chs)%nat.
Proof.
  intros H. destruct (Nat.ltb_spec c (length chs)); auto. rewrite ch_get_overflow in H by lia. discriminate.
Qed.
Lemma open_in_range chs c : c_st (ch_get chs c) = COpen -> (c < length chs)%nat.
Proof.
  intros H. destruct (Nat.ltb_spec c (length chs)); auto. rewrite ch_get_overflow in H by lia. discriminate.
Qed.

(* Drop for Sender *)
Definition dtx (ch : chan) : chan := match c_st ch with COpen => mkChan CSenderDropped 0 (c_rx ch) | _ => ch end.
Lemma ch_drop_tx_length chs c : length (ch_drop_tx chs c) = length chs.
Proof. apply upd_nth_length. Qed.
Lemma ch_drop_tx_get chs c m : ch_get (ch_drop_tx chs c) m = if Nat.eqb c m then dtx (ch_get chs m) else ch_get chs m.
Proof. unfold ch_drop_tx. now rewrite ch_get_upd. Qed.

Definition drx (ch : chan) : chan := mkChan (c_st ch) (c_val ch) false.
Lemma ch_drop_rx_length chs c : length (ch_drop_rx chs c) = length chs.
Proof. apply upd_nth_length. Qed.
Lemma ch_drop_rx_get chs c m : ch_get (ch_drop_rx chs c) m = if Nat.eqb c m then drx (ch_get chs m) else ch_get chs m.
Proof. unfold ch_drop_rx. now rewrite ch_get_upd. Qed.

Lemma ch_send_length chs c v : length (fst (ch_send chs c v)) = length chs.
Proof. unfold ch_send. destruct (c_rx _); cbn [fst]; auto using upd_nth_length. Qed.
Lemma ch_send_ok chs c v : snd (ch_send chs c v) = c_rx (ch_get chs c).
Proof. unfold ch_send. destruct (c_rx _); reflexivity. Qed.
Lemma ch_send_get chs c v m :
  ch_get (fst (ch_send chs c v)) m =
  if Nat.eqb c m && c_rx (ch_get chs c) then mkChan CFilled v true else ch_get chs m.
Proof.
  unfold ch_send. destruct (c_rx (ch_get chs c)) eqn:E; cbn [fst]; [|now rewrite andb_false_r].
  rewrite andb_true_r. unfold ch_get at 1. fold dflt. rewrite nth_upd_nth.
  destruct (Nat.eqb_spec c m) as [->|]; auto.
  apply rx_in_range in E. apply Nat.ltb_lt in E. now rewrite E.
Qed.

Lemma fold_dtx_length l : forall chs, length (fold_left ch_drop_tx l chs) = length chs.
Proof. induction l as [|c l IH]; intros chs; cbn [fold_left]; auto. now rewrite IH, ch_drop_tx_length. Qed.

Lemma dtx_idem ch : dtx (dtx ch) = dtx ch.
Proof. unfold dtx. destruct (c_st ch) eqn:E; cbn [c_st]; rewrite ?E; auto. Qed.

Lemma fold_dtx_get l : forall chs m,
  ch_get (fold_left ch_drop_tx l chs) m = if existsb (Nat.eqb m) l then dtx (ch_get chs m) else ch_get chs m.
Proof.
  induction l as [|c l IH]; intros chs m; cbn [fold_left existsb]; auto.
  rewrite IH, ch_drop_tx_get. rewrite (Nat.eqb_sym m c).
  destruct (Nat.eqb c m); cbn [orb]; [|reflexivity].
  rewrite dtx_idem. now destruct (existsb _ l).
Qed.

Lemma existsb_eqb_In m l : existsb (Nat.eqb m) l = true <-> In m l.
Proof.
  rewrite existsb_exists. split.
  - intros (x & H & E). apply Nat.eqb_eq in E. now subst.
  - intros H. exists m. split; auto. apply Nat.eqb_refl.
Qed.

(* wake_go *)
Lemma wake_go_length ws : forall chs num, length (fst (wake_go chs num ws)) = length chs.
Proof.
  induction ws as [|c r IH]; intros chs num; cbn [wake_go fst]; auto.
  destruct (num =? 0); cbn [fst]; auto.
  destruct (ch_send chs c 0) as [chs1 ok] eqn:E.
  assert (L : length chs1 = length chs) by (rewrite <- (ch_send_length chs c 0), E; reflexivity).
  destruct ok; rewrite IH; auto.
Qed.

(* the waiters popped by a wake, and among them those that received the wake *)
Lemma wake_go_spec ws : forall chs num,
  NoDup ws ->
  exists popped woken,
    ws = popped ++ snd (wake_go chs num ws) /\
    (forall c, In c woken <-> In c popped /\ c_rx (ch_get chs c) = true) /\
    (forall m, ch_get (fst (wake_go chs num ws)) m =
               if existsb (Nat.eqb m) woken then mkChan CFilled 0 true else ch_get chs m) /\
    NoDup woken /\
    lenN woken <= num /\
    (lenN woken = num \/ snd (wake_go chs num ws) = []).
Proof.
  induction ws as [|c r IH]; intros chs num Hnd.
  - exists [], []. cbn [wake_go fst snd app existsb In]. rewrite lenN_nil.
    split; [reflexivity|]. split; [tauto|]. split; [reflexivity|]. split; [constructor|]. split; [lia|now right].
  - cbn [wake_go]. destruct (N.eqb_spec num 0) as [->|Hn].
    + exists [], []. cbn [fst snd app existsb In]. rewrite lenN_nil.
      split; [reflexivity|]. split; [tauto|]. split; [reflexivity|]. split; [constructor|]. split; [lia|now left].
    + inversion Hnd as [|? ? Hc Hr]; subst.
      destruct (ch_send chs c 0) as [chs1 ok] eqn:E.
      assert (G : forall m, ch_get chs1 m = if Nat.eqb c m && c_rx (ch_get chs c) then mkChan CFilled 0 true else ch_get chs m).
      { intros m. rewrite <- (ch_send_get chs c 0 m), E. reflexivity. }
      assert (O : ok = c_rx (ch_get chs c)) by (rewrite <- (ch_send_ok chs c 0), E; reflexivity).
      assert (Hrx : forall c', In c' r -> c_rx (ch_get chs1 c') = c_rx (ch_get chs c')).
      { intros c' Hi. rewrite G. destruct (Nat.eqb_spec c c') as [->|]; [contradiction|reflexivity]. }
      destruct ok.
      * destruct (IH chs1 (num - 1) Hr) as (p & w & H1 & H2 & H3 & H4 & H5 & H6).
        assert (Hp : forall c', In c' p -> In c' r) by (intros c' Hi; rewrite H1; apply in_or_app; now left).
        exists (c :: p), (c :: w). cbn [app].
        split; [now rewrite <- H1|]. split; [|split; [|split; [|split]]].
        -- intros c'. cbn [In]. rewrite H2. split.
           ++ intros [<-|[Hi Hx]]; [split; [now left|now symmetry]|]. split; [now right|]. rewrite <- Hrx; auto.
           ++ intros [[<-|Hi] Hx]; [now left|]. right. split; auto. rewrite Hrx; auto.
        -- intros m. rewrite H3, G. cbn [existsb]. rewrite <- O, andb_true_r, (Nat.eqb_sym m c).
           destruct (existsb (Nat.eqb m) w); [now rewrite orb_true_r|]. now rewrite orb_false_r.
        -- constructor; auto. intros Hi. apply H2 in Hi as [Hi _]. apply Hc. auto.
        -- rewrite lenN_cons. lia.
        -- rewrite lenN_cons. destruct H6 as [H6|H6]; [left; lia|now right].
      * destruct (IH chs1 num Hr) as (p & w & H1 & H2 & H3 & H4 & H5 & H6).
        assert (Hp : forall c', In c' p -> In c' r) by (intros c' Hi; rewrite H1; apply in_or_app; now left).
        exists (c :: p), w. cbn [app].
        split; [now rewrite <- H1|]. split; [|split; [|auto]].
        -- intros c'. cbn [In]. rewrite H2. split.
           ++ intros [Hi Hx]. split; [now right|]. rewrite <- Hrx; auto.
           ++ intros [[<-|Hi] Hx]; [congruence|]. split; auto. rewrite Hrx; auto.
        -- intros m. rewrite H3, G. rewrite <- O, andb_false_r. reflexivity.
Qed.

Lemma NoDup_app_intro {A} (a b : list A) :
  NoDup a -> NoDup b -> (forall x, In x a -> In x b -> False) -> NoDup (a ++ b).
Proof.
  induction a as [|y a IH]; intros Ha Hb D; cbn [app]; auto.
  inversion Ha as [|? ? H1 H2]; subst. constructor.
  - rewrite in_app_iff. intros [H|H]; [auto|]. apply (D y); [now left|auto].
  - apply IH; auto. intros x H3 H4. apply (D x); [now right|auto].
Qed.
Lemma NoDup_app_l {A} (a b : list A) : NoDup (a ++ b) -> NoDup a.
Proof. induction a as [|y a IH]; cbn [app]; intros H; [constructor|]. inversion H; subst. constructor; auto. rewrite in_app_iff in *. tauto. Qed.
Lemma NoDup_app_r {A} (a b : list A) : NoDup (a ++ b) -> NoDup b.
Proof. induction a as [|y a IH]; cbn [app]; auto. intros H. inversion H; auto. Qed.

(* ---------------------------------------------------------------- task table *)
Fixpoint sortedk (l : list (N * task)) : Prop :=
  match l with [] => True | (i, _) :: r => (forall j y, In (j, y) r -> i < j) /\ sortedk r end.

Lemma find_task_In t x l : sortedk l -> (find_task t l = Some x <-> In (t, x) l).
Proof.
  induction l as [|[i y] r IH]; cbn [sortedk find_task In]; [intros _; split; [discriminate|tauto]|].
  intros [H1 H2]. destruct (N.eqb_spec i t) as [->|Hne].
  - split; [intros E; injection E as <-; now left|].
    intros [E|Hi]; [injection E as <-; reflexivity|]. apply H1 in Hi. lia.
  - rewrite IH by assumption. split; [tauto|]. intros [E|Hi]; [congruence|assumption].
Qed.

Lemma find_task_None t l : find_task t l = None -> forall x, ~ In (t, x) l.
Proof.
  induction l as [|[i y] r IH]; cbn [find_task In]; [tauto|].
  destruct (N.eqb_spec i t) as [->|Hne]; [discriminate|].
  intros H x [E|Hi]; [congruence|]. now apply (IH H x).
Qed.

Lemma put_task_In t x l : sortedk l ->
  forall t' x', In (t', x') (put_task t x l) <-> (t' = t /\ x' = x) \/ (t' <> t /\ In (t', x') l).
Proof.
  induction l as [|[i y] r IH]; cbn [sortedk put_task In].
  - intros _ t' x'. split; [intros [E|[]]; injection E as <- <-; now left|]. intros [[-> ->]|[_ []]]. now left.
  - intros [H1 H2] t' x'. destruct (N.eqb_spec i t) as [->|Hne].
    + cbn [In]. split.
      * intros [E|Hi]; [injection E as <- <-; now left|]. right. split; auto. apply H1 in Hi. lia.
      * intros [[-> ->]|[Hn [E|Hi]]]; [now left| congruence | now right].
    + destruct (N.ltb_spec t i) as [Hlt|Hge]; cbn [In].
      * split.
        -- intros [E|[E|Hi]]; [injection E as <- <-; now left| injection E as <- <-; right; split; [lia|now left] |].
           right. split; [apply H1 in Hi; lia|now right].
        -- intros [[-> ->]|[Hn [E|Hi]]]; [now left| right; now left | right; now right].
      * rewrite IH by assumption. split.
        -- intros [E|[[-> ->]|[Hn Hi]]]; [injection E as <- <-; right; split; [congruence|now left] | now left | right; split; auto].
        -- intros [[-> ->]|[Hn [E|Hi]]]; [right; now left | now left | right; right; now split].
Qed.

Lemma put_task_sorted t x l : sortedk l -> sortedk (put_task t x l).
Proof.
  induction l as [|[i y] r IH]; cbn [sortedk put_task]; [intros _; split; [intros ? ? []|exact I]|].
  intros [H1 H2]. destruct (N.eqb_spec i t) as [->|Hne]; [cbn [sortedk]; auto|].
  destruct (N.ltb_spec t i) as [Hlt|Hge]; cbn [sortedk].
  - split; [|split; auto]. intros j z [E|Hi]; [injection E as <- <-; auto|]. apply H1 in Hi. lia.
  - split; [|auto]. intros j z Hi. apply put_task_In in Hi; auto. destruct Hi as [[-> ->]|[_ Hi]]; [lia|eauto].
Qed.

(* ---------------------------------------------------------------- explicit forms of the recursive helpers *)
Definition txs (l : list (N * option nat * N)) : list nat :=
  flat_map (fun e => match snd (fst e) with Some c => [c] | None => [] end) l.
Definition optl (o : option nat) : list nat := match o with Some c => [c] | None => [] end.

Lemma fold_drop_tx l : forall s, fold_left drop_tx l s = set_chans s (fold_left ch_drop_tx l (chans s)).
Proof. induction l as [|c l IH]; intros s; cbn [fold_left]; [ds s; reflexivity|]. rewrite IH. ds s. reflexivity. Qed.

Lemma fold_drop_inf l : forall s,
  fold_left (fun st e => drop_tx_opt st (snd (fst e))) l s = set_chans s (fold_left ch_drop_tx (txs l) (chans s)).
Proof.
  induction l as [|[[i tx] tp] l IH]; intros s; cbn [fold_left txs flat_map]; [ds s; reflexivity|].
  rewrite IH. cbn [snd fst]. destruct tx as [c|]; ds s; cbn; reflexivity.
Qed.

Definition senders (s : sink) : list nat := waiters s ++ optl (swait s) ++ txs (inflight s).
Definition cleared (s : sink) : list chan := fold_left ch_drop_tx (senders s) (chans s).

Lemma clear_queues_eq s :
  clear_queues s = set_inflight (set_swait (set_waiters (set_chans s (cleared s)) []) None) [].
Proof.
  unfold clear_queues, cleared, senders. rewrite fold_drop_tx. rewrite fold_drop_inf.
  rewrite !fold_left_app. ds s. cbn. destruct swait0; reflexivity.
Qed.

Lemma wake_eq s n : wake s n = set_waiters (set_chans s (fst (wake_go (chans s) n (waiters s)))) (snd (wake_go (chans s) n (waiters s))).
Proof. unfold wake. destruct (wake_go _ _ _). reflexivity. Qed.

(* ---------------------------------------------------------------- sending a packet *)
Definition is_pub (tag : N) : bool := (tag =? W_PUB1) || (tag =? W_PUB2) || (tag =? W_SUBSCRIBE) || (tag =? W_UNSUBSCRIBE).
Definition exp_kind (x : task) : N := if tk x =? 3 then 4 else if tk x =? 4 then 5 else acktype_of (tk x).
Definition open_ch : chan := mkChan COpen 0 true.

(* the channel table changed at most at the signal channel of task [x] *)
Definition sig_only (x : task) (chs chs' : list chan) : Prop :=
  length chs' = length chs /\ forall c, sig_of x <> Some c -> ch_get chs' c = ch_get chs c.

Lemma sig_only_refl x chs : sig_only x chs chs.
Proof. split; auto. Qed.
Lemma sig_only_trans x a b c : sig_only x a b -> sig_only x b c -> sig_only x a c.
Proof. intros [L1 G1] [L2 G2]. split; [congruence|]. intros m H. now rewrite G2, G1. Qed.
Lemma sig_only_send x chs v : sig_only x chs (match sig_of x with Some c => fst (ch_send chs c v) | None => chs end).
Proof.
  unfold sig_only. destruct (sig_of x) as [c|] eqn:E; [|auto]. split; [apply ch_send_length|].
  intros m H. rewrite ch_send_get. destruct (Nat.eqb_spec c m) as [->|]; [congruence|reflexivity].
Qed.
Lemma sig_only_drop x chs : sig_only x chs (match sig_of x with Some c => ch_drop_tx chs c | None => chs end).
Proof.
  unfold sig_only. destruct (sig_of x) as [c|] eqn:E; [|auto]. split; [apply ch_drop_tx_length|].
  intros m H. rewrite ch_drop_tx_get. destruct (Nat.eqb_spec c m) as [->|]; [congruence|reflexivity].
Qed.

Lemma drop_sig_chans s x : sig_only x (chans s) (chans (drop_sig s x)).
Proof.
  unfold drop_sig, drop_tx_opt, drop_tx. destruct (ttx x); [|apply sig_only_refl].
  generalize (sig_only_drop x (chans s)). destruct (sig_of x); sk; auto.
Qed.

(* everything but the channel table *)
Record same_nc (s s' : sink) : Prop := mkSameNc {
  nc_ver : ver s' = ver s; nc_client : client s' = client s; nc_cap : cap s' = cap s;
  nc_inflight : inflight s' = inflight s; nc_ids : ids s' = ids s; nc_waiters : waiters s' = waiters s;
  nc_rxm : rxm s' = rxm s; nc_idx : idx s' = idx s; nc_wrb : wrb s' = wrb s; nc_disc : disc s' = disc s;
  nc_srem : srem s' = srem s; nc_swait : swait s' = swait s; nc_io : io s' = io s; nc_crem : crem s' = crem s;
  nc_tasks : tasks s' = tasks s; nc_wire : wire s' = wire s }.

Lemma same_nc_refl s : same_nc s s. Proof. constructor; reflexivity. Qed.
Lemma same_nc_trans a b c : same_nc a b -> same_nc b c -> same_nc a c.
Proof. intros [] []. constructor; congruence. Qed.

Lemma drop_sig_nc s x : same_nc s (drop_sig s x).
Proof. unfold drop_sig, drop_tx_opt, drop_tx. destruct (ttx x), (sig_of x); constructor; reflexivity. Qed.
Lemma send_opt_nc s tx v : same_nc s (send_opt s tx v).
Proof. unfold send_opt, send. destruct tx as [c|]; [destruct (ch_send _ _ _)|]; constructor; reflexivity. Qed.
Lemma send_opt_chans s tx v : chans (send_opt s tx v) = match tx with Some c => fst (ch_send (chans s) c v) | None => chans s end.
Proof. unfold send_opt, send. destruct tx as [c|]; [destruct (ch_send _ _ _)|]; reflexivity. Qed.

Lemma next_id_spec s s1 id : next_id s = Some (s1, id) -> id <> 0 /\ exists i, s1 = set_idx s i.
Proof.
  unfold next_id. destruct (65535 <=? idx s) eqn:E; [discriminate|]. apply N.leb_gt in E.
  destruct (idx s + 1 =? 65535) eqn:E2; intros H; injection H as <- <-; split; eauto; lia.
Qed.

(* the two outcomes of sending a packet: a local error, or the packet is written and queued *)
Definition nopush (x : task) (s s' : sink) : Prop :=
  ver s' = ver s /\ client s' = client s /\ cap s' = cap s /\ inflight s' = inflight s /\ ids s' = ids s /\
  waiters s' = waiters s /\ rxm s' = rxm s /\ wrb s' = wrb s /\ disc s' = disc s /\ srem s' = srem s /\
  swait s' = swait s /\ io s' = io s /\ crem s' = crem s /\ tasks s' = tasks s /\ wire s' = wire s /\
  sig_only x (chans s) (chans s').

Definition pushed (x : task) (s s' : sink) (id : N) : Prop :=
  ver s' = ver s /\ client s' = client s /\ cap s' = cap s /\
  inflight s' = inflight s ++ [(id, Some (length (chans s)), exp_kind x)] /\ ids s' = ids s ++ [id] /\
  waiters s' = waiters s /\ rxm s' = rxm s /\ wrb s' = wrb s /\ disc s' = disc s /\
  swait s' = swait s /\ io s' = io s /\ tasks s' = tasks s /\
  (exists tag, is_pub tag = true /\ wire s' = if io s =? 0 then wire s ++ [tag; id] else wire s) /\
  sig_only x (chans s ++ [open_ch]) (chans s') /\
  id <> 0 /\ memN id (ids s) = false /\ srem s = 0 /\ (tid x <> 0 -> id = tid x).

Lemma nopush_idx x s i : nopush x s (set_idx s i).
Proof. unfold nopush. sk. repeat split; auto. Qed.

Lemma nopush_trans x a b c : nopush x a b -> nopush x b c -> nopush x a c.
Proof.
  unfold nopush. intros (A1&A2&A3&A4&A5&A6&A7&A8&A9&A10&A11&A12&A13&A14&A15&A16) (B1&B2&B3&B4&B5&B6&B7&B8&B9&B10&B11&B12&B13&B14&B15&B16).
  destruct A16 as [LA GA], B16 as [LB GB].
  repeat split; try congruence. intros m H. now rewrite GB, GA.
Qed.

Lemma nopush_of_nc x s s' : same_nc s s' -> sig_only x (chans s) (chans s') -> nopush x s s'.
Proof. intros [] H. unfold nopush. repeat split; auto; apply H. Qed.

Lemma inner_publish_spec s x s' st : inner_publish s x = (s', st) ->
  tk x <> 3 -> tk x <> 4 ->
  ((exists e, st = TDone e) /\ nopush x s s') \/
  (exists id, st = TAwaitAck (length (chans s)) id /\ pushed x s s' id).
Proof.
  intros H K3 K4. unfold inner_publish in H.
  assert (EK : exp_kind x = acktype_of (tk x)).
  { unfold exp_kind. destruct (N.eqb_spec (tk x) 3); [contradiction|]. destruct (N.eqb_spec (tk x) 4); [contradiction|]. reflexivity. }
  destruct (if tid x =? 0 then next_id s else Some (s, tid x)) as [[s1 id]|] eqn:E1.
  2:{ injection H as <- <-. left. split; eauto. apply nopush_of_nc; [apply drop_sig_nc|apply drop_sig_chans]. }
  assert (H1 : id <> 0 /\ (tid x <> 0 -> id = tid x) /\ exists i, s1 = set_idx s i).
  { destruct (N.eqb_spec (tid x) 0) as [E0|E0].
    - apply next_id_spec in E1 as [? ?]. repeat split; auto. intros; contradiction.
    - injection E1 as <- <-. repeat split; auto. exists (idx s). ds s. reflexivity. }
  destruct H1 as (Hid & Htid & i & ->).
  assert (NS : forall sb, nopush x (set_idx s i) sb -> nopush x s sb).
  { intros sb. apply nopush_trans, nopush_idx. }
  assert (NE : forall sb, nopush x sb (if tk x =? 7 then send_opt sb (sig_of x) 0 else sb)).
  { intros sb. destruct (tk x =? 7).
    - apply nopush_of_nc; [apply send_opt_nc|]. rewrite send_opt_chans. apply sig_only_send.
    - apply nopush_of_nc; [apply same_nc_refl|apply sig_only_refl]. }
  destruct ((tk x =? 7) && negb match sig_of x with Some c => rx_alive (set_idx s i) c | None => true end) eqn:E2.
  { injection H as <- <-. left. split; eauto. apply nopush_idx. }
  unfold wait_publish_response, stopped in H. sk in H.
  destruct (negb (io s =? 0)) eqn:E0.
  { injection H as <- <-. left. split; eauto. }
  destruct (negb (srem s =? 0)) eqn:E3.
  { injection H as <- <-. left. split; eauto. }
  destruct (memN id (ids s)) eqn:E4.
  { injection H as <- <-. left. split; eauto. }
  apply negb_false_iff, N.eqb_eq in E3.
  unfold enc_publish_chk in H. sk in H.
  destruct ((tk x =? 8) && (io s =? 0)) eqn:E5.
  { injection H as <- <-. left. split; eauto. }
  unfold new_chan in H. sk in H. injection H as <- <-. right. exists id.
  assert (EL : length (chans (enc_publish (set_idx s i) (pubtag_of (tk x)) id (if tk x =? 7 then tsize x else 0))) = length (chans s)).
  { unfold enc_publish. destruct (io _ =? 0); reflexivity. }
  rewrite EL. split; [reflexivity|].
  set (sa := set_ids _ _).
  assert (P : pushed x s sa id).
  { unfold pushed, sa, enc_publish, add_wire. sk. rewrite EK. destruct (io s =? 0) eqn:Eio; sk; repeat split; auto.
    - exists (pubtag_of (tk x)). split; auto. unfold pubtag_of. destruct (tk x =? 2); reflexivity.
    - exists (pubtag_of (tk x)). split; auto. unfold pubtag_of. destruct (tk x =? 2); reflexivity. }
  destruct (tk x =? 7); auto.
  unfold pushed in *. destruct P as (A1&A2&A3&A4&A5&A6&A7&A8&A9&A10&A11&A12&A13&A14&A15).
  pose proof (send_opt_nc sa (sig_of x) 0) as [].
  assert (S : sig_only x (chans s ++ [open_ch]) (chans (send_opt sa (sig_of x) 0))).
  { rewrite send_opt_chans. eapply sig_only_trans; [apply A14|apply sig_only_send]. }
  repeat split; try congruence; try tauto; try apply S.
  destruct A13 as (tag & T1 & T2). exists tag. split; auto. congruence.
Qed.

Lemma inner_subscribe_spec s x s' st : inner_subscribe s x = (s', st) ->
  tk x = 3 \/ tk x = 4 ->
  ((exists e, st = TDone e) /\ nopush x s s') \/
  (exists id, st = TAwaitAck (length (chans s)) id /\ pushed x s s' id).
Proof.
  intros H K. unfold inner_subscribe in H.
  assert (EK : exp_kind x = if tk x =? 3 then 4 else 5).
  { unfold exp_kind. destruct K as [-> | ->]; reflexivity. }
  destruct (if tid x =? 0 then next_id s else Some (s, tid x)) as [[s1 id]|] eqn:E1.
  2:{ injection H as <- <-. left. split; eauto. apply nopush_of_nc; [apply same_nc_refl|apply sig_only_refl]. }
  assert (H1 : id <> 0 /\ (tid x <> 0 -> id = tid x) /\ exists i, s1 = set_idx s i).
  { destruct (N.eqb_spec (tid x) 0) as [E0|E0].
    - apply next_id_spec in E1 as [? ?]. repeat split; auto. intros; contradiction.
    - injection E1 as <- <-. repeat split; auto. exists (idx s). ds s. reflexivity. }
  destruct H1 as (Hid & Htid & i & ->).
  unfold wait_response, stopped in H. sk in H.
  destruct (negb (io s =? 0)) eqn:E0.
  { injection H as <- <-. left. split; eauto. apply nopush_idx. }
  destruct (negb (srem s =? 0)) eqn:E3.
  { injection H as <- <-. left. split; eauto. apply nopush_idx. }
  destruct (memN id (ids s)) eqn:E4.
  { injection H as <- <-. left. split; eauto. apply nopush_idx. }
  apply negb_false_iff, N.eqb_eq in E3.
  unfold enc_packet in H. sk in H.
  destruct (io s =? 0) eqn:Eio.
  - destruct (negb (crem s =? 0)).
    { injection H as <- <-. left. split; eauto. apply nopush_idx. }
    unfold new_chan, add_wire in H. sk in H. injection H as <- <-. right. exists id. split; [reflexivity|].
    unfold pushed. sk. rewrite EK, Eio. repeat split; auto.
    exists (if tk x =? 3 then W_SUBSCRIBE else W_UNSUBSCRIBE). split; auto. destruct (tk x =? 3); reflexivity.
  - unfold new_chan in H. sk in H. injection H as <- <-. right. exists id. split; [reflexivity|].
    unfold pushed. sk. rewrite EK, Eio. repeat split; auto.
    exists W_SUBSCRIBE. split; auto.
Qed.

Lemma proceed_spec s x s' st : proceed s x = (s', st) ->
  ((exists e, st = TDone e) /\ nopush x s s') \/
  (exists id, st = TAwaitAck (length (chans s)) id /\ pushed x s s' id).
Proof.
  unfold proceed. destruct (N.eqb_spec (tk x) 3) as [E|E]; cbn [orb].
  - intros H. apply inner_subscribe_spec in H; auto.
  - destruct (N.eqb_spec (tk x) 4) as [E'|E'].
    + intros H. apply inner_subscribe_spec in H; auto.
    + intros H. apply inner_publish_spec in H; auto.
Qed.

(* the window check, then the packet *)
Definition parked (s s' : sink) : Prop :=
  s' = set_waiters (set_chans s (chans s ++ [open_ch])) (waiters s ++ [length (chans s)]).

Lemma window_then_proceed_spec s x s' st : window_then_proceed s x = (s', st) ->
  (stopped s = true /\ st = TDone ST_DISCONNECTED /\ s' = s) \/
  (st = TParked (length (chans s)) /\ parked s s' /\ (cap s <= lenN (inflight s) \/ wrb s = true)) \/
  (lenN (inflight s) < cap s /\ wrb s = false /\
   (((exists e, st = TDone e) /\ nopush x s s') \/
    (exists id, st = TAwaitAck (length (chans s)) id /\ pushed x s s' id))).
Proof.
  unfold window_then_proceed, wait_readiness, new_chan.
  destruct (stopped s) eqn:ES.
  { intros H. injection H as <- <-. left. auto. }
  destruct ((cap s <=? lenN (inflight s)) || wrb s) eqn:E.
  - sk. intros H. injection H as <- <-. right. left. repeat split.
    apply orb_true_iff in E as [E|E]; [left; now apply N.leb_le|now right].
  - intros H. apply orb_false_iff in E as [E1 E2]. apply N.leb_gt in E1.
    right. right. repeat split; auto. now apply proceed_spec.
Qed.

(* ---------------------------------------------------------------- operation 1 / 2: start and poll *)
Definition new_task (k idq size : N) (c : nat) : task :=
  if k =? 7 then mkTask k idq size TDropped true (Some (mkStream c true false true SNone 0))
  else mkTask k idq 0 TDropped false None.

(* nothing but bookkeeping outside the queues changes (QoS 0 publish) *)
Definition pub0 (s s' : sink) : Prop :=
  ver s' = ver s /\ client s' = client s /\ cap s' = cap s /\ inflight s' = inflight s /\ ids s' = ids s /\
  waiters s' = waiters s /\ rxm s' = rxm s /\ wrb s' = wrb s /\ disc s' = disc s /\
  swait s' = swait s /\ io s' = io s /\ tasks s' = tasks s /\ chans s' = chans s /\
  (wire s' = wire s \/ wire s' = wire s ++ [W_PUB0; 0]).

Lemma nopush_drop_sig x s s1 : nopush x s s1 -> nopush x s (drop_sig s1 x).
Proof. intros H. eapply nopush_trans; [exact H|]. apply nopush_of_nc; [apply drop_sig_nc|apply drop_sig_chans]. Qed.
Lemma nopush_refl x s : nopush x s s.
Proof. apply nopush_of_nc; [apply same_nc_refl|apply sig_only_refl]. Qed.

Inductive send_res (s0 : sink) (x : task) : sink -> tstate -> Prop :=
| SE_fail s1 e : nopush x s0 s1 -> send_res s0 x s1 (TDone e)
| SE_park s1 : io s0 <> 2 -> (cap s0 <= lenN (inflight s0) \/ wrb s0 = true) -> parked s0 s1 ->
    send_res s0 x s1 (TParked (length (chans s0)))
| SE_push s1 id : io s0 <> 2 -> lenN (inflight s0) < cap s0 -> wrb s0 = false -> pushed x s0 s1 id ->
    send_res s0 x s1 (TAwaitAck (length (chans s0)) id).

Inductive start_res (s : sink) (t k idq size : N) : sink -> Prop :=
| SR_noop : start_res s t k idq size s
| SR_pub0 s1 e : k = 6 -> pub0 s s1 ->
    start_res s t k idq size (set_tasks s1 (put_task t (mkTask 6 0 0 (TDone e) false None) (tasks s1)))
| SR_ready_done e : k = 5 ->
    start_res s t k idq size (set_tasks s (put_task t (mkTask 5 0 0 (TDone e) false None) (tasks s)))
| SR_ready_park s1 : k = 5 -> io s <> 2 -> (cap s <= lenN (inflight s) \/ wrb s = true) -> parked s s1 ->
    start_res s t k idq size (set_tasks s1 (put_task t (mkTask 5 0 0 (TReadyW (length (chans s))) false None) (tasks s1)))
| SR_send s0 x s1 st :
    (k = 1 \/ k = 2 \/ k = 3 \/ k = 4 \/ k = 7 \/ k = 8) ->
    s0 = (if k =? 7 then set_chans s (chans s ++ [open_ch]) else s) ->
    x = new_task k idq size (length (chans s)) ->
    send_res s0 x s1 st ->
    start_res s t k idq size (set_tasks s1 (put_task t (with_tst (no_stream_on_panic x st) st) (tasks s1))).

Lemma send_res_of_window s x s1 st :
  io s <> 2 -> window_then_proceed s x = (s1, st) ->
  send_res s x (match st with TDone _ => drop_sig s1 x | _ => s1 end) st.
Proof.
  intros Hio H. apply window_then_proceed_spec in H as [(_ & -> & ->)|[(-> & P & C)|(L & W & [[(e & ->) N]|(id & -> & P)])]].
  - apply SE_fail. apply nopush_drop_sig, nopush_refl.
  - now apply SE_park.
  - apply SE_fail. now apply nopush_drop_sig.
  - now apply SE_push.
Qed.

Lemma start_task_spec s t k idq size : find_task t (tasks s) = None ->
  start_res s t k idq size (start_task s t k idq size).
Proof.
  intros F. unfold start_task. rewrite F.
  destruct ((k =? 0) || (8 <? k)) eqn:E0; [constructor|].
  apply orb_false_iff in E0 as [E0 E7]. apply N.eqb_neq in E0. apply N.ltb_ge in E7.
  destruct (N.eqb_spec k 6) as [->|K6].
  { unfold is_closed. destruct (io s =? 2).
    - apply (SR_pub0 s t 6 idq size s); auto. unfold pub0. repeat split; auto.
    - unfold encode_publish0. destruct (negb (srem s =? 0)).
      + apply (SR_pub0 s t 6 idq size s); auto. unfold pub0. repeat split; auto.
      + apply SR_pub0; auto. unfold pub0, enc_publish, add_wire. destruct (io s =? 0); sk; repeat split; auto. }
  destruct (N.eqb_spec k 5) as [->|K5].
  { unfold is_closed. destruct (N.eqb_spec (io s) 2) as [Eio|Eio]; [apply SR_ready_done; auto|].
    unfold wait_readiness, new_chan. destruct ((cap s <=? lenN (inflight s)) || wrb s) eqn:E.
    - cbv beta iota zeta. apply SR_ready_park; auto; [|reflexivity].
      apply orb_true_iff in E as [E|E]; [left; now apply N.leb_le|now right].
    - apply SR_ready_done; auto. }
  assert (K : k = 1 \/ k = 2 \/ k = 3 \/ k = 4 \/ k = 7 \/ k = 8) by lia.
  set (s0 := if k =? 7 then set_chans s (chans s ++ [open_ch]) else s).
  set (x := new_task k idq size (length (chans s))).
  assert (E : (if k =? 7 then let '(s0, c) := new_chan s in
                 (s0, mkTask k idq size TDropped true (Some (mkStream c true false true SNone 0)))
               else (s, mkTask k idq 0 TDropped false None)) = (s0, x)).
  { unfold s0, x, new_task, new_chan. destruct (k =? 7); reflexivity. }
  rewrite E. clear E.
  assert (Eio : io s0 = io s) by (unfold s0; destruct (k =? 7); reflexivity).
  unfold is_closed. destruct (N.eqb_spec (io s0) 2) as [Ec|Ec].
  { eapply SR_send; eauto. apply SE_fail. apply nopush_drop_sig, nopush_refl. }
  destruct (window_then_proceed s0 x) as [s1 st] eqn:W.
  apply send_res_of_window in W; auto.
  eapply SR_send; eauto.
Qed.

Inductive poll_res (s : sink) (x : task) : sink -> tstate -> Prop :=
| PR_same : poll_res s x s (tst x)
| PR_ack_cancel c id : tst x = TAwaitAck c id -> poll s c = PCanceled -> poll_res s x s (TDone ST_DISCONNECTED)
| PR_ack_val c id v : tst x = TAwaitAck c id -> poll s c = PVal v ->
    poll_res s x s (if tk x =? 2 then TReceipt id else TDone ST_OK)
| PR_comp_cancel c : tst x = TAwaitComp c -> poll s c = PCanceled -> poll_res s x s (TDone ST_DISCONNECTED)
| PR_comp_val c v : tst x = TAwaitComp c -> poll s c = PVal v -> poll_res s x s (TDone ST_OK)
| PR_ready_cancel c : tst x = TReadyW c -> poll s c = PCanceled -> poll_res s x s (TDone ST_DISCONNECTED)
| PR_ready_val c v : tst x = TReadyW c -> poll s c = PVal v -> poll_res s x s (TDone ST_OK)
| PR_park_closed c s1 : tst x = TParked c -> poll s c <> PPending ->
    (poll s c = PCanceled \/ io s = 2) -> nopush x s s1 -> poll_res s x s1 (TDone ST_DISCONNECTED)
| PR_park_go c v s1 st : tst x = TParked c -> poll s c = PVal v -> io s <> 2 ->
    send_res s x s1 st -> poll_res s x s1 st
| PR_new_closed s1 : tst x = TNew -> io s = 2 -> nopush x s s1 -> poll_res s x s1 (TDone ST_DISCONNECTED)
| PR_new_go s1 st : tst x = TNew -> io s <> 2 -> send_res s x s1 st -> poll_res s x s1 st
| PR_deferred e : tst x = TDeferred e -> poll_res s x s (TDone e).

Lemma poll_task_spec s t x : find_task t (tasks s) = Some x ->
  exists s1 st, poll_res s x s1 st /\ poll_task s t = set_tasks s1 (put_task t (with_tst x st) (tasks s1)).
Proof.
  intros F. unfold poll_task. rewrite F.
  destruct (tst x) as [c|c id|id|c|c|e| | |e] eqn:ST.
  - destruct (poll s c) as [|v|] eqn:P.
    + exists s, (TParked c). split; auto. rewrite <- ST. constructor.
    + unfold is_closed. destruct (N.eqb_spec (io s) 2) as [Ec|Ec].
      * exists (drop_sig s x), (TDone ST_DISCONNECTED). split; auto.
        eapply PR_park_closed; eauto; [congruence|]. apply nopush_drop_sig, nopush_refl.
      * destruct (window_then_proceed s x) as [s1 st] eqn:W.
        apply send_res_of_window in W; auto.
        exists (match st with TDone _ => drop_sig s1 x | _ => s1 end), st. split; auto.
        eapply PR_park_go; eauto.
    + exists (drop_sig s x), (TDone ST_DISCONNECTED). split; auto.
      eapply PR_park_closed; eauto; [congruence|]. apply nopush_drop_sig, nopush_refl.
  - destruct (poll s c) as [|v|] eqn:P.
    + exists s, (TAwaitAck c id). split; auto. rewrite <- ST. constructor.
    + exists s, (if tk x =? 2 then TReceipt id else TDone ST_OK). split; auto. eapply PR_ack_val; eauto.
    + exists s, (TDone ST_DISCONNECTED). split; auto. eapply PR_ack_cancel; eauto.
  - exists s, (TReceipt id). split; auto. rewrite <- ST. constructor.
  - destruct (poll s c) as [|v|] eqn:P.
    + exists s, (TAwaitComp c). split; auto. rewrite <- ST. constructor.
    + exists s, (TDone ST_OK). split; auto. eapply PR_comp_val; eauto.
    + exists s, (TDone ST_DISCONNECTED). split; auto. eapply PR_comp_cancel; eauto.
  - destruct (poll s c) as [|v|] eqn:P.
    + exists s, (TReadyW c). split; auto. rewrite <- ST. constructor.
    + exists s, (TDone ST_OK). split; auto. eapply PR_ready_val; eauto.
    + exists s, (TDone ST_DISCONNECTED). split; auto. eapply PR_ready_cancel; eauto.
  - exists s, (TDone e). split; auto. rewrite <- ST. constructor.
  - exists s, TDropped. split; auto. rewrite <- ST. constructor.
  - unfold is_closed. destruct (N.eqb_spec (io s) 2) as [Ec|Ec].
    + exists (drop_sig s x), (TDone ST_DISCONNECTED). split; auto.
      eapply PR_new_closed; eauto. apply nopush_drop_sig, nopush_refl.
    + destruct (window_then_proceed s x) as [s1 st] eqn:W.
      apply send_res_of_window in W; auto.
      exists (match st with TDone _ => drop_sig s1 x | _ => s1 end), st. split; auto.
      eapply PR_new_go; eauto.
  - exists s, (TDone e). split; auto. eapply PR_deferred; eauto.
Qed.

(* operation 16: create without polling *)
Inductive create_res (s : sink) (t k idq size : N) : sink -> Prop :=
| CR_noop : create_res s t k idq size s
| CR_pub0 : k = 6 -> create_res s t k idq size (start_task s t k idq size)
| CR_ready_done e : k = 5 ->
    create_res s t k idq size (set_tasks s (put_task t (mkTask 5 0 0 (TDeferred e) false None) (tasks s)))
| CR_ready_park s1 : k = 5 -> io s <> 2 -> (cap s <= lenN (inflight s) \/ wrb s = true) -> parked s s1 ->
    create_res s t k idq size (set_tasks s1 (put_task t (mkTask 5 0 0 (TReadyW (length (chans s))) false None) (tasks s1)))
| CR_new : k = 3 \/ k = 4 ->
    create_res s t k idq size (set_tasks s (put_task t (mkTask k idq 0 TNew false None) (tasks s)))
| CR_send s0 x s1 st :
    (k = 1 \/ k = 2 \/ k = 7 \/ k = 8) ->
    s0 = (if k =? 7 then set_chans s (chans s ++ [open_ch]) else s) ->
    x = new_task k idq size (length (chans s)) ->
    send_res s0 x s1 st ->
    create_res s t k idq size (set_tasks s1 (put_task t (with_tst (no_stream_on_panic x st) (defer st)) (tasks s1))).

Lemma create_task_spec s t k idq size : find_task t (tasks s) = None ->
  create_res s t k idq size (create_task s t k idq size).
Proof.
  intros F. unfold create_task. rewrite F.
  destruct ((k =? 0) || (8 <? k)) eqn:E0; [constructor|].
  apply orb_false_iff in E0 as [E0 E7]. apply N.eqb_neq in E0. apply N.ltb_ge in E7.
  destruct (N.eqb_spec k 6) as [->|K6]; [now apply CR_pub0|].
  destruct (N.eqb_spec k 5) as [->|K5].
  { unfold is_closed. destruct (N.eqb_spec (io s) 2) as [Eio|Eio]; [apply CR_ready_done; auto|].
    unfold wait_readiness, new_chan. destruct ((cap s <=? lenN (inflight s)) || wrb s) eqn:E.
    - cbv beta iota zeta. apply CR_ready_park; auto; [|reflexivity].
      apply orb_true_iff in E as [E|E]; [left; now apply N.leb_le|now right].
    - apply CR_ready_done; auto. }
  destruct (N.eqb_spec k 3) as [->|K3]; [apply CR_new; auto|].
  destruct (N.eqb_spec k 4) as [->|K4]; [apply CR_new; auto|]. cbn [orb].
  assert (K : k = 1 \/ k = 2 \/ k = 7 \/ k = 8) by lia.
  set (s0 := if k =? 7 then set_chans s (chans s ++ [open_ch]) else s).
  set (x := new_task k idq size (length (chans s))).
  assert (E : (if k =? 7 then let '(s0, c) := new_chan s in
                 (s0, mkTask k idq size TDropped true (Some (mkStream c true false true SNone 0)))
               else (s, mkTask k idq 0 TDropped false None)) = (s0, x)).
  { unfold s0, x, new_task, new_chan. destruct (k =? 7); reflexivity. }
  rewrite E. clear E.
  assert (Eio : io s0 = io s) by (unfold s0; destruct (k =? 7); reflexivity).
  unfold is_closed. destruct (N.eqb_spec (io s0) 2) as [Ec|Ec].
  { eapply (CR_send s t k idq size s0 x _ (TDone ST_DISCONNECTED)); eauto. apply SE_fail. apply nopush_drop_sig, nopush_refl. }
  destruct (window_then_proceed s0 x) as [s1 st] eqn:W.
  apply send_res_of_window in W; auto.
  eapply CR_send; eauto.
Qed.

(* ---------------------------------------------------------------- the invariant *)
Inductive ck := KW | KS | KA | KC | KB.   (* window waiter, stream signal, ack, pubcomp, stream back-pressure waiter *)
Definition kof (ks : list ck) (c : nat) : option ck := nth_error ks c.
Definition cg (s : sink) (c : nat) : chan := ch_get (chans s) c.
Definition fst3 (e : N * option nat * N) : N := fst (fst e).

Definition twait (st : tstate) : option nat := match st with TParked c | TReadyW c => Some c | _ => None end.
Definition trx_st (st : tstate) : list nat :=
  match st with TParked c | TReadyW c | TAwaitAck c _ | TAwaitComp c => [c] | _ => [] end.
Definition pend_rx (x : task) : list nat :=
  match tstream x with
  | Some sm => match pend sm with SWaitWrb c _ => [c] | _ => [] end
  | None => []
  end.
Definition trx (x : task) : list nat := trx_st (tst x) ++ pend_rx x.

Definition st_ok (ks : list ck) (s : sink) (x : task) : Prop :=
  match tst x with
  | TParked c | TReadyW c =>
      kof ks c = Some KW /\ c_rx (cg s c) = true /\ (c_st (cg s c) = COpen -> In c (waiters s))
  | TAwaitAck c id =>
      kof ks c = Some KA /\ c_rx (cg s c) = true /\
      (forall i tp, In (i, Some c, tp) (inflight s) -> i = id /\ tp = exp_kind x) /\
      (c_st (cg s c) = COpen -> In (id, Some c, exp_kind x) (inflight s)) /\
      (c_st (cg s c) = CFilled -> c_val (cg s c) = exp_kind x) /\
      (c_st (cg s c) = CSenderDropped -> io s <> 0)
  | TAwaitComp c =>
      kof ks c = Some KC /\ c_rx (cg s c) = true /\
      (c_st (cg s c) = COpen -> exists i, In (i, Some c, 3) (inflight s)) /\
      (c_st (cg s c) = CFilled -> c_val (cg s c) = 3) /\
      (c_st (cg s c) = CSenderDropped -> io s <> 0)
  | _ => True
  end.

Definition sm_ok (ks : list ck) (s : sink) (x : task) : Prop :=
  match tstream x with
  | Some sm =>
      kof ks (sg sm) = Some KS /\
      match pend sm with
      | SWaitWrb c _ => kof ks c = Some KB /\ c_rx (cg s c) = true /\ (c_st (cg s c) = COpen -> swait s = Some c)
      | _ => True
      end
  | None => True
  end.

Record inv (ks : list ck) (s : sink) : Prop := mkInv {
  i_len : length ks = length (chans s);
  i_sorted : sortedk (tasks s);
  i_ws : forall c, In c (waiters s) -> kof ks c = Some KW /\ c_st (cg s c) = COpen;
  i_wsnd : NoDup (waiters s);
  i_swait : forall c, swait s = Some c -> kof ks c = Some KB;
  i_inf : forall i tx tp, In (i, tx, tp) (inflight s) ->
            i <> 0 /\ 1 <= tp <= 5 /\
            exists c, tx = Some c /\ kof ks c = Some (if tp =? 3 then KC else KA) /\ c_st (cg s c) = COpen;
  i_infnd : NoDup (map fst3 (inflight s));
  i_txnd : NoDup (txs (inflight s));
  i_ids : io s = 0 -> forall i, memN i (ids s) = true <-> In i (map fst3 (inflight s));
  i_rxm : forall i c, In (i, c) (rxm s) ->
            kof ks c = Some KC /\ c_rx (cg s c) = true /\ c_st (cg s c) <> CFilled /\
            (io s = 0 -> In (i, Some c, 3) (inflight s)) /\
            (io s <> 0 -> c_st (cg s c) <> COpen) /\
            (forall t x, In (t, x) (tasks s) -> ~ In c (trx x));
  i_rxmk : NoDup (map fst (rxm s));
  i_rxmc : NoDup (map snd (rxm s));
  i_closed : io s <> 0 -> inflight s = [] /\ waiters s = [] /\ swait s = None;
  i_task : forall t x, In (t, x) (tasks s) -> st_ok ks s x /\ sm_ok ks s x;
  i_uniq : forall t1 x1 t2 x2 c, In (t1, x1) (tasks s) -> In (t2, x2) (tasks s) ->
             In c (trx x1) -> In c (trx x2) -> t1 = t2;
  i_wtask : forall c, In c (waiters s) -> c_rx (cg s c) = true ->
              exists t x, In (t, x) (tasks s) /\ twait (tst x) = Some c
}.

Definition sink_inv (s : sink) : Prop := exists ks, inv ks s.

Lemma kof_range ks c k : kof ks c = Some k -> (c < length ks)%nat.
Proof. intros H. apply nth_error_Some. unfold kof in H. congruence. Qed.
Lemma kof_app ks c k k' : kof ks c = Some k -> kof (ks ++ [k']) c = Some k.
Proof. intros H. unfold kof in *. rewrite nth_error_app1; auto. now apply kof_range in H. Qed.
Lemma kof_new ks k : kof (ks ++ [k]) (length ks) = Some k.
Proof. unfold kof. rewrite nth_error_app2 by lia. now rewrite Nat.sub_diag. Qed.
Lemma kof_fresh ks k : kof ks (length ks) = Some k -> False.
Proof. intros H. apply kof_range in H. lia. Qed.

Lemma inv_init v cl c : inv [] (sink_init v cl c).
Proof.
  constructor; cbn; auto; try constructor; try tauto; try discriminate; intros; try contradiction.
Qed.

(* the invariant only reads the queues, the io state, the channel and task tables *)
Lemma inv_core ks s s' :
  inflight s' = inflight s -> ids s' = ids s -> waiters s' = waiters s -> rxm s' = rxm s ->
  swait s' = swait s -> io s' = io s -> chans s' = chans s -> tasks s' = tasks s ->
  inv ks s -> inv ks s'.
Proof.
  intros E1 E2 E3 E4 E5 E6 E7 E8 [].
  constructor; unfold st_ok, sm_ok, cg in *; rewrite ?E1, ?E2, ?E3, ?E4, ?E5, ?E6, ?E7, ?E8; auto.
Qed.

(* ---------------------------------------------------------------- stability of the per-task facts *)
Ltac spl := repeat (split; [solve [auto]|]).
Lemma st_ok_mono ks ks' s s' x :
  st_ok ks s x ->
  (forall c k, kof ks c = Some k -> kof ks' c = Some k) ->
  (forall c, In c (trx_st (tst x)) -> cg s' c = cg s c) ->
  (forall c, In c (waiters s) -> In c (trx_st (tst x)) -> In c (waiters s')) ->
  (forall i c tp, In c (trx_st (tst x)) -> (In (i, Some c, tp) (inflight s') <-> In (i, Some c, tp) (inflight s))) ->
  (io s <> 0 -> io s' <> 0) ->
  st_ok ks' s' x.
Proof.
  unfold st_ok. intros H K G W I O.
  destruct (tst x) as [c|c id|id|c|c|e| | |e]; auto; cbn [trx_st In] in *.
  - destruct H as (H1 & H2 & H3). rewrite G by auto. repeat split; auto.
  - destruct H as (H1 & H2 & H3 & H4 & H5 & H6). rewrite G by auto. repeat split; auto.
    + apply (H3 i tp). apply I; auto.
    + apply (H3 i tp). apply I; auto.
    + intros E. apply I; auto.
  - destruct H as (H1 & H2 & H3 & H4 & H5). rewrite G by auto. repeat split; auto.
    intros E. destruct (H3 E) as (i & Hi). exists i. apply I; auto.
  - destruct H as (H1 & H2 & H3). rewrite G by auto. repeat split; auto.
Qed.

Lemma sm_ok_mono ks ks' s s' x :
  sm_ok ks s x ->
  (forall c k, kof ks c = Some k -> kof ks' c = Some k) ->
  (forall c, In c (pend_rx x) -> cg s' c = cg s c) ->
  (forall c, In c (pend_rx x) -> swait s = Some c -> swait s' = Some c) ->
  sm_ok ks' s' x.
Proof.
  unfold sm_ok, pend_rx. intros H K G W. destruct (tstream x) as [sm|]; auto.
  destruct H as [H1 H2]. split; auto. destruct (pend sm) as [|n|c n]; auto.
  destruct H2 as (H2 & H3 & H4). cbn [In] in *. rewrite G by auto. repeat split; auto.
Qed.

Lemma trx_kind ks s x c : st_ok ks s x -> sm_ok ks s x -> In c (trx x) ->
  exists k, kof ks c = Some k /\ k <> KS.
Proof.
  unfold trx, st_ok, sm_ok, pend_rx. intros H1 H2 Hc. apply in_app_or in Hc as [Hc|Hc].
  - destruct (tst x); cbn [trx_st In] in Hc; try contradiction; destruct Hc as [<-|[]];
      destruct H1 as (H1 & _); eexists; split; eauto; discriminate.
  - destruct (tstream x) as [sm|]; [|contradiction]. destruct H2 as [_ H2].
    destruct (pend sm); cbn [In] in Hc; try contradiction. destruct Hc as [<-|[]].
    destruct H2 as (H2 & _). eexists; split; eauto; discriminate.
Qed.

(* channels of kind KS carry no invariant: any change confined to them is harmless *)
Definition agreeKS (ks : list ck) (chs chs' : list chan) : Prop :=
  length chs' = length chs /\ forall c k, kof ks c = Some k -> k <> KS -> ch_get chs' c = ch_get chs c.

Lemma inv_sig ks s s' :
  inv ks s ->
  inflight s' = inflight s -> ids s' = ids s -> waiters s' = waiters s -> rxm s' = rxm s ->
  swait s' = swait s -> io s' = io s -> tasks s' = tasks s -> agreeKS ks (chans s) (chans s') ->
  inv ks s'.
Proof.
  intros I E1 E2 E3 E4 E5 E6 E8 [AL AG]. pose proof I as [].
  assert (G : forall c k, kof ks c = Some k -> k <> KS -> cg s' c = cg s c) by (intros; unfold cg; eauto).
  constructor; rewrite ?E1, ?E2, ?E3, ?E4, ?E5, ?E6, ?E8; auto.
  - congruence.
  - intros c H. destruct (i_ws0 c H) as [H1 H2]. rewrite (G c KW); auto. discriminate.
  - intros i tx tp H. destruct (i_inf0 i tx tp H) as (H1 & H2 & c & H3 & H4 & H5). spl.
    exists c. rewrite (G c _ H4); auto. destruct (tp =? 3); discriminate.
  - intros i c H. destruct (i_rxm0 i c H) as (H1 & H2 & H3 & H4 & H5 & H6). rewrite (G c KC); auto. discriminate.
  - intros t x H. destruct (i_task0 t x H) as [H1 H2]. split.
    + apply st_ok_mono with ks s; auto; try (rewrite ?E1, ?E3, ?E6; tauto).
      intros c Hc. destruct (trx_kind ks s x c H1 H2) as (k & K1 & K2); [unfold trx; apply in_or_app; now left|eauto].
    + apply sm_ok_mono with ks s; auto; try (rewrite ?E5; tauto).
      intros c Hc. destruct (trx_kind ks s x c H1 H2) as (k & K1 & K2); [unfold trx; apply in_or_app; now right|eauto].
  - intros c H R. apply i_wtask0; auto. destruct (i_ws0 c H) as [H1 _]. rewrite <- (G c KW); auto. discriminate.
Qed.

Lemma cg_app_old ks s c k ch : length ks = length (chans s) -> kof ks c = Some k ->
  ch_get (chans s ++ [ch]) c = cg s c.
Proof. intros L H. apply ch_get_app_old. rewrite <- L. eapply kof_range; eauto. Qed.

(* a fresh channel nobody refers to *)
Lemma inv_newchan ks s k ch : inv ks s -> inv (ks ++ [k]) (set_chans s (chans s ++ [ch])).
Proof.
  intros I. pose proof I as [].
  assert (G : forall c k0, kof ks c = Some k0 -> cg (set_chans s (chans s ++ [ch])) c = cg s c).
  { intros c k0 H. unfold cg at 1. sk. eapply cg_app_old; eauto. }
  constructor; sk; auto.
  - rewrite !app_length. cbn [length]. lia.
  - intros c H. destruct (i_ws0 c H) as [H1 H2]. rewrite (G c KW); auto using kof_app.
  - intros c H. auto using kof_app.
  - intros i tx tp H. destruct (i_inf0 i tx tp H) as (H1 & H2 & c & H3 & H4 & H5). spl.
    exists c. rewrite (G c _ H4); auto using kof_app.
  - intros i c H. destruct (i_rxm0 i c H) as (H1 & H2 & H3 & H4 & H5 & H6). rewrite (G c KC); auto.
    repeat split; auto using kof_app.
  - intros t x H. destruct (i_task0 t x H) as [H1 H2]. split.
    + apply st_ok_mono with ks s; auto using kof_app; try tauto.
      intros c Hc. destruct (trx_kind ks s x c H1 H2) as (k0 & K1 & K2); [unfold trx; apply in_or_app; now left|eauto].
    + apply sm_ok_mono with ks s; auto using kof_app.
      intros c Hc. destruct (trx_kind ks s x c H1 H2) as (k0 & K1 & K2); [unfold trx; apply in_or_app; now right|eauto].
  - intros c H R. apply i_wtask0; auto. destruct (i_ws0 c H) as [H1 _]. rewrite <- (G c KW); auto.
Qed.

Lemma sorted_fun l t x y : sortedk l -> In (t, x) l -> In (t, y) l -> x = y.
Proof. intros S H1 H2. apply find_task_In in H1, H2; auto. congruence. Qed.

(* channels held by the task being replaced, and channels nobody holds, may be given to its new state *)
Definition unref (s : sink) (t : N) (c : nat) : Prop :=
  (forall t2 x2, In (t2, x2) (tasks s) -> t2 <> t -> ~ In c (trx x2)) /\ (forall i, ~ In (i, c) (rxm s)).

Lemma own_unref ks s t xo c : inv ks s -> In (t, xo) (tasks s) -> In c (trx xo) -> unref s t c.
Proof.
  intros [] H Hc. split.
  - intros t2 x2 H2 Hne Hc2. apply Hne. eapply i_uniq0; eauto.
  - intros i Hi. destruct (i_rxm0 i c Hi) as (_ & _ & _ & _ & _ & H6). eapply H6; eauto.
Qed.

Lemma fresh_unref ks s t c : inv ks s -> (length ks <= c)%nat -> unref s t c.
Proof.
  intros [] L. split.
  - intros t2 x2 H2 _ Hc. destruct (i_task0 t2 x2 H2) as [A B].
    destruct (trx_kind ks s x2 c A B Hc) as (k & K & _). apply kof_range in K. lia.
  - intros i Hi. destruct (i_rxm0 i c Hi) as (K & _). apply kof_range in K. lia.
Qed.

Lemma inv_task_gen ks s t x' wnew :
  inv ks s ->
  (forall c, In c wnew -> kof ks c = Some KW /\ cg s c = open_ch /\ ~ In c (waiters s) /\
                          twait (tst x') = Some c /\ io s = 0) ->
  NoDup wnew ->
  st_ok ks (set_waiters s (waiters s ++ wnew)) x' -> sm_ok ks s x' ->
  (forall c, In c (trx x') -> unref s t c) ->
  (forall xo c, In (t, xo) (tasks s) -> twait (tst xo) = Some c -> twait (tst x') <> Some c ->
                In c (waiters s) -> c_rx (cg s c) = false) ->
  inv ks (set_tasks (set_waiters s (waiters s ++ wnew)) (put_task t x' (tasks s))).
Proof.
  intros I W WN SO MO U O. pose proof I as [].
  constructor; sk; auto.
  - now apply put_task_sorted.
  - intros c H. apply in_app_or in H as [H|H]; [exact (i_ws0 c H)|]. destruct (W c H) as (K & G & _).
    split; auto. change (c_st (cg s c) = COpen). now rewrite G.
  - apply NoDup_app_intro; auto. intros c H1 H2. destruct (W c H2) as (_ & _ & N & _). contradiction.
  - intros i c H. destruct (i_rxm0 i c H) as (H1 & H2 & H3 & H4 & H5 & H6). spl.
    intros t2 x2 H7. apply put_task_In in H7; auto. destruct H7 as [[-> ->]|[Hne H7]]; [|eauto].
    intros Hc. destruct (U c Hc) as [_ U2]. eapply U2; eauto.
  - intros Hio. destruct (i_closed0 Hio) as (C1 & C2 & C3). spl. split; auto.
    destruct wnew as [|c r]; [now rewrite C2|]. destruct (W c (or_introl eq_refl)) as (_ & _ & _ & _ & Z). contradiction.
  - intros t2 x2 H. apply put_task_In in H; auto. destruct H as [[-> ->]|[Hne H]]; [split; auto|].
    destruct (i_task0 t2 x2 H) as [A B]. split; [|exact B].
    apply st_ok_mono with ks s; auto; sk; try tauto. intros c Hc _. apply in_or_app. now left.
  - intros t1 x1 t2 x2 c H1 H2 C1 C2. apply put_task_In in H1, H2; auto.
    destruct H1 as [[-> ->]|[N1 H1]], H2 as [[-> ->]|[N2 H2]]; auto.
    + destruct (U c C1) as [U1 _]. exfalso. eapply U1; eauto.
    + destruct (U c C2) as [U1 _]. exfalso. eapply U1; eauto.
    + eapply i_uniq0; eauto.
  - intros c H R. change (c_rx (cg s c) = true) in R. apply in_app_or in H as [H|H].
    + destruct (i_wtask0 c H R) as (t0 & x0 & H0 & T0).
      destruct (N.eq_dec t0 t) as [->|Hne].
      * assert (D : twait (tst x') = Some c \/ twait (tst x') <> Some c).
        { destruct (twait (tst x')) as [c'|]; [destruct (Nat.eq_dec c' c) as [->|]; [now left|right; congruence]|right; discriminate]. }
        destruct D as [E|E].
        -- exists t, x'. split; auto. apply put_task_In; auto.
        -- rewrite (O x0 c H0 T0 E H) in R. discriminate.
      * exists t0, x0. split; auto. apply put_task_In; auto.
    + destruct (W c H) as (_ & _ & _ & T & _). exists t, x'. split; auto. apply put_task_In; auto.
Qed.

Lemma inv_task ks s t x' :
  inv ks s -> st_ok ks s x' -> sm_ok ks s x' ->
  (forall c, In c (trx x') -> unref s t c) ->
  (forall xo c, In (t, xo) (tasks s) -> twait (tst xo) = Some c -> twait (tst x') <> Some c ->
                In c (waiters s) -> c_rx (cg s c) = false) ->
  inv ks (set_tasks s (put_task t x' (tasks s))).
Proof.
  intros I SO MO U O.
  apply inv_core with (set_tasks (set_waiters s (waiters s ++ [])) (put_task t x' (tasks s)));
    try (sk; rewrite ?app_nil_r; reflexivity).
  apply inv_task_gen; auto; try (intros c []); try constructor.
  apply st_ok_mono with ks s; auto; sk; try tauto. intros c H _. rewrite app_nil_r. auto.
Qed.

Lemma In_txs c l : In c (txs l) <-> exists i tp, In (i, Some c, tp) l.
Proof.
  unfold txs. rewrite in_flat_map. split.
  - intros ([[i tx] tp] & H1 & H2). cbn [fst snd] in H2. destruct tx as [c'|]; [|contradiction].
    destruct H2 as [->|[]]. eauto.
  - intros (i & tp & H). exists (i, Some c, tp). split; auto. now left.
Qed.
Lemma txs_app l1 l2 : txs (l1 ++ l2) = txs l1 ++ txs l2.
Proof. unfold txs. apply flat_map_app. Qed.

Lemma exp_kind_range x : (exp_kind x = 1 \/ exp_kind x = 2 \/ exp_kind x = 4 \/ exp_kind x = 5).
Proof. unfold exp_kind, acktype_of. destruct (tk x =? 3), (tk x =? 4), (tk x =? 2); auto. Qed.

(* a written packet joins the queue, with a fresh acknowledgement channel *)
Lemma inv_push ks s id c tp :
  inv ks s -> io s = 0 -> id <> 0 -> (tp = 1 \/ tp = 2 \/ tp = 4 \/ tp = 5) -> memN id (ids s) = false ->
  kof ks c = Some KA -> cg s c = open_ch ->
  (forall i tp', ~ In (i, Some c, tp') (inflight s)) ->
  (forall t x, In (t, x) (tasks s) -> ~ In c (trx x)) ->
  inv ks (set_ids (set_inflight s (inflight s ++ [(id, Some c, tp)])) (ids s ++ [id])).
Proof.
  intros I Hio Hid Htp Hmem Hk Hc Hnt Hnx. pose proof I as [].
  assert (Hnid : ~ In id (map fst3 (inflight s))).
  { intros H. apply (i_ids0 Hio) in H. congruence. }
  constructor; sk; auto.
  - intros i tx tp0 H. apply in_app_or in H as [H|[H|[]]]; [exact (i_inf0 i tx tp0 H)|].
    injection H as <- <- <-. split; auto. split; [lia|]. exists c. split; auto. split.
    + replace (tp =? 3) with false; auto. symmetry. apply N.eqb_neq. lia.
    + change (c_st (cg s c) = COpen). now rewrite Hc.
  - rewrite map_app. cbn [map fst3 fst]. now apply NoDup_snoc.
  - rewrite txs_app. cbn. apply NoDup_snoc; auto. intros H. apply In_txs in H as (i & tp' & H). eapply Hnt; eauto.
  - intros _ i. rewrite map_app, in_app_iff. cbn [map In fst3 fst].
    rewrite <- (i_ids0 Hio i). rewrite <- !memN_In || idtac.
    split.
    + intros H. apply memN_In in H. apply in_app_or in H as [H|[H|[]]]; [left; now apply memN_In|right; left; auto].
    + intros [H|[H|[]]]; apply memN_In, in_or_app; [left; now apply memN_In|right; now left].
  - intros i c0 H. destruct (i_rxm0 i c0 H) as (H1 & H2 & H3 & H4 & H5 & H6). spl. split; auto.
    intros Z. apply in_or_app. left. auto.
  - intros Z. contradiction.
  - intros t x H. destruct (i_task0 t x H) as [A B]. split; [|exact B].
    apply st_ok_mono with ks s; auto; sk; try tauto.
    intros i c0 tp0 Hc0. rewrite in_app_iff. cbn [In]. split; [|tauto].
    intros [Z|[Z|[]]]; auto. injection Z as <- <- <-. exfalso. apply (Hnx t x H). unfold trx. apply in_or_app. now left.
Qed.

Lemma fresh_not_tx ks s c : inv ks s -> (length ks <= c)%nat -> forall i tp, ~ In (i, Some c, tp) (inflight s).
Proof.
  intros [] L i tp H. destruct (i_inf0 _ _ _ H) as (_ & _ & c' & E & K & _). injection E as <-.
  apply kof_range in K. lia.
Qed.
Lemma fresh_not_trx ks s c : inv ks s -> (length ks <= c)%nat -> forall t x, In (t, x) (tasks s) -> ~ In c (trx x).
Proof.
  intros [] L t x H Hc. destruct (i_task0 t x H) as [A B].
  destruct (trx_kind ks s x c A B Hc) as (k & K & _). apply kof_range in K. lia.
Qed.

(* ---------------------------------------------------------------- a send attempt (start / first poll / resumed poll) *)
Definition settled (s : sink) : Prop := io s = 0 \/ io s = 2.

Lemma sig_agree ks chs chs' x s0 :
  sm_ok ks s0 x -> sig_only x chs chs' -> agreeKS ks chs chs'.
Proof.
  intros M [L G]. split; auto. intros c k K N. apply G. unfold sig_of. unfold sm_ok in M.
  destruct (tstream x) as [sm|]; [|discriminate]. destruct M as [M _]. intros E. injection E as E. subst c. congruence.
Qed.

Lemma unref_ext s s' t c : tasks s' = tasks s -> rxm s' = rxm s -> unref s t c -> unref s' t c.
Proof. unfold unref. intros -> ->. auto. Qed.

Lemma sm_ok_ext ks ks' s s' x :
  sm_ok ks s x -> (forall c k, kof ks c = Some k -> kof ks' c = Some k) ->
  (forall c k, kof ks c = Some k -> k <> KS -> cg s' c = cg s c) -> swait s' = swait s -> sm_ok ks' s' x.
Proof.
  intros M K G W. apply sm_ok_mono with ks s; auto; [|rewrite W; auto].
  intros c Hc. unfold sm_ok, pend_rx in *. destruct (tstream x) as [sm|]; [|contradiction].
  destruct M as [_ M]. destruct (pend sm) as [|m|c' m]; try contradiction. destruct Hc as [->|[]]. destruct M as (M & _).
  apply (G c KB); auto. discriminate.
Qed.

Lemma inv_send_res ks s x s1 st x' t :
  inv ks s -> settled s -> send_res s x s1 st -> sm_ok ks s x ->
  (forall c, In c (pend_rx x) -> unref s t c) ->
  (forall xo c, In (t, xo) (tasks s) -> twait (tst xo) = Some c -> ~ In c (waiters s)) ->
  exp_kind x' = exp_kind x ->
  (forall ks0 s0, sm_ok ks0 s0 x -> sm_ok ks0 s0 x') ->
  (forall c, In c (pend_rx x') -> In c (pend_rx x)) ->
  (tst x' = st \/ (exists e, st = TDone e) /\ exists e', tst x' = TDone e' \/ tst x' = TDeferred e') ->
  exists ks', inv ks' (set_tasks s1 (put_task t x' (tasks s1))).
Proof.
  intros I ST R M U O EK MX PX TX. pose proof I as [].
  assert (O' : forall s2, tasks s2 = tasks s -> waiters s2 = waiters s ->
     forall xo c, In (t, xo) (tasks s2) -> twait (tst xo) = Some c -> twait (tst x') <> Some c ->
                  In c (waiters s2) -> c_rx (cg s2 c) = false).
  { intros s2 -> -> xo c H1 H2 _ H3. exfalso. eapply O; eauto. }
  destruct R as [s1 e N | s1 Hio CW P | s1 id Hio L W P].
  - (* local failure *)
    exists ks. destruct N as (N1&N2&N3&N4&N5&N6&N7&N8&N9&N10&N11&N12&N13&N14&N15&N16).
    assert (I1 : inv ks s1) by (apply inv_sig with s; auto; eapply sig_agree; eauto).
    apply inv_task; auto.
    + unfold st_ok. destruct TX as [TX | (_ & e' & [TX | TX])]; rewrite TX; exact Logic.I.
    + apply MX. apply sm_ok_ext with ks s; auto. destruct (sig_agree ks _ _ _ _ M N16) as [_ G]. intros; unfold cg; eauto.
    + intros c Hc. apply unref_ext with s; auto. apply U. unfold trx in Hc. apply in_app_or in Hc as [Hc|Hc]; auto.
      destruct TX as [TX | (_ & e' & [TX | TX])]; rewrite TX in Hc; contradiction.
    + apply O'; auto.
  - (* parked *)
    assert (Hio0 : io s = 0) by (destruct ST; [auto|contradiction]).
    destruct TX as [TX | ((e & Z) & _)]; [|discriminate].
    exists (ks ++ [KW]). unfold parked in P. subst s1.
    set (sA := set_chans s (chans s ++ [open_ch])).
    assert (IA : inv (ks ++ [KW]) sA) by now apply inv_newchan.
    assert (CA : cg sA (length (chans s)) = open_ch) by (unfold cg, sA; sk; apply ch_get_app_new).
    assert (KA' : kof (ks ++ [KW]) (length (chans s)) = Some KW) by (rewrite <- i_len0; apply kof_new).
    assert (NW : ~ In (length (chans s)) (waiters s)).
    { intros H. apply i_ws0 in H as [H _]. apply kof_range in H. lia. }
    change (inv (ks ++ [KW]) (set_tasks (set_waiters sA (waiters sA ++ [length (chans s)])) (put_task t x' (tasks sA)))).
    apply inv_task_gen; auto.
    + intros c [<-|[]]. rewrite TX. repeat split; auto.
    + repeat constructor. intros [].
    + unfold st_ok. rewrite TX. unfold cg, sA. sk. spl. rewrite ch_get_app_new. repeat split; auto.
      intros _. apply in_or_app. right. now left.
    + apply MX. apply sm_ok_ext with ks s; auto using kof_app. intros c k K _. unfold cg, sA; sk. eapply cg_app_old; eauto.
    + intros c Hc. unfold trx in Hc. rewrite TX in Hc. cbn [trx_st app In] in Hc. destruct Hc as [<-|Hc].
      * apply unref_ext with s; auto. apply fresh_unref with ks; auto. lia.
      * apply unref_ext with s; auto.
    + apply O'; reflexivity.
  - (* written and queued *)
    assert (Hio0 : io s = 0) by (destruct ST; [auto|contradiction]).
    destruct TX as [TX | ((e & Z) & _)]; [|discriminate].
    exists (ks ++ [KA]).
    destruct P as (P1&P2&P3&P4&P5&P6&P7&P8&P9&P10&P11&P12&P13&P14&P15&P16&P17&P18).
    set (sA := set_chans s (chans s ++ [open_ch])).
    assert (IA : inv (ks ++ [KA]) sA) by now apply inv_newchan.
    set (c0 := length (chans s)).
    set (sB := set_ids (set_inflight sA (inflight sA ++ [(id, Some c0, exp_kind x)])) (ids sA ++ [id])).
    assert (IB : inv (ks ++ [KA]) sB).
    { apply inv_push; auto using exp_kind_range.
      - unfold c0. rewrite <- i_len0. apply kof_new.
      - unfold cg, sA, c0; sk. apply ch_get_app_new.
      - unfold sA; sk. eapply fresh_not_tx; eauto. unfold c0. lia.
      - unfold sA; sk. eapply fresh_not_trx; eauto. unfold c0. lia. }
    assert (MA : sm_ok (ks ++ [KA]) sB x).
    { apply sm_ok_ext with ks s; auto using kof_app. intros c k K _. unfold cg, sB, sA; sk. eapply cg_app_old; eauto. }
    assert (I1 : inv (ks ++ [KA]) s1).
    { apply inv_sig with sB; auto. unfold sB, sA; sk. eapply sig_agree; eauto. }
    destruct (sig_agree (ks ++ [KA]) _ _ _ _ MA P14) as [_ G].
    apply inv_task; auto.
    + unfold st_ok. rewrite TX. fold c0.
      assert (KC0 : kof (ks ++ [KA]) c0 = Some KA) by (unfold c0; rewrite <- i_len0; apply kof_new).
      assert (CG : cg s1 c0 = open_ch).
      { unfold cg. rewrite (G c0 KA); auto; [|discriminate]. unfold c0. apply ch_get_app_new. }
      rewrite CG, P4, EK. cbn [c_rx c_st]. spl. repeat split; try discriminate.
      * apply in_app_or in H as [H|[H|[]]]; [|congruence].
        exfalso. eapply (fresh_not_tx ks s c0 I); [unfold c0; lia | exact H].
      * apply in_app_or in H as [H|[H|[]]]; [|congruence].
        exfalso. eapply (fresh_not_tx ks s c0 I); [unfold c0; lia | exact H].
      * intros _. apply in_or_app. right. now left.
    + apply MX. apply sm_ok_ext with (ks ++ [KA]) sB; auto; try (intros; unfold cg; eauto).
    + intros c Hc. unfold trx in Hc. rewrite TX in Hc. cbn [trx_st app In] in Hc. destruct Hc as [<-|Hc].
      * apply unref_ext with s; auto. apply fresh_unref with ks; auto. lia.
      * apply unref_ext with s; auto.
    + apply O'; auto.
Qed.

(* ---------------------------------------------------------------- OStart / OCreate / OPoll *)
Lemma nsp_tk x st st' : tk (with_tst (no_stream_on_panic x st) st') = tk x.
Proof. unfold no_stream_on_panic. destruct st, (tstream x); try reflexivity. destruct (_ =? _); reflexivity. Qed.
Lemma nsp_exp x st st' : exp_kind (with_tst (no_stream_on_panic x st) st') = exp_kind x.
Proof. unfold exp_kind. now rewrite nsp_tk. Qed.
Lemma nsp_tst x st st' : tst (with_tst (no_stream_on_panic x st) st') = st'.
Proof. reflexivity. Qed.
Lemma nsp_sm ks s x st st' : sm_ok ks s x -> sm_ok ks s (with_tst (no_stream_on_panic x st) st').
Proof.
  unfold sm_ok, no_stream_on_panic. destruct st, (tstream x) as [sm|] eqn:E; cbn [with_tst tstream]; rewrite ?E; auto.
  destruct (_ =? _); cbn [tstream]; rewrite ?E; auto. cbn [sg pend]. intros [H _]; split; auto.
Qed.
Lemma nsp_pend x st st' c : In c (pend_rx (with_tst (no_stream_on_panic x st) st')) -> In c (pend_rx x).
Proof.
  unfold pend_rx, no_stream_on_panic. destruct st, (tstream x) as [sm|] eqn:E; cbn [with_tst tstream]; rewrite ?E; auto.
  destruct (_ =? _); cbn [tstream]; rewrite ?E; auto. cbn [pend]. intros [].
Qed.

Lemma with_tst_exp x st : exp_kind (with_tst x st) = exp_kind x. Proof. reflexivity. Qed.
Lemma with_tst_sm ks s x st : sm_ok ks s (with_tst x st) <-> sm_ok ks s x. Proof. reflexivity. Qed.
Lemma with_tst_pend x st : pend_rx (with_tst x st) = pend_rx x. Proof. reflexivity. Qed.

Lemma no_old s t : find_task t (tasks s) = None -> forall xo, ~ In (t, xo) (tasks s).
Proof. intros F xo. now apply find_task_None. Qed.

(* a task without channels *)
Lemma inv_task_plain ks s t x' :
  inv ks s -> find_task t (tasks s) = None -> trx x' = [] -> tstream x' = None -> twait (tst x') = None ->
  st_ok ks s x' -> inv ks (set_tasks s (put_task t x' (tasks s))).
Proof.
  intros I F T S W SO. apply inv_task; auto.
  - unfold sm_ok. now rewrite S.
  - rewrite T. intros c [].
  - intros xo c H. exfalso. eapply no_old; eauto.
Qed.

Lemma inv_park ks s t x' :
  inv ks s -> io s = 0 ->
  (tst x' = TParked (length (chans s)) \/ tst x' = TReadyW (length (chans s))) ->
  sm_ok ks s x' -> (forall c, In c (pend_rx x') -> unref s t c) ->
  (forall xo c, In (t, xo) (tasks s) -> twait (tst xo) = Some c -> ~ In c (waiters s)) ->
  inv (ks ++ [KW])
      (set_tasks (set_waiters (set_chans s (chans s ++ [open_ch])) (waiters s ++ [length (chans s)]))
                 (put_task t x' (tasks s))).
Proof.
  intros I Hio0 TX M U O. pose proof I as [].
  set (sA := set_chans s (chans s ++ [open_ch])).
  assert (IA : inv (ks ++ [KW]) sA) by now apply inv_newchan.
  assert (CA : cg sA (length (chans s)) = open_ch) by (unfold cg, sA; sk; apply ch_get_app_new).
  assert (KA' : kof (ks ++ [KW]) (length (chans s)) = Some KW) by (rewrite <- i_len0; apply kof_new).
  assert (NW : ~ In (length (chans s)) (waiters s)).
  { intros H. apply i_ws0 in H as [H _]. apply kof_range in H. lia. }
  assert (TW : twait (tst x') = Some (length (chans s))) by (destruct TX as [-> | ->]; reflexivity).
  change (inv (ks ++ [KW]) (set_tasks (set_waiters sA (waiters sA ++ [length (chans s)])) (put_task t x' (tasks sA)))).
  apply inv_task_gen; auto.
  - intros c [<-|[]]. repeat split; auto.
  - repeat constructor. intros [].
  - unfold st_ok. destruct TX as [-> | ->]; unfold cg, sA; sk; spl; rewrite ch_get_app_new; repeat split; auto;
      intros _; apply in_or_app; right; now left.
  - apply sm_ok_ext with ks s; auto using kof_app. intros c k K _. unfold cg, sA; sk. eapply cg_app_old; eauto.
  - intros c Hc. unfold trx in Hc. apply in_app_or in Hc as [Hc|Hc].
    + assert (c = length (chans s)) as -> by (destruct TX as [TX|TX]; rewrite TX in Hc; destruct Hc as [<-|[]]; reflexivity).
      apply unref_ext with s; auto. apply fresh_unref with ks; auto. lia.
    + apply unref_ext with s; auto.
  - intros xo c H1 H2 _ H3. exfalso. eapply O; eauto.
Qed.

Lemma settled_io0 s : settled s -> io s <> 2 -> io s = 0.
Proof. intros [H|H] N; [auto|contradiction]. Qed.

Lemma new_task_sm ks s k idq size :
  length ks = length (chans s) ->
  sm_ok (if k =? 7 then ks ++ [KS] else ks) (if k =? 7 then set_chans s (chans s ++ [open_ch]) else s)
        (new_task k idq size (length (chans s))).
Proof.
  intros L. unfold sm_ok, new_task. destruct (k =? 7); cbn [tstream sg pend]; auto.
  split; auto. rewrite <- L. apply kof_new.
Qed.
Lemma new_task_pend k idq size c : pend_rx (new_task k idq size c) = [].
Proof. unfold pend_rx, new_task. destruct (k =? 7); reflexivity. Qed.

Lemma inv_start0 ks s k : inv ks s ->
  inv (if k =? 7 then ks ++ [KS] else ks) (if k =? 7 then set_chans s (chans s ++ [open_ch]) else s).
Proof. intros I. destruct (k =? 7); auto. now apply inv_newchan. Qed.

Lemma inv_start s t k idq size : sink_inv s -> settled s -> sink_inv (start_task s t k idq size).
Proof.
  intros [ks I] ST. destruct (find_task t (tasks s)) as [xo|] eqn:F.
  { unfold start_task. rewrite F. now exists ks. }
  pose proof I as [].
  destruct (start_task_spec s t k idq size F) as [ | s1 e K P | e K | s1 K Hio CW P | s0 x s1 st K E0 EX R].
  - now exists ks.
  - exists ks. destruct P as (P1&P2&P3&P4&P5&P6&P7&P8&P9&P10&P11&P12&P13&P14).
    assert (I1 : inv ks s1) by (apply inv_core with s; auto).
    apply inv_task_plain; auto; try reflexivity; try congruence; try exact Logic.I.
  - exists ks. apply inv_task_plain; auto; try reflexivity; try exact Logic.I.
  - exists (ks ++ [KW]). unfold parked in P. subst s1.
    change (tasks (set_waiters (set_chans s (chans s ++ [open_ch])) (waiters s ++ [length (chans s)]))) with (tasks s).
    apply inv_park; auto.
    + now apply settled_io0.
    + exact Logic.I.
    + intros c [].
    + intros xo c H. exfalso. eapply no_old; eauto.
  - set (ks0 := if k =? 7 then ks ++ [KS] else ks).
    assert (I0 : inv ks0 s0) by (subst s0; now apply inv_start0).
    assert (H1 : settled s0) by (subst s0; unfold settled in *; destruct (k =? 7); auto).
    assert (H2 : sm_ok ks0 s0 x) by (subst s0 x; now apply new_task_sm).
    assert (H3 : forall c, In c (pend_rx x) -> unref s0 t c) by (subst x; rewrite new_task_pend; intros c []).
    assert (H4 : forall xo c, In (t, xo) (tasks s0) -> twait (tst xo) = Some c -> ~ In c (waiters s0)).
    { intros xo c H. exfalso. apply (no_old s t F xo). subst s0. destruct (k =? 7); exact H. }
    exact (inv_send_res ks0 s0 x s1 st _ t I0 H1 R H2 H3 H4 (nsp_exp _ _ _) (fun _ _ => nsp_sm _ _ _ _ _)
             (fun c => nsp_pend _ _ _ c) (or_introl eq_refl)).
Qed.

Lemma defer_cases st : defer st = st \/ (exists e, st = TDone e) /\ exists e', defer st = TDone e' \/ defer st = TDeferred e'.
Proof. destruct st; auto. right. split; eauto. cbn [defer]. destruct (_ =? _); eauto. Qed.

Lemma inv_create s t k idq size : sink_inv s -> settled s -> sink_inv (create_task s t k idq size).
Proof.
  intros [ks I] ST. destruct (find_task t (tasks s)) as [xo|] eqn:F.
  { unfold create_task. rewrite F. now exists ks. }
  pose proof I as [].
  destruct (create_task_spec s t k idq size F) as [ | K | e K | s1 K Hio CW P | K | s0 x s1 st K E0 EX R].
  - now exists ks.
  - apply inv_start; auto. now exists ks.
  - exists ks. apply inv_task_plain; auto; try reflexivity; try exact Logic.I.
  - exists (ks ++ [KW]). unfold parked in P. subst s1.
    change (tasks (set_waiters (set_chans s (chans s ++ [open_ch])) (waiters s ++ [length (chans s)]))) with (tasks s).
    apply inv_park; auto.
    + now apply settled_io0.
    + exact Logic.I.
    + intros c [].
    + intros xo c H. exfalso. eapply no_old; eauto.
  - exists ks. apply inv_task_plain; auto; try reflexivity; try exact Logic.I.
  - set (ks0 := if k =? 7 then ks ++ [KS] else ks).
    assert (I0 : inv ks0 s0) by (subst s0; now apply inv_start0).
    assert (H1 : settled s0) by (subst s0; unfold settled in *; destruct (k =? 7); auto).
    assert (H2 : sm_ok ks0 s0 x) by (subst s0 x; now apply new_task_sm).
    assert (H3 : forall c, In c (pend_rx x) -> unref s0 t c) by (subst x; rewrite new_task_pend; intros c []).
    assert (H4 : forall xo c, In (t, xo) (tasks s0) -> twait (tst xo) = Some c -> ~ In c (waiters s0)).
    { intros xo c H. exfalso. apply (no_old s t F xo). subst s0. destruct (k =? 7); exact H. }
    exact (inv_send_res ks0 s0 x s1 st _ t I0 H1 R H2 H3 H4 (nsp_exp _ _ _) (fun _ _ => nsp_sm _ _ _ _ _)
             (fun c => nsp_pend _ _ _ c) (defer_cases st)).
Qed.

(* the task gives up (some of) its channels, or keeps its state *)
Lemma inv_task_shrink ks s t xo st' :
  inv ks s -> In (t, xo) (tasks s) ->
  (st' = tst xo \/
   (trx_st st' = [] /\ (forall c, twait (tst xo) = Some c -> c_st (cg s c) <> COpen) /\
    match st' with TDone _ | TReceipt _ | TDropped | TDeferred _ | TNew => True | _ => False end)) ->
  inv ks (set_tasks s (put_task t (with_tst xo st') (tasks s))).
Proof.
  intros I H C. pose proof I as []. destruct (i_task0 t xo H) as [SO MO].
  apply inv_task; auto.
  - destruct C as [-> | (_ & _ & C)]; [exact SO|]. unfold st_ok. cbn [with_tst tst]. destruct st'; auto; contradiction.
  - intros c Hc. eapply own_unref; eauto. unfold trx in *. cbn [with_tst tst] in Hc. rewrite with_tst_pend in Hc.
    apply in_app_or in Hc as [Hc|Hc]; apply in_or_app; auto.
    destruct C as [-> | (C & _)]; [auto|]. rewrite C in Hc. contradiction.
  - intros x2 c H2 T N W. assert (x2 = xo) as -> by (eapply sorted_fun; eauto).
    cbn [with_tst tst] in N. destruct C as [-> | (_ & C & _)]; [contradiction|].
    apply i_ws0 in W as [_ W]. apply C in T. contradiction.
Qed.

Lemma poll_not_pending s c : poll s c <> PPending -> c_st (cg s c) <> COpen.
Proof. unfold poll, ch_poll, cg. destruct (c_st _); congruence. Qed.

Lemma inv_poll s t : sink_inv s -> settled s -> sink_inv (poll_task s t).
Proof.
  intros [ks I] ST. destruct (find_task t (tasks s)) as [x|] eqn:F.
  2:{ unfold poll_task. rewrite F. now exists ks. }
  pose proof I as [].
  assert (H : In (t, x) (tasks s)) by (apply find_task_In; auto).
  destruct (i_task0 t x H) as [SO MO].
  destruct (poll_task_spec s t x F) as (s1 & st & R & ->).
  assert (SH : forall st', (trx_st st' = [] /\ (forall c, twait (tst x) = Some c -> c_st (cg s c) <> COpen) /\
                match st' with TDone _ | TReceipt _ | TDropped | TDeferred _ | TNew => True | _ => False end) ->
               sink_inv (set_tasks s (put_task t (with_tst x st') (tasks s)))).
  { intros st' C. exists ks. apply inv_task_shrink; auto. }
  assert (SR : forall s1 st, send_res s x s1 st ->
     (forall c, twait (tst x) = Some c -> c_st (cg s c) <> COpen) ->
     sink_inv (set_tasks s1 (put_task t (with_tst x st) (tasks s1)))).
  { intros s2 st2 R2 NO.
    apply (inv_send_res ks s x s2 st2 (with_tst x st2) t I ST R2 MO); auto.
    - intros c Hc. eapply own_unref; eauto. unfold trx. apply in_or_app. now right.
    - intros xo c H2 T W. assert (xo = x) as -> by (eapply sorted_fun; eauto).
      apply i_ws0 in W as [_ W]. apply NO in T. contradiction. }
  destruct R as [ | c id E P | c id v E P | c E P | c v E P | c E P | c v E P | c s1 E P1 P2 N | c v s1 st E P Hio R
                | s1 E Hio N | s1 st E Hio R | e E].
  - exists ks. apply inv_task_shrink; auto.
  - apply SH. rewrite E. repeat split; auto. discriminate.
  - apply SH. rewrite E. destruct (tk x =? 2); repeat split; auto; discriminate.
  - apply SH. rewrite E. repeat split; auto. discriminate.
  - apply SH. rewrite E. repeat split; auto. discriminate.
  - apply SH. rewrite E. repeat split; auto. intros c' T. injection T as <-. apply poll_not_pending. congruence.
  - apply SH. rewrite E. repeat split; auto. intros c' T. injection T as <-. apply poll_not_pending. congruence.
  - apply SR; [now apply SE_fail|]. rewrite E. intros c' T. injection T as <-. now apply poll_not_pending.
  - apply SR; auto. rewrite E. intros c' T. injection T as <-. apply poll_not_pending. congruence.
  - apply SR; [now apply SE_fail|]. rewrite E. discriminate.
  - apply SR; auto. rewrite E. discriminate.
  - apply SH. rewrite E. repeat split; auto. discriminate.
Qed.

(* ---------------------------------------------------------------- ODrop *)
Lemma cg_drop_rx s c c' : cg (drop_rx s c) c' = if Nat.eqb c c' then drx (cg s c') else cg s c'.
Proof. unfold cg, drop_rx. sk. apply ch_drop_rx_get. Qed.

Lemma inv_drop_rx_task ks s t x' c :
  inv ks s -> unref s t c -> ~ In c (trx x') ->
  st_ok ks s x' -> sm_ok ks s x' -> (forall c', In c' (trx x') -> unref s t c') ->
  (forall xo c', In (t, xo) (tasks s) -> twait (tst xo) = Some c' -> twait (tst x') <> Some c' ->
                 In c' (waiters s) -> c' = c \/ c_rx (cg s c') = false) ->
  inv ks (set_tasks (drop_rx s c) (put_task t x' (tasks s))).
Proof.
  intros I [U1 U2] NC SO MO U O. pose proof I as [].
  set (s' := set_tasks (drop_rx s c) (put_task t x' (tasks s))).
  assert (G : forall c', cg s' c' = if Nat.eqb c c' then drx (cg s c') else cg s c').
  { intros c'. apply cg_drop_rx. }
  assert (GS : forall c', c_st (cg s' c') = c_st (cg s c')) by (intros c'; rewrite G; destruct (Nat.eqb c c'); reflexivity).
  assert (GV : forall c', c_val (cg s' c') = c_val (cg s c')) by (intros c'; rewrite G; destruct (Nat.eqb c c'); reflexivity).
  assert (GR : forall c', c' <> c -> cg s' c' = cg s c').
  { intros c' N. rewrite G. destruct (Nat.eqb_spec c c'); [congruence|reflexivity]. }
  assert (MONO : forall x, st_ok ks s x -> sm_ok ks s x -> ~ In c (trx x) -> st_ok ks s' x /\ sm_ok ks s' x).
  { intros x A B N. split.
    - apply st_ok_mono with ks s; auto; try tauto.
      intros c' Hc. apply GR. intros ->. apply N. unfold trx. apply in_or_app. now left.
    - apply sm_ok_mono with ks s; auto.
      intros c' Hc. apply GR. intros ->. apply N. unfold trx. apply in_or_app. now right. }
  constructor; fold s'.
  - unfold s', drop_rx; sk. now rewrite ch_drop_rx_length.
  - unfold s'; sk. now apply put_task_sorted.
  - intros c' H. rewrite GS. exact (i_ws0 c' H).
  - exact i_wsnd0.
  - exact i_swait0.
  - intros i tx tp H. destruct (i_inf0 i tx tp H) as (H1 & H2 & c' & H3 & H4 & H5). spl. exists c'. rewrite GS. auto.
  - exact i_infnd0.
  - exact i_txnd0.
  - exact i_ids0.
  - intros i c' H. destruct (i_rxm0 i c' H) as (H1 & H2 & H3 & H4 & H5 & H6).
    assert (NE : c' <> c) by (intros ->; eapply U2; eauto).
    rewrite GS, GR by auto. spl.
    intros t2 x2 H7. unfold s' in H7; sk in H7. apply put_task_In in H7; auto. destruct H7 as [[-> ->]|[Hne H7]]; [|eauto].
    intros Hc. destruct (U c' Hc) as [_ Z]. eapply Z; eauto.
  - exact i_rxmk0.
  - exact i_rxmc0.
  - exact i_closed0.
  - intros t2 x2 H. unfold s' in H; sk in H. apply put_task_In in H; auto. destruct H as [[-> ->]|[Hne H]].
    + apply MONO; auto.
    + destruct (i_task0 t2 x2 H). apply MONO; auto. eapply U1; eauto.
  - intros t1 x1 t2 x2 c' H1 H2 C1 C2. unfold s' in H1, H2; sk in H1; sk in H2. apply put_task_In in H1, H2; auto.
    destruct H1 as [[-> ->]|[N1 H1]], H2 as [[-> ->]|[N2 H2]]; auto.
    + destruct (U c' C1) as [Z _]. exfalso. eapply Z; eauto.
    + destruct (U c' C2) as [Z _]. exfalso. eapply Z; eauto.
    + eapply i_uniq0; eauto.
  - intros c' H R.
    assert (NE : c' <> c). { intros ->. rewrite G, Nat.eqb_refl in R. discriminate. }
    rewrite GR in R by auto.
    destruct (i_wtask0 c' H R) as (t0 & x0 & H0 & T0). unfold s'; sk.
    destruct (N.eq_dec t0 t) as [->|Hne].
    + assert (D : twait (tst x') = Some c' \/ twait (tst x') <> Some c').
      { destruct (twait (tst x')) as [c2|]; [destruct (Nat.eq_dec c2 c') as [->|]; [now left|right; congruence]|right; discriminate]. }
      destruct D as [E|E].
      * exists t, x'. split; auto. apply put_task_In; auto.
      * destruct (O x0 c' H0 T0 E H) as [Z|Z]; [contradiction|]. rewrite Z in R. discriminate.
    + exists t0, x0. split; auto. apply put_task_In; auto.
Qed.

Lemma trx_with_tst x st : trx (with_tst x st) = trx_st st ++ pend_rx x.
Proof. reflexivity. Qed.

Lemma inv_drop_sig ks s x l s0 :
  inv ks (set_tasks s l) -> sm_ok ks s0 x -> inv ks (set_tasks (drop_sig s x) l).
Proof.
  intros I M. unfold drop_sig. destruct (ttx x); auto. unfold drop_tx_opt.
  destruct (sig_of x) as [c0|] eqn:E; auto. unfold drop_tx.
  apply inv_sig with (set_tasks s l); auto. sk.
  eapply sig_agree; eauto. generalize (sig_only_drop x (chans s)). now rewrite E.
Qed.

Lemma inv_drop s t : sink_inv s -> sink_inv (drop_task s t).
Proof.
  intros [ks I]. unfold drop_task. destruct (find_task t (tasks s)) as [x|] eqn:F; [|now exists ks].
  pose proof I as [].
  assert (H : In (t, x) (tasks s)) by (apply find_task_In; auto).
  destruct (i_task0 t x H) as [SO MO].
  assert (DR : forall c, In c (trx_st (tst x)) -> (forall c', twait (tst x) = Some c' -> c' = c) ->
     inv ks (set_tasks (drop_rx s c) (put_task t (with_tst x TDropped) (tasks s)))).
  { intros c Hc TW.
    assert (NP : ~ In c (pend_rx x)).
    { intros Hp. unfold st_ok, sm_ok, pend_rx in *. destruct (tstream x) as [sm|]; [|contradiction].
      destruct MO as [_ MO]. destruct (pend sm) as [|m|c' m]; try contradiction. destruct Hp as [->|[]].
      destruct MO as (MO & _). destruct (tst x); cbn [trx_st In] in Hc; try contradiction;
        destruct Hc as [->|[]]; destruct SO as (SO & _); congruence. }
    apply inv_drop_rx_task; [exact I| | |exact Logic.I|exact MO| |].
    - eapply own_unref; eauto. unfold trx. apply in_or_app. now left.
    - rewrite trx_with_tst. exact NP.
    - intros c' Hc'. eapply own_unref; eauto. rewrite trx_with_tst in Hc'. unfold trx. apply in_or_app. now right.
    - intros xo c' H2 T _ _. assert (xo = x) as -> by (eapply sorted_fun; eauto). left. auto. }
  destruct (tst x) as [c|c id|id|c|c|e| | |e] eqn:ST; try (now exists ks).
  - exists ks.
    set (sM := set_tasks (drop_rx s c) (put_task t (with_tst x TDropped) (tasks s))).
    assert (IM : inv ks sM) by (apply DR; [now left| intros c' E; now injection E as <-]).
    cbv zeta. rewrite (nc_tasks _ _ (drop_sig_nc (drop_rx s c) x)). change (tasks (drop_rx s c)) with (tasks s).
    eapply inv_drop_sig; eauto.
  - exists ks. apply DR; [now left|discriminate].
  - exists ks. apply DR; [now left|discriminate].
  - exists ks. apply DR; [now left| intros c' E; now injection E as <-].
  - exists ks. apply inv_task_shrink; auto. right. rewrite ST. repeat split; auto. discriminate.
  - exists ks. apply inv_task_shrink; auto. right. rewrite ST. repeat split; auto. discriminate.
Qed.

(* ---------------------------------------------------------------- wake *)
Lemma pend_kind ks s x c : sm_ok ks s x -> In c (pend_rx x) -> kof ks c = Some KB.
Proof.
  unfold sm_ok, pend_rx. destruct (tstream x) as [sm|]; [|intros _ []]. intros [_ M].
  destruct (pend sm) as [|m|c' m]; [intros []|intros []|]. intros [<-|[]]. apply M.
Qed.

Lemma inv_wake ks s n : inv ks s -> inv ks (wake s n).
Proof.
  intros I. pose proof I as []. rewrite wake_eq.
  destruct (wake_go_spec (waiters s) (chans s) n i_wsnd0) as (popped & woken & W1 & W2 & W3 & W4 & W5 & W6).
  set (chs' := fst (wake_go (chans s) n (waiters s))) in *.
  set (ws' := snd (wake_go (chans s) n (waiters s))) in *.
  set (s' := set_waiters (set_chans s chs') ws').
  assert (G : forall c, cg s' c = if existsb (Nat.eqb c) woken then mkChan CFilled 0 true else cg s c).
  { intros c. unfold cg, s'; sk. apply W3. }
  assert (GN : forall c, ~ In c woken -> cg s' c = cg s c).
  { intros c N. rewrite G. destruct (existsb (Nat.eqb c) woken) eqn:E; auto. apply existsb_eqb_In in E. contradiction. }
  assert (WK : forall c, In c woken -> kof ks c = Some KW /\ In c popped).
  { intros c Hc. apply W2 in Hc as [Hc _]. split; auto. apply i_ws0. rewrite W1. apply in_or_app. now left. }
  assert (NK : forall c k, kof ks c = Some k -> k <> KW -> ~ In c woken).
  { intros c k K N Hc. apply WK in Hc as [Hc _]. congruence. }
  assert (SUB : forall c, In c ws' -> In c (waiters s)) by (intros c Hc; rewrite W1; apply in_or_app; now right).
  assert (DIS : forall c, In c ws' -> ~ In c woken).
  { intros c Hc Hw. apply WK in Hw as [_ Hp]. rewrite W1 in i_wsnd0.
    revert Hp Hc. clear - i_wsnd0. induction popped as [|y p IH]; cbn [app In] in *; [tauto|].
    inversion i_wsnd0; subst. intros [->|Hp] Hc; [apply H1; apply in_or_app; now right|auto]. }
  constructor; fold s'.
  - unfold s'; sk. unfold chs'. now rewrite wake_go_length.
  - exact i_sorted0.
  - intros c H. rewrite GN by auto. apply i_ws0; auto.
  - unfold s'; sk. rewrite W1 in i_wsnd0. eapply NoDup_app_r; eauto.
  - exact i_swait0.
  - intros i tx tp H. destruct (i_inf0 i tx tp H) as (H1 & H2 & c & H3 & H4 & H5). spl. exists c.
    rewrite GN; auto. eapply NK; eauto. destruct (tp =? 3); discriminate.
  - exact i_infnd0.
  - exact i_txnd0.
  - exact i_ids0.
  - intros i c H. destruct (i_rxm0 i c H) as (H1 & H2 & H3 & H4 & H5 & H6).
    rewrite GN by (eapply NK; eauto; discriminate). spl. exact H6.
  - exact i_rxmk0.
  - exact i_rxmc0.
  - intros Hio. destruct (i_closed0 Hio) as (C1 & C2 & C3). spl. split; auto.
    unfold s'; sk. destruct ws' as [|c r]; auto. specialize (SUB c (or_introl eq_refl)). rewrite C2 in SUB. contradiction.
  - intros t x H. destruct (i_task0 t x H) as [SO MO]. split.
    + unfold st_ok in *. destruct (tst x) as [c|c id|id|c|c|e| | |e]; auto.
      * destruct SO as (S1 & S2 & S3). spl. rewrite G. destruct (existsb (Nat.eqb c) woken) eqn:E; cbn [c_rx c_st].
        -- split; auto. discriminate.
        -- split; auto. intros O. specialize (S3 O). unfold s'; sk. rewrite W1 in S3.
           apply in_app_or in S3 as [S3|S3]; auto. exfalso.
           assert (In c woken) by (apply W2; auto). apply existsb_eqb_In in H0. congruence.
      * destruct SO as (S1 & S2 & S3). rewrite GN by (eapply NK; eauto; discriminate). spl. exact S3.
      * destruct SO as (S1 & S2 & S3). rewrite GN by (eapply NK; eauto; discriminate). spl. exact S3.
      * destruct SO as (S1 & S2 & S3). spl. rewrite G. destruct (existsb (Nat.eqb c) woken) eqn:E; cbn [c_rx c_st].
        -- split; auto. discriminate.
        -- split; auto. intros O. specialize (S3 O). unfold s'; sk. rewrite W1 in S3.
           apply in_app_or in S3 as [S3|S3]; auto. exfalso.
           assert (In c woken) by (apply W2; auto). apply existsb_eqb_In in H0. congruence.
    + apply sm_ok_mono with ks s; auto. intros c Hc. apply GN. eapply NK; [eapply pend_kind; eauto|discriminate].
  - exact i_uniq0.
  - intros c H R. rewrite GN in R by auto. apply i_wtask0; auto.
Qed.

(* ---------------------------------------------------------------- closing *)
Lemma inv_closed ks s s' D :
  inv ks s -> io s' <> 0 -> inflight s' = [] -> waiters s' = [] -> swait s' = None ->
  rxm s' = rxm s -> tasks s' = tasks s ->
  chans s' = fold_left ch_drop_tx D (chans s) -> (forall c, In c (senders s) -> In c D) ->
  inv ks s'.
Proof.
  intros I Hio E1 E2 E3 E4 E5 E6 SD. pose proof I as [].
  assert (G : forall c, cg s' c = if existsb (Nat.eqb c) D then dtx (cg s c) else cg s c).
  { intros c. unfold cg. rewrite E6. apply fold_dtx_get. }
  assert (GR : forall c, c_rx (cg s' c) = c_rx (cg s c)).
  { intros c. rewrite G. destruct (existsb _ D); auto. unfold dtx. destruct (c_st (cg s c)); reflexivity. }
  assert (GO : forall c, c_st (cg s' c) = COpen -> c_st (cg s c) = COpen /\ ~ In c D).
  { intros c. rewrite G. destruct (existsb _ D) eqn:E.
    - unfold dtx. destruct (c_st (cg s c)) eqn:E'; cbn [c_st]; rewrite ?E'; discriminate.
    - intros H. split; auto. intros Hc. apply existsb_eqb_In in Hc. congruence. }
  assert (GF : forall c, c_st (cg s' c) = CFilled -> c_st (cg s c) = CFilled /\ c_val (cg s' c) = c_val (cg s c)).
  { intros c. rewrite G. destruct (existsb _ D); auto.
    unfold dtx. destruct (c_st (cg s c)) eqn:E'; cbn [c_st]; rewrite ?E'; auto; discriminate. }
  assert (SW : forall c, In c (waiters s) -> In c D) by (intros c H; apply SD; unfold senders; apply in_or_app; now left).
  assert (SS : forall c, swait s = Some c -> In c D).
  { intros c H. apply SD. unfold senders. apply in_or_app. right. apply in_or_app. left. rewrite H. now left. }
  assert (SI : forall i c tp, In (i, Some c, tp) (inflight s) -> In c D).
  { intros i c tp H. apply SD. unfold senders. apply in_or_app. right. apply in_or_app. right. apply In_txs. eauto. }
  constructor; rewrite ?E1, ?E2, ?E3, ?E4, ?E5; auto; try (intros; contradiction); try discriminate; try apply NoDup_nil.
  - rewrite E6, fold_dtx_length. auto.
  - intros i c H. destruct (i_rxm0 i c H) as (H1 & H2 & H3 & H4 & H5 & H6). rewrite GR. spl.
    split; [intros Z; apply GF in Z as [Z _]; contradiction|]. split; [intros; contradiction|]. split; auto.
    intros _ O. apply GO in O as [O ND]. destruct (N.eq_dec (io s) 0) as [Z|Z]; [|now apply H5].
    apply ND. eapply SI; eauto.
  - intros t x H. destruct (i_task0 t x H) as [SO MO]. split.
    + unfold st_ok in *. rewrite E1, E2. destruct (tst x) as [c|c id|id|c|c|e| | |e]; auto.
      * destruct SO as (S1 & S2 & S3). rewrite GR. spl. intros O. apply GO in O as [O ND]. exfalso. auto.
      * destruct SO as (S1 & S2 & S3 & S4 & S5 & S6). rewrite GR. spl. split; [intros i tp []|].
        split; [intros O; apply GO in O as [O ND]; exfalso; eapply ND, SI; eauto|].
        split; auto. intros Z. apply GF in Z as [Z ->]. auto.
      * destruct SO as (S1 & S2 & S3 & S4 & S5). rewrite GR. spl.
        split; [intros O; apply GO in O as [O ND]; exfalso; destruct (S3 O) as (i & Hi); eapply ND, SI; eauto|].
        split; auto. intros Z. apply GF in Z as [Z ->]. auto.
      * destruct SO as (S1 & S2 & S3). rewrite GR. spl. intros O. apply GO in O as [O ND]. exfalso. auto.
    + unfold sm_ok in *. rewrite E3. destruct (tstream x) as [sm|]; auto. destruct MO as [M1 M2]. split; auto.
      destruct (pend sm) as [|m|c m]; auto. destruct M2 as (M2 & M3 & M4). rewrite GR. spl.
      intros O. apply GO in O as [O ND]. exfalso. auto.
Qed.

(* do_close: a DISCONNECT may be written, the io leaves the open state, the queues are cleared *)
Definition closing (s s2 : sink) : Prop :=
  ver s2 = ver s /\ client s2 = client s /\ cap s2 = cap s /\ inflight s2 = inflight s /\ ids s2 = ids s /\
  waiters s2 = waiters s /\ rxm s2 = rxm s /\ wrb s2 = wrb s /\ swait s2 = swait s /\ chans s2 = chans s /\
  tasks s2 = tasks s /\ srem s2 = srem s /\ crem s2 = crem s /\
  io s2 = (if io s =? 0 then 1 else io s) /\
  (wire s2 = wire s \/ exists rc, wire s2 = wire s ++ [W_DISCONNECT; rc]).

Lemma do_close_spec s r : exists s2, do_close s r = clear_queues s2 /\ closing s s2.
Proof.
  unfold do_close, disconnect_sent, io_close, is_closed, enc_packet, add_wire. sk.
  destruct (ver s =? 3).
  - destruct (client s).
    + destruct (disc s); sk.
      * eexists; split; [reflexivity|]. unfold closing. destruct (io s =? 0); sk; repeat split; eauto.
      * destruct (negb (srem s =? 0)); sk.
        -- eexists; split; [reflexivity|]. unfold closing. destruct (io s =? 0); sk; repeat split; eauto.
        -- destruct (io s =? 0) eqn:E; sk.
           ++ destruct (negb (crem s =? 0)); sk; eexists; (split; [reflexivity|]); unfold closing; sk; rewrite ?E; sk; repeat split; eauto.
           ++ eexists; split; [reflexivity|]. unfold closing. sk. rewrite E. repeat split; eauto.
    + eexists; split; [reflexivity|]. unfold closing. destruct (io s =? 0); sk; repeat split; eauto.
  - destruct (N.eqb_spec (io s) 2) as [E|E].
    + exists s. split; auto. unfold closing. rewrite E. cbn. repeat split; eauto.
    + destruct (disc s); sk.
      * eexists; split; [reflexivity|]. unfold closing. destruct (io s =? 0); sk; repeat split; eauto.
      * destruct (io s =? 0) eqn:E0; sk.
        -- destruct (negb (crem s =? 0)); sk; eexists; (split; [reflexivity|]); unfold closing; sk; rewrite ?E0; sk; repeat split; eauto.
        -- eexists; split; [reflexivity|]. unfold closing. sk. rewrite E0. repeat split; eauto.
Qed.

Lemma closing_io s s2 : closing s s2 -> io s2 <> 0.
Proof.
  intros C. destruct C as (_&_&_&_&_&_&_&_&_&_&_&_&_&E&_). rewrite E.
  destruct (N.eqb_spec (io s) 0); [discriminate|auto].
Qed.

Lemma inv_close ks s r : inv ks s -> inv ks (do_close s r).
Proof.
  intros I. destruct (do_close_spec s r) as (s2 & -> & C). pose proof (closing_io _ _ C) as Hio.
  destruct C as (C1&C2&C3&C4&C5&C6&C7&C8&C9&C10&C11&C12&C13&C14&C15).
  rewrite clear_queues_eq. apply inv_closed with s (senders s); sk; auto.
  unfold cleared, senders. now rewrite C4, C6, C9, C10.
Qed.

Lemma inv_force_close ks s : inv ks s -> inv ks (do_force_close s).
Proof.
  intros I. unfold do_force_close, io_terminate. rewrite clear_queues_eq.
  apply inv_closed with s (senders s); sk; auto. discriminate.
Qed.

(* ---------------------------------------------------------------- acknowledgements *)
Lemma rxm_find_In id l c : rxm_find id l = Some c -> In (id, c) l.
Proof.
  induction l as [|[i c0] r IH]; cbn [rxm_find]; [discriminate|].
  destruct (N.eqb_spec i id) as [->|]; [intros E; injection E as <-; now left|]. intros H. right. auto.
Qed.
Lemma rxm_find_None id l : rxm_find id l = None -> forall c, ~ In (id, c) l.
Proof.
  induction l as [|[i c0] r IH]; cbn [rxm_find]; [intros _ c []|].
  destruct (N.eqb_spec i id) as [->|N]; [discriminate|]. intros H c [E|Hi]; [congruence|]. eapply IH; eauto.
Qed.
Lemma rxm_del_In id l i c : In (i, c) (rxm_del id l) <-> In (i, c) l /\ i <> id.
Proof.
  induction l as [|[j c0] r IH]; cbn [rxm_del In]; [tauto|].
  destruct (N.eqb_spec j id) as [->|N]; cbn [In]; rewrite IH; intuition congruence.
Qed.
Lemma rxm_del_notin id l : (forall c, ~ In (id, c) l) -> rxm_del id l = l.
Proof.
  induction l as [|[j c0] r IH]; cbn [rxm_del]; auto. intros H.
  destruct (N.eqb_spec j id) as [->|N]; [exfalso; apply (H c0); now left|].
  rewrite IH; auto. intros c Hc. apply (H c). now right.
Qed.
Lemma rxm_del_nd_fst id l : NoDup (map fst l) -> NoDup (map fst (rxm_del id l)).
Proof.
  induction l as [|[j c0] r IH]; cbn [rxm_del map fst]; auto. intros H. inversion H as [|? ? H1 H2]; subst.
  destruct (j =? id); auto. cbn [map fst]. constructor; auto. intros Hi. apply H1.
  apply in_map_iff in Hi as ([j' c'] & E & Hi). cbn [fst] in E. subst j'. apply rxm_del_In in Hi as [Hi _].
  apply in_map_iff. exists (j, c'). auto.
Qed.
Lemma rxm_del_nd_snd id l : NoDup (map snd l) -> NoDup (map snd (rxm_del id l)).
Proof.
  induction l as [|[j c0] r IH]; cbn [rxm_del map snd]; auto. intros H. inversion H as [|? ? H1 H2]; subst.
  destruct (j =? id); auto. cbn [map snd]. constructor; auto. intros Hi. apply H1.
  apply in_map_iff in Hi as ([j' c'] & E & Hi). cbn [snd] in E. subst c'. apply rxm_del_In in Hi as [Hi _].
  apply in_map_iff. exists (j', c0). auto.
Qed.

Lemma rxm_find_None_eq id l : (forall c, ~ In (id, c) l) -> rxm_find id l = None.
Proof.
  induction l as [|[i c0] r IH]; cbn [rxm_find]; auto. intros H.
  destruct (N.eqb_spec i id) as [->|N]; [exfalso; apply (H c0); now left|]. apply IH. intros c Hc. apply (H c). now right.
Qed.
Lemma NoDup_map_inv_snd (l : list (N * nat)) i j c : NoDup (map snd l) -> In (i, c) l -> In (j, c) l -> i = j.
Proof.
  induction l as [|[a b] r IH]; cbn [map snd In]; [tauto|]. intros H. inversion H as [|? ? H1 H2]; subst.
  intros [E1|H3] [E2|H4]; try congruence; auto.
  - injection E1 as -> ->. exfalso. apply H1. apply in_map_iff. exists (j, c). auto.
  - injection E2 as -> ->. exfalso. apply H1. apply in_map_iff. exists (i, c). auto.
Qed.

Lemma inv_pop ks s id c tp rest chs' ids' rxm' :
  inv ks s -> io s = 0 -> inflight s = (id, Some c, tp) :: rest ->
  length chs' = length (chans s) -> (forall c', c' <> c -> ch_get chs' c' = ch_get (chans s) c') ->
  ((ch_get chs' c = mkChan CFilled tp true /\ c_rx (cg s c) = true) \/
   (c_rx (ch_get chs' c) = false /\ (forall t x, In (t, x) (tasks s) -> ~ In c (trx x)) /\ (forall i, ~ In (i, c) rxm'))) ->
  (forall i, memN i ids' = true <-> In i (map fst3 rest)) ->
  (forall i c0, In (i, c0) rxm' -> In (i, c0) (rxm s) /\ In (i, Some c0, 3) rest) ->
  NoDup (map fst rxm') -> NoDup (map snd rxm') ->
  inv ks (set_rxm (set_chans (set_ids (set_inflight s rest) ids') chs') rxm').
Proof.
  intros I Hio HI L G CH IDS RX ND1 ND2. pose proof I as [].
  set (s' := set_rxm (set_chans (set_ids (set_inflight s rest) ids') chs') rxm').
  rewrite HI in *. cbn [map fst3 fst txs flat_map snd app] in i_infnd0, i_txnd0.
  inversion i_infnd0 as [|? ? NI1 NI2]; subst. inversion i_txnd0 as [|? ? NT1 NT2]; subst.
  fold (txs rest) in NT1, NT2.
  assert (GG : forall c', c' <> c -> cg s' c' = cg s c') by (intros c' N; unfold cg, s'; sk; auto).
  assert (RC : forall i tp0 c0, In (i, Some c0, tp0) rest -> c0 <> c).
  { intros i tp0 c0 H ->. apply NT1. apply In_txs. eauto. }
  destruct (i_inf0 id (Some c) tp (or_introl eq_refl)) as (Hid & Htp & c_ & Ec & Kc & Oc). injection Ec as <-.
  assert (EI : inflight s' = rest) by reflexivity.
  assert (EC : cg s' c = ch_get chs' c) by reflexivity.
  assert (EO : io s' = io s) by reflexivity.
  constructor; fold s'.
  - unfold s'; sk. congruence.
  - exact i_sorted0.
  - intros c' H. destruct (i_ws0 c' H) as [K O]. rewrite GG; auto. intros ->. rewrite K in Kc. destruct (tp =? 3); discriminate.
  - exact i_wsnd0.
  - exact i_swait0.
  - intros i tx tp0 H. destruct (i_inf0 i tx tp0 (or_intror H)) as (H1 & H2 & c0 & -> & H4 & H5). spl.
    exists c0. rewrite GG; eauto.
  - exact NI2.
  - exact NT2.
  - intros _. exact IDS.
  - intros i c0 H. destruct (RX i c0 H) as [H0 HR]. destruct (i_rxm0 i c0 H0) as (H1 & H2 & H3 & H4 & H5 & H6).
    rewrite GG by eauto. repeat split; auto; try (intros; contradiction).
  - exact ND1.
  - exact ND2.
  - intros Z. contradiction.
  - intros t x H. destruct (i_task0 t x H) as [SO MO]. split.
    + unfold st_ok in *. rewrite ?HI in SO. rewrite ?EI, ?EO. destruct (tst x) as [c1|c1 id1|id1|c1|c1|e| | |e] eqn:ST; auto.
      * destruct SO as (S1 & S2 & S3). rewrite GG; auto. intros ->. rewrite S1 in Kc. destruct (tp =? 3); discriminate.
      * destruct SO as (S1 & S2 & S3 & S4 & S5 & S6). destruct (Nat.eq_dec c1 c) as [->|NE].
        -- destruct (S3 id tp (or_introl eq_refl)) as [<- ->].
           destruct CH as [[CH _]|(_ & CH & _)]; [|exfalso; apply (CH t x H); unfold trx; rewrite ST; now left].
           rewrite EC, CH. cbn [c_rx c_st c_val]. spl.
           split; [intros i tp0 Hi; apply (S3 i tp0); now right|].
           split; [discriminate|]. split; auto. discriminate.
        -- rewrite GG by auto. spl. split; [intros i tp0 Hi; apply (S3 i tp0); now right|].
           split; auto. intros O. destruct (S4 O) as [Z|Z]; auto. injection Z as _ Z _. congruence.
      * destruct SO as (S1 & S2 & S3 & S4 & S5). destruct (Nat.eq_dec c1 c) as [->|NE].
        -- destruct CH as [[CH _]|(_ & CH & _)]; [|exfalso; apply (CH t x H); unfold trx; rewrite ST; now left].
           rewrite EC, CH. cbn [c_rx c_st c_val]. spl.
           split; [discriminate|]. split; [|discriminate]. intros _.
           rewrite S1 in Kc. destruct (N.eqb_spec tp 3); [auto|discriminate].
        -- rewrite GG by auto. spl. split; auto. intros O. destruct (S3 O) as (i & [Z|Z]); eauto.
           injection Z as _ Z _. congruence.
      * destruct SO as (S1 & S2 & S3). rewrite GG; auto. intros ->. rewrite S1 in Kc. destruct (tp =? 3); discriminate.
    + apply sm_ok_mono with ks s; auto. intros c' Hc. apply GG. intros ->.
      rewrite (pend_kind _ _ _ _ MO Hc) in Kc. destruct (tp =? 3); discriminate.
  - exact i_uniq0.
  - intros c' H R. assert (c' <> c). { intros ->. destruct (i_ws0 c H) as [K _]. rewrite K in Kc. destruct (tp =? 3); discriminate. }
    rewrite GG in R by auto. apply i_wtask0; auto.
Qed.

(* PUBREC: the entry is re-queued at the back, waiting for PUBCOMP on a fresh channel kept in the rx map *)
Lemma inv_push_comp ks s id c ids' :
  inv ks s -> io s = 0 -> id <> 0 -> ~ In id (map fst3 (inflight s)) ->
  (forall i, memN i ids' = true <-> i = id \/ In i (map fst3 (inflight s))) ->
  kof ks c = Some KC -> cg s c = open_ch ->
  (forall i tp', ~ In (i, Some c, tp') (inflight s)) ->
  (forall t x, In (t, x) (tasks s) -> ~ In c (trx x)) ->
  (forall i, ~ In (i, c) (rxm s)) -> (forall c0, ~ In (id, c0) (rxm s)) ->
  inv ks (set_rxm (set_ids (set_inflight s (inflight s ++ [(id, Some c, 3)])) ids') (rxm s ++ [(id, c)])).
Proof.
  intros I Hio Hid Hnid IDS Hk Hc Hnt Hnx Hnr Hnk. pose proof I as [].
  constructor; sk; auto.
  - intros i tx tp0 H. apply in_app_or in H as [H|[H|[]]]; [exact (i_inf0 i tx tp0 H)|].
    injection H as <- <- <-. split; auto. split; [lia|]. exists c. split; auto. split; auto.
    change (c_st (cg s c) = COpen). now rewrite Hc.
  - rewrite map_app. cbn [map fst3 fst]. now apply NoDup_snoc.
  - rewrite txs_app. cbn. apply NoDup_snoc; auto. intros H. apply In_txs in H as (i & tp' & H). eapply Hnt; eauto.
  - intros _ i. rewrite IDS, map_app, in_app_iff. cbn [map In fst3 fst]. intuition.
  - intros i c0 H. apply in_app_or in H as [H|[H|[]]].
    + destruct (i_rxm0 i c0 H) as (H1 & H2 & H3 & H4 & H5 & H6). spl. split; auto.
      intros Z. apply in_or_app. left. auto.
    + injection H as <- <-. split; auto. change (c_rx (cg s c) = true /\ c_st (cg s c) <> CFilled /\
        (io s = 0 -> In (id, Some c, 3) (inflight s ++ [(id, Some c, 3)])) /\ (io s <> 0 -> c_st (cg s c) <> COpen) /\
        (forall t x, In (t, x) (tasks s) -> ~ In c (trx x))).
      rewrite Hc. cbn [c_rx c_st]. split; auto. split; [discriminate|]. split; [intros _; apply in_or_app; right; now left|].
      split; [intros; contradiction|auto].
  - rewrite map_app. cbn [map fst]. apply NoDup_snoc; auto. intros H. apply in_map_iff in H as ([i c0] & E & H).
    cbn [fst] in E. subst i. eapply Hnk; eauto.
  - rewrite map_app. cbn [map snd]. apply NoDup_snoc; auto. intros H. apply in_map_iff in H as ([i c0] & E & H).
    cbn [snd] in E. subst c0. eapply Hnr; eauto.
  - intros Z. contradiction.
  - intros t x H. destruct (i_task0 t x H) as [A B]. split; [|exact B].
    apply st_ok_mono with ks s; auto; sk; try tauto.
    intros i c0 tp0 Hc0. rewrite in_app_iff. cbn [In]. split; [|tauto].
    intros [Z|[Z|[]]]; auto. injection Z as <- <- <-. exfalso. apply (Hnx t x H). unfold trx. apply in_or_app. now left.
Qed.

Lemma send_chans s c v : chans (fst (send s c v)) = fst (ch_send (chans s) c v).
Proof. unfold send. destruct (ch_send _ _ _). reflexivity. Qed.
Lemma send_eq s c v : fst (send s c v) = set_chans s (fst (ch_send (chans s) c v)).
Proof. unfold send. destruct (ch_send _ _ _). reflexivity. Qed.

Lemma inv_ack_true ks s k id s1 :
  inv ks s -> io s = 0 -> pkt_ack_inner s k id = (s1, true) -> exists ks', inv ks' s1.
Proof.
  intros I Hio. pose proof I as []. unfold pkt_ack_inner.
  destruct (inflight s) as [|[[i tx] tp] rest] eqn:HI; [discriminate|].
  destruct (i_inf0 i tx tp) as (Hid & Htp & c & -> & Kc & Oc); [rewrite ?HI; now left|].
  destruct (N.eqb_spec i id) as [->|]; [|discriminate]. cbn [negb].
  destruct (N.eqb_spec k tp) as [->|]; [|discriminate]. cbn [negb].
  assert (ND := i_infnd0). rewrite ?HI in ND. cbn [map fst3 fst] in ND. inversion ND as [|? ? NI1 NI2]; subst.
  assert (NT := i_txnd0). rewrite ?HI in NT. cbn [txs flat_map snd fst app] in NT. inversion NT as [|? ? NT1 NT2]; subst.
  fold (txs rest) in NT1, NT2.
  assert (IDS : forall i, memN i (removeN id (ids s)) = true <-> In i (map fst3 rest)).
  { intros i. rewrite memN_In, In_removeN, <- memN_In, (i_ids0 Hio), ?HI. cbn [map fst3 fst In].
    split; [intros [[<-|H] N]; [congruence|auto]|]. intros H. split; auto. intros ->. contradiction. }
  assert (RXS : forall i c0, In (i, c0) (rxm s) -> i <> id -> In (i, Some c0, 3) rest).
  { intros i c0 H N. destruct (i_rxm0 i c0 H) as (_ & _ & _ & H4 & _). specialize (H4 Hio). rewrite ?HI in H4.
    destruct H4 as [E|H4]; auto. injection E as E. congruence. }
  assert (SEND : forall v, 
     (ch_get (fst (ch_send (chans s) c v)) c = mkChan CFilled v true /\ c_rx (cg s c) = true) \/
     (c_rx (ch_get (fst (ch_send (chans s) c v)) c) = false /\ (forall t x, In (t, x) (tasks s) -> ~ In c (trx x)) /\ 
      ch_get (fst (ch_send (chans s) c v)) c = cg s c)).
  { intros v. rewrite ch_send_get, Nat.eqb_refl. cbn [andb]. fold (cg s c). destruct (c_rx (cg s c)) eqn:R; [left; auto|right].
    split; auto. split; auto. intros t x H Hc. destruct (i_task0 t x H) as [A B]. unfold trx in Hc.
    apply in_app_or in Hc as [Hc|Hc].
    - unfold st_ok in A. destruct (tst x); cbn [trx_st In] in Hc; try contradiction; destruct Hc as [<-|[]];
        destruct A as (_ & A & _); congruence.
    - unfold sm_ok, pend_rx in *. destruct (tstream x) as [sm|]; [|contradiction]. destruct B as [_ B].
      destruct (pend sm) as [|m|c' m]; try contradiction. destruct Hc as [<-|[]]. destruct B as (_ & B & _). congruence. }
  assert (SG : forall v c', c' <> c -> ch_get (fst (ch_send (chans s) c v)) c' = ch_get (chans s) c').
  { intros v c' N. rewrite ch_send_get. destruct (Nat.eqb_spec c c'); [congruence|reflexivity]. }
  destruct (N.eqb_spec tp 2) as [->|N2].
  { (* PUBREC *)
    assert (NK : forall c0, ~ In (id, c0) (rxm s)).
    { intros c0 H. destruct (i_rxm0 id c0 H) as (_ & _ & _ & H4 & _). specialize (H4 Hio). rewrite ?HI in H4.
      destruct H4 as [E|H4]; [discriminate|]. apply NI1. apply in_map_iff. exists (id, Some c0, 3). auto. }
    unfold new_chan, rxm_insert, send_opt. rewrite send_eq. sk. rewrite (rxm_find_None_eq id (rxm s)) by auto. sk.
    rewrite rxm_del_notin by auto. intros E. injection E as <-.
    set (chs1 := fst (ch_send (chans s) c 2)).
    set (sP := set_rxm (set_chans (set_ids (set_inflight s rest) (removeN id (ids s))) chs1) (rxm s)).
    assert (IP : inv ks sP).
    { apply (inv_pop ks s id c 2 rest chs1 (removeN id (ids s)) (rxm s) I Hio HI); auto.
      - unfold chs1. apply ch_send_length.
      - intros c' N. apply SG; auto.
      - destruct (SEND 2) as [S|(S1 & S2 & S3)]; [left; exact S|right]. split; auto. split; auto.
        intros i0 H. destruct (i_rxm0 i0 c H) as (K' & _). rewrite Kc in K'. discriminate.
      - intros i0 c0 H. split; auto. apply RXS; auto. intros ->. eapply NK; eauto. }
    set (c' := length (chans s)).
    assert (LP : length (chans sP) = c') by (unfold sP, chs1; sk; apply ch_send_length).
    set (sQ := set_chans sP (chans sP ++ [open_ch])).
    assert (IQ : inv (ks ++ [KC]) sQ) by now apply inv_newchan.
    exists (ks ++ [KC]).
    assert (LK : length ks = c') by (unfold c'; auto).
    apply inv_core with (set_rxm (set_ids (set_inflight sQ (inflight sQ ++ [(id, Some c', 3)])) (ids s)) (rxm sQ ++ [(id, c')])).
    1-8: unfold sQ, sP, chs1, c'; sk; rewrite ?ch_send_length; auto.
    apply inv_push_comp; auto.
    - intros i0. rewrite (i_ids0 Hio), ?HI. cbn [map fst3 fst In]. unfold sQ, sP; sk. intuition.
    - rewrite <- LK. apply kof_new.
    - unfold cg, sQ; sk. rewrite <- LP. apply ch_get_app_new.
    - unfold sQ; sk. eapply (fresh_not_tx ks sP); eauto. lia.
    - unfold sQ; sk. eapply (fresh_not_trx ks sP); eauto. lia.
    - unfold sQ, sP; sk. intros i0 H. destruct (i_rxm0 i0 c' H) as (K' & _). apply kof_range in K'. lia. }
  destruct (N.eqb_spec tp 3) as [->|N3].
  { (* PUBCOMP *)
    sk. destruct (rxm_find id (rxm s)) as [c0|] eqn:RF.
    - apply rxm_find_In in RF.
      assert (c0 = c) as ->.
      { destruct (i_rxm0 id c0 RF) as (_ & _ & _ & H4 & _). specialize (H4 Hio). rewrite ?HI in H4.
        destruct H4 as [E|H4]; [now injection E as <-|]. exfalso. apply NI1. apply in_map_iff. exists (id, Some c0, 3). auto. }
      intros E. injection E as <-. exists ks. apply inv_wake.
      destruct (i_rxm0 id c RF) as (_ & R1 & _ & _ & _ & R2).
      assert (EF : fst (ch_send (ch_drop_rx (chans s) c) c 3) = ch_drop_rx (chans s) c).
      { unfold ch_send. rewrite ch_drop_rx_get, Nat.eqb_refl. cbn [drx c_rx fst]. reflexivity. }
      unfold send_opt, drop_rx. rewrite send_eq. sk. rewrite EF.
      apply inv_core with (set_rxm (set_chans (set_ids (set_inflight s rest) (removeN id (ids s))) (ch_drop_rx (chans s) c)) (rxm_del id (rxm s))).
      1-8: reflexivity.
      apply (inv_pop ks s id c 3 rest (ch_drop_rx (chans s) c) (removeN id (ids s)) (rxm_del id (rxm s)) I Hio HI);
        [apply ch_drop_rx_length| | | exact IDS | | now apply rxm_del_nd_fst | now apply rxm_del_nd_snd].
      + intros c' N. rewrite ch_drop_rx_get. destruct (Nat.eqb_spec c c'); [congruence|reflexivity].
      + right. rewrite ch_drop_rx_get, Nat.eqb_refl. cbn [drx c_rx]. split; auto. split; auto.
        intros i0 H. apply rxm_del_In in H as [H N]. apply N.
        exact (NoDup_map_inv_snd _ _ _ _ i_rxmc0 H RF).
      + intros i0 c0 H. apply rxm_del_In in H as [H N]. split; auto.
    - intros E. injection E as <-. exists ks. apply inv_wake.
      apply inv_core with (set_rxm (set_chans (set_ids (set_inflight s rest) (removeN id (ids s))) (fst (ch_send (chans s) c 3))) (rxm s)).
      1-8: unfold send_opt; rewrite send_eq; reflexivity.
      apply (inv_pop ks s id c 3 rest (fst (ch_send (chans s) c 3)) (removeN id (ids s)) (rxm s) I Hio HI);
        [apply ch_send_length| | | exact IDS | | exact i_rxmk0 | exact i_rxmc0].
      + intros c' N. apply SG; auto.
      + destruct (SEND 3) as [S|(S1 & S2 & S3)]; [left; exact S|right]. split; auto. split; auto.
        intros i0 H. destruct (i_rxm0 i0 c H) as (_ & R & _). fold (cg s c) in S3. rewrite S3 in S1. congruence.
      + intros i0 c0 H. split; auto. apply RXS; auto. intros ->. eapply rxm_find_None; eauto. }
  (* PUBACK / SUBACK / UNSUBACK *)
  sk. intros E. injection E as <-. exists ks. apply inv_wake.
  apply inv_core with (set_rxm (set_chans (set_ids (set_inflight s rest) (removeN id (ids s))) (fst (ch_send (chans s) c tp))) (rxm s)).
  1-8: unfold send_opt; rewrite send_eq; reflexivity.
  apply (inv_pop ks s id c tp rest (fst (ch_send (chans s) c tp)) (removeN id (ids s)) (rxm s) I Hio HI);
    [apply ch_send_length| | | exact IDS | | exact i_rxmk0 | exact i_rxmc0].
  + intros c' N. apply SG; auto.
  + destruct (SEND tp) as [S|(S1 & S2 & S3)]; [left; exact S|right]. split; auto. split; auto.
    intros i0 H. destruct (i_rxm0 i0 c H) as (K' & _). rewrite Kc in K'. destruct (N.eqb_spec tp 3); [contradiction|discriminate].
  + intros i0 c0 H. split; auto. apply RXS; auto. intros ->.
    destruct (i_rxm0 id c0 H) as (_ & _ & _ & H4 & _). specialize (H4 Hio). rewrite ?HI in H4.
    destruct H4 as [E|H4]; [injection E as _ E; congruence|]. apply NI1. apply in_map_iff. exists (id, Some c0, 3). auto.
Qed.

(* the state right before the wake-up of a final acknowledgement (PUBACK, PUBCOMP, SUBACK, UNSUBACK) *)
Definition pre_facts (s s2 : sink) (k id : N) : Prop :=
  exists c rest, inflight s = (id, Some c, k) :: rest /\ inflight s2 = rest /\ tasks s2 = tasks s /\
    cap s2 = cap s /\ wrb s2 = wrb s /\ waiters s2 = waiters s /\ io s2 = io s /\
    (chans s2 = fst (ch_send (chans s) c k) \/ chans s2 = ch_drop_rx (chans s) c).

Lemma inv_ack_pre ks s k id s1 :
  inv ks s -> io s = 0 -> k <> 2 -> pkt_ack_inner s k id = (s1, true) ->
  exists s2, s1 = wake s2 1 /\ pre_facts s s2 k id /\ inv ks s2.
Proof.
  intros I Hio K2. pose proof I as []. unfold pkt_ack_inner.
  destruct (inflight s) as [|[[i tx] tp] rest] eqn:HI; [discriminate|].
  destruct (i_inf0 i tx tp) as (Hid & Htp & c & -> & Kc & Oc); [rewrite ?HI; now left|].
  destruct (N.eqb_spec i id) as [->|]; [|discriminate]. cbn [negb].
  destruct (N.eqb_spec k tp) as [->|]; [|discriminate]. cbn [negb].
  assert (ND := i_infnd0). rewrite ?HI in ND. cbn [map fst3 fst] in ND. inversion ND as [|? ? NI1 NI2]; subst.
  assert (NT := i_txnd0). rewrite ?HI in NT. cbn [txs flat_map snd fst app] in NT. inversion NT as [|? ? NT1 NT2]; subst.
  fold (txs rest) in NT1, NT2.
  assert (IDS : forall i, memN i (removeN id (ids s)) = true <-> In i (map fst3 rest)).
  { intros i. rewrite memN_In, In_removeN, <- memN_In, (i_ids0 Hio), ?HI. cbn [map fst3 fst In].
    split; [intros [[<-|H] N]; [congruence|auto]|]. intros H. split; auto. intros ->. contradiction. }
  assert (RXS : forall i c0, In (i, c0) (rxm s) -> i <> id -> In (i, Some c0, 3) rest).
  { intros i c0 H N. destruct (i_rxm0 i c0 H) as (_ & _ & _ & H4 & _). specialize (H4 Hio). rewrite ?HI in H4.
    destruct H4 as [E|H4]; auto. injection E as E. congruence. }
  assert (SEND : forall v, 
     (ch_get (fst (ch_send (chans s) c v)) c = mkChan CFilled v true /\ c_rx (cg s c) = true) \/
     (c_rx (ch_get (fst (ch_send (chans s) c v)) c) = false /\ (forall t x, In (t, x) (tasks s) -> ~ In c (trx x)) /\ 
      ch_get (fst (ch_send (chans s) c v)) c = cg s c)).
  { intros v. rewrite ch_send_get, Nat.eqb_refl. cbn [andb]. fold (cg s c). destruct (c_rx (cg s c)) eqn:R; [left; auto|right].
    split; auto. split; auto. intros t x H Hc. destruct (i_task0 t x H) as [A B]. unfold trx in Hc.
    apply in_app_or in Hc as [Hc|Hc].
    - unfold st_ok in A. destruct (tst x); cbn [trx_st In] in Hc; try contradiction; destruct Hc as [<-|[]];
        destruct A as (_ & A & _); congruence.
    - unfold sm_ok, pend_rx in *. destruct (tstream x) as [sm|]; [|contradiction]. destruct B as [_ B].
      destruct (pend sm) as [|m|c' m]; try contradiction. destruct Hc as [<-|[]]. destruct B as (_ & B & _). congruence. }
  assert (SG : forall v c', c' <> c -> ch_get (fst (ch_send (chans s) c v)) c' = ch_get (chans s) c').
  { intros v c' N. rewrite ch_send_get. destruct (Nat.eqb_spec c c'); [congruence|reflexivity]. }
  destruct (N.eqb_spec tp 2) as [->|N2]; [contradiction|].
  destruct (N.eqb_spec tp 3) as [->|N3].
  { (* PUBCOMP *)
    sk. destruct (rxm_find id (rxm s)) as [c0|] eqn:RF.
    - apply rxm_find_In in RF.
      assert (c0 = c) as ->.
      { destruct (i_rxm0 id c0 RF) as (_ & _ & _ & H4 & _). specialize (H4 Hio). rewrite ?HI in H4.
        destruct H4 as [E|H4]; [now injection E as <-|]. exfalso. apply NI1. apply in_map_iff. exists (id, Some c0, 3). auto. }
      intros E. injection E as <-. eexists. split; [reflexivity|].
      destruct (i_rxm0 id c RF) as (_ & R1 & _ & _ & _ & R2).
      assert (EF : fst (ch_send (ch_drop_rx (chans s) c) c 3) = ch_drop_rx (chans s) c).
      { unfold ch_send. rewrite ch_drop_rx_get, Nat.eqb_refl. cbn [drx c_rx fst]. reflexivity. }
      unfold send_opt, drop_rx. rewrite send_eq. sk. rewrite EF.
      split; [exists c, rest; sk; repeat split; auto|].
      apply inv_core with (set_rxm (set_chans (set_ids (set_inflight s rest) (removeN id (ids s))) (ch_drop_rx (chans s) c)) (rxm_del id (rxm s))).
      1-8: reflexivity.
      apply (inv_pop ks s id c 3 rest (ch_drop_rx (chans s) c) (removeN id (ids s)) (rxm_del id (rxm s)) I Hio HI);
        [apply ch_drop_rx_length| | | exact IDS | | now apply rxm_del_nd_fst | now apply rxm_del_nd_snd].
      + intros c' N. rewrite ch_drop_rx_get. destruct (Nat.eqb_spec c c'); [congruence|reflexivity].
      + right. rewrite ch_drop_rx_get, Nat.eqb_refl. cbn [drx c_rx]. split; auto. split; auto.
        intros i0 H. apply rxm_del_In in H as [H N]. apply N.
        exact (NoDup_map_inv_snd _ _ _ _ i_rxmc0 H RF).
      + intros i0 c0 H. apply rxm_del_In in H as [H N]. split; auto.
    - intros E. injection E as <-. eexists. split; [reflexivity|].
      split; [exists c, rest; unfold send_opt; rewrite send_eq; sk; repeat split; auto|].
      apply inv_core with (set_rxm (set_chans (set_ids (set_inflight s rest) (removeN id (ids s))) (fst (ch_send (chans s) c 3))) (rxm s)).
      1-8: unfold send_opt; rewrite send_eq; reflexivity.
      apply (inv_pop ks s id c 3 rest (fst (ch_send (chans s) c 3)) (removeN id (ids s)) (rxm s) I Hio HI);
        [apply ch_send_length| | | exact IDS | | exact i_rxmk0 | exact i_rxmc0].
      + intros c' N. apply SG; auto.
      + destruct (SEND 3) as [S|(S1 & S2 & S3)]; [left; exact S|right]. split; auto. split; auto.
        intros i0 H. destruct (i_rxm0 i0 c H) as (_ & R & _). fold (cg s c) in S3. rewrite S3 in S1. congruence.
      + intros i0 c0 H. split; auto. apply RXS; auto. intros ->. eapply rxm_find_None; eauto. }
  (* PUBACK / SUBACK / UNSUBACK *)
  sk. intros E. injection E as <-. eexists. split; [reflexivity|].
  split; [exists c, rest; unfold send_opt; rewrite send_eq; sk; repeat split; auto|].
  apply inv_core with (set_rxm (set_chans (set_ids (set_inflight s rest) (removeN id (ids s))) (fst (ch_send (chans s) c tp))) (rxm s)).
  1-8: unfold send_opt; rewrite send_eq; reflexivity.
  apply (inv_pop ks s id c tp rest (fst (ch_send (chans s) c tp)) (removeN id (ids s)) (rxm s) I Hio HI);
    [apply ch_send_length| | | exact IDS | | exact i_rxmk0 | exact i_rxmc0].
  + intros c' N. apply SG; auto.
  + destruct (SEND tp) as [S|(S1 & S2 & S3)]; [left; exact S|right]. split; auto. split; auto.
    intros i0 H. destruct (i_rxm0 i0 c H) as (K' & _). rewrite Kc in K'. destruct (N.eqb_spec tp 3); [contradiction|discriminate].
  + intros i0 c0 H. split; auto. apply RXS; auto. intros ->.
    destruct (i_rxm0 id c0 H) as (_ & _ & _ & H4 & _). specialize (H4 Hio). rewrite ?HI in H4.
    destruct H4 as [E|H4]; [injection E as _ E; congruence|]. apply NI1. apply in_map_iff. exists (id, Some c0, 3). auto.
Qed.

Lemma inv_ack_false ks s k id s1 r :
  inv ks s -> pkt_ack_inner s k id = (s1, false) -> inv ks (do_close s1 r).
Proof.
  intros I. pose proof I as []. unfold pkt_ack_inner.
  destruct (inflight s) as [|[[i tx] tp] rest] eqn:HI.
  { intros E. injection E as <-. now apply inv_close. }
  assert (M : s1 = drop_tx_opt (set_inflight s rest) tx -> inv ks (do_close s1 r)).
  { intros ->. destruct (do_close_spec (drop_tx_opt (set_inflight s rest) tx) r) as (s2 & -> & C).
    pose proof (closing_io _ _ C) as Hio2.
    destruct C as (C1&C2&C3&C4&C5&C6&C7&C8&C9&C10&C11&C12&C13&C14&C15).
    rewrite clear_queues_eq.
    apply inv_closed with s (optl tx ++ senders (set_inflight s rest)); sk; auto.
    - rewrite C7. destruct tx; reflexivity.
    - rewrite C11. destruct tx; reflexivity.
    - unfold cleared, senders. rewrite C4, C6, C9, C10. destruct tx as [c|]; unfold drop_tx_opt, drop_tx; sk; reflexivity.
    - intros c Hc. unfold senders in *. sk. rewrite ?HI in Hc. cbn [txs flat_map fst snd] in Hc. fold (txs rest) in Hc.
      rewrite !in_app_iff in *. destruct Hc as [Hc|[Hc|[Hc|Hc]]]; auto. }
  destruct (negb (i =? id)); [intros E; injection E as <-; auto|].
  destruct (negb (k =? tp)); [intros E; injection E as <-; auto|].
  destruct (k =? 2); [destruct (new_chan _); discriminate|].
  destruct (k =? 3); discriminate.
Qed.

Lemma inv_ack_one s k id : sink_inv s -> sink_inv (ack_one s k id).
Proof.
  intros [ks I]. unfold ack_one.
  destruct (N.eqb_spec (io s) 0) as [Hio|]; cbn [negb]; [|now exists ks].
  destruct ((k =? 0) || (5 <? k)); [now exists ks|].
  destruct (id =? 0); [exists ks; now apply inv_close|].
  destruct (((k =? 4) || (k =? 5)) && negb (client s)); [now exists ks|].
  unfold pkt_ack. destruct (pkt_ack_inner s k id) as [s1 [|]] eqn:E.
  - eapply inv_ack_true; eauto.
  - exists ks. eapply inv_ack_false; eauto.
Qed.

Lemma inv_ack_list l : forall s, sink_inv s -> sink_inv (ack_list s l).
Proof. induction l as [|[k id] r IH]; intros s I; cbn [ack_list]; auto. apply IH. now apply inv_ack_one. Qed.
Ltac dinv I := pose proof I as [i_len0 i_sorted0 i_ws0 i_wsnd0 i_swait0 i_inf0 i_infnd0 i_txnd0 i_ids0 i_rxm0 i_rxmk0 i_rxmc0
                                 i_closed0 i_task0 i_uniq0 i_wtask0].


(* ---------------------------------------------------------------- set_cap, back-pressure, id counter *)
Lemma inv_set_cap s n : sink_inv s -> sink_inv (do_set_cap s n).
Proof. intros [ks I]. exists ks. unfold do_set_cap. apply inv_core with (wake s n); auto. now apply inv_wake. Qed.

Lemma inv_set_idx s n : sink_inv s -> sink_inv (set_idx s n).
Proof. intros [ks I]. exists ks. apply inv_core with s; auto. Qed.

Lemma trx_st_kind ks s x c : st_ok ks s x -> In c (trx_st (tst x)) ->
  exists k, kof ks c = Some k /\ k <> KS /\ k <> KB.
Proof.
  unfold st_ok. intros H Hc.
  destruct (tst x); cbn [trx_st In] in Hc; try contradiction; destruct Hc as [<-|[]];
    destruct H as (H & _); eexists; (split; [exact H|split; discriminate]).
Qed.

Lemma inv_swait_send ks s c : inv ks s -> swait s = Some c -> inv ks (set_swait (fst (send s c 0)) None).
Proof.
  intros I SW. dinv I. rewrite send_eq.
  set (s' := set_swait (set_chans s (fst (ch_send (chans s) c 0))) None).
  assert (Kc := i_swait0 c SW).
  assert (G : forall c', cg s' c' = if Nat.eqb c c' && c_rx (cg s c) then mkChan CFilled 0 true else cg s c').
  { intros c'. unfold cg, s'; sk. apply ch_send_get. }
  assert (GN : forall c' k, kof ks c' = Some k -> k <> KB -> cg s' c' = cg s c').
  { intros c' k K N. rewrite G. destruct (Nat.eqb_spec c c') as [->|]; [congruence|reflexivity]. }
  constructor; fold s'.
  - unfold s'; sk. now rewrite ch_send_length.
  - exact i_sorted0.
  - intros c' H. destruct (i_ws0 c' H) as [K O]. rewrite (GN c' KW); auto. discriminate.
  - exact i_wsnd0.
  - intros c' H. discriminate.
  - intros i tx tp H. destruct (i_inf0 i tx tp H) as (H1 & H2 & c' & -> & H4 & H5). spl. exists c'.
    rewrite (GN c' _ H4); auto. destruct (tp =? 3); discriminate.
  - exact i_infnd0.
  - exact i_txnd0.
  - exact i_ids0.
  - intros i c' H. destruct (i_rxm0 i c' H) as (H1 & H2 & H3 & H4 & H5 & H6). rewrite (GN c' KC); auto. discriminate.
  - exact i_rxmk0.
  - exact i_rxmc0.
  - intros Z. destruct (i_closed0 Z) as (C1 & C2 & C3). congruence.
  - intros t x H. destruct (i_task0 t x H) as [SO MO]. split.
    + apply st_ok_mono with ks s; auto; try tauto. intros c' Hc.
      destruct (trx_st_kind ks s x c' SO Hc) as (k & K1 & K2 & K3). eapply GN; eauto.
    + unfold sm_ok in *. destruct (tstream x) as [sm|]; auto. destruct MO as [M1 M2]. split; auto.
      destruct (pend sm) as [|m|c' m]; auto. destruct M2 as (M2 & M3 & M4). spl.
      rewrite G. destruct (Nat.eqb_spec c c') as [->|NE]; cbn [andb].
      * rewrite M3. cbn [c_rx c_st]. split; auto. discriminate.
      * split; auto. intros O. specialize (M4 O). congruence.
  - exact i_uniq0.
  - intros c' H R. destruct (i_ws0 c' H) as [K O]. rewrite (GN c' KW) in R; auto. discriminate.
Qed.

Lemma inv_wrb s on : sink_inv s -> sink_inv (do_wrb s on).
Proof.
  intros [ks I]. exists ks. unfold do_wrb. destruct on; [apply inv_core with s; auto|].
  set (s1 := set_wrb s false).
  assert (I1 : inv ks s1) by (apply inv_core with s; auto).
  assert (I2 : inv ks match swait s1 with Some c => set_swait (fst (send s1 c 0)) None | None => s1 end).
  { destruct (swait s1) as [c|] eqn:E; auto. now apply inv_swait_send. }
  destruct (_ <? _); auto. now apply inv_wake.
Qed.

(* ---------------------------------------------------------------- release / drop of a QoS 2 receipt *)
Lemma inv_rxm_del ks s id : inv ks s -> inv ks (set_rxm s (rxm_del id (rxm s))).
Proof.
  intros I. dinv I. constructor; sk; auto.
  - intros i c H. apply rxm_del_In in H as [H _]. exact (i_rxm0 i c H).
  - now apply rxm_del_nd_fst.
  - now apply rxm_del_nd_snd.
Qed.

Lemma enc_packet_core s tag id : forall s2 ok, enc_packet s tag id = (s2, ok) ->
  inflight s2 = inflight s /\ ids s2 = ids s /\ waiters s2 = waiters s /\ rxm s2 = rxm s /\
  swait s2 = swait s /\ io s2 = io s /\ chans s2 = chans s /\ tasks s2 = tasks s.
Proof.
  unfold enc_packet, add_wire. intros s2 ok. destruct (io s =? 0); [destruct (negb _)|]; intros E; injection E as <- <-; sk; repeat split.
Qed.

Lemma inv_release s t : sink_inv s -> sink_inv (release_task s t).
Proof.
  intros [ks I]. unfold release_task. destruct (find_task t (tasks s)) as [x|] eqn:F; [|now exists ks].
  dinv I.
  assert (H : In (t, x) (tasks s)) by (apply find_task_In; auto).
  destruct (i_task0 t x H) as [SO MO].
  destruct (tst x) as [c|c id|id|c|c|e| | |e] eqn:ST; try (now exists ks).
  unfold release_publish. destruct (rxm_find id (rxm s)) as [c|] eqn:RF.
  2:{ exists ks. apply inv_task_shrink; auto. right. rewrite ST. repeat split; auto. discriminate. }
  apply rxm_find_In in RF. destruct (i_rxm0 id c RF) as (R1 & R2 & R3 & R4 & R5 & R6).
  set (s1 := set_rxm s (rxm_del id (rxm s))).
  destruct (enc_packet s1 W_PUBREL id) as [s2 ok] eqn:EP.
  destruct (enc_packet_core _ _ _ _ _ EP) as (E1 & E2 & E3 & E4 & E5 & E6 & E7 & E8).
  assert (I2 : inv ks s2) by (apply inv_core with s1; auto; now apply inv_rxm_del).
  assert (NR : forall i, ~ In (i, c) (rxm s2)).
  { intros i Hi. rewrite E4 in Hi. unfold s1 in Hi; sk in Hi. apply rxm_del_In in Hi as [Hi N]. apply N.
    exact (NoDup_map_inv_snd _ _ _ _ i_rxmc0 Hi RF). }
  assert (UC : unref s2 t c).
  { split; auto. intros t2 x2 H2 _. rewrite E8 in H2. eapply R6; eauto. }
  assert (H2 : In (t, x) (tasks s2)) by (rewrite E8; exact H).
  assert (UP : forall st' c', trx_st st' = [] -> In c' (trx (with_tst x st')) -> unref s2 t c').
  { intros st' c' Z Hc. rewrite trx_with_tst, Z in Hc. eapply own_unref; eauto. unfold trx. apply in_or_app. now right. }
  assert (OO : forall x', tst x' <> TParked 0 -> forall xo c', In (t, xo) (tasks s2) -> twait (tst xo) = Some c' -> twait (tst x') <> Some c' ->
                   In c' (waiters s2) -> c' = c \/ c_rx (cg s2 c') = false).
  { intros x' _ xo c' Ho T. assert (xo = x) as -> by (apply (sorted_fun (tasks s2) t xo x (i_sorted _ _ I2) Ho H2)). rewrite ST in T. discriminate. }
  assert (MO2 : sm_ok ks s2 x) by (apply (i_task _ _ I2 t x H2)).
  destruct ok.
  - assert (CG : cg s2 c = cg s c) by (unfold cg; now rewrite E7).
    assert (SOK : st_ok ks s2 (with_tst x (TAwaitComp c))).
    { unfold st_ok. cbn [with_tst tst]. rewrite CG, E6, E1. spl. unfold s1; sk. split.
      - intros O. exists id. apply R4. destruct (N.eq_dec (io s) 0); auto. exfalso. now apply R5.
      - split; [intros Z; contradiction|]. intros D Z. specialize (R4 Z).
        destruct (i_inf0 _ _ _ R4) as (_ & _ & c' & Ec & _ & Oc). injection Ec as <-. congruence. }
    assert (FIN : forall e, sink_inv (set_tasks s2 (put_task t (with_tst x (TDone e)) (tasks s2)))).
    { intros e. exists ks. apply inv_task_shrink; auto. right. rewrite ST. repeat split; auto. discriminate. }
    destruct (poll s2 c); auto.
    exists ks. apply inv_task; auto.
    + intros c' Hc. rewrite trx_with_tst in Hc. cbn [trx_st app In] in Hc. destruct Hc as [<-|Hc]; auto.
      eapply own_unref; eauto. unfold trx. apply in_or_app. now right.
    + intros xo c' Ho T. assert (xo = x) as -> by (apply (sorted_fun (tasks s2) t xo x (i_sorted _ _ I2) Ho H2)). rewrite ST in T. discriminate.
  - exists ks. change (tasks (drop_rx s2 c)) with (tasks s2). apply inv_drop_rx_task; auto.
    + rewrite trx_with_tst. cbn [trx_st app]. intros Hc. apply (R6 t x H). unfold trx. apply in_or_app. now right.
    + exact Logic.I.
    + intros c'. apply UP. reflexivity.
    + apply (OO (with_tst x (TDone ST_ENCODE))). discriminate.
Qed.

Lemma inv_drop_receipt s t : sink_inv s -> sink_inv (drop_receipt s t).
Proof.
  intros [ks I]. unfold drop_receipt. destruct (find_task t (tasks s)) as [x|] eqn:F; [|now exists ks].
  dinv I.
  assert (H : In (t, x) (tasks s)) by (apply find_task_In; auto).
  destruct (i_task0 t x H) as [SO MO].
  destruct (tst x) as [c|c id|id|c|c|e| | |e] eqn:ST; try (now exists ks).
  unfold release_publish. destruct (rxm_find id (rxm s)) as [c|] eqn:RF.
  2:{ exists ks. apply inv_task_shrink; auto. right. rewrite ST. repeat split; auto. discriminate. }
  apply rxm_find_In in RF. destruct (i_rxm0 id c RF) as (R1 & R2 & R3 & R4 & R5 & R6).
  set (s1 := set_rxm s (rxm_del id (rxm s))).
  destruct (enc_packet s1 W_PUBREL id) as [s2 ok] eqn:EP.
  destruct (enc_packet_core _ _ _ _ _ EP) as (E1 & E2 & E3 & E4 & E5 & E6 & E7 & E8).
  assert (I2 : inv ks s2) by (apply inv_core with s1; auto; now apply inv_rxm_del).
  assert (NR : forall i, ~ In (i, c) (rxm s2)).
  { intros i Hi. rewrite E4 in Hi. unfold s1 in Hi; sk in Hi. apply rxm_del_In in Hi as [Hi N]. apply N.
    exact (NoDup_map_inv_snd _ _ _ _ i_rxmc0 Hi RF). }
  assert (UC : unref s2 t c).
  { split; auto. intros t2 x2 H2 _. rewrite E8 in H2. eapply R6; eauto. }
  assert (H2 : In (t, x) (tasks s2)) by (rewrite E8; exact H).
  assert (MO2 : sm_ok ks s2 x) by (apply (i_task _ _ I2 t x H2)).
  exists ks. change (tasks (drop_rx s2 c)) with (tasks s2). apply inv_drop_rx_task; auto.
  - rewrite trx_with_tst. cbn [trx_st app]. intros Hc. apply (R6 t x H). unfold trx. apply in_or_app. now right.
  - exact Logic.I.
  - intros c' Hc. rewrite trx_with_tst in Hc. cbn [trx_st app] in Hc. eapply own_unref; eauto. unfold trx. apply in_or_app. now right.
  - intros xo c' Ho T. assert (xo = x) as -> by (apply (sorted_fun (tasks s2) t xo x (i_sorted _ _ I2) Ho H2)).
    rewrite ST in T. discriminate.
Qed.

(* ---------------------------------------------------------------- streamed payload *)
Definition spend_rx (p : spend) : list nat := match p with SWaitWrb c _ => [c] | _ => [] end.

(* replacing the stream record of a task; its pending chunk future keeps, loses, or newly gets a back-pressure waiter *)
Lemma inv_task_stream ks s t x sm sm1 :
  inv ks s -> In (t, x) (tasks s) -> tstream x = Some sm -> sg sm1 = sg sm ->
  (pend sm1 = pend sm \/ spend_rx (pend sm1) = [] \/
   exists c m, pend sm1 = SWaitWrb c m /\ kof ks c = Some KB /\ c_rx (cg s c) = true /\
               (c_st (cg s c) = COpen -> swait s = Some c) /\ unref s t c) ->
  inv ks (set_tasks s (put_task t (with_stream x sm1) (tasks s))).
Proof.
  intros I H TS SG P. dinv I. destruct (i_task0 t x H) as [SO MO].
  apply inv_task; auto.
  - unfold sm_ok in *. cbn [with_stream tstream]. rewrite TS in MO. destruct MO as [M1 M2]. rewrite SG. split; auto.
    destruct P as [-> | [P | (c & m & -> & P1 & P2 & P3 & _)]]; auto.
    destruct (pend sm1); auto. discriminate.
  - intros c Hc. unfold trx in Hc. cbn [with_stream tst] in Hc. apply in_app_or in Hc as [Hc|Hc].
    + eapply own_unref; eauto. unfold trx. apply in_or_app. now left.
    + unfold pend_rx in Hc. cbn [with_stream tstream] in Hc.
      destruct P as [P | [P | (c' & m & P & _ & _ & _ & U)]].
      * eapply own_unref; eauto. unfold trx, pend_rx. rewrite TS, <- P. apply in_or_app. now right.
      * unfold spend_rx in P. destruct (pend sm1); try contradiction. discriminate.
      * rewrite P in Hc. destruct Hc as [<-|[]]. exact U.
  - intros xo c Ho T N. assert (xo = x) as -> by (eapply sorted_fun; eauto). cbn [with_stream tst] in N. contradiction.
Qed.

Lemma inv_drop_rx_KS ks s c : inv ks s -> kof ks c = Some KS -> inv ks (drop_rx s c).
Proof.
  intros I K. apply inv_sig with s; auto. unfold drop_rx; sk. split; [apply ch_drop_rx_length|].
  intros c' k K' N. rewrite ch_drop_rx_get. destruct (Nat.eqb_spec c c') as [->|]; [congruence|reflexivity].
Qed.

(* encode_publish_payload: only the streaming counters and the wire change, or the connection is force-closed *)
Definition core_eq (s s' : sink) : Prop :=
  inflight s' = inflight s /\ ids s' = ids s /\ waiters s' = waiters s /\ rxm s' = rxm s /\
  swait s' = swait s /\ io s' = io s /\ chans s' = chans s /\ tasks s' = tasks s.

Lemma inv_core_eq ks s s' : core_eq s s' -> inv ks s -> inv ks s'.
Proof. intros (E1&E2&E3&E4&E5&E6&E7&E8). now apply inv_core. Qed.

Lemma epp_cases s n :
  fst (fst (encode_publish_payload s n)) = do_force_close s \/ core_eq s (fst (fst (encode_publish_payload s n))).
Proof.
  unfold encode_publish_payload. destruct (srem s =? 0); [right; repeat split|].
  destruct (srem s <? n); [left; reflexivity|]. right.
  unfold enc_chunk, add_wire. destruct (io s =? 0).
  - destruct (crem s =? 0); [repeat split|]. destruct (crem s <? n); [repeat split|].
    destruct (n =? 0); repeat split.
  - repeat split.
Qed.

Lemma epp_inv ks s n : inv ks s -> inv ks (fst (fst (encode_publish_payload s n))) /\
  tasks (fst (fst (encode_publish_payload s n))) = tasks s.
Proof.
  intros I. destruct (epp_cases s n) as [-> | C].
  - split; [now apply inv_force_close|]. unfold do_force_close. rewrite clear_queues_eq. reflexivity.
  - split; [eapply inv_core_eq; eauto|apply C].
Qed.

Lemma drop_tx_opt_eq s o : drop_tx_opt s o = set_chans s (match o with Some c0 => ch_drop_tx (chans s) c0 | None => chans s end).
Proof. unfold drop_tx_opt, drop_tx. destruct o; [reflexivity|]. ds s. reflexivity. Qed.

Lemma inv_swait_replace ks s c :
  inv ks s -> io s = 0 -> kof ks c = Some KB -> inv ks (set_swait (drop_tx_opt s (swait s)) (Some c)).
Proof.
  intros I Hio Kc. dinv I. rewrite drop_tx_opt_eq.
  set (chs' := match swait s with Some c0 => ch_drop_tx (chans s) c0 | None => chans s end).
  set (s' := set_swait (set_chans s chs') (Some c)).
  assert (L : length chs' = length (chans s)) by (unfold chs'; destruct (swait s); auto using ch_drop_tx_length).
  assert (G : forall c', cg s' c' = cg s c' \/ (swait s = Some c' /\ cg s' c' = dtx (cg s c'))).
  { intros c'. unfold cg, s', chs'; sk. destruct (swait s) as [c0|]; auto. rewrite ch_drop_tx_get.
    destruct (Nat.eqb_spec c0 c') as [->|]; auto. }
  assert (GN : forall c' k, kof ks c' = Some k -> k <> KB -> cg s' c' = cg s c').
  { intros c' k K N. destruct (G c') as [E|[E _]]; auto. rewrite (i_swait0 c' E) in K. congruence. }
  assert (GR : forall c', c_rx (cg s' c') = c_rx (cg s c')).
  { intros c'. destruct (G c') as [->|[_ ->]]; auto. unfold dtx. destruct (c_st _); reflexivity. }
  constructor; fold s'.
  - unfold s'; sk. congruence.
  - exact i_sorted0.
  - intros c' H. destruct (i_ws0 c' H) as [K O]. rewrite (GN c' KW); auto. discriminate.
  - exact i_wsnd0.
  - intros c' H. unfold s' in H; sk in H. injection H as <-. exact Kc.
  - intros i tx tp H. destruct (i_inf0 i tx tp H) as (H1 & H2 & c' & -> & H4 & H5). spl. exists c'.
    rewrite (GN c' _ H4); auto. destruct (tp =? 3); discriminate.
  - exact i_infnd0.
  - exact i_txnd0.
  - exact i_ids0.
  - intros i c' H. destruct (i_rxm0 i c' H) as (H1 & H2 & H3 & H4 & H5 & H6). rewrite (GN c' KC); auto. discriminate.
  - exact i_rxmk0.
  - exact i_rxmc0.
  - intros Z. contradiction.
  - intros t x H. destruct (i_task0 t x H) as [SO MO]. split.
    + apply st_ok_mono with ks s; auto; try tauto.
      intros c' Hc. destruct (trx_st_kind ks s x c' SO Hc) as (k & K1 & K2 & K3). eapply GN; eauto.
    + unfold sm_ok in *. destruct (tstream x) as [sm|]; auto. destruct MO as [M1 M2]. split; auto.
      destruct (pend sm) as [|m|c' m]; auto. destruct M2 as (M2 & M3 & M4). rewrite GR. spl.
      intros O. destruct (G c') as [E|[E1 E2]].
      * rewrite E in O. specialize (M4 O). exfalso.
        unfold cg, s', chs' in E; sk in E. rewrite M4, ch_drop_tx_get, Nat.eqb_refl in E.
        fold (cg s c') in E. rewrite <- E in O. unfold dtx in O. destruct (c_st (cg s c')) eqn:E'; cbn [c_st] in O; rewrite ?E' in O; discriminate.
      * rewrite E2 in O. unfold dtx in O. destruct (c_st (cg s c')) eqn:E'; cbn [c_st] in O; rewrite ?E' in O; discriminate.
  - exact i_uniq0.
  - intros c' H R. destruct (i_ws0 c' H) as [K O]. rewrite (GN c' KW) in R; auto. discriminate.
Qed.

(* the invariant of [f (set_tasks s l)] gives the one of [set_tasks (f s) l] whenever [f] ignores the task table *)
Lemma inv_chunk_payload ks s t x sm sm0 srx n :
  inv ks s -> In (t, x) (tasks s) -> tstream x = Some sm -> sg sm0 = sg sm ->
  let r := chunk_payload s sm0 srx n in
  inv ks (set_tasks (fst r) (put_task t (with_stream x (snd r)) (tasks (fst r)))).
Proof.
  intros I H TS SG. unfold chunk_payload.
  destruct (encode_publish_payload s n) as [[s1 st] more] eqn:E. cbn [fst snd].
  destruct (epp_inv ks s n I) as [I1 T1]. rewrite E in I1, T1. cbn [fst] in I1, T1.
  eapply inv_task_stream with (sm := sm); [exact I1 | rewrite T1; exact H | exact TS | exact SG | right; left; reflexivity].
Qed.

Lemma inv_chunk_inprocess ks s t x sm sm0 srx inp n :
  inv ks s -> settled s -> In (t, x) (tasks s) -> tstream x = Some sm -> sg sm0 = sg sm ->
  let r := chunk_inprocess s sm0 srx inp n in
  exists ks', inv ks' (set_tasks (fst r) (put_task t (with_stream x (snd r)) (tasks (fst r)))).
Proof.
  intros I ST H TS SG. unfold chunk_inprocess.
  assert (P : forall sm1, sg sm1 = sg sm -> spend_rx (pend sm1) = [] ->
     exists ks', inv ks' (set_tasks s (put_task t (with_stream x sm1) (tasks s)))).
  { intros sm1 S1 P1. exists ks. eapply inv_task_stream with (sm := sm); eauto. }
  destruct inp; [|apply P; auto].
  unfold is_closed. destruct (N.eqb_spec (io s) 2) as [Ec|Ec]; [apply P; auto|].
  destruct (wrb s); [|exists ks; now apply inv_chunk_payload with sm].
  unfold new_chan. sk. cbn [fst snd].
  assert (Hio : io s = 0) by now apply settled_io0.
  set (c := length (chans s)).
  set (sA := set_chans s (chans s ++ [open_ch])).
  assert (IA : inv (ks ++ [KB]) sA) by now apply inv_newchan.
  dinv I.
  assert (KC0 : kof (ks ++ [KB]) c = Some KB) by (unfold c; rewrite <- i_len0; apply kof_new).
  assert (IB : inv (ks ++ [KB]) (set_swait (drop_tx_opt sA (swait sA)) (Some c))) by (apply inv_swait_replace; auto).
  exists (ks ++ [KB]).
  set (sB := set_swait (drop_tx_opt sA (swait sA)) (Some c)) in *.
  assert (TB : tasks sB = tasks s) by (unfold sB; rewrite drop_tx_opt_eq; reflexivity).
  change (inv (ks ++ [KB]) (set_tasks sB (put_task t (with_stream x (sm_set sm0 srx true (SWaitWrb c n) ST_PENDING)) (tasks sB)))).
  assert (CB : cg sB c = open_ch).
  { unfold cg, sB. rewrite drop_tx_opt_eq. unfold sA; sk. destruct (swait s) as [c0|] eqn:E.
    - rewrite ch_drop_tx_get. destruct (Nat.eqb_spec c0 c) as [->|]; [|apply ch_get_app_new].
      pose proof (i_swait0 c eq_refl) as E'. apply kof_range in E'. unfold c in E'. lia.
    - apply ch_get_app_new. }
  eapply inv_task_stream with (sm := sm); eauto; [rewrite TB; exact H|].
  right. right. exists c, n. split; [reflexivity|]. split; auto. rewrite CB. cbn [c_rx c_st]. repeat split; auto.
  - intros t2 x2 H2 _ Hc. rewrite TB in H2. eapply (fresh_not_trx ks s c); eauto. unfold c. lia.
  - intros i Hi. assert (Hi' : In (i, c) (rxm s)) by (unfold sB in Hi; rewrite drop_tx_opt_eq in Hi; exact Hi).
    destruct (i_rxm0 i c Hi') as (K & _). apply kof_range in K. unfold c in K. lia.
Qed.

Lemma inv_chunk_signal ks s t x sm n :
  inv ks s -> settled s -> In (t, x) (tasks s) -> tstream x = Some sm ->
  let r := chunk_signal s sm n in
  exists ks', inv ks' (set_tasks (fst r) (put_task t (with_stream x (snd r)) (tasks (fst r)))).
Proof.
  intros I ST H TS. unfold chunk_signal.
  destruct (poll s (sg sm)).
  - exists ks. eapply inv_task_stream with (sm := sm); eauto.
  - eapply inv_chunk_inprocess; eauto.
  - exists ks. eapply inv_task_stream with (sm := sm); eauto.
Qed.

Lemma inv_chunk s t n : sink_inv s -> settled s -> sink_inv (chunk_task s t n).
Proof.
  intros [ks I] ST. unfold chunk_task. destruct (find_task t (tasks s)) as [x|] eqn:F; [|now exists ks].
  dinv I. assert (H : In (t, x) (tasks s)) by (apply find_task_In; auto).
  destruct (tstream x) as [sm|] eqn:TS; [|now exists ks].
  destruct (negb (s_alive sm)); [now exists ks|].
  destruct (pend sm) as [|m|c m] eqn:PE.
  - destruct (s_rx sm).
    + destruct (inv_chunk_signal ks s t x sm n I ST H TS) as (ks' & I'). exists ks'.
      destruct (chunk_signal s sm n). exact I'.
    + destruct (inv_chunk_inprocess ks s t x sm sm false (inproc sm) n I ST H TS eq_refl) as (ks' & I'). exists ks'.
      destruct (chunk_inprocess _ _ _ _ _). exact I'.
  - destruct (inv_chunk_signal ks s t x sm m I ST H TS) as (ks' & I'). exists ks'.
    destruct (chunk_signal s sm m). exact I'.
  - destruct (poll s c).
    + exists ks. eapply inv_task_stream with (sm := sm); eauto.
    + exists ks. pose proof (inv_chunk_payload ks s t x sm sm (s_rx sm) m I H TS eq_refl) as I'. cbv zeta in I'.
      destruct (chunk_payload _ _ _ _). exact I'.
    + exists ks. eapply inv_task_stream with (sm := sm); eauto.
Qed.

Lemma pend_not_trx_st ks s x c : st_ok ks s x -> sm_ok ks s x -> In c (pend_rx x) -> ~ In c (trx_st (tst x)).
Proof.
  intros SO MO Hp Hc. destruct (trx_st_kind ks s x c SO Hc) as (k & K1 & _ & K3).
  rewrite (pend_kind ks s x c MO Hp) in K1. congruence.
Qed.

(* dropping the pending chunk future together with the update of the stream record *)
Lemma inv_drop_pending ks s t x sm sm2 :
  inv ks s -> In (t, x) (tasks s) -> tstream x = Some sm -> sg sm2 = sg sm -> pend sm2 = SNone ->
  inv ks (set_tasks (fst (drop_pending s sm)) (put_task t (with_stream x sm2) (tasks s))).
Proof.
  intros I H TS SG P2. dinv I. destruct (i_task0 t x H) as [SO MO].
  assert (KSG : kof ks (sg sm) = Some KS) by (unfold sm_ok in MO; rewrite TS in MO; apply MO).
  assert (IT : inv ks (set_tasks s (put_task t (with_stream x sm2) (tasks s)))).
  { eapply inv_task_stream with (sm := sm); eauto. right. left. now rewrite P2. }
  unfold drop_pending. destruct (pend sm) as [|m|c m] eqn:PE; cbn [fst]; auto.
  - apply inv_core with (drop_rx (set_tasks s (put_task t (with_stream x sm2) (tasks s))) (sg sm)); auto.
    now apply inv_drop_rx_KS.
  - assert (Hp : In c (pend_rx x)) by (unfold pend_rx; rewrite TS, PE; now left).
    apply inv_drop_rx_task; auto.
    + eapply own_unref; eauto. unfold trx. apply in_or_app. now right.
    + unfold trx. cbn [with_stream tst]. unfold pend_rx. cbn [with_stream tstream]. rewrite P2, app_nil_r.
      eapply pend_not_trx_st; eauto.
    + unfold sm_ok. cbn [with_stream tstream]. rewrite SG, P2. auto.
    + intros c' Hc. unfold trx in Hc. cbn [with_stream tst] in Hc. unfold pend_rx in Hc. cbn [with_stream tstream] in Hc.
      rewrite P2, app_nil_r in Hc. eapply own_unref; eauto. unfold trx. apply in_or_app. now left.
    + intros xo c' Ho T N. assert (xo = x) as -> by (eapply sorted_fun; eauto). cbn [with_stream tst] in N. contradiction.
Qed.

Lemma drop_pending_tasks s sm : tasks (fst (drop_pending s sm)) = tasks s.
Proof. unfold drop_pending. destruct (pend sm); reflexivity. Qed.

Lemma inv_drop_chunk s t : sink_inv s -> sink_inv (drop_chunk s t).
Proof.
  intros [ks I]. unfold drop_chunk. destruct (find_task t (tasks s)) as [x|] eqn:F; [|now exists ks].
  dinv I. assert (H : In (t, x) (tasks s)) by (apply find_task_In; auto).
  destruct (tstream x) as [sm|] eqn:TS; [|now exists ks].
  destruct (negb (s_alive sm)); [now exists ks|].
  assert (G : forall sm2, sg sm2 = sg sm -> pend sm2 = SNone -> snd (drop_pending s sm) = sm2 ->
     inv ks (let '(s1, sm1) := drop_pending s sm in set_tasks s1 (put_task t (with_stream x sm1) (tasks s1)))).
  { intros sm2 S2 P2 E. pose proof (inv_drop_pending ks s t x sm sm2 I H TS S2 P2) as I'.
    pose proof (drop_pending_tasks s sm) as T. destruct (drop_pending s sm) as [s1 sm1]. cbn [fst snd] in *. subst sm1.
    now rewrite T. }
  destruct (pend sm) as [|m|c m] eqn:PE; [now exists ks| |]; exists ks.
  - eapply G; [| |unfold drop_pending; rewrite PE; reflexivity]; reflexivity.
  - eapply G; [| |unfold drop_pending; rewrite PE; reflexivity]; reflexivity.
Qed.

Lemma inv_drop_stream s t : sink_inv s -> sink_inv (drop_stream s t).
Proof.
  intros [ks I]. unfold drop_stream. destruct (find_task t (tasks s)) as [x|] eqn:F; [|now exists ks].
  dinv I. assert (H : In (t, x) (tasks s)) by (apply find_task_In; auto).
  destruct (tstream x) as [sm|] eqn:TS; [|now exists ks].
  destruct (negb (s_alive sm)); [now exists ks|].
  destruct (i_task0 t x H) as [SO MO].
  assert (KSG : kof ks (sg sm) = Some KS) by (unfold sm_ok in MO; rewrite TS in MO; apply MO).
  destruct (drop_pending s sm) as [s1 sm1] eqn:DP.
  assert (SG1 : sg sm1 = sg sm).
  { unfold drop_pending in DP. destruct (pend sm); injection DP as <- <-; reflexivity. }
  set (sm2 := mkStream (sg sm1) false (inproc sm1) false SNone ST_DROPPED).
  set (l := put_task t (with_stream x sm2) (tasks s)).
  assert (T1 : tasks s1 = tasks s) by (rewrite <- (drop_pending_tasks s sm), DP; reflexivity).
  assert (I1 : inv ks (set_tasks s1 l)).
  { pose proof (inv_drop_pending ks s t x sm sm2 I H TS SG1 eq_refl) as I'. rewrite DP in I'. exact I'. }
  set (s2 := if s_rx sm1 then drop_rx s1 (sg sm1) else s1).
  assert (I2 : inv ks (set_tasks s2 l)).
  { unfold s2. destruct (s_rx sm1); auto.
    apply inv_core with (drop_rx (set_tasks s1 l) (sg sm1)); auto. apply inv_drop_rx_KS; auto. now rewrite SG1. }
  assert (T2 : tasks s2 = tasks s) by (unfold s2; destruct (s_rx sm1); exact T1).
  exists ks. destruct (inproc sm1 && negb (srem s2 =? 0)).
  - assert (T3 : tasks (do_force_close s2) = tasks s).
    { unfold do_force_close. rewrite clear_queues_eq. exact T2. }
    rewrite T3. fold l.
    apply inv_core with (do_force_close (set_tasks s2 l)); try (unfold do_force_close; rewrite !clear_queues_eq; reflexivity).
    now apply inv_force_close.
  - rewrite T2. exact I2.
Qed.

(* ---------------------------------------------------------------- every operation *)
Lemma settle_settled s : settled s \/ io s = 1 -> settled (settle s).
Proof. unfold settled, settle. intros [[H|H]|H]; rewrite H; cbn; auto. Qed.

Lemma inv_settle s : sink_inv s -> io s <> 0 -> sink_inv (settle s).
Proof.
  intros [ks I] Hio. exists ks. unfold settle. destruct (io s =? 1); auto. dinv I.
  destruct (i_closed0 Hio) as (C1 & C2 & C3).
  apply inv_closed with s []; sk; auto; try discriminate.
  unfold senders. rewrite C1, C2, C3. intros c [].
Qed.

(* the io state only moves forward: open -> closing -> closed *)
Definition iom (s s' : sink) : Prop := io s' = io s \/ (io s' = 1 /\ io s = 0) \/ io s' = 2.

Lemma iom_refl s : iom s s. Proof. now left. Qed.
Lemma iom_eq s s' : io s' = io s -> iom s s'. Proof. now left. Qed.

Lemma send_res_io s x s1 st : send_res s x s1 st -> io s1 = io s.
Proof.
  intros [s1' e N | s1' Hio CW P | s1' id Hio L W P].
  - apply N.
  - unfold parked in P. subst. reflexivity.
  - apply P.
Qed.

Lemma start_io s t k idq size : io (start_task s t k idq size) = io s.
Proof.
  destruct (find_task t (tasks s)) eqn:F; [unfold start_task; now rewrite F|].
  destruct (start_task_spec s t k idq size F) as [ | s1 e K P | e K | s1 K Hio CW P | s0 x s1 st K E0 EX R]; sk; auto.
  - apply P.
  - unfold parked in P. subst. reflexivity.
  - rewrite (send_res_io _ _ _ _ R). subst s0. destruct (k =? 7); reflexivity.
Qed.

Lemma create_io s t k idq size : io (create_task s t k idq size) = io s.
Proof.
  destruct (find_task t (tasks s)) eqn:F; [unfold create_task; now rewrite F|].
  destruct (create_task_spec s t k idq size F) as [ | K | e K | s1 K Hio CW P | K | s0 x s1 st K E0 EX R]; sk; auto.
  - apply start_io.
  - unfold parked in P. subst. reflexivity.
  - rewrite (send_res_io _ _ _ _ R). subst s0. destruct (k =? 7); reflexivity.
Qed.

Lemma poll_io s t : io (poll_task s t) = io s.
Proof.
  destruct (find_task t (tasks s)) as [x|] eqn:F; [|unfold poll_task; now rewrite F].
  destruct (poll_task_spec s t x F) as (s1 & st & R & ->). sk.
  destruct R; auto; try (eapply send_res_io; eauto; fail); match goal with N : nopush _ _ _ |- _ => apply N end.
Qed.

Lemma drop_sig_io s x : io (drop_sig s x) = io s. Proof. apply (drop_sig_nc s x). Qed.

Lemma drop_io s t : io (drop_task s t) = io s.
Proof.
  unfold drop_task. destruct (find_task t (tasks s)) as [x|]; auto.
  destruct (tst x); auto; cbv zeta; sk; auto. now rewrite drop_sig_io.
Qed.

Lemma do_close_iom s r : iom s (do_close s r).
Proof.
  destruct (do_close_spec s r) as (s2 & -> & C). rewrite clear_queues_eq. unfold iom. sk.
  destruct C as (_&_&_&_&_&_&_&_&_&_&_&_&_&E&_). rewrite E.
  destruct (N.eqb_spec (io s) 0); auto.
Qed.

Lemma pkt_ack_inner_io s k id : io (fst (pkt_ack_inner s k id)) = io s.
Proof.
  unfold pkt_ack_inner. destruct (inflight s) as [|[[i tx] tp] rest]; auto.
  assert (D : forall s0, io (drop_tx_opt s0 tx) = io s0) by (intros s0; rewrite drop_tx_opt_eq; reflexivity).
  assert (S : forall s0 v, io (send_opt s0 tx v) = io s0) by (intros s0 v; apply (send_opt_nc s0 tx v)).
  destruct (negb (i =? id)); [cbn [fst]; now rewrite D|].
  destruct (negb (k =? tp)); [cbn [fst]; now rewrite D|].
  destruct (k =? 2).
  { unfold new_chan, rxm_insert. cbn [fst snd]. sk. cbn [fst snd]. destruct (rxm_find _ _); unfold drop_rx; sk; rewrite S; reflexivity. }
  destruct (k =? 3).
  { cbn [fst]. rewrite wake_eq. sk. rewrite S. destruct (rxm_find _ _); unfold drop_rx; reflexivity. }
  cbn [fst]. rewrite wake_eq. sk. now rewrite S.
Qed.

Lemma ack_one_iom s k id : iom s (ack_one s k id).
Proof.
  unfold ack_one. destruct (negb (io s =? 0)); [apply iom_refl|].
  destruct (_ || _); [apply iom_refl|]. destruct (id =? 0); [apply do_close_iom|].
  destruct (_ && _); [apply iom_refl|]. unfold pkt_ack.
  pose proof (pkt_ack_inner_io s k id) as E. destruct (pkt_ack_inner s k id) as [s1 [|]]; cbn [fst] in E.
  - now left.
  - destruct (do_close_iom s1 RC_IMPL) as [H|[[H1 H2]|H]]; unfold iom; rewrite <- E; auto.
Qed.

Lemma iom_trans a b c : iom a b -> iom b c -> iom a c.
Proof. unfold iom. intros [H1|[[H1 H1']|H1]] [H2|[[H2 H2']|H2]]; rewrite ?H2, ?H1 in *; auto; try congruence. Qed.

Lemma ack_list_iom l : forall s, iom s (ack_list s l).
Proof.
  induction l as [|[k id] r IH]; intros s; cbn [ack_list]; [apply iom_refl|].
  eapply iom_trans; [apply ack_one_iom|apply IH].
Qed.

Lemma release_io s t : io (release_task s t) = io s.
Proof.
  unfold release_task. destruct (find_task t (tasks s)) as [x|]; auto.
  destruct (tst x); auto. unfold release_publish. destruct (rxm_find _ _) as [c|]; sk; auto.
  destruct (enc_packet _ _ _) as [s2 ok] eqn:E. destruct (enc_packet_core _ _ _ _ _ E) as (_&_&_&_&_&E6&_).
  destruct ok; [destruct (poll s2 c)|]; sk; auto.
Qed.

Lemma drop_receipt_io s t : io (drop_receipt s t) = io s.
Proof.
  unfold drop_receipt. destruct (find_task t (tasks s)) as [x|]; auto.
  destruct (tst x); auto. unfold release_publish. destruct (rxm_find _ _) as [c|]; sk; auto.
  destruct (enc_packet _ _ _) as [s2 ok] eqn:E. destruct (enc_packet_core _ _ _ _ _ E) as (_&_&_&_&_&E6&_).
  sk. auto.
Qed.

Lemma wrb_io s on : io (do_wrb s on) = io s.
Proof.
  unfold do_wrb. destruct on; auto. 
  assert (E : io (match swait (set_wrb s false) with Some c => set_swait (fst (send (set_wrb s false) c 0)) None | None => set_wrb s false end) = io s).
  { destruct (swait _); auto. rewrite send_eq. reflexivity. }
  destruct (_ <? _); auto. rewrite wake_eq. exact E.
Qed.

Lemma epp_iom s n : iom s (fst (fst (encode_publish_payload s n))).
Proof.
  destruct (epp_cases s n) as [-> | C]; [right; right; unfold do_force_close; rewrite clear_queues_eq; reflexivity|].
  left. apply C.
Qed.

Lemma chunk_payload_iom s sm srx n : iom s (fst (chunk_payload s sm srx n)).
Proof.
  unfold chunk_payload. pose proof (epp_iom s n) as E. destruct (encode_publish_payload s n) as [[s1 st] more]. exact E.
Qed.

Lemma chunk_inprocess_iom s sm srx inp n : iom s (fst (chunk_inprocess s sm srx inp n)).
Proof.
  unfold chunk_inprocess. destruct inp; [|apply iom_refl]. destruct (is_closed s); [apply iom_refl|].
  destruct (wrb s); [|apply chunk_payload_iom]. unfold new_chan. sk. cbn [fst]. left. rewrite drop_tx_opt_eq. reflexivity.
Qed.

Lemma chunk_signal_iom s sm n : iom s (fst (chunk_signal s sm n)).
Proof. unfold chunk_signal. destruct (poll _ _); try apply iom_refl. apply chunk_inprocess_iom. Qed.

Lemma chunk_iom s t n : iom s (chunk_task s t n).
Proof.
  unfold chunk_task. destruct (find_task t (tasks s)) as [x|]; [|apply iom_refl].
  destruct (tstream x) as [sm|]; [|apply iom_refl]. destruct (negb _); [apply iom_refl|].
  assert (G : forall r : sink * stream, iom s (fst r) -> iom s (let '(s1, sm1) := r in set_tasks s1 (put_task t (with_stream x sm1) (tasks s1)))).
  { intros [s1 sm1] H. exact H. }
  apply G. destruct (pend sm) as [|m|c m].
  - destruct (s_rx sm); [apply chunk_signal_iom|apply chunk_inprocess_iom].
  - apply chunk_signal_iom.
  - destruct (poll s c); try apply iom_refl. apply chunk_payload_iom.
Qed.

Lemma drop_pending_io s sm : io (fst (drop_pending s sm)) = io s.
Proof. unfold drop_pending. destruct (pend sm); reflexivity. Qed.

Lemma drop_chunk_io s t : io (drop_chunk s t) = io s.
Proof.
  unfold drop_chunk. destruct (find_task t (tasks s)) as [x|]; auto.
  destruct (tstream x) as [sm|]; auto. destruct (negb _); auto.
  pose proof (drop_pending_io s sm) as E. destruct (pend sm); auto; destruct (drop_pending s sm); exact E.
Qed.

Lemma drop_stream_iom s t : iom s (drop_stream s t).
Proof.
  unfold drop_stream. destruct (find_task t (tasks s)) as [x|]; [|apply iom_refl].
  destruct (tstream x) as [sm|]; [|apply iom_refl]. destruct (negb _); [apply iom_refl|].
  pose proof (drop_pending_io s sm) as E. destruct (drop_pending s sm) as [s1 sm1]. cbn [fst] in E.
  destruct (_ && _).
  - right. right. unfold do_force_close. rewrite clear_queues_eq. reflexivity.
  - left. sk. destruct (s_rx sm1); auto.
Qed.

(* operation 17 (an inbound QoS 1 PUBLISH answered at once): only the wire log changes *)
Lemma in_publish_eq s id : in_publish s id = s \/ in_publish s id = add_wire s [W_IN_PUBACK; id].
Proof. unfold in_publish. destruct (_ && _); auto. Qed.
Lemma in_publish_fields s id :
  let s' := in_publish s id in
  ver s' = ver s /\ client s' = client s /\ cap s' = cap s /\ inflight s' = inflight s /\ ids s' = ids s /\
  waiters s' = waiters s /\ rxm s' = rxm s /\ idx s' = idx s /\ wrb s' = wrb s /\ disc s' = disc s /\
  srem s' = srem s /\ swait s' = swait s /\ io s' = io s /\ crem s' = crem s /\ chans s' = chans s /\
  tasks s' = tasks s.
Proof. cbv zeta. destruct (in_publish_eq s id) as [-> | ->]; unfold add_wire; sk; repeat split. Qed.
Lemma inv_in_publish s id : sink_inv s -> sink_inv (in_publish s id).
Proof.
  intros [ks I]. exists ks. destruct (in_publish_fields s id) as (_&_&_&A&B&C&D&_&_&_&_&E&F&_&G&H).
  apply inv_core with s; auto.
Qed.

Lemma step_iom s o : iom s (sink_step s o).
Proof.
  destruct o; cbn [sink_step]; try apply iom_refl.
  - apply iom_eq, start_io.
  - apply iom_eq, poll_io.
  - apply iom_eq, drop_io.
  - apply ack_list_iom.
  - apply iom_eq, release_io.
  - apply iom_eq, drop_receipt_io.
  - apply iom_eq, wrb_io.
  - apply iom_eq. unfold do_set_cap. rewrite wake_eq. reflexivity.
  - apply do_close_iom.
  - right. right. unfold do_force_close. rewrite clear_queues_eq. reflexivity.
  - apply iom_eq. reflexivity.
  - apply chunk_iom.
  - apply drop_stream_iom.
  - apply iom_eq, drop_chunk_io.
  - apply iom_eq, create_io.
  - apply iom_eq. apply (in_publish_fields s id).
Qed.

Lemma inv_step s o : sink_inv s -> settled s -> sink_inv (sink_step s o).
Proof.
  intros I ST. destruct o; cbn [sink_step]; auto.
  - now apply inv_start.
  - now apply inv_poll.
  - now apply inv_drop.
  - now apply inv_ack_list.
  - now apply inv_release.
  - now apply inv_drop_receipt.
  - now apply inv_wrb.
  - now apply inv_set_cap.
  - destruct I as [ks I]. exists ks. now apply inv_close.
  - destruct I as [ks I]. exists ks. now apply inv_force_close.
  - now apply inv_set_idx.
  - now apply inv_chunk.
  - now apply inv_drop_stream.
  - now apply inv_drop_chunk.
  - now apply inv_create.
  - now apply inv_in_publish.
Qed.

Theorem inv_sink_op s o : sink_inv s -> settled s -> sink_inv (sink_op s o) /\ settled (sink_op s o).
Proof.
  intros [ks I] ST. unfold sink_op.
  set (s0 := set_wire s []).
  assert (I0 : sink_inv s0) by (exists ks; apply inv_core with s; auto).
  assert (ST0 : settled s0) by exact ST.
  pose proof (inv_step s0 o I0 ST0) as I1. pose proof (step_iom s0 o) as M.
  set (s1 := sink_step s0 o) in *.
  assert (S1 : settled s1 \/ io s1 = 1).
  { unfold settled in *. destruct M as [M|[[M _]|M]]; rewrite M; auto. }
  split; [|now apply settle_settled].
  unfold settle. destruct (N.eqb_spec (io s1) 1) as [E|E]; auto.
  assert (E' : io s1 <> 0) by (rewrite E; discriminate).
  pose proof (inv_settle s1 I1 E') as Z. unfold settle in Z. now rewrite E in Z.
Qed.

Theorem inv_run ops : forall s, sink_inv s -> settled s -> sink_inv (run_from s ops) /\ settled (run_from s ops).
Proof.
  induction ops as [|o r IH]; intros s I ST; cbn [run_from fold_left]; auto.
  destruct (inv_sink_op s o I ST) as [I1 S1]. apply IH; auto.
Qed.

Theorem inv_reachable v cl c ops : sink_inv (run_from (sink_init v cl c) ops) /\ settled (run_from (sink_init v cl c) ops).
Proof. apply inv_run; [exists []; apply inv_init|now left]. Qed.

Print Assumptions inv_reachable.
