(* Proofs/InboundLogic.v -- layer 1 of the inbound properties (C03, C11, C12 v5 half, C15, C16, C17):
   the protocol-logic functions of Model/Inbound.v -- [body3]/[body5]/[body3c]/[body5c] (one arm of
   Service<Decoded>::call each, here through [proto_body], the dispatch [body] itself uses),
   [handler_result]/[handler_result_c] (publish_fn), [ctl_result]/[ctl_result_c] with [ack3]/[ack5]
   (Inner::control / control_pkt around the protocol service's answer) -- for ALL states and packets.
   Everything here is about single calls of these functions; Proofs/InboundInv.v lifts what can be
   lifted to all runs of the operational model. *)
From Coq Require Import Lia List NArith Bool.
From MV Require Import Base.Prelude Model.RespQueue Model.Inbound.
Import ListNotations.
Open Scope N_scope.


(* ---- lists *)
Lemma memN_app x l y : memN x (l ++ [y]) = memN x l || (x =? y).
Proof. induction l as [|z l IH]; cbn [memN app]; [now rewrite orb_false_r|]. now rewrite IH, orb_assoc. Qed.
Lemma memN_remN_same x l : memN x (remN x l) = false.
Proof. induction l as [|z l IH]; cbn [memN remN]; auto. destruct (x =? z) eqn:E; auto. cbn [memN]. now rewrite E. Qed.
Lemma memN_remN_other x y l : x <> y -> memN x (remN y l) = memN x l.
Proof.
  intros H. induction l as [|z l IH]; cbn [memN remN]; auto.
  destruct (N.eqb_spec y z) as [->|Hn].
  - rewrite IH. destruct (N.eqb_spec x z); [contradiction|reflexivity].
  - cbn [memN]. now rewrite IH.
Qed.
Lemma memN_remN_sub x y l : memN x (remN y l) = true -> memN x l = true.
Proof. destruct (N.eq_dec x y) as [->|H]; [now rewrite memN_remN_same|now rewrite memN_remN_other]. Qed.
Lemma memN_addN x y l : memN x (addN y l) = memN x l || (x =? y).
Proof.
  unfold addN. destruct (memN y l) eqn:E; [|apply memN_app].
  destruct (N.eqb_spec x y) as [->|H]; [now rewrite E|now rewrite orb_false_r].
Qed.
Lemma assocN_set_same k v l : assocN k (assoc_set k v l) = Some v.
Proof.
  induction l as [|[a b] l IH]; cbn [assoc_set assocN]; [now rewrite N.eqb_refl|].
  destruct (a =? k) eqn:E; cbn [assocN]; now rewrite E.
Qed.
Lemma assocN_set_other k k' v l : k' <> k -> assocN k' (assoc_set k v l) = assocN k' l.
Proof.
  intros H. induction l as [|[a b] l IH]; cbn [assoc_set assocN].
  - destruct (N.eqb_spec k k'); [congruence|reflexivity].
  - destruct (N.eqb_spec a k) as [->|Hn]; cbn [assocN].
    + destruct (N.eqb_spec k k'); [congruence|reflexivity].
    + now rewrite IH.
Qed.
Lemma assocN_snoc k k' v l :
  assocN k' (l ++ [(k, v)]) = match assocN k' l with Some t => Some t | None => if k =? k' then Some v else None end.
Proof. induction l as [|[a b] l IH]; cbn [app assocN]; auto. destruct (a =? k'); auto. Qed.
(* ---- frames of the io helpers *)
Ltac dm := match goal with |- context [match ?x with _ => _ end] =>
  lazymatch x with context [match _ with _ => _ end] => fail | _ => destruct x eqn:? end end;
  cbv beta iota zeta.
Ltac frame := intros; repeat dm; reflexivity.

Definition closedio (s : st) : bool := closing (i_ s) || stopped (i_ s).

Lemma wake_c t s : c_ (wake t s) = c_ s. Proof. unfold wake. frame. Qed.
Lemma wake_p t s : p_ (wake t s) = p_ s. Proof. unfold wake. frame. Qed.
Lemma wake_b t s : b_ (wake t s) = b_ s. Proof. unfold wake. frame. Qed.
Lemma wake_i t s : i_ (wake t s) = i_ s. Proof. unfold wake. frame. Qed.
Lemma wake_l t s : l_ (wake t s) = l_ s. Proof. unfold wake. frame. Qed.
Lemma wake_q t s : q_ (wake t s) = q_ s. Proof. unfold wake. frame. Qed.

Lemma io_encode_closed t id r s : closedio s = true -> io_encode t id r s = s.
Proof. unfold closedio, io_encode. now intros ->. Qed.
Lemma io_encode_wire t id r s :
  wire (i_ (io_encode t id r s)) = if closedio s then wire (i_ s) else wire (i_ s) ++ [t; id; r].
Proof.
  unfold closedio, io_encode. destruct (closing (i_ s) || stopped (i_ s)); auto.
  dm; rewrite ?wake_i; reflexivity.
Qed.
Lemma io_encode_c t id r s : c_ (io_encode t id r s) = c_ s.
Proof. unfold io_encode. repeat dm; rewrite ?wake_c; reflexivity. Qed.
Lemma io_encode_p t id r s : p_ (io_encode t id r s) = p_ s.
Proof. unfold io_encode. repeat dm; rewrite ?wake_p; reflexivity. Qed.
Lemma io_encode_l t id r s : l_ (io_encode t id r s) = l_ s.
Proof. unfold io_encode. repeat dm; rewrite ?wake_l; reflexivity. Qed.
Lemma io_encode_q t id r s : q_ (io_encode t id r s) = q_ s.
Proof. unfold io_encode. repeat dm; rewrite ?wake_q; reflexivity. Qed.
Lemma io_encode_b t id r s : b_ (io_encode t id r s) = b_ s.
Proof. unfold io_encode. repeat dm; rewrite ?wake_b; reflexivity. Qed.
Lemma io_encode_closing t id r s : closing (i_ (io_encode t id r s)) = closing (i_ s).
Proof. unfold io_encode. repeat dm; rewrite ?wake_i; reflexivity. Qed.
Lemma io_encode_stopped t id r s : stopped (i_ (io_encode t id r s)) = stopped (i_ s).
Proof. unfold io_encode. repeat dm; rewrite ?wake_i; reflexivity. Qed.
Lemma io_encode_closedio t id r s : closedio (io_encode t id r s) = closedio s.
Proof. unfold closedio. now rewrite io_encode_closing, io_encode_stopped. Qed.

Lemma io_close_c s : c_ (io_close s) = c_ s.
Proof. unfold io_close. repeat dm; rewrite ?wake_c; reflexivity. Qed.
Lemma io_close_p s : p_ (io_close s) = p_ s.
Proof. unfold io_close. repeat dm; rewrite ?wake_p; reflexivity. Qed.
Lemma io_close_l s : l_ (io_close s) = l_ s.
Proof. unfold io_close. repeat dm; rewrite ?wake_l; reflexivity. Qed.
Lemma io_close_q s : q_ (io_close s) = q_ s.
Proof. unfold io_close. repeat dm; rewrite ?wake_q; reflexivity. Qed.
Lemma io_close_b s : b_ (io_close s) = b_ s.
Proof. unfold io_close. repeat dm; rewrite ?wake_b; reflexivity. Qed.
Lemma io_close_wire s : wire (i_ (io_close s)) = wire (i_ s).
Proof. unfold io_close. repeat dm; rewrite ?wake_i; reflexivity. Qed.
Lemma io_close_stopped s : stopped (i_ (io_close s)) = stopped (i_ s).
Proof. unfold io_close. repeat dm; rewrite ?wake_i; reflexivity. Qed.
Lemma io_close_closedio s : closedio (io_close s) = true.
Proof.
  unfold closedio, io_close. destruct (closing (i_ s) || stopped (i_ s)) eqn:E; auto.
  rewrite wake_i. reflexivity.
Qed.
Lemma io_close_closing_mono s : closing (i_ s) = true -> closing (i_ (io_close s)) = true.
Proof. unfold io_close. intros H. rewrite H. cbn [orb]. exact H. Qed.
(* ---- the protocol-logic entry points *)
Definition proto_body (p : pkt) (s : st) : st * outcome :=
  if is_client s then (if v5 (c_ s) then body5c p s else body3c p s)
  else (if v5 (c_ s) then body5 p s else body3 p s).

Lemma body_proto_body who k p s :
  body who k p s =
  let '(s1, o) := proto_body p s in
  match o with
  | ODone r => (s1, Some r)
  | OHandler q2 qos id topic plen retain =>
    let h := nh (l_ s1) + 1 in
    let s2 := log_handler h qos id topic plen retain s1 in
    match gate_val h (hgate (l_ s2)) with
    | Some res => let '(s3, r) := hres_any q2 id res s2 in (s3, Some r)
    | None => (set_cst k (CHandler h q2 id) s2, None)
    end
  | OCtl m => if is_client s1 then cproto_invoke k m None s1 else ctl_enter 2 who k m None s1
  | OCtlP m qos id topic plen retain => cproto_invoke k m (Some [qos; id; topic; plen; retain]) s1
  end.
Proof. reflexivity. Qed.

Definition reserves (p : pkt) : option N :=
  match p with
  | KPublish qos id _ _ _ _ => if 0 <? qos then Some id else None
  | KSubscribe id _ | KUnsubscribe id _ => Some id
  | _ => None
  end.
Definition delivered (o : outcome) : bool := match o with ODone _ => false | _ => true end.
Definition inuse (id : N) (s : st) : bool := memN id (inflight (p_ s)).

Ltac bodies := unfold proto_body, body3, body5, body3c, body5c, route_pub, proto_err, close3c, test_set_dsent, is_closed.

Lemma inuse_not_delivered p s id :
  reserves p = Some id -> inuse id s = true ->
  delivered (snd (proto_body p s)) = false /\ p_ (fst (proto_body p s)) = p_ s.
Proof.
  unfold inuse. intros Hr Hin. destruct p; cbn [reserves] in Hr; try discriminate.
  - destruct (0 <? qos) eqn:Hq; [|discriminate]. injection Hr as ->.
    bodies. rewrite Hq, Hin. cbn [andb].
    repeat dm; cbn [fst snd delivered]; rewrite ?io_encode_p; try discriminate; auto.
  - injection Hr as ->. bodies. rewrite Hin.
    repeat dm; cbn [fst snd delivered]; rewrite ?io_encode_p; auto.
  - injection Hr as ->. bodies. rewrite Hin.
    repeat dm; cbn [fst snd delivered]; rewrite ?io_encode_p; auto.
Qed.
(* ---- C11: what a refused duplicate is answered with *)
Definition dup_ack_type (p : pkt) : N :=
  match p with
  | KPublish qos _ _ _ _ _ => if qos =? 2 then 80 else 64
  | KSubscribe _ _ => 144
  | KUnsubscribe _ _ => 176
  | _ => 0
  end.

Definition over_quota (s : st) : bool :=
  negb (rmax (c_ s) =? 0) &&
  (rmax (c_ s) <=? N.of_nat (length (if is_client s then inflight (p_ s) else publishes (p_ s)))).

(* the checks the v5 code makes before it looks at the packet identifier *)
Definition pre_ok5 (p : pkt) (s : st) : bool :=
  match p with
  | KPublish qos _ topic _ _ _ =>
    if is_client s then negb (over_quota s)
    else negb (topic =? 4) && negb (over_quota s) && negb (max_qos (c_ s) <? qos)
  | KSubscribe _ f | KUnsubscribe _ f => negb (is_client s) && negb (stopped (i_ s)) && filter_valid f
  | _ => false
  end.

Lemma inuse_v3_violation p s id :
  v5 (c_ s) = false -> reserves p = Some id -> inuse id s = true -> stopped (i_ s) = false ->
  proto_body p s = (s, ODone (RErr (EProto 130))).
Proof.
  unfold inuse. intros Hv Hr Hin Hst. destruct p; cbn [reserves] in Hr; try discriminate.
  - destruct (0 <? qos) eqn:Hq; [|discriminate]. injection Hr as ->.
    bodies. rewrite Hv, Hq, Hin. cbn [andb]. repeat dm; auto.
  - injection Hr as ->. bodies. rewrite Hv, Hin, Hst. repeat dm; auto.
  - injection Hr as ->. bodies. rewrite Hv, Hin, Hst. repeat dm; auto.
Qed.

Lemma inuse_v5_answer p s id :
  v5 (c_ s) = true -> reserves p = Some id -> inuse id s = true -> pre_ok5 p s = true ->
  proto_body p s = (io_encode (dup_ack_type p) id 145 s, ODone RNone).
Proof.
  unfold inuse, pre_ok5, over_quota. intros Hv Hr Hin Hp. destruct p; cbn [reserves] in Hr; try discriminate.
  - destruct (0 <? qos) eqn:Hq; [|discriminate]. injection Hr as ->.
    bodies. rewrite Hv, Hq, Hin. cbn [dup_ack_type].
    destruct (is_client s).
    + apply negb_true_iff in Hp. rewrite Hp. reflexivity.
    + apply andb_true_iff in Hp as [Hp H3]. apply andb_true_iff in Hp as [H1 H2].
      apply negb_true_iff in H1, H2, H3. rewrite H1, H2, H3. reflexivity.
  - injection Hr as ->. apply andb_true_iff in Hp as [Hp H3]. apply andb_true_iff in Hp as [H1 H2].
    apply negb_true_iff in H1, H2. bodies. rewrite Hv, H1, H2, H3, Hin. reflexivity.
  - injection Hr as ->. apply andb_true_iff in Hp as [Hp H3]. apply andb_true_iff in Hp as [H1 H2].
    apply negb_true_iff in H1, H2. bodies. rewrite Hv, H1, H2, H3, Hin. reflexivity.
Qed.

(* ---- C11: acceptance reserves, nothing but the exchange's own completion releases *)
Lemma accept_reserves p s id :
  reserves p = Some id -> delivered (snd (proto_body p s)) = true -> inuse id (fst (proto_body p s)) = true.
Proof.
  unfold inuse. intros Hr. destruct p; cbn [reserves] in Hr; try discriminate.
  - destruct (0 <? qos) eqn:Hq; [|discriminate]. injection Hr as ->.
    bodies. rewrite Hq. cbn [andb].
    repeat dm; cbn [fst snd delivered p_ up_p p_inflight p_publishes p_aliases inflight]; try discriminate;
      intros _; rewrite ?memN_app, ?N.eqb_refl, ?orb_true_r; auto.
  - injection Hr as ->. bodies.
    repeat dm; cbn [fst snd delivered p_ up_p p_inflight inflight]; try discriminate;
      intros _; rewrite ?memN_app, ?N.eqb_refl, ?orb_true_r; auto.
  - injection Hr as ->. bodies.
    repeat dm; cbn [fst snd delivered p_ up_p p_inflight inflight]; try discriminate;
      intros _; rewrite ?memN_app, ?N.eqb_refl, ?orb_true_r; auto.
Qed.
Ltac pcalc :=
  repeat (cbn [fst snd p_ c_ up_p p_inflight p_publishes p_pubrel p_aliases p_dsent p_drecv
               inflight publishes pubrel aliases dsent drecv info_remove];
          rewrite ?io_encode_p, ?io_close_p, ?io_encode_c, ?io_close_c).

Lemma body_c p s : c_ (fst (proto_body p s)) = c_ s.
Proof. destruct p; bodies; repeat dm; pcalc; reflexivity. Qed.

Lemma body_keeps_inflight p s i :
  memN i (inflight (p_ s)) = true -> memN i (inflight (p_ (fst (proto_body p s)))) = true.
Proof. intros H. destruct p; bodies; repeat dm; pcalc; rewrite ?memN_app, ?H; auto. Qed.

Lemma body_keeps_publishes p s i :
  memN i (publishes (p_ s)) = true -> memN i (publishes (p_ (fst (proto_body p s)))) = true.
Proof. intros H. destruct p; bodies; repeat dm; pcalc; rewrite ?memN_app, ?H; auto. Qed.

Lemma body_pubrel p s : pubrel (p_ (fst (proto_body p s))) = pubrel (p_ s).
Proof. destruct p; bodies; repeat dm; pcalc; reflexivity. Qed.

Lemma body_dsent_mono p s : dsent (p_ s) = true -> dsent (p_ (fst (proto_body p s))) = true.
Proof. intros H. destruct p; bodies; repeat dm; pcalc; auto. Qed.

Lemma body_drecv_mono p s : drecv (p_ s) = true -> drecv (p_ (fst (proto_body p s))) = true.
Proof. intros H. destruct p; bodies; repeat dm; pcalc; auto. Qed.

(* the publishes set (the receive-maximum quota) changes only for a QoS>0 PUBLISH *)
Lemma body_publishes_only_publish p s :
  match p with KPublish _ _ _ _ _ _ => True | _ => publishes (p_ (fst (proto_body p s))) = publishes (p_ s) end.
Proof. destruct p; auto; bodies; repeat dm; pcalc; reflexivity. Qed.
(* ---- completions: publish handler *)
Ltac b2p := repeat match goal with
 | H : (_ <? _) = true |- _ => apply N.ltb_lt in H
 | H : (_ <? _) = false |- _ => apply N.ltb_ge in H
 | H : (_ <=? _) = true |- _ => apply N.leb_le in H
 | H : (_ <=? _) = false |- _ => apply N.leb_gt in H
 | H : (_ =? _) = true |- _ => apply N.eqb_eq in H
 | H : (_ =? _) = false |- _ => apply N.eqb_neq in H
 | H : negb _ = true |- _ => apply negb_true_iff in H
 | H : negb _ = false |- _ => apply negb_false_iff in H
 | H : _ && _ = true |- _ => apply andb_true_iff in H; destruct H
 | H : _ || _ = false |- _ => apply orb_false_iff in H; destruct H
 | H : _ || _ = true |- _ => apply orb_true_iff in H; destruct H
 end.
Ltac results := unfold hres_any, handler_result, handler_result_c, ctl_result_c, ctl_result, close3c, test_set_dsent.

Lemma hres_c q2 id res s : c_ (fst (hres_any q2 id res s)) = c_ s.
Proof. results. repeat dm; pcalc; reflexivity. Qed.

Lemma hres_keeps_other q2 id res s i :
  i <> id -> memN i (inflight (p_ (fst (hres_any q2 id res s)))) = memN i (inflight (p_ s)) /\
             memN i (publishes (p_ (fst (hres_any q2 id res s)))) = memN i (publishes (p_ s)) /\
             memN i (pubrel (p_ (fst (hres_any q2 id res s)))) = memN i (pubrel (p_ s)).
Proof.
  intros H. results. repeat dm; pcalc; rewrite ?memN_remN_other, ?memN_addN by assumption;
    repeat split; auto; destruct (N.eqb_spec i id); try contradiction; now rewrite ?orb_false_r.
Qed.

(* QoS 2, successful PUBREC: the identifier stays reserved and now awaits its PUBREL *)
Lemma hres_pubrec_keeps id res s r :
  snd (hres_any 1 id res s) = RSome 80 id r -> r < 128 ->
  inflight (p_ (fst (hres_any 1 id res s))) = inflight (p_ s) /\
  publishes (p_ (fst (hres_any 1 id res s))) = publishes (p_ s) /\
  memN id (pubrel (p_ (fst (hres_any 1 id res s)))) = true.
Proof.
  results. repeat dm; pcalc; try discriminate; intros E Hr; injection E as <-;
    rewrite ?memN_addN, ?N.eqb_refl, ?orb_true_r; auto; b2p; try lia.
Qed.
(* the acknowledgements that end an exchange *)
Definition is_final_ack (t r : N) : bool :=
  (t =? 64) || (t =? 144) || (t =? 176) || (t =? 112) || ((t =? 80) && (128 <=? r)).

Definition free_id (id : N) (s : st) : Prop :=
  memN id (inflight (p_ s)) = false /\
  (v5 (c_ s) = true -> memN id (publishes (p_ s)) = false /\ memN id (pubrel (p_ s)) = false).

Lemma hres_final q2 id res s t i r :
  snd (hres_any q2 id res s) = RSome t i r -> is_final_ack t r = true ->
  i = id /\ free_id id (fst (hres_any q2 id res s)).
Proof.
  unfold free_id. rewrite hres_c. results. unfold is_final_ack.
  repeat dm; pcalc; try discriminate; intros E; injection E as <- <- <-; cbn; intros Hf;
    try discriminate; rewrite ?memN_remN_same; repeat split; auto; try congruence;
    unfold neg_ack_code in *; b2p; subst; try lia; try discriminate.
Qed.

(* ---- completions: protocol service *)
Lemma ctl_c m a s : c_ (fst (ctl_result m a s)) = c_ s.
Proof. destruct m. results. repeat dm; pcalc; reflexivity. Qed.
Lemma ctlc_c m res s : c_ (fst (ctl_result_c m res s)) = c_ s.
Proof. destruct m. results. repeat dm; pcalc; reflexivity. Qed.

Lemma ctl_keeps_other kind pid a s i :
  i <> pid -> memN i (inflight (p_ (fst (ctl_result (kind, pid) a s)))) = memN i (inflight (p_ s)) /\
              memN i (publishes (p_ (fst (ctl_result (kind, pid) a s)))) = memN i (publishes (p_ s)) /\
              memN i (pubrel (p_ (fst (ctl_result (kind, pid) a s)))) = memN i (pubrel (p_ s)).
Proof.
  intros H. results. repeat dm; pcalc; rewrite ?memN_remN_other by assumption; auto.
Qed.

Lemma ctlc_keeps_other kind pid res s i :
  i <> pid -> memN i (inflight (p_ (fst (ctl_result_c (kind, pid) res s)))) = memN i (inflight (p_ s)) /\
              memN i (publishes (p_ (fst (ctl_result_c (kind, pid) res s)))) = memN i (publishes (p_ s)) /\
              memN i (pubrel (p_ (fst (ctl_result_c (kind, pid) res s)))) = memN i (pubrel (p_ s)).
Proof.
  intros H. results. repeat dm; pcalc; rewrite ?memN_remN_other by assumption; auto.
Qed.

(* the server's control path: the answer of the protocol service (ack3 / ack5) goes through ctl_result *)
Definition srv_result (m : cmsg) (res : N) (s : st) : st * cres :=
  ctl_result m (if v5 (c_ s) then ack5 (fst m) res else ack3 (fst m) res) s.

Lemma srv_c m res s : c_ (fst (srv_result m res s)) = c_ s.
Proof. apply ctl_c. Qed.

Lemma ctl_final kind pid res s t i r :
  pid <> 0 -> snd (srv_result (kind, pid) res s) = RSome t i r -> is_final_ack t r = true ->
  i = pid /\ free_id pid (fst (srv_result (kind, pid) res s)).
Proof.
  intros Hp. unfold free_id. rewrite srv_c. unfold srv_result, ack3, ack5. cbn [fst]. results. unfold is_final_ack.
  repeat dm; pcalc; try discriminate; intros E; injection E as <- <- <-; cbn; intros Hf;
    try discriminate; rewrite ?memN_remN_same; repeat split; auto; try congruence;
    unfold neg_ack_code in *; b2p; subst; try lia; try discriminate.
Qed.

Lemma ctlc_final kind pid res s t i r :
  pid <> 0 -> snd (ctl_result_c (kind, pid) res s) = RSome t i r -> is_final_ack t r = true ->
  i = pid /\ free_id pid (fst (ctl_result_c (kind, pid) res s)).
Proof.
  intros Hp. unfold free_id. rewrite ctlc_c. results. unfold is_final_ack.
  repeat dm; pcalc; try discriminate; intros E; injection E as <- <- <-; cbn; intros Hf;
    try discriminate; rewrite ?memN_remN_same; repeat split; auto; try congruence;
    unfold neg_ack_code in *; b2p; subst; try lia; try discriminate.
Qed.

(* ---- C11: a free identifier is accepted (again) *)
Definition pre_ok3 (p : pkt) (s : st) : bool :=
  match p with
  | KPublish qos _ topic _ _ _ =>
    if is_client s then true
    else negb (topic =? 4) && negb (max_qos (c_ s) <? qos) && negb (stopped (i_ s))
  | KSubscribe _ f | KUnsubscribe _ f => negb (is_client s) && negb (stopped (i_ s)) && filter_valid f
  | _ => false
  end.
Definition no_alias (p : pkt) : bool :=
  match p with KPublish _ _ _ alias _ _ => alias =? 0 | _ => true end.

(* what the codec hands over: QoS 0 has no identifier, QoS 1/2 / SUBSCRIBE / UNSUBSCRIBE / PUBREL a
   non-zero one; the topic index is in the alphabet of the case syntax (0 = empty topic, 1..3, 4 = a
   topic with a wildcard; the model uses 99 internally for "alias over the maximum") *)
Definition wf_pkt (p : pkt) : bool :=
  match p with
  | KPublish qos id topic _ _ _ =>
    (qos <=? 2) && (if qos =? 0 then id =? 0 else negb (id =? 0)) && (topic <=? 4)
  | KSubscribe id _ | KUnsubscribe id _ | KPubrel id => negb (id =? 0)
  | KBad r => 128 <=? r
  | _ => true
  end.

Lemma free_accepted p s id :
  wf_pkt p = true -> reserves p = Some id -> inuse id s = false ->
  (if v5 (c_ s) then pre_ok5 p s && no_alias p && negb (stopped (i_ s)) else pre_ok3 p s) = true ->
  delivered (snd (proto_body p s)) = true.
Proof.
  unfold inuse, pre_ok5, pre_ok3, over_quota, no_alias. intros Hw Hr Hin Hp.
  destruct p; cbn [reserves wf_pkt] in Hr, Hw; try discriminate.
  - destruct (0 <? qos) eqn:Hq; [|discriminate]. injection Hr as ->.
    bodies. rewrite Hq, Hin. cbn [andb].
    destruct (v5 (c_ s)), (is_client s); b2p;
      repeat match goal with H : ?x = _ |- context [?x] => rewrite H end; cbn [negb andb orb];
      rewrite ?N.eqb_refl; repeat dm; cbn [snd delivered]; auto; b2p; try lia; try congruence;
      cbn [i_ c_ up_p] in *; try congruence; try lia.
  - injection Hr as ->. bodies. rewrite Hin.
    destruct (v5 (c_ s)); b2p;
      repeat match goal with H : ?x = _ |- context [?x] => rewrite H end; cbn [negb andb orb snd delivered]; auto.
  - injection Hr as ->. bodies. rewrite Hin.
    destruct (v5 (c_ s)); b2p;
      repeat match goal with H : ?x = _ |- context [?x] => rewrite H end; cbn [negb andb orb snd delivered]; auto.
Qed.
(* ---- C11: PUBREL *)
Lemma stray_pubrel id s :
  memN id (pubrel (p_ s)) = false ->
  proto_body (KPubrel id) s =
    if v5 (c_ s) then (s, ODone (RSome 112 id 146))
    else if is_client s then (close3c s, ODone RNone)
    else (s, ODone (RErr (EProto 130))).
Proof. intros H. bodies. rewrite H. repeat dm; reflexivity. Qed.

Lemma close3c_closed s : closedio (close3c s) = true.
Proof. unfold close3c, test_set_dsent. apply io_close_closedio. Qed.
Lemma close3c_p s : p_ (close3c s) = p_dsent true (p_ s).
Proof. unfold close3c, test_set_dsent. repeat dm; pcalc; reflexivity. Qed.

Lemma awaited_pubrel id s :
  memN id (pubrel (p_ s)) = true -> proto_body (KPubrel id) s = (s, OCtl (1, id)).
Proof. intros H. bodies. rewrite H. repeat dm; reflexivity. Qed.

(* the only packet that reaches the protocol service as a PublishRelease message is a PUBREL whose
   identifier awaits release *)
Lemma pubrel_msg_origin p s id :
  snd (proto_body p s) = OCtl (1, id) -> p = KPubrel id /\ memN id (pubrel (p_ s)) = true.
Proof.
  destruct p; bodies; repeat dm; cbn [snd]; try discriminate; intros E; injection E as <-; auto.
Qed.

(* the only way into the pubrel set: the handler of a QoS 2 PUBLISH completed and PUBREC (reason < 0x80)
   is the response *)
Lemma pubrel_origin_hres q2 id res s i :
  memN i (pubrel (p_ (fst (hres_any q2 id res s)))) = true ->
  memN i (pubrel (p_ s)) = true \/
  (i = id /\ q2 = 1 /\ exists r, snd (hres_any q2 id res s) = RSome 80 id r /\ r < 128).
Proof.
  results. repeat dm; pcalc; rewrite ?memN_addN; auto; intros H;
    try (apply memN_remN_sub in H; auto);
    (apply orb_true_iff in H as [H|H]; [auto|right; b2p; subst; repeat split; eauto]).
  all: eexists; split; [reflexivity|lia].
Qed.

Lemma pubrel_origin_ctl m a s i :
  memN i (pubrel (p_ (fst (ctl_result m a s)))) = true -> memN i (pubrel (p_ s)) = true.
Proof. destruct m. results. repeat dm; pcalc; auto; intros H; apply memN_remN_sub in H; auto. Qed.
Lemma pubrel_origin_ctlc m res s i :
  memN i (pubrel (p_ (fst (ctl_result_c m res s)))) = true -> memN i (pubrel (p_ s)) = true.
Proof. destruct m. results. repeat dm; pcalc; auto; intros H; apply memN_remN_sub in H; auto. Qed.

(* the handler invocation carries q2 = 1 exactly for QoS 2 *)
Lemma handler_q2 p s q2 qos id t plen retain :
  snd (proto_body p s) = OHandler q2 qos id t plen retain -> q2 = b2n (qos =? 2).
Proof.
  destruct p; bodies; repeat dm; cbn [snd]; try discriminate; intros E; injection E; intros; subst; auto.
Qed.
(* ---- C17: topic aliases (v5) *)
Definition norm_topic (t : N) : N := if t <=? 3 then t else 0.
Definition delivered_topic (o : outcome) : option N :=
  match o with
  | OHandler _ _ _ t _ _ => Some t
  | OCtlP _ _ _ t _ _ => Some t
  | _ => None
  end.
Definition amax_eff (s : st) : N := if is_client s then 16 else amax (c_ s).

(* the checks a v5 PUBLISH passes before its alias is looked at *)
Definition pub_admitted5 (p : pkt) (s : st) : bool :=
  match p with
  | KPublish qos id topic _ _ _ =>
    (is_client s || negb (topic =? 4)) &&
    (if 0 <? qos then pre_ok5 p s && negb (inuse id s) else true)
  | _ => false
  end.

Lemma alias_lookup qos id alias retain plen s t' :
  v5 (c_ s) = true -> alias <> 0 ->
  delivered_topic (snd (proto_body (KPublish qos id 0 alias retain plen) s)) = Some t' ->
  exists t, assocN alias (aliases (p_ s)) = Some t /\ t' = norm_topic t.
Proof.
  intros Hv Ha. apply N.eqb_neq in Ha. bodies. rewrite Hv, Ha. cbn [N.eqb]. unfold norm_topic.
  change (0 =? 0) with true. change (0 =? 4) with false. cbv beta iota zeta.
  repeat dm; pcalc; cbn [delivered_topic]; try discriminate; intros E; injection E as <-;
    repeat match goal with H : context [p_ (up_p _ _)] |- _ => cbn [p_ up_p p_inflight p_publishes aliases] in H end;
    (eexists; split; [solve [eauto]|]);
    repeat match goal with H : ?c = _ |- context [if ?c then _ else _] => rewrite H end; reflexivity.
Qed.
Ltac simp_hyps :=
  repeat match goal with H : context [p_ (up_p _ _)] |- _ =>
    cbn [p_ c_ i_ up_p p_inflight p_publishes p_aliases aliases inflight publishes] in H end;
  repeat match goal with H : context [c_ (up_p _ _)] |- _ => cbn [p_ c_ i_ up_p] in H end;
  repeat match goal with H : context [i_ (up_p _ _)] |- _ => cbn [p_ c_ i_ up_p] in H end.

Lemma alias_lookup_delivers qos id alias retain plen s t :
  v5 (c_ s) = true -> alias <> 0 -> assocN alias (aliases (p_ s)) = Some t -> t <= 3 ->
  stopped (i_ s) = false ->
  pub_admitted5 (KPublish qos id 0 alias retain plen) s = true ->
  delivered_topic (snd (proto_body (KPublish qos id 0 alias retain plen) s)) = Some t.
Proof.
  intros Hv Ha Hl Ht Hs Hp. apply N.eqb_neq in Ha. unfold pub_admitted5, pre_ok5, over_quota, inuse in Hp.
  bodies. rewrite Hv, Ha. change (0 =? 0) with true. change (0 =? 4) with false in *. cbv beta iota zeta.
  repeat dm; pcalc; cbn [delivered_topic]; simp_hyps;
    try discriminate Hl; try (injection Hl as ->);
    repeat match goal with H : assocN _ _ = _ |- _ =>
      lazymatch H with Hl => fail | _ => rewrite Hl in H; first [discriminate | injection H as <-] end end;
    b2p; try congruence; try lia.
Qed.
(* a PUBLISH with topic and alias (re)binds the alias; the handler sees the topic it carries *)
Lemma alias_bind qos id topic alias retain plen s t' :
  v5 (c_ s) = true -> alias <> 0 -> topic <> 0 ->
  delivered_topic (snd (proto_body (KPublish qos id topic alias retain plen) s)) = Some t' ->
  let s' := fst (proto_body (KPublish qos id topic alias retain plen) s) in
  t' = norm_topic topic /\ assocN alias (aliases (p_ s')) = Some topic /\
  forall a, a <> alias -> assocN a (aliases (p_ s')) = assocN a (aliases (p_ s)).
Proof.
  intros Hv Ha Ht. apply N.eqb_neq in Ha, Ht. bodies. rewrite Hv, Ha, Ht. cbv beta iota zeta. unfold norm_topic.
  repeat dm; pcalc; cbn [delivered_topic]; try discriminate; intros E; injection E as <-; simp_hyps; b2p;
    (split; [repeat match goal with H : ?c = _ |- context [if ?c then _ else _] => rewrite H end; try reflexivity; try (exfalso; lia)|]);
    (split; [subst; rewrite ?assocN_set_same, ?assocN_snoc, ?N.eqb_refl; auto;
             repeat match goal with H : assocN _ _ = _ |- _ => rewrite H end; auto
            | intros a Hne; rewrite ?assocN_set_other, ?assocN_snoc by assumption; auto;
              destruct (assocN a (aliases (p_ s))); auto;
              destruct (N.eqb_spec alias a); congruence]).
Qed.

(* nothing else touches the table *)
Lemma aliases_only_publish p s :
  match p with
  | KPublish _ _ _ alias _ _ => alias = 0 -> aliases (p_ (fst (proto_body p s))) = aliases (p_ s)
  | _ => aliases (p_ (fst (proto_body p s))) = aliases (p_ s)
  end.
Proof.
  destruct p; try (bodies; repeat dm; pcalc; reflexivity).
  intros ->. bodies. change (0 =? 0) with true. cbv beta iota zeta. repeat dm; pcalc; reflexivity.
Qed.
Lemma aliases_alias_only qos id alias retain plen s :
  aliases (p_ (fst (proto_body (KPublish qos id 0 alias retain plen) s))) = aliases (p_ s).
Proof. bodies. change (0 =? 0) with true. cbv beta iota zeta. repeat dm; pcalc; reflexivity. Qed.
Lemma aliases_hres q2 id res s : aliases (p_ (fst (hres_any q2 id res s))) = aliases (p_ s).
Proof. results. repeat dm; pcalc; reflexivity. Qed.
Lemma aliases_ctl m a s : aliases (p_ (fst (ctl_result m a s))) = aliases (p_ s).
Proof. destruct m. results. repeat dm; pcalc; reflexivity. Qed.
Lemma aliases_ctlc m res s : aliases (p_ (fst (ctl_result_c m res s))) = aliases (p_ s).
Proof. destruct m. results. repeat dm; pcalc; reflexivity. Qed.

(* an alias that was never bound: never delivered; TopicAliasInvalid once the identifier checks passed *)
Lemma alias_unbound qos id alias retain plen s :
  v5 (c_ s) = true -> alias <> 0 -> assocN alias (aliases (p_ s)) = None ->
  let r := proto_body (KPublish qos id 0 alias retain plen) s in
  delivered (snd r) = false /\
  (pub_admitted5 (KPublish qos id 0 alias retain plen) s = true -> snd r = ODone (RErr (EProto 148))).
Proof.
  intros Hv Ha Hl. apply N.eqb_neq in Ha. unfold pub_admitted5, pre_ok5, over_quota, inuse.
  bodies. rewrite Hv, Ha. change (0 =? 0) with true. change (0 =? 4) with false. cbv beta iota zeta.
  repeat dm; pcalc; cbn [delivered]; simp_hyps; try congruence; split; auto; intros; b2p; try congruence; try lia; try discriminate.
Qed.

(* a new alias above the advertised maximum: never delivered, not recorded *)
Lemma alias_over_max qos id topic alias retain plen s :
  v5 (c_ s) = true -> topic <> 0 -> assocN alias (aliases (p_ s)) = None -> amax_eff s < alias ->
  let r := proto_body (KPublish qos id topic alias retain plen) s in
  delivered (snd r) = false /\ aliases (p_ (fst r)) = aliases (p_ s) /\
  (pub_admitted5 (KPublish qos id topic alias retain plen) s = true -> snd r = ODone (RErr (EProto 130))).
Proof.
  intros Hv Ht Hl Hm. assert (Ha : alias <> 0) by lia. apply N.eqb_neq in Ha, Ht.
  unfold pub_admitted5, pre_ok5, over_quota, inuse, amax_eff in *.
  bodies. rewrite Hv, Ha, Ht. cbv beta iota zeta.
  repeat dm; pcalc; cbn [delivered]; simp_hyps; try congruence; repeat split; auto; intros; b2p;
    try congruence; try lia; try discriminate.
Qed.
(* routing (client roles: ClientRouter with the resources t1, t2) looks at the resolved topic only *)
Lemma routing_by_resolved_topic qos id alias retain plen s t :
  v5 (c_ s) = true -> is_client s = true -> alias <> 0 -> assocN alias (aliases (p_ s)) = Some t -> t <> 0 ->
  proto_body (KPublish qos id 0 alias retain plen) s = proto_body (KPublish qos id t 0 retain plen) s.
Proof.
  intros Hv Hc Ha Hl Ht. apply N.eqb_neq in Ha. bodies. rewrite Hv, Hc, Ha.
  change (0 =? 0) with true. cbv beta iota zeta.
  repeat dm; pcalc; simp_hyps; try reflexivity; try congruence;
    repeat match goal with H : assocN _ _ = _ |- _ =>
      lazymatch H with Hl => fail | _ => rewrite Hl in H; first [discriminate | injection H as <-] end end;
    try congruence; try reflexivity.
Qed.

Lemma route_pub_decision q2 qos id t plen retain s :
  route_pub q2 qos id t plen retain s =
    if route (c_ s) && ((norm_topic t =? 1) || (norm_topic t =? 2))
    then OHandler q2 qos id (norm_topic t) plen retain
    else OCtlP (7, id) qos id (norm_topic t) plen retain.
Proof. reflexivity. Qed.

(* ---- C15: DISCONNECT *)
(* what one packet can put on the wire before any handler runs: nothing, an immediate
   "packet identifier in use" acknowledgement, or one DISCONNECT guarded by the test-and-set flag
   and followed by the close of the io *)
Inductive wdelta (s s' : st) : list N -> Prop :=
| WNone : wdelta s s' []
| WDup t id : In t [64; 80; 144; 176] -> wdelta s s' [t; id; 145]
| WDisc r : dsent (p_ s) = false -> dsent (p_ s') = true -> closedio s' = true ->
            r = (if v5 (c_ s) then 131 else 0) -> wdelta s s' [224; 0; r].

Lemma app_nil_end' {A} (l : list A) : l = l ++ []. Proof. now rewrite app_nil_r. Qed.

Lemma body_wire p s :
  exists w, wire (i_ (fst (proto_body p s))) = wire (i_ s) ++ w /\ wdelta s (fst (proto_body p s)) w.
Proof.
  destruct p; bodies; repeat dm; cbn [fst];
    rewrite ?io_close_wire, ?io_encode_wire; cbn [i_ up_p];
    rewrite ?io_close_wire, ?io_encode_wire; cbn [i_ up_p];
    repeat dm;
    try (exists []; split; [apply app_nil_end'|constructor]);
    try (eexists; split; [reflexivity|]);
    try (apply WDup; cbn; tauto);
    try (apply WDisc; pcalc; rewrite ?io_close_closedio; auto; try congruence;
         match goal with H : ?x = _ |- context [if ?x then _ else _] => rewrite H end; reflexivity).
Qed.
(* the peer's DISCONNECT *)
Lemma peer_disconnect_v5 reason s :
  v5 (c_ s) = true ->
  let r := proto_body (KDisconnect reason 0) s in
  snd r = OCtl (4, 0) /\ dsent (p_ (fst r)) = true /\ closedio (fst r) = true /\
  wire (i_ (fst r)) = wire (i_ s) /\ (is_client s = false -> drecv (p_ (fst r)) = true).
Proof.
  intros Hv. bodies. rewrite Hv. change (0 <? 0) with false. cbv beta iota zeta.
  repeat dm; pcalc; rewrite ?io_close_wire, ?io_close_closedio; cbn [i_ up_p]; repeat split; auto;
    unfold closedio; cbn [i_ up_p] in *; rewrite ?Heqb0, ?Heqb1, ?orb_true_r; auto; discriminate.
Qed.

(* ... with a session expiry the endpoint refuses: the protocol error is the answer to that very packet *)
Lemma peer_disconnect_v5_violation reason se s :
  v5 (c_ s) = true -> 0 < se -> (is_client s = true \/ zse (c_ s) = true) ->
  let r := proto_body (KDisconnect reason se) s in
  snd r = ODone (RErr (EProto 130)) /\ dsent (p_ (fst r)) = dsent (p_ s) /\ wire (i_ (fst r)) = wire (i_ s).
Proof.
  intros Hv Hs Hz. apply N.ltb_lt in Hs. bodies. rewrite Hv, Hs.
  destruct (is_client s) eqn:Hc; cbv beta iota zeta.
  - pcalc. auto.
  - destruct Hz as [Hz|Hz]; [discriminate|]. rewrite Hz. cbn [andb]. pcalc. auto.
Qed.

(* a server whose CONNECT asked for a non-zero session expiry accepts a DISCONNECT that changes it
   [MQTT-3.14.2-22 concerns zero-expiry sessions only] *)
Lemma peer_disconnect_v5_expiry_allowed reason se s :
  v5 (c_ s) = true -> is_client s = false -> zse (c_ s) = false ->
  let r := proto_body (KDisconnect reason se) s in
  snd r = OCtl (4, 0) /\ dsent (p_ (fst r)) = true /\ wire (i_ (fst r)) = wire (i_ s).
Proof.
  intros Hv Hc Hz. bodies. rewrite Hv, Hc, Hz. rewrite andb_false_r. cbv beta iota zeta.
  repeat dm; pcalc; rewrite ?io_close_wire; cbn [i_ up_p]; repeat split; auto.
Qed.

Lemma peer_disconnect_v3 reason se s :
  v5 (c_ s) = false -> is_client s = false ->
  let r := proto_body (KDisconnect reason se) s in
  snd r = OCtl (4, 0) /\ dsent (p_ (fst r)) = true /\ wire (i_ (fst r)) = wire (i_ s).
Proof. intros Hv Hc. bodies. rewrite Hv, Hc. pcalc. auto. Qed.

(* once the flag is set no packet makes the endpoint write a DISCONNECT *)
Lemma body_no_disconnect_after p s w :
  dsent (p_ s) = true -> wire (i_ (fst (proto_body p s))) = wire (i_ s) ++ w ->
  w = [] \/ exists t id, In t [64; 80; 144; 176] /\ w = [t; id; 145].
Proof.
  intros Hd Hw. destruct (body_wire p s) as (w' & E & D). rewrite E in Hw. apply app_inv_head in Hw. subst w'.
  destruct D; eauto. congruence.
Qed.

(* results: the publish handler never yields a DISCONNECT; the protocol service's DISCONNECT is guarded
   by the flag and the io is closed before the packet is handed back for writing (so it is never written) *)
Lemma hres_types q2 id res s t i r :
  snd (hres_any q2 id res s) = RSome t i r -> (t = 64 \/ t = 80) /\ i = id /\ id <> 0.
Proof.
  results. repeat dm; cbn [snd]; try discriminate; intros E; injection E as <- <- <-; b2p; auto.
Qed.
Lemma hres_dsent q2 id res s : dsent (p_ (fst (hres_any q2 id res s))) = dsent (p_ s).
Proof. results. repeat dm; pcalc; reflexivity. Qed.
Lemma hres_wire q2 id res s : i_ (fst (hres_any q2 id res s)) = i_ s.
Proof. results. repeat dm; reflexivity. Qed.

Lemma srv_disconnect m res s i r :
  snd (srv_result m res s) = RSome 224 i r ->
  dsent (p_ s) = false /\ dsent (p_ (fst (srv_result m res s))) = true /\ closedio (fst (srv_result m res s)) = true.
Proof.
  destruct m. unfold srv_result, ack3, ack5. results.
  repeat dm; cbn [fst snd]; try discriminate; intros E; injection E; intros; subst;
    try discriminate; b2p; try discriminate; pcalc; rewrite ?io_close_closedio; repeat split; eauto.
Qed.
Lemma ctlc_disconnect m res s i r :
  snd (ctl_result_c m res s) = RSome 224 i r ->
  dsent (p_ s) = false /\ dsent (p_ (fst (ctl_result_c m res s))) = true /\ closedio (fst (ctl_result_c m res s)) = true.
Proof.
  destruct m. results.
  repeat dm; cbn [fst snd]; try discriminate; intros E; injection E; intros; subst;
    try discriminate; b2p; try discriminate; pcalc; rewrite ?io_close_closedio; repeat split; eauto.
Qed.
Lemma ctl_dsent_mono m a s : dsent (p_ s) = true -> dsent (p_ (fst (ctl_result m a s))) = true.
Proof. destruct m. results. intros H. repeat dm; pcalc; auto. Qed.
Lemma ctlc_dsent_mono m res s : dsent (p_ s) = true -> dsent (p_ (fst (ctl_result_c m res s))) = true.
Proof. destruct m. results. intros H. repeat dm; pcalc; auto. Qed.
Lemma ctl_wire m a s : wire (i_ (fst (ctl_result m a s))) = wire (i_ s).
Proof. destruct m. results. repeat dm; cbn [fst]; rewrite ?io_close_wire; reflexivity. Qed.

(* ---- error codes *)
Ltac fin := repeat split; auto; try assumption; try congruence;
  try (repeat eexists; try reflexivity; b2p; try lia; try assumption; try congruence).
Lemma proto_err_table p s r :
  snd (proto_body p s) = ODone (RErr (EProto r)) ->
  (r = 130) \/
  (r = 147 /\ v5 (c_ s) = true /\ over_quota s = true /\
     exists qos id topic alias retain plen, p = KPublish qos id topic alias retain plen /\ 0 < qos) \/
  (r = 155 /\ is_client s = false /\
     exists qos id topic alias retain plen, p = KPublish qos id topic alias retain plen /\ max_qos (c_ s) < qos) \/
  (r = 148 /\ v5 (c_ s) = true /\
     exists qos id alias retain plen, p = KPublish qos id 0 alias retain plen /\ alias <> 0 /\
                                      assocN alias (aliases (p_ s)) = None).
Proof.
  unfold over_quota.
  destruct p; bodies; repeat dm; cbn [snd]; try discriminate; intros E; injection E as <-; auto; simp_hyps.
  all: repeat match goal with H : (?x =? 0) = true |- _ => apply N.eqb_eq in H; subst x end.
  all: first [ right; left; solve [fin] | right; right; left; solve [fin] | right; right; right; solve [fin] ].
Qed.
(* ---- C12 (v5): receive maximum *)
Lemma over_quota_refused qos id topic alias retain plen s :
  v5 (c_ s) = true -> 0 < qos -> (is_client s = false -> topic <> 4) -> over_quota s = true ->
  proto_body (KPublish qos id topic alias retain plen) s = (s, ODone (RErr (EProto 147))).
Proof.
  unfold over_quota. intros Hv Hq Ht Ho. apply N.ltb_lt in Hq. bodies. rewrite Hv, Hq.
  destruct (is_client s); rewrite Ho; auto.
  specialize (Ht eq_refl). apply N.eqb_neq in Ht. now rewrite Ht.
Qed.

Lemma within_quota_not_refused p s :
  over_quota s = false -> snd (proto_body p s) <> ODone (RErr (EProto 147)).
Proof.
  intros Ho E. apply proto_err_table in E as [E|[(_ & _ & E & _)|[(E & _)|(E & _)]]]; try discriminate. congruence.
Qed.

(* the quota set grows by exactly the identifier of an accepted QoS>0 PUBLISH (server role) *)
Lemma publishes_growth p s :
  is_client s = false -> v5 (c_ s) = true ->
  publishes (p_ (fst (proto_body p s))) = publishes (p_ s) \/
  exists qos id topic alias retain plen,
    p = KPublish qos id topic alias retain plen /\ 0 < qos /\ over_quota s = false /\ inuse id s = false /\
    publishes (p_ (fst (proto_body p s))) = publishes (p_ s) ++ [id].
Proof.
  unfold over_quota, inuse. intros Hc Hv.
  destruct p; bodies; rewrite Hc, Hv; repeat dm; pcalc; auto.
  all: right; repeat eexists; b2p; auto.
Qed.

(* ---- C03: decisions *)
Definition resolved_topic (p : pkt) (s : st) : option N :=
  match p with
  | KPublish _ _ topic alias _ _ =>
    if v5 (c_ s) && negb (alias =? 0) && (topic =? 0) then assocN alias (aliases (p_ s)) else Some topic
  | _ => None
  end.

Definition invoked_with (o : outcome) : option (N * N * N * N * N) :=
  match o with
  | OHandler _ qos id t plen retain => Some (qos, id, t, plen, retain)
  | OCtlP _ qos id t plen retain => Some (qos, id, t, plen, retain)
  | _ => None
  end.

Lemma handler_fields p s qos' id' t' plen' retain' :
  invoked_with (snd (proto_body p s)) = Some (qos', id', t', plen', retain') ->
  exists qos id topic alias retain plen t,
    p = KPublish qos id topic alias retain plen /\ qos' = qos /\ id' = id /\ plen' = plen /\ retain' = retain /\
    resolved_topic p s = Some t /\ t' = norm_topic t.
Proof.
  unfold norm_topic.
  destruct p; bodies; repeat dm; cbn [snd invoked_with]; try discriminate; intros E; injection E; intros; subst;
    simp_hyps; do 7 eexists; (split; [reflexivity|]); repeat (split; [reflexivity|]);
    cbn [resolved_topic];
    repeat match goal with H : ?c = _ |- context [?c] => rewrite H end; cbn [negb andb]; split; try reflexivity; eauto;
    repeat match goal with H : ?c = _ |- context [if ?c then _ else _] => rewrite H end; reflexivity.
Qed.
(* the response computed when the publish handler completes Ok *)
Lemma ack_on_ok q2 id s :
  snd (hres_any q2 id 0 s) = if id =? 0 then RNone else if q2 =? 1 then RSome 80 id 0 else RSome 64 id 0.
Proof. results. change (0 =? 0) with true. cbv beta iota zeta. repeat dm; reflexivity. Qed.

Definition expected_ack (qos id : N) : cres :=
  if qos =? 0 then RNone else if qos =? 2 then RSome 80 id 0 else RSome 64 id 0.

Lemma ack_matches_qos p s q2 qos id t plen retain s2 :
  wf_pkt p = true -> snd (proto_body p s) = OHandler q2 qos id t plen retain ->
  snd (hres_any q2 id 0 s2) = expected_ack qos id.
Proof.
  intros Hw E. pose proof (handler_q2 _ _ _ _ _ _ _ _ E) as ->.
  assert (F : invoked_with (snd (proto_body p s)) = Some (qos, id, t, plen, retain)) by now rewrite E.
  apply handler_fields in F as (qos0 & id0 & topic & alias & retain0 & plen0 & t0 & -> & -> & -> & _).
  cbn [wf_pkt] in Hw. rewrite ack_on_ok. unfold expected_ack.
  destruct (N.eqb_spec qos0 0) as [->|H0]; b2p.
  - now subst.
  - destruct (N.eqb_spec id0 0); [contradiction|]. destruct (qos0 =? 2); reflexivity.
Qed.

(* a failing handler never yields a success acknowledgement *)
Lemma failure_never_acks_success q2 id res s :
  res <> 0 ->
  match snd (hres_any q2 id res s) with
  | RSome t i r => v5 (c_ s) = true /\ r = res /\ 128 <= r /\ i = id /\ (t = 64 \/ t = 80)
  | RNone => v5 (c_ s) = true /\ is_client s = true /\ id = 0
  | RErr e => e = EServ /\ fst (hres_any q2 id res s) = s
  end.
Proof.
  intros Hr. apply N.eqb_neq in Hr. results. rewrite Hr. unfold neg_ack_code.
  repeat (dm; cbn [fst snd]); cbn [fst snd]; auto; b2p; subst; repeat split; auto; try lia.
Qed.

(* PUBCOMP: only the answer to a PUBREL that reached the protocol service (hence awaited),
   or the v5 "not found" answer to a stray one *)
Lemma pubcomp_origin_srv m res s i r :
  snd (srv_result m res s) = RSome 112 i r -> fst m = 1 /\ i = snd m /\ r = 0.
Proof.
  destruct m. unfold srv_result, ack3, ack5. results. cbn [fst snd].
  repeat dm; cbn [snd]; try discriminate; intros E; injection E; intros; subst; try discriminate; b2p; auto; discriminate.
Qed.
Lemma pubcomp_origin_cli m res s i r :
  snd (ctl_result_c m res s) = RSome 112 i r -> fst m = 1 /\ i = snd m /\ r = 0.
Proof.
  destruct m. results. cbn [fst snd].
  repeat dm; cbn [snd]; try discriminate; intros E; injection E; intros; subst; try discriminate; b2p; auto; discriminate.
Qed.
Lemma pubcomp_origin_body p s i r :
  snd (proto_body p s) = ODone (RSome 112 i r) ->
  v5 (c_ s) = true /\ p = KPubrel i /\ memN i (pubrel (p_ s)) = false /\ r = 146.
Proof.
  destruct p; bodies; repeat dm; cbn [snd]; try discriminate; intros E; injection E; intros; subst; auto.
Qed.

(* deviation C1/C2 (client roles): a PUBLISH that no route matches goes to the protocol service as
   ProtocolMessage::Publish; msg.ack() answers PUBACK whatever the QoS of the PUBLISH *)
Lemma client_unrouted_ack_is_puback pid s :
  v5 (c_ s) = false -> pid <> 0 -> snd (ctl_result_c (7, pid) 0 s) = RSome 64 pid 0.
Proof.
  intros Hv Hp. apply N.eqb_neq in Hp. results. rewrite Hv, Hp. reflexivity.
Qed.

(* ---- C16: every packet kind is accounted for *)
Definition ignored_kind (client is5 : bool) (p : pkt) : bool :=
  match p with
  | KOther | KBad _ => true
  | KAck2 => negb client
  | KAuth => negb is5
  | _ => false
  end.

Lemma body_never_service_error p s : snd (proto_body p s) <> ODone (RErr EServ).
Proof. destruct p; bodies; repeat dm; cbn [snd]; discriminate. Qed.

Lemma silent_outcomes p s :
  snd (proto_body p s) = ODone RNone ->
  ignored_kind (is_client s) (v5 (c_ s)) p = true \/
  stopped (i_ s) = true \/
  (v5 (c_ s) = true /\ exists id, reserves p = Some id /\ inuse id s = true /\
     fst (proto_body p s) = io_encode (dup_ack_type p) id 145 s) \/
  (v5 (c_ s) = false /\ is_client s = true /\ exists id, p = KPubrel id /\ memN id (pubrel (p_ s)) = false /\
     closedio (fst (proto_body p s)) = true).
Proof.
  unfold inuse.
  destruct p; bodies; repeat dm; cbn [fst snd ignored_kind negb reserves dup_ack_type]; try discriminate; auto; intros _;
    simp_hyps;
    try (right; left; assumption);
    repeat match goal with H : ?c = _ |- context [if ?c then _ else _] => rewrite H end;
    try (right; right; left; split; [reflexivity|]; eexists; repeat split; try reflexivity; assumption);
    try (right; right; right; repeat split; auto; eexists; repeat split; auto; apply io_close_closedio).
Qed.

Lemma stop_kind_proto r : stop_kind (EProto r) = 1. Proof. reflexivity. Qed.
(* ---- C03: no acknowledgement before the handler has completed; a handler runs once per PUBLISH *)
Lemma handler_waits who k s c h q2 id :
  find_call k (calls (s_ s)) = Some c -> cst c = CHandler h q2 id -> gate_val h (hgate (l_ s)) = None ->
  poll_call who k s = (s, None).
Proof. intros H1 H2 H3. unfold poll_call. now rewrite H1, H2, H3. Qed.

Lemma handler_completes who k s c h q2 id res :
  find_call k (calls (s_ s)) = Some c -> cst c = CHandler h q2 id -> gate_val h (hgate (l_ s)) = Some res ->
  poll_call who k s = (fst (hres_any q2 id res s), Some (snd (hres_any q2 id res s))).
Proof. intros H1 H2 H3. unfold poll_call. rewrite H1, H2, H3. now destruct (hres_any q2 id res s). Qed.

Lemma body_l p s : l_ (fst (proto_body p s)) = l_ s.
Proof. destruct p; bodies; repeat dm; cbn [fst]; rewrite ?io_close_l, ?io_encode_l; cbn [l_ up_p]; rewrite ?io_close_l, ?io_encode_l; reflexivity. Qed.
Lemma hres_l q2 id res s : l_ (fst (hres_any q2 id res s)) = l_ s.
Proof. results. repeat dm; reflexivity. Qed.

(* the invocation of the publish handler: exactly one record, numbered nh + 1, with the fields of the
   outcome; the acknowledgement in the same poll only if the completion op for that number was given *)
Lemma handler_invoked_once who k p s q2 qos id t plen retain :
  snd (proto_body p s) = OHandler q2 qos id t plen retain ->
  let s1 := fst (proto_body p s) in
  let h := nh (l_ s) + 1 in
  let s2 := log_handler h qos id t plen retain s1 in
  hlog (l_ s2) = hlog (l_ s) ++ [h; qos; id; t; plen; retain] /\ nh (l_ s2) = h /\
  body who k p s =
    match gate_val h (hgate (l_ s)) with
    | Some res => (fst (hres_any q2 id res s2), Some (snd (hres_any q2 id res s2)))
    | None => (set_cst k (CHandler h q2 id) s2, None)
    end.
Proof.
  intros E. cbv zeta. rewrite body_proto_body. pose proof (body_l p s) as Hl.
  destruct (proto_body p s) as [s1 o]. cbn [fst snd] in *. subst o. cbv zeta. rewrite Hl.
  split; [|split].
  - unfold log_handler. cbn [up_l l_ l_nh l_hlog hlog]. now rewrite Hl.
  - reflexivity.
  - assert (Hg : hgate (l_ (log_handler (nh (l_ s) + 1) qos id t plen retain s1)) = hgate (l_ s))
      by (unfold log_handler; cbn [up_l l_ l_nh l_hlog hgate]; now rewrite Hl).
    rewrite Hg. destruct (gate_val (nh (l_ s) + 1) (hgate (l_ s))); [|reflexivity].
    now destruct (hres_any q2 id n _).
Qed.

(* ---- C11, seen from the delivery: what reaches a handler or the protocol service was free *)
Lemma delivered_was_free p s id :
  reserves p = Some id -> delivered (snd (proto_body p s)) = true -> inuse id s = false.
Proof.
  intros Hr Hd. destruct (inuse id s) eqn:Hi; auto.
  destruct (inuse_not_delivered p s id Hr Hi) as [H _]. congruence.
Qed.

(* ---- C16: every packet is processed, answered, ends the connection with a protocol error that is
   reported as Stop(Protocol), or is one of the listed silent cases *)
Lemma recv_total p s :
  match snd (proto_body p s) with
  | OHandler _ _ _ _ _ _ | OCtl _ | OCtlP _ _ _ _ _ _ => True          (* handed to the application *)
  | ODone (RSome _ _ _) => True                                         (* answered *)
  | ODone (RErr e) => exists r, e = EProto r /\ 128 <= r /\ stop_kind e = 1
  | ODone RNone =>
    ignored_kind (is_client s) (v5 (c_ s)) p = true \/ stopped (i_ s) = true \/
    (v5 (c_ s) = true /\ exists id, reserves p = Some id /\ inuse id s = true /\
       fst (proto_body p s) = io_encode (dup_ack_type p) id 145 s) \/
    (v5 (c_ s) = false /\ is_client s = true /\ exists id, p = KPubrel id /\ memN id (pubrel (p_ s)) = false /\
       closedio (fst (proto_body p s)) = true)
  end.
Proof.
  destruct (snd (proto_body p s)) as [[|t i r|[r|]]| | |] eqn:E; auto.
  - now apply silent_outcomes.
  - exists r. repeat split; auto.
    apply proto_err_table in E as [->|[(-> & _)|[(-> & _)|(-> & _)]]]; lia.
  - now apply body_never_service_error in E.
Qed.

Lemma io_encode_effect t id r s :
  wire (i_ (io_encode t id r s)) = (if closedio s then wire (i_ s) else wire (i_ s) ++ [t; id; r]) /\
  p_ (io_encode t id r s) = p_ s.
Proof. split; [apply io_encode_wire|apply io_encode_p]. Qed.

Lemma ignored_kind_table client is5 p :
  ignored_kind client is5 p =
  match p with
  | KOther | KBad _ => true
  | KAck2 => negb client
  | KAuth => negb is5
  | _ => false
  end.
Proof. reflexivity. Qed.

(* v5 server: a QoS above the advertised maximum *)
Lemma qos_not_supported_refused qos id topic alias retain plen s :
  v5 (c_ s) = true -> is_client s = false -> 0 < qos -> topic <> 4 -> over_quota s = false ->
  max_qos (c_ s) < qos ->
  proto_body (KPublish qos id topic alias retain plen) s = (s, ODone (RErr (EProto 155))).
Proof.
  unfold over_quota. intros Hv Hc Hq Ht Ho Hm. apply N.ltb_lt in Hq, Hm. apply N.eqb_neq in Ht.
  bodies. rewrite Hv, Hc, Hq, Ht in *. cbv beta iota zeta. rewrite Ho, Hm. reflexivity.
Qed.

(* MqttShared::close() of a v3 client: the guarded DISCONNECT *)
Lemma close3c_wire s :
  wire (i_ (close3c s)) = (if dsent (p_ s) || closedio s then wire (i_ s) else wire (i_ s) ++ [224; 0; 0]) /\
  dsent (p_ (close3c s)) = true /\ closedio (close3c s) = true.
Proof.
  split; [|split; [now rewrite close3c_p|apply close3c_closed]].
  unfold close3c, test_set_dsent. destruct (dsent (p_ s)); rewrite io_close_wire; [reflexivity|].
  rewrite io_encode_wire. reflexivity.
Qed.
