(* Proofs/PayloadProofs.v -- in progress *)
From MV Require Import Base.Prelude Base.Res Model.Payload.
