(* Proofs/PayloadProofs.v -- invariants of Model/Payload.v and the lemmas behind Props/C10pl.v *)
From MV Require Import Base.Prelude Base.Res Model.Payload.

Ltac proj := cbn [items ch_len f_eof f_error f_need_read ch_err max_buf recv_reg
                  set_items set_eof set_errflag set_need_read set_err set_recv
                  md pl rd got woken set_pl set_rd set_got set_woken fst snd] in *.

(* ------------------------------------------------------------------ the channel *)
Definition sum_len (l : list bytes) : N := fold_right (fun d a => len d + a) 0 l.

Lemma sum_len_cons d l : sum_len (d :: l) = len d + sum_len l.
Proof. reflexivity. Qed.

Lemma sum_len_app l d : sum_len (l ++ [d]) = sum_len l + len d.
Proof.
  induction l as [|h t IH]; cbn [app]; rewrite ?sum_len_cons; [cbn [sum_len fold_right]; lia|].
  rewrite IH. lia.
Qed.

(* `len` is the number of buffered bytes *)
Definition chan_ok (c : chan) : Prop := ch_len c = sum_len (items c).

Definition same_flags (c c' : chan) : Prop :=
  f_eof c' = f_eof c /\ f_error c' = f_error c /\ ch_err c' = ch_err c /\ max_buf c' = max_buf c.

(* c' is c with the front chunk d taken out *)
Definition popped (c : chan) (d : bytes) (c' : chan) : Prop :=
  items c = d :: items c' /\ ch_len c' = ch_len c - len d /\ same_flags c c' /\ recv_reg c' = recv_reg c.

(* c' is c with every chunk taken out *)
Definition drained (c c' : chan) : Prop :=
  items c' = [] /\ ch_len c' = 0 /\ same_flags c c' /\ recv_reg c' = recv_reg c.

Lemma recv_wake_eq c : recv_wake c = (set_recv c false, recv_reg c).
Proof. destruct c as [i l e r n x m g]. unfold recv_wake, set_recv. proj. destruct g; reflexivity. Qed.

Lemma feed_data_spec c d :
  exists c', feed_data c d = (c', recv_reg c) /\ items c' = items c ++ [d] /\
             ch_len c' = ch_len c + len d /\ same_flags c c' /\ recv_reg c' = false.
Proof.
  unfold feed_data. rewrite recv_wake_eq. proj.
  destruct (max_buf c <=? ch_len c + len d); eexists; (split; [reflexivity|]); proj;
    unfold same_flags; proj; repeat split.
Qed.

Lemma feed_eof_spec c :
  exists c', feed_eof c = (c', recv_reg c) /\ items c' = items c /\ ch_len c' = ch_len c /\
             f_eof c' = true /\ f_error c' = f_error c /\ ch_err c' = ch_err c /\
             max_buf c' = max_buf c /\ recv_reg c' = false.
Proof. unfold feed_eof. rewrite recv_wake_eq. eexists. split; [reflexivity|]. proj. repeat split. Qed.

Lemma set_error_spec c e :
  exists c', set_error c e = (c', recv_reg c) /\ items c' = items c /\ ch_len c' = ch_len c /\
             f_eof c' = f_eof c /\ f_error c' = true /\ ch_err c' = Some e /\
             max_buf c' = max_buf c /\ recv_reg c' = false.
Proof. unfold set_error. rewrite recv_wake_eq. eexists. split; [reflexivity|]. proj. repeat split. Qed.

Lemma poll_read_some c d r :
  items c = d :: r -> len d <= ch_len c ->
  exists c1, poll_read c = Ok (RSome d, c1) /\ popped c d c1 /\ items c1 = r.
Proof.
  intros Hi Hl. unfold poll_read, get_data. rewrite Hi. unfold sub_chk.
  destruct (N.leb_spec (len d) (ch_len c)); [|lia]. cbn [bind].
  destruct (ch_len c - len d <? _); eexists; (split; [reflexivity|]); unfold popped, same_flags; proj;
    rewrite Hi; repeat split.
Qed.

Lemma poll_read_empty c :
  items c = [] ->
  poll_read c = match ch_err c with
                | Some e => Ok (RErr e, set_eof (set_err c None))
                | None => if f_eof c || f_error c then Ok (RNone, c) else Ok (RPending, set_recv c true)
                end.
Proof. intros Hi. unfold poll_read, get_data. rewrite Hi. reflexivity. Qed.

Lemma chan_ok_front c d r : chan_ok c -> items c = d :: r -> len d <= ch_len c.
Proof. unfold chan_ok. intros H Hi. rewrite H, Hi, sum_len_cons. lia. Qed.

Lemma chan_ok_popped c d c1 : chan_ok c -> popped c d c1 -> chan_ok c1.
Proof.
  unfold chan_ok, popped. intros H (Hi & Hl & _). rewrite Hl, H, Hi, sum_len_cons. lia.
Qed.

Lemma chan_ok_drained c c0 : drained c c0 -> chan_ok c0.
Proof. unfold chan_ok, drained. intros (Hi & Hl & _). rewrite Hi, Hl. reflexivity. Qed.

Lemma drained_refl c : chan_ok c -> items c = [] -> drained c c.
Proof.
  unfold chan_ok, drained, same_flags. intros H Hi. rewrite Hi in H. cbn in H. repeat split; assumption.
Qed.

Lemma drained_popped c d c1 c0 : popped c d c1 -> drained c1 c0 -> drained c c0.
Proof.
  unfold popped, drained, same_flags.
  intros (_ & _ & (A1 & A2 & A3 & A4) & A5) (B1 & B2 & (B3 & B4 & B5 & B6) & B7).
  repeat split; congruence.
Qed.

(* the result of the last read of read_all's loop, on a channel without chunks *)
Definition all_end (c c0 : chan) (acc : bytes) : rstate * chan * list bytes :=
  match ch_err c with
  | Some e => (Done (Some e), set_eof (set_err c0 None), [])
  | None =>
    if f_eof c || f_error c then (Done None, c0, [acc])
    else (AllLoop acc, set_recv c0 true, [])
  end.

Lemma all_loop_empty f c buf :
  items c = [] -> all_loop (S f) c buf = Ok (all_end c c buf).
Proof.
  intros Hi. cbn [all_loop]. rewrite (poll_read_empty c Hi). unfold all_end.
  destruct (ch_err c); cbn [bind]; [reflexivity|].
  destruct (f_eof c || f_error c); reflexivity.
Qed.

Lemma all_loop_drain its : forall c buf fuel,
  items c = its -> chan_ok c -> (length its < fuel)%nat ->
  exists c0, drained c c0 /\
             all_loop fuel c buf = Ok (all_end c c0 (buf ++ concat its)).
Proof.
  induction its as [|d r IH]; intros c buf fuel Hi Hok Hf.
  - exists c. split; [apply drained_refl; assumption|].
    destruct fuel as [|f]; [cbn in Hf; lia|].
    cbn [concat]. rewrite app_nil_r. apply all_loop_empty. assumption.
  - destruct fuel as [|f]; [cbn in Hf; lia|]. cbn [length] in Hf.
    destruct (poll_read_some c d r Hi (chan_ok_front _ _ _ Hok Hi)) as (c1 & Hp & Hpop & Hi1).
    cbn [all_loop]. rewrite Hp. cbn [bind].
    destruct (IH c1 (buf ++ d) f Hi1 (chan_ok_popped _ _ _ Hok Hpop) ltac:(lia)) as (c0 & Hd & Hl).
    exists c0. split; [eapply drained_popped; eassumption|].
    rewrite Hl. cbn [concat]. rewrite app_assoc.
    destruct Hpop as (_ & _ & (F1 & F2 & F3 & _) & _). unfold all_end. rewrite F1, F2, F3. reflexivity.
Qed.

Lemma all_loop_spec c buf :
  chan_ok c ->
  exists c0, drained c c0 /\
             all_loop (loop_fuel c) c buf = Ok (all_end c c0 (buf ++ concat (items c))).
Proof. intros Hok. apply all_loop_drain; auto. Qed.

(* ------------------------------------------------------------------ one poll of the reader, explicitly *)
Definition fresh (r : rstate) : bool := match r with AllNew | AllFirst => true | _ => false end.
Definition acc_of (r : rstate) : bytes := match r with AllLoop b => b | _ => [] end.
Definition is_all (r : rstate) : bool := match r with AllNew | AllFirst | AllLoop _ => true | _ => false end.
Definition is_loop (r : rstate) : bool := match r with LoopIdle | LoopWait => true | _ => false end.
Definition isnil {A} (l : list A) : bool := match l with [] => true | _ => false end.

(* read_all polled on a stream: everything buffered is taken; the outcome depends on err / flags *)
Definition all_out (r : rstate) (c c0 : chan) : rstate * chan * list bytes :=
  match ch_err c with
  | Some e => (Done (Some e), set_eof (set_err c0 None), [])
  | None =>
    if f_eof c || f_error c then
      if fresh r && isnil (items c) then (Done (Some E_CONSUMED), c0, [])
      else (Done None, c0, [acc_of r ++ concat (items c)])
    else
      (if fresh r && isnil (items c) then AllFirst else AllLoop (acc_of r ++ concat (items c)),
       set_recv c0 true, [])
  end.

Lemma poll_spec_all s c :
  pl s = PStream c -> chan_ok c -> is_all (rd s) = true ->
  exists c0, drained c c0 /\
    step s Poll = Ok (let '(r, c', g) := all_out (rd s) c c0 in mkSt (md s) (PStream c') r g false).
Proof.
  intros Hp Hok Ha. cbn [step]. unfold step_poll.
  destruct (rd s) eqn:Er; try discriminate; proj; rewrite Hp.
  1,2: cbn [all_first];
    destruct (items c) as [|d r] eqn:Hi;
    [ exists c; split; [apply drained_refl; assumption|];
      rewrite (poll_read_empty c Hi); unfold all_out; rewrite Hi; cbn [fresh isnil andb];
      destruct (ch_err c); cbn [bind]; [reflexivity|];
      destruct (f_eof c || f_error c); reflexivity
    | destruct (poll_read_some c d r Hi (chan_ok_front _ _ _ Hok Hi)) as (c1 & Hpr & Hpop & Hi1);
      rewrite Hpr; cbn [bind];
      destruct (all_loop_spec c1 d (chan_ok_popped _ _ _ Hok Hpop)) as (c0 & Hd & Hl);
      exists c0; split; [eapply drained_popped; eassumption|];
      rewrite Hl, Hi1; cbn [bind];
      destruct Hpop as (_ & _ & (F1 & F2 & F3 & _) & _);
      unfold all_out, all_end; rewrite Hi, F1, F2, F3; cbn [fresh isnil andb acc_of app concat];
      destruct (ch_err c); [reflexivity|]; destruct (f_eof c || f_error c); reflexivity ].
  destruct (all_loop_spec c buf Hok) as (c0 & Hd & Hl). exists c0. split; [assumption|].
  rewrite Hl. cbn [bind]. unfold all_out, all_end. cbn [fresh andb acc_of].
  destruct (ch_err c); [reflexivity|]. destruct (f_eof c || f_error c); reflexivity.
Qed.

Definition loop_out (s : st) (c : chan) : st :=
  match ch_err c with
  | Some e => mkSt (md s) (PStream (set_eof (set_err c None))) (Done (Some e)) (got s) false
  | None =>
    if f_eof c || f_error c then mkSt (md s) (PStream c) (Done None) (got s) false
    else mkSt (md s) (PStream (set_recv c true)) LoopWait (got s) false
  end.

Lemma poll_spec_loop s c :
  pl s = PStream c -> chan_ok c -> is_loop (rd s) = true ->
  match items c with
  | d :: _ => exists c1, popped c d c1 /\
                         step s Poll = Ok (mkSt (md s) (PStream c1) LoopIdle (got s ++ [d]) false)
  | [] => step s Poll = Ok (loop_out s c)
  end.
Proof.
  intros Hp Hok Ha. cbn [step]. unfold step_poll.
  destruct (rd s) eqn:Er; try discriminate; proj; rewrite Hp; cbn [pl_read].
  all: destruct (items c) as [|d r] eqn:Hi;
    [ rewrite (poll_read_empty c Hi); unfold loop_out;
      destruct (ch_err c); cbn [bind]; [reflexivity|];
      destruct (f_eof c || f_error c); reflexivity
    | destruct (poll_read_some c d r Hi (chan_ok_front _ _ _ Hok Hi)) as (c1 & Hpr & Hpop & Hi1);
      exists c1; split; [assumption|]; rewrite Hpr; reflexivity ].
Qed.

(* ------------------------------------------------------------------ the invariant of a streamed payload *)
(* F: the chunks fed so far (first piece included); eof / err: feed_eof / set_error has been called *)
Definition content (s : st) (c : chan) (F : list bytes) : Prop :=
  match md s, rd s with
  | MLoop, (LoopIdle | LoopWait | Done _) => got s ++ items c = F
  | MAll, (AllNew | AllFirst) => got s = [] /\ items c = F
  | MAll, AllLoop buf => got s = [] /\ buf ++ concat (items c) = concat F
  | MAll, Done None => exists r, got s = [r] /\ r ++ concat (items c) = concat F
  | MAll, Done (Some _) => got s = []
  | _, _ => False
  end.

Record Inv (F : list bytes) (eof err : bool) (s : st) (c : chan) : Prop := mkInv {
  i_pl : pl s = PStream c;
  i_ok : chan_ok c;
  i_content : content s c F;
  i_eof1 : f_eof c = true -> eof = true \/ exists e, rd s = Done (Some e);
  i_eof2 : eof = true -> f_eof c = true;
  i_err1 : f_error c = true -> ch_err c <> None \/ exists e, rd s = Done (Some e);
  i_err2 : err = false -> ch_err c = None /\ f_error c = false;
  i_wake : borrowed (rd s) = true -> woken s = true \/ (recv_reg c = true /\ can_progress c = false)
}.

Lemma content_ext s s' c c' F F' :
  md s' = md s -> rd s' = rd s -> got s' = got s ->
  (forall g, g ++ items c = F -> g ++ items c' = F') ->
  (forall b, b ++ concat (items c) = concat F -> b ++ concat (items c') = concat F') ->
  content s c F -> content s' c' F'.
Proof.
  unfold content. intros -> -> -> H1 H2.
  destruct (md s), (rd s) as [| | | | buf |[e|]]; auto.
  - intros (A & B). split; [assumption|]. apply (H1 []). assumption.
  - intros (A & B). split; [assumption|]. apply (H1 []). assumption.
  - intros (A & B). split; auto.
  - intros (r & A & B). exists r. split; auto.
Qed.

Lemma inv_sender F eof err s c c' w (F' : list bytes) (eof' err' : bool) :
  Inv F eof err s c ->
  chan_ok c' ->
  (forall g, g ++ items c = F -> g ++ items c' = F') ->
  (forall b, b ++ concat (items c) = concat F -> b ++ concat (items c') = concat F') ->
  (f_eof c' = true -> f_eof c = true \/ eof' = true) -> (eof = true -> eof' = true) ->
  (eof' = true -> f_eof c' = true) ->
  (f_error c' = true -> (f_error c = true /\ ch_err c' = ch_err c) \/ ch_err c' <> None) ->
  (err' = false -> err = false /\ ch_err c' = ch_err c /\ f_error c' = f_error c) ->
  w = recv_reg c ->
  Inv F' eof' err' (set_woken (set_pl s (PStream c')) (woken s || w)) c'.
Proof.
  intros I Hok H1 H2 E1 E2 E3 R1 R2 ->. constructor; proj.
  - reflexivity.
  - assumption.
  - eapply content_ext; [| | | exact H1 | exact H2 | apply I]; reflexivity.
  - intros H. destruct (E1 H) as [H'|H']; [|auto]. destruct (i_eof1 _ _ _ _ _ I H') as [X|X]; auto.
  - assumption.
  - intros H. destruct (R1 H) as [(H' & He)|H']; [|auto].
    destruct (i_err1 _ _ _ _ _ I H') as [X|X]; [left; congruence|auto].
  - intros H. destruct (R2 H) as (A & B & C). destruct (i_err2 _ _ _ _ _ I A) as (X & Y). split; congruence.
  - intros H. left. destruct (i_wake _ _ _ _ _ I H) as [X|(X & _)]; rewrite X; [reflexivity|apply orb_true_r].
Qed.

Lemma concat_snoc (l : list bytes) d : concat (l ++ [d]) = concat l ++ d.
Proof. rewrite concat_app. cbn [concat]. rewrite app_nil_r. reflexivity. Qed.

Lemma inv_feed F eof err s c d :
  Inv F eof err s c ->
  exists c', step s (Feed d) = Ok (set_woken (set_pl s (PStream c')) (woken s || recv_reg c)) /\
             Inv (F ++ [d]) eof err (set_woken (set_pl s (PStream c')) (woken s || recv_reg c)) c'.
Proof.
  intros I. destruct (feed_data_spec c d) as (c' & Hf & Hi & Hl & (A1 & A2 & A3 & A4) & Hr).
  exists c'. split.
  - cbn [step]. unfold on_chan. rewrite (i_pl _ _ _ _ _ I), Hf. reflexivity.
  - eapply inv_sender; try exact I; try reflexivity.
    + unfold chan_ok. rewrite Hl, Hi, sum_len_app, (i_ok _ _ _ _ _ I). reflexivity.
    + intros g H. rewrite Hi, app_assoc, H. reflexivity.
    + intros b H. rewrite Hi, !concat_snoc, app_assoc, H. reflexivity.
    + rewrite A1. auto.
    + auto.
    + rewrite A1. apply I.
    + rewrite A2, A3. auto.
    + rewrite A2, A3. auto.
Qed.

Lemma inv_feed_eof F eof err s c :
  Inv F eof err s c ->
  exists c', step s FeedEof = Ok (set_woken (set_pl s (PStream c')) (woken s || recv_reg c)) /\
             Inv F true err (set_woken (set_pl s (PStream c')) (woken s || recv_reg c)) c'.
Proof.
  intros I. destruct (feed_eof_spec c) as (c' & Hf & Hi & Hl & A1 & A2 & A3 & A4 & Hr).
  exists c'. split.
  - cbn [step]. unfold on_chan. rewrite (i_pl _ _ _ _ _ I), Hf. reflexivity.
  - eapply inv_sender; try exact I; try reflexivity.
    + unfold chan_ok. rewrite Hl, Hi. apply I.
    + rewrite Hi. auto.
    + rewrite Hi. auto.
    + auto.
    + auto.
    + rewrite A2, A3. auto.
    + rewrite A2, A3. auto.
Qed.

Lemma inv_set_error F eof err s c e :
  Inv F eof err s c ->
  exists c', step s (SetError e) = Ok (set_woken (set_pl s (PStream c')) (woken s || recv_reg c)) /\
             ch_err c' = Some e /\
             Inv F eof true (set_woken (set_pl s (PStream c')) (woken s || recv_reg c)) c'.
Proof.
  intros I. destruct (set_error_spec c e) as (c' & Hf & Hi & Hl & A1 & A2 & A3 & A4 & Hr).
  exists c'. split; [|split; [assumption|]].
  - cbn [step]. unfold on_chan. rewrite (i_pl _ _ _ _ _ I), Hf. reflexivity.
  - eapply inv_sender; try exact I; try reflexivity.
    + unfold chan_ok. rewrite Hl, Hi. apply I.
    + rewrite Hi. auto.
    + rewrite Hi. auto.
    + rewrite A1. auto.
    + auto.
    + rewrite A1. apply I.
    + intros _. right. rewrite A3. discriminate.
    + discriminate.
Qed.

Lemma inv_take F eof err s c :
  Inv F eof err s c -> Inv F eof err (step_take s) c.
Proof.
  intros I. unfold step_take. destruct (borrowed (rd s)); [assumption|].
  cbn [pl_take fst]. destruct I. constructor; proj; auto.
Qed.

Lemma content_mode_loop s c F : content s c F -> is_loop (rd s) = true -> md s = MLoop.
Proof. unfold content. destruct (md s), (rd s); try discriminate; try contradiction; auto. Qed.

Lemma content_mode_all s c F : content s c F -> is_all (rd s) = true -> md s = MAll.
Proof. unfold content. destruct (md s), (rd s); try discriminate; try contradiction; auto. Qed.

Lemma not_done_loop r : is_loop r = true -> forall e, r <> Done e.
Proof. destruct r; try discriminate; intros _ e H; discriminate. Qed.
Lemma not_done_all r : is_all r = true -> forall e, r <> Done e.
Proof. destruct r; try discriminate; intros _ e H; discriminate. Qed.

(* facts about a running reader that follow from the invariant *)
Lemma inv_eof_running F eof err s c :
  Inv F eof err s c -> running (rd s) = true -> f_eof c = true -> eof = true.
Proof.
  intros I Hr H. destruct (i_eof1 _ _ _ _ _ I H) as [X|(e & X)]; [assumption|].
  rewrite X in Hr. discriminate.
Qed.

Lemma inv_err_running F eof err s c :
  Inv F eof err s c -> running (rd s) = true -> f_error c = true -> ch_err c <> None.
Proof.
  intros I Hr H. destruct (i_err1 _ _ _ _ _ I H) as [X|(e & X)]; [assumption|].
  rewrite X in Hr. discriminate.
Qed.

Lemma running_loop r : is_loop r = true -> running r = true.
Proof. destruct r; auto; discriminate. Qed.
Lemma running_all r : is_all r = true -> running r = true.
Proof. destruct r; auto; discriminate. Qed.

Lemma inv_poll_loop F eof err s c :
  Inv F eof err s c -> is_loop (rd s) = true ->
  exists s' c', step s Poll = Ok s' /\ Inv F eof err s' c' /\ md s' = md s.
Proof.
  intros I Hl.
  pose proof (content_mode_loop _ _ _ (i_content _ _ _ _ _ I) Hl) as Hm.
  pose proof (running_loop _ Hl) as Hrun.
  pose proof (poll_spec_loop s c (i_pl _ _ _ _ _ I) (i_ok _ _ _ _ _ I) Hl) as P.
  pose proof (i_content _ _ _ _ _ I) as C. unfold content in C. rewrite Hm in C.
  assert (C' : got s ++ items c = F) by (destruct (rd s); try discriminate; exact C). clear C.
  destruct (items c) as [|d r] eqn:Hi.
  - (* no chunk *)
    unfold loop_out in P. destruct (ch_err c) as [e|] eqn:He.
    + eexists. exists (set_eof (set_err c None)). split; [exact P|]. split; [|reflexivity].
      constructor; proj.
      * reflexivity.
      * unfold chan_ok. proj. apply I.
      * unfold content. proj. rewrite Hm, Hi. assumption.
      * intros _. right. eauto.
      * reflexivity.
      * intros _. right. eauto.
      * intros H. destruct (i_err2 _ _ _ _ _ I H) as (X & _). congruence.
      * discriminate.
    + destruct (f_eof c || f_error c) eqn:Hf.
      * eexists. exists c. split; [exact P|]. split; [|reflexivity].
        constructor; proj.
        -- reflexivity.
        -- apply I.
        -- unfold content. proj. rewrite Hm, Hi. assumption.
        -- intros H. left. eapply inv_eof_running; eassumption.
        -- apply I.
        -- intros H. exfalso. exact (inv_err_running _ _ _ _ _ I Hrun H He).
        -- apply I.
        -- discriminate.
      * apply orb_false_iff in Hf as (Hf1 & Hf2).
        eexists. exists (set_recv c true). split; [exact P|]. split; [|reflexivity].
        constructor; proj.
        -- reflexivity.
        -- unfold chan_ok. proj. apply I.
        -- unfold content. proj. rewrite Hm, Hi. assumption.
        -- rewrite Hf1. discriminate.
        -- apply I.
        -- rewrite Hf2. discriminate.
        -- apply I.
        -- intros _. right. split; [reflexivity|]. unfold can_progress. proj. rewrite Hi, He, Hf1, Hf2. reflexivity.
  - destruct P as (c1 & Hpop & P).
    eexists. exists c1. split; [exact P|]. split; [|reflexivity].
    pose proof Hpop as (Q1 & Q2 & (Q3 & Q4 & Q5 & Q6) & Q7).
    constructor; proj.
    + reflexivity.
    + eapply chan_ok_popped; [apply I|eassumption].
    + unfold content. proj. rewrite Hm. rewrite Hi in Q1. injection Q1 as <-.
      rewrite <- app_assoc. exact C'.
    + rewrite Q3. intros H. left. eapply inv_eof_running; eassumption.
    + rewrite Q3. apply I.
    + rewrite Q4, Q5. intros H. left. eapply inv_err_running; eassumption.
    + rewrite Q4, Q5. apply I.
    + discriminate.
Qed.

Lemma andb_fresh_nil r (l : list bytes) : fresh r && isnil l = true -> fresh r = true /\ l = [].
Proof. intros H. apply andb_true_iff in H as (A & B). split; [assumption|]. destruct l; [reflexivity|discriminate]. Qed.

Lemma inv_poll_all F eof err s c :
  Inv F eof err s c -> is_all (rd s) = true ->
  exists s' c', step s Poll = Ok s' /\ Inv F eof err s' c' /\ md s' = md s.
Proof.
  intros I Ha.
  pose proof (content_mode_all _ _ _ (i_content _ _ _ _ _ I) Ha) as Hm.
  pose proof (running_all _ Ha) as Hrun.
  destruct (poll_spec_all s c (i_pl _ _ _ _ _ I) (i_ok _ _ _ _ _ I) Ha) as (c0 & Hd & P).
  assert (C1 : acc_of (rd s) ++ concat (items c) = concat F /\ (fresh (rd s) = true -> items c = F)).
  { pose proof (i_content _ _ _ _ _ I) as C. unfold content in C. rewrite Hm in C.
    destruct (rd s); try discriminate; cbn [acc_of fresh app].
    - destruct C as (_ & <-). auto.
    - destruct C as (_ & <-). auto.
    - destruct C as (_ & C). split; [assumption|discriminate]. }
  destruct C1 as (C1 & C2).
  pose proof Hd as (D1 & D2 & (D3 & D4 & D5 & D6) & D7).
  unfold all_out in P.
  destruct (ch_err c) as [e|] eqn:He.
  - cbv beta iota in P.
    eexists. exists (set_eof (set_err c0 None)). split; [exact P|]. split; [|reflexivity].
    constructor; proj.
    + reflexivity.
    + unfold chan_ok. proj. rewrite D1, D2. reflexivity.
    + unfold content. proj. rewrite Hm. reflexivity.
    + intros _. right. eauto.
    + reflexivity.
    + intros _. right. eauto.
    + intros H. destruct (i_err2 _ _ _ _ _ I H) as (X & _). congruence.
    + discriminate.
  - destruct (f_eof c || f_error c) eqn:Hf.
    + destruct (fresh (rd s) && isnil (items c)) eqn:Hn; cbv beta iota in P.
      * eexists. exists c0. split; [exact P|]. split; [|reflexivity].
        constructor; proj.
        -- reflexivity.
        -- eapply chan_ok_drained; eassumption.
        -- unfold content. proj. rewrite Hm. reflexivity.
        -- intros _. right. eauto.
        -- rewrite D3. apply I.
        -- intros _. right. eauto.
        -- intros H. destruct (i_err2 _ _ _ _ _ I H) as (X & Y). split; congruence.
        -- discriminate.
      * eexists. exists c0. split; [exact P|]. split; [|reflexivity].
        constructor; proj.
        -- reflexivity.
        -- eapply chan_ok_drained; eassumption.
        -- unfold content. proj. rewrite Hm. eexists. split; [reflexivity|].
           rewrite D1. cbn [concat]. rewrite app_nil_r. exact C1.
        -- rewrite D3. intros H. left. eapply inv_eof_running; eassumption.
        -- rewrite D3. apply I.
        -- rewrite D4. intros H. exfalso. exact (inv_err_running _ _ _ _ _ I Hrun H He).
        -- intros H. destruct (i_err2 _ _ _ _ _ I H) as (X & Y). split; congruence.
        -- discriminate.
    + apply orb_false_iff in Hf as (Hf1 & Hf2).
      assert (W : recv_reg (set_recv c0 true) = true /\ can_progress (set_recv c0 true) = false).
      { split; [reflexivity|]. unfold can_progress. proj. rewrite D1, D5, ?He, D3, D4, Hf1, Hf2. reflexivity. }
      destruct (fresh (rd s) && isnil (items c)) eqn:Hn; cbv beta iota in P.
      * apply andb_fresh_nil in Hn as (Hn1 & Hn2).
        eexists. exists (set_recv c0 true). split; [exact P|]. split; [|reflexivity].
        constructor; proj.
        -- reflexivity.
        -- unfold chan_ok. proj. rewrite D1, D2. reflexivity.
        -- unfold content. proj. rewrite Hm. split; [reflexivity|]. rewrite D1, <- (C2 Hn1), Hn2. reflexivity.
        -- rewrite D3, Hf1. discriminate.
        -- rewrite D3. apply I.
        -- rewrite D4, Hf2. discriminate.
        -- intros H. destruct (i_err2 _ _ _ _ _ I H) as (X & Y). split; congruence.
        -- intros _. right. exact W.
      * eexists. exists (set_recv c0 true). split; [exact P|]. split; [|reflexivity].
        constructor; proj.
        -- reflexivity.
        -- unfold chan_ok. proj. rewrite D1, D2. reflexivity.
        -- unfold content. proj. rewrite Hm. split; [reflexivity|].
           rewrite D1. cbn [concat]. rewrite app_nil_r. exact C1.
        -- rewrite D3, Hf1. discriminate.
        -- rewrite D3. apply I.
        -- rewrite D4, Hf2. discriminate.
        -- intros H. destruct (i_err2 _ _ _ _ _ I H) as (X & Y). split; congruence.
        -- intros _. right. exact W.
Qed.

Lemma rd_cases r : is_loop r = true \/ is_all r = true \/ exists x, r = Done x.
Proof. destruct r; cbn; eauto. Qed.

Lemma step_poll_done s x : rd s = Done x -> step s Poll = Ok s.
Proof. intros H. cbn [step]. unfold step_poll. rewrite H. reflexivity. Qed.

(* every operation keeps the invariant and succeeds: no panic, the fuel of read_all's loop suffices *)
Lemma inv_step F eof err s c o :
  Inv F eof err s c ->
  exists s' c', step s o = Ok s' /\
                Inv (F ++ fed_ops [o]) (eof || is_feed_eof o) (err || is_set_error o) s' c' /\
                md s' = md s.
Proof.
  intros I. destruct o as [d| |e| |]; cbn [fed_ops is_feed_eof is_set_error];
    rewrite ?app_nil_r, ?orb_false_r, ?orb_true_r.
  - destruct (inv_feed _ _ _ _ _ d I) as (c' & H1 & H2). eauto.
  - destruct (inv_feed_eof _ _ _ _ _ I) as (c' & H1 & H2). eauto.
  - destruct (inv_set_error _ _ _ _ _ e I) as (c' & H1 & _ & H2). eauto.
  - destruct (rd_cases (rd s)) as [H|[H|(x & H)]].
    + eapply inv_poll_loop; eassumption.
    + eapply inv_poll_all; eassumption.
    + exists s, c. split; [eapply step_poll_done; eassumption|]. auto.
  - exists (step_take s), c. split; [reflexivity|]. split; [apply inv_take; assumption|].
    unfold step_take. destruct (borrowed (rd s)); reflexivity.
Qed.

Lemma fed_ops_app a b : fed_ops (a ++ b) = fed_ops a ++ fed_ops b.
Proof.
  induction a as [|o r IH]; [reflexivity|]. cbn [app fed_ops]. destruct o; rewrite IH; reflexivity.
Qed.

Definition err_set (ops : list op) : bool := existsb is_set_error ops.

Lemma inv_run ops : forall F eof err s c,
  Inv F eof err s c ->
  exists s' c', run_from s ops = Ok s' /\
                Inv (F ++ fed_ops ops) (eof || eof_fed ops) (err || err_set ops) s' c' /\ md s' = md s.
Proof.
  induction ops as [|o r IH]; intros F eof err s c I.
  - exists s, c. cbn [run_from fed_ops eof_fed err_set existsb]. rewrite app_nil_r, !orb_false_r. auto.
  - destruct (inv_step _ _ _ _ _ o I) as (s1 & c1 & H1 & I1 & M1).
    destruct (IH _ _ _ _ _ I1) as (s2 & c2 & H2 & I2 & M2).
    exists s2, c2. cbn [run_from]. rewrite H1. cbn [bind]. split; [assumption|]. split; [|congruence].
    assert (E1 : F ++ fed_ops (o :: r) = (F ++ fed_ops [o]) ++ fed_ops r).
    { change (o :: r) with ([o] ++ r). rewrite fed_ops_app, app_assoc. reflexivity. }
    assert (E2 : eof || eof_fed (o :: r) = (eof || is_feed_eof o) || eof_fed r).
    { unfold eof_fed. cbn [existsb]. apply orb_assoc. }
    assert (E3 : err || err_set (o :: r) = (err || is_set_error o) || err_set r).
    { unfold err_set. cbn [existsb]. apply orb_assoc. }
    rewrite E1, E2, E3. exact I2.
Qed.

Lemma inv_init m first size :
  exists c, Inv (first_chunks first) false false (init_stream m first size) c.
Proof.
  unfold init_stream, from_stream. destruct first as [|b t].
  - exists (chan_new size). constructor; proj; try discriminate; try reflexivity.
    + unfold content. proj. destruct m; cbn [start_of]; auto.
    + auto.
    + destruct m; discriminate.
  - destruct (feed_data_spec (chan_new size) (b :: t)) as (c' & Hf & Hi & Hl & (A1 & A2 & A3 & A4) & Hr).
    exists c'. rewrite Hf. cbn [fst]. constructor; proj.
    + reflexivity.
    + unfold chan_ok. rewrite Hl, Hi. cbn. lia.
    + unfold content. proj. rewrite Hi. destruct m; cbn [start_of first_chunks app]; auto.
    + rewrite A1. discriminate.
    + discriminate.
    + rewrite A2. discriminate.
    + intros _. rewrite A2, A3. auto.
    + destruct m; discriminate.
Qed.

(* the invariant in every reachable state *)
Lemma reach m first size ops :
  exists s c, run m first size ops = Ok s /\
              Inv (fed_chunks first ops) (eof_fed ops) (err_set ops) s c /\ md s = m.
Proof.
  destruct (inv_init m first size) as (c0 & I0).
  destruct (inv_run ops _ _ _ _ _ I0) as (s & c & H & I & M).
  exists s, c. split; [exact H|]. split; [exact I|]. rewrite M. reflexivity.
Qed.

Lemma reach_inv m first size ops s :
  run m first size ops = Ok s ->
  exists c, Inv (fed_chunks first ops) (eof_fed ops) (err_set ops) s c /\ md s = m.
Proof.
  intros H. destruct (reach m first size ops) as (s' & c & H' & I & M).
  rewrite H in H'. injection H' as <-. eauto.
Qed.
